(* C29 - the greenlet trampoline of lib/sqlalchemy/util/concurrency.py (greenlet_spawn / await_) over
   resumption trees.

   A piece of SYNC code that performs DBAPI calls through an asyncio driver adapter is a resumption
   tree: it either returns ([Ret]), or it is suspended in [await_(awaitable)] ([Await i k]: the
   greenlet switched to its parent handing over the awaitable [i]; [k] is the rest of the greenlet,
   resumed with the value ([context.switch(value)]) or the exception ([context.throw(...)]) the
   awaitable produced), or - user level only - it is at an [asyncio.shield(create_task(inner))]
   ([Shield inner k]).

   * [run_sync]   : the sync facade - every awaitable is an ordinary blocking DBAPI call.
   * [greenlet_spawn] : the driver loop of greenlet_spawn as written (switch_occurred /
     _require_await included), as a tree transformer: what the COROUTINE awaits.
   * [run_loop]   : the event loop running a coroutine, with a stream of cancellation decisions, one
     per suspension: [N] no cancellation, [C eff] a CancelledError is delivered at this suspension and
     the request already handed to the driver does ([eff = true], aiosqlite: it is queued on the
     connection thread) or does not take effect.
   Trusted: the greenlet C extension implements switch/throw as "resume the continuation"; the event
   loop delivers a cancellation at a suspension point of the task. *)
From Coq Require Import List Bool Arith Lia.
Import ListNotations.

Inductive cdec := N | C (eff : bool).

(* trace entries of the event loop: a request of the task itself (with: cancelled here), a request
   made by a shielded inner task, the task's suspension on a shield's outer future *)
Inductive ev (IO : Type) := EvAwait (i : IO) (c : bool) | EvInner (i : IO) | EvShield (c : bool).
Arguments EvAwait {IO} i c.
Arguments EvInner {IO} i.
Arguments EvShield {IO} c.
Definition inner_ev {IO} (e : ev IO) : list (ev IO) :=
  match e with EvAwait i _ => [EvInner i] | EvInner i => [EvInner i] | EvShield _ => [] end.
Definition ev_io {IO} (e : ev IO) : list IO :=
  match e with EvAwait i _ => [i] | EvInner i => [i] | EvShield _ => [] end.
Definition ev_uncancelled {IO} (e : ev IO) : Prop :=
  match e with EvAwait _ c => c = false | EvInner _ => True | EvShield c => c = false end.

Definition quiet (cs : list cdec) : Prop := Forall (fun d => d = N) cs.
Fixpoint ncancel (cs : list cdec) : nat :=
  match cs with [] => 0 | N :: r => ncancel r | C _ :: r => S (ncancel r) end.
Definition single (cs : list cdec) : Prop := ncancel cs <= 1.

Section Tramp.
  Variables (IO V E W R : Type).
  Variable step : W -> IO -> (V + E) * W.        (* the driver: value or exception, new world *)
  Variable cancel_step : W -> IO -> W.           (* world after a cancelled request that still takes effect *)
  Variable suspends : IO -> bool.                (* false: the adapter call completes without suspending the task *)
  Variable cancelled : E.                        (* asyncio.CancelledError *)
  Variable no_await : R -> R.                    (* a normal return turned into "raise AwaitRequired" *)

  Inductive prog : Type :=
  | Ret (r : R)
  | Await (i : IO) (k : V + E -> prog)
  | Shield (inner : prog) (k : bool -> R -> prog).

  Fixpoint bind (p : prog) (f : R -> prog) : prog :=
    match p with
    | Ret r => f r
    | Await i k => Await i (fun x => bind (k x) f)
    | Shield inner k => Shield inner (fun c r => bind (k c r) f)
    end.

  (* extensional equality of trees (continuations are functions) *)
  Inductive peq : prog -> prog -> Prop :=
  | peq_ret r : peq (Ret r) (Ret r)
  | peq_await i k k' : (forall x, peq (k x) (k' x)) -> peq (Await i k) (Await i k')
  | peq_shield p p' k k' : peq p p' -> (forall c r, peq (k c r) (k' c r)) -> peq (Shield p k) (Shield p' k').

  (* ---- the sync facade: plain blocking calls, in order; a shield is just a call ---- *)
  Fixpoint run_sync (p : prog) (w : W) : R * W * list IO :=
    match p with
    | Ret r => (r, w, [])
    | Await i k =>
        let '(x, w1) := step w i in
        let '(r, w2, t) := run_sync (k x) w1 in (r, w2, i :: t)
    | Shield inner k =>
        let '(r1, w1, t1) := run_sync inner w in
        let '(r, w2, t2) := run_sync (k false r1) w1 in (r, w2, t1 ++ t2)
    end.

  (* ---- greenlet_spawn ----
       result = context.switch(args)
       while not context.dead:
           switch_occurred = True
           try:    value = await result
           except BaseException: result = context.throw(exc_info)
           else:   result = context.switch(value)
       if _require_await and not switch_occurred: raise exc.AwaitRequired(...)
       return result
     [g] is the state of the greenlet after the last switch/throw: dead with a result ([Ret]; an
     exception escaping the greenlet is re-raised by switch/throw in the parent, i.e. it IS the
     result of the coroutine), or suspended in await_ with the awaitable [i].  Code running inside a
     greenlet never shields at this level ([Shield] is user-level); it is passed through. *)
  Fixpoint spawn_loop (require switch_occurred : bool) (g : prog) : prog :=
    match g with
    | Ret r => if require && negb switch_occurred then Ret (no_await r) else Ret r
    | Await i k =>
        Await i (fun x =>
          match x with
          | inl value => spawn_loop require true (k (inl value))    (* context.switch(value) *)
          | inr e => spawn_loop require true (k (inr e))            (* context.throw(e) *)
          end)
    | Shield inner k => Shield inner (fun c r => spawn_loop require true (k c r))
    end.
  Definition greenlet_spawn (require : bool) (fn : prog) : prog := spawn_loop require false fn.

  (* every normal path of [p] goes through at least one switch *)
  Definition switches (p : prog) : Prop := match p with Ret _ => False | _ => True end.

  (* ---- the event loop with cancellation decisions ----
     result: final value, world, unconsumed decisions, trace of (awaitable, cancelled-here) *)
  Fixpoint run_loop (p : prog) (w : W) (cs : list cdec) : R * W * list cdec * list (ev IO) :=
    match p with
    | Ret r => (r, w, cs, [])
    | Await i k =>
        if suspends i then
          match cs with
          | C eff :: cs1 =>
              let w1 := if eff then cancel_step w i else w in
              let '(r, w2, cs2, t) := run_loop (k (inr cancelled)) w1 cs1 in (r, w2, cs2, EvAwait i true :: t)
          | N :: cs1 =>
              let '(x, w1) := step w i in
              let '(r, w2, cs2, t) := run_loop (k x) w1 cs1 in (r, w2, cs2, EvAwait i false :: t)
          | [] =>
              let '(x, w1) := step w i in
              let '(r, w2, cs2, t) := run_loop (k x) w1 [] in (r, w2, cs2, EvAwait i false :: t)
          end
        else
          let '(x, w1) := step w i in
          let '(r, w2, cs2, t) := run_loop (k x) w1 cs in (r, w2, cs2, EvAwait i false :: t)
    | Shield inner k =>
        (* the inner task is not the cancelled task: it always runs to completion; the outer task is
           suspended ONCE on the shield's outer future *)
        let '(r1, w1, _, t1) := run_loop inner w [] in
        match cs with
        | C _ :: cs1 =>
            let '(r, w2, cs2, t2) := run_loop (k true r1) w1 cs1 in (r, w2, cs2, flat_map inner_ev t1 ++ EvShield true :: t2)
        | N :: cs1 =>
            let '(r, w2, cs2, t2) := run_loop (k false r1) w1 cs1 in (r, w2, cs2, flat_map inner_ev t1 ++ EvShield false :: t2)
        | [] =>
            let '(r, w2, cs2, t2) := run_loop (k false r1) w1 [] in (r, w2, cs2, flat_map inner_ev t1 ++ EvShield false :: t2)
        end
    end.

  (* ================= proofs ================= *)
  Lemma peq_refl p : peq p p.
  Proof. induction p; constructor; auto. Qed.

  Lemma peq_sym p q : peq p q -> peq q p.
  Proof. induction 1; constructor; auto. Qed.

  Lemma peq_trans p q : peq p q -> forall r, peq q r -> peq p r.
  Proof.
    induction 1; intros r0 H2; inversion H2; subst; constructor; auto.
  Qed.

  Lemma peq_bind p p' f f' : peq p p' -> (forall r, peq (f r) (f' r)) -> peq (bind p f) (bind p' f').
  Proof. induction 1; intros Hf; cbn; auto; constructor; auto. Qed.

  Lemma spawn_loop_switched req g : peq (spawn_loop req true g) g.
  Proof.
    induction g; cbn.
    - rewrite andb_false_r. constructor.
    - constructor. intros [v | e]; auto.
    - constructor; auto using peq_refl.
  Qed.

  (* greenlet_spawn without _require_await is the identity on resumption trees *)
  Lemma spawn_transparent g : peq (greenlet_spawn false g) g.
  Proof.
    unfold greenlet_spawn. destruct g; cbn.
    - constructor.
    - constructor. intros [v | e]; apply spawn_loop_switched.
    - constructor; auto using peq_refl. intros; apply spawn_loop_switched.
  Qed.

  (* ... and with _require_await it is the identity on code that awaits at least once *)
  Lemma spawn_transparent_require g : switches g -> peq (greenlet_spawn true g) g.
  Proof.
    unfold greenlet_spawn. destruct g; cbn; intros H; try contradiction.
    - constructor. intros [v | e]; apply spawn_loop_switched.
    - constructor; auto using peq_refl. intros; apply spawn_loop_switched.
  Qed.

  (* the only other case: the function returned without ever awaiting -> AwaitRequired *)
  Lemma spawn_require_no_switch r : greenlet_spawn true (Ret r) = Ret (no_await r).
  Proof. reflexivity. Qed.

  Lemma run_sync_peq p q : peq p q -> forall w, run_sync p w = run_sync q w.
  Proof.
    induction 1; intros w; cbn; auto.
    - destruct (step w i) as [x w1]. rewrite H0. reflexivity.
    - rewrite IHpeq. destruct (run_sync p' w) as [[r1 w1] t1]. rewrite H1. reflexivity.
  Qed.

  Lemma run_loop_peq p q : peq p q -> forall w cs, run_loop p w cs = run_loop q w cs.
  Proof.
    induction 1; intros w cs; cbn; auto.
    - destruct (suspends i).
      + destruct cs as [|[|eff] cs1]; try (destruct (step w i) as [x w1]); rewrite H0; reflexivity.
      + destruct (step w i) as [x w1]. rewrite H0. reflexivity.
    - rewrite IHpeq. destruct (run_loop p' w []) as [[[r1 w1] c1] t1].
      destruct cs as [|[|eff] cs1]; rewrite H1; reflexivity.
  Qed.

  Lemma quiet_tail d cs : quiet (d :: cs) -> d = N /\ quiet cs.
  Proof. intros H; inversion H; auto. Qed.

  (* without cancellation the event loop performs exactly the sync run: same result, same world,
     same awaitables in the same order, none cancelled *)
  Lemma run_loop_quiet p : forall w cs, quiet cs ->
    let '(r, w', cs', t) := run_loop p w cs in
    run_sync p w = (r, w', flat_map ev_io t) /\ quiet cs' /\ Forall ev_uncancelled t.
  Proof.
    induction p as [r | i k IH | inner IHi k IHk]; intros w cs Hq; cbn.
    - repeat split; auto.
    - destruct (suspends i).
      + destruct cs as [|d cs1].
        * destruct (step w i) as [x w1]. specialize (IH x w1 [] Hq).
          destruct (run_loop (k x) w1 []) as [[[r w2] cs2] t]. destruct IH as (E1 & Q & F).
          rewrite E1. cbn. repeat split; auto. constructor; cbn; auto.
        * apply quiet_tail in Hq. destruct Hq as [-> Hq].
          destruct (step w i) as [x w1]. specialize (IH x w1 cs1 Hq).
          destruct (run_loop (k x) w1 cs1) as [[[r w2] cs2] t]. destruct IH as (E1 & Q & F).
          rewrite E1. cbn. repeat split; auto. constructor; cbn; auto.
      + destruct (step w i) as [x w1]. specialize (IH x w1 cs Hq).
        destruct (run_loop (k x) w1 cs) as [[[r w2] cs2] t]. destruct IH as (E1 & Q & F).
        rewrite E1. cbn. repeat split; auto. constructor; cbn; auto.
    - assert (Hn : quiet []) by constructor.
      specialize (IHi w [] Hn). destruct (run_loop inner w []) as [[[r1 w1] c1] t1].
      destruct IHi as (E1 & _ & F1). rewrite E1.
      assert (G : forall cs1, quiet cs1 ->
                let '(r, w2, cs2, t2) := run_loop (k false r1) w1 cs1 in
                run_sync (k false r1) w1 = (r, w2, flat_map ev_io t2)
                /\ quiet cs2 /\ Forall ev_uncancelled t2).
      { intros cs1 Hq1. apply (IHk false r1 w1 cs1 Hq1). }
      assert (Hi : flat_map ev_io (flat_map inner_ev t1) = flat_map ev_io t1 /\ Forall ev_uncancelled (flat_map inner_ev t1)).
      { clear. induction t1 as [|e t1 IH]; cbn; [split; [reflexivity|constructor]|].
        destruct IH as [IH1 IH2]. destruct e; cbn; rewrite ?IH1; split; auto; constructor; cbn; auto. }
      destruct Hi as [Hi1 Hi2].
      destruct cs as [|d cs1].
      + specialize (G [] Hn). destruct (run_loop (k false r1) w1 []) as [[[r w2] cs2] t2].
        destruct G as (E2 & Q & F2). rewrite E2, flat_map_app, Hi1. cbn. repeat split; auto.
        apply Forall_app; split; auto. constructor; cbn; auto.
      + apply quiet_tail in Hq. destruct Hq as [-> Hq].
        specialize (G cs1 Hq). destruct (run_loop (k false r1) w1 cs1) as [[[r w2] cs2] t2].
        destruct G as (E2 & Q & F2). rewrite E2, flat_map_app, Hi1. cbn. repeat split; auto.
        apply Forall_app; split; auto. constructor; cbn; auto.
  Qed.

  (* C29, first half: a coroutine that wraps sync code in greenlet_spawn, run by the event loop
     without cancellation, is indistinguishable from calling the sync code directly *)
  Theorem trampoline_transparent (fn : prog) (w : W) :
    let '(r, w', _, t) := run_loop (greenlet_spawn false fn) w [] in
    run_sync fn w = (r, w', flat_map ev_io t) /\ Forall ev_uncancelled t.
  Proof.
    rewrite (run_loop_peq _ _ (spawn_transparent fn)).
    pose proof (run_loop_quiet fn w [] (Forall_nil _)) as H.
    destruct (run_loop fn w []) as [[[r w'] cs'] t]. tauto.
  Qed.

  Theorem trampoline_transparent_require (fn : prog) (w : W) : switches fn ->
    let '(r, w', _, t) := run_loop (greenlet_spawn true fn) w [] in
    run_sync fn w = (r, w', flat_map ev_io t) /\ Forall ev_uncancelled t.
  Proof.
    intros Hs. rewrite (run_loop_peq _ _ (spawn_transparent_require fn Hs)).
    pose proof (run_loop_quiet fn w [] (Forall_nil _)) as H.
    destruct (run_loop fn w []) as [[[r w'] cs'] t]. tauto.
  Qed.

  (* run_loop and bind *)
  Lemma run_loop_bind p f : forall w cs,
    run_loop (bind p f) w cs =
    let '(r1, w1, cs1, t1) := run_loop p w cs in
    let '(r, w2, cs2, t2) := run_loop (f r1) w1 cs1 in (r, w2, cs2, t1 ++ t2).
  Proof.
    induction p as [r | i k IH | inner IHi k IHk]; intros w cs; cbn.
    - destruct (run_loop (f r) w cs) as [[[r2 w2] cs2] t2]. reflexivity.
    - destruct (suspends i).
      + destruct cs as [|[|eff] cs1].
        * destruct (step w i) as [x w1]. rewrite IH.
          destruct (run_loop (k x) w1 []) as [[[r1 w2] cs2] t1].
          destruct (run_loop (f r1) w2 cs2) as [[[r3 w3] cs3] t3]. reflexivity.
        * destruct (step w i) as [x w1]. rewrite IH.
          destruct (run_loop (k x) w1 cs1) as [[[r1 w2] cs2] t1].
          destruct (run_loop (f r1) w2 cs2) as [[[r3 w3] cs3] t3]. reflexivity.
        * rewrite IH.
          destruct (run_loop (k (inr cancelled)) (if eff then cancel_step w i else w) cs1) as [[[r1 w2] cs2] t1].
          destruct (run_loop (f r1) w2 cs2) as [[[r3 w3] cs3] t3]. reflexivity.
      + destruct (step w i) as [x w1]. rewrite IH.
        destruct (run_loop (k x) w1 cs) as [[[r1 w2] cs2] t1].
        destruct (run_loop (f r1) w2 cs2) as [[[r3 w3] cs3] t3]. reflexivity.
    - destruct (run_loop inner w []) as [[[r1 w1] c1] t1].
      destruct cs as [|[|eff] cs1]; rewrite IHk.
      + destruct (run_loop (k false r1) w1 []) as [[[r2 w2] cs2] t2].
        destruct (run_loop (f r2) w2 cs2) as [[[r3 w3] cs3] t3]. rewrite <- app_assoc. reflexivity.
      + destruct (run_loop (k false r1) w1 cs1) as [[[r2 w2] cs2] t2].
        destruct (run_loop (f r2) w2 cs2) as [[[r3 w3] cs3] t3]. rewrite <- app_assoc. reflexivity.
      + destruct (run_loop (k true r1) w1 cs1) as [[[r2 w2] cs2] t2].
        destruct (run_loop (f r2) w2 cs2) as [[[r3 w3] cs3] t3]. rewrite <- app_assoc. reflexivity.
  Qed.

  (* with _require_await, a call that ends in an exception before any await is unchanged too *)
  Lemma spawn_transparent_fix g : (forall r, g = Ret r -> no_await r = r) -> peq (greenlet_spawn true g) g.
  Proof.
    intros H. destruct g as [r | i k | inner k].
    - unfold greenlet_spawn. cbn. rewrite (H r eq_refl). constructor.
    - apply spawn_transparent_require. exact I.
    - apply spawn_transparent_require. exact I.
  Qed.

  (* sync-equivalence: the same blocking run from every world.  It contains [peq], is a congruence
     for [bind], and identifies a shield with the plain call *)
  Definition seqv (p q : prog) : Prop := forall w, run_sync p w = run_sync q w.

  Lemma run_sync_bind p f : forall w,
    run_sync (bind p f) w =
    let '(r1, w1, t1) := run_sync p w in
    let '(r, w2, t2) := run_sync (f r1) w1 in (r, w2, t1 ++ t2).
  Proof.
    induction p as [r | i k IH | inner IHi k IHk]; intros w; cbn.
    - destruct (run_sync (f r) w) as [[r2 w2] t2]. reflexivity.
    - destruct (step w i) as [x w1]. rewrite IH.
      destruct (run_sync (k x) w1) as [[r1 w2] t1]. destruct (run_sync (f r1) w2) as [[r3 w3] t3]. reflexivity.
    - destruct (run_sync inner w) as [[r1 w1] t1]. rewrite IHk.
      destruct (run_sync (k false r1) w1) as [[r2 w2] t2]. destruct (run_sync (f r2) w2) as [[r3 w3] t3].
      rewrite app_assoc. reflexivity.
  Qed.

  Lemma seqv_refl p : seqv p p.
  Proof. intros w; reflexivity. Qed.
  Lemma seqv_trans p q r : seqv p q -> seqv q r -> seqv p r.
  Proof. intros A B w. rewrite A. apply B. Qed.
  Lemma peq_seqv p q : peq p q -> seqv p q.
  Proof. intros H w. apply run_sync_peq; auto. Qed.
  Lemma seqv_bind p p' f f' : seqv p p' -> (forall r, seqv (f r) (f' r)) -> seqv (bind p f) (bind p' f').
  Proof.
    intros A B w. rewrite !run_sync_bind, A. destruct (run_sync p' w) as [[r1 w1] t1]. rewrite B. reflexivity.
  Qed.
  Lemma seqv_shield inner inner' k k' :
    seqv inner inner' -> (forall r, seqv (k false r) (k' r)) -> seqv (Shield inner k) (bind inner' k').
  Proof.
    intros A B w. cbn. rewrite run_sync_bind, A. destruct (run_sync inner' w) as [[r1 w1] t1]. rewrite B. reflexivity.
  Qed.

  (* ---- no cancellation out of thin air ----
     [bad r]: the result [r] is "CancelledError raised".  A tree is [nc_safe] when it can only end badly
     after the event loop handed it a cancellation (at an await or at a shield) *)
  Variable bad : R -> Prop.
  Inductive nc_safe : prog -> Prop :=
  | nc_ret r : ~ bad r -> nc_safe (Ret r)
  | nc_await i k : (forall x, x <> inr cancelled -> nc_safe (k x)) -> nc_safe (Await i k)
  | nc_shield inner k : nc_safe inner -> (forall r, ~ bad r -> nc_safe (k false r)) -> nc_safe (Shield inner k).

  Lemma nc_bind p f : nc_safe p -> (forall r, ~ bad r -> nc_safe (f r)) -> nc_safe (bind p f).
  Proof.
    induction 1; intros Hf; cbn.
    - auto.
    - constructor. auto.
    - constructor; auto.
  Qed.

  Lemma nc_peq p q : peq p q -> nc_safe p -> nc_safe q.
  Proof.
    induction 1; intros Hn; inversion Hn; subst; constructor; auto.
  Qed.

  Lemma nc_run p : nc_safe p -> (forall w i, fst (step w i) <> inr cancelled) ->
    forall w cs, quiet cs -> let '(r, _, _, _) := run_loop p w cs in ~ bad r.
  Proof.
    intros Hn Hstep. induction Hn as [r Hr | i k Hk IH | inner k Hi IHi Hk IHk]; intros w cs Hq; cbn.
    - exact Hr.
    - destruct (suspends i).
      + destruct cs as [|d cs1].
        * pose proof (Hstep w i) as Hs. destruct (step w i) as [x w1]. cbn in Hs.
          specialize (IH x Hs w1 [] Hq). destruct (run_loop (k x) w1 []) as [[[r w2] cs2] t]. exact IH.
        * apply quiet_tail in Hq. destruct Hq as [-> Hq].
          pose proof (Hstep w i) as Hs. destruct (step w i) as [x w1]. cbn in Hs.
          specialize (IH x Hs w1 cs1 Hq). destruct (run_loop (k x) w1 cs1) as [[[r w2] cs2] t]. exact IH.
      + pose proof (Hstep w i) as Hs. destruct (step w i) as [x w1]. cbn in Hs.
        specialize (IH x Hs w1 cs Hq). destruct (run_loop (k x) w1 cs) as [[[r w2] cs2] t]. exact IH.
    - assert (Hn0 : quiet []) by constructor.
      specialize (IHi w [] Hn0). destruct (run_loop inner w []) as [[[r1 w1] c1] t1].
      destruct cs as [|d cs1].
      + specialize (IHk r1 IHi w1 [] Hn0). destruct (run_loop (k false r1) w1 []) as [[[r w2] cs2] t2]. exact IHk.
      + apply quiet_tail in Hq. destruct Hq as [-> Hq].
        specialize (IHk r1 IHi w1 cs1 Hq). destruct (run_loop (k false r1) w1 cs1) as [[[r w2] cs2] t2]. exact IHk.
  Qed.

  (* the decisions left over never contain more cancellations than the ones supplied *)
  Lemma run_loop_ncancel p : forall w cs,
    let '(_, _, cs', _) := run_loop p w cs in ncancel cs' <= ncancel cs.
  Proof.
    induction p as [r | i k IH | inner IHi k IHk]; intros w cs; cbn.
    - lia.
    - destruct (suspends i).
      + destruct cs as [|[|eff] cs1].
        * destruct (step w i) as [x w1]. specialize (IH x w1 []).
          destruct (run_loop (k x) w1 []) as [[[r w2] cs2] t]. exact IH.
        * destruct (step w i) as [x w1]. specialize (IH x w1 cs1).
          destruct (run_loop (k x) w1 cs1) as [[[r w2] cs2] t]. exact IH.
        * specialize (IH (inr cancelled) (if eff then cancel_step w i else w) cs1).
          destruct (run_loop (k (inr cancelled)) (if eff then cancel_step w i else w) cs1) as [[[r w2] cs2] t].
          cbn. lia.
      + destruct (step w i) as [x w1]. specialize (IH x w1 cs).
        destruct (run_loop (k x) w1 cs) as [[[r w2] cs2] t]. exact IH.
    - destruct (run_loop inner w []) as [[[r1 w1] c1] t1].
      destruct cs as [|[|eff] cs1].
      + specialize (IHk false r1 w1 []). destruct (run_loop (k false r1) w1 []) as [[[r w2] cs2] t]. exact IHk.
      + specialize (IHk false r1 w1 cs1). destruct (run_loop (k false r1) w1 cs1) as [[[r w2] cs2] t]. exact IHk.
      + specialize (IHk true r1 w1 cs1). destruct (run_loop (k true r1) w1 cs1) as [[[r w2] cs2] t]. cbn. lia.
  Qed.
End Tramp.

Arguments Ret {IO V E R} r.
Arguments Await {IO V E R} i k.
Arguments Shield {IO V E R} inner k.
Arguments bind {IO V E R} p f.
Arguments peq {IO V E R} _ _.
Arguments run_sync {IO V E W R} step p w.
Arguments run_loop {IO V E W R} step cancel_step suspends cancelled p w cs.
Arguments spawn_loop {IO V E R} no_await require switch_occurred g.
Arguments greenlet_spawn {IO V E R} no_await require fn.
Arguments switches {IO V E R} p.
Arguments seqv {IO V E W R} step p q.
Arguments nc_safe {IO V E R} cancelled bad _.
