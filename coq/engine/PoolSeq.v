(* C26 - sequential model of the connection-pool record/fairy life cycle with a fault oracle.

   Transcribes lib/sqlalchemy/pool/base.py (_ConnectionRecord, _ConnectionFairy, _finalize_fairy,
   Pool._invalidate, Pool._close_connection) and the _do_get/_do_return_conn of the five pool classes
   of lib/sqlalchemy/pool/impl.py, for ONE thread.  (Thread interleavings of the QueuePool accounting
   are the subject of PoolConc.v / C25.)

   - Every DBAPI call (creator, close, rollback/commit on reset, the pre-ping, the checkout event
     listener) consumes the next code of the fault script [faults] (0 = ok, 1 = Exception,
     2 = BaseException, 3 = ping "is_disconnect" / DisconnectionError, 4 = InvalidatePoolError);
     an exhausted script means "ok".
   - time.time() is a logical clock.  With [tick cf = true] every call returns a strictly larger
     stamp (the hypothesis "measurable time passes between state changes" that the comment in
     get_connection relies on); with [tick cf = false] it returns the clock unchanged, so equal
     stamps occur (the weakness conceded by that comment).
   - Python objects are indices into total maps (struct of arrays): connections, records, fairies.
   - ghost fields (never read by the code paths): c_det, c_mark, c_soft, taint_close (a BaseException escaped
     a DBAPI close()), taint_gc (a BaseException escaped close() inside the error handler of _finalize_fairy while it ran
     as weakref callback).
   Definitions only; proofs live in PoolSeq*Proofs.v. *)
From Coq Require Import List ZArith Bool Arith.
Import ListNotations.
Open Scope Z_scope.

Inductive pkind := KQueue | KNull | KStatic | KSingleton | KAssertion.
Inductive rstyle := RRollback | RCommit | RNone.

Record cfg : Type := mkcfg {
  kind : pkind; psize : Z; maxov0 : Z; lifo : bool; recycle : Z; pre_ping : bool; listener : bool;
  reset : rstyle; tick : bool }.

(* QueuePool.__init__: self._max_overflow = -1 if pool_size == 0 else max_overflow *)
Definition maxov (cf : cfg) : Z := if psize cf =? 0 then -1 else maxov0 cf.

(* InternalE: a Python-level internal error the model proves unreachable (AttributeError on None);
   FuelE: fuel exhausted (proved unreachable); SkipE: the harness skipped the operation (no such holder) *)
Inductive exn := ExcE | BaseE | TimeoutE | InvReqE | AssertE | DiscE | InvPoolE | InternalE | FuelE | SkipE.
Inductive res (A : Type) : Type := Ok (a : A) | Raise (e : exn).
Arguments Ok {A} a.
Arguments Raise {A} e.

(* isinstance(e, Exception) *)
Definition is_exception (e : exn) : bool := match e with BaseE => false | _ => true end.
(* isinstance(e, exc.DisconnectionError);  e.invalidate_pool *)
Definition is_disc (e : exn) : bool := match e with DiscE | InvPoolE => true | _ => false end.
Definition invalidates_pool (e : exn) : bool := match e with InvPoolE => true | _ => false end.

Definition upd {A} (m : nat -> A) (i : nat) (v : A) : nat -> A :=
  fun j => if Nat.eqb j i then v else m j.

(* kinds of external calls, as they appear in the observed call trace *)
Definition K_CONNECT := 0. Definition K_CLOSE := 1. Definition K_ROLLBACK := 2.
Definition K_COMMIT := 3. Definition K_PING := 4. Definition K_EVENT := 5.

(* The state is a record of five groups (external world, connections, records, fairies, pool
   structure) plus the harness' holder slots; fields are accessed through top-level projections
   [clock s], [r_fairy s] ... and updated through [set_clock s v], [set_r_fairy s v] ... *)
Record ext : Type := mk_ext {
  clock_ : Z;
  faults_ : list Z;
  trace_ : list (Z * Z);
  taint_close_ : bool;
  taint_gc_ : bool
}.
Record cns : Type := mk_cns {
  nconns_ : nat;
  c_nclose_ : nat -> Z;
  c_start_ : nat -> Z;
  c_det_ : nat -> bool;
  c_mark_ : nat -> bool;
  c_soft_ : nat -> bool
}.
Record rcs : Type := mk_rcs {
  nrecs_ : nat;
  r_dbc_ : nat -> option nat;
  r_start_ : nat -> Z;
  r_soft_ : nat -> Z;
  r_fresh_ : nat -> bool;
  r_fairy_ : nat -> option nat
}.
Record frs : Type := mk_frs {
  nfairies_ : nat;
  f_dbc_ : nat -> option nat;
  f_rec_ : nat -> option nat;
  f_orig_ : nat -> nat;
  f_counter_ : nat -> Z;
  f_dead_ : nat -> bool
}.
Record pls : Type := mk_pls {
  inv_time_ : Z;
  q_ : list nat;
  overflow_ : Z;
  static_ : option nat;
  sg_rec_ : option nat;
  sg_fairy_ : option nat;
  as_conn_ : option nat;
  as_out_ : bool
}.
Record st : Type := mkst {
  ex : ext;
  cn : cns;
  rc : rcs;
  fr : frs;
  holders : list (option nat);
  pl : pls
}.

Definition set_ex (s : st) (v : ext) : st := {| ex := v; cn := cn s; rc := rc s; fr := fr s; holders := holders s; pl := pl s |}.
Definition set_cn (s : st) (v : cns) : st := {| ex := ex s; cn := v; rc := rc s; fr := fr s; holders := holders s; pl := pl s |}.
Definition set_rc (s : st) (v : rcs) : st := {| ex := ex s; cn := cn s; rc := v; fr := fr s; holders := holders s; pl := pl s |}.
Definition set_fr (s : st) (v : frs) : st := {| ex := ex s; cn := cn s; rc := rc s; fr := v; holders := holders s; pl := pl s |}.
Definition set_holders (s : st) (v : list (option nat)) : st := {| ex := ex s; cn := cn s; rc := rc s; fr := fr s; holders := v; pl := pl s |}.
Definition set_pl (s : st) (v : pls) : st := {| ex := ex s; cn := cn s; rc := rc s; fr := fr s; holders := holders s; pl := v |}.
Definition clock (s : st) : Z := clock_ (ex s).
Definition faults (s : st) : list Z := faults_ (ex s).
Definition trace (s : st) : list (Z * Z) := trace_ (ex s).
Definition taint_close (s : st) : bool := taint_close_ (ex s).
Definition taint_gc (s : st) : bool := taint_gc_ (ex s).
Definition set_clock (s : st) (v : Z) : st := set_ex s {| clock_ := v; faults_ := faults_ (ex s); trace_ := trace_ (ex s); taint_close_ := taint_close_ (ex s); taint_gc_ := taint_gc_ (ex s) |}.
Definition set_faults (s : st) (v : list Z) : st := set_ex s {| clock_ := clock_ (ex s); faults_ := v; trace_ := trace_ (ex s); taint_close_ := taint_close_ (ex s); taint_gc_ := taint_gc_ (ex s) |}.
Definition set_trace (s : st) (v : list (Z * Z)) : st := set_ex s {| clock_ := clock_ (ex s); faults_ := faults_ (ex s); trace_ := v; taint_close_ := taint_close_ (ex s); taint_gc_ := taint_gc_ (ex s) |}.
Definition set_taint_close (s : st) (v : bool) : st := set_ex s {| clock_ := clock_ (ex s); faults_ := faults_ (ex s); trace_ := trace_ (ex s); taint_close_ := v; taint_gc_ := taint_gc_ (ex s) |}.
Definition set_taint_gc (s : st) (v : bool) : st := set_ex s {| clock_ := clock_ (ex s); faults_ := faults_ (ex s); trace_ := trace_ (ex s); taint_close_ := taint_close_ (ex s); taint_gc_ := v |}.
Definition nconns (s : st) : nat := nconns_ (cn s).
Definition c_nclose (s : st) : nat -> Z := c_nclose_ (cn s).
Definition c_start (s : st) : nat -> Z := c_start_ (cn s).
Definition c_det (s : st) : nat -> bool := c_det_ (cn s).
Definition c_mark (s : st) : nat -> bool := c_mark_ (cn s).
Definition c_soft (s : st) : nat -> bool := c_soft_ (cn s).
Definition set_nconns (s : st) (v : nat) : st := set_cn s {| nconns_ := v; c_nclose_ := c_nclose_ (cn s); c_start_ := c_start_ (cn s); c_det_ := c_det_ (cn s); c_mark_ := c_mark_ (cn s); c_soft_ := c_soft_ (cn s) |}.
Definition set_c_nclose (s : st) (v : nat -> Z) : st := set_cn s {| nconns_ := nconns_ (cn s); c_nclose_ := v; c_start_ := c_start_ (cn s); c_det_ := c_det_ (cn s); c_mark_ := c_mark_ (cn s); c_soft_ := c_soft_ (cn s) |}.
Definition set_c_start (s : st) (v : nat -> Z) : st := set_cn s {| nconns_ := nconns_ (cn s); c_nclose_ := c_nclose_ (cn s); c_start_ := v; c_det_ := c_det_ (cn s); c_mark_ := c_mark_ (cn s); c_soft_ := c_soft_ (cn s) |}.
Definition set_c_det (s : st) (v : nat -> bool) : st := set_cn s {| nconns_ := nconns_ (cn s); c_nclose_ := c_nclose_ (cn s); c_start_ := c_start_ (cn s); c_det_ := v; c_mark_ := c_mark_ (cn s); c_soft_ := c_soft_ (cn s) |}.
Definition set_c_mark (s : st) (v : nat -> bool) : st := set_cn s {| nconns_ := nconns_ (cn s); c_nclose_ := c_nclose_ (cn s); c_start_ := c_start_ (cn s); c_det_ := c_det_ (cn s); c_mark_ := v; c_soft_ := c_soft_ (cn s) |}.
Definition set_c_soft (s : st) (v : nat -> bool) : st := set_cn s {| nconns_ := nconns_ (cn s); c_nclose_ := c_nclose_ (cn s); c_start_ := c_start_ (cn s); c_det_ := c_det_ (cn s); c_mark_ := c_mark_ (cn s); c_soft_ := v |}.
Definition nrecs (s : st) : nat := nrecs_ (rc s).
Definition r_dbc (s : st) : nat -> option nat := r_dbc_ (rc s).
Definition r_start (s : st) : nat -> Z := r_start_ (rc s).
Definition r_soft (s : st) : nat -> Z := r_soft_ (rc s).
Definition r_fresh (s : st) : nat -> bool := r_fresh_ (rc s).
Definition r_fairy (s : st) : nat -> option nat := r_fairy_ (rc s).
Definition set_nrecs (s : st) (v : nat) : st := set_rc s {| nrecs_ := v; r_dbc_ := r_dbc_ (rc s); r_start_ := r_start_ (rc s); r_soft_ := r_soft_ (rc s); r_fresh_ := r_fresh_ (rc s); r_fairy_ := r_fairy_ (rc s) |}.
Definition set_r_dbc (s : st) (v : nat -> option nat) : st := set_rc s {| nrecs_ := nrecs_ (rc s); r_dbc_ := v; r_start_ := r_start_ (rc s); r_soft_ := r_soft_ (rc s); r_fresh_ := r_fresh_ (rc s); r_fairy_ := r_fairy_ (rc s) |}.
Definition set_r_start (s : st) (v : nat -> Z) : st := set_rc s {| nrecs_ := nrecs_ (rc s); r_dbc_ := r_dbc_ (rc s); r_start_ := v; r_soft_ := r_soft_ (rc s); r_fresh_ := r_fresh_ (rc s); r_fairy_ := r_fairy_ (rc s) |}.
Definition set_r_soft (s : st) (v : nat -> Z) : st := set_rc s {| nrecs_ := nrecs_ (rc s); r_dbc_ := r_dbc_ (rc s); r_start_ := r_start_ (rc s); r_soft_ := v; r_fresh_ := r_fresh_ (rc s); r_fairy_ := r_fairy_ (rc s) |}.
Definition set_r_fresh (s : st) (v : nat -> bool) : st := set_rc s {| nrecs_ := nrecs_ (rc s); r_dbc_ := r_dbc_ (rc s); r_start_ := r_start_ (rc s); r_soft_ := r_soft_ (rc s); r_fresh_ := v; r_fairy_ := r_fairy_ (rc s) |}.
Definition set_r_fairy (s : st) (v : nat -> option nat) : st := set_rc s {| nrecs_ := nrecs_ (rc s); r_dbc_ := r_dbc_ (rc s); r_start_ := r_start_ (rc s); r_soft_ := r_soft_ (rc s); r_fresh_ := r_fresh_ (rc s); r_fairy_ := v |}.
Definition nfairies (s : st) : nat := nfairies_ (fr s).
Definition f_dbc (s : st) : nat -> option nat := f_dbc_ (fr s).
Definition f_rec (s : st) : nat -> option nat := f_rec_ (fr s).
Definition f_orig (s : st) : nat -> nat := f_orig_ (fr s).
Definition f_counter (s : st) : nat -> Z := f_counter_ (fr s).
Definition f_dead (s : st) : nat -> bool := f_dead_ (fr s).
Definition set_nfairies (s : st) (v : nat) : st := set_fr s {| nfairies_ := v; f_dbc_ := f_dbc_ (fr s); f_rec_ := f_rec_ (fr s); f_orig_ := f_orig_ (fr s); f_counter_ := f_counter_ (fr s); f_dead_ := f_dead_ (fr s) |}.
Definition set_f_dbc (s : st) (v : nat -> option nat) : st := set_fr s {| nfairies_ := nfairies_ (fr s); f_dbc_ := v; f_rec_ := f_rec_ (fr s); f_orig_ := f_orig_ (fr s); f_counter_ := f_counter_ (fr s); f_dead_ := f_dead_ (fr s) |}.
Definition set_f_rec (s : st) (v : nat -> option nat) : st := set_fr s {| nfairies_ := nfairies_ (fr s); f_dbc_ := f_dbc_ (fr s); f_rec_ := v; f_orig_ := f_orig_ (fr s); f_counter_ := f_counter_ (fr s); f_dead_ := f_dead_ (fr s) |}.
Definition set_f_orig (s : st) (v : nat -> nat) : st := set_fr s {| nfairies_ := nfairies_ (fr s); f_dbc_ := f_dbc_ (fr s); f_rec_ := f_rec_ (fr s); f_orig_ := v; f_counter_ := f_counter_ (fr s); f_dead_ := f_dead_ (fr s) |}.
Definition set_f_counter (s : st) (v : nat -> Z) : st := set_fr s {| nfairies_ := nfairies_ (fr s); f_dbc_ := f_dbc_ (fr s); f_rec_ := f_rec_ (fr s); f_orig_ := f_orig_ (fr s); f_counter_ := v; f_dead_ := f_dead_ (fr s) |}.
Definition set_f_dead (s : st) (v : nat -> bool) : st := set_fr s {| nfairies_ := nfairies_ (fr s); f_dbc_ := f_dbc_ (fr s); f_rec_ := f_rec_ (fr s); f_orig_ := f_orig_ (fr s); f_counter_ := f_counter_ (fr s); f_dead_ := v |}.
Definition inv_time (s : st) : Z := inv_time_ (pl s).
Definition q (s : st) : list nat := q_ (pl s).
Definition overflow (s : st) : Z := overflow_ (pl s).
Definition static (s : st) : option nat := static_ (pl s).
Definition sg_rec (s : st) : option nat := sg_rec_ (pl s).
Definition sg_fairy (s : st) : option nat := sg_fairy_ (pl s).
Definition as_conn (s : st) : option nat := as_conn_ (pl s).
Definition as_out (s : st) : bool := as_out_ (pl s).
Definition set_inv_time (s : st) (v : Z) : st := set_pl s {| inv_time_ := v; q_ := q_ (pl s); overflow_ := overflow_ (pl s); static_ := static_ (pl s); sg_rec_ := sg_rec_ (pl s); sg_fairy_ := sg_fairy_ (pl s); as_conn_ := as_conn_ (pl s); as_out_ := as_out_ (pl s) |}.
Definition set_q (s : st) (v : list nat) : st := set_pl s {| inv_time_ := inv_time_ (pl s); q_ := v; overflow_ := overflow_ (pl s); static_ := static_ (pl s); sg_rec_ := sg_rec_ (pl s); sg_fairy_ := sg_fairy_ (pl s); as_conn_ := as_conn_ (pl s); as_out_ := as_out_ (pl s) |}.
Definition set_overflow (s : st) (v : Z) : st := set_pl s {| inv_time_ := inv_time_ (pl s); q_ := q_ (pl s); overflow_ := v; static_ := static_ (pl s); sg_rec_ := sg_rec_ (pl s); sg_fairy_ := sg_fairy_ (pl s); as_conn_ := as_conn_ (pl s); as_out_ := as_out_ (pl s) |}.
Definition set_static (s : st) (v : option nat) : st := set_pl s {| inv_time_ := inv_time_ (pl s); q_ := q_ (pl s); overflow_ := overflow_ (pl s); static_ := v; sg_rec_ := sg_rec_ (pl s); sg_fairy_ := sg_fairy_ (pl s); as_conn_ := as_conn_ (pl s); as_out_ := as_out_ (pl s) |}.
Definition set_sg_rec (s : st) (v : option nat) : st := set_pl s {| inv_time_ := inv_time_ (pl s); q_ := q_ (pl s); overflow_ := overflow_ (pl s); static_ := static_ (pl s); sg_rec_ := v; sg_fairy_ := sg_fairy_ (pl s); as_conn_ := as_conn_ (pl s); as_out_ := as_out_ (pl s) |}.
Definition set_sg_fairy (s : st) (v : option nat) : st := set_pl s {| inv_time_ := inv_time_ (pl s); q_ := q_ (pl s); overflow_ := overflow_ (pl s); static_ := static_ (pl s); sg_rec_ := sg_rec_ (pl s); sg_fairy_ := v; as_conn_ := as_conn_ (pl s); as_out_ := as_out_ (pl s) |}.
Definition set_as_conn (s : st) (v : option nat) : st := set_pl s {| inv_time_ := inv_time_ (pl s); q_ := q_ (pl s); overflow_ := overflow_ (pl s); static_ := static_ (pl s); sg_rec_ := sg_rec_ (pl s); sg_fairy_ := sg_fairy_ (pl s); as_conn_ := v; as_out_ := as_out_ (pl s) |}.
Definition set_as_out (s : st) (v : bool) : st := set_pl s {| inv_time_ := inv_time_ (pl s); q_ := q_ (pl s); overflow_ := overflow_ (pl s); static_ := static_ (pl s); sg_rec_ := sg_rec_ (pl s); sg_fairy_ := sg_fairy_ (pl s); as_conn_ := as_conn_ (pl s); as_out_ := v |}.

Definition init (cf : cfg) (fl : list Z) : st :=
  {| ex := {| clock_ := 0; faults_ := fl; trace_ := []; taint_close_ := false; taint_gc_ := false |};
     cn := {| nconns_ := O; c_nclose_ := fun _ => 0; c_start_ := fun _ => 0; c_det_ := fun _ => false;
              c_mark_ := fun _ => false; c_soft_ := fun _ => false |};
     rc := {| nrecs_ := O; r_dbc_ := fun _ => None; r_start_ := fun _ => 0; r_soft_ := fun _ => 0;
              r_fresh_ := fun _ => false; r_fairy_ := fun _ => None |};
     fr := {| nfairies_ := O; f_dbc_ := fun _ => None; f_rec_ := fun _ => None; f_orig_ := fun _ => O;
              f_counter_ := fun _ => 0; f_dead_ := fun _ => false |};
     holders := [];
     pl := {| inv_time_ := 0; q_ := []; overflow_ := 0 - psize cf; static_ := None; sg_rec_ := None;
              sg_fairy_ := None; as_conn_ := None; as_out_ := false |} |}.

Section Model.
Variable cf : cfg.

(* ------------------------------------------------------------------ the fault oracle and the clock *)
Definition next_fault (s : st) : Z * st :=
  match faults s with [] => (0, s) | c :: r => (c, set_faults s r) end.
Definition log (k c : Z) (s : st) : st := set_trace s (trace s ++ [(k, c)]).
Definition raises (code : Z) : option exn :=
  if code =? 1 then Some ExcE else if code =? 2 then Some BaseE else None.

(* time.time() *)
Definition now (s : st) : Z * st :=
  if tick cf then (clock s + 1, set_clock s (clock s + 1)) else (clock s, s).

(* creator(rec); [stamp] is the record's starttime, remembered per connection (ghost c_start) *)
Definition ext_connect (stamp : Z) (s : st) : res nat * st :=
  let (code, s1) := next_fault s in
  match raises code with
  | Some e => (Raise e, log K_CONNECT (-1) s1)
  | None =>
      let c := nconns s1 in
      let s2 := set_nconns s1 (S c) in
      let s3 := set_c_nclose s2 (upd (c_nclose s2) c 0) in
      let s4 := set_c_start s3 (upd (c_start s3) c stamp) in
      let s5 := set_c_det s4 (upd (c_det s4) c false) in
      let s6 := set_c_mark s5 (upd (c_mark s5) c false) in
      let s7 := set_c_soft s6 (upd (c_soft s6) c false) in
      (Ok c, log K_CONNECT (Z.of_nat c) s7)
  end.

(* dbapi_connection.close(): the fake counts the call, then raises on script *)
Definition ext_close (c : nat) (s : st) : res unit * st :=
  let (code, s1) := next_fault s in
  let s2 := log K_CLOSE (Z.of_nat c) (set_c_nclose s1 (upd (c_nclose s1) c (c_nclose s1 c + 1))) in
  match raises code with Some e => (Raise e, s2) | None => (Ok tt, s2) end.

(* dbapi_connection.rollback() / commit() *)
Definition ext_reset (k : Z) (c : nat) (s : st) : res unit * st :=
  let (code, s1) := next_fault s in
  let s2 := log k (Z.of_nat c) s1 in
  match raises code with Some e => (Raise e, s2) | None => (Ok tt, s2) end.

(* dialect._do_ping_w_event: True / False (is_disconnect) / raises *)
Definition ext_ping (c : nat) (s : st) : res bool * st :=
  let (code, s1) := next_fault s in
  let s2 := log K_PING (Z.of_nat c) s1 in
  match raises code with Some e => (Raise e, s2) | None => (Ok (negb (code =? 3)), s2) end.

(* the "checkout" event listener *)
Definition ext_event (c : nat) (s : st) : res unit * st :=
  let (code, s1) := next_fault s in
  let s2 := log K_EVENT (Z.of_nat c) s1 in
  match raises code with
  | Some e => (Raise e, s2)
  | None => if code =? 3 then (Raise DiscE, s2) else if code =? 4 then (Raise InvPoolE, s2) else (Ok tt, s2)
  end.

(* ------------------------------------------------------------------ Pool._close_connection *)
Definition close_connection (c : nat) (s : st) : res unit * st :=
  match ext_close c s with
  | (Ok _, s1) => (Ok tt, s1)
  | (Raise e, s1) =>
      if is_exception e then (Ok tt, s1)            (* logged and swallowed *)
      else (Raise e, set_taint_close s1 true)        (* if not isinstance(e, Exception): raise *)
  end.

(* ------------------------------------------------------------------ _ConnectionRecord *)
(* __close: only called with dbapi_connection not None *)
Definition rec_close (r : nat) (s : st) : res unit * st :=
  match r_dbc s r with
  | None => (Raise InternalE, s)
  | Some c =>
      (* try: pool._close_connection(...) finally: self.dbapi_connection = None *)
      match close_connection c s with
      | (Ok _, s1) => (Ok tt, set_r_dbc s1 (upd (r_dbc s1) r None))
      | (Raise e, s1) => (Raise e, set_r_dbc s1 (upd (r_dbc s1) r None))
      end
  end.

(* __connect *)
Definition rec_connect (r : nat) (s : st) : res unit * st :=
  let s1 := set_r_dbc s (upd (r_dbc s) r None) in
  let (t, s2) := now s1 in
  let s3 := set_r_start s2 (upd (r_start s2) r t) in
  match ext_connect t s3 with
  | (Ok c, s4) =>
      let s5 := set_r_dbc s4 (upd (r_dbc s4) r (Some c)) in
      (Ok tt, set_r_fresh s5 (upd (r_fresh s5) r true))
  | (Raise e, s4) => (Raise e, s4)
  end.

(* invalidate(e, soft) *)
Definition rec_invalidate (r : nat) (soft : bool) (s : st) : res unit * st :=
  match r_dbc s r with
  | None => (Ok tt, s)                                  (* already invalidated *)
  | Some c =>
      if soft then
        let (t, s1) := now s in
        let s2 := set_r_soft s1 (upd (r_soft s1) r t) in
        (Ok tt, set_c_soft s2 (upd (c_soft s2) c true))
      else
        match rec_close r s with
        | (Ok _, s1) => (Ok tt, set_r_dbc s1 (upd (r_dbc s1) r None))
        | (Raise e, s1) => (Raise e, s1)
        end
  end.

(* get_connection *)
Definition get_connection (r : nat) (s : st) : res nat * st :=
  let '(rcy, s1) :=
    match r_dbc s r with
    | None => (None, s)                                  (* -> __connect *)
    | Some _ =>
        if (-1 <? recycle cf) then
          let (t, s1) := now s in
          if (recycle cf <? t - r_start s1 r) then (Some true, s1)
          else if (r_start s1 r <? inv_time s1) then (Some true, s1)
          else if (r_start s1 r <? r_soft s1 r) then (Some true, s1)
          else (Some false, s1)
        else if (r_start s r <? inv_time s) then (Some true, s)
        else if (r_start s r <? r_soft s r) then (Some true, s)
        else (Some false, s)
    end in
  let '(x, s2) :=
    match rcy with
    | None => rec_connect r s1
    | Some true =>
        match rec_close r s1 with
        | (Ok _, s2) => rec_connect r s2
        | (Raise e, s2) => (Raise e, s2)
        end
    | Some false => (Ok tt, s1)
    end in
  match x with
  | Raise e => (Raise e, s2)
  | Ok _ => match r_dbc s2 r with Some c => (Ok c, s2) | None => (Raise InternalE, s2) end
  end.

Definition is_hard_or_soft_invalidated (r : nat) (s : st) : bool :=
  match r_dbc s r with
  | None => true
  | Some _ => (r_start s r <? inv_time s) || (r_start s r <? r_soft s r)
  end.

(* _ConnectionRecord(pool): a new record, connected; it is not stored when the creator raises *)
Definition new_record (s : st) : res nat * st :=
  let r := nrecs s in
  let s1 := set_nrecs s (S r) in
  let s2 := set_r_fresh s1 (upd (r_fresh s1) r false) in
  let s3 := set_r_fairy s2 (upd (r_fairy s2) r None) in
  let s4 := set_r_start s3 (upd (r_start s3) r 0) in
  let s5 := set_r_dbc s4 (upd (r_dbc s4) r None) in
  let s6 := set_r_soft s5 (upd (r_soft s5) r 0) in
  match rec_connect r s6 with
  | (Ok _, s7) => (Ok r, s7)
  | (Raise e, s7) => (Raise e, s7)
  end.

(* ------------------------------------------------------------------ the pool classes *)
Definition inc_overflow (s : st) : bool * st :=
  if maxov cf =? -1 then (true, set_overflow s (overflow s + 1))
  else if overflow s <? maxov cf then (true, set_overflow s (overflow s + 1))
  else (false, s).
Definition dec_overflow (s : st) : st := set_overflow s (overflow s - 1).

Definition last_opt {A} (l : list A) : option (A * list A) :=
  match rev l with [] => None | x :: r => Some (x, rev r) end.

(* Queue.get(wait, timeout=0) in one thread: pops or raises Empty at once *)
Definition q_get (s : st) : option (nat * st) :=
  if lifo cf then
    match last_opt (q s) with Some (x, r) => Some (x, set_q s r) | None => None end
  else
    match q s with x :: r => Some (x, set_q s r) | [] => None end.

(* Queue._full *)
Definition q_full (s : st) : bool := (0 <? psize cf) && (Z.of_nat (length (q s)) =? psize cf).

Fixpoint do_get_queue (fuel : nat) (s : st) : res nat * st :=
  match fuel with
  | O => (Raise FuelE, s)
  | S n =>
      let use_overflow := -1 <? maxov cf in
      let wait := use_overflow && (maxov cf <=? overflow s) in
      match q_get s with
      | Some (r, s1) => (Ok r, s1)
      | None =>
          if use_overflow && (maxov cf <=? overflow s) then
            if negb wait then do_get_queue n s else (Raise TimeoutE, s)
          else
            let (ok, s1) := inc_overflow s in
            if ok then
              match new_record s1 with
              | (Ok r, s2) => (Ok r, s2)
              | (Raise e, s2) => (Raise e, dec_overflow s2)     (* with util.safe_reraise(): _dec_overflow() *)
              end
            else do_get_queue n s1
      end
  end.

Definition do_get (s : st) : res nat * st :=
  match kind cf with
  | KQueue => do_get_queue 2 s
  | KNull => new_record s
  | KStatic =>
      (* rec = self.connection (memoized) *)
      let '(x, s1) := match static s with
                      | Some r => (Ok r, s)
                      | None => match new_record s with
                                | (Ok r, s1) => (Ok r, set_static s1 (Some r))
                                | (Raise e, s1) => (Raise e, s1)
                                end
                      end in
      match x with
      | Raise e => (Raise e, s1)
      | Ok r =>
          if is_hard_or_soft_invalidated r s1 then
            let s2 := set_static s1 None in              (* del self.__dict__["connection"] *)
            match new_record s2 with
            | (Ok r', s3) => (Ok r', set_static s3 (Some r'))
            | (Raise e, s3) => (Raise e, s3)
            end
          else (Ok r, s1)
      end
  | KSingleton =>
      match sg_rec s with
      | Some r => (Ok r, s)
      | None => match new_record s with
                | (Ok r, s1) => (Ok r, set_sg_rec s1 (Some r))
                | (Raise e, s1) => (Raise e, s1)
                end
      end
  | KAssertion =>
      if as_out s then (Raise AssertE, s)
      else
        let '(x, s1) := match as_conn s with
                        | Some r => (Ok r, s)
                        | None => match new_record s with
                                  | (Ok r, s1) => (Ok r, set_as_conn s1 (Some r))
                                  | (Raise e, s1) => (Raise e, s1)
                                  end
                        end in
        match x with
        | Raise e => (Raise e, s1)
        | Ok r => (Ok r, set_as_out s1 true)
        end
  end.

(* record.close(): if self.dbapi_connection is not None: self.__close() *)
Definition rec_close_if_open (r : nat) (s : st) : res unit * st :=
  match r_dbc s r with None => (Ok tt, s) | Some _ => rec_close r s end.

Definition do_return_conn (r : nat) (s : st) : res unit * st :=
  match kind cf with
  | KQueue =>
      if q_full s then
        (* except Full: try: record.close() finally: self._dec_overflow() *)
        let (x, s1) := rec_close_if_open r s in (x, dec_overflow s1)
      else (Ok tt, set_q s (q s ++ [r]))
  | KNull => rec_close_if_open r s
  | KStatic => (Ok tt, s)
  | KSingleton => (Ok tt, set_sg_fairy s None)              (* del self._fairy.current *)
  | KAssertion =>
      if as_out s then (Ok tt, set_as_out s false) else (Raise AssertE, s)
  end.

(* ------------------------------------------------------------------ checkin *)
Definition rec_checkin (r : nat) (fairy_was_created : bool) (s : st) : res unit * st :=
  match r_fairy s r with
  | None => if fairy_was_created then (Ok tt, s)             (* "Double checkin attempted" *)
            else do_return_conn r s
  | Some _ => do_return_conn r (set_r_fairy s (upd (r_fairy s) r None))
  end.

(* try: self.invalidate(e=err) finally: self.checkin(...) *)
Definition checkin_failed (r : nat) (fairy_was_created : bool) (s : st) : res unit * st :=
  match rec_invalidate r false s with
  | (Ok _, s1) => rec_checkin r fairy_was_created s1
  | (Raise e, s1) =>
      match rec_checkin r fairy_was_created s1 with
      | (Ok _, s2) => (Raise e, s2)
      | (Raise e2, s2) => (Raise e2, s2)
      end
  end.

(* with util.safe_reraise(): handler  -- the original error unless the handler raises *)
Definition reraise_after {A} (orig : exn) (h : res unit * st) : res A * st :=
  match h with (Ok _, s) => (Raise orig, s) | (Raise e, s) => (Raise e, s) end.

(* fairy = _ConnectionFairy(pool, dbapi_connection, rec, echo); rec.fairy_ref = weakref.ref(fairy, ...) *)
Definition new_fairy (c r : nat) (s : st) : nat * st :=
  let f := nfairies s in
  let s3 := set_nfairies s (S f) in
  let s4 := set_f_dbc s3 (upd (f_dbc s3) f (Some c)) in
  let s5 := set_f_rec s4 (upd (f_rec s4) f (Some r)) in
  let s6 := set_f_orig s5 (upd (f_orig s5) f r) in
  let s7 := set_f_counter s6 (upd (f_counter s6) f 0) in
  let s8 := set_f_dead s7 (upd (f_dead s7) f false) in
  (f, set_r_fairy s8 (upd (r_fairy s8) r (Some f))).

(* _ConnectionRecord.checkout *)
Definition record_checkout (s : st) : res nat * st :=
  match do_get s with
  | (Raise e, s1) => (Raise e, s1)
  | (Ok r, s1) =>
      match get_connection r s1 with
      | (Raise err, s2) => reraise_after err (checkin_failed r false s2)
      | (Ok c, s2) => let (f, s3) := new_fairy c r s2 in (Ok f, s3)
      end
  end.

(* _ConnectionFairy._reset (non-asyncio); PoolResetState only reaches the reset event *)
Definition fairy_reset (c : nat) (transaction_was_reset : bool) (s : st) : res unit * st :=
  match reset cf with
  | RRollback => if transaction_was_reset then (Ok tt, s) else ext_reset K_ROLLBACK c s
  | RCommit => ext_reset K_COMMIT c s
  | RNone => (Ok tt, s)
  end.

(* fairy.dbapi_connection = None; fairy._connection_record = None *)
Definition clear_fairy (fy : option nat) (s : st) : st :=
  match fy with
  | Some f => set_f_rec (set_f_dbc s (upd (f_dbc s) f None)) (upd (f_rec s) f None)
  | None => s
  end.

(* _finalize_fairy(dbc, r, pool, ref, echo, transaction_was_reset, fairy):
   [gcf] = Some f when called from the weakref callback of fairy f (then ref is "f's ref"),
   [fy] = the fairy argument *)
Definition finalize (dbc : option nat) (r : option nat) (gcf : option nat) (twr : bool)
           (fy : option nat) (s : st) : res unit * st :=
  let is_gc := match gcf with Some _ => true | None => false end in
  let stale := match gcf, r with
               | Some g, Some r0 => match r_fairy s r0 with
                                    | Some g' => negb (Nat.eqb g g')
                                    | None => true
                                    end
               | _, _ => false
               end in
  if stale then (Ok tt, s)                                   (* connection_record.fairy_ref is not ref *)
  else
    let dbc := match gcf, r with Some _, Some r0 => r_dbc s r0 | _, _ => dbc end in
    let detach := match r with None => true | Some _ => false end in
    (* if connection_record and connection_record.fairy_ref is not None: connection_record.checkin() *)
    let checkin_if_owned (s : st) : res unit * st :=
      match r with
      | Some r0 => match r_fairy s r0 with
                   | Some _ => rec_checkin r0 true s
                   | None => (Ok tt, s)
                   end
      | None => (Ok tt, s)
      end in
    let '(x, s1) :=
      match dbc with
      | None => (Ok tt, s)
      | Some c =>
          let '(y, s1) :=
            match fairy_reset c twr s with
            | (Ok _, s1) => if detach then close_connection c s1 else (Ok tt, s1)
            | (Raise e, s1) => (Raise e, s1)
            end in
          match y with
          | Ok _ => (Ok tt, s1)
          | Raise e =>
              (* except BaseException as e: connection_record.invalidate(e); a non-Exception error is
                 re-raised after the (invalidated) record has been checked in and the fairy detached *)
              let '(z, s2) := match r with
                              | Some r0 => rec_invalidate r0 false s1
                              | None => (Ok tt, s1)
                              end in
              match z with
              | Raise e2 =>
                  (* close() raised a BaseException inside the handler: nothing below runs; in the
                     weakref callback the record is lost (ghost taint_gc) *)
                  (Raise e2, if is_gc then set_taint_gc s2 true else s2)
              | Ok _ =>
                  if is_exception e then (Ok tt, s2)
                  else
                    match checkin_if_owned s2 with
                    | (Ok _, s3) => (Raise e, clear_fairy fy s3)
                    | (Raise e3, s3) => (Raise e3, s3)
                    end
              end
          end
      end in
    match x with
    | Raise e => (Raise e, s1)
    | Ok _ =>
        match checkin_if_owned s1 with
        | (Raise e, s2) => (Raise e, s2)
        | (Ok _, s2) => (Ok tt, clear_fairy fy s2)
        end
    end.

(* fairy._checkin(transaction_was_reset) *)
Definition fairy_checkin (f : nat) (twr : bool) (s : st) : res unit * st :=
  finalize (f_dbc s f) (f_rec s f) None twr (Some f) s.

(* fairy.close() *)
Definition fairy_close (f : nat) (s : st) : res unit * st :=
  let n := f_counter s f - 1 in
  let s1 := set_f_counter s (upd (f_counter s) f n) in
  if n =? 0 then fairy_checkin f false s1 else (Ok tt, s1).

(* fairy.invalidate(e, soft) *)
Definition fairy_invalidate (f : nat) (soft : bool) (s : st) : res unit * st :=
  match f_dbc s f with
  | None => (Ok tt, s)                                     (* "Can't invalidate an already-closed connection." *)
  | Some _ =>
      let '(x, s1) := match f_rec s f with
                      | Some r => rec_invalidate r soft s
                      | None => (Ok tt, s)
                      end in
      match x with
      | Raise e => (Raise e, s1)
      | Ok _ =>
          if soft then (Ok tt, s1)
          else fairy_checkin f false (set_f_dbc s1 (upd (f_dbc s1) f None))
      end
  end.

(* ghost: connection [o] leaves the pool's ledger (it now belongs to whoever detached it) *)
Definition mark_det (o : option nat) (s : st) : st :=
  match o with Some c => set_c_det s (upd (c_det s) c true) | None => s end.

(* fairy.detach() *)
Definition fairy_detach (f : nat) (s : st) : res unit * st :=
  match f_rec s f with
  | None => (Ok tt, s)
  | Some r =>
      let s1 := set_r_fairy s (upd (r_fairy s) r None) in
      (* ghost: the record's and the fairy's connection (normally the same) leave the ledger *)
      let s2 := mark_det (f_dbc s f) (mark_det (r_dbc s r) s1) in
      let s3 := set_r_dbc s2 (upd (r_dbc s2) r None) in
      match do_return_conn r s3 with
      | (Ok _, s4) => (Ok tt, set_f_rec s4 (upd (f_rec s4) f None))
      | (Raise e, s4) => (Raise e, s4)
      end
  end.

(* Pool._invalidate(fairy, e, _checkin) *)
Definition mark_all (s : st) : st := set_c_mark s (fun c => if Nat.ltb c (nconns s) then true else c_mark s c).
Definition pool_invalidate (f : nat) (checkin : bool) (s : st) : res unit * st :=
  let upd_time := match f_rec s f with
                  | None => true
                  | Some r => inv_time s <? r_start s r
                  end in
  let s1 := if upd_time then
              let (t, s1) := now s in mark_all (set_inv_time s1 t)   (* ghost: every existing connection is now stale *)
            else s in
  if checkin then
    match f_dbc s1 f with
    | Some _ => fairy_invalidate f false s1
    | None => (Ok tt, s1)
    end
  else (Ok tt, s1).

(* _ConnectionFairy._checkout: the part after the fairy exists *)
Fixpoint checkout_loop (attempts : nat) (f : nat) (s : st) : res nat * st :=
  match attempts with
  | O =>
      (* "Reconnection attempts exhausted on checkout" *)
      match fairy_invalidate f false s with
      | (Ok _, s1) => (Raise InvReqE, s1)
      | (Raise e, s1) => (Raise e, s1)
      end
  | S n =>
      match f_rec s f, f_dbc s f with
      | Some r, Some c =>
          let fresh := r_fresh s r in
          let s0 := set_r_fresh s (upd (r_fresh s) r false) in
          let '(x, s1) :=
            if pre_ping cf && negb fresh then
              match ext_ping c s0 with
              | (Ok true, s1) => (Ok tt, s1)
              | (Ok false, s1) => (Raise InvPoolE, s1)
              | (Raise e, s1) => (Raise e, s1)
              end
            else (Ok tt, s0) in
          let '(y, s2) :=
            match x with
            | Ok _ => if listener cf then ext_event c s1 else (Ok tt, s1)
            | Raise e => (Raise e, s1)
            end in
          match y with
          | Ok _ => (Ok f, s2)
          | Raise e =>
              if is_disc e then
                (* except exc.DisconnectionError as e *)
                match rec_invalidate r false s2 with
                | (Raise e1, s3) => (Raise e1, s3)
                | (Ok _, s3) =>
                    let '(z, s4) := if invalidates_pool e then pool_invalidate f false s3 else (Ok tt, s3) in
                    match z with
                    | Raise e2 => (Raise e2, s4)
                    | Ok _ =>
                        match get_connection r s4 with
                        | (Ok c', s5) => checkout_loop n f (set_f_dbc s5 (upd (f_dbc s5) f (Some c')))
                        | (Raise err, s5) => reraise_after err (checkin_failed r true s5)
                        end
                    end
                end
              else
                (* except BaseException as be_outer *)
                match f_rec s2 f with
                | Some r' => reraise_after e (checkin_failed r' true s2)
                | None => (Raise e, s2)
                end
          end
      | _, _ => (Raise InternalE, s)
      end
  end.

Definition fairy_checkout (existing : option nat) (threadconns : bool) (s : st) : res nat * st :=
  let '(x, s1) :=
    match existing with
    | Some f => (Ok f, s)
    | None =>
        match record_checkout s with
        | (Ok f, s1) => (Ok f, if threadconns then set_sg_fairy s1 (Some f) else s1)
        | (Raise e, s1) => (Raise e, s1)
        end
    end in
  match x with
  | Raise e => (Raise e, s1)
  | Ok f =>
      match f_rec s1 f, f_dbc s1 f with
      | Some _, Some _ =>
          let n := f_counter s1 f + 1 in
          let s2 := set_f_counter s1 (upd (f_counter s1) f n) in
          if (negb (listener cf) && negb (pre_ping cf)) || negb (n =? 1) then (Ok f, s2)
          else checkout_loop 2 f s2
      | _, _ => (Raise AssertE, s1)                  (* "can't 'checkout' a detached / an invalidated connection fairy" *)
      end
  end.

(* pool.connect() *)
Definition pool_connect (s : st) : res nat * st :=
  match kind cf with
  | KSingleton =>
      match sg_fairy s with
      | Some f => if f_dead s f then fairy_checkout None true s      (* the weakref is dead *)
                  else fairy_checkout (Some f) false s                (* rec._checkout_existing() *)
      | None => fairy_checkout None true s
      end
  | _ => fairy_checkout None false s
  end.

(* the weakref callback of fairy f fires (its last reference went away); exceptions are swallowed *)
Definition gc_fairy (f : nat) (s : st) : st :=
  if f_dead s f then s
  else snd (finalize None (Some (f_orig s f)) (Some f) false None (set_f_dead s (upd (f_dead s) f true))).

(* ------------------------------------------------------------------ the harness: holders and operations *)
Inductive op :=
| OConnect | OClose (h : nat) | OInvalidate (h : nat) (soft : bool) | ODetach (h : nat) | ODel (h : nat)
| OTick | OPoolInvalidate (h : nat).

Definition holds (f : nat) (h : option nat) : bool :=
  match h with Some g => Nat.eqb g f | None => false end.
Definition held (f : nat) (s : st) : bool := existsb (holds f) (holders s).

Fixpoint set_nth {A} (l : list A) (i : nat) (v : A) : list A :=
  match l, i with
  | [], _ => []
  | _ :: r, O => v :: r
  | x :: r, S j => x :: set_nth r j v
  end.

Definition on_holder (h : nat) (s : st) (k : nat -> res unit * st) : res Z * st :=
  match nth_error (holders s) h with
  | Some (Some f) => match k f with (Ok _, s1) => (Ok (-1), s1) | (Raise e, s1) => (Raise e, s1) end
  | _ => (Raise SkipE, s)                           (* no such holder: the harness skips the operation *)
  end.

(* one operation; [dt] advances the clock first.  The result is the connection obtained (connect) *)
Definition step (o : op) (dt : Z) (s0 : st) : res Z * st :=
  let s := set_trace (set_clock s0 (clock s0 + dt)) [] in
  match o with
  | OConnect =>
      match pool_connect s with
      | (Ok f, s1) =>
          (Ok (match f_dbc s1 f with Some c => Z.of_nat c | None => -2 end),
           set_holders s1 (holders s1 ++ [Some f]))
      | (Raise e, s1) =>
          (* a fairy created by the failed checkout is unreferenced once the exception is dropped *)
          (Raise e, if Nat.eqb (nfairies s1) (S (nfairies s)) then gc_fairy (nfairies s) s1 else s1)
      end
  | OClose h => on_holder h s (fun f => fairy_close f s)
  | OInvalidate h soft => on_holder h s (fun f => fairy_invalidate f soft s)
  | ODetach h => on_holder h s (fun f => fairy_detach f s)
  | ODel h =>
      match nth_error (holders s) h with
      | Some (Some f) =>
          let s1 := set_holders s (set_nth (holders s) h None) in
          (Ok (-1), if held f s1 then s1 else gc_fairy f s1)
      | _ => (Raise SkipE, s)
      end
  | OTick => (Ok (-1), s)
  | OPoolInvalidate h => on_holder h s (fun f => pool_invalidate f true s)
  end.

Fixpoint run (ops : list (op * Z)) (s : st) : st :=
  match ops with
  | [] => s
  | (o, dt) :: r => run r (snd (step o dt s))
  end.

(* number of records whose fairy_ref is set (ConnectionPoolEntry.in_use) *)
Fixpoint count_upto (p : nat -> bool) (n : nat) : nat :=
  match n with O => O | S k => (if p k then 1 else 0) + count_upto p k end.
Definition in_use (s : st) (r : nat) : bool := match r_fairy s r with Some _ => true | None => false end.
Definition inuse_count (s : st) : nat := count_upto (in_use s) (nrecs s).

(* QueuePool.checkedout() / checkedin() / overflow() *)
Definition checkedout (s : st) : Z := psize cf - Z.of_nat (length (q s)) + overflow s.
Definition checkedin (s : st) : Z := Z.of_nat (length (q s)).
Definition overflow_report (s : st) : Z := if psize cf =? 0 then 0 else overflow s.

End Model.
