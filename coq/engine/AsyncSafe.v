(* C29 - cancellation safety of the AsyncConnection life cycle (proofs) *)
From Coq Require Import List ZArith Bool Arith Lia.
Import ListNotations.
From SAV.engine Require Import Async AsyncConn AsyncExec AsyncWorld.
Open Scope Z_scope.

Lemma exec_await_nil i s w :
  exec (await_ i) s w [] = (of_reply (fst (io_step w i)), s, snd (io_step w i), []).
Proof. rewrite exec_await. destruct (io_suspends i); reflexivity. Qed.

(* a run without pending cancellations does what the run on the empty stream does *)
Definition qrest (m : M) (s : pst) (w : world) (cs : list cdec) : list cdec :=
  let '(_, _, _, cs') := exec m s w cs in cs'.
Lemma quiet_ncancel cs : quiet cs <-> ncancel cs = 0%nat.
Proof.
  split.
  - induction 1; cbn; subst; auto.
  - apply ncancel0_quiet.
Qed.
Lemma exec_quiet m s w cs : ncancel cs = 0%nat ->
  exec m s w cs = (let '(o, s', w', _) := exec m s w [] in (o, s', w', qrest m s w cs)) /\
  ncancel (qrest m s w cs) = 0%nat.
Proof.
  intros H. unfold qrest, exec, rl.
  pose proof (run_loop_quiet _ _ _ _ _ io_step io_cancel_step io_suspends ECancelled (m s) w cs (proj2 (quiet_ncancel cs) H)) as A.
  pose proof (run_loop_quiet _ _ _ _ _ io_step io_cancel_step io_suspends ECancelled (m s) w [] quiet_nil) as B.
  destruct (run_loop io_step io_cancel_step io_suspends ECancelled (m s) w cs) as [[[r1 w1] cs1] t1].
  destruct (run_loop io_step io_cancel_step io_suspends ECancelled (m s) w []) as [[[r2 w2] cs2] t2].
  destruct A as (A1 & A2 & _). destruct B as (B1 & _ & _).
  rewrite A1 in B1. inversion B1; subst. split; [reflexivity|]. apply quiet_ncancel; exact A2.
Qed.

Lemma exec_ncancel m s w cs o s' w' cs' :
  exec m s w cs = (o, s', w', cs') -> (ncancel cs' <= ncancel cs)%nat.
Proof.
  unfold exec, rl. intros H.
  pose proof (run_loop_ncancel _ _ _ _ _ io_step io_cancel_step io_suspends ECancelled (m s) w cs) as A.
  destruct (run_loop io_step io_cancel_step io_suspends ECancelled (m s) w cs) as [[[r1 w1] cs1] t1].
  inversion H; subst. exact A.
Qed.

Global Opaque exec.

Ltac ex :=
  repeat (progress (unfold munit, set_q, set_ov, set_cur, set_fo, set_c_fairy, set_recon, set_txn, set_n_out,
                      set_n_in, set_n_warn, set_oom, set_olog;
                    cbn;
                    rewrite ?exec_ret, ?exec_raise, ?exec_mod, ?exec_get, ?exec_seq, ?exec_bind, ?exec_try,
                            ?exec_finally, ?exec_await_nil, ?andb_false_r, ?andb_true_r)).

Arguments terminate : simpl never.
Arguments close_connection : simpl never.
Arguments rec_close_impl : simpl never.
Arguments rec_invalidate : simpl never.
Arguments rec_close : simpl never.
Arguments pool_return : simpl never.
Arguments rec_checkin : simpl never.
Arguments rec_checkin_failed : simpl never.
Arguments rec_connect : simpl never.
Arguments rec_get_connection : simpl never.
Arguments pool_do_get : simpl never.
Arguments checkout : simpl never.
Arguments fairy_reset : simpl never.
Arguments fairy_detach : simpl never.
Arguments finalize_fairy : simpl never.
Arguments finalize_except : simpl never.
Arguments fairy_invalidate : simpl never.
Arguments conn_invalidate : simpl never.
Arguments raw_connection : simpl never.
Arguments revalidate : simpl never.
Arguments safe_close_cursor : simpl never.
Arguments the_conn : simpl never.
Arguments handle_gen : simpl never.
Arguments handle_dbapi_exception : simpl never.
Arguments connection_prop : simpl never.
Arguments rollback_impl_gen : simpl never.
Arguments rollback_impl : simpl never.
Arguments commit_impl : simpl never.
Arguments execute_context : simpl never.
Arguments new_cursor : simpl never.
Arguments exec_single : simpl never.
Arguments root_transaction : simpl never.
Arguments conn_begin : simpl never.
Arguments conn_execute : simpl never.
Arguments txn_close_impl : simpl never.
Arguments txn_commit : simpl never.
Arguments conn_commit : simpl never.
Arguments conn_rollback : simpl never.
Arguments fairy_close : simpl never.
Arguments conn_close : simpl never.
Arguments engine_connect : simpl never.
Arguments gc_collect : simpl never.
Arguments dbapi_rollback : simpl never.
Arguments dbapi_commit : simpl never.
Arguments cursor_close : simpl never.
Arguments cursor_execute : simpl never.

(* one suspension under "at most one cancellation" *)
Lemma exec_await_cases i s w cs : (ncancel cs <= 1)%nat -> io_suspends i = true ->
  (exists cs', exec (await_ i) s w cs = (of_reply (fst (io_step w i)), s, snd (io_step w i), cs') /\ (ncancel cs' <= 1)%nat)
  \/ (exists eff cs', exec (await_ i) s w cs = (Raise ECancelled, s, (if eff : bool then io_cancel_step w i else w), cs')
                       /\ ncancel cs' = 0%nat).
Proof.
  intros H Hs. rewrite exec_await, Hs. destruct cs as [|[|eff] cs1].
  - left. exists []. auto.
  - left. exists cs1. cbn in H. auto.
  - right. exists eff, cs1. cbn in H. split; [reflexivity|lia].
Qed.

Lemma exec_await_nosusp i s w cs : io_suspends i = false ->
  exec (await_ i) s w cs = (of_reply (fst (io_step w i)), s, snd (io_step w i), cs).
Proof. intros Hs. rewrite exec_await, Hs. reflexivity. Qed.

Lemma cancel_world i c w (eff : bool) : io_conn i = Some c ->
  same_except c w (if eff then io_cancel_step w i else w) /\
  (io_closes i = false -> d_open (getc w c) = true -> d_open (getc (if eff then io_cancel_step w i else w) c) = true).
Proof.
  intros H. destruct eff.
  - split; [apply io_cancel_frame; auto|]. intros Hc Ho.
    destruct i; try discriminate; cbn [io_cancel_step]; apply io_step_keeps_open; auto.
  - split; [apply same_except_refl|auto].
Qed.

(* rewriting a run on a cancellation-free stream into the run on the empty stream *)
Ltac quiet_any :=
  match goal with
  | H : ncancel ?cs = 0%nat |- context [exec ?m ?s ?w ?cs] =>
      let E := fresh "E" in let Q := fresh "Q" in
      destruct (exec_quiet m s w cs H) as [E Q]; rewrite E; clear E
  end.
Ltac quiet_rw H0 :=
  match goal with
  | |- context [exec ?m ?s ?w ?cs] =>
      match type of H0 with ncancel cs = 0%nat =>
        let E := fresh "E" in let Q := fresh "Q" in
        destruct (exec_quiet m s w cs H0) as [E Q]; rewrite E; clear E
      end
  end.

Lemma style_eq_leak (sty : style) : sty = SLeak \/ sty <> SLeak.
Proof. destruct sty; auto; right; discriminate. Qed.

Section Safe.
  Variable cf : cfg.
  Hypothesis Hps : 1 <= psize cf.

  Definition rec_ok (w : world) (r : rec) : Prop :=
    r_fairy r = false /\
    match r_conn r with Some c => (c < nconn w)%nat /\ d_open (getc w c) = true | None => True end.
  Definition qok (q : list rec) (w : world) : Prop := Forall (rec_ok w) q.

  (* ---- quiet runs of the clean-up code ---- *)
  Lemma terminate_q c s w :
    exec (terminate true c) s w [] = (Ok VUnit, s, closed_conn w c, []).
  Proof. unfold terminate. ex. reflexivity. Qed.

  Lemma notin_existsb c (l : list nat) : ~ In c l -> existsb (Nat.eqb c) l = false.
  Proof.
    intros H. destruct (existsb (Nat.eqb c) l) eqn:E; auto. apply existsb_exists in E.
    destruct E as (x & Hx & He). apply Nat.eqb_eq in He. subst. contradiction.
  Qed.

  (* room in the queue for the record of connection [c], which is not itself waiting in the queue *)
  Definition roomy (q0 : list rec) (c : nat) : Prop := Z.of_nat (length q0) < psize cf /\ ~ In c (qconns q0).

  Lemma close_connection_q c s w : ~ In c (qconns (q s)) ->
    exec (close_connection true c true) s w [] = (Ok VUnit, s, closed_conn w c, []).
  Proof. intros H. unfold close_connection. ex. rewrite (notin_existsb _ _ H). ex. rewrite terminate_q. ex. reflexivity. Qed.

  (* a V-shaped python state: connection [c] checked out through the fairy held by the Connection *)
  Notation vstate q0 ov0 c rc tx no ni nw lg :=
    (mkpst q0 ov0 (Some (mkrec (Some c) true)) (Some (mkfairy true (Some c))) true rc tx no ni nw false lg).

  Lemma not_full (q0 : list rec) : Z.of_nat (length q0) < psize cf ->
    (0 <? psize cf) && (Z.of_nat (length q0) =? psize cf) = false.
  Proof. intros H. apply andb_false_iff. right. apply Z.eqb_neq. lia. Qed.

  Lemma conn_invalidate_q q0 ov0 c rc tx no ni nw lg w :
    roomy q0 c ->
    exec (conn_invalidate cf) (vstate q0 ov0 c rc tx no ni nw lg) w [] =
    (Ok VUnit,
     mkpst (q0 ++ [mkrec None false]) ov0 (Some (mkrec None false)) (Some (mkfairy false None)) false rc tx no (S ni) nw false lg,
     closed_conn w c, []).
  Proof.
    intros Hroom. unfold conn_invalidate. ex.
    unfold fairy_invalidate. ex. unfold rec_invalidate. ex. unfold rec_close_impl. ex.
    rewrite close_connection_q by (cbn; first [exact (proj2 Hroom)|assumption]). ex.
    unfold finalize_fairy. ex. unfold rec_checkin. ex. unfold pool_return. ex.
    rewrite (not_full _ (proj1 Hroom)). ex. reflexivity.
  Qed.

  (* _handle_dbapi_exception(CancelledError) on a valid connection: invalidate, re-raise *)
  Lemma handle_cancel_q q0 ov0 c rc tx no ni nw lg w cursor :
    roomy q0 c ->
    exec (handle_dbapi_exception cf ECancelled cursor) (vstate q0 ov0 c rc tx no ni nw lg) w [] =
    (Raise ECancelled,
     mkpst (q0 ++ [mkrec None false]) ov0 (Some (mkrec None false)) (Some (mkfairy false None)) false rc tx no (S ni) nw false lg,
     closed_conn w c, []).
  Proof.
    intros Hroom. unfold handle_dbapi_exception, handle_gen. ex.
    rewrite (conn_invalidate_q q0 ov0 c rc tx no ni nw lg w Hroom). ex. reflexivity.
  Qed.

  (* the patched except-arm of _finalize_fairy after a cancelled rollback-on-return *)
  Lemma reset_cancel_handler_q q0 ov0 c rc tx no ni nw lg w :
    roomy q0 c ->
    exec (finalize_except cf false true ECancelled) (vstate q0 ov0 c rc tx no ni nw lg) w [] =
    (Raise ECancelled,
     mkpst (q0 ++ [mkrec None false]) ov0 (Some (mkrec None false)) (Some (mkfairy false None)) true rc tx no (S ni) nw false lg,
     closed_conn w c, []).
  Proof.
    intros Hroom. unfold finalize_except. ex. unfold rec_invalidate. ex. unfold rec_close_impl. ex.
    rewrite close_connection_q by (cbn; first [exact (proj2 Hroom)|assumption]). ex. unfold rec_checkin. ex. unfold pool_return. ex.
    rewrite (not_full _ (proj1 Hroom)). ex. reflexivity.
  Qed.

  (* ---- single-cancellation runs ---- *)
  Lemma dbapi_rollback_S c s w cs : d_open (getc w c) = true -> (ncancel cs <= 1)%nat ->
    (exists w1 cs1, exec (dbapi_rollback c) s w cs = (Ok VUnit, s, w1, cs1) /\ same_except c w w1 /\
                    d_open (getc w1 c) = true /\ d_txn (getc w1 c) = false /\ (ncancel cs1 <= 1)%nat)
    \/ (exists w1 cs1, exec (dbapi_rollback c) s w cs = (Raise ECancelled, s, w1, cs1) /\ same_except c w w1 /\
                       d_open (getc w1 c) = true /\ ncancel cs1 = 0%nat).
  Proof.
    intros Ho Hc. unfold dbapi_rollback. rewrite exec_bind, exec_await_nosusp by reflexivity.
    rewrite step_probe. cbn [fst snd of_reply]. rewrite Ho.
    destruct (exec_await_cases (IoRollback c) s w cs Hc eq_refl) as [(cs1 & E & H1) | (eff & cs1 & E & H0)]; rewrite E.
    - destruct (step_rollback_open w c Ho) as (R1 & R2 & R3). rewrite R1. left.
      exists (snd (io_step w (IoRollback c))), cs1. repeat split; auto; apply (io_step_frame (IoRollback c) c w eq_refl).
    - right. destruct (cancel_world (IoRollback c) c w eff eq_refl) as [F K].
      eexists _, cs1. repeat split; eauto; apply F.
  Qed.

  (* ---- invariants ---- *)
  (* connection [c] is checked out (python state [vstate q0 ov0 c ...]) *)
  Record Vp (q0 : list rec) (ov0 : Z) (c : nat) (tx : option bool) (no ni : nat) (w : world) : Prop := {
    v_room : Z.of_nat (length q0) < psize cf;
    v_acct : ov0 = Z.of_nat (length q0) - psize cf + 1;
    v_cnt : no = S ni;
    v_q : qok q0 w;
    v_nd : NoDup (qconns q0);
    v_notin : ~ In c (qconns q0);
    v_c : (c < nconn w)%nat;
    v_open : d_open (getc w c) = true;
    v_others : forall c', c' <> c -> d_txn (getc w c') = false;
    v_tx : tx <> Some false }.

  (* nothing is checked out: every record is back in the pool exactly once, every pooled connection
     is alive, no connection at all has an open transaction *)
  Record Done (s : pst) (w : world) : Prop := {
    d_room : Z.of_nat (length (q s)) <= psize cf;
    d_acct : ov s = Z.of_nat (length (q s)) - psize cf;
    d_cnt : n_out s = n_in s;
    d_q : qok (q s) w;
    d_nd : NoDup (qconns (q s));
    d_notxn : forall c, d_txn (getc w c) = false;
    d_oom : oom s = false;
    d_curf : cur_fairy s = false }.

  Lemma qconns_app q r : qconns (q ++ [r]) = qconns q ++ match r_conn r with Some c => [c] | None => [] end.
  Proof. unfold qconns. rewrite flat_map_app. cbn. rewrite app_nil_r. reflexivity. Qed.

  Lemma in_qconns q c : In c (qconns q) <-> exists r, In r q /\ r_conn r = Some c.
  Proof.
    unfold qconns. rewrite in_flat_map. split.
    - intros (r & Hr & Hc). exists r. split; auto. destruct (r_conn r); cbn in Hc; [destruct Hc as [->|[]]; auto|contradiction].
    - intros (r & Hr & Hc). exists r. split; auto. rewrite Hc. cbn. auto.
  Qed.

  Lemma qok_frame q c w w' : qok q w -> ~ In c (qconns q) -> same_except c w w' -> qok q w'.
  Proof.
    intros Hq Hn [Hl Hg]. unfold qok in *. rewrite Forall_forall in *. intros r Hr.
    destruct (Hq r Hr) as [A B]. split; auto. destruct (r_conn r) as [c'|] eqn:E; auto.
    assert (c' <> c). { intros ->. apply Hn. apply in_qconns. eauto. }
    rewrite Hl, Hg; auto.
  Qed.

  Lemma qok_app q r w : qok q w -> rec_ok w r -> qok (q ++ [r]) w.
  Proof. intros. apply Forall_app. split; auto. Qed.

  Lemma nodup_app_one (l : list nat) c : NoDup l -> ~ In c l -> NoDup (l ++ [c]).
  Proof.
    intros Hn Hc. induction Hn as [|a l Ha Hn IH]; cbn.
    - constructor; auto. constructor.
    - constructor.
      + rewrite in_app_iff. cbn. intros [H|[H|[]]]; [auto|]. subst. apply Hc. left; auto.
      + apply IH. intros H. apply Hc. right; auto.
  Qed.

  Lemma notxn_frame c w w1 : (forall c', c' <> c -> d_txn (getc w c') = false) -> same_except c w w1 ->
    d_txn (getc w1 c) = false -> forall c', d_txn (getc w1 c') = false.
  Proof.
    intros Ho [_ Hg] Hc c'. destruct (Nat.eq_dec c' c) as [->|Hne]; auto. rewrite Hg; auto.
  Qed.

  (* the checked-out connection goes back alive and rolled back *)
  Lemma done_returned q0 ov0 c tx no ni w w1 fo' cf' rc' tx' nw lg :
    Vp q0 ov0 c tx no ni w -> same_except c w w1 -> d_open (getc w1 c) = true -> d_txn (getc w1 c) = false ->
    Done (mkpst (q0 ++ [mkrec (Some c) false]) ov0 (Some (mkrec (Some c) false)) fo' cf' rc' tx' no (S ni) nw false lg) w1.
  Proof.
    intros V Hs Ho Ht. destruct V. constructor; cbn [q ov n_out n_in oom cur_fairy cur r_fairy].
    - rewrite app_length. cbn. lia.
    - rewrite app_length. cbn. lia.
    - auto.
    - apply qok_app.
      + eapply qok_frame; eauto.
      + split; cbn; auto. destruct Hs as [Hl _]. rewrite Hl. auto.
    - rewrite qconns_app. cbn. apply nodup_app_one; auto.
    - eapply notxn_frame; eauto.
    - reflexivity.
    - reflexivity.
  Qed.

  (* the checked-out connection was closed; its record goes back empty *)
  Lemma done_invalidated q0 ov0 c tx no ni w w1 fo' cf' rc' tx' nw lg :
    Vp q0 ov0 c tx no ni w -> same_except c w w1 ->
    Done (mkpst (q0 ++ [mkrec None false]) ov0 (Some (mkrec None false)) fo' cf' rc' tx' no (S ni) nw false lg)
         (closed_conn w1 c).
  Proof.
    intros V Hs. destruct V.
    assert (Hs2 : same_except c w (closed_conn w1 c)).
    { eapply same_except_trans; [exact Hs|apply closed_frame]. }
    constructor; cbn [q ov n_out n_in oom cur_fairy cur r_fairy].
    - rewrite app_length. cbn. lia.
    - rewrite app_length. cbn. lia.
    - auto.
    - apply qok_app.
      + eapply qok_frame; eauto.
      + split; cbn; auto.
    - rewrite qconns_app. cbn. rewrite app_nil_r. auto.
    - eapply notxn_frame; eauto. rewrite getc_closed_same. reflexivity.
    - reflexivity.
    - reflexivity.
  Qed.

  Notation istate q0 ov0 rc tx no ni nw lg :=
    (mkpst (q0 ++ [mkrec None false]) ov0 (Some (mkrec None false)) (Some (mkfairy false None)) false rc tx no (S ni) nw false lg).

  Lemma rollback_impl_S q0 ov0 c rc tx no ni nw lg w cs :
    roomy q0 c -> d_open (getc w c) = true -> (ncancel cs <= 1)%nat ->
    (exists w1 cs1, exec (rollback_impl cf) (vstate q0 ov0 c rc tx no ni nw lg) w cs =
                    (Ok VUnit, vstate q0 ov0 c rc tx no ni nw lg, w1, cs1) /\ same_except c w w1 /\
                    d_open (getc w1 c) = true /\ d_txn (getc w1 c) = false /\ (ncancel cs1 <= 1)%nat)
    \/ (exists w1 cs1, exec (rollback_impl cf) (vstate q0 ov0 c rc tx no ni nw lg) w cs =
                       (Raise ECancelled, istate q0 ov0 rc tx no ni nw lg, closed_conn w1 c, cs1) /\
                       same_except c w w1 /\ ncancel cs1 = 0%nat).
  Proof.
    intros Hroom Ho Hc. unfold rollback_impl, rollback_impl_gen. ex.
    unfold connection_prop. ex. unfold the_conn. ex.
    destruct (dbapi_rollback_S c (vstate q0 ov0 c rc tx no ni nw lg) w cs Ho Hc)
      as [(w1 & cs1 & E & F & O & T & H1) | (w1 & cs1 & E & F & O & H0)]; rewrite E.
    - left. exists w1, cs1. repeat (split; auto).
    - right. quiet_rw H0. rewrite (handle_cancel_q q0 ov0 c rc tx no ni nw lg w1 None Hroom).
      eexists w1, _. split; [reflexivity|]. split; auto.
  Qed.

  Lemma conn_close_V q0 ov0 c rc tx no ni nw lg w cs :
    Vp q0 ov0 c tx no ni w -> (ncancel cs <= 1)%nat ->
    let '(o, s', w', cs') := exec (conn_close cf) (vstate q0 ov0 c rc tx no ni nw lg) w cs in
    Done s' w' /\ n_warn s' = nw /\
    ((o = Ok VUnit /\ (ncancel cs' <= 1)%nat) \/ (o = Raise ECancelled /\ ncancel cs' = 0%nat)).
  Proof.
    intros V Hc. pose proof (conj (v_room _ _ _ _ _ _ _ V) (v_notin _ _ _ _ _ _ _ V)) as Hroom. pose proof (v_open _ _ _ _ _ _ _ V) as Ho.
    destruct tx as [[|]|].
    - (* a transaction is active: Transaction.close() rolls back, the fairy is returned without reset *)
      unfold conn_close. ex. unfold txn_close_impl. ex.
      destruct (rollback_impl_S q0 ov0 c rc (Some true) no ni nw lg w cs Hroom Ho Hc)
        as [(w1 & cs1 & E & F & O & T & H1) | (w1 & cs1 & E & F & H0)]; rewrite E; ex.
      + unfold fairy_close, finalize_fairy. ex. unfold fairy_reset. ex.
        unfold rec_checkin. ex. unfold pool_return. ex. rewrite (not_full _ (proj1 Hroom)). ex.
        split; [|split; [reflexivity|left; auto]].
        eapply done_returned; eauto.
      + split; [|split; [reflexivity|right; auto]].
        eapply done_invalidated; eauto.
    - exfalso. apply (v_tx _ _ _ _ _ _ _ V). reflexivity.
    - (* no transaction: rollback-on-return in _finalize_fairy *)
      unfold conn_close. ex. unfold fairy_close, finalize_fairy. ex. unfold fairy_reset. ex.
      destruct (dbapi_rollback_S c (vstate q0 ov0 c rc None no ni nw lg) w cs Ho Hc)
        as [(w1 & cs1 & E & F & O & T & H1) | (w1 & cs1 & E & F & O & H0)]; rewrite E; ex.
      + unfold rec_checkin. ex. unfold pool_return. ex. rewrite (not_full _ (proj1 Hroom)). ex.
        split; [|split; [reflexivity|left; auto]].
        eapply done_returned; eauto.
      + quiet_rw H0. rewrite (reset_cancel_handler_q q0 ov0 c rc None no ni nw lg w1 Hroom). ex.
        split; [|split; [reflexivity|right; auto]].
        eapply done_invalidated; eauto.
  Qed.

  (* Connection.close() on a Connection that holds no fairy does no IO and leaves the pool alone *)
  Lemma conn_close_I q0 ov0 cu f rc tx no ni nw om lg w cs :
    exec (conn_close cf) (mkpst q0 ov0 cu f false rc tx no ni nw om lg) w cs =
    (Ok VUnit, mkpst q0 ov0 cu f false false None no ni nw om lg, w, cs).
  Proof.
    unfold conn_close. destruct tx as [[|]|]; ex; unfold txn_close_impl; ex;
      unfold rollback_impl, rollback_impl_gen; ex; reflexivity.
  Qed.

  Lemma setup_noeffect w c : snd (io_step w (IoSetup c)) = w.
  Proof. cbn. destruct (d_open (getc w c)); reflexivity. Qed.

  (* _ConnectionRecord.__connect under at most one cancellation *)
  Lemma rec_connect_S q0 ov0 x b f cfy rc tx no ni nw om lg w cs : (ncancel cs <= 1)%nat ->
    let st oc := mkpst q0 ov0 (Some (mkrec oc b)) f cfy rc tx no ni nw om lg in
    let c := nconn w in
    (exists cs1, exec rec_connect (st x) w cs = (Ok VUnit, st (Some c), new_conn w (mkd true false []), cs1)
                 /\ (ncancel cs1 <= 1)%nat)
    \/ (exists w1 cs1, exec rec_connect (st x) w cs = (Raise ECancelled, st None, w1, cs1)
                       /\ (w1 = w \/ w1 = new_conn w dead) /\ ncancel cs1 = 0%nat)
    \/ (exists cs1, exec rec_connect (st x) w cs = (Raise ECancelled, st (Some c), new_conn w (mkd true false []), cs1)
                    /\ ncancel cs1 = 0%nat).
  Proof.
    intros Hc st c. unfold rec_connect, st. ex.
    destruct (exec_await_cases IoConnect (mkpst q0 ov0 (Some (mkrec None b)) f cfy rc tx no ni nw om lg) w cs Hc eq_refl)
      as [(cs1 & E & H1) | (eff & cs1 & E & H0)]; rewrite E; clear E.
    2:{ right; left. eexists _, cs1. split; [reflexivity|]. split; auto. destruct eff; cbn; auto. }
    rewrite step_connect. ex.
    set (w1 := new_conn w (mkd true false [])).
    assert (Ho : d_open (getc w1 (nconn w)) = true) by (unfold w1; rewrite getc_new_same; reflexivity).
    assert (Hstep : io_step w1 (IoSetup (nconn w)) = (inl VUnit, w1)) by (apply (step_simple_open w1 (nconn w)); auto).
    assert (Hcan : forall eff : bool, (if eff then io_cancel_step w1 (IoSetup (nconn w)) else w1) = w1).
    { intros [|]; auto. cbn [io_cancel_step]. apply setup_noeffect. }
    match goal with |- context [exec (await_ (IoSetup (nconn w))) ?s w1 cs1] =>
      destruct (exec_await_cases (IoSetup (nconn w)) s w1 cs1 H1 eq_refl) as [(cs2 & E & H2) | (eff & cs2 & E & H0)];
      rewrite E; clear E end.
    2:{ right; right. rewrite Hcan. exists cs2. split; [reflexivity|auto]. }
    rewrite Hstep. ex.
    match goal with |- context [exec (await_ (IoSetup (nconn w))) ?s w1 cs2] =>
      destruct (exec_await_cases (IoSetup (nconn w)) s w1 cs2 H2 eq_refl) as [(cs3 & E & H3) | (eff & cs3 & E & H0)];
      rewrite E; clear E end.
    2:{ right; right. rewrite Hcan. exists cs3. split; [reflexivity|auto]. }
    rewrite Hstep. ex.
    match goal with |- context [exec (await_ (IoSetup (nconn w))) ?s w1 cs3] =>
      destruct (exec_await_cases (IoSetup (nconn w)) s w1 cs3 H3 eq_refl) as [(cs4 & E & H4) | (eff & cs4 & E & H0)];
      rewrite E; clear E end.
    2:{ right; right. rewrite Hcan. exists cs4. split; [reflexivity|auto]. }
    rewrite Hstep. ex. left. exists cs4. split; [reflexivity|auto].
  Qed.

  Lemma rec_checkin_failed_q q1 ov1 oc b f cfy rc tx no ni nw om lg w :
    Z.of_nat (length q1) < psize cf -> match oc with Some c => ~ In c (qconns q1) | None => True end ->
    exec (rec_checkin_failed cf false) (mkpst q1 ov1 (Some (mkrec oc b)) f cfy rc tx no ni nw om lg) w [] =
    (Ok VUnit, mkpst (q1 ++ [mkrec None false]) ov1 (Some (mkrec None false)) f cfy rc tx no (S ni) nw om lg,
     match oc with Some c => closed_conn w c | None => w end, []).
  Proof.
    intros Hroom Hnot. unfold rec_checkin_failed. ex. unfold rec_invalidate. ex. destruct oc as [c|]; ex.
    - unfold rec_close_impl. ex. rewrite close_connection_q by (cbn; first [exact (proj2 Hroom)|assumption]). ex. unfold rec_checkin. ex. unfold pool_return. ex.
      rewrite (not_full _ Hroom). ex. reflexivity.
    - unfold rec_checkin. ex. unfold pool_return. ex. rewrite (not_full _ Hroom). ex. reflexivity.
  Qed.

  Lemma no_wait ov0 : ov0 < 0 -> (-1 <? maxov cf) && (maxov cf <=? ov0) = false.
  Proof.
    intros H. destruct (-1 <? maxov cf) eqn:E; cbn; auto. apply Z.ltb_lt in E. apply Z.leb_gt. lia.
  Qed.

  Lemma qok_new q w d : qok q w -> qok q (new_conn w d) /\ ~ In (nconn w) (qconns q).
  Proof.
    intros Hq. split.
    - unfold qok in *. rewrite Forall_forall in *. intros r Hr. destruct (Hq r Hr) as [A B]. split; auto.
      destruct (r_conn r) as [c'|]; auto. destruct B as [B1 B2]. rewrite nconn_new. split; [lia|].
      rewrite getc_new_other; auto. lia.
    - intros Hin. apply in_qconns in Hin. destruct Hin as (r & Hr & Hc). unfold qok in Hq. rewrite Forall_forall in Hq.
      destruct (Hq r Hr) as [_ B]. rewrite Hc in B. lia.
  Qed.

  Lemma notxn_new w d : d_txn d = false -> (forall c, d_txn (getc w c) = false) -> forall c, d_txn (getc (new_conn w d) c) = false.
  Proof.
    intros Hd H c. destruct (Nat.eq_dec c (nconn w)) as [->|Hne].
    - rewrite getc_new_same. auto.
    - rewrite getc_new_other; auto.
  Qed.

  Lemma notxn_closed w c : (forall c', d_txn (getc w c') = false) -> forall c', d_txn (getc (closed_conn w c) c') = false.
  Proof.
    intros H c'. destruct (Nat.eq_dec c' c) as [->|Hne].
    - rewrite getc_closed_same. reflexivity.
    - unfold closed_conn. rewrite getc_setc_other; auto.
  Qed.

  Ltac fin :=
    first [ lia | reflexivity | discriminate | assumption | solve [constructor]
          | (rewrite nconn_new; lia) | (rewrite getc_new_same; reflexivity)
          | (let c' := fresh in let H := fresh in intros c' H; rewrite getc_new_other; solve [auto])
          | (rewrite app_length; cbn; lia)
          | solve [auto] ].

  (* Engine.connect() from a state with nothing checked out *)
  Lemma engine_connect_S q0 ov0 cu f cfy rc tx no ni nw lg w cs :
    Done (mkpst q0 ov0 cu f cfy rc tx no ni nw false lg) w -> (ncancel cs <= 1)%nat ->
    let '(o, s', w', cs') := exec (engine_connect cf) (mkpst q0 ov0 cu f cfy rc tx no ni nw false lg) w cs in
    (exists q1 ov1 c no1 ni1,
        o = Ok VUnit /\ s' = vstate q1 ov1 c true None no1 ni1 nw lg /\ Vp q1 ov1 c None no1 ni1 w' /\
        (ncancel cs' <= 1)%nat)
    \/ (o = Raise ECancelled /\ Done s' w' /\ n_warn s' = nw /\ olog s' = lg /\ ncancel cs' = 0%nat).
  Proof.
    intros D Hc. destruct D as [Droom Dacct Dcnt Dq Dnd Dtx _ _]. cbn in Droom, Dacct, Dcnt, Dq, Dnd.
    unfold engine_connect. ex. unfold raw_connection. ex. unfold checkout. ex. unfold pool_do_get. ex.
    destruct q0 as [|r rest].
    - (* empty pool: a new record and a new connection *)
      cbn in Droom, Dacct. rewrite (no_wait ov0) by lia. ex.
      destruct (rec_connect_S [] (ov0 + 1) None false f false true None no ni nw false lg w cs Hc)
        as [(cs1 & E & H1) | [(w1 & cs1 & E & Hw & H0) | (cs1 & E & H0)]]; rewrite E; clear E; ex.
      + unfold rec_get_connection. ex. left.
        exists [], (ov0 + 1), (nconn w), (S no), ni. split; [reflexivity|]. split; [reflexivity|]. split; auto.
        constructor; cbn [length qconns flat_map]; fin.
      + unfold dec_overflow. ex. right. split; [reflexivity|]. split; [|auto].
        constructor; cbn [q ov n_out n_in oom cur_fairy cur r_fairy length qconns flat_map]; try fin.
        destruct Hw as [->| ->]; auto. apply notxn_new; auto.
      + unfold dec_overflow. ex. right. split; [reflexivity|]. split; [|auto].
        constructor; cbn [q ov n_out n_in oom cur_fairy cur r_fairy length qconns flat_map]; try fin.
        apply notxn_new; auto.
    - (* a pooled record *)
      cbn [length] in Droom, Dacct. unfold qok in Dq. apply Forall_cons_iff in Dq. destruct Dq as [Hr Hrest].
      destruct r as [oc b]. destruct Hr as [Hb Hoc]. cbn in Hb, Hoc. subst b.
      destruct oc as [c'|].
      + (* ... with a live connection *)
        unfold rec_get_connection. ex. left.
        exists rest, ov0, c', (S no), ni. split; [reflexivity|]. split; [reflexivity|]. split; auto.
        cbn in Dnd. apply NoDup_cons_iff in Dnd. destruct Dnd as [Dn1 Dn2]. destruct Hoc as [Hlt Hop].
        constructor; fin.
      + (* ... that was invalidated: reconnect *)
        unfold rec_get_connection. ex.
        destruct (rec_connect_S rest ov0 None false f false true None (S no) ni nw false lg w cs Hc)
          as [(cs1 & E & H1) | [(w1 & cs1 & E & Hw & H0) | (cs1 & E & H0)]]; rewrite E; clear E; ex.
        * left. exists rest, ov0, (nconn w), (S no), ni. split; [reflexivity|]. split; [reflexivity|]. split; auto.
          destruct (qok_new rest w (mkd true false []) Hrest) as [Hq1 Hni].
          constructor; fin.
        * quiet_any. rewrite rec_checkin_failed_q by (try lia; exact I). ex. right. split; [reflexivity|]. split; [|auto].
          constructor; cbn [q ov n_out n_in oom cur_fairy cur r_fairy]; try fin.
          -- apply qok_app; [|split; cbn; auto]. destruct Hw as [->| ->]; auto. apply qok_new; auto.
          -- rewrite qconns_app. cbn. rewrite app_nil_r. auto.
          -- destruct Hw as [->| ->]; auto. apply notxn_new; auto.
        * destruct (qok_new rest w (mkd true false []) Hrest) as [Hq1 Hni].
          quiet_any. rewrite rec_checkin_failed_q by (try lia; exact Hni). ex. right. split; [reflexivity|]. split; [|auto].
          constructor; cbn [q ov n_out n_in oom cur_fairy cur r_fairy]; try fin.
          -- apply qok_app; [|split; cbn; auto]. eapply qok_frame; [exact Hq1|exact Hni|apply closed_frame].
          -- rewrite qconns_app. cbn. rewrite app_nil_r. auto.
          -- apply notxn_closed. apply notxn_new; auto.
  Qed.

  (* ---- the Connection operations from a valid checkout ---- *)
  Definition op_post q0 ov0 c rc no ni nw lg (w : world) (r : outcome * pst * world * list cdec) : Prop :=
    let '(o, s', w', cs') := r in
    (exists tx', s' = vstate q0 ov0 c rc tx' no ni nw lg /\ tx' <> Some false /\ same_except c w w' /\
                 d_open (getc w' c) = true /\
                 ((o <> Raise ECancelled /\ (ncancel cs' <= 1)%nat) \/ (o = Raise ECancelled /\ ncancel cs' = 0%nat)))
    \/ (exists tx' w1, s' = istate q0 ov0 rc tx' no ni nw lg /\ w' = closed_conn w1 c /\ same_except c w w1 /\
                       o = Raise ECancelled /\ ncancel cs' = 0%nat).

  Lemma new_cursor_S q0 ov0 c rc tx no ni nw lg w cs :
    roomy q0 c -> d_open (getc w c) = true -> (ncancel cs <= 1)%nat ->
    (exists cs1, exec (new_cursor cf) (vstate q0 ov0 c rc tx no ni nw lg) w cs =
                 (Ok (VConn c), vstate q0 ov0 c rc tx no ni nw lg, w, cs1) /\ (ncancel cs1 <= 1)%nat)
    \/ (exists w1 cs1, exec (new_cursor cf) (vstate q0 ov0 c rc tx no ni nw lg) w cs =
                       (Raise ECancelled, istate q0 ov0 rc tx no ni nw lg, closed_conn w1 c, cs1) /\
                       same_except c w w1 /\ ncancel cs1 = 0%nat).
  Proof.
    intros Hroom Ho Hc. unfold new_cursor. ex. unfold the_conn. ex.
    destruct (exec_await_cases (IoCursor c) (vstate q0 ov0 c rc tx no ni nw lg) w cs Hc eq_refl)
      as [(cs1 & E & H1) | (eff & cs1 & E & H0)]; rewrite E; clear E.
    - rewrite (step_simple_open w c (IoCursor c)) by auto. ex. left. exists cs1. auto.
    - ex. quiet_any. rewrite handle_cancel_q by auto. right.
      eexists _, _. split; [reflexivity|]. split; auto. apply (cancel_world (IoCursor c) c w eff eq_refl).
  Qed.

  (* _handle_dbapi_exception for an ordinary DBAPI error of a statement *)
  Lemma handle_error_S q0 ov0 c rc tx no ni nw lg w cs e :
    (e = EIntegrity \/ e = EOperational) -> tx <> Some false ->
    d_open (getc w c) = true -> (ncancel cs <= 1)%nat ->
    exists o w1 cs1,
      exec (handle_dbapi_exception cf e (Some c)) (vstate q0 ov0 c rc tx no ni nw lg) w cs =
      (o, vstate q0 ov0 c rc tx no ni nw lg, w1, cs1) /\ same_except c w w1 /\ d_open (getc w1 c) = true /\
      ((o = Raise e /\ (ncancel cs1 <= 1)%nat) \/ (o = Raise ECancelled /\ ncancel cs1 = 0%nat)).
  Proof.
    intros He Htx Ho Hc.
    assert (Hd : is_exit_exception e = false /\ is_dbapi_error e = true /\ is_disconnect e = false)
      by (destruct He; subst; auto).
    destruct Hd as (D1 & D2 & D3).
    unfold handle_dbapi_exception, handle_gen. ex. rewrite D1, D2, D3. ex. unfold safe_close_cursor. ex.
    unfold cursor_close.
    destruct (exec_await_cases (IoCursorClose c) (vstate q0 ov0 c rc tx no ni nw lg) w cs Hc eq_refl)
      as [(cs1 & E & H1) | (eff & cs1 & E & H0)]; rewrite E; clear E.
    - rewrite (step_simple_open w c (IoCursorClose c)) by auto. ex.
      destruct tx as [[|]|]; [| exfalso; apply Htx; reflexivity |]; ex.
      + eexists _, w, cs1. split; [reflexivity|]. split; [apply same_except_refl|]. split; [auto|]. left. split; [reflexivity|auto].
      + (* outside a transaction: the autorollback *)
        unfold rollback_impl_gen. ex. unfold connection_prop. ex. unfold the_conn. ex.
        destruct (dbapi_rollback_S c (vstate q0 ov0 c rc None no ni nw lg) w cs1 Ho H1)
          as [(w1 & cs2 & E & F & O & T & H2) | (w1 & cs2 & E & F & O & H0)]; rewrite E; clear E; ex.
        * eexists _, w1, cs2. split; [reflexivity|]. split; [auto|]. split; [auto|]. left. split; [reflexivity|auto].
        * unfold handle0. ex. eexists _, w1, cs2. split; [reflexivity|]. split; [auto|]. split; [auto|]. right. split; [reflexivity|auto].
    - ex. destruct (cancel_world (IoCursorClose c) c w eff eq_refl) as [F K].
      eexists _, _, cs1. split; [reflexivity|]. split; [auto|]. split; [auto|]. right. split; [reflexivity|auto].
  Qed.

  Lemma exec_single_S q0 ov0 c rc tx no ni nw lg w cs st :
    roomy q0 c -> tx <> Some false -> d_open (getc w c) = true -> (ncancel cs <= 1)%nat ->
    op_post q0 ov0 c rc no ni nw lg w (exec (exec_single cf c st) (vstate q0 ov0 c rc tx no ni nw lg) w cs).
  Proof.
    intros Hroom Htx Ho Hc. unfold exec_single. ex. unfold cursor_execute. ex.
    destruct (exec_await_cases (IoExec c st) (vstate q0 ov0 c rc tx no ni nw lg) w cs Hc eq_refl)
      as [(cs1 & E & H1) | (eff & cs1 & E & H0)]; rewrite E; clear E.
    2:{ ex. quiet_any. rewrite handle_cancel_q by auto. right. eexists tx, _. split; [reflexivity|]. split; [reflexivity|].
        split; [apply (cancel_world (IoExec c st) c w eff eq_refl)|]. auto. }
    pose proof (io_step_frame (IoExec c st) c w eq_refl) as F1.
    pose proof (io_step_keeps_open (IoExec c st) c w eq_refl eq_refl Ho) as O1.
    set (w1 := snd (io_step w (IoExec c st))) in *.
    destruct (step_exec_open w c st Ho) as [R | R].
    - rewrite R. ex. destruct (returns_rows st); ex.
      + destruct (exec_await_cases (IoFetch c) (vstate q0 ov0 c rc tx no ni nw lg) w1 cs1 H1 eq_refl)
          as [(cs2 & E & H2) | (eff & cs2 & E & H0)]; rewrite E; clear E.
        * rewrite step_fetch_open by auto. ex. left. exists tx. split; [reflexivity|]. split; [auto|]. split; [auto|].
          split; [auto|]. left. split; [discriminate|auto].
        * ex. quiet_any. rewrite handle_cancel_q by auto. right. eexists tx, _. split; [reflexivity|]. split; [reflexivity|].
          split; [|auto]. eapply same_except_trans; [exact F1|]. apply (cancel_world (IoFetch c) c w1 eff eq_refl).
      + unfold cursor_close.
        destruct (exec_await_cases (IoCursorClose c) (vstate q0 ov0 c rc tx no ni nw lg) w1 cs1 H1 eq_refl)
          as [(cs2 & E & H2) | (eff & cs2 & E & H0)]; rewrite E; clear E.
        * rewrite (step_simple_open w1 c (IoCursorClose c)) by auto. ex. left. exists tx. split; [reflexivity|].
          split; [auto|]. split; [auto|]. split; [auto|]. left. split; [discriminate|auto].
        * ex. quiet_any. rewrite handle_cancel_q by auto. right. eexists tx, _. split; [reflexivity|]. split; [reflexivity|].
          split; [|auto]. eapply same_except_trans; [exact F1|]. apply (cancel_world (IoCursorClose c) c w1 eff eq_refl).
    - assert (He : exists e, fst (io_step w (IoExec c st)) = inr e /\ (e = EIntegrity \/ e = EOperational))
        by (destruct R as [R|R]; eauto).
      destruct He as (e & Re & He). rewrite Re. ex.
      destruct (handle_error_S q0 ov0 c rc tx no ni nw lg w1 cs1 e He Htx O1 H1) as (o & w2 & cs2 & E & F2 & O2 & Hout).
      rewrite E. left. exists tx. split; [reflexivity|]. split; [auto|].
      split; [eapply same_except_trans; eauto|]. split; [auto|].
      destruct Hout as [[-> Hn] | [-> Hn]]; [left|right]; split; auto.
      destruct He; subst; discriminate.
  Qed.

  Lemma op_post_trans q0 ov0 c rc no ni nw lg w w1 r :
    same_except c w w1 -> op_post q0 ov0 c rc no ni nw lg w1 r -> op_post q0 ov0 c rc no ni nw lg w r.
  Proof.
    intros F. destruct r as [[[o s'] w'] cs']. cbn.
    intros [(tx' & A & B & C & D) | (tx' & w2 & A & B & C & D)].
    - left. exists tx'. split; auto. split; auto. split; auto. eapply same_except_trans; eauto.
    - right. exists tx', w2. split; auto. split; auto. split; auto. eapply same_except_trans; eauto.
  Qed.

  Lemma execute_noab_S q0 ov0 c rc tx no ni nw lg w cs st :
    roomy q0 c -> tx <> Some false -> d_open (getc w c) = true -> (ncancel cs <= 1)%nat ->
    op_post q0 ov0 c rc no ni nw lg w (exec (execute_context cf munit st) (vstate q0 ov0 c rc tx no ni nw lg) w cs).
  Proof.
    intros Hroom Htx Ho Hc. unfold execute_context. ex.
    destruct (new_cursor_S q0 ov0 c rc tx no ni nw lg w cs Hroom Ho Hc)
      as [(cs1 & E & H1) | (w1 & cs1 & E & F & H0)]; rewrite E; clear E.
    - ex. destruct tx as [[|]|]; [| exfalso; apply Htx; reflexivity |]; ex; apply exec_single_S; auto.
    - unfold op_post; cbn [fst snd]; lazy beta iota zeta. right. exists tx, w1. auto.
  Qed.

  (* RootTransaction.__init__: BEGIN through the "begin" listener *)
  Lemma root_transaction_S q0 ov0 c rc no ni nw lg w cs :
    roomy q0 c -> d_open (getc w c) = true -> (ncancel cs <= 1)%nat ->
    op_post q0 ov0 c rc no ni nw lg w (exec (root_transaction cf) (vstate q0 ov0 c rc None no ni nw lg) w cs).
  Proof.
    intros Hroom Ho Hc. unfold root_transaction. rewrite exec_seq.
    pose proof (execute_noab_S q0 ov0 c rc None no ni nw lg w cs SBegin Hroom ltac:(discriminate) Ho Hc) as P.
    destruct (exec (execute_context cf munit SBegin) (vstate q0 ov0 c rc None no ni nw lg) w cs) as [[[o s1] w1] cs1].
    cbn in P. destruct P as [(tx' & -> & B & F & O & D) | (tx' & w2 & -> & -> & F & -> & H0)].
    - destruct o as [v|e]; ex.
      + unfold op_post; cbn [fst snd]; lazy beta iota zeta. left. exists (Some true). split; [reflexivity|]. split; [discriminate|]. split; auto. split; auto.
        left. split; [discriminate|]. destruct D as [[_ D]|[D _]]; [auto|discriminate].
      + unfold op_post; cbn [fst snd]; lazy beta iota zeta. left. exists tx'. auto.
    - unfold op_post; cbn [fst snd]; lazy beta iota zeta. right. exists tx', w2. auto.
  Qed.

  Lemma conn_begin_S q0 ov0 c rc tx no ni nw lg w cs :
    roomy q0 c -> tx <> Some false -> d_open (getc w c) = true -> (ncancel cs <= 1)%nat ->
    op_post q0 ov0 c rc no ni nw lg w (exec (conn_begin cf) (vstate q0 ov0 c rc tx no ni nw lg) w cs).
  Proof.
    intros Hroom Htx Ho Hc. unfold conn_begin. ex. destruct tx as [a|]; ex.
    - unfold op_post; cbn [fst snd]; lazy beta iota zeta. left. exists (Some a). split; [reflexivity|]. split; auto. split; [apply same_except_refl|]. split; auto.
      left. split; [discriminate|auto].
    - apply root_transaction_S; auto.
  Qed.

  Lemma conn_execute_S q0 ov0 c rc tx no ni nw lg w cs st :
    roomy q0 c -> tx <> Some false -> d_open (getc w c) = true -> (ncancel cs <= 1)%nat ->
    op_post q0 ov0 c rc no ni nw lg w (exec (conn_execute cf st) (vstate q0 ov0 c rc tx no ni nw lg) w cs).
  Proof.
    intros Hroom Htx Ho Hc. unfold conn_execute, execute_context. ex.
    destruct (new_cursor_S q0 ov0 c rc tx no ni nw lg w cs Hroom Ho Hc)
      as [(cs1 & E & H1) | (w1 & cs1 & E & F & H0)]; rewrite E; clear E.
    2:{ unfold op_post; cbn [fst snd]; lazy beta iota zeta. right. exists tx, w1. auto. }
    ex. destruct tx as [[|]|]; [| exfalso; apply Htx; reflexivity |]; ex.
    - apply exec_single_S; auto.
    - pose proof (conn_begin_S q0 ov0 c rc None no ni nw lg w cs1 Hroom ltac:(discriminate) Ho H1) as P.
      destruct (exec (conn_begin cf) (vstate q0 ov0 c rc None no ni nw lg) w cs1) as [[[o s1] w1] cs2].
      cbn in P. destruct P as [(tx' & -> & B & F & O & D) | (tx' & w2 & -> & -> & F & -> & H0)].
      + destruct o as [v|e].
        * destruct D as [[_ D]|[D _]]; [|discriminate].
          eapply op_post_trans; [exact F|]. apply exec_single_S; auto.
        * unfold op_post; cbn [fst snd]; lazy beta iota zeta. left. exists tx'. auto.
      + unfold op_post; cbn [fst snd]; lazy beta iota zeta. right. exists tx', w2. auto.
  Qed.

  Lemma dbapi_commit_S c s w cs : d_open (getc w c) = true -> (ncancel cs <= 1)%nat ->
    (exists w1 cs1, exec (dbapi_commit c) s w cs = (Ok VUnit, s, w1, cs1) /\ same_except c w w1 /\
                    d_open (getc w1 c) = true /\ (ncancel cs1 <= 1)%nat)
    \/ (exists w1 cs1, exec (dbapi_commit c) s w cs = (Raise ECancelled, s, w1, cs1) /\ same_except c w w1 /\
                       ncancel cs1 = 0%nat).
  Proof.
    intros Ho Hc. unfold dbapi_commit. rewrite exec_bind, exec_await_nosusp by reflexivity.
    rewrite step_probe. cbn [fst snd of_reply]. rewrite Ho.
    destruct (exec_await_cases (IoCommit c) s w cs Hc eq_refl) as [(cs1 & E & H1) | (eff & cs1 & E & H0)]; rewrite E.
    - destruct (step_commit_open w c Ho) as (R1 & R2 & R3). rewrite R1. left.
      exists (snd (io_step w (IoCommit c))), cs1. split; [reflexivity|]. split; [apply (io_step_frame (IoCommit c) c w eq_refl)|auto].
    - right. destruct (cancel_world (IoCommit c) c w eff eq_refl) as [F K].
      eexists _, cs1. split; [reflexivity|]. split; auto.
  Qed.

  Lemma conn_commit_S q0 ov0 c rc tx no ni nw lg w cs :
    roomy q0 c -> tx <> Some false -> d_open (getc w c) = true -> (ncancel cs <= 1)%nat ->
    op_post q0 ov0 c rc no ni nw lg w (exec (conn_commit cf) (vstate q0 ov0 c rc tx no ni nw lg) w cs).
  Proof.
    intros Hroom Htx Ho Hc. unfold conn_commit. ex.
    destruct tx as [[|]|]; [| exfalso; apply Htx; reflexivity |]; ex.
    - unfold txn_commit. ex. unfold commit_impl. ex. unfold connection_prop. ex. unfold the_conn. ex.
      destruct (dbapi_commit_S c (vstate q0 ov0 c rc (Some true) no ni nw lg) w cs Ho Hc)
        as [(w1 & cs1 & E & F & O & H1) | (w1 & cs1 & E & F & H0)]; rewrite E; clear E; ex.
      + unfold op_post; cbn [fst snd]; lazy beta iota zeta. left. exists None. split; [reflexivity|]. split; [discriminate|].
        split; [auto|]. split; [auto|]. left. split; [discriminate|auto].
      + quiet_any. rewrite handle_cancel_q by auto. ex.
        unfold op_post; cbn [fst snd]; lazy beta iota zeta. right. eexists (Some false), w1. split; [reflexivity|]. auto.
    - unfold op_post; cbn [fst snd]; lazy beta iota zeta. left. exists None. split; [reflexivity|]. split; [discriminate|].
      split; [apply same_except_refl|]. split; [auto|]. left. split; [discriminate|auto].
  Qed.

  Lemma conn_rollback_S q0 ov0 c rc tx no ni nw lg w cs :
    roomy q0 c -> tx <> Some false -> d_open (getc w c) = true -> (ncancel cs <= 1)%nat ->
    op_post q0 ov0 c rc no ni nw lg w (exec (conn_rollback cf) (vstate q0 ov0 c rc tx no ni nw lg) w cs).
  Proof.
    intros Hroom Htx Ho Hc. unfold conn_rollback. ex.
    destruct tx as [[|]|]; [| exfalso; apply Htx; reflexivity |]; ex.
    - unfold txn_close_impl. ex.
      destruct (rollback_impl_S q0 ov0 c rc (Some true) no ni nw lg w cs Hroom Ho Hc)
        as [(w1 & cs1 & E & F & O & T & H1) | (w1 & cs1 & E & F & H0)]; rewrite E; clear E; ex.
      + unfold op_post; cbn [fst snd]; lazy beta iota zeta. left. exists None. split; [reflexivity|]. split; [discriminate|].
        split; [auto|]. split; [auto|]. left. split; [discriminate|auto].
      + unfold op_post; cbn [fst snd]; lazy beta iota zeta. right. eexists None, w1. split; [reflexivity|]. auto.
    - unfold op_post; cbn [fst snd]; lazy beta iota zeta. left. exists None. split; [reflexivity|]. split; [discriminate|].
      split; [apply same_except_refl|]. split; [auto|]. left. split; [discriminate|auto].
  Qed.

  (* ---- the user-level operations through the asyncio API ---- *)
  Lemma op_post_relabel q0 ov0 c rc no ni nw lg w o s' w' cs' :
    op_post q0 ov0 c rc no ni nw lg w (o, s', w', cs') -> op_post q0 ov0 c rc no ni nw lg w (relabel o, s', w', cs').
  Proof.
    unfold op_post. intros [(tx' & A & B & C & D & E) | (tx' & w2 & A & B & C & D & E)].
    - left. exists tx'. split; auto. split; auto. split; auto. split; auto.
      destruct E as [[E1 E2]|[E1 E2]]; [left|right]; split; auto.
      + destruct o; cbn; [discriminate|auto].
      + subst o. reflexivity.
    - right. exists tx', w2. subst o. cbn. auto.
  Qed.

  Lemma acall_true_post q0 ov0 c rc no ni nw lg w m s cs :
    op_post q0 ov0 c rc no ni nw lg w (exec m s w cs) ->
    op_post q0 ov0 c rc no ni nw lg w (exec (acall async_api true m) s w cs).
  Proof.
    intros P. destruct (exec_spawn_true m s w cs) as [E | (o & s' & Em & E)].
    - rewrite E. exact P.
    - rewrite E. rewrite (exec_of_ret m s w cs o s' Em) in P. apply op_post_relabel. exact P.
  Qed.

  Lemma op_body_S q0 ov0 c rc tx no ni nw lg w cs o :
    roomy q0 c -> tx <> Some false -> d_open (getc w c) = true -> (ncancel cs <= 1)%nat ->
    op_post q0 ov0 c rc no ni nw lg w (exec (op_body cf async_api o) (vstate q0 ov0 c rc tx no ni nw lg) w cs).
  Proof.
    intros Hroom Htx Ho Hc. destruct o; cbn [op_body].
    - rewrite exec_spawn_false. apply conn_begin_S; auto.
    - apply acall_true_post. apply conn_execute_S; auto.
    - (* select: execute, then the coroutine awaits cursor._async_soft_close() itself *)
      rewrite exec_bind.
      pose proof (acall_true_post q0 ov0 c rc no ni nw lg w (conn_execute cf SSelect) (vstate q0 ov0 c rc tx no ni nw lg) cs
                    (conn_execute_S q0 ov0 c rc tx no ni nw lg w cs SSelect Hroom Htx Ho Hc)) as P.
      destruct (exec (acall async_api true (conn_execute cf SSelect)) (vstate q0 ov0 c rc tx no ni nw lg) w cs)
        as [[[o1 s1] w1] cs1].
      unfold op_post in P. destruct P as [(tx' & -> & B & F & O & D) | (tx' & w2 & -> & -> & F & -> & H0)].
      + destruct o1 as [v|e].
        * destruct D as [[_ H1]|[D _]]; [|discriminate]. ex.
          destruct (exec_await_cases (IoCursorClose c) (vstate q0 ov0 c rc tx' no ni nw lg) w1 cs1 H1 eq_refl)
            as [(cs2 & E & H2) | (eff & cs2 & E & H0)]; rewrite E; clear E.
          -- rewrite (step_simple_open w1 c (IoCursorClose c)) by auto. ex.
             unfold op_post. left. exists tx'. split; [reflexivity|]. split; auto. split; auto. split; auto.
             left. split; [discriminate|auto].
          -- ex. destruct (cancel_world (IoCursorClose c) c w1 eff eq_refl) as [F2 K].
             unfold op_post. left. exists tx'. split; [reflexivity|]. split; auto.
             split; [eapply same_except_trans; eauto|]. split; auto.
        * unfold op_post. left. exists tx'. auto.
      + unfold op_post. right. exists tx', w2. auto.
    - rewrite exec_spawn_false. apply conn_commit_S; auto.
    - rewrite exec_spawn_false. apply conn_rollback_S; auto.
  Qed.

  Definition body_post q0 ov0 c rc no ni nw (w : world) (r : outcome * pst * world * list cdec) : Prop :=
    let '(o, s', w', cs') := r in
    (exists tx' lg', s' = vstate q0 ov0 c rc tx' no ni nw lg' /\ tx' <> Some false /\ same_except c w w' /\
                     d_open (getc w' c) = true /\
                     ((o = Ok VUnit /\ (ncancel cs' <= 1)%nat) \/ (o = Raise ECancelled /\ ncancel cs' = 0%nat)))
    \/ (exists tx' lg' w1, s' = istate q0 ov0 rc tx' no ni nw lg' /\ w' = closed_conn w1 c /\ same_except c w w1 /\
                           o = Raise ECancelled /\ ncancel cs' = 0%nat).

  Lemma body_post_trans q0 ov0 c rc no ni nw w w1 r :
    same_except c w w1 -> body_post q0 ov0 c rc no ni nw w1 r -> body_post q0 ov0 c rc no ni nw w r.
  Proof.
    intros F. destruct r as [[[o s'] w'] cs']. cbn.
    intros [(tx' & lg' & A & B & C & D) | (tx' & lg' & w2 & A & B & C & D)].
    - left. exists tx', lg'. split; auto. split; auto. split; auto. eapply same_except_trans; eauto.
    - right. exists tx', lg', w2. split; auto. split; auto. split; auto. eapply same_except_trans; eauto.
  Qed.

  Lemma run_ops_S q0 ov0 c rc no ni nw ops : forall tx lg w cs,
    roomy q0 c -> tx <> Some false -> d_open (getc w c) = true -> (ncancel cs <= 1)%nat ->
    body_post q0 ov0 c rc no ni nw w (exec (run_ops cf async_api ops) (vstate q0 ov0 c rc tx no ni nw lg) w cs).
  Proof.
    induction ops as [|o rest IH]; intros tx lg w cs Hroom Htx Ho Hc; cbn [run_ops].
    - ex. unfold body_post. left. exists tx, lg. split; [reflexivity|]. split; [auto|]. split; [apply same_except_refl|].
      split; [auto|]. left. split; [reflexivity|auto].
    - rewrite exec_seq, exec_try, exec_bind.
      pose proof (op_body_S q0 ov0 c rc tx no ni nw lg w cs o Hroom Htx Ho Hc) as P.
      destruct (exec (op_body cf async_api o) (vstate q0 ov0 c rc tx no ni nw lg) w cs) as [[[o1 s1] w1] cs1].
      unfold op_post in P. destruct P as [(tx' & -> & B & F & O & D) | (tx' & w2 & -> & -> & F & -> & H0)].
      + destruct o1 as [v|e].
        * destruct D as [[_ H1]|[D _]]; [|discriminate]. unfold log. ex.
          eapply body_post_trans; [exact F|]. apply IH; auto.
        * destruct e; cbn [is_exception];
            try (destruct D as [[_ H1]|[D _]]; [|discriminate]; unfold log; ex;
                 eapply body_post_trans; [exact F|]; apply IH; auto).
          (* CancelledError is not an Exception: it leaves the block *)
          ex. destruct D as [[D _]|[_ H0]]; [exfalso; apply D; reflexivity|].
          unfold body_post. left. exists tx', lg. split; [reflexivity|]. split; [auto|]. split; [auto|]. split; [auto|].
          right. split; [reflexivity|auto].
      + ex. unfold body_post. right. exists tx', lg, w2. auto.
  Qed.

  Lemma Vp_frame q0 ov0 c tx tx' no ni w w' :
    Vp q0 ov0 c tx no ni w -> same_except c w w' -> d_open (getc w' c) = true -> tx' <> Some false ->
    Vp q0 ov0 c tx' no ni w'.
  Proof.
    intros V F O T. destruct V. constructor; auto.
    - eapply qok_frame; eauto.
    - destruct F as [Hl _]. rewrite Hl. auto.
    - intros c' Hne. destruct F as [_ Hg]. rewrite Hg; auto.
  Qed.

  (* Connection.close() at the end of a block, whatever the body left behind *)
  Lemma close_from_body q0 ov0 c rc tx no ni nw w o1 s1 w1 cs0 cs :
    Vp q0 ov0 c tx no ni w -> body_post q0 ov0 c rc no ni nw w (o1, s1, w1, cs0) -> (ncancel cs <= 1)%nat ->
    let '(o, s', w', cs') := exec (conn_close cf) s1 w1 cs in
    Done s' w' /\ n_warn s' = nw /\
    ((o = Ok VUnit /\ (ncancel cs' <= 1)%nat) \/ (o = Raise ECancelled /\ ncancel cs' = 0%nat)).
  Proof.
    intros V P Hc. unfold body_post in P.
    destruct P as [(tx' & lg' & -> & B & F & O & D) | (tx' & lg' & w2 & -> & -> & F & -> & H0)].
    - apply conn_close_V; auto. eapply Vp_frame; eauto.
    - rewrite conn_close_I. split; [|split; [reflexivity|left; auto]].
      eapply done_invalidated; eauto.
  Qed.

  (* garbage collection when nothing is checked out: the weakref callback (if any) returns at once *)
  Lemma gc_idle q0 ov0 cu f cfy rc tx no ni nw om lg w cs :
    cur_fairy (mkpst q0 ov0 cu f cfy rc tx no ni nw om lg) = false ->
    exec (gc_collect cf) (mkpst q0 ov0 cu f cfy rc tx no ni nw om lg) w cs =
    (Ok VUnit, mkpst q0 ov0 cu None false false None no ni nw om lg, w, cs).
  Proof.
    intros Hf. unfold gc_collect. destruct cu as [[oc b]|]; cbn in Hf; subst; ex; destruct f as [f0|]; ex;
      try (unfold finalize_fairy; ex); reflexivity.
  Qed.

  Lemma gc_done s w cs : Done s w ->
    let '(o, s', w', cs') := exec (gc_collect cf) s w cs in
    o = Ok VUnit /\ Done s' w' /\ n_warn s' = n_warn s /\ olog s' = olog s /\ cs' = cs.
  Proof.
    intros D. destruct s as [q0 ov0 cu f cfy rc tx no ni nw om lg]. destruct D as [D1 D2 D3 D4 D5 D6 D7 D8].
    rewrite gc_idle by exact D8. repeat split; auto.
  Qed.

  (* ---- C29, second half: a whole block under at most one cancellation ---- *)
  Theorem block_safe sty ops s w cs :
    sty <> SLeak -> Done s w -> (ncancel cs <= 1)%nat ->
    let '(o, s', w', cs') := exec (block cf async_api sty ops) s w cs in
    Done s' w' /\ n_warn s' = n_warn s /\ (ncancel cs' <= 1)%nat /\ (o = Ok VUnit \/ o = Raise ECancelled).
  Proof.
    intros Hsty D Hc. destruct s as [q0 ov0 cu f cfy rc tx no ni nw om lg].
    assert (om = false) by (destruct D; auto). subst om.
    assert (Hconn := engine_connect_S q0 ov0 cu f cfy rc tx no ni nw lg w cs D Hc).
    destruct sty; [| |congruence]; cbn [block]; rewrite exec_seq, exec_spawn_false;
      destruct (exec (engine_connect cf) (mkpst q0 ov0 cu f cfy rc tx no ni nw false lg) w cs) as [[[o1 s1] w1] cs1];
      destruct Hconn as [(q1 & ov1 & c & no1 & ni1 & -> & -> & V & H1) | (-> & D1 & Hw & _ & H0)];
      try (split; [exact D1|split; [exact Hw|split; [lia|auto]]]).
    - (* async with engine.connect() as conn: the close is shielded *)
      rewrite exec_finally.
      pose proof (run_ops_S q1 ov1 c true no1 ni1 nw ops None lg w1 cs1 (conj (v_room _ _ _ _ _ _ _ V) (v_notin _ _ _ _ _ _ _ V))
                    ltac:(discriminate) (v_open _ _ _ _ _ _ _ V) H1) as P.
      destruct (exec (run_ops cf async_api ops) (vstate q1 ov1 c true None no1 ni1 nw lg) w1 cs1) as [[[o2 s2] w2] cs2].
      rewrite exec_aexit, exec_spawn_false.
      pose proof (close_from_body q1 ov1 c true None no1 ni1 nw w1 o2 s2 w2 cs2 [] V P ltac:(cbn; lia)) as Q.
      destruct (exec (conn_close cf) s2 w2 []) as [[[o3 s3] w3] cs3].
      destruct Q as (Q1 & Q2 & Q3).
      assert (Hcs2 : (ncancel cs2 <= 1)%nat /\ (o2 = Ok VUnit \/ o2 = Raise ECancelled)).
      { unfold body_post in P. destruct P as [(? & ? & _ & _ & _ & _ & [[-> ?]|[-> ?]]) | (? & ? & ? & _ & _ & _ & -> & ?)];
          split; auto; lia. }
      destruct Hcs2 as [Hcs2 Ho2].
      destruct Q3 as [[-> Q3]|[-> Q3]]; destruct cs2 as [|[|eff] cs2']; cbn in Hcs2; cbn [fst snd]; lazy beta iota zeta;
        (split; [exact Q1|split; [exact Q2|split; [cbn; lia|auto]]]).
    - (* conn = await engine.connect(); try: ... finally: await conn.close() *)
      rewrite exec_finally.
      pose proof (run_ops_S q1 ov1 c true no1 ni1 nw ops None lg w1 cs1 (conj (v_room _ _ _ _ _ _ _ V) (v_notin _ _ _ _ _ _ _ V))
                    ltac:(discriminate) (v_open _ _ _ _ _ _ _ V) H1) as P.
      destruct (exec (run_ops cf async_api ops) (vstate q1 ov1 c true None no1 ni1 nw lg) w1 cs1) as [[[o2 s2] w2] cs2].
      rewrite exec_spawn_false.
      assert (Hcs2 : (ncancel cs2 <= 1)%nat /\ (o2 = Ok VUnit \/ o2 = Raise ECancelled)).
      { unfold body_post in P. destruct P as [(? & ? & _ & _ & _ & _ & [[-> ?]|[-> ?]]) | (? & ? & ? & _ & _ & _ & -> & ?)];
          split; auto; lia. }
      destruct Hcs2 as [Hcs2 Ho2].
      pose proof (close_from_body q1 ov1 c true None no1 ni1 nw w1 o2 s2 w2 cs2 cs2 V P Hcs2) as Q.
      destruct (exec (conn_close cf) s2 w2 cs2) as [[[o3 s3] w3] cs3].
      destruct Q as (Q1 & Q2 & [[-> Q3]|[-> Q3]]); (split; [exact Q1|split; [exact Q2|split; [lia|auto]]]).
  Qed.

  (* a Connection that was never closed is reclaimed by the collector: the weakref callback cannot
     await, so the DBAPI connection is detached and terminated (force-closed) and the record goes
     back empty; the "non-checked-in connection" warning is emitted *)
  Lemma gc_valid q0 ov0 c rc tx no ni nw lg w cs :
    roomy q0 c ->
    exec (gc_collect cf) (vstate q0 ov0 c rc tx no ni nw lg) w cs =
    (Ok VUnit,
     mkpst (q0 ++ [mkrec None false]) ov0 (Some (mkrec None false)) None false false None no (S ni) (S nw) false lg,
     closed_conn w c, cs).
  Proof.
    intros Hroom. unfold gc_collect. ex. unfold finalize_fairy. ex. unfold fairy_reset. ex.
    unfold fairy_detach. ex. unfold pool_return. ex. rewrite (not_full _ (proj1 Hroom)). ex.
    unfold close_connection. ex.
    assert (Hn : existsb (Nat.eqb c) (qconns (q0 ++ [mkrec None false])) = false).
    { apply notin_existsb. rewrite qconns_app. cbn. rewrite app_nil_r. exact (proj2 Hroom). }
    unfold qconns in Hn. rewrite Hn. ex.
    unfold terminate. rewrite exec_await_nosusp by reflexivity. ex.
    unfold warn. ex. reflexivity.
  Qed.

  Theorem leak_safe ops s w cs :
    Done s w -> (ncancel cs <= 1)%nat ->
    let '(o, s1, w1, cs1) := exec (block cf async_api SLeak ops) s w cs in
    let '(_, s', w', _) := exec (gc_collect cf) s1 w1 [] in
    Done s' w' /\ (n_warn s' <= S (n_warn s))%nat /\ (ncancel cs1 <= 1)%nat.
  Proof.
    intros D Hc. destruct s as [q0 ov0 cu f cfy rc tx no ni nw om lg].
    assert (om = false) by (destruct D; auto). subst om.
    assert (Hconn := engine_connect_S q0 ov0 cu f cfy rc tx no ni nw lg w cs D Hc).
    cbn [block]. rewrite exec_seq, exec_spawn_false.
    destruct (exec (engine_connect cf) (mkpst q0 ov0 cu f cfy rc tx no ni nw false lg) w cs) as [[[o1 s1] w1] cs1].
    destruct Hconn as [(q1 & ov1 & c & no1 & ni1 & -> & -> & V & H1) | (-> & D1 & Hw & _ & H0)].
    - pose proof (run_ops_S q1 ov1 c true no1 ni1 nw ops None lg w1 cs1 (conj (v_room _ _ _ _ _ _ _ V) (v_notin _ _ _ _ _ _ _ V))
                    ltac:(discriminate) (v_open _ _ _ _ _ _ _ V) H1) as P.
      destruct (exec (run_ops cf async_api ops) (vstate q1 ov1 c true None no1 ni1 nw lg) w1 cs1) as [[[o2 s2] w2] cs2].
      unfold body_post in P.
      destruct P as [(tx' & lg' & -> & B & F & O & Dd) | (tx' & lg' & w3 & -> & -> & F & -> & H0)].
      + rewrite gc_valid by (exact (conj (v_room _ _ _ _ _ _ _ V) (v_notin _ _ _ _ _ _ _ V))). cbn [n_warn].
        split; [|split; [lia|destruct Dd as [[_ ?]|[_ ?]]; lia]].
        assert (Dn : Done (mkpst (q1 ++ [mkrec None false]) ov1 (Some (mkrec None false)) None false false None no1 (S ni1) (S nw) false lg')
                          (closed_conn w2 c)).
        { eapply done_invalidated; [exact V|exact F]. }
        exact Dn.
      + rewrite gc_idle by reflexivity. cbn [n_warn]. split; [|split; lia].
        eapply done_invalidated; eauto.
    - pose proof (gc_done s1 w1 [] D1) as G. destruct (exec (gc_collect cf) s1 w1 []) as [[[o2 s2] w2] cs2].
      destruct G as (_ & G1 & G2 & _). cbn [n_warn]. split; [exact G1|split; lia].
  Qed.

  (* ---- any number of tasks on one engine ---- *)
  Fixpoint run_tasks (bs : list (style * list op)) (s : pst) (w : world) (cs : list cdec) : pst * world * list cdec :=
    match bs with
    | [] => (s, w, cs)
    | (sty, ops) :: rest =>
        let '(_, s1, w1, cs1) := exec (block cf async_api sty ops) s w cs in
        let '(_, s2, w2, _) := exec (gc_collect cf) s1 w1 [] in
        run_tasks rest s2 w2 cs1
    end.

  Lemma init_done : Done (init_pst cf) init_world.
  Proof.
    constructor; cbn; try reflexivity; try lia; try (constructor; fail).
  Qed.

  Theorem tasks_safe bs : forall s w cs, Done s w -> (ncancel cs <= 1)%nat ->
    let '(s', w', cs') := run_tasks bs s w cs in Done s' w' /\ (ncancel cs' <= 1)%nat.
  Proof.
    induction bs as [|[sty ops] rest IH]; intros s w cs D Hc; cbn [run_tasks].
    - auto.
    - destruct (style_eq_leak sty) as [->|Hs].
      + pose proof (leak_safe ops s w cs D Hc) as L.
        destruct (exec (block cf async_api SLeak ops) s w cs) as [[[o1 s1] w1] cs1].
        destruct (exec (gc_collect cf) s1 w1 []) as [[[o2 s2] w2] cs2].
        destruct L as (L1 & _ & L3). apply IH; auto.
      + pose proof (block_safe sty ops s w cs Hs D Hc) as B.
        destruct (exec (block cf async_api sty ops) s w cs) as [[[o1 s1] w1] cs1].
        destruct B as (B1 & _ & B3 & _).
        pose proof (gc_done s1 w1 [] B1) as G.
        destruct (exec (gc_collect cf) s1 w1 []) as [[[o2 s2] w2] cs2].
        destruct G as (_ & G1 & _). apply IH; auto.
  Qed.

  (* what [Done] says, in the words of the property *)
  Lemma done_spelled s w : Done s w ->
    psize cf - Z.of_nat (length (q s)) + ov s = 0 /\
    n_out s = n_in s /\
    (forall r c, In r (q s) -> r_conn r = Some c -> d_open (getc w c) = true /\ d_txn (getc w c) = false) /\
    NoDup (qconns (q s)) /\
    (forall c, d_txn (getc w c) = false) /\
    cur_fairy s = false /\ oom s = false.
  Proof.
    intros [D1 D2 D3 D4 D5 D6 D7 D8]. split; [lia|]. split; [auto|]. split; [|auto].
    intros r c Hr Hc. unfold qok in D4. rewrite Forall_forall in D4. destruct (D4 r Hr) as [_ B]. rewrite Hc in B.
    split; [tauto|auto].
  Qed.

  Lemma tasks_safe_init bs cs : (ncancel cs <= 1)%nat ->
    let '(s', w', _) := run_tasks bs (init_pst cf) init_world cs in Done s' w'.
  Proof.
    intros Hc. pose proof (tasks_safe bs (init_pst cf) init_world cs init_done Hc) as T.
    destruct (run_tasks bs (init_pst cf) init_world cs) as [[s' w'] cs']. exact (proj1 T).
  Qed.
End Safe.
