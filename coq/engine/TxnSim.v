(* C23: the simulation between the Connection model (Txn.v, running on the reference database)
   and the reference nested-transaction model (TxnSpec.v) on guarded histories. *)
From Coq Require Import List ZArith NArith Bool Arith Lia.
Import ListNotations.
From SAV.engine Require Import RefDb Txn TxnBase TxnWF TxnSpec.

(* the savepoint objects reachable from [_nested_transaction] through [_previous_nested] are the
   savepoint frames of the reference model, and each has its savepoint (with the right snapshot) in
   the database, in the same order; the database may hold extra, stale savepoints in between
   (ROLLBACK TO keeps the savepoint it rolls back to) *)
Inductive chain (s : st) : option nat -> list (nat * tables) -> list (N * tables) -> Prop :=
| ch_nil : forall sv, chain s None [] sv
| ch_cons : forall k snap fr sv1 sv2,
    k < length (txns s) -> is_root k s = false ->
    chain s (prev k s) fr sv2 ->
    chain s (Some k) ((k, snap) :: fr) (sv1 ++ (sp k s, snap) :: sv2).

(* [_trans_context_manager] and the [_outer_trans_ctx] links form the stack of entered with-blocks *)
Inductive ctxrel (s : st) : option nat -> list nat -> Prop :=
| cx_nil : ctxrel s None []
| cx_cons : forall k l, k < length (txns s) -> ~ In k l -> ctxrel s (outer k s) l ->
    ctxrel s (Some k) (k :: l).

Definition frames (s : st) (p : spec) : Prop :=
  match c_root s with
  | None => p_stack p = [] /\ c_nested s = None
  | Some r => exists nf snap, p_stack p = nf ++ [(r, snap)] /\ is_root r s = true /\
                              chain s (c_nested s) nf (saves (s_db s))
  end.

Record R (s : st) (p : spec) : Prop := mkR {
  R_len : length (txns s) = p_next p;
  R_kinds : forall k, k < length (txns s) -> is_root k s = kind_root k p;
  R_active : forall k, active k s = live k p;
  R_closed : c_closed s = p_closed p;
  R_closed_empty : p_closed p = true -> p_stack p = [];
  R_committed : committed (s_db s) = p_committed p;
  R_work : work (s_db s) = p_cur p;
  R_frames : frames s p;
  R_nodup : NoDup (map fst (p_stack p));
  R_names : NoDup (map fst (saves (s_db s)));
  R_seq : forall e, In e (saves (s_db s)) -> (fst e <= c_seq s)%N;
  R_ctx : ctxrel s (c_ctx s) (p_ctx p);
  R_subject : forall k, k < length (txns s) -> subject k s = existsb (Nat.eqb k) (p_ctx p);
  R_out : forallb snd (s_out s) = true
}.

(* ---- states that differ only in is_active flags, the installed transactions, the database and
   the per-call log ---- *)
Record same_but (s s' : st) : Prop := mkSB {
  sb_len : length (txns s') = length (txns s);
  sb_root : forall k, is_root k s' = is_root k s;
  sb_sp : forall k, sp k s' = sp k s;
  sb_prev : forall k, prev k s' = prev k s;
  sb_subject : forall k, subject k s' = subject k s;
  sb_outer : forall k, outer k s' = outer k s;
  sb_ctx : c_ctx s' = c_ctx s;
  sb_seq : c_seq s' = c_seq s;
  sb_closed : c_closed s' = c_closed s
}.

Lemma sb_refl : forall s, same_but s s. Proof. intros; constructor; auto. Qed.
Lemma sb_trans : forall a b c, same_but a b -> same_but b c -> same_but a c.
Proof. intros a b c [] []. constructor; intros; congruence. Qed.

Ltac sb_triv := intros; constructor; intros; autorewrite with st; reflexivity.
Lemma sb_set_root : forall o s, same_but s (set_root o s). Proof. sb_triv. Qed.
Lemma sb_set_nested : forall o s, same_but s (set_nested o s). Proof. sb_triv. Qed.
Lemma sb_set_db : forall o s, same_but s (set_db o s). Proof. sb_triv. Qed.
Lemma sb_add_out : forall o s, same_but s (add_out o s). Proof. sb_triv. Qed.
Lemma sb_add_warn : forall s, same_but s (add_warn s). Proof. sb_triv. Qed.
Lemma sb_clear_log : forall s, same_but s (clear_log s). Proof. sb_triv. Qed.
Lemma sb_set_active : forall k b s, same_but s (set_active k b s). Proof. sb_triv. Qed.

Lemma chain_ext : forall s s' o fr sv, chain s o fr sv ->
  length (txns s) <= length (txns s') ->
  (forall k, k < length (txns s) -> is_root k s' = is_root k s /\ prev k s' = prev k s /\ sp k s' = sp k s) ->
  chain s' o fr sv.
Proof.
  induction 1; intros Hl He; [constructor|].
  destruct (He k H) as (A & B & C). rewrite <- C. constructor; try lia; try congruence.
  rewrite B. auto.
Qed.
Lemma chain_sb : forall s s' o fr sv, chain s o fr sv -> same_but s s' -> chain s' o fr sv.
Proof. intros. destruct H0. eapply chain_ext; eauto; try lia. Qed.

Lemma chain_stale : forall s o fr sv e, chain s o fr sv -> chain s o fr (e :: sv).
Proof.
  intros. inversion H; subst; [constructor|].
  change (e :: sv1 ++ (sp k s, snap) :: sv2) with ((e :: sv1) ++ (sp k s, snap) :: sv2).
  constructor; auto.
Qed.

Lemma ctxrel_ext : forall s s' o l, ctxrel s o l ->
  length (txns s) <= length (txns s') ->
  (forall k, In k l -> outer k s' = outer k s) ->
  ctxrel s' o l.
Proof.
  induction 1; intros Hl He; [constructor|].
  constructor; [lia|auto|]. rewrite He by (left; auto). apply IHctxrel; auto.
  intros. apply He. right; auto.
Qed.
Lemma ctxrel_sb : forall s s' l, ctxrel s (c_ctx s) l -> same_but s s' -> ctxrel s' (c_ctx s') l.
Proof. intros. destruct H0. rewrite sb_ctx0. eapply ctxrel_ext; eauto. lia. Qed.

Lemma ctxrel_lt : forall s o l, ctxrel s o l -> forall k, In k l -> k < length (txns s).
Proof. induction 1; cbn; intros; [contradiction|]. destruct H2; subst; auto. Qed.

(* ---- facts about the reference-model helpers ---- *)
Lemma live_app_root : forall k nf r snap p, p_stack p = nf ++ [(r, snap)] ->
  live k p = existsb (fun f => Nat.eqb (fst f) k) nf || Nat.eqb r k.
Proof. intros. unfold live. rewrite H, existsb_app. cbn. rewrite orb_false_r. reflexivity. Qed.

Lemma live_in : forall k p, live k p = true <-> In k (map fst (p_stack p)).
Proof.
  intros. unfold live. rewrite existsb_exists. split.
  - intros [x [A B]]. apply Nat.eqb_eq in B. subst. apply in_map. auto.
  - intros H. apply in_map_iff in H. destruct H as [x [A B]]. exists x. subst. split; auto. apply Nat.eqb_refl.
Qed.

Lemma below_last : forall k nf r snap, ~ In k (map fst nf) -> below k (nf ++ [(r, snap)]) = [].
Proof.
  induction nf as [|[j sn] nf]; intros; cbn.
  - destruct (Nat.eqb r k); reflexivity.
  - cbn in H. destruct (Nat.eqb_spec j k); [exfalso; auto|]. apply IHnf. auto.
Qed.

Lemma drop_to_app : forall n sv1 snap sv2, ~ In n (map fst sv1) ->
  drop_to n (sv1 ++ (n, snap) :: sv2) = Some ((n, snap) :: sv2).
Proof.
  induction sv1 as [|[m sn] sv1]; intros; cbn.
  - rewrite N.eqb_refl. reflexivity.
  - cbn in H. destruct (N.eqb_spec m n); [exfalso; auto|]. apply IHsv1. auto.
Qed.

Lemma NoDup_app_head : forall (A : Type) (l1 : list A) x l2, NoDup (l1 ++ x :: l2) -> ~ In x l1 /\ NoDup (x :: l2).
Proof.
  induction l1; cbn; intros.
  - split; auto.
  - inversion H; subst. destruct (IHl1 _ _ H3). split; auto.
    intros [E|E]; subst; auto. apply H2. apply in_or_app. right. left. auto.
Qed.

(* ---- consequences of R ---- *)
Lemma eqb_lt_false : forall k n, k < n -> Nat.eqb k n = false.
Proof. intros. apply Nat.eqb_neq. lia. Qed.

Lemma R_live_lt : forall s p k, R s p -> live k p = true -> k < p_next p.
Proof. intros. rewrite <- (R_len _ _ H). apply active_lt. rewrite (R_active _ _ H). auto. Qed.

Lemma R_root_some : forall s p r, R s p -> c_root s = Some r ->
  exists nf snap, p_stack p = nf ++ [(r, snap)] /\ is_root r s = true /\
    chain s (c_nested s) nf (saves (s_db s)) /\ active r s = true /\ c_closed s = false /\
    ~ In r (map fst nf).
Proof.
  intros s p r HR Hr. pose proof (R_frames _ _ HR) as F. unfold frames in F. rewrite Hr in F.
  destruct F as (nf & snap & A & B & C). exists nf, snap. repeat split; auto.
  - rewrite (R_active _ _ HR). rewrite (live_app_root _ _ _ _ _ A), Nat.eqb_refl. apply orb_true_r.
  - rewrite (R_closed _ _ HR). destruct (p_closed p) eqn:E; auto.
    rewrite (R_closed_empty _ _ HR E) in A. destruct nf; discriminate.
  - pose proof (R_nodup _ _ HR) as N. rewrite A, map_app in N. cbn in N.
    apply NoDup_app_head in N. tauto.
Qed.

Lemma R_root_none : forall s p, R s p -> c_root s = None -> p_stack p = [] /\ c_nested s = None.
Proof. intros s p HR Hr. pose proof (R_frames _ _ HR) as F. unfold frames in F. rewrite Hr in F. auto. Qed.

Lemma chain_head_live : forall s p k nf r snap sv, p_stack p = nf ++ [(r, snap)] ->
  chain s (Some k) nf sv -> live k p = true.
Proof.
  intros. inversion H0; subst. rewrite (live_app_root _ _ _ _ _ H). cbn. rewrite Nat.eqb_refl. reflexivity.
Qed.

Lemma R_nested_active : forall s p k, R s p -> c_nested s = Some k -> active k s = true.
Proof.
  intros s p k HR Hk. destruct (c_root s) as [r|] eqn:Hr.
  - destruct (R_root_some _ _ _ HR Hr) as (nf & snap & A & B & C & _). rewrite Hk in C.
    rewrite (R_active _ _ HR). eapply chain_head_live; eauto.
  - destruct (R_root_none _ _ HR Hr). congruence.
Qed.

Lemma R_ctx_top : forall s p, R s p ->
  match c_ctx s, p_ctx p with
  | None, [] => True
  | Some k, j :: _ => k = j /\ k < length (txns s)
  | _, _ => False
  end.
Proof. intros s p HR. pose proof (R_ctx _ _ HR) as C. inversion C; auto. Qed.

Lemma R_ctx_check : forall s p, R s p ->
  ctx_check s = if ctx_bad p then (Raise InvalidRequestError, s) else (Ok, s).
Proof.
  intros s p HR. pose proof (R_ctx_top _ _ HR) as T. unfold ctx_check, ctx_bad.
  destruct (c_ctx s) as [k|], (p_ctx p) as [|j l]; try contradiction; auto.
  destruct T as [-> _]. rewrite (R_active _ _ HR). destruct (live j p); reflexivity.
Qed.

Lemma R_pending_false : forall s p, R s p ->
  inst_inactive (c_root s) s || inst_inactive (c_nested s) s = false.
Proof.
  intros s p HR. unfold inst_inactive.
  destruct (c_root s) as [r|] eqn:Hr.
  - destruct (R_root_some _ _ _ HR Hr) as (nf & snap & _ & _ & _ & A & _). rewrite A. cbn.
    destruct (c_nested s) as [k|] eqn:Hk; auto. rewrite (R_nested_active _ _ _ HR Hk). reflexivity.
  - destruct (R_root_none _ _ HR Hr) as [_ ->]. reflexivity.
Qed.

Lemma R_guard_ok : forall s p r, R s p -> c_root s = Some r -> ctx_bad p = false -> exec_guard s = (Ok, s).
Proof.
  intros s p r HR Hr Hb. unfold exec_guard.
  destruct (R_root_some _ _ _ HR Hr) as (_ & _ & _ & _ & _ & _ & -> & _).
  rewrite (R_pending_false _ _ HR). unfold bind. rewrite (R_ctx_check _ _ HR), Hb.
  unfold autobegin_if_none. rewrite Hr. reflexivity.
Qed.

(* re-establishing R after a step that creates no object and leaves the with-block stack alone *)
Lemma R_after : forall s s' p p', R s p -> same_but s s' ->
  p_kinds p' = p_kinds p -> p_ctx p' = p_ctx p -> p_closed p' = p_closed p ->
  (forall k, active k s' = live k p') ->
  (p_closed p' = true -> p_stack p' = []) ->
  committed (s_db s') = p_committed p' -> work (s_db s') = p_cur p' ->
  frames s' p' ->
  NoDup (map fst (p_stack p')) -> NoDup (map fst (saves (s_db s'))) ->
  (forall e, In e (saves (s_db s')) -> (fst e <= c_seq s)%N) ->
  forallb snd (s_out s') = true ->
  R s' p'.
Proof.
  intros s s' p p' [] SB Hk Hc Hcl Ha Hce Hco Hw Hf Hn Hnn Hs Ho.
  pose proof SB as [].
  constructor; auto.
  - unfold p_next in *. congruence.
  - intros k Hlt. rewrite sb_root0. unfold kind_root. rewrite Hk. apply R_kinds0. lia.
  - congruence.
  - intros e He. rewrite sb_seq0. auto.
  - rewrite Hc. eapply ctxrel_sb; eauto.
  - intros k Hlt. rewrite sb_subject0, Hc. apply R_subject0. lia.
Qed.

Lemma frames_sb : forall s s' p, frames s p -> same_but s s' -> c_root s' = c_root s ->
  c_nested s' = c_nested s -> saves (s_db s') = saves (s_db s) -> frames s' p.
Proof.
  unfold frames. intros s s' p F SB -> -> ->. destruct (c_root s); auto.
  destruct F as (nf & snap & A & B & C). exists nf, snap. repeat split; auto.
  - rewrite (sb_root _ _ SB). auto.
  - eapply chain_sb; eauto.
Qed.

(* R does not look at the per-call log *)
Lemma R_clear_log : forall s p, R s p -> R (clear_log s) p.
Proof.
  intros s p HR. eapply R_after; eauto using sb_clear_log; try (destruct HR; assumption).
  eapply frames_sb; eauto using sb_clear_log. apply HR.
Qed.

(* ---- opening frames ---- *)
Lemma live_open_frame : forall b p k, live k (open_frame b p) = Nat.eqb (p_next p) k || live k p.
Proof. reflexivity. Qed.

Lemma ctx_bad_open_frame : forall s p b, R s p -> ctx_bad (open_frame b p) = ctx_bad p.
Proof.
  intros s p b HR. unfold ctx_bad. cbn [p_ctx open_frame]. destruct (p_ctx p) as [|k l] eqn:E; auto.
  rewrite live_open_frame. pose proof (R_ctx_top _ _ HR) as T. rewrite E in T.
  destruct (c_ctx s); [|contradiction]. destruct T as [-> T]. rewrite (R_len _ _ HR) in T.
  rewrite Nat.eqb_sym, (eqb_lt_false _ _ T). reflexivity.
Qed.

Lemma kind_root_app : forall k p b, k < p_next p -> nth k (p_kinds p ++ [b]) false = kind_root k p.
Proof. intros. unfold kind_root. apply app_nth1. auto. Qed.

Tactic Notation "norm" := autorewrite with st;
  cbn [open_frame p_committed p_cur p_stack p_kinds p_ctx p_closed committed work saves fst snd].
Tactic Notation "norm" "in" hyp(H) := autorewrite with st in H;
  cbn [open_frame p_committed p_cur p_stack p_kinds p_ctx p_closed committed work saves fst snd] in H.

Lemma R_new_root : forall s p, R s p -> c_root s = None -> blocked p = false ->
  exists s', new_root s = (Ok, s') /\ R s' (open_frame true p) /\ c_root s' = Some (length (txns s)).
Proof.
  intros s p HR Hr Hb. apply orb_false_elim in Hb. destruct Hb as [Hc Hb].
  destruct (R_root_none _ _ HR Hr) as [Hst Hn].
  unfold new_root, bind. rewrite (R_ctx_check _ _ HR), Hb, (R_closed _ _ HR), Hc.
  unfold emit. cbn [exec_cmd]. eexists. split; [reflexivity|]. split; [|norm; reflexivity].
  pose proof HR as []. constructor.
  - norm. unfold p_next in *. cbn [p_kinds open_frame]. rewrite app_length. cbn. lia.
  - intros k Hk. norm. unfold kind_root. cbn [p_kinds open_frame]. destruct (Nat.eqb_spec k (length (txns s))).
    + subst. rewrite R_len0. unfold p_next. rewrite app_nth2, Nat.sub_diag by lia. reflexivity.
    + autorewrite with st in Hk. rewrite app_nth1 by (unfold p_next in *; lia). apply R_kinds0. lia.
  - intros k. norm. rewrite live_open_frame, R_len0, (Nat.eqb_sym k). destruct (Nat.eqb (p_next p) k); cbn; auto.
  - norm. auto.
  - norm. rewrite Hc. discriminate.
  - norm. auto.
  - norm. auto.
  - unfold frames. norm. exists [], (p_cur p). rewrite Hst. repeat split.
    + rewrite R_len0. reflexivity.
    + norm. rewrite Nat.eqb_refl. reflexivity.
    + rewrite Hn. constructor.
  - norm. rewrite Hst. cbn. constructor; [intros []|constructor].
  - norm. auto.
  - intros e. norm. auto.
  - norm. eapply ctxrel_ext; [exact R_ctx0| |].
    + norm. lia.
    + intros k Hk. pose proof (ctxrel_lt _ _ _ R_ctx0 k Hk). norm.
      rewrite (eqb_lt_false _ _ H). reflexivity.
  - intros k Hk. norm. autorewrite with st in Hk. destruct (Nat.eqb_spec k (length (txns s))).
    + subst. cbn. symmetry. apply not_true_is_false. intro E. apply existsb_exists in E.
      destruct E as [x [A B]]. apply Nat.eqb_eq in B. subst.
      pose proof (ctxrel_lt _ _ _ R_ctx0 _ A). lia.
    + apply R_subject0. lia.
  - norm. rewrite forallb_app, R_out0. reflexivity.
Qed.

Lemma sb_chain_seq : forall s n o fr sv, chain s o fr sv -> chain (set_seq n s) o fr sv.
Proof. intros. eapply chain_ext; eauto; intros; norm; auto. Qed.

Lemma R_set_seq : forall s p n, R s p -> (c_seq s <= n)%N -> R (set_seq n s) p.
Proof.
  intros s p n HR Hn. pose proof HR as []. constructor.
  - norm. auto.
  - intros k Hk. norm. norm in Hk. auto.
  - intros k. norm. auto.
  - norm. auto.
  - auto.
  - norm. auto.
  - norm. auto.
  - unfold frames in *. norm. destruct (c_root s); auto.
    destruct R_frames0 as (nf & snap & A & B & C). exists nf, snap. repeat split; auto using sb_chain_seq.
  - auto.
  - norm. auto.
  - intros e H. norm. norm in H. specialize (R_seq0 _ H). lia.
  - norm. eapply ctxrel_ext; eauto; intros; norm; auto.
  - intros k Hk. norm. norm in Hk. auto.
  - norm. auto.
Qed.

Lemma ch_cons0 : forall s k n snap fr sv2,
  k < length (txns s) -> is_root k s = false -> sp k s = n -> chain s (prev k s) fr sv2 ->
  chain s (Some k) ((k, snap) :: fr) ((n, snap) :: sv2).
Proof. intros. subst n. apply (ch_cons s k snap fr [] sv2); auto. Qed.

Lemma R_new_nested : forall s p r, R s p -> c_root s = Some r -> ctx_bad p = false ->
  exists s', new_nested s = (Ok, s') /\ R s' (open_frame false p).
Proof.
  intros s p r HR Hr Hb.
  assert (HR1 : R (set_seq (N.succ (c_seq s)) s) p) by (apply R_set_seq; [auto|lia]).
  unfold new_nested. unfold bind at 1. rewrite (R_ctx_check _ _ HR), Hb.
  unfold bind at 1. unfold sql. unfold bind at 1.
  rewrite (R_guard_ok _ _ r HR1) by (norm; auto).
  unfold emit. cbn [exec_cmd]. eexists. split; [reflexivity|].
  destruct (R_root_some _ _ _ HR Hr) as (nf & snap & Hst & Hroot & Hch & Hact & Hcl & Hnin).
  pose proof HR as [].
  assert (Hrl : r < length (txns s)) by (apply active_lt; auto).
  constructor.
  - norm. unfold p_next in *. cbn [p_kinds open_frame]. rewrite app_length. cbn. lia.
  - intros k Hk. norm. autorewrite with st in Hk. unfold kind_root. cbn [p_kinds open_frame].
    destruct (Nat.eqb_spec k (length (txns s))).
    + subst. rewrite R_len0. unfold p_next. rewrite app_nth2, Nat.sub_diag by lia. reflexivity.
    + rewrite app_nth1 by (unfold p_next in *; lia). apply R_kinds0. lia.
  - intros k. norm. rewrite live_open_frame, R_len0, (Nat.eqb_sym k). destruct (Nat.eqb (p_next p) k); cbn; auto.
  - norm. auto.
  - norm. rewrite <- R_closed0, Hcl. discriminate.
  - norm. auto.
  - norm. auto.
  - unfold frames. norm. rewrite Hr. exists ((p_next p, p_cur p) :: nf), snap. repeat split.
    + rewrite Hst. reflexivity.
    + norm. rewrite (eqb_lt_false _ _ Hrl). auto.
    + rewrite <- R_len0, <- R_work0.
      apply ch_cons0.
      * norm. lia.
      * norm. rewrite Nat.eqb_refl. reflexivity.
      * norm. rewrite Nat.eqb_refl. reflexivity.
      * norm. rewrite Nat.eqb_refl. cbn [t_prev].
        eapply chain_ext; [exact Hch| |].
        -- norm. lia.
        -- intros k Hk. norm. rewrite (eqb_lt_false _ _ Hk). auto.
  - norm. cbn [map fst]. constructor; auto.
    intro H. apply live_in in H. apply (R_live_lt _ _ _ HR) in H. lia.
  - norm. cbn. constructor; auto. intro H. apply in_map_iff in H. destruct H as [e [A B]].
    apply R_seq0 in B. rewrite A in B. lia.
  - intros e H. norm. norm in H. destruct H as [<-|H]; cbn; [lia|]. apply R_seq0 in H. lia.
  - norm. eapply ctxrel_ext; [exact R_ctx0| |].
    + norm. lia.
    + intros k Hk. pose proof (ctxrel_lt _ _ _ R_ctx0 k Hk). norm.
      rewrite (eqb_lt_false _ _ H). reflexivity.
  - intros k Hk. norm. norm in Hk. destruct (Nat.eqb_spec k (length (txns s))).
    + subst. cbn. symmetry. apply not_true_is_false. intro E. apply existsb_exists in E.
      destruct E as [x [A B]]. apply Nat.eqb_eq in B. subst.
      pose proof (ctxrel_lt _ _ _ R_ctx0 _ A). lia.
    + apply R_subject0. lia.
  - norm. rewrite forallb_app, R_out0. reflexivity.
Qed.
