(* C23: the simulation between the Connection model (Txn.v, running on the reference database)
   and the reference nested-transaction model (TxnSpec.v) on guarded histories. *)
From Coq Require Import List ZArith NArith Bool Arith Lia.
Import ListNotations.
From SAV.engine Require Import RefDb Txn TxnBase TxnWF TxnSpec.

(* the savepoint objects reachable from [_nested_transaction] through [_previous_nested] are the
   savepoint frames of the reference model, and each has its savepoint (with the right snapshot) in
   the database, in the same order; the database may hold extra, stale savepoints in between
   (ROLLBACK TO keeps the savepoint it rolls back to) *)
Inductive chain (s : st) : option nat -> list (nat * tables) -> list (N * tables) -> Prop :=
| ch_nil : forall sv, chain s None [] sv
| ch_cons : forall k snap fr sv1 sv2,
    k < length (txns s) -> is_root k s = false ->
    chain s (prev k s) fr sv2 ->
    chain s (Some k) ((k, snap) :: fr) (sv1 ++ (sp k s, snap) :: sv2).

(* [_trans_context_manager] and the [_outer_trans_ctx] links form the stack of entered with-blocks *)
Inductive ctxrel (s : st) : option nat -> list nat -> Prop :=
| cx_nil : ctxrel s None []
| cx_cons : forall k l, k < length (txns s) -> ~ In k l -> ctxrel s (outer k s) l ->
    ctxrel s (Some k) (k :: l).

Definition frames (s : st) (p : spec) : Prop :=
  match c_root s with
  | None => p_stack p = [] /\ c_nested s = None
  | Some r => exists nf snap, p_stack p = nf ++ [(r, snap)] /\ is_root r s = true /\
                              chain s (c_nested s) nf (saves (s_db s))
  end.

Record R (s : st) (p : spec) : Prop := mkR {
  R_len : length (txns s) = p_next p;
  R_kinds : forall k, k < length (txns s) -> is_root k s = kind_root k p;
  R_active : forall k, active k s = live k p;
  R_closed : c_closed s = p_closed p;
  R_closed_empty : p_closed p = true -> p_stack p = [];
  R_committed : committed (s_db s) = p_committed p;
  R_work : work (s_db s) = p_cur p;
  R_frames : frames s p;
  R_nodup : NoDup (map fst (p_stack p));
  R_names : NoDup (map fst (saves (s_db s)));
  R_seq : forall e, In e (saves (s_db s)) -> (fst e <= c_seq s)%N;
  R_ctx : ctxrel s (c_ctx s) (p_ctx p);
  R_subject : forall k, k < length (txns s) -> subject k s = existsb (Nat.eqb k) (p_ctx p);
  R_out : forallb snd (s_out s) = true;
  R_nb : c_in_begin s = false;
  R_bfail : c_beginfail s = p_beginfail p;
  R_rbfail : c_rbfail s = p_rbfail p
}.

(* ---- states that differ only in is_active flags, the installed transactions, the database and
   the per-call log ---- *)
Record same_but (s s' : st) : Prop := mkSB {
  sb_len : length (txns s') = length (txns s);
  sb_root : forall k, is_root k s' = is_root k s;
  sb_sp : forall k, sp k s' = sp k s;
  sb_prev : forall k, prev k s' = prev k s;
  sb_subject : forall k, subject k s' = subject k s;
  sb_outer : forall k, outer k s' = outer k s;
  sb_ctx : c_ctx s' = c_ctx s;
  sb_seq : c_seq s' = c_seq s;
  sb_closed : c_closed s' = c_closed s;
  sb_nb : c_in_begin s' = c_in_begin s;
  sb_bfail : c_beginfail s' = c_beginfail s;
  sb_rbfail : c_rbfail s' = c_rbfail s
}.

Lemma sb_refl : forall s, same_but s s. Proof. intros; constructor; auto. Qed.
Lemma sb_trans : forall a b c, same_but a b -> same_but b c -> same_but a c.
Proof. intros a b c [] []. constructor; intros; congruence. Qed.

Ltac sb_triv := intros; constructor; intros; autorewrite with st; reflexivity.
Lemma sb_set_root : forall o s, same_but s (set_root o s). Proof. sb_triv. Qed.
Lemma sb_set_nested : forall o s, same_but s (set_nested o s). Proof. sb_triv. Qed.
Lemma sb_set_db : forall o s, same_but s (set_db o s). Proof. sb_triv. Qed.
Lemma sb_add_out : forall o s, same_but s (add_out o s). Proof. sb_triv. Qed.
Lemma sb_add_warn : forall s, same_but s (add_warn s). Proof. sb_triv. Qed.
Lemma sb_clear_log : forall s, same_but s (clear_log s). Proof. sb_triv. Qed.
Lemma sb_set_active : forall k b s, same_but s (set_active k b s). Proof. sb_triv. Qed.

Lemma chain_ext : forall s s' o fr sv, chain s o fr sv ->
  length (txns s) <= length (txns s') ->
  (forall k, k < length (txns s) -> is_root k s' = is_root k s /\ prev k s' = prev k s /\ sp k s' = sp k s) ->
  chain s' o fr sv.
Proof.
  induction 1; intros Hl He; [constructor|].
  destruct (He k H) as (A & B & C). rewrite <- C. constructor; try lia; try congruence.
  rewrite B. auto.
Qed.
Lemma chain_sb : forall s s' o fr sv, chain s o fr sv -> same_but s s' -> chain s' o fr sv.
Proof. intros. destruct H0. eapply chain_ext; eauto; try lia. Qed.

Lemma chain_stale : forall s o fr sv e, chain s o fr sv -> chain s o fr (e :: sv).
Proof.
  intros. inversion H; subst; [constructor|].
  change (e :: sv1 ++ (sp k s, snap) :: sv2) with ((e :: sv1) ++ (sp k s, snap) :: sv2).
  constructor; auto.
Qed.

Lemma ctxrel_ext : forall s s' o l, ctxrel s o l ->
  length (txns s) <= length (txns s') ->
  (forall k, In k l -> outer k s' = outer k s) ->
  ctxrel s' o l.
Proof.
  induction 1; intros Hl He; [constructor|].
  constructor; [lia|auto|]. rewrite He by (left; auto). apply IHctxrel; auto.
  intros. apply He. right; auto.
Qed.
Lemma ctxrel_sb : forall s s' l, ctxrel s (c_ctx s) l -> same_but s s' -> ctxrel s' (c_ctx s') l.
Proof. intros. destruct H0. rewrite sb_ctx0. eapply ctxrel_ext; eauto. lia. Qed.

Lemma ctxrel_lt : forall s o l, ctxrel s o l -> forall k, In k l -> k < length (txns s).
Proof. induction 1; cbn; intros; [contradiction|]. destruct H2; subst; auto. Qed.

(* ---- facts about the reference-model helpers ---- *)
Lemma live_app_root : forall k nf r snap p, p_stack p = nf ++ [(r, snap)] ->
  live k p = existsb (fun f => Nat.eqb (fst f) k) nf || Nat.eqb r k.
Proof. intros. unfold live. rewrite H, existsb_app. cbn. rewrite orb_false_r. reflexivity. Qed.

Lemma live_in : forall k p, live k p = true <-> In k (map fst (p_stack p)).
Proof.
  intros. unfold live. rewrite existsb_exists. split.
  - intros [x [A B]]. apply Nat.eqb_eq in B. subst. apply in_map. auto.
  - intros H. apply in_map_iff in H. destruct H as [x [A B]]. exists x. subst. split; auto. apply Nat.eqb_refl.
Qed.

Lemma below_last : forall k nf r snap, ~ In k (map fst nf) -> below k (nf ++ [(r, snap)]) = [].
Proof.
  induction nf as [|[j sn] nf]; intros; cbn.
  - destruct (Nat.eqb r k); reflexivity.
  - cbn in H. destruct (Nat.eqb_spec j k); [exfalso; auto|]. apply IHnf. auto.
Qed.

Lemma drop_to_app : forall n sv1 snap sv2, ~ In n (map fst sv1) ->
  drop_to n (sv1 ++ (n, snap) :: sv2) = Some ((n, snap) :: sv2).
Proof.
  induction sv1 as [|[m sn] sv1]; intros; cbn.
  - rewrite N.eqb_refl. reflexivity.
  - cbn in H. destruct (N.eqb_spec m n); [exfalso; auto|]. apply IHsv1. auto.
Qed.

Lemma NoDup_app_head : forall (A : Type) (l1 : list A) x l2, NoDup (l1 ++ x :: l2) -> ~ In x l1 /\ NoDup (x :: l2).
Proof.
  induction l1; cbn; intros.
  - split; auto.
  - inversion H; subst. destruct (IHl1 _ _ H3). split; auto.
    intros [E|E]; subst; auto. apply H2. apply in_or_app. right. left. auto.
Qed.

(* ---- consequences of R ---- *)
Lemma eqb_lt_false : forall k n, k < n -> Nat.eqb k n = false.
Proof. intros. apply Nat.eqb_neq. lia. Qed.

Lemma R_live_lt : forall s p k, R s p -> live k p = true -> k < p_next p.
Proof. intros. rewrite <- (R_len _ _ H). apply active_lt. rewrite (R_active _ _ H). auto. Qed.

Lemma R_root_some : forall s p r, R s p -> c_root s = Some r ->
  exists nf snap, p_stack p = nf ++ [(r, snap)] /\ is_root r s = true /\
    chain s (c_nested s) nf (saves (s_db s)) /\ active r s = true /\ c_closed s = false /\
    ~ In r (map fst nf).
Proof.
  intros s p r HR Hr. pose proof (R_frames _ _ HR) as F. unfold frames in F. rewrite Hr in F.
  destruct F as (nf & snap & A & B & C). exists nf, snap. repeat split; auto.
  - rewrite (R_active _ _ HR). rewrite (live_app_root _ _ _ _ _ A), Nat.eqb_refl. apply orb_true_r.
  - rewrite (R_closed _ _ HR). destruct (p_closed p) eqn:E; auto.
    rewrite (R_closed_empty _ _ HR E) in A. destruct nf; discriminate.
  - pose proof (R_nodup _ _ HR) as N. rewrite A, map_app in N. cbn in N.
    apply NoDup_app_head in N. tauto.
Qed.

Lemma R_root_none : forall s p, R s p -> c_root s = None -> p_stack p = [] /\ c_nested s = None.
Proof. intros s p HR Hr. pose proof (R_frames _ _ HR) as F. unfold frames in F. rewrite Hr in F. auto. Qed.

Lemma chain_head_live : forall s p k nf r snap sv, p_stack p = nf ++ [(r, snap)] ->
  chain s (Some k) nf sv -> live k p = true.
Proof.
  intros. inversion H0; subst. rewrite (live_app_root _ _ _ _ _ H). cbn. rewrite Nat.eqb_refl. reflexivity.
Qed.

Lemma R_nested_active : forall s p k, R s p -> c_nested s = Some k -> active k s = true.
Proof.
  intros s p k HR Hk. destruct (c_root s) as [r|] eqn:Hr.
  - destruct (R_root_some _ _ _ HR Hr) as (nf & snap & A & B & C & _). rewrite Hk in C.
    rewrite (R_active _ _ HR). eapply chain_head_live; eauto.
  - destruct (R_root_none _ _ HR Hr). congruence.
Qed.

Lemma R_ctx_top : forall s p, R s p ->
  match c_ctx s, p_ctx p with
  | None, [] => True
  | Some k, j :: _ => k = j /\ k < length (txns s)
  | _, _ => False
  end.
Proof. intros s p HR. pose proof (R_ctx _ _ HR) as C. inversion C; auto. Qed.

Lemma R_ctx_check : forall s p, R s p ->
  ctx_check s = if ctx_bad p then (Raise InvalidRequestError, s) else (Ok, s).
Proof.
  intros s p HR. pose proof (R_ctx_top _ _ HR) as T. unfold ctx_check, ctx_bad.
  destruct (c_ctx s) as [k|], (p_ctx p) as [|j l]; try contradiction; auto.
  destruct T as [-> _]. rewrite (R_active _ _ HR). destruct (live j p); reflexivity.
Qed.

Lemma R_pending_false : forall s p, R s p ->
  inst_inactive (c_root s) s || inst_inactive (c_nested s) s = false.
Proof.
  intros s p HR. unfold inst_inactive.
  destruct (c_root s) as [r|] eqn:Hr.
  - destruct (R_root_some _ _ _ HR Hr) as (nf & snap & _ & _ & _ & A & _). rewrite A. cbn.
    destruct (c_nested s) as [k|] eqn:Hk; auto. rewrite (R_nested_active _ _ _ HR Hk). reflexivity.
  - destruct (R_root_none _ _ HR Hr) as [_ ->]. reflexivity.
Qed.

Lemma R_guard_ok : forall s p r, R s p -> c_root s = Some r -> ctx_bad p = false -> exec_guard s = (Ok, s).
Proof.
  intros s p r HR Hr Hb. unfold exec_guard.
  destruct (R_root_some _ _ _ HR Hr) as (_ & _ & _ & _ & _ & _ & -> & _).
  rewrite (R_pending_false _ _ HR). unfold bind. rewrite (R_ctx_check _ _ HR), Hb.
  unfold autobegin_if_none. rewrite Hr. reflexivity.
Qed.

(* re-establishing R after a step that creates no object and leaves the with-block stack alone *)
Lemma R_after : forall s s' p p', R s p -> same_but s s' ->
  p_kinds p' = p_kinds p -> p_ctx p' = p_ctx p -> p_closed p' = p_closed p ->
  p_beginfail p' = p_beginfail p -> p_rbfail p' = p_rbfail p ->
  (forall k, active k s' = live k p') ->
  (p_closed p' = true -> p_stack p' = []) ->
  committed (s_db s') = p_committed p' -> work (s_db s') = p_cur p' ->
  frames s' p' ->
  NoDup (map fst (p_stack p')) -> NoDup (map fst (saves (s_db s'))) ->
  (forall e, In e (saves (s_db s')) -> (fst e <= c_seq s)%N) ->
  forallb snd (s_out s') = true ->
  R s' p'.
Proof.
  intros s s' p p' [] SB Hk Hc Hcl Hbf Hrf Ha Hce Hco Hw Hf Hn Hnn Hs Ho.
  pose proof SB as [].
  constructor; auto.
  - unfold p_next in *. congruence.
  - intros k Hlt. rewrite sb_root0. unfold kind_root. rewrite Hk. apply R_kinds0. lia.
  - congruence.
  - intros e He. rewrite sb_seq0. auto.
  - rewrite Hc. eapply ctxrel_sb; eauto.
  - intros k Hlt. rewrite sb_subject0, Hc. apply R_subject0. lia.
  - congruence.
  - congruence.
  - congruence.
Qed.

Lemma frames_sb : forall s s' p, frames s p -> same_but s s' -> c_root s' = c_root s ->
  c_nested s' = c_nested s -> saves (s_db s') = saves (s_db s) -> frames s' p.
Proof.
  unfold frames. intros s s' p F SB -> -> ->. destruct (c_root s); auto.
  destruct F as (nf & snap & A & B & C). exists nf, snap. repeat split; auto.
  - rewrite (sb_root _ _ SB). auto.
  - eapply chain_sb; eauto.
Qed.

(* R does not look at the per-call log *)
Lemma R_clear_log : forall s p, R s p -> R (clear_log s) p.
Proof.
  intros s p HR. eapply R_after; eauto using sb_clear_log; try (destruct HR; assumption).
  eapply frames_sb; eauto using sb_clear_log. apply HR.
Qed.

(* ---- opening frames ---- *)
Lemma live_open_frame : forall b p k, live k (open_frame b p) = Nat.eqb (p_next p) k || live k p.
Proof. reflexivity. Qed.

Lemma ctx_bad_open_frame : forall s p b, R s p -> ctx_bad (open_frame b p) = ctx_bad p.
Proof.
  intros s p b HR. unfold ctx_bad. cbn [p_ctx open_frame]. destruct (p_ctx p) as [|k l] eqn:E; auto.
  rewrite live_open_frame. pose proof (R_ctx_top _ _ HR) as T. rewrite E in T.
  destruct (c_ctx s); [|contradiction]. destruct T as [-> T]. rewrite (R_len _ _ HR) in T.
  rewrite Nat.eqb_sym, (eqb_lt_false _ _ T). reflexivity.
Qed.

Lemma kind_root_app : forall k p b, k < p_next p -> nth k (p_kinds p ++ [b]) false = kind_root k p.
Proof. intros. unfold kind_root. apply app_nth1. auto. Qed.

Tactic Notation "norm" := autorewrite with st;
  cbn [open_frame p_committed p_cur p_stack p_kinds p_ctx p_closed p_beginfail p_rbfail committed work saves fst snd].
Tactic Notation "norm" "in" hyp(H) := autorewrite with st in H;
  cbn [open_frame p_committed p_cur p_stack p_kinds p_ctx p_closed p_beginfail p_rbfail committed work saves fst snd] in H.

Lemma begin_impl_ok : forall s, c_beginfail s = 0%N ->
  begin_impl s = (Ok, set_in_begin false (add_out (Begin, true) (set_db (s_db s) (set_in_begin true s)))).
Proof. intros s H. unfold begin_impl, bind, finally, begin_listener, emit. autorewrite with st. rewrite H. reflexivity. Qed.

Lemma begin_impl_fail : forall s, c_beginfail s <> 0%N ->
  begin_impl s = (Raise ListenerError,
                  set_in_begin false (if N.eqb (c_beginfail s) 1 then set_beginfail 0%N (set_in_begin true s)
                                      else set_in_begin true s)).
Proof.
  intros s H. unfold begin_impl, bind, finally, begin_listener. autorewrite with st.
  destruct (c_beginfail s) as [|[q|q|]]; try contradiction; reflexivity.
Qed.

Lemma R_new_root : forall s p, R s p -> c_root s = None -> blocked p = false -> p_beginfail p = 0%N ->
  exists s', new_root s = (Ok, s') /\ R s' (open_frame true p) /\ c_root s' = Some (length (txns s)).
Proof.
  intros s p HR Hr Hb Hbf. apply orb_false_elim in Hb. destruct Hb as [Hc Hb].
  destruct (R_root_none _ _ HR Hr) as [Hst Hn].
  unfold new_root, bind. rewrite (R_ctx_check _ _ HR), Hb, (R_closed _ _ HR), Hc.
  rewrite begin_impl_ok by (rewrite (R_bfail _ _ HR); auto).
  eexists. split; [reflexivity|]. split; [|norm; reflexivity].
  pose proof HR as []. constructor.
  - norm. unfold p_next in *. cbn [p_kinds open_frame]. rewrite app_length. cbn. lia.
  - intros k Hk. norm. unfold kind_root. cbn [p_kinds open_frame]. destruct (Nat.eqb_spec k (length (txns s))).
    + subst. rewrite R_len0. unfold p_next. rewrite app_nth2, Nat.sub_diag by lia. reflexivity.
    + autorewrite with st in Hk. rewrite app_nth1 by (unfold p_next in *; lia). apply R_kinds0. lia.
  - intros k. norm. rewrite live_open_frame, R_len0, (Nat.eqb_sym k). destruct (Nat.eqb (p_next p) k); cbn; auto.
  - norm. auto.
  - norm. rewrite Hc. discriminate.
  - norm. auto.
  - norm. auto.
  - unfold frames. norm. exists [], (p_cur p). rewrite Hst. repeat split.
    + rewrite R_len0. reflexivity.
    + norm. rewrite Nat.eqb_refl. reflexivity.
    + rewrite Hn. constructor.
  - norm. rewrite Hst. cbn. constructor; [intros []|constructor].
  - norm. auto.
  - intros e. norm. auto.
  - norm. eapply ctxrel_ext; [exact R_ctx0| |].
    + norm. lia.
    + intros k Hk. pose proof (ctxrel_lt _ _ _ R_ctx0 k Hk). norm.
      rewrite (eqb_lt_false _ _ H). reflexivity.
  - intros k Hk. norm. autorewrite with st in Hk. destruct (Nat.eqb_spec k (length (txns s))).
    + subst. cbn. symmetry. apply not_true_is_false. intro E. apply existsb_exists in E.
      destruct E as [x [A B]]. apply Nat.eqb_eq in B. subst.
      pose proof (ctxrel_lt _ _ _ R_ctx0 _ A). lia.
    + apply R_subject0. lia.
  - norm. rewrite forallb_app, R_out0. reflexivity.
  - norm. reflexivity.
  - norm. auto.
  - norm. auto.
Qed.

Lemma sb_chain_seq : forall s n o fr sv, chain s o fr sv -> chain (set_seq n s) o fr sv.
Proof. intros. eapply chain_ext; eauto; intros; norm; auto. Qed.

Lemma R_set_seq : forall s p n, R s p -> (c_seq s <= n)%N -> R (set_seq n s) p.
Proof.
  intros s p n HR Hn. pose proof HR as []. constructor.
  - norm. auto.
  - intros k Hk. norm. norm in Hk. auto.
  - intros k. norm. auto.
  - norm. auto.
  - auto.
  - norm. auto.
  - norm. auto.
  - unfold frames in *. norm. destruct (c_root s); auto.
    destruct R_frames0 as (nf & snap & A & B & C). exists nf, snap. repeat split; auto using sb_chain_seq.
  - auto.
  - norm. auto.
  - intros e H. norm. norm in H. specialize (R_seq0 _ H). lia.
  - norm. eapply ctxrel_ext; eauto; intros; norm; auto.
  - intros k Hk. norm. norm in Hk. auto.
  - norm. auto.
  - norm. exact R_nb0.
  - norm. exact R_bfail0.
  - norm. exact R_rbfail0.
Qed.

Lemma ch_cons0 : forall s k n snap fr sv2,
  k < length (txns s) -> is_root k s = false -> sp k s = n -> chain s (prev k s) fr sv2 ->
  chain s (Some k) ((k, snap) :: fr) ((n, snap) :: sv2).
Proof. intros. subst n. apply (ch_cons s k snap fr [] sv2); auto. Qed.

Lemma R_new_nested : forall s p r, R s p -> c_root s = Some r -> ctx_bad p = false ->
  exists s', new_nested s = (Ok, s') /\ R s' (open_frame false p).
Proof.
  intros s p r HR Hr Hb.
  assert (HR1 : R (set_seq (N.succ (c_seq s)) s) p) by (apply R_set_seq; [auto|lia]).
  unfold new_nested. unfold bind at 1. rewrite (R_ctx_check _ _ HR), Hb.
  unfold bind at 1. unfold sql. unfold bind at 1.
  rewrite (R_guard_ok _ _ r HR1) by (norm; auto).
  unfold emit. cbn [exec_cmd]. eexists. split; [reflexivity|].
  destruct (R_root_some _ _ _ HR Hr) as (nf & snap & Hst & Hroot & Hch & Hact & Hcl & Hnin).
  pose proof HR as [].
  assert (Hrl : r < length (txns s)) by (apply active_lt; auto).
  constructor.
  - norm. unfold p_next in *. cbn [p_kinds open_frame]. rewrite app_length. cbn. lia.
  - intros k Hk. norm. autorewrite with st in Hk. unfold kind_root. cbn [p_kinds open_frame].
    destruct (Nat.eqb_spec k (length (txns s))).
    + subst. rewrite R_len0. unfold p_next. rewrite app_nth2, Nat.sub_diag by lia. reflexivity.
    + rewrite app_nth1 by (unfold p_next in *; lia). apply R_kinds0. lia.
  - intros k. norm. rewrite live_open_frame, R_len0, (Nat.eqb_sym k). destruct (Nat.eqb (p_next p) k); cbn; auto.
  - norm. auto.
  - norm. rewrite <- R_closed0, Hcl. discriminate.
  - norm. auto.
  - norm. auto.
  - unfold frames. norm. rewrite Hr. exists ((p_next p, p_cur p) :: nf), snap. repeat split.
    + rewrite Hst. reflexivity.
    + norm. rewrite (eqb_lt_false _ _ Hrl). auto.
    + rewrite <- R_len0, <- R_work0.
      apply ch_cons0.
      * norm. lia.
      * norm. rewrite Nat.eqb_refl. reflexivity.
      * norm. rewrite Nat.eqb_refl. reflexivity.
      * norm. rewrite Nat.eqb_refl. cbn [t_prev].
        eapply chain_ext; [exact Hch| |].
        -- norm. lia.
        -- intros k Hk. norm. rewrite (eqb_lt_false _ _ Hk). auto.
  - norm. cbn [map fst]. constructor; auto.
    intro H. apply live_in in H. apply (R_live_lt _ _ _ HR) in H. lia.
  - norm. cbn. constructor; auto. intro H. apply in_map_iff in H. destruct H as [e [A B]].
    apply R_seq0 in B. rewrite A in B. lia.
  - intros e H. norm. norm in H. destruct H as [<-|H]; cbn; [lia|]. apply R_seq0 in H. lia.
  - norm. eapply ctxrel_ext; [exact R_ctx0| |].
    + norm. lia.
    + intros k Hk. pose proof (ctxrel_lt _ _ _ R_ctx0 k Hk). norm.
      rewrite (eqb_lt_false _ _ H). reflexivity.
  - intros k Hk. norm. norm in Hk. destruct (Nat.eqb_spec k (length (txns s))).
    + subst. cbn. symmetry. apply not_true_is_false. intro E. apply existsb_exists in E.
      destruct E as [x [A B]]. apply Nat.eqb_eq in B. subst.
      pose proof (ctxrel_lt _ _ _ R_ctx0 _ A). lia.
    + apply R_subject0. lia.
  - norm. rewrite forallb_app, R_out0. reflexivity.
  - norm. exact R_nb0.
  - norm. exact R_bfail0.
  - norm. exact R_rbfail0.
Qed.

(* ---- changes of the environment fields only (fault injection, __in_begin) ---- *)
Lemma R_env : forall s s' p p', R s p ->
  txns s' = txns s -> c_root s' = c_root s -> c_nested s' = c_nested s -> c_ctx s' = c_ctx s ->
  c_seq s' = c_seq s -> c_closed s' = c_closed s -> s_db s' = s_db s -> s_out s' = s_out s ->
  c_in_begin s' = false -> c_beginfail s' = p_beginfail p' -> c_rbfail s' = p_rbfail p' ->
  p_committed p' = p_committed p -> p_cur p' = p_cur p -> p_stack p' = p_stack p ->
  p_kinds p' = p_kinds p -> p_ctx p' = p_ctx p -> p_closed p' = p_closed p ->
  R s' p'.
Proof.
  intros s s' p p' HR Ht Hr Hn Hc Hs Hcl Hd Ho Hib Hbf Hrf E1 E2 E3 E4 E5 E6.
  assert (G : forall k, get k s' = get k s) by (intro k; unfold get; rewrite Ht; reflexivity).
  assert (Gl : length (txns s') = length (txns s)) by (rewrite Ht; reflexivity).
  pose proof HR as [].
  constructor; try congruence.
  - unfold p_next in *. congruence.
  - intros k Hk. unfold is_root, kind_root. rewrite G, E4. apply R_kinds0. lia.
  - intros k. unfold active, live. rewrite G, E3. apply R_active0.
  - rewrite E6, E3. auto.
  - unfold frames in *. rewrite Hr, Hn, Hd, E3. destruct (c_root s); auto.
    destruct R_frames0 as (nf & snap & A & B & C). exists nf, snap. repeat split; auto.
    + unfold is_root in *. rewrite G. auto.
    + eapply chain_ext; eauto; [lia|]. intros k Hk. unfold is_root, prev, sp. rewrite G. auto.
  - intros e He. rewrite Hd in He. rewrite Hs. auto.
  - rewrite Hc, E5. eapply ctxrel_ext; eauto; [lia|]. intros k Hk. unfold outer. rewrite G. reflexivity.
  - intros k Hk. unfold subject. rewrite G, E5. apply R_subject0. lia.
Qed.

Lemma R_begin_failed : forall s p, R s p -> p_beginfail p <> 0%N ->
  R (set_in_begin false (if N.eqb (c_beginfail s) 1 then set_beginfail 0%N (set_in_begin true s)
                         else set_in_begin true s)) (snd (begin_root p)) /\
  fst (begin_root p) = true.
Proof.
  intros s p HR Hbf. rewrite (R_bfail _ _ HR). unfold begin_root.
  destruct (p_beginfail p) as [|[q|q|]] eqn:E; try contradiction; cbn [N.eqb Pos.eqb fst snd]; split; auto;
    eapply R_env; eauto; norm; auto using (R_rbfail _ _ HR), (R_bfail _ _ HR).
Qed.

Definition res_ok (r : res) (b : bool) : Prop :=
  match r with Ok => b = false | Raise _ => b = true | OutOfFuel => False end.

(* RootTransaction.__init__ with the `begin` listeners of the environment *)
Lemma R_new_root_any : forall s p, R s p -> c_root s = None -> blocked p = false ->
  exists r s', new_root s = (r, s') /\ R s' (snd (begin_root p)) /\ res_ok r (fst (begin_root p)) /\
               (r = Ok -> c_root s' <> None).
Proof.
  intros s p HR Hr Hb. destruct (N.eq_dec (p_beginfail p) 0) as [E|E].
  - destruct (R_new_root _ _ HR Hr Hb E) as (s' & A & B & C). exists Ok, s'. unfold begin_root. rewrite E.
    split; [exact A|]. split; [exact B|]. split; [reflexivity|]. intros _. congruence.
  - destruct (R_begin_failed _ _ HR E) as [B F].
    pose proof Hb as Hb'. apply orb_false_elim in Hb'. destruct Hb' as [Hc Hx].
    unfold new_root, bind. rewrite (R_ctx_check _ _ HR), Hx, (R_closed _ _ HR), Hc.
    rewrite begin_impl_fail by (rewrite (R_bfail _ _ HR); auto).
    eexists _, _. split; [reflexivity|]. split; [exact B|]. split; [exact F|discriminate].
Qed.

(* ---- the transactional prologue of execute under R ---- *)
Lemma R_exec_guard : forall s p, R s p -> blocked p = false ->
  exists r s', exec_guard s = (r, s') /\ R s' (snd (autobegin_spec p)) /\
               res_ok r (fst (autobegin_spec p)) /\ (r = Ok -> c_root s' <> None).
Proof.
  intros s p HR Hb. destruct (c_root s) as [r|] eqn:Hr.
  - apply orb_false_elim in Hb. destruct Hb as [_ Hb].
    exists Ok, s. rewrite (R_guard_ok _ _ _ HR Hr Hb). split; [auto|].
    destruct (R_root_some _ _ _ HR Hr) as (nf & snap & Hst & _).
    unfold autobegin_spec. rewrite Hst. destruct nf; cbn; (split; [auto|split; [auto|congruence]]).
  - destruct (R_new_root_any _ _ HR Hr Hb) as (r & s' & A & B & C & D).
    pose proof Hb as Hb'. apply orb_false_elim in Hb'. destruct Hb' as [Hc Hx].
    exists r, s'. unfold exec_guard. rewrite (R_closed _ _ HR), Hc, (R_pending_false _ _ HR).
    unfold bind. rewrite (R_ctx_check _ _ HR), Hx. unfold autobegin_if_none, begin.
    rewrite Hr, (R_nb _ _ HR), A.
    destruct (R_root_none _ _ HR Hr) as [Hst _]. unfold autobegin_spec. rewrite Hst. auto.
Qed.

Lemma R_closed_root_none : forall s p, R s p -> p_closed p = true -> c_root s = None.
Proof.
  intros s p HR Hc. destruct (c_root s) eqn:Hr; auto.
  destruct (R_root_some _ _ _ HR Hr) as (_ & _ & _ & _ & _ & _ & A & _).
  rewrite (R_closed _ _ HR) in A. congruence.
Qed.

Lemma R_blocked_new_root : forall s p, R s p -> blocked p = true -> exists e, new_root s = (Raise e, s).
Proof.
  intros s p HR Hb. unfold new_root, bind. rewrite (R_ctx_check _ _ HR).
  destruct (ctx_bad p) eqn:Hx; [eauto|]. unfold blocked in Hb. rewrite Hx, orb_false_r in Hb.
  rewrite (R_closed _ _ HR), Hb. eauto.
Qed.

Lemma R_blocked_nested : forall s p, R s p -> blocked p = true -> exists e, begin_nested s = (Raise e, s).
Proof.
  intros s p HR Hb. unfold begin_nested, bind, autobegin_if_none, begin.
  destruct (c_root s) eqn:Hr.
  - unfold new_nested, bind. rewrite (R_ctx_check _ _ HR).
    destruct (ctx_bad p) eqn:Hx; [eauto|]. unfold blocked in Hb. rewrite Hx, orb_false_r in Hb.
    rewrite (R_closed_root_none _ _ HR Hb) in Hr. discriminate.
  - rewrite (R_nb _ _ HR). destruct (R_blocked_new_root _ _ HR Hb) as [e ->]. eauto.
Qed.

Lemma R_blocked_ins : forall s p v, R s p -> blocked p = true -> exists e, ins v s = (Raise e, s).
Proof.
  intros s p v HR Hb. unfold ins, bind, exec_guard. rewrite (R_closed _ _ HR).
  destruct (p_closed p) eqn:Hc; [eauto|]. rewrite (R_pending_false _ _ HR).
  unfold bind. rewrite (R_ctx_check _ _ HR). unfold blocked in Hb. rewrite Hc in Hb. cbn in Hb. rewrite Hb. eauto.
Qed.

(* ---- cancelling the savepoint chain ---- *)
Lemma cancel_chain : forall fuel k s fr sv, WF s -> chain s (Some k) fr sv -> c_nested s = Some k -> k < fuel ->
  exists s', cancel fuel k s = (Ok, s') /\ same_but s s' /\ c_root s' = c_root s /\ c_nested s' = None /\
    s_db s' = s_db s /\ s_out s' = s_out s /\
    forall j, active j s' = active j s && negb (existsb (Nat.eqb j) (map fst fr)).
Proof.
  induction fuel; intros k s fr sv W Hch Hn Hk; [lia|].
  rewrite cancel_unfold. unfold deact_nested. norm. rewrite Hn. cbn [opt_is]. rewrite Nat.eqb_refl.
  norm. inversion Hch; subst.
  set (s2 := set_nested (prev k s) (set_active k false s)).
  assert (SB : same_but s s2) by (eapply sb_trans; [apply sb_set_active|apply sb_set_nested]).
  assert (W2 : WF s2).
  { unfold s2. rewrite <- (prev_set_active k k false s). apply WF_set_nested_prev, WF_set_active, W. }
  assert (Hs2 : c_nested s2 = prev k s /\ c_root s2 = c_root s /\ s_db s2 = s_db s /\ s_out s2 = s_out s /\
                forall j, active j s2 = active j s && negb (Nat.eqb j k)).
  { unfold s2. repeat split; intros; norm; reflexivity. }
  destruct Hs2 as (N2 & R2 & D2 & O2 & A2).
  clearbody s2. destruct (prev k s) as [q|] eqn:Hp.
  - assert (Hq : q < k) by (apply W; auto).
    destruct (IHfuel q s2 fr0 sv2) as (s' & A & B & C & D & E & F & G); auto.
    + eapply chain_sb; eauto.
    + lia.
    + exists s'. rewrite A.
      split; [reflexivity|split; [eapply sb_trans; eauto|split; [congruence|split; [exact D|split; [congruence|split; [congruence|]]]]]].
      intros j. rewrite G, A2. cbn [map fst existsb]. rewrite negb_orb, andb_assoc. reflexivity.
  - match goal with H : chain s None _ _ |- _ => inversion H; subst end. exists s2.
    split; [reflexivity|split; [exact SB|split; [exact R2|split; [exact N2|split; [exact D2|split; [exact O2|]]]]]].
    intros j. rewrite A2. cbn. rewrite orb_false_r. reflexivity.
Qed.

Lemma cancel_nested_chain : forall s nf sv, WF s -> chain s (c_nested s) nf sv ->
  exists s', cancel_nested s = (Ok, s') /\ same_but s s' /\ c_root s' = c_root s /\ c_nested s' = None /\
    s_db s' = s_db s /\ s_out s' = s_out s /\
    forall j, active j s' = active j s && negb (existsb (Nat.eqb j) (map fst nf)).
Proof.
  intros s nf sv W Hch. unfold cancel_nested. destruct (c_nested s) as [n|] eqn:Hn.
  - eapply cancel_chain; eauto. inversion Hch; auto.
  - inversion Hch; subst. exists s.
    split; [reflexivity|split; [apply sb_refl|split; [reflexivity|split; [exact Hn|split; [reflexivity|split; [reflexivity|]]]]]].
    intros. cbn. rewrite andb_true_r. reflexivity.
Qed.

Lemma existsb_ids : forall j (nf : list (nat * tables)),
  existsb (Nat.eqb j) (map fst nf) = existsb (fun f => Nat.eqb (fst f) j) nf.
Proof. induction nf; cbn; auto. rewrite IHnf, (Nat.eqb_sym j). reflexivity. Qed.

Lemma existsb_in : forall j l, existsb (Nat.eqb j) l = true <-> In j l.
Proof.
  intros. rewrite existsb_exists. split.
  - intros [x [A B]]. apply Nat.eqb_eq in B. subst. auto.
  - intros. exists j. split; auto. apply Nat.eqb_refl.
Qed.

(* what ending the root transaction leaves behind: every object inactive, nothing installed *)
Lemma root_tail : forall s p r s1 c d', R s p -> WF s -> c_root s = Some r ->
  s1 = add_out (c, true) (set_db d' s) ->
  exists s2 s3, cancel_nested s1 = (Ok, s2) /\ deact_root r s2 = (Ok, s3) /\
    active r s2 = true /\ c_root s3 = Some r /\
    same_but s s3 /\ c_nested s3 = None /\ s_db s3 = d' /\ s_out s3 = s_out s ++ [(c, true)] /\
    forall j, active j s3 = false.
Proof.
  intros s p r s1 c d' HR W Hr ->.
  destruct (R_root_some _ _ _ HR Hr) as (nf & snap & Hst & Hroot & Hch & Hact & Hcl & Hnin).
  set (s1 := add_out (c, true) (set_db d' s)).
  assert (SB1 : same_but s s1) by (eapply sb_trans; [apply sb_set_db|apply sb_add_out]).
  assert (W1 : WF s1) by (apply WF_add_out, WF_set_db, W).
  destruct (cancel_nested_chain s1 nf (saves (s_db s)) W1) as (s2 & A & B & C & D & E & F & G).
  { unfold s1. norm. eapply chain_sb; eauto. }
  assert (Ar : active r s2 = true).
  { rewrite G. unfold s1. norm. rewrite Hact. cbn. apply negb_true_iff.
    apply not_true_is_false. intro X. apply existsb_in in X. auto. }
  exists s2, (set_active r false s2). split; [exact A|]. split.
  { unfold deact_root. rewrite Ar. reflexivity. }
  split; [exact Ar|]. split; [norm; rewrite C; unfold s1; norm; auto|].
  split; [eapply sb_trans; [exact SB1|eapply sb_trans; [exact B|apply sb_set_active]]|].
  split; [norm; auto|]. split; [norm; rewrite E; unfold s1; norm; reflexivity|].
  split; [norm; rewrite F; unfold s1; norm; reflexivity|].
  intros j. norm. rewrite G. unfold s1. norm. rewrite (R_active _ _ HR), (live_app_root _ _ _ _ _ Hst), existsb_ids.
  rewrite (Nat.eqb_sym r j).
  destruct (existsb _ nf), (Nat.eqb j r); reflexivity.
Qed.

Lemma R_root_end : forall s p s' (b : bool), R s p -> same_but s s' ->
  c_root s' = None -> c_nested s' = None ->
  s_db s' = (if b then mkDb (work (s_db s)) (work (s_db s)) [] else mkDb (committed (s_db s)) (committed (s_db s)) []) ->
  (forall j, active j s' = false) -> forallb snd (s_out s') = true ->
  (b = false -> p_rbfail p = false) ->
  R s' (if b then commit_all p else rollback_all p).
Proof.
  intros s p s' b HR SB Hr Hn Hd Ha Ho Hrf.
  destruct b.
  - apply (R_after s s' p _ HR SB); try reflexivity; auto.
    + rewrite Hd. apply (R_work _ _ HR).
    + rewrite Hd. apply (R_work _ _ HR).
    + unfold frames. rewrite Hr. auto.
    + constructor.
    + rewrite Hd. constructor.
    + rewrite Hd. intros e [].
  - apply (R_after s s' p _ HR SB); try reflexivity; auto.
    + cbn. symmetry. auto.
    + rewrite Hd. apply (R_committed _ _ HR).
    + rewrite Hd. apply (R_committed _ _ HR).
    + unfold frames. rewrite Hr. auto.
    + constructor.
    + rewrite Hd. constructor.
    + rewrite Hd. intros e [].
Qed.

Lemma root_do_commit_R : forall s p r, R s p -> WF s -> c_root s = Some r ->
  exists s', root_do_commit r s = (Ok, s') /\ R s' (commit_all p) /\ same_but s s'.
Proof.
  intros s p r HR W Hr.
  destruct (R_root_some _ _ _ HR Hr) as (nf & snap & Hst & Hroot & Hch & Hact & Hcl & Hnin).
  destruct (root_tail s p r _ Commit (mkDb (work (s_db s)) (work (s_db s)) []) HR W Hr eq_refl)
    as (s2 & s3 & A & B & Ar & C & SB & D & E & F & G).
  exists (set_root None s3). unfold root_do_commit. rewrite Hact. unfold bind at 1. unfold finally.
  unfold emit. cbn [exec_cmd]. unfold bind at 1. rewrite A, B.
  split; [reflexivity|]. split.
  - apply (R_root_end s p _ true HR); norm; auto.
    + eapply sb_trans; [exact SB|apply sb_set_root].
    + rewrite F, forallb_app, (R_out _ _ HR). reflexivity.
    + discriminate.
  - eapply sb_trans; [exact SB|apply sb_set_root].
Qed.

(* rollback of the live root transaction, with the DBAPI rollback succeeding or reporting an error *)
Lemma root_close_tail : forall s p r t, R s p -> WF s -> c_root s = Some r -> p_rbfail p = false ->
  exists s', bind cancel_nested
               (bind (fun s => if active r s || t then deact_root r s else (Ok, s))
                     (fun s => if opt_is (c_root s) r then (Ok, set_root None s) else (Ok, s)))
               (add_out (Rollback, true) (set_db (mkDb (committed (s_db s)) (committed (s_db s)) []) s)) = (Ok, s') /\
             R s' (rollback_all p).
Proof.
  intros s p r t HR W Hr Hf.
  destruct (root_tail s p r _ Rollback (mkDb (committed (s_db s)) (committed (s_db s)) []) HR W Hr eq_refl)
    as (s2 & s3 & A & B & Ar & C & SB & D & E & F & G).
  exists (set_root None s3). unfold bind at 1. rewrite A.
  unfold bind. rewrite Ar. cbn [orb]. rewrite B, C. cbn [opt_is]. rewrite Nat.eqb_refl.
  split; [reflexivity|].
  apply (R_root_end s p _ false HR); norm; auto.
  - eapply sb_trans; [exact SB|apply sb_set_root].
  - rewrite F, forallb_app, (R_out _ _ HR). reflexivity.
Qed.

Lemma root_close_impl_R : forall s p r t, R s p -> WF s -> c_root s = Some r ->
  exists res s', root_close_impl r t s = (res, s') /\ R s' (rollback_all p) /\ res_ok res (p_rbfail p).
Proof.
  intros s p r t HR W Hr.
  destruct (R_root_some _ _ _ HR Hr) as (nf & snap & Hst & Hroot & Hch & Hact & Hcl & Hnin).
  unfold root_close_impl, finally. rewrite Hact. unfold rollback_impl. rewrite Hcl, (R_rbfail _ _ HR).
  destruct (p_rbfail p) eqn:Hf.
  - (* the DBAPI rollback is performed and reports an error *)
    assert (HR0 : R (set_rbfail false s) (set_prbfail false p)).
    { eapply R_env; eauto; norm; auto using (R_nb _ _ HR), (R_bfail _ _ HR). }
    assert (W0 : WF (set_rbfail false s)) by (apply WF_set_rbfail, W).
    destruct (root_close_tail _ _ r t HR0 W0) as (s' & A & B); [norm; auto|reflexivity|].
    exists (Raise OperationalError), s'. split; [|split; [exact B|reflexivity]].
    unfold bind at 1. unfold emit. cbn [exec_cmd]. norm. norm in A. rewrite A. reflexivity.
  - destruct (root_close_tail _ _ r t HR W Hr Hf) as (s' & A & B).
    exists Ok, s'. split; [|split; [exact B|reflexivity]].
    unfold emit. cbn [exec_cmd]. rewrite A. reflexivity.
Qed.

(* ---- ending the innermost savepoint ---- *)
Lemma R_top_nested : forall s p r k, R s p -> c_root s = Some r -> c_nested s = Some k ->
  exists snap nf' rs sv1 sv2,
    p_stack p = (k, snap) :: nf' ++ [(r, rs)] /\ saves (s_db s) = sv1 ++ (sp k s, snap) :: sv2 /\
    chain s (prev k s) nf' sv2 /\ is_root k s = false /\ k < length (txns s) /\
    drop_to (sp k s) (saves (s_db s)) = Some ((sp k s, snap) :: sv2) /\
    NoDup (map fst ((sp k s, snap) :: sv2)) /\ active k s = true /\ active r s = true /\
    c_closed s = false /\ is_root r s = true.
Proof.
  intros s p r k HR Hr Hk.
  destruct (R_root_some _ _ _ HR Hr) as (nf & rs & Hst & Hroot & Hch & Hact & Hcl & Hnin).
  rewrite Hk in Hch. inversion Hch; subst.
  pose proof (R_names _ _ HR) as Nn.
  match goal with H : _ ++ _ = saves (s_db s) |- _ => rewrite <- H in Nn end.
  rewrite map_app in Nn. cbn [map fst] in Nn.
  apply NoDup_app_head in Nn. destruct Nn as [N1 N2].
  exists snap, fr, rs, sv1, sv2. repeat split; auto.
  - apply drop_to_app. auto.
  - eapply R_nested_active; eauto.
Qed.

Lemma R_nested_end : forall s p r k snap nf' rs c d' cur',
  R s p -> c_root s = Some r -> c_nested s = Some k ->
  p_stack p = (k, snap) :: nf' ++ [(r, rs)] ->
  committed d' = committed (s_db s) -> work d' = cur' ->
  chain s (prev k s) nf' (saves d') -> NoDup (map fst (saves d')) ->
  (forall e, In e (saves d') -> In e (saves (s_db s))) ->
  R (set_nested (prev k s) (set_active k false (add_out (c, true) (set_db d' s))))
    (set_stack (nf' ++ [(r, rs)]) cur' p).
Proof.
  intros s p r k snap nf' rs c d' cur' HR Hr Hk Hst Hco Hw Hch Hnn Hin.
  destruct (R_root_some _ _ _ HR Hr) as (nf & rs0 & Hst0 & Hroot & Hch0 & Hact & Hcl & Hnin).
  set (s3 := set_nested _ _).
  assert (SB : same_but s s3).
  { unfold s3. eapply sb_trans; [apply sb_set_db|]. eapply sb_trans; [apply sb_add_out|].
    eapply sb_trans; [apply sb_set_active|apply sb_set_nested]. }
  pose proof (R_nodup _ _ HR) as ND. rewrite Hst in ND. cbn [map fst] in ND. apply NoDup_cons_iff in ND. destruct ND as [N1 N2].
  apply (R_after s s3 p _ HR SB); try reflexivity.
  - intros j. unfold s3. norm. rewrite (R_active _ _ HR). unfold live. cbn [set_stack p_stack]. rewrite Hst.
    cbn [existsb fst]. destruct (Nat.eqb_spec j k).
    + subst j. rewrite Nat.eqb_refl. cbn. symmetry. apply not_true_is_false. intro X.
      change (live k (set_stack (nf' ++ [(r, rs)]) cur' p) = true) in X. apply live_in in X. auto.
    + rewrite (proj2 (Nat.eqb_neq k j)) by auto. cbn. rewrite andb_true_r. reflexivity.
  - cbn. rewrite <- (R_closed _ _ HR), Hcl. discriminate.
  - unfold s3. norm. rewrite Hco. apply (R_committed _ _ HR).
  - unfold s3. norm. auto.
  - unfold frames, s3. norm. rewrite Hr. exists nf', rs. repeat split.
    + norm. auto.
    + eapply chain_sb; [exact Hch|]. exact SB.
  - cbn. auto.
  - unfold s3. norm. auto.
  - unfold s3. norm. intros e He. apply (R_seq _ _ HR), Hin, He.
  - unfold s3. norm. rewrite forallb_app, (R_out _ _ HR). reflexivity.
Qed.

Lemma below_head : forall k snap rest, below k ((k, snap) :: rest) = rest.
Proof. intros. cbn. rewrite Nat.eqb_refl. reflexivity. Qed.

Lemma commit_handle_inner : forall k p fr, below k (p_stack p) = fr -> fr <> [] ->
  commit_handle k p = set_stack fr (p_cur p) p.
Proof. intros. unfold commit_handle. rewrite H. destruct fr; [contradiction|reflexivity]. Qed.
Lemma rollback_handle_inner : forall k p fr, below k (p_stack p) = fr -> fr <> [] ->
  rollback_handle k p = (false, set_stack fr (snap_of k (p_stack p) (p_cur p)) p).
Proof. intros. unfold rollback_handle. rewrite H. destruct fr; [contradiction|reflexivity]. Qed.
Lemma app_one_not_nil : forall A (l : list A) x, l ++ [x] <> [].
Proof. intros A l x H. destruct l; discriminate. Qed.

Lemma nested_do_commit_R : forall s p r k, R s p -> c_root s = Some r -> c_nested s = Some k ->
  ctx_bad p = false ->
  exists s', nested_do_commit k s = (Ok, s') /\ R s' (commit_handle k p) /\ same_but s s'.
Proof.
  intros s p r k HR Hr Hk Hb.
  destruct (R_top_nested _ _ _ _ HR Hr Hk) as (snap & nf' & rs & sv1 & sv2 & Hst & Hsv & Hch & Hkr & Hkl & Hdrop & Hnn & Hak & Har & Hcl & Hrr).
  unfold nested_do_commit. rewrite Hak. unfold bind at 1. unfold finally, sql. unfold bind at 1.
  rewrite (R_guard_ok _ _ _ HR Hr Hb). unfold emit. cbn [exec_cmd]. rewrite Hdrop.
  unfold deact_nested. norm. rewrite Hk. cbn [opt_is]. rewrite Nat.eqb_refl.
  eexists. split; [reflexivity|]. split.
  - rewrite (commit_handle_inner k p (nf' ++ [(r, rs)])) by (rewrite ?Hst, ?below_head; auto using app_one_not_nil).
    norm. eapply R_nested_end; eauto; cbn [committed work saves].
    + apply (R_work _ _ HR).
    + inversion Hnn; auto.
    + intros e He. rewrite Hsv. apply in_or_app. right. right. auto.
  - norm. eapply sb_trans; [apply sb_set_db|]. eapply sb_trans; [apply sb_add_out|].
    eapply sb_trans; [apply sb_set_active|apply sb_set_nested].
Qed.

Lemma nested_close_impl_R : forall s p r k w, R s p -> c_root s = Some r -> c_nested s = Some k ->
  ctx_bad p = false ->
  exists s', nested_close_impl k w s = (Ok, s') /\ R s' (snd (rollback_handle k p)) /\
             fst (rollback_handle k p) = false.
Proof.
  intros s p r k w HR Hr Hk Hb.
  destruct (R_top_nested _ _ _ _ HR Hr Hk) as (snap & nf' & rs & sv1 & sv2 & Hst & Hsv & Hch & Hkr & Hkl & Hdrop & Hnn & Hak & Har & Hcl & Hrr).
  unfold nested_close_impl, finally. rewrite Hak. unfold inst_active. rewrite Hr, Har, Hcl. cbn [andb].
  unfold sql. unfold bind at 1.
  rewrite (R_guard_ok _ _ _ HR Hr Hb). unfold emit. cbn [exec_cmd]. rewrite Hdrop.
  unfold bind, deact_nested. norm. rewrite Hk. cbn [opt_is]. rewrite Nat.eqb_refl.
  eexists. split; [reflexivity|]. split.
  - rewrite (rollback_handle_inner k p (nf' ++ [(r, rs)])) by (rewrite ?Hst, ?below_head; auto using app_one_not_nil).
    rewrite Hst. cbn [snap_of snd]. rewrite Nat.eqb_refl.
    norm. eapply R_nested_end; eauto; cbn [committed work saves].
    + apply chain_stale. auto.
    + intros e He. rewrite Hsv. apply in_or_app. right. auto.
  - rewrite (rollback_handle_inner k p (nf' ++ [(r, rs)])) by (rewrite ?Hst, ?below_head; auto using app_one_not_nil).
    reflexivity.
Qed.

(* ---- operations on an ended handle, inside the guard ---- *)
Lemma R_same : forall s s' p, R s p -> same_but s s' -> c_root s' = c_root s -> c_nested s' = c_nested s ->
  s_db s' = s_db s -> (forall j, active j s' = active j s) -> forallb snd (s_out s') = true -> R s' p.
Proof.
  intros s s' p HR SB Hr Hn Hd Ha Ho. apply (R_after s s' p p HR SB); auto; try rewrite Hd; try apply HR.
  - intros k. rewrite Ha. apply HR.
  - eapply frames_sb; eauto; [apply HR|congruence].
Qed.

Lemma R_not_installed : forall s p k, R s p -> live k p = false ->
  opt_is (c_root s) k = false /\ opt_is (c_nested s) k = false /\ active k s = false.
Proof.
  intros s p k HR Hl. rewrite <- (R_active _ _ HR) in Hl. repeat split; auto.
  - destruct (c_root s) as [r|] eqn:Hr; auto. cbn. destruct (Nat.eqb_spec r k); auto. subst.
    destruct (R_root_some _ _ _ HR Hr) as (_ & _ & _ & _ & _ & A & _). congruence.
  - destruct (c_nested s) as [n|] eqn:Hn; auto. cbn. destruct (Nat.eqb_spec n k); auto. subst.
    rewrite (R_nested_active _ _ _ HR Hn) in Hl. discriminate.
Qed.

Lemma R_no_nested : forall s p, R s p -> spec_in_nested p = false -> c_nested s = None.
Proof.
  intros s p HR Hn. destruct (c_root s) as [r|] eqn:Hr.
  - destruct (R_root_some _ _ _ HR Hr) as (nf & snap & Hst & _ & Hch & _).
    unfold spec_in_nested in Hn. rewrite Hst, app_length in Hn. apply Nat.ltb_ge in Hn.
    destruct nf; [inversion Hch; auto|]. cbn in Hn. lia.
  - apply (R_root_none _ _ HR Hr).
Qed.

Lemma dead_nested_close_R : forall s p k w, R s p -> live k p = false ->
  exists s', nested_close_impl k w s = (Ok, s') /\ R s' p /\ same_but s s'.
Proof.
  intros s p k w HR Hl. destruct (R_not_installed _ _ _ HR Hl) as (A & B & C).
  unfold nested_close_impl, finally. rewrite C. cbn [andb]. unfold bind, deact_nested. norm. rewrite B.
  assert (SB : same_but s (set_active k false s)) by apply sb_set_active.
  assert (Ha : forall j, active j (set_active k false s) = active j s).
  { intros j. norm. destruct (Nat.eqb_spec j k); [subst; rewrite C; reflexivity|apply andb_true_r]. }
  destruct w.
  - eexists. split; [reflexivity|]. split.
    + apply (R_same s); norm; auto using (R_out _ _ HR). eapply sb_trans; [exact SB|apply sb_add_warn].
    + eapply sb_trans; [exact SB|apply sb_add_warn].
  - eexists. split; [reflexivity|]. split; [|exact SB].
    apply (R_same s); norm; auto using (R_out _ _ HR).
Qed.

Lemma dead_root_close_R : forall s p k t, R s p -> live k p = false -> spec_in_nested p = false ->
  exists s', root_close_impl k t s = (Ok, s') /\ R s' p /\ same_but s s'.
Proof.
  intros s p k t HR Hl Hn. destruct (R_not_installed _ _ _ HR Hl) as (A & B & C).
  rewrite (root_close_impl_inactive _ _ _ C). unfold bind at 1. unfold cancel_nested.
  rewrite (R_no_nested _ _ HR Hn). unfold root_close_fin, bind. rewrite C. cbn [orb].
  destruct t.
  - unfold deact_root. rewrite C, A. unfold warn. norm. rewrite A. eexists. split; [reflexivity|]. split.
    + apply (R_same s); norm; auto using (R_out _ _ HR), sb_add_warn.
    + apply sb_add_warn.
  - rewrite A. exists s. split; [reflexivity|]. split; [auto|apply sb_refl].
Qed.

Lemma dead_close_R : forall s p k (b : bool), R s p -> k < length (txns s) -> live k p = false ->
  ok_dead_root k p = true ->
  exists s', (if b then t_rollback k s else t_close k s) = (Ok, s') /\ R s' p /\ same_but s s'.
Proof.
  intros s p k b HR Hk Hl Hg. unfold t_rollback, t_close. rewrite (R_kinds _ _ HR k Hk).
  unfold ok_dead_root in Hg. rewrite Hl in Hg. cbn [orb] in Hg.
  destruct (kind_root k p); cbn in Hg.
  - apply negb_true_iff in Hg. destruct b; apply dead_root_close_R; auto.
  - destruct b; apply dead_nested_close_R; auto.
Qed.

(* ---- ending a live handle inside the guard ---- *)
Lemma below_in_nonnil : forall k nf x, In k (map fst nf) -> below k (nf ++ [x]) <> [].
Proof.
  induction nf as [|[j sn] nf]; cbn; intros x H; [contradiction|].
  destruct (Nat.eqb_spec j k); [apply app_one_not_nil|]. destruct H; [contradiction|auto].
Qed.

Inductive live_case (s : st) (p : spec) (k : nat) : Prop :=
| lc_root : c_root s = Some k -> is_root k s = true -> below k (p_stack p) = [] -> live_case s p k
| lc_top : forall r, c_root s = Some r -> c_nested s = Some k -> is_root k s = false ->
    ctx_bad p = false -> live_case s p k.

Lemma live_cases : forall s p k, R s p -> live k p = true -> ok_end k p = true -> live_case s p k.
Proof.
  intros s p k HR Hl Hg. destruct (c_root s) as [r|] eqn:Hr.
  2:{ destruct (R_root_none _ _ HR Hr) as [Hst _]. unfold live in Hl. rewrite Hst in Hl. discriminate. }
  destruct (R_root_some _ _ _ HR Hr) as (nf & rs & Hst & Hroot & Hch & Hact & Hcl & Hnin).
  destruct (Nat.eq_dec k r) as [->|Hne].
  - apply lc_root; auto. rewrite Hst. apply below_last. auto.
  - assert (Hin : In k (map fst nf)).
    { apply live_in in Hl. rewrite Hst, map_app in Hl. apply in_app_or in Hl. destruct Hl as [|[|[]]]; auto.
      cbn in H. congruence. }
    unfold ok_end in Hg. rewrite Hl in Hg. cbn [negb orb] in Hg.
    unfold is_root_frame in Hg. rewrite Hst in Hg.
    pose proof (below_in_nonnil k nf (r, rs) Hin) as Hb.
    destruct (below k (nf ++ [(r, rs)])); [contradiction|]. cbn [orb] in Hg.
    apply andb_true_iff in Hg. destruct Hg as [Ht Hc]. apply negb_true_iff in Hc.
    unfold top_is in Ht. rewrite Hst in Ht. destruct nf as [|[j sn] nf]; [contradiction|].
    cbn in Ht. apply Nat.eqb_eq in Ht. subst j. inversion Hch; subst.
    eapply lc_top; eauto.
Qed.

Lemma live_commit_R : forall s p k, R s p -> WF s -> live k p = true -> ok_end k p = true ->
  exists s', t_commit k s = (Ok, s') /\ R s' (commit_handle k p) /\ same_but s s'.
Proof.
  intros s p k HR W Hl Hg. destruct (live_cases _ _ _ HR Hl Hg) as [Hr Hk Hb|r Hr Hn Hk Hb];
    unfold t_commit; rewrite Hk.
  - unfold commit_handle. rewrite Hb. apply root_do_commit_R; auto.
  - eapply nested_do_commit_R; eauto.
Qed.

Lemma live_close_R : forall s p k (b : bool), R s p -> WF s -> live k p = true -> ok_end k p = true ->
  exists res s', (if b then t_rollback k s else t_close k s) = (res, s') /\
                 R s' (snd (rollback_handle k p)) /\ res_ok res (fst (rollback_handle k p)).
Proof.
  intros s p k b HR W Hl Hg. destruct (live_cases _ _ _ HR Hl Hg) as [Hr Hk Hb|r Hr Hn Hk Hb];
    unfold t_rollback, t_close; rewrite Hk.
  - unfold rollback_handle. rewrite Hb. cbn [fst snd]. destruct b; apply root_close_impl_R; auto.
  - destruct b.
    + destruct (nested_close_impl_R _ _ _ _ true HR Hr Hn Hb) as (s' & A & B & C).
      exists Ok, s'. rewrite C. split; [exact A|split; [exact B|reflexivity]].
    + destruct (nested_close_impl_R _ _ _ _ false HR Hr Hn Hb) as (s' & A & B & C).
      exists Ok, s'. rewrite C. split; [exact A|split; [exact B|reflexivity]].
Qed.

(* ---- remaining state changes ---- *)
Lemma R_insert : forall s q v, R s q ->
  R (set_db (db_insert 0%N [v] (s_db s)) s) (set_stack (p_stack q) (tbl_insert 0%N [v] (p_cur q)) q).
Proof.
  intros s q v HR. apply (R_after s _ q _ HR (sb_set_db _ s)); try reflexivity; norm; cbn [db_insert committed work saves];
    try apply HR.
  - rewrite (R_work _ _ HR). reflexivity.
  - pose proof (R_frames _ _ HR) as F. unfold frames in *. norm. destruct (c_root s); auto.
    destruct F as (nf & snap & A & B & C). exists nf, snap. repeat split; auto.
    cbn [db_insert saves]. eapply chain_sb; eauto. apply sb_set_db.
Qed.

Definition close_spec (q : spec) : spec := set_pclosed true q.

Lemma R_set_closed : forall s q, R s q -> p_stack q = [] -> R (set_closed true s) (close_spec q).
Proof.
  intros s q HR Hst. pose proof HR as []. constructor; cbn [close_spec set_pclosed p_committed p_cur p_stack p_kinds p_ctx p_closed p_beginfail p_rbfail].
  - norm. exact R_len0.
  - intros k Hk. norm. norm in Hk. apply R_kinds0. exact Hk.
  - intros k. norm. apply R_active0.
  - norm. auto.
  - auto.
  - norm. auto.
  - norm. auto.
  - unfold frames in *. norm. cbn [p_stack close_spec set_pclosed]. destruct (c_root s); auto.
    destruct R_frames0 as (nf & snap & A & B & C). exists nf, snap. repeat split; auto.
    eapply chain_ext; eauto; intros; norm; auto.
  - auto.
  - norm. auto.
  - intros e H. norm. norm in H. auto.
  - norm. eapply ctxrel_ext; eauto; intros; norm; auto.
  - intros k Hk. norm. norm in Hk. auto.
  - norm. auto.
  - norm. exact R_nb0.
  - norm. exact R_bfail0.
  - norm. exact R_rbfail0.
Qed.

Definition enter_spec (k : nat) (p : spec) : spec := set_pctx (k :: p_ctx p) p.
Definition exit_spec (q : spec) : spec := set_pctx (tl (p_ctx q)) q.

Lemma R_enter : forall s p k, R s p -> k < length (txns s) -> existsb (Nat.eqb k) (p_ctx p) = false ->
  R (set_ctx (Some k) (upd_txn k (set_ctx_t true (c_ctx s)) s)) (enter_spec k p).
Proof.
  intros s p k HR Hk Hin. pose proof HR as [].
  assert (Hnin : ~ In k (p_ctx p)) by (intro X; apply existsb_in in X; congruence).
  constructor; cbn [enter_spec set_pctx p_committed p_cur p_stack p_kinds p_ctx p_closed p_beginfail p_rbfail].
  - norm. exact R_len0.
  - intros j Hj. norm. norm in Hj. apply R_kinds0. exact Hj.
  - intros j. norm. apply R_active0.
  - norm. exact R_closed0.
  - exact R_closed_empty0.
  - norm. auto.
  - norm. auto.
  - unfold frames in *. norm. cbn [p_stack enter_spec set_pctx]. destruct (c_root s); auto.
    destruct R_frames0 as (nf & snap & A & B & C). exists nf, snap. repeat split; auto.
    + norm. auto.
    + eapply chain_ext; eauto; intros; norm; auto.
  - auto.
  - norm. auto.
  - intros e H. norm. norm in H. auto.
  - norm. constructor; [norm; auto|auto|].
    rewrite outer_set_ctx, outer_set_ctx_t_same by auto.
    eapply ctxrel_ext; [exact R_ctx0|norm; lia|].
    intros j Hj. rewrite outer_set_ctx, outer_set_ctx_t_other; auto. intro; subst; auto.
  - intros j Hj. norm in Hj. cbn [existsb]. destruct (Nat.eqb_spec j k).
    + subst. rewrite subject_set_ctx, subject_set_ctx_t_same by auto. reflexivity.
    + rewrite subject_set_ctx, subject_set_ctx_t_other by auto. cbn. apply R_subject0. auto.
  - norm. auto.
  - norm. exact R_nb0.
  - norm. exact R_bfail0.
  - norm. exact R_rbfail0.
Qed.

Lemma R_exit_fin : forall s q k l, R s q -> p_ctx q = k :: l ->
  R (upd_txn k (set_ctx_t false None) (set_ctx (outer k s) s)) (exit_spec q).
Proof.
  intros s q k l HR Hc. pose proof HR as [].
  rewrite Hc in R_ctx0. inversion R_ctx0; subst.
  constructor; cbn [exit_spec set_pctx p_committed p_cur p_stack p_kinds p_ctx p_closed p_beginfail p_rbfail].
  - norm. exact R_len0.
  - intros j Hj. norm. norm in Hj. apply R_kinds0. exact Hj.
  - intros j. norm. apply R_active0.
  - norm. exact R_closed0.
  - exact R_closed_empty0.
  - norm. auto.
  - norm. auto.
  - unfold frames in *. norm. cbn [p_stack exit_spec set_pctx]. destruct (c_root s); auto.
    destruct R_frames0 as (nf & snap & A & B & C). exists nf, snap. repeat split; auto.
    + norm. auto.
    + eapply chain_ext; eauto; intros; norm; auto.
  - auto.
  - norm. auto.
  - intros e He. norm. norm in He. auto.
  - rewrite Hc. cbn [tl]. norm.
    eapply ctxrel_ext; [eassumption|norm; lia|].
    intros j Hj. rewrite outer_set_ctx_t_other; norm; auto. intro; subst; auto.
  - intros j Hj. norm in Hj. rewrite Hc. cbn [tl]. destruct (Nat.eqb_spec j k).
    + subst. rewrite subject_set_ctx_t_same by (norm; auto). symmetry. apply not_true_is_false.
      intro X. apply existsb_in in X. auto.
    + rewrite subject_set_ctx_t_other by auto. norm. rewrite (R_subject0 j Hj), Hc. cbn.
      rewrite (proj2 (Nat.eqb_neq j k)) by auto. reflexivity.
  - norm. auto.
  - norm. exact R_nb0.
  - norm. exact R_bfail0.
  - norm. exact R_rbfail0.
Qed.

(* ---- one operation ---- *)
Lemma stack_root : forall s p, R s p -> (p_stack p = [] <-> c_root s = None).
Proof.
  intros s p HR. split; intro H.
  - destruct (c_root s) eqn:Hr; auto. destruct (R_root_some _ _ _ HR Hr) as (nf & rs & Hst & _).
    rewrite H in Hst. destruct nf; discriminate.
  - apply (R_root_none _ _ HR H).
Qed.

Lemma sim_begin : forall s p b p', R s p -> sstep OBegin p = Some (b, p') ->
  exists r s', begin s = (r, s') /\ R s' p' /\ res_ok r b.
Proof.
  intros s p b p' HR H. cbn in H. unfold begin.
  destruct (c_root s) as [r|] eqn:Hr.
  - assert (Hs : p_stack p <> []) by (intro X; apply (stack_root _ _ HR) in X; congruence).
    destruct (p_stack p) eqn:E; [contradiction|]. cbn in H. rewrite orb_true_r in H. inversion H; subst.
    eexists _, s. split; [reflexivity|]. split; [auto|reflexivity].
  - rewrite (proj2 (stack_root _ _ HR) Hr) in H. cbn in H. rewrite orb_false_r in H.
    destruct (blocked p) eqn:Hb.
    + inversion H; subst. destruct (R_blocked_new_root _ _ HR Hb) as [e ->].
      eexists _, s. split; [reflexivity|]. split; [auto|reflexivity].
    + destruct (R_new_root_any _ _ HR Hr Hb) as (r & s' & A & B & C & _). rewrite A.
      destruct (begin_root p) as [b0 q]. inversion H; subst. cbn in *. eauto.
Qed.

Lemma ctx_bad_same : forall p q, p_ctx q = p_ctx p -> p_stack q = p_stack p -> ctx_bad q = ctx_bad p.
Proof. intros p q A B. unfold ctx_bad, live. rewrite A, B. reflexivity. Qed.

Lemma sim_nested : forall s p b p', R s p -> sstep ONested p = Some (b, p') ->
  exists r s', begin_nested s = (r, s') /\ R s' p' /\ res_ok r b.
Proof.
  intros s p b p' HR H. cbn in H. destruct (blocked p) eqn:Hb.
  - inversion H; subst. destruct (R_blocked_nested _ _ HR Hb) as [e ->].
    eexists _, s. split; [reflexivity|]. split; [auto|reflexivity].
  - pose proof Hb as Hb'. apply orb_false_elim in Hb'. destruct Hb' as [Hc Hx].
    unfold begin_nested, bind, autobegin_if_none, begin. destruct (c_root s) as [r|] eqn:Hr.
    + destruct (R_root_some _ _ _ HR Hr) as (nf & rs & Hst & _).
      assert (E : autobegin_spec p = (false, p)) by (unfold autobegin_spec; rewrite Hst; destruct nf; reflexivity).
      rewrite E in H. inversion H; subst. destruct (R_new_nested _ _ _ HR Hr Hx) as (s' & A & B). rewrite A.
      eexists _, s'. split; [reflexivity|]. split; [auto|reflexivity].
    + rewrite (R_nb _ _ HR).
      destruct (R_new_root_any _ _ HR Hr Hb) as (r & s1 & A & B & C & D). rewrite A.
      assert (E : autobegin_spec p = begin_root p).
      { unfold autobegin_spec. rewrite (proj2 (stack_root _ _ HR) Hr). reflexivity. }
      rewrite E in H. destruct (begin_root p) as [b0 q] eqn:BR. cbn [fst snd] in *.
      destruct r as [| e |]; cbn in C; try contradiction; subst b0.
      * inversion H; subst. destruct (c_root s1) as [r1|] eqn:Hr1; [|exfalso; apply D; auto].
        destruct (R_new_nested _ _ _ B Hr1) as (s' & A' & B').
        { unfold begin_root in BR. destruct (p_beginfail p) as [|[x|x|]]; inversion BR; subst.
          rewrite (ctx_bad_open_frame _ _ _ HR). auto. }
        rewrite A'. eexists _, s'. split; [reflexivity|]. split; [auto|reflexivity].
      * inversion H; subst. eexists _, s1. split; [reflexivity|]. split; [auto|reflexivity].
Qed.

Lemma sim_ins : forall s p v b p', R s p -> sstep (OIns v) p = Some (b, p') ->
  exists r s', ins v s = (r, s') /\ R s' p' /\ res_ok r b.
Proof.
  intros s p v b p' HR H. cbn in H. destruct (blocked p) eqn:Hb.
  - inversion H; subst. destruct (R_blocked_ins _ _ v HR Hb) as [e ->].
    eexists _, s. split; [reflexivity|]. split; [auto|reflexivity].
  - destruct (R_exec_guard _ _ HR Hb) as (r & s1 & A & B & C & _). unfold ins, bind. rewrite A.
    destruct (autobegin_spec p) as [b0 q]. cbn [fst snd] in *.
    destruct r as [| e |]; cbn in C; try contradiction; subst b0; inversion H; subst.
    + eexists _, _. split; [reflexivity|]. split; [apply R_insert; auto|reflexivity].
    + eexists _, s1. split; [reflexivity|]. split; [auto|reflexivity].
Qed.

Lemma sim_conn_commit : forall s p b p', R s p -> WF s -> sstep OCommit p = Some (b, p') ->
  exists r s', conn_commit s = (r, s') /\ R s' p' /\ res_ok r b.
Proof.
  intros s p b p' HR W H. cbn in H. inversion H; subst. unfold conn_commit.
  destruct (c_root s) as [r|] eqn:Hr.
  - destruct (R_root_some _ _ _ HR Hr) as (nf & rs & Hst & Hroot & _).
    unfold t_commit. rewrite Hroot. destruct (root_do_commit_R _ _ _ HR W Hr) as (s' & A & B & _).
    rewrite A. eexists _, s'. split; [reflexivity|]. split; [|reflexivity].
    rewrite Hst. destruct nf; exact B.
  - rewrite (proj2 (stack_root _ _ HR) Hr). eexists _, s. split; [reflexivity|]. split; [auto|reflexivity].
Qed.

Lemma rollback_conn_live : forall p, p_stack p <> [] -> rollback_conn p = (p_rbfail p, rollback_all p).
Proof. intros. unfold rollback_conn. destruct (p_stack p); [contradiction|reflexivity]. Qed.

Lemma sim_conn_rollback : forall s p b p', R s p -> WF s -> sstep ORollback p = Some (b, p') ->
  exists r s', conn_rollback s = (r, s') /\ R s' p' /\ res_ok r b.
Proof.
  intros s p b p' HR W H. cbn in H. unfold conn_rollback.
  destruct (c_root s) as [r|] eqn:Hr.
  - destruct (R_root_some _ _ _ HR Hr) as (nf & rs & Hst & Hroot & _).
    rewrite rollback_conn_live in H by (rewrite Hst; apply app_one_not_nil). inversion H; subst.
    unfold t_rollback. rewrite Hroot. destruct (root_close_impl_R _ _ _ true HR W Hr) as (res & s' & A & B & C).
    rewrite A. eauto.
  - unfold rollback_conn in H. rewrite (proj2 (stack_root _ _ HR) Hr) in H. inversion H; subst.
    eexists _, s. split; [reflexivity|]. split; [auto|reflexivity].
Qed.

Lemma sim_conn_close : forall s p b p', R s p -> WF s -> sstep OClose p = Some (b, p') ->
  exists r s', conn_close s = (r, s') /\ R s' p' /\ res_ok r b.
Proof.
  intros s p b p' HR W H. cbn in H. unfold conn_close, bind.
  destruct (c_root s) as [r|] eqn:Hr.
  - destruct (R_root_some _ _ _ HR Hr) as (nf & rs & Hst & Hroot & _).
    rewrite rollback_conn_live in H by (rewrite Hst; apply app_one_not_nil).
    unfold t_close. rewrite Hroot. destruct (root_close_impl_R _ _ _ false HR W Hr) as (res & s' & A & B & C).
    rewrite A. destruct (p_rbfail p); destruct res as [| e |]; cbn in C; try discriminate; try contradiction;
      inversion H; subst.
    + eexists _, s'. split; [reflexivity|]. split; [auto|reflexivity].
    + eexists _, _. split; [reflexivity|]. split; [|reflexivity]. apply (R_set_closed _ _ B). reflexivity.
  - pose proof (proj2 (stack_root _ _ HR) Hr) as Hst. unfold rollback_conn in H. rewrite Hst in H.
    inversion H; subst. eexists _, _. split; [reflexivity|]. split; [|reflexivity].
    apply (R_set_closed _ _ HR Hst).
Qed.

Lemma sim_t_commit : forall s p k b p', R s p -> WF s -> gstep (TCommit k) p = true ->
  sstep (TCommit k) p = Some (b, p') ->
  exists r s', t_commit k s = (r, s') /\ R s' p' /\ res_ok r b.
Proof.
  intros s p k b p' HR W Hg H. unfold sstep in H. unfold gstep in Hg. destruct (k <? p_next p); [|discriminate].
  destruct (live k p) eqn:Hl; inversion H; subst.
  - destruct (live_commit_R _ _ _ HR W Hl Hg) as (s' & A & B & _). rewrite A.
    eexists _, s'. split; [reflexivity|]. split; [auto|reflexivity].
  - destruct (R_not_installed _ _ _ HR Hl) as (_ & _ & C).
    destruct (t_commit_inactive _ _ C) as [e ->]. eexists _, s. split; [reflexivity|]. split; [auto|reflexivity].
Qed.

Lemma sim_t_close : forall s p k (c : bool) b p', R s p -> WF s ->
  k < p_next p -> ok_end k p && ok_dead_root k p = true ->
  Some (if live k p then rollback_handle k p else (false, p)) = Some (b, p') ->
  exists r s', (if c then t_rollback k s else t_close k s) = (r, s') /\ R s' p' /\ res_ok r b.
Proof.
  intros s p k c b p' HR W Hk Hg H. apply andb_true_iff in Hg. destruct Hg as [G1 G2].
  destruct (live k p) eqn:Hl.
  - destruct (live_close_R _ _ _ c HR W Hl G1) as (res & s' & A & B & C). rewrite A.
    destruct (rollback_handle k p) as [b0 q]. inversion H; subst. cbn in *. eauto.
  - inversion H; subst. destruct (dead_close_R s p' k c HR) as (s' & A & B & C); auto.
    { rewrite (R_len _ _ HR). auto. }
    rewrite A. eexists _, s'. split; [reflexivity|]. split; [auto|reflexivity].
Qed.

Lemma sim_exit : forall s p k e b p', R s p -> WF s -> gstep (TExit k e) p = true ->
  sstep (TExit k e) p = Some (b, p') ->
  exists r s', t_exit k e s = (r, s') /\ R s' p' /\ res_ok r b.
Proof.
  intros s p k e b p' HR W Hg H. unfold sstep in H. unfold gstep in Hg.
  destruct (k <? p_next p) eqn:Hk; [|discriminate]. apply Nat.ltb_lt in Hk.
  destruct (p_ctx p) as [|j l] eqn:Hc; [discriminate|].
  apply andb_true_iff in Hg. destruct Hg as [Hg G3]. apply andb_true_iff in Hg. destruct Hg as [G1 G2].
  apply Nat.eqb_eq in G1. subst j.
  pose proof (R_ctx_top _ _ HR) as T. rewrite Hc in T. destruct (c_ctx s) as [k'|] eqn:Hcs; [|contradiction].
  destruct T as [-> Hkl].
  assert (Hsub : subject k s = true).
  { rewrite (R_subject _ _ HR k Hkl), Hc. cbn. rewrite Nat.eqb_refl. reflexivity. }
  unfold t_exit. rewrite Hsub, Hcs. cbn [opt_is negb orb]. rewrite Nat.eqb_refl. cbn [negb].
  rewrite (R_active _ _ HR).
  destruct (live k p) eqn:Hl.
  - destruct e; cbn [negb andb].
    + (* exception: rollback *)
      unfold finally. rewrite (R_active _ _ HR), Hl. cbn [negb].
      destruct (live_close_R _ _ _ true HR W Hl G2) as (res & s1 & A & B & C). cbn iota in A. rewrite A.
      destruct (rollback_handle k p) as [b0 q] eqn:RH. inversion H; subst b p'. clear H. cbn [fst snd] in *.
      assert (E : p_ctx q = k :: l).
      { unfold rollback_handle in RH. destruct (below k (p_stack p)); inversion RH; subst; cbn; auto. }
      pose proof (R_exit_fin _ _ _ _ B E) as X. unfold exit_spec in X.
      eexists _, _. split; [reflexivity|]. split; [exact X|exact C].
    + unfold finally. inversion H; subst b p'; clear H.
      destruct (live_commit_R _ _ _ HR W Hl G2) as (s1 & A & B & C). rewrite A.
      eexists _, _. split; [reflexivity|]. split; [|reflexivity].
      assert (E : p_ctx (commit_handle k p) = k :: l).
      { unfold commit_handle. destruct (below k (p_stack p)); cbn; auto. }
      pose proof (R_exit_fin _ _ _ _ B E) as X. unfold exit_spec in X. exact X.
  - inversion H; subst b p'; clear H.
    rewrite andb_false_r. unfold finally. rewrite (R_active _ _ HR), Hl. cbn [negb].
    destruct (R_not_installed _ _ _ HR Hl) as (I1 & I2 & _).
    assert (Hi : installed k s = false) by (unfold installed; destruct (is_root k s); auto).
    rewrite Hi.
    destruct (dead_close_R s p k false HR Hkl Hl G3) as (s1 & A & B & C). cbn iota in A. rewrite A.
    eexists _, _. split; [reflexivity|]. split; [|reflexivity].
    pose proof (R_exit_fin _ _ _ _ B Hc) as X. unfold exit_spec in X. exact X.
Qed.

Lemma sim_op : forall o s p b p', R s p -> WF s -> gstep o p = true -> sstep o p = Some (b, p') ->
  exists r s', run_op o s = (r, s') /\ R s' p' /\ res_ok r b.
Proof.
  intros o s p b p' HR W Hg H. destruct o; cbn [run_op].
  - eapply sim_begin; eauto.
  - eapply sim_nested; eauto.
  - eapply sim_ins; eauto.
  - eapply sim_conn_commit; eauto.
  - eapply sim_conn_rollback; eauto.
  - eapply sim_conn_close; eauto.
  - eapply sim_t_commit; eauto.
  - unfold sstep in H. unfold gstep in Hg. destruct (k <? p_next p) eqn:Hk; [|discriminate].
    apply Nat.ltb_lt in Hk. apply (sim_t_close s p k true b p' HR W Hk Hg H).
  - unfold sstep in H. unfold gstep in Hg. destruct (k <? p_next p) eqn:Hk; [|discriminate].
    apply Nat.ltb_lt in Hk. apply (sim_t_close s p k false b p' HR W Hk Hg H).
  - unfold sstep in H. unfold gstep in Hg. destruct (k <? p_next p) eqn:Hk; [|discriminate].
    apply Nat.ltb_lt in Hk. inversion H; subst. apply negb_true_iff in Hg.
    eexists _, _. split; [reflexivity|]. split; [|reflexivity].
    apply R_enter; auto. rewrite (R_len _ _ HR). auto.
  - eapply sim_exit; eauto.
  - cbn in H. inversion H; subst. eexists _, _. split; [reflexivity|]. split; [|reflexivity].
    eapply R_env; eauto; norm; auto using (R_nb _ _ HR), (R_rbfail _ _ HR).
  - cbn in H. inversion H; subst. eexists _, _. split; [reflexivity|]. split; [|reflexivity].
    eapply R_env; eauto; norm; auto using (R_nb _ _ HR), (R_bfail _ _ HR).
Qed.

(* one step of a guarded history *)
Lemma sim_step : forall o s p, R s p -> WF s ->
  match sstep o p with
  | None => step o s = None
  | Some (b, p') => gstep o p = true ->
      exists r s', step o s = Some (r, s') /\ R s' p' /\ res_ok r b
  end.
Proof.
  intros o s p HR W. pose proof (R_clear_log _ _ HR) as HR0. pose proof (WF_clear_log _ W) as W0.
  unfold step.
  assert (Hh : forall k, handle_of o = Some k -> sstep o p = None <-> (k <? length (txns s)) = false).
  { intros k Hk. rewrite (R_len _ _ HR). destruct o; cbn in Hk; inversion Hk; subst; unfold sstep;
      destruct (k <? p_next p); split; intros; congruence. }
  destruct (sstep o p) as [[b p']|] eqn:E.
  - intros Hg. destruct (sim_op o _ p b p' HR0 W0 Hg E) as (r & s' & A & B & C).
    destruct (handle_of o) as [k|] eqn:Hk.
    + destruct (k <? length (txns s)) eqn:Hlt.
      * rewrite A. eauto.
      * apply (Hh k eq_refl) in Hlt. discriminate.
    + rewrite A. eauto.
  - destruct (handle_of o) as [k|] eqn:Hk.
    + rewrite (proj1 (Hh k eq_refl) eq_refl). reflexivity.
    + destruct o; cbn in Hk; try discriminate; cbn in E; discriminate.
Qed.

Lemma R_init : R (init db_empty) (spec_init []).
Proof.
  constructor; cbn; auto; try constructor.
  - intros k Hk. lia.
  - intros k. unfold active, get. cbn. destruct k; reflexivity.
  - intros e [].
  - intros k Hk. lia.
Qed.
