(* C29 - "later operations on the engine work": without a cancellation nothing in the modelled code
   raises CancelledError, so (with the safety lemmas) a block on a safe engine runs to completion *)
From Coq Require Import List ZArith Bool Arith Lia.
Import ListNotations.
From SAV.engine Require Import Async AsyncConn AsyncExec.
Open Scope Z_scope.

Definition bad (r : res) : Prop := fst r = Raise ECancelled.
Notation ncs := (nc_safe ECancelled bad).

Lemma nc_mret v s : ncs (mret v s).
Proof. constructor. unfold bad. cbn. discriminate. Qed.
Lemma nc_munit s : ncs (munit s).
Proof. apply nc_mret. Qed.
Lemma nc_mmod f s : ncs (mmod f s).
Proof. constructor. unfold bad. cbn. discriminate. Qed.
Lemma nc_mraise e s : e <> ECancelled -> ncs (mraise e s).
Proof. intros H. constructor. unfold bad. cbn. congruence. Qed.
Lemma nc_mget f s : ncs (f s s) -> ncs (mget f s).
Proof. auto. Qed.
Lemma nc_await_ i s : ncs (await_ i s).
Proof.
  unfold await_. constructor. intros [v|e] H; constructor; unfold bad; cbn; congruence.
Qed.
Lemma nc_mbind m f s : ncs (m s) -> (forall v s1, ncs (f v s1)) -> ncs (mbind m f s).
Proof.
  intros A B. unfold mbind. apply nc_bind; auto. intros [o s1] Hb. cbn. destruct o; auto.
  constructor. exact Hb.
Qed.
Lemma nc_mseq m n s : ncs (m s) -> (forall s1, ncs (n s1)) -> ncs (mseq m n s).
Proof. intros A B. unfold mseq. apply nc_mbind; auto. Qed.
Lemma nc_mtry m h s : ncs (m s) -> (forall e s1, e <> ECancelled -> ncs (h e s1)) -> ncs (mtry m h s).
Proof.
  intros A B. unfold mtry. apply nc_bind; auto. intros [o s1] Hb. cbn. destruct o as [v|e].
  - constructor. exact Hb.
  - apply B. intros ->. apply Hb. reflexivity.
Qed.
Lemma nc_mfinally m fin s : ncs (m s) -> (forall s1, ncs (fin s1)) -> ncs (mfinally m fin s).
Proof.
  intros A B. unfold mfinally. apply nc_bind; auto. intros [o s1] Hb. cbn.
  apply nc_bind; auto. intros [o2 s2] Hb2. cbn. destruct o2; constructor; auto.
Qed.

Lemma nc_spawn req (p : ptree) : ncs p -> ncs (greenlet_spawn no_await req p).
Proof.
  intros H. destruct req.
  - destruct p as [r | i k | inner k].
    + cbn. inversion H; subst. constructor. unfold bad, no_await in *. destruct r as [[v|e] s0]; cbn in *; congruence.
    + eapply nc_peq; [apply peq_sym; apply spawn_transparent_require; exact I|exact H].
    + eapply nc_peq; [apply peq_sym; apply spawn_transparent_require; exact I|exact H].
  - eapply nc_peq; [apply peq_sym; apply spawn_transparent|exact H].
Qed.

Ltac nc :=
  repeat first
    [ match goal with
      | |- ncs (munit _) => apply nc_munit
      | |- ncs (mret _ _) => apply nc_mret
      | |- ncs (mmod _ _) => apply nc_mmod
      | |- ncs (await_ _ _) => apply nc_await_
      | |- ncs (mraise _ _) => apply nc_mraise; congruence
      | |- ncs (mget _ _) => apply nc_mget
      | |- ncs (mseq _ _ _) => apply nc_mseq; [|intros ?]
      | |- ncs (mbind _ _ _) => apply nc_mbind; [|intros ? ?]
      | |- ncs (mfinally _ _ _) => apply nc_mfinally; [|intros ?]
      | |- ncs (mtry _ _ _) => apply nc_mtry; [|intros ? ? ?]
      end
    | match goal with
      | H : ?e <> ECancelled |- context [match ?e with _ => _ end] => is_var e; destruct e; [congruence|..]
      | |- context [match ?x with _ => _ end] => is_var x; destruct x
      | |- context [if ?b then _ else _] => destruct b
      | |- context [match ?x with _ => _ end] => destruct x eqn:?
      end
    | progress cbn beta iota ].

Section NoCancel.
  Variable cf : cfg.

  Lemma nc_terminate ing c s : ncs (terminate ing c s).
  Proof. unfold terminate. destruct ing; nc. Qed.
  Lemma nc_dbapi_rollback c s : ncs (dbapi_rollback c s).
  Proof. unfold dbapi_rollback. nc. Qed.
  Lemma nc_dbapi_commit c s : ncs (dbapi_commit c s).
  Proof. unfold dbapi_commit. nc. Qed.
  Lemma nc_cursor_close ing c s : ncs (cursor_close ing c s).
  Proof. unfold cursor_close. nc. Qed.
  Lemma nc_cursor_execute c st s : ncs (cursor_execute c st s).
  Proof. unfold cursor_execute. nc. Qed.
  Lemma nc_close_connection ing c t s : ncs (close_connection ing c t s).
  Proof. unfold close_connection. nc. apply nc_terminate. Qed.
  Lemma nc_rec_close_impl ing t s : ncs (rec_close_impl ing t s).
  Proof. unfold rec_close_impl. nc. apply nc_close_connection. Qed.
  Lemma nc_rec_close s : ncs (rec_close s).
  Proof. unfold rec_close. nc. apply nc_rec_close_impl. Qed.
  Lemma nc_rec_invalidate ing s : ncs (rec_invalidate ing s).
  Proof. unfold rec_invalidate. nc. apply nc_rec_close_impl. Qed.
  Lemma nc_pool_return s : ncs (pool_return cf s).
  Proof. unfold pool_return, dec_overflow. nc. apply nc_rec_close. Qed.
  Lemma nc_rec_checkin b s : ncs (rec_checkin cf b s).
  Proof. unfold rec_checkin, warn. nc. apply nc_pool_return. Qed.
  Lemma nc_rec_checkin_failed b s : ncs (rec_checkin_failed cf b s).
  Proof. unfold rec_checkin_failed. nc. apply nc_rec_invalidate. apply nc_rec_checkin. Qed.
  Lemma nc_rec_connect s : ncs (rec_connect s).
  Proof. unfold rec_connect. nc. Qed.
  Lemma nc_rec_get_connection s : ncs (rec_get_connection s).
  Proof. unfold rec_get_connection. nc. apply nc_rec_connect. Qed.
  Lemma nc_pool_do_get s : ncs (pool_do_get cf s).
  Proof. unfold pool_do_get, dec_overflow. nc. apply nc_rec_connect. Qed.
  Lemma nc_checkout s : ncs (checkout cf s).
  Proof.
    unfold checkout. nc.
    - apply nc_pool_do_get.
    - apply nc_rec_get_connection.
    - apply nc_rec_checkin_failed.
  Qed.

  Lemma nc_fairy_reset a b c s : ncs (fairy_reset a b c s).
  Proof. unfold fairy_reset. nc. apply nc_dbapi_rollback. Qed.
  Lemma nc_fairy_detach s : ncs (fairy_detach cf s).
  Proof. unfold fairy_detach. nc. apply nc_pool_return. Qed.
  Lemma nc_finalize_except g h e s : e <> ECancelled -> ncs (finalize_except cf g h e s).
  Proof. intros He. unfold finalize_except. nc; try apply nc_rec_invalidate; try apply nc_rec_checkin. Qed.
  Lemma nc_finalize_fairy g t s : ncs (finalize_fairy cf g t s).
  Proof.
    unfold finalize_fairy, warn. nc;
      try apply nc_fairy_reset; try apply nc_fairy_detach; try apply nc_close_connection;
      try apply nc_rec_checkin; try (apply nc_finalize_except; assumption).
  Qed.
  Lemma nc_fairy_invalidate s : ncs (fairy_invalidate cf s).
  Proof. unfold fairy_invalidate, warn. nc; try apply nc_rec_invalidate; apply nc_finalize_fairy. Qed.
  Lemma nc_conn_invalidate s : ncs (conn_invalidate cf s).
  Proof. unfold conn_invalidate. nc; apply nc_fairy_invalidate. Qed.
  Lemma nc_raw_connection s : ncs (raw_connection cf s).
  Proof. unfold raw_connection. nc. apply nc_checkout. Qed.
  Lemma nc_revalidate s : ncs (revalidate cf s).
  Proof. unfold revalidate. nc. apply nc_raw_connection. Qed.
  Lemma nc_safe_close_cursor c s : ncs (safe_close_cursor c s).
  Proof. unfold safe_close_cursor. nc. apply nc_cursor_close. Qed.
  Lemma nc_the_conn s : ncs (the_conn s).
  Proof. unfold the_conn. nc. Qed.
  Lemma nc_handle_gen ab e cur s : (forall s1, ncs (ab s1)) -> e <> ECancelled -> ncs (handle_gen cf ab e cur s).
  Proof.
    intros Hab He. unfold handle_gen. nc; try apply nc_safe_close_cursor; try apply Hab; try apply nc_conn_invalidate.
  Qed.
  Lemma nc_connection_prop h s : (forall e c s1, e <> ECancelled -> ncs (h e c s1)) -> ncs (connection_prop cf h s).
  Proof.
    intros Hh. unfold connection_prop. nc; try apply nc_the_conn; try apply nc_revalidate; try (apply Hh; congruence).
  Qed.
  Lemma nc_rollback_impl_gen h s : (forall e c s1, e <> ECancelled -> ncs (h e c s1)) -> ncs (rollback_impl_gen cf h s).
  Proof.
    intros Hh. unfold rollback_impl_gen. nc; try (apply nc_connection_prop; exact Hh); try apply nc_dbapi_rollback;
      try (apply Hh; assumption).
  Qed.
  Lemma nc_handle0 e c s : e <> ECancelled -> ncs (handle0 e c s).
  Proof. intros He. unfold handle0. nc. Qed.
  Lemma nc_handle e c s : e <> ECancelled -> ncs (handle_dbapi_exception cf e c s).
  Proof.
    intros He. unfold handle_dbapi_exception. apply nc_handle_gen; auto.
    intros s1. apply nc_rollback_impl_gen. intros; apply nc_handle0; auto.
  Qed.
  Lemma nc_rollback_impl s : ncs (rollback_impl cf s).
  Proof. unfold rollback_impl. apply nc_rollback_impl_gen. intros; apply nc_handle; auto. Qed.
  Lemma nc_commit_impl s : ncs (commit_impl cf s).
  Proof.
    unfold commit_impl. nc; try (apply nc_connection_prop; intros; apply nc_handle; auto);
      try apply nc_dbapi_commit; try (apply nc_handle; assumption).
  Qed.
  Lemma nc_new_cursor s : ncs (new_cursor cf s).
  Proof.
    unfold new_cursor. nc; try apply nc_revalidate; try apply nc_the_conn; try (apply nc_handle; congruence).
  Qed.
  Lemma nc_exec_single c st s : ncs (exec_single cf c st s).
  Proof.
    unfold exec_single. nc; try apply nc_cursor_execute; try apply nc_cursor_close; try (apply nc_handle; assumption).
  Qed.
  Lemma nc_execute_context ab st s : (forall s1, ncs (ab s1)) -> ncs (execute_context cf ab st s).
  Proof.
    intros Hab. unfold execute_context. nc; try apply nc_new_cursor; try apply Hab; try apply nc_exec_single.
  Qed.
  Lemma nc_root_transaction s : ncs (root_transaction cf s).
  Proof. unfold root_transaction. nc. apply nc_execute_context. intros; apply nc_munit. Qed.
  Lemma nc_conn_begin s : ncs (conn_begin cf s).
  Proof. unfold conn_begin. nc. apply nc_root_transaction. Qed.
  Lemma nc_conn_execute st s : ncs (conn_execute cf st s).
  Proof. unfold conn_execute. apply nc_execute_context. intros; apply nc_conn_begin. Qed.
  Lemma nc_txn_close_impl b s : ncs (txn_close_impl cf b s).
  Proof. unfold txn_close_impl. nc. apply nc_rollback_impl. Qed.
  Lemma nc_txn_commit s : ncs (txn_commit cf s).
  Proof. unfold txn_commit. nc. apply nc_commit_impl. Qed.
  Lemma nc_conn_commit s : ncs (conn_commit cf s).
  Proof. unfold conn_commit. nc. apply nc_txn_commit. Qed.
  Lemma nc_conn_rollback s : ncs (conn_rollback cf s).
  Proof. unfold conn_rollback. nc. apply nc_txn_close_impl. Qed.
  Lemma nc_conn_close s : ncs (conn_close cf s).
  Proof. unfold conn_close, fairy_close. nc; try apply nc_txn_close_impl; apply nc_finalize_fairy. Qed.
  Lemma nc_engine_connect s : ncs (engine_connect cf s).
  Proof. unfold engine_connect. nc. apply nc_raw_connection. Qed.

  Lemma nc_acall req m s : ncs (m s) -> ncs (acall async_api req m s).
  Proof. intros H. unfold acall. cbn. apply nc_spawn. exact H. Qed.

  Lemma nc_op_body o s : ncs (op_body cf async_api o s).
  Proof.
    destruct o; cbn [op_body]; try (apply nc_acall).
    - apply nc_conn_begin.
    - apply nc_conn_execute.
    - nc. apply nc_acall. apply nc_conn_execute.
    - apply nc_conn_commit.
    - apply nc_conn_rollback.
  Qed.

  Lemma nc_run_ops ops : forall s, ncs (run_ops cf async_api ops s).
  Proof.
    induction ops as [|o rest IH]; intros s; cbn [run_ops].
    - apply nc_munit.
    - apply nc_mseq; [|exact IH]. apply nc_mtry.
      + apply nc_mbind; [apply nc_op_body|]. intros v s1. unfold log. apply nc_mmod.
      + intros e s1 He. unfold log. destruct (is_exception e); [apply nc_mmod|apply nc_mraise; exact He].
  Qed.

  Lemma nc_aexit s : ncs (aexit cf async_api s).
  Proof.
    unfold aexit. cbn [shielded async_api]. constructor.
    - apply nc_acall. apply nc_conn_close.
    - intros r Hb. constructor. exact Hb.
  Qed.

  Lemma nc_block sty ops s : ncs (block cf async_api sty ops s).
  Proof.
    destruct sty; cbn [block].
    - apply nc_mseq; [apply nc_acall; apply nc_engine_connect|]. intros s1.
      apply nc_mfinally; [apply nc_run_ops|intros; apply nc_aexit].
    - apply nc_mseq; [apply nc_acall; apply nc_engine_connect|]. intros s1.
      apply nc_mfinally; [apply nc_run_ops|intros; apply nc_acall; apply nc_conn_close].
    - apply nc_mseq; [apply nc_acall; apply nc_engine_connect|]. intros s1. apply nc_run_ops.
  Qed.

  (* the driver never answers with CancelledError by itself *)
  Lemma io_step_not_cancelled w i : fst (io_step w i) <> inr ECancelled.
  Proof.
    destruct i; cbn;
      repeat match goal with
             | |- context [if ?b then _ else _] => destruct b
             | |- context [match ?s with SBegin => _ | SInsert _ => _ | SSelect => _ end] => destruct s
             end; cbn; discriminate.
  Qed.

  (* without a cancellation no block raises CancelledError *)
  Theorem block_not_cancelled sty ops s w cs : ncancel cs = 0%nat ->
    let '(o, _, _, _) := exec (block cf async_api sty ops) s w cs in o <> Raise ECancelled.
  Proof.
    intros Hq.
    pose proof (nc_run _ _ _ _ _ io_step io_cancel_step io_suspends ECancelled bad (block cf async_api sty ops s)
                  (nc_block sty ops s) io_step_not_cancelled w cs (ncancel0_quiet cs Hq)) as H.
    unfold exec, rl.
    destruct (run_loop io_step io_cancel_step io_suspends ECancelled (block cf async_api sty ops s) w cs) as [[[r w'] cs'] t].
    exact H.
  Qed.
End NoCancel.
