(* C29 - facts about the driver model (io_step) used by the safety proof *)
From Coq Require Import List ZArith Bool Arith Lia.
Import ListNotations.
From SAV.engine Require Import Async AsyncConn AsyncExec.
Open Scope Z_scope.

(* [w'] differs from [w] at most at connection [c] (and in the data / statement log) *)
Definition same_except (c : nat) (w w' : world) : Prop :=
  nconn w' = nconn w /\ forall c', c' <> c -> getc w' c' = getc w c'.

Lemma same_except_refl c w : same_except c w w.
Proof. split; auto. Qed.
Lemma same_except_trans c w1 w2 w3 : same_except c w1 w2 -> same_except c w2 w3 -> same_except c w1 w3.
Proof. intros [A B] [A' B']. split; [congruence|]. intros c' H. rewrite B', B; auto. Qed.

Lemma getc_setc_same w c d : getc (setc w c d) c = d.
Proof. unfold getc, setc. cbn. rewrite Nat.eqb_refl. reflexivity. Qed.
Lemma getc_setc_other w c d c' : c' <> c -> getc (setc w c d) c' = getc w c'.
Proof. unfold getc, setc. cbn. intros H. apply Nat.eqb_neq in H. rewrite H. reflexivity. Qed.
Lemma getc_wlog w c k c' : getc (wlog w c k) c' = getc w c'.
Proof. reflexivity. Qed.
Lemma getc_set_committed w l c' : getc (set_committed w l) c' = getc w c'.
Proof. reflexivity. Qed.
Lemma same_except_setc w c d : same_except c w (setc w c d).
Proof. split; [reflexivity|]. intros; apply getc_setc_other; auto. Qed.

(* the connection an awaitable talks to *)
Definition io_conn (i : io) : option nat :=
  match i with
  | IoConnect => None
  | IoSetup c | IoCursor c | IoExec c _ | IoFetch c | IoCursorClose c | IoCommit c | IoRollback c
  | IoTermClose c | IoClose c | IoForceClose c | IoProbe c => Some c
  end.
Definition io_closes (i : io) : bool :=
  match i with IoTermClose _ | IoClose _ | IoForceClose _ => true | _ => false end.

Lemma same_except_wlog c w w' cc k : same_except c w w' -> same_except c w (wlog w' cc k).
Proof. intros [A B]. split; auto. Qed.
Lemma same_except_setcm c w w' l : same_except c w w' -> same_except c w (set_committed w' l).
Proof. intros [A B]. split; auto. Qed.

Lemma io_step_frame i c w : io_conn i = Some c -> same_except c w (snd (io_step w i)).
Proof.
  destruct i; cbn; intros H; inversion H; subst; clear H;
    repeat match goal with
           | |- context [if ?b then _ else _] => destruct b
           | |- context [match ?s with SBegin => _ | SInsert _ => _ | SSelect => _ end] => destruct s
           end; cbn; unfold closed_conn;
    repeat (first [apply same_except_wlog | apply same_except_setcm]);
    first [apply same_except_refl | apply same_except_setc].
Qed.

Lemma io_cancel_frame i c w : io_conn i = Some c -> same_except c w (io_cancel_step w i).
Proof.
  intros H. destruct i; try discriminate; apply (io_step_frame _ _ w H).
Qed.

(* requests that do not close keep the connection open *)
Lemma io_step_keeps_open i c w :
  io_conn i = Some c -> io_closes i = false -> d_open (getc w c) = true ->
  d_open (getc (snd (io_step w i)) c) = true.
Proof.
  destruct i; cbn; intros H Hc Ho; inversion H; subst; clear H; try discriminate; rewrite ?Ho; cbn; auto.
  - destruct s;
      repeat match goal with |- context [if ?b then _ else _] => destruct b end;
      unfold getc, wlog, set_committed, setc in *; cbn; rewrite ?Nat.eqb_refl; auto.
  - destruct (d_txn (getc w c)); unfold getc, wlog, set_committed, setc in *; cbn; rewrite ?Nat.eqb_refl; auto.
  - destruct (d_txn (getc w c)); unfold getc, wlog, set_committed, setc in *; cbn; rewrite ?Nat.eqb_refl; auto.
Qed.

Lemma io_step_closes i c w : io_conn i = Some c -> io_closes i = true ->
  io_step w i = (inl VUnit, closed_conn w c).
Proof. destruct i; cbn; intros H Hc; inversion H; subst; try discriminate; reflexivity. Qed.

Lemma getc_closed_same w c : getc (closed_conn w c) c = dead.
Proof. apply getc_setc_same. Qed.
Lemma closed_frame w c : same_except c w (closed_conn w c).
Proof. apply same_except_setc. Qed.

(* replies on an open connection *)
Lemma step_probe w c : io_step w (IoProbe c) = (inl (VBool (d_open (getc w c))), w).
Proof. reflexivity. Qed.
Lemma step_simple_open w c i :
  (i = IoSetup c \/ i = IoCursor c \/ i = IoCursorClose c) -> d_open (getc w c) = true ->
  io_step w i = (inl VUnit, w).
Proof. intros [->|[->| ->]] H; cbn; rewrite H; reflexivity. Qed.
Lemma step_rollback_open w c : d_open (getc w c) = true ->
  fst (io_step w (IoRollback c)) = inl VUnit /\
  d_open (getc (snd (io_step w (IoRollback c))) c) = true /\
  d_txn (getc (snd (io_step w (IoRollback c))) c) = false.
Proof.
  intros H. cbn. rewrite H. cbn. destruct (d_txn (getc w c)) eqn:T; cbn.
  - unfold getc, wlog, setc; cbn. rewrite Nat.eqb_refl. auto.
  - auto.
Qed.
Lemma step_commit_open w c : d_open (getc w c) = true ->
  fst (io_step w (IoCommit c)) = inl VUnit /\
  d_open (getc (snd (io_step w (IoCommit c))) c) = true /\
  d_txn (getc (snd (io_step w (IoCommit c))) c) = false.
Proof.
  intros H. cbn. rewrite H. cbn. destruct (d_txn (getc w c)) eqn:T; cbn.
  - unfold getc, wlog, set_committed, setc; cbn. rewrite Nat.eqb_refl. auto.
  - auto.
Qed.
Lemma step_fetch_open w c : d_open (getc w c) = true ->
  io_step w (IoFetch c) = (inl (VRows (visible w c)), w).
Proof. intros H. cbn. rewrite H. reflexivity. Qed.
(* a statement on an open connection succeeds or fails with an ordinary DBAPI error *)
Lemma step_exec_open w c st : d_open (getc w c) = true ->
  fst (io_step w (IoExec c st)) = inl VUnit \/
  fst (io_step w (IoExec c st)) = inr EIntegrity \/ fst (io_step w (IoExec c st)) = inr EOperational.
Proof.
  intros H. cbn. rewrite H. cbn. destruct st; cbn;
    repeat match goal with |- context [if ?b then _ else _] => destruct b end; cbn; auto.
Qed.

(* connect *)
Lemma step_connect w : io_step w IoConnect = (inl (VConn (nconn w)), new_conn w (mkd true false [])).
Proof. reflexivity. Qed.
Lemma getc_new_same w d : getc (new_conn w d) (nconn w) = d.
Proof. unfold getc, new_conn. cbn. rewrite Nat.eqb_refl. reflexivity. Qed.
Lemma getc_new_other w d c' : c' <> nconn w -> getc (new_conn w d) c' = getc w c'.
Proof. unfold getc, new_conn. cbn. intros H. apply Nat.eqb_neq in H. rewrite H. reflexivity. Qed.
Lemma nconn_new w d : nconn (new_conn w d) = S (nconn w).
Proof. reflexivity. Qed.
