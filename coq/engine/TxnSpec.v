(* Specification side of C23: the reference nested-transaction model at the level of the
   Connection API, and the guard that delimits the histories on which SQLAlchemy implements it.

   The reference model is a stack of frames (root frame last).  A frame remembers the handle that
   controls it and the data as it was when the frame was opened.
     - commit of the root frame publishes the current data; commit of a savepoint frame just closes
       it (and the frames opened after it),
     - rollback / close of a frame restores the data of the moment the frame was opened and closes
       it and the frames opened after it; for the root frame that is the last committed data,
     - an ended handle: commit raises, rollback/close do nothing,
     - begin/begin_nested/execute autobegin a root frame; they raise on a closed connection, and
       inside a with-block whose transaction has already ended (the documented
       "Can't operate on closed transaction inside context manager" rule),
     - leaving a with-block commits (normal exit) or rolls back (exception) a still-live handle,
     - faults: a raising `begin` listener means the root frame is not opened and the operation
       raises (the next operation autobegins normally); a DBAPI rollback that reports an error still
       ends the transaction and undoes its work, and the operation raises. *)
From Coq Require Import List ZArith NArith Bool Arith.
Import ListNotations.
From SAV.engine Require Import RefDb Txn.

Record spec : Type := mkP {
  p_committed : tables;            (* data other connections see *)
  p_cur : tables;                  (* data of the connection itself (= p_committed outside a transaction) *)
  p_stack : list (nat * tables);   (* live frames, innermost first: (handle, data when opened) *)
  p_kinds : list bool;             (* for every handle created so far: is it a root handle *)
  p_ctx : list nat;                (* handles of the with-blocks currently entered, innermost first *)
  p_closed : bool;
  p_beginfail : N;                 (* environment: raising `begin` listener (0 none, 1 once, 2.. always) *)
  p_rbfail : bool                  (* environment: the next DBAPI rollback reports an error *)
}.

Definition spec_init (ts : tables) : spec := mkP ts ts [] [] [] false 0%N false.

Definition p_next (p : spec) : nat := length (p_kinds p).
Definition live (k : nat) (p : spec) : bool := existsb (fun f => Nat.eqb (fst f) k) (p_stack p).
Definition kind_root (k : nat) (p : spec) : bool := nth k (p_kinds p) false.
Definition ctx_bad (p : spec) : bool :=
  match p_ctx p with k :: _ => negb (live k p) | [] => false end.
Definition blocked (p : spec) : bool := p_closed p || ctx_bad p.

(* frames strictly below (older than) the frame of handle [k], and the data when [k] was opened *)
Fixpoint below (k : nat) (l : list (nat * tables)) : list (nat * tables) :=
  match l with
  | [] => []
  | (j, snap) :: r => if Nat.eqb j k then r else below k r
  end.
Fixpoint snap_of (k : nat) (l : list (nat * tables)) (dflt : tables) : tables :=
  match l with
  | [] => dflt
  | (j, snap) :: r => if Nat.eqb j k then snap else snap_of k r dflt
  end.

Definition set_stack st cur p :=
  mkP (p_committed p) cur st (p_kinds p) (p_ctx p) (p_closed p) (p_beginfail p) (p_rbfail p).
Definition set_pctx c p :=
  mkP (p_committed p) (p_cur p) (p_stack p) (p_kinds p) c (p_closed p) (p_beginfail p) (p_rbfail p).
Definition set_pclosed b p :=
  mkP (p_committed p) (p_cur p) (p_stack p) (p_kinds p) (p_ctx p) b (p_beginfail p) (p_rbfail p).
Definition set_pbeginfail n p :=
  mkP (p_committed p) (p_cur p) (p_stack p) (p_kinds p) (p_ctx p) (p_closed p) n (p_rbfail p).
Definition set_prbfail b p :=
  mkP (p_committed p) (p_cur p) (p_stack p) (p_kinds p) (p_ctx p) (p_closed p) (p_beginfail p) b.
Definition open_frame (isroot : bool) (p : spec) : spec :=
  mkP (p_committed p) (p_cur p) ((p_next p, p_cur p) :: p_stack p) (p_kinds p ++ [isroot]) (p_ctx p)
      (p_closed p) (p_beginfail p) (p_rbfail p).
Definition commit_all (p : spec) : spec :=
  mkP (p_cur p) (p_cur p) [] (p_kinds p) (p_ctx p) (p_closed p) (p_beginfail p) (p_rbfail p).
(* the outer rollback undoes all uncommitted work - also when the DBAPI reports an error for it
   (the error is consumed and reported by the second component of [rollback_root]) *)
Definition rollback_all (p : spec) : spec :=
  mkP (p_committed p) (p_committed p) [] (p_kinds p) (p_ctx p) (p_closed p) (p_beginfail p) false.

(* opening the root frame runs the `begin` listeners: a raising listener means no transaction *)
Definition begin_root (p : spec) : bool * spec :=
  match p_beginfail p with
  | 0%N => (false, open_frame true p)
  | 1%N => (true, set_pbeginfail 0%N p)
  | _ => (true, p)
  end.
Definition autobegin_spec (p : spec) : bool * spec :=
  match p_stack p with [] => begin_root p | _ => (false, p) end.

Definition commit_handle (k : nat) (p : spec) : spec :=
  match below k (p_stack p) with
  | [] => commit_all p                     (* k controls the root frame *)
  | fr => set_stack fr (p_cur p) p
  end.
(* (raised, state): only the rollback of the root frame talks to the DBAPI rollback() *)
Definition rollback_handle (k : nat) (p : spec) : bool * spec :=
  match below k (p_stack p) with
  | [] => (p_rbfail p, rollback_all p)
  | fr => (false, set_stack fr (snap_of k (p_stack p) (p_cur p)) p)
  end.
Definition rollback_conn (p : spec) : bool * spec :=
  match p_stack p with [] => (false, p) | _ => (p_rbfail p, rollback_all p) end.

(* one step: (raised, new state); [None] = the operation names a handle that does not exist *)
Definition sstep (o : op) (p : spec) : option (bool * spec) :=
  match o with
  | OBegin =>
      Some (if blocked p || negb (Nat.eqb (length (p_stack p)) 0) then (true, p) else begin_root p)
  | ONested =>
      Some (if blocked p then (true, p)
            else match autobegin_spec p with
                 | (false, q) => (false, open_frame false q)
                 | r => r
                 end)
  | OIns v =>
      Some (if blocked p then (true, p)
            else match autobegin_spec p with
                 | (false, q) => (false, set_stack (p_stack q) (tbl_insert 0%N [v] (p_cur q)) q)
                 | r => r
                 end)
  | OCommit => Some (false, match p_stack p with [] => p | _ => commit_all p end)
  | ORollback => Some (rollback_conn p)
  | OClose =>
      (* a failing rollback propagates out of close(): the connection stays open *)
      Some (match rollback_conn p with (false, q) => (false, set_pclosed true q) | r => r end)
  | TCommit k =>
      if k <? p_next p then Some (if live k p then (false, commit_handle k p) else (true, p)) else None
  | TRollback k | TClose k =>
      if k <? p_next p then Some (if live k p then rollback_handle k p else (false, p)) else None
  | TEnter k =>
      if k <? p_next p then Some (false, set_pctx (k :: p_ctx p) p) else None
  | TExit k e =>
      if k <? p_next p then
        let bq := if live k p then (if e then rollback_handle k p else (false, commit_handle k p))
                  else (false, p) in
        Some (fst bq, set_pctx (tl (p_ctx (snd bq))) (snd bq))
      else None
  | FBegin n => Some (false, set_pbeginfail n p)
  | FRollback b => Some (false, set_prbfail b p)
  end.

Definition sstep_st (o : op) (p : spec) : spec := match sstep o p with Some (_, q) => q | None => p end.
Definition sstep_raised (o : op) (p : spec) : option bool :=
  match sstep o p with Some (b, _) => Some b | None => None end.
Fixpoint strace (ops : list op) (p : spec) : list (option bool * spec) :=
  match ops with
  | [] => []
  | o :: r => (sstep_raised o p, sstep_st o p) :: strace r (sstep_st o p)
  end.

Definition spec_in_transaction (p : spec) : bool := negb (Nat.eqb (length (p_stack p)) 0).
Definition spec_in_nested (p : spec) : bool := Nat.ltb 1 (length (p_stack p)).

(* ---- the guard: histories outside the three defective regions and with with-blocks used as the
   [with] statement uses them ---- *)
Definition top_is (k : nat) (p : spec) : bool :=
  match p_stack p with (j, _) :: _ => Nat.eqb j k | [] => false end.
Definition is_root_frame (k : nat) (p : spec) : bool :=
  match below k (p_stack p) with [] => true | _ => false end.

(* (a) a live savepoint handle is ended only when it is the innermost frame;
   (c) and not inside a with-block whose own transaction has already ended *)
Definition ok_end (k : nat) (p : spec) : bool :=
  negb (live k p) || is_root_frame k p || (top_is k p && negb (ctx_bad p)).
(* (b) rollback()/close()/__exit__ of an ended root handle while a savepoint is live *)
Definition ok_dead_root (k : nat) (p : spec) : bool :=
  live k p || negb (kind_root k p) || negb (spec_in_nested p).

Definition gstep (o : op) (p : spec) : bool :=
  match o with
  | TCommit k => ok_end k p
  | TRollback k | TClose k => ok_end k p && ok_dead_root k p
  | TEnter k => negb (existsb (Nat.eqb k) (p_ctx p))
  | TExit k e =>
      match p_ctx p with j :: _ => Nat.eqb j k | [] => false end && ok_end k p && ok_dead_root k p
  | _ => true
  end.

Fixpoint guard_from (ops : list op) (p : spec) : bool :=
  match ops with
  | [] => true
  | o :: r =>
      match sstep o p with
      | Some (_, q) => gstep o p && guard_from r q
      | None => guard_from r p
      end
  end.
