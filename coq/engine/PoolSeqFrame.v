(* C26 - frame facts about the sequential pool model: which parts of the state each function can
   touch.  [RecLevel]: functions of the record/DBAPI layer leave fairies, holders, the pool structure,
   the set of records and every fairy_ref alone.  [Mono]: no function below [step] touches the holder
   slots, fairy_refs are only cleared or set to a brand-new fairy, taint flags are never reset. *)
From Coq Require Import List ZArith Bool Arith Lia.
Import ListNotations.
From SAV.engine Require Import PoolSeq.
Open Scope Z_scope.

Lemma upd_same : forall A (m : nat -> A) i v, upd m i v i = v.
Proof. intros. unfold upd. rewrite Nat.eqb_refl. reflexivity. Qed.
Lemma upd_other : forall A (m : nat -> A) i j v, j <> i -> upd m i v j = m j.
Proof. intros. unfold upd. destruct (Nat.eqb_spec j i); [contradiction|reflexivity]. Qed.

(* destruct the scrutinee of the innermost match / if in hypothesis H *)
Ltac dm H :=
  match type of H with
  | context [match ?x with _ => _ end] =>
      lazymatch x with
      | context [match _ with _ => _ end] => fail
      | _ => let E := fresh "E" in destruct x eqn:E
      end
  | context [if ?x then _ else _] =>
      lazymatch x with
      | context [if _ then _ else _] => fail
      | context [match _ with _ => _ end] => fail
      | _ => let E := fresh "E" in destruct x eqn:E
      end
  end.
Ltac inv H := inversion H; subst; clear H.

(* normal form for state expressions: top-level accessors and setters unfolded, projections reduced *)
Ltac sproj :=
  unfold clock, faults, trace, taint_close, taint_gc, nconns, c_nclose, c_start, c_det, c_mark, c_soft, nrecs, r_dbc, r_start, r_soft, r_fresh, r_fairy, nfairies, f_dbc, f_rec, f_orig, f_counter, f_dead, inv_time, q, overflow, static, sg_rec, sg_fairy, as_conn, as_out,
    set_clock, set_faults, set_trace, set_taint_close, set_taint_gc, set_nconns, set_c_nclose, set_c_start, set_c_det, set_c_mark, set_c_soft, set_nrecs, set_r_dbc, set_r_start, set_r_soft, set_r_fresh, set_r_fairy, set_nfairies, set_f_dbc, set_f_rec, set_f_orig, set_f_counter, set_f_dead, set_inv_time, set_q, set_overflow, set_static, set_sg_rec, set_sg_fairy, set_as_conn, set_as_out, set_ex, set_cn, set_rc, set_fr, set_holders, set_pl in *;
  cbn [clock_ faults_ trace_ taint_close_ taint_gc_ nconns_ c_nclose_ c_start_ c_det_ c_mark_ c_soft_ nrecs_ r_dbc_ r_start_ r_soft_ r_fresh_ r_fairy_ nfairies_ f_dbc_ f_rec_ f_orig_ f_counter_ f_dead_ inv_time_ q_ overflow_ static_ sg_rec_ sg_fairy_ as_conn_ as_out_ ex cn rc fr holders pl] in *.

Definition taint (s : st) : bool := taint_close s || taint_gc s.

(* ------------------------------------------------------------------ RecLevel *)
Record RecLevel (s s' : st) : Prop := {
  rl_fr : fr s' = fr s;
  rl_hold : holders s' = holders s;
  rl_pl_q : q s' = q s;
  rl_pl_ov : overflow s' = overflow s;
  rl_pl_static : static s' = static s;
  rl_pl_sgr : sg_rec s' = sg_rec s;
  rl_pl_sgf : sg_fairy s' = sg_fairy s;
  rl_pl_asc : as_conn s' = as_conn s;
  rl_pl_aso : as_out s' = as_out s;
  rl_nrecs : nrecs s' = nrecs s;
  rl_fairy : r_fairy s' = r_fairy s;
  rl_tc : taint_close s = true -> taint_close s' = true;
  rl_tg : taint_gc s' = taint_gc s;
  rl_nconns : (nconns s <= nconns s')%nat }.

Lemma RecLevel_refl : forall s, RecLevel s s.
Proof. intros; constructor; auto. Qed.
Lemma RecLevel_trans : forall a b c, RecLevel a b -> RecLevel b c -> RecLevel a c.
Proof.
  intros a b c [] []; constructor; try congruence; try (etransitivity; eassumption); auto.
Qed.

Section Frame.
Variable cf : cfg.

Ltac rl_leaf := constructor; cbn; auto.

Lemma next_fault_rl : forall s c s', next_fault s = (c, s') -> RecLevel s s'.
Proof. unfold next_fault; intros. dm H; inv H; rl_leaf. Qed.
Lemma log_rl : forall k c s, RecLevel s (log k c s).
Proof. intros; unfold log; rl_leaf. Qed.
Lemma now_rl : forall s t s', now cf s = (t, s') -> RecLevel s s'.
Proof. unfold now; intros. dm H; inv H; rl_leaf. Qed.

Lemma ext_connect_rl : forall t s x s', ext_connect t s = (x, s') -> RecLevel s s'.
Proof.
  unfold ext_connect; intros. destruct (next_fault s) as [c s1] eqn:E. apply next_fault_rl in E.
  eapply RecLevel_trans; [exact E|]. dm H; inv H; unfold log; rl_leaf.
Qed.
Lemma ext_close_rl : forall c s x s', ext_close c s = (x, s') -> RecLevel s s'.
Proof.
  unfold ext_close; intros. destruct (next_fault s) as [c0 s1] eqn:E. apply next_fault_rl in E.
  eapply RecLevel_trans; [exact E|]. dm H; inv H; unfold log; rl_leaf.
Qed.
Lemma ext_reset_rl : forall k c s x s', ext_reset k c s = (x, s') -> RecLevel s s'.
Proof.
  unfold ext_reset; intros. destruct (next_fault s) as [c0 s1] eqn:E. apply next_fault_rl in E.
  eapply RecLevel_trans; [exact E|]. dm H; inv H; unfold log; rl_leaf.
Qed.
Lemma ext_ping_rl : forall c s x s', ext_ping c s = (x, s') -> RecLevel s s'.
Proof.
  unfold ext_ping; intros. destruct (next_fault s) as [c0 s1] eqn:E. apply next_fault_rl in E.
  eapply RecLevel_trans; [exact E|]. dm H; inv H; unfold log; rl_leaf.
Qed.
Lemma ext_event_rl : forall c s x s', ext_event c s = (x, s') -> RecLevel s s'.
Proof.
  unfold ext_event; intros. destruct (next_fault s) as [c0 s1] eqn:E. apply next_fault_rl in E.
  eapply RecLevel_trans; [exact E|]. repeat dm H; inv H; unfold log; rl_leaf.
Qed.

Lemma close_connection_rl : forall c s x s', close_connection c s = (x, s') -> RecLevel s s'.
Proof.
  unfold close_connection; intros. destruct (ext_close c s) as [y s1] eqn:E. apply ext_close_rl in E.
  repeat dm H; inv H; auto. eapply RecLevel_trans; [exact E|]. rl_leaf.
Qed.

Lemma rec_close_rl : forall r s x s', rec_close r s = (x, s') -> RecLevel s s'.
Proof.
  unfold rec_close; intros. dm H; [|inv H; apply RecLevel_refl].
  destruct (close_connection n s) as [y s1] eqn:E1. apply close_connection_rl in E1.
  dm H; inv H; (eapply RecLevel_trans; [exact E1|]; rl_leaf).
Qed.

Lemma rec_connect_rl : forall r s x s', rec_connect cf r s = (x, s') -> RecLevel s s'.
Proof.
  unfold rec_connect; intros.
  destruct (now cf (set_r_dbc s (upd (r_dbc s) r None))) as [t s2] eqn:E1.
  pose proof (now_rl _ _ _ E1) as R1.
  destruct (ext_connect t (set_r_start s2 (upd (r_start s2) r t))) as [y s4] eqn:E2.
  pose proof (ext_connect_rl _ _ _ _ E2) as R2.
  assert (R0 : RecLevel s (set_r_dbc s (upd (r_dbc s) r None))) by rl_leaf.
  assert (R12 : RecLevel s2 (set_r_start s2 (upd (r_start s2) r t))) by rl_leaf.
  assert (R : RecLevel s s4) by (eapply RecLevel_trans; [exact R0|]; eapply RecLevel_trans; [exact R1|];
                                 eapply RecLevel_trans; [exact R12|exact R2]).
  dm H; inv H; auto. eapply RecLevel_trans; [exact R|]. rl_leaf.
Qed.

Lemma rec_invalidate_rl : forall r soft s x s', rec_invalidate cf r soft s = (x, s') -> RecLevel s s'.
Proof.
  unfold rec_invalidate; intros. dm H; [|inv H; apply RecLevel_refl].
  destruct soft.
  - destruct (now cf s) as [t s1] eqn:E1. apply now_rl in E1. inv H.
    eapply RecLevel_trans; [exact E1|]. rl_leaf.
  - destruct (rec_close r s) as [y s1] eqn:E1. apply rec_close_rl in E1.
    dm H; inv H; auto. eapply RecLevel_trans; [exact E1|]. rl_leaf.
Qed.

Lemma get_connection_rl : forall r s x s', get_connection cf r s = (x, s') -> RecLevel s s'.
Proof.
  unfold get_connection; intros.
  match type of H with (let '(_, _) := ?e in _) = _ => destruct e as [rcy s1] eqn:E0 end.
  assert (R0 : RecLevel s s1).
  { destruct (r_dbc s r); [|inv E0; apply RecLevel_refl].
    destruct (-1 <? recycle cf).
    - destruct (now cf s) as [t s0] eqn:En. apply now_rl in En. repeat dm E0; inv E0; auto.
    - repeat dm E0; inv E0; apply RecLevel_refl. }
  match type of H with (let '(_, _) := ?e in _) = _ => destruct e as [y2 s2] eqn:E1 end.
  assert (R1 : RecLevel s1 s2).
  { destruct rcy as [[|]|].
    - destruct (rec_close r s1) as [y s3] eqn:Ec. apply rec_close_rl in Ec.
      destruct y; [|inv E1; auto]. apply rec_connect_rl in E1. eapply RecLevel_trans; eauto.
    - inv E1. apply RecLevel_refl.
    - apply rec_connect_rl in E1; auto. }
  repeat dm H; inv H; eapply RecLevel_trans; eauto.
Qed.

Lemma mark_det_rl : forall o s, RecLevel s (mark_det o s).
Proof. intros; unfold mark_det; destruct o; [rl_leaf|apply RecLevel_refl]. Qed.

Lemma fairy_reset_rl : forall c twr s x s', fairy_reset cf c twr s = (x, s') -> RecLevel s s'.
Proof.
  unfold fairy_reset; intros. repeat dm H; try (inv H; apply RecLevel_refl); eapply ext_reset_rl; eauto.
Qed.


(* ------------------------------------------------------------------ Mono *)
End Frame.

Record Mono (s s' : st) : Prop := {
  m_nf : (nfairies s <= nfairies s')%nat;
  m_orig : forall f, (f < nfairies s)%nat -> f_orig s' f = f_orig s f;
  m_dead : forall f, (f < nfairies s)%nat -> f_dead s' f = f_dead s f;
  m_fairy : forall r f, r_fairy s' r = Some f ->
            r_fairy s r = Some f \/
            ((nfairies s <= f < nfairies s')%nat /\ f_orig s' f = r /\ f_dead s' f = false);
  m_hold : holders s' = holders s;
  m_sg : forall f, sg_fairy s' = Some f -> sg_fairy s = Some f \/ (nfairies s <= f < nfairies s')%nat;
  m_tc : taint_close s = true -> taint_close s' = true;
  m_tg : taint_gc s = true -> taint_gc s' = true;
  m_nrecs : (nrecs s <= nrecs s')%nat }.

Lemma Mono_refl : forall s, Mono s s.
Proof. intros; constructor; auto. Qed.
Lemma Mono_trans : forall a b c, Mono a b -> Mono b c -> Mono a c.
Proof.
  intros a b c [] []; constructor; try lia; try congruence; auto.
  - intros. rewrite m_orig1 by lia. auto.
  - intros. rewrite m_dead1 by lia. auto.
  - intros r f H. destruct (m_fairy1 _ _ H) as [H1|[H1 [H2 H3]]].
    + destruct (m_fairy0 _ _ H1) as [H4|[H4 [H5 H6]]]; auto.
      right. split; [lia|]. rewrite m_orig1, m_dead1 by lia. auto.
    + right. split; [lia|auto].
  - intros f H. destruct (m_sg1 _ H) as [H1|H1]; [|right; lia].
    destruct (m_sg0 _ H1); [auto|right; lia].
Qed.
Lemma RecLevel_Mono : forall s s', RecLevel s s' -> Mono s s'.
Proof.
  intros s s' []. unfold nfairies, f_orig, f_dead, sg_fairy in *.
  constructor; unfold nfairies, f_orig, f_dead; try rewrite rl_fr0; auto; try lia.
  - intros. rewrite rl_fairy0 in H. auto.
  - intros. unfold sg_fairy in *. left. congruence.
  - rewrite rl_tg0; auto.
Qed.

Section Frame2.
Variable cf : cfg.

Ltac mono_leaf := constructor; cbn; intros; auto; try lia.
Ltac mt := eapply Mono_trans.

Lemma Mono_clear_fairy : forall s r, Mono s (set_r_fairy s (upd (r_fairy s) r None)).
Proof.
  intros. mono_leaf. left. unfold upd in H. destruct (Nat.eqb r0 r); [discriminate|auto].
Qed.

Lemma new_record_mono : forall s x s', new_record cf s = (x, s') -> Mono s s'.
Proof.
  unfold new_record; intros.
  match type of H with context [rec_connect cf ?r ?s0] => destruct (rec_connect cf r s0) as [y s7] eqn:E; set (sx := s0) in * end.
  apply rec_connect_rl, RecLevel_Mono in E.
  assert (M0 : Mono s sx).
  { subst sx. mono_leaf. left. unfold upd in H0. destruct (Nat.eqb r (nrecs s)); [discriminate|auto]. }
  dm H; inv H; mt; eauto.
Qed.

Lemma inc_overflow_mono : forall s b s', inc_overflow cf s = (b, s') -> Mono s s'.
Proof. unfold inc_overflow; intros. repeat dm H; inv H; try apply Mono_refl; mono_leaf. Qed.
Lemma dec_overflow_mono : forall s, Mono s (dec_overflow s).
Proof. intros; unfold dec_overflow; mono_leaf. Qed.
Lemma q_get_mono : forall s r s', q_get cf s = Some (r, s') -> Mono s s'.
Proof. unfold q_get; intros. repeat dm H; inv H; mono_leaf. Qed.

Lemma do_get_queue_mono : forall fuel s x s', do_get_queue cf fuel s = (x, s') -> Mono s s'.
Proof.
  induction fuel; intros s x s' H; cbn [do_get_queue] in H.
  - inv H. apply Mono_refl.
  - destruct (q_get cf s) as [[r s1]|] eqn:Eq.
    + inv H. eapply q_get_mono; eauto.
    + dm H.
      * dm H; [eauto|inv H; apply Mono_refl].
      * destruct (inc_overflow cf s) as [ok s1] eqn:Ei. apply inc_overflow_mono in Ei.
        destruct ok.
        -- destruct (new_record cf s1) as [y s2] eqn:En. apply new_record_mono in En.
           dm H; inv H; mt; eauto. mt; eauto. apply dec_overflow_mono.
        -- mt; eauto.
Qed.

Lemma do_get_mono : forall s x s', do_get cf s = (x, s') -> Mono s s'.
Proof.
  unfold do_get; intros. destruct (kind cf).
  - eapply do_get_queue_mono; eauto.
  - eapply new_record_mono; eauto.
  - match type of H with (let '(_, _) := ?e in _) = _ => destruct e as [y s1] eqn:E0 end.
    assert (M0 : Mono s s1).
    { dm E0; [inv E0; apply Mono_refl|].
      destruct (new_record cf s) as [z s2] eqn:En. apply new_record_mono in En.
      dm E0; inv E0; auto. mt; eauto. mono_leaf. }
    destruct y; [|inv H; auto].
    dm H; [|inv H; auto].
    match type of H with context [new_record cf ?s0] => destruct (new_record cf s0) as [z s3] eqn:En; set (sx := s0) in * end.
    apply new_record_mono in En.
    assert (M1 : Mono s1 sx) by (subst sx; mono_leaf).
    dm H; inv H.
    + mt; [exact M0|]. mt; [exact M1|]. mt; [exact En|]. mono_leaf.
    + mt; [exact M0|]. mt; eauto.
  - dm H; [inv H; apply Mono_refl|].
    destruct (new_record cf s) as [z s2] eqn:En. apply new_record_mono in En.
    dm H; inv H; auto. mt; eauto. mono_leaf.
  - dm H; [inv H; apply Mono_refl|].
    match type of H with (let '(_, _) := ?e in _) = _ => destruct e as [y s1] eqn:E0 end.
    assert (M0 : Mono s s1).
    { dm E0; [inv E0; apply Mono_refl|].
      destruct (new_record cf s) as [z s2] eqn:En. apply new_record_mono in En.
      dm E0; inv E0; auto. mt; eauto. mono_leaf. }
    destruct y; inv H; auto. mt; eauto. mono_leaf.
Qed.

Lemma rec_close_if_open_rl : forall r s x s', rec_close_if_open r s = (x, s') -> RecLevel s s'.
Proof. unfold rec_close_if_open; intros. dm H; [eapply rec_close_rl; eauto|inv H; apply RecLevel_refl]. Qed.

Lemma do_return_conn_mono : forall r s x s', do_return_conn cf r s = (x, s') -> Mono s s'.
Proof.
  unfold do_return_conn; intros. destruct (kind cf).
  - dm H.
    + destruct (rec_close_if_open r s) as [y s1] eqn:E1. apply rec_close_if_open_rl, RecLevel_Mono in E1.
      inv H. mt; eauto. apply dec_overflow_mono.
    + inv H. mono_leaf.
  - eapply RecLevel_Mono, rec_close_if_open_rl; eauto.
  - inv H; apply Mono_refl.
  - inv H. mono_leaf. discriminate.
  - dm H; inv H; try apply Mono_refl. mono_leaf.
Qed.

Lemma rec_checkin_mono : forall r fwc s x s', rec_checkin cf r fwc s = (x, s') -> Mono s s'.
Proof.
  unfold rec_checkin; intros. dm H.
  - apply do_return_conn_mono in H. mt; [apply Mono_clear_fairy|exact H].
  - dm H; [inv H; apply Mono_refl|eapply do_return_conn_mono; eauto].
Qed.

Lemma checkin_failed_mono : forall r fwc s x s', checkin_failed cf r fwc s = (x, s') -> Mono s s'.
Proof.
  unfold checkin_failed; intros.
  destruct (rec_invalidate cf r false s) as [y s1] eqn:E1. apply rec_invalidate_rl, RecLevel_Mono in E1.
  dm H.
  - apply rec_checkin_mono in H. mt; eauto.
  - destruct (rec_checkin cf r fwc s1) as [w s2] eqn:E2. apply rec_checkin_mono in E2.
    destruct w; inv H; mt; eauto.
Qed.

Lemma reraise_after_mono : forall A e (h : res unit * st) (x : res A) s s',
  reraise_after e h = (x, s') -> Mono s (snd h) -> Mono s s'.
Proof. unfold reraise_after; intros. destruct h as [[|] s1]; inv H; auto. Qed.

Lemma new_fairy_mono : forall c r s f s', new_fairy c r s = (f, s') -> Mono s s'.
Proof.
  unfold new_fairy; intros c r s f s' H. inv H.
  constructor; cbn; intros; auto; try lia.
  - rewrite upd_other by lia. auto.
  - rewrite upd_other by lia. auto.
  - unfold upd in H. destruct (Nat.eqb r0 r) eqn:Er.
    + inv H. right. apply Nat.eqb_eq in Er. subst. rewrite !upd_same. repeat split; lia.
    + auto.
Qed.

Lemma record_checkout_mono : forall s x s', record_checkout cf s = (x, s') -> Mono s s'.
Proof.
  unfold record_checkout; intros.
  destruct (do_get cf s) as [[r|e] s1] eqn:E1; pose proof (do_get_mono _ _ _ E1) as M1; [|inv H; auto].
  destruct (get_connection cf r s1) as [[c|err] s2] eqn:E2;
    pose proof (RecLevel_Mono _ _ (get_connection_rl _ _ _ _ _ E2)) as M2.
  - destruct (new_fairy c r s2) as [f s3] eqn:Enf. inv H. mt; [exact M1|]. mt; [exact M2|].
    eapply new_fairy_mono; eauto.
  - destruct (checkin_failed cf r false s2) as [y s3] eqn:E3.
    pose proof (checkin_failed_mono _ _ _ _ _ E3) as M3.
    eapply reraise_after_mono; [exact H|]. cbn. mt; [exact M1|]. mt; eauto.
Qed.

End Frame2.

Ltac dm_goal := match goal with |- context [match ?x with _ => _ end] => destruct x end.

Section Frame3.
Variable cf : cfg.
Ltac mono_leaf := constructor; cbn; intros; auto; try lia.
Ltac mt := eapply Mono_trans.

(* _finalize_fairy, generically: any reflexive-transitive relation on states that contains the
   record-level steps, the taint mark, the check-in of the record and the clearing of the fairy
   relates the state before and after *)
Section FinalizeGen.
Variable R : st -> st -> Prop.
Hypothesis R_refl : forall s, R s s.
Hypothesis R_trans : forall a b c, R a b -> R b c -> R a c.
Hypothesis R_rl : forall s s', RecLevel s s' -> R s s'.
Hypothesis R_taint : forall s, R s (set_taint_gc s true).
Variable r : option nat.
Variable fy : option nat.
Hypothesis R_checkin : forall r0 s x s', r = Some r0 -> rec_checkin cf r0 true s = (x, s') -> R s s'.
Hypothesis R_tail : forall s, R s (clear_fairy fy s).

Lemma finalize_gen : forall dbc gcf twr s x s', finalize cf dbc r gcf twr fy s = (x, s') -> R s s'.
Proof.
  unfold finalize; intros dbc gcf twr s x s' H.
  match type of H with (if ?b then _ else _) = _ => destruct b; [inv H; apply R_refl|] end.
  assert (CK : forall a y b,
    match r with
    | Some r0 => match r_fairy a r0 with Some _ => rec_checkin cf r0 true a | None => (Ok tt, a) end
    | None => (Ok tt, a)
    end = (y, b) -> R a b).
  { intros a y b Hc. destruct r as [r0|]; [|inv Hc; apply R_refl].
    destruct (r_fairy a r0); [eapply R_checkin; eauto|inv Hc; apply R_refl]. }
  match type of H with (let '(_, _) := ?e in _) = _ => destruct e as [y s1] eqn:E0 end.
  assert (M0 : R s s1).
  { match type of E0 with match ?d with _ => _ end = _ => destruct d as [c|] end; [|inv E0; apply R_refl].
    match type of E0 with (let '(_, _) := ?e in _) = _ => destruct e as [y1 s2] eqn:E1 end.
    assert (M1 : R s s2).
    { destruct (fairy_reset cf c twr s) as [z s3] eqn:Er. apply fairy_reset_rl, R_rl in Er.
      destruct z; [|inv E1; auto]. dm E1; try (inv E1; auto; fail).
      apply close_connection_rl, R_rl in E1. eapply R_trans; eauto. }
    destruct y1 as [|e]; [inv E0; auto|].
    match type of E0 with (let '(_, _) := ?e in _) = _ => destruct e as [z s3] eqn:E2 end.
    assert (M2 : R s2 s3).
    { destruct r; [eapply R_rl, rec_invalidate_rl; exact E2|inv E2; apply R_refl]. }
    assert (M3 : R s s3) by (eapply R_trans; eauto).
    destruct z.
    2:{ inv E0. eapply R_trans; [exact M3|]. dm_goal; [apply R_taint|apply R_refl]. }
    destruct (is_exception e); [inv E0; auto|].
    match type of E0 with match ?e with _ => _ end = _ => destruct e as [w s4] eqn:Ec end.
    apply CK in Ec. destruct w; inv E0; [|eapply R_trans; eauto].
    eapply R_trans; [exact M3|]. eapply R_trans; [exact Ec|apply R_tail]. }
  destruct y; [|inv H; auto].
  match type of H with match ?e with _ => _ end = _ => destruct e as [w s2] eqn:E1 end.
  apply CK in E1. destruct w; inv H; [|eapply R_trans; eauto].
  eapply R_trans; [exact M0|]. eapply R_trans; [exact E1|apply R_tail].
Qed.
End FinalizeGen.

Lemma finalize_mono : forall dbc r gcf twr fy s x s', finalize cf dbc r gcf twr fy s = (x, s') -> Mono s s'.
Proof.
  intros dbc r gcf twr fy s x s' H.
  eapply (finalize_gen Mono Mono_refl Mono_trans RecLevel_Mono); [| | |exact H].
  - intros; mono_leaf.
  - intros; eapply rec_checkin_mono; eauto.
  - intros; unfold clear_fairy; destruct fy; [mono_leaf|apply Mono_refl].
Qed.

Lemma fairy_checkin_mono : forall f twr s x s', fairy_checkin cf f twr s = (x, s') -> Mono s s'.
Proof. unfold fairy_checkin; intros. eapply finalize_mono; eauto. Qed.

Lemma fairy_close_mono : forall f s x s', fairy_close cf f s = (x, s') -> Mono s s'.
Proof.
  unfold fairy_close; intros. dm H.
  - apply fairy_checkin_mono in H. mt; [|exact H]. mono_leaf.
  - inv H. mono_leaf.
Qed.

Lemma fairy_invalidate_mono : forall f soft s x s', fairy_invalidate cf f soft s = (x, s') -> Mono s s'.
Proof.
  unfold fairy_invalidate; intros. dm H; [|inv H; apply Mono_refl].
  match type of H with (let '(_, _) := ?e in _) = _ => destruct e as [y s1] eqn:E0 end.
  assert (M0 : Mono s s1).
  { dm E0; [eapply RecLevel_Mono, rec_invalidate_rl; eauto|inv E0; apply Mono_refl]. }
  destruct y; [|inv H; auto]. destruct soft; [inv H; auto|].
  apply fairy_checkin_mono in H. mt; [exact M0|]. mt; [|exact H]. mono_leaf.
Qed.

Lemma fairy_detach_mono : forall f s x s', fairy_detach cf f s = (x, s') -> Mono s s'.
Proof.
  unfold fairy_detach; intros. dm H; [|inv H; apply Mono_refl].
  match type of H with context [do_return_conn cf ?r ?s0] =>
    destruct (do_return_conn cf r s0) as [y s4] eqn:E1; set (sx := s0) in * end.
  apply do_return_conn_mono in E1.
  assert (M0 : Mono s sx).
  { subst sx. mt; [apply (Mono_clear_fairy s n)|].
    match goal with |- Mono ?a (set_r_dbc (mark_det ?o1 (mark_det ?o2 ?a)) _) =>
      mt; [apply (RecLevel_Mono _ _ (mark_det_rl o2 a))|];
      mt; [apply (RecLevel_Mono _ _ (mark_det_rl o1 (mark_det o2 a)))|] end.
    mono_leaf. }
  dm H; inv H; [mt; [exact M0|]; mt; [exact E1|]; mono_leaf | mt; eauto].
Qed.

Lemma mark_all_mono : forall s, Mono s (mark_all s).
Proof. intros; unfold mark_all; mono_leaf. Qed.

Lemma pool_invalidate_mono : forall f chk s x s', pool_invalidate cf f chk s = (x, s') -> Mono s s'.
Proof.
  unfold pool_invalidate; intros.
  match type of H with context [if ?b then (let (_, _) := now cf s in _) else s] =>
    set (s1 := if b then (let (t, s1) := now cf s in mark_all (set_inv_time s1 t)) else s) in *;
    assert (M0 : Mono s s1) end.
  { subst s1. match goal with |- Mono _ (if ?b then _ else _) => destruct b end; [|apply Mono_refl].
    destruct (now cf s) as [t s2] eqn:En. apply now_rl, RecLevel_Mono in En.
    mt; [exact En|]. mt; [|apply mark_all_mono]. mono_leaf. }
  destruct chk; [|inv H; auto].
  dm H; [|inv H; auto]. apply fairy_invalidate_mono in H. mt; eauto.
Qed.

Lemma checkout_loop_mono : forall n f s x s', checkout_loop cf n f s = (x, s') -> Mono s s'.
Proof.
  induction n; intros f s x s' H; cbn [checkout_loop] in H.
  - destruct (fairy_invalidate cf f false s) as [y s1] eqn:E. apply fairy_invalidate_mono in E.
    destruct y; inv H; auto.
  - destruct (f_rec s f) as [r|] eqn:Er; [|inv H; apply Mono_refl].
    destruct (f_dbc s f) as [c|] eqn:Ec; [|inv H; apply Mono_refl].
    set (s0 := set_r_fresh s (upd (r_fresh s) r false)) in *.
    assert (M0 : Mono s s0) by (subst s0; mono_leaf).
    match type of H with (let '(_, _) := ?e in _) = _ => destruct e as [x1 s1] eqn:E1 end.
    assert (M1 : Mono s0 s1).
    { dm E1; [|inv E1; apply Mono_refl].
      destruct (ext_ping c s0) as [z s2] eqn:Ep. apply ext_ping_rl, RecLevel_Mono in Ep.
      repeat dm E1; inv E1; auto. }
    match type of H with (let '(_, _) := ?e in _) = _ => destruct e as [x2 s2] eqn:E2 end.
    assert (M2 : Mono s1 s2).
    { destruct x1; [|inv E2; apply Mono_refl]. dm E2; [|inv E2; apply Mono_refl].
      eapply RecLevel_Mono, ext_event_rl; eauto. }
    assert (M02 : Mono s s2) by (mt; [exact M0|]; mt; eauto).
    destruct x2 as [|e]; [inv H; auto|].
    destruct (is_disc e).
    + destruct (rec_invalidate cf r false s2) as [y3 s3] eqn:E3.
      apply rec_invalidate_rl, RecLevel_Mono in E3.
      destruct y3; [|inv H; mt; eauto].
      match type of H with (let '(_, _) := ?e in _) = _ => destruct e as [y4 s4] eqn:E4 end.
      assert (M4 : Mono s3 s4).
      { dm E4; [eapply pool_invalidate_mono; eauto|inv E4; apply Mono_refl]. }
      destruct y4; [|inv H; mt; [exact M02|]; mt; eauto].
      destruct (get_connection cf r s4) as [[c'|err] s5] eqn:E5;
        pose proof (RecLevel_Mono _ _ (get_connection_rl _ _ _ _ _ E5)) as M5.
      * apply IHn in H. mt; [exact M02|]. mt; [exact E3|]. mt; [exact M4|]. mt; [exact M5|].
        mt; [|exact H]. mono_leaf.
      * destruct (checkin_failed cf r true s5) as [y6 s6] eqn:E6.
        pose proof (checkin_failed_mono _ _ _ _ _ _ E6) as M6.
        eapply reraise_after_mono; [exact H|]. cbn.
        mt; [exact M02|]. mt; [exact E3|]. mt; [exact M4|]. mt; eauto.
    + destruct (f_rec s2 f) as [r'|]; [|inv H; auto].
      destruct (checkin_failed cf r' true s2) as [y6 s6] eqn:E6.
      pose proof (checkin_failed_mono _ _ _ _ _ _ E6) as M6.
      eapply reraise_after_mono; [exact H|]. cbn. mt; eauto.
Qed.


(* ---- functions that never touch the fairies *)
Lemma rl_fr' : forall s s', RecLevel s s' -> fr s' = fr s.
Proof. intros s s' []; auto. Qed.

Lemma new_record_fr : forall s x s', new_record cf s = (x, s') -> fr s' = fr s.
Proof.
  unfold new_record; intros.
  match type of H with context [rec_connect cf ?r ?s0] => destruct (rec_connect cf r s0) as [y s7] eqn:E end.
  apply rec_connect_rl, rl_fr' in E. cbn in E. dm H; inv H; auto.
Qed.
Lemma do_get_queue_fr : forall fuel s x s', do_get_queue cf fuel s = (x, s') -> fr s' = fr s.
Proof.
  induction fuel; intros s x s' H; cbn [do_get_queue] in H; [inv H; auto|].
  destruct (q_get cf s) as [[r s1]|] eqn:Eq.
  - inv H. unfold q_get in Eq. repeat dm Eq; inv Eq; auto.
  - dm H.
    + dm H; [eauto|inv H; auto].
    + destruct (inc_overflow cf s) as [ok s1] eqn:Ei.
      assert (F1 : fr s1 = fr s) by (unfold inc_overflow in Ei; repeat dm Ei; inv Ei; auto).
      destruct ok; [|apply IHfuel in H; congruence].
      destruct (new_record cf s1) as [y s2] eqn:En. apply new_record_fr in En.
      dm H; inv H; cbn; congruence.
Qed.
Lemma do_get_fr : forall s x s', do_get cf s = (x, s') -> fr s' = fr s.
Proof.
  unfold do_get; intros. destruct (kind cf).
  - eapply do_get_queue_fr; eauto.
  - eapply new_record_fr; eauto.
  - match type of H with (let '(_, _) := ?e in _) = _ => destruct e as [y s1] eqn:E0 end.
    assert (F0 : fr s1 = fr s).
    { dm E0; [inv E0; auto|]. destruct (new_record cf s) as [z s2] eqn:En. apply new_record_fr in En.
      dm E0; inv E0; auto. }
    destruct y; [|inv H; auto]. dm H; [|inv H; auto].
    match type of H with context [new_record cf ?s0] => destruct (new_record cf s0) as [z s3] eqn:En end.
    apply new_record_fr in En. cbn in En. dm H; inv H; cbn; congruence.
  - dm H; [inv H; auto|]. destruct (new_record cf s) as [z s2] eqn:En. apply new_record_fr in En.
    dm H; inv H; auto.
  - dm H; [inv H; auto|].
    match type of H with (let '(_, _) := ?e in _) = _ => destruct e as [y s1] eqn:E0 end.
    assert (F0 : fr s1 = fr s).
    { dm E0; [inv E0; auto|]. destruct (new_record cf s) as [z s2] eqn:En. apply new_record_fr in En.
      dm E0; inv E0; auto. }
    destruct y; inv H; auto.
Qed.
Lemma do_return_conn_fr : forall r s x s', do_return_conn cf r s = (x, s') -> fr s' = fr s.
Proof.
  unfold do_return_conn; intros. destruct (kind cf).
  - dm H.
    + destruct (rec_close_if_open r s) as [y s1] eqn:E1. apply rec_close_if_open_rl, rl_fr' in E1. inv H. auto.
    + inv H; auto.
  - eapply rl_fr', rec_close_if_open_rl; eauto.
  - inv H; auto.
  - inv H; auto.
  - dm H; inv H; auto.
Qed.
Lemma rec_checkin_fr : forall r fwc s x s', rec_checkin cf r fwc s = (x, s') -> fr s' = fr s.
Proof.
  unfold rec_checkin; intros. dm H.
  - apply do_return_conn_fr in H. auto.
  - dm H; [inv H; auto|eapply do_return_conn_fr; eauto].
Qed.
Lemma checkin_failed_fr : forall r fwc s x s', checkin_failed cf r fwc s = (x, s') -> fr s' = fr s.
Proof.
  unfold checkin_failed; intros.
  destruct (rec_invalidate cf r false s) as [y s1] eqn:E1. apply rec_invalidate_rl, rl_fr' in E1.
  dm H.
  - apply rec_checkin_fr in H. congruence.
  - destruct (rec_checkin cf r fwc s1) as [w s2] eqn:E2. apply rec_checkin_fr in E2.
    destruct w; inv H; congruence.
Qed.

(* _ConnectionRecord.checkout makes exactly one fairy, or none when it raises *)
Lemma record_checkout_new : forall s x s', record_checkout cf s = (x, s') ->
  match x with
  | Ok f => f = nfairies s /\ nfairies s' = S (nfairies s) /\ f_dead s' f = false
  | Raise _ => fr s' = fr s
  end.
Proof.
  unfold record_checkout; intros.
  destruct (do_get cf s) as [[r|e] s1] eqn:E1; pose proof (do_get_fr _ _ _ E1) as F1; [|inv H; auto].
  destruct (get_connection cf r s1) as [[c|err] s2] eqn:E2;
    pose proof (rl_fr' _ _ (get_connection_rl _ _ _ _ _ E2)) as F2.
  - unfold new_fairy in H. inv H. unfold nfairies, f_dead in *. cbn. rewrite F2, F1. rewrite upd_same. auto.
  - destruct (checkin_failed cf r false s2) as [y s3] eqn:E3. apply checkin_failed_fr in E3.
    unfold reraise_after in H. destruct y; inv H; congruence.
Qed.

Lemma Mono_set_sg : forall s s2 f, Mono s s2 -> (nfairies s <= f < nfairies s2)%nat ->
  Mono s (set_sg_fairy s2 (Some f)).
Proof.
  intros s s2 f M Hf. pose proof M as [].
  constructor; sproj; intros; auto.
  inv H. right. lia.
Qed.

Lemma fairy_checkout_mono : forall ex thr s x s', fairy_checkout cf ex thr s = (x, s') -> Mono s s'.
Proof.
  unfold fairy_checkout; intros.
  match type of H with (let '(_, _) := ?e in _) = _ => destruct e as [x1 s1] eqn:E1 end.
  assert (M1 : Mono s s1).
  { destruct ex; [inv E1; apply Mono_refl|].
    destruct (record_checkout cf s) as [[f|e] s2] eqn:Er; pose proof (record_checkout_mono _ _ _ _ Er) as Mr;
      inv E1; auto.
    destruct thr; auto.
    (* set_sg_fairy to the new fairy: its index is new *)
    apply record_checkout_new in Er. destruct Er as [Ef [En _]].
    subst f. eapply Mono_set_sg; eauto. lia. }
  destruct x1 as [f|]; [|inv H; auto].
  repeat dm H; try (inv H; auto; fail).
  - inv H. mt; [exact M1|]. mono_leaf.
  - apply checkout_loop_mono in H. mt; [exact M1|]. mt; [|exact H]. mono_leaf.
Qed.
End Frame3.

Section Frame4.
Variable cf : cfg.

(* functions that neither create fairies nor change f_orig / f_dead *)
Definition SameNF (s s' : st) : Prop :=
  nfairies s' = nfairies s /\ f_orig s' = f_orig s /\ f_dead s' = f_dead s.
Lemma SameNF_refl : forall s, SameNF s s.
Proof. intros; repeat split. Qed.
Lemma SameNF_trans : forall a b c, SameNF a b -> SameNF b c -> SameNF a c.
Proof. intros a b c (?&?&?) (?&?&?); repeat split; congruence. Qed.
Lemma fr_SameNF : forall s s', fr s' = fr s -> SameNF s s'.
Proof. intros s s' H. unfold SameNF, nfairies, f_orig, f_dead. rewrite H. auto. Qed.
Ltac nf_leaf := unfold SameNF; sproj; auto.
Ltac nt := eapply SameNF_trans.

Lemma finalize_nf : forall dbc r gcf twr fy s x s', finalize cf dbc r gcf twr fy s = (x, s') -> SameNF s s'.
Proof.
  intros dbc r gcf twr fy s x s' H.
  eapply (finalize_gen cf SameNF SameNF_refl SameNF_trans); [| | | |exact H].
  - intros. apply fr_SameNF, rl_fr'. auto.
  - intros; nf_leaf.
  - intros. eapply fr_SameNF, rec_checkin_fr; eauto.
  - intros; unfold clear_fairy; destruct fy; [nf_leaf|apply SameNF_refl].
Qed.

Lemma fairy_checkin_nf : forall f twr s x s', fairy_checkin cf f twr s = (x, s') -> SameNF s s'.
Proof. unfold fairy_checkin; intros. eapply finalize_nf; eauto. Qed.

Lemma fairy_close_nf : forall f s x s', fairy_close cf f s = (x, s') -> SameNF s s'.
Proof.
  unfold fairy_close; intros. dm H.
  - apply fairy_checkin_nf in H. nt; [|exact H]. nf_leaf.
  - inv H. nf_leaf.
Qed.

Lemma fairy_invalidate_nf : forall f soft s x s', fairy_invalidate cf f soft s = (x, s') -> SameNF s s'.
Proof.
  unfold fairy_invalidate; intros. dm H; [|inv H; apply SameNF_refl].
  match type of H with (let '(_, _) := ?e in _) = _ => destruct e as [y s1] eqn:E0 end.
  assert (M0 : SameNF s s1).
  { dm E0; [eapply fr_SameNF, rl_fr', rec_invalidate_rl; eauto|inv E0; apply SameNF_refl]. }
  destruct y; [|inv H; auto]. destruct soft; [inv H; auto|].
  apply fairy_checkin_nf in H. nt; [exact M0|]. nt; [|exact H]. nf_leaf.
Qed.

Lemma fairy_detach_nf : forall f s x s', fairy_detach cf f s = (x, s') -> SameNF s s'.
Proof.
  unfold fairy_detach; intros. dm H; [|inv H; apply SameNF_refl].
  match type of H with context [do_return_conn cf ?r ?s0] =>
    destruct (do_return_conn cf r s0) as [y s4] eqn:E1; set (sx := s0) in * end.
  apply do_return_conn_fr in E1.
  assert (M0 : fr sx = fr s).
  { subst sx. unfold mark_det. repeat dm_goal; reflexivity. }
  dm H; inv H; [|apply fr_SameNF; congruence].
  apply (SameNF_trans _ s4); [apply fr_SameNF; congruence|nf_leaf].
Qed.

Lemma pool_invalidate_nf : forall f chk s x s', pool_invalidate cf f chk s = (x, s') -> SameNF s s'.
Proof.
  unfold pool_invalidate; intros.
  match type of H with context [if ?b then (let (_, _) := now cf s in _) else s] =>
    set (s1 := if b then (let (t, s1) := now cf s in mark_all (set_inv_time s1 t)) else s) in *;
    assert (M0 : fr s1 = fr s) end.
  { subst s1. match goal with |- fr (if ?b then _ else _) = _ => destruct b end; [|auto].
    destruct (now cf s) as [t s2] eqn:En. apply now_rl, rl_fr' in En. rewrite <- En. reflexivity. }
  destruct chk; [|inv H; apply fr_SameNF; auto].
  dm H; [|inv H; apply fr_SameNF; auto]. apply fairy_invalidate_nf in H. nt; [apply fr_SameNF; eauto|auto].
Qed.

Lemma checkout_loop_nf : forall n f s x s', checkout_loop cf n f s = (x, s') -> SameNF s s'.
Proof.
  induction n; intros f s x s' H; cbn [checkout_loop] in H.
  - destruct (fairy_invalidate cf f false s) as [y s1] eqn:E. apply fairy_invalidate_nf in E.
    destruct y; inv H; auto.
  - destruct (f_rec s f) as [r|] eqn:Er; [|inv H; apply SameNF_refl].
    destruct (f_dbc s f) as [c|] eqn:Ec; [|inv H; apply SameNF_refl].
    set (s0 := set_r_fresh s (upd (r_fresh s) r false)) in *.
    assert (M0 : SameNF s s0) by (subst s0; nf_leaf).
    match type of H with (let '(_, _) := ?e in _) = _ => destruct e as [x1 s1] eqn:E1 end.
    assert (M1 : SameNF s0 s1).
    { dm E1; [|inv E1; apply SameNF_refl].
      destruct (ext_ping c s0) as [z s2] eqn:Ep. apply ext_ping_rl, rl_fr', fr_SameNF in Ep.
      repeat dm E1; inv E1; auto. }
    match type of H with (let '(_, _) := ?e in _) = _ => destruct e as [x2 s2] eqn:E2 end.
    assert (M2 : SameNF s1 s2).
    { destruct x1; [|inv E2; apply SameNF_refl]. dm E2; [|inv E2; apply SameNF_refl].
      eapply fr_SameNF, rl_fr', ext_event_rl; eauto. }
    assert (M02 : SameNF s s2) by (nt; [exact M0|]; nt; eauto).
    destruct x2 as [|e]; [inv H; auto|].
    destruct (is_disc e).
    + destruct (rec_invalidate cf r false s2) as [y3 s3] eqn:E3.
      apply rec_invalidate_rl, rl_fr', fr_SameNF in E3.
      destruct y3; [|inv H; nt; eauto].
      match type of H with (let '(_, _) := ?e in _) = _ => destruct e as [y4 s4] eqn:E4 end.
      assert (M4 : SameNF s3 s4).
      { dm E4; [eapply pool_invalidate_nf; eauto|inv E4; apply SameNF_refl]. }
      destruct y4; [|inv H; nt; [exact M02|]; nt; eauto].
      destruct (get_connection cf r s4) as [[c'|err] s5] eqn:E5;
        pose proof (fr_SameNF _ _ (rl_fr' _ _ (get_connection_rl _ _ _ _ _ E5))) as M5.
      * apply IHn in H. nt; [exact M02|]. nt; [exact E3|]. nt; [exact M4|]. nt; [exact M5|].
        nt; [|exact H]. nf_leaf.
      * destruct (checkin_failed cf r true s5) as [y6 s6] eqn:E6.
        pose proof (fr_SameNF _ _ (checkin_failed_fr _ _ _ _ _ _ E6)) as M6.
        assert (SameNF s s6) by (nt; [exact M02|]; nt; [exact E3|]; nt; [exact M4|]; nt; eauto).
        unfold reraise_after in H. destruct y6; inv H; auto.
    + destruct (f_rec s2 f) as [r'|]; [|inv H; auto].
      destruct (checkin_failed cf r' true s2) as [y6 s6] eqn:E6.
      pose proof (fr_SameNF _ _ (checkin_failed_fr _ _ _ _ _ _ E6)) as M6.
      assert (SameNF s s6) by (nt; eauto).
      unfold reraise_after in H. destruct y6; inv H; auto.
Qed.

Lemma checkout_loop_ret : forall n f s g s', checkout_loop cf n f s = (Ok g, s') -> g = f.
Proof.
  induction n; intros f s g s' H; cbn [checkout_loop] in H.
  - repeat dm H; inv H.
  - repeat dm H; try (inv H; auto; fail); try (unfold reraise_after in H; repeat dm H; inv H; fail);
      try (eapply IHn; eauto).
Qed.

Lemma fairy_checkout_after : forall f s x s',
  (let n := f_counter s f + 1 in
   let s2 := set_f_counter s (upd (f_counter s) f n) in
   match f_rec s f, f_dbc s f with
   | Some _, Some _ =>
       if (negb (listener cf) && negb (pre_ping cf)) || negb (n =? 1) then (Ok f, s2)
       else checkout_loop cf 2 f s2
   | _, _ => (Raise AssertE, s)
   end) = (x, s') -> SameNF s s' /\ match x with Ok g => g = f | _ => True end.
Proof.
  cbv zeta. intros. repeat dm H; try (inv H; split; [try apply SameNF_refl|]; auto; nf_leaf; fail).
  pose proof H as H'. apply checkout_loop_nf in H. split; [eapply SameNF_trans; [|exact H]; nf_leaf|].
  destruct x; auto. eapply checkout_loop_ret; eauto.
Qed.

Lemma fairy_checkout_new : forall ex thr s x s', fairy_checkout cf ex thr s = (x, s') ->
  match ex with
  | Some f => SameNF s s' /\ match x with Ok g => g = f | _ => True end
  | None => match x with
            | Ok f => f = nfairies s /\ nfairies s' = S (nfairies s) /\ f_dead s' f = false
            | Raise _ => SameNF s s' \/ (nfairies s' = S (nfairies s) /\ f_dead s' (nfairies s) = false)
            end
  end.
Proof.
  unfold fairy_checkout; intros. destruct ex as [f|].
  - apply fairy_checkout_after in H. auto.
  - destruct (record_checkout cf s) as [[f|e] s1] eqn:Er; pose proof (record_checkout_new _ _ _ _ Er) as N;
      cbn beta iota in *.
    + destruct N as (Nf & Nn & Nd).
      set (s1' := if thr then set_sg_fairy s1 (Some f) else s1) in *.
      assert (S1 : fr s1' = fr s1) by (subst s1'; destruct thr; reflexivity).
      pose proof (fairy_checkout_after f s1' x s' H) as [(A1 & A2 & A3) B].
      unfold nfairies, f_dead in *. rewrite S1 in *.
      destruct x as [g|].
      * subst g. rewrite A1, A3. auto.
      * right. rewrite A1, A3. subst f. auto.
    + inv H. left. apply fr_SameNF; auto.
Qed.

Lemma pool_connect_new : forall s x s', pool_connect cf s = (x, s') ->
  match x with
  | Ok f => (SameNF s s' /\ sg_fairy s = Some f /\ f_dead s f = false)
            \/ (f = nfairies s /\ nfairies s' = S (nfairies s) /\ f_dead s' f = false)
  | Raise _ => SameNF s s' \/ (nfairies s' = S (nfairies s) /\ f_dead s' (nfairies s) = false)
  end.
Proof.
  unfold pool_connect; intros.
  assert (G : forall thr, fairy_checkout cf None thr s = (x, s') ->
     match x with
     | Ok f => (SameNF s s' /\ sg_fairy s = Some f /\ f_dead s f = false)
               \/ (f = nfairies s /\ nfairies s' = S (nfairies s) /\ f_dead s' f = false)
     | Raise _ => SameNF s s' \/ (nfairies s' = S (nfairies s) /\ f_dead s' (nfairies s) = false)
     end).
  { intros thr H0. apply fairy_checkout_new in H0. destruct x; auto. }
  destruct (kind cf); try exact (G _ H).
  destruct (sg_fairy s) as [f|] eqn:Es; [|exact (G _ H)].
  destruct (f_dead s f) eqn:Ed; [exact (G _ H)|].
  apply fairy_checkout_new in H. cbn beta iota in H. destruct H as [A B]. destruct x; auto. subst. left. auto.
Qed.

Lemma pool_connect_mono : forall s x s', pool_connect cf s = (x, s') -> Mono s s'.
Proof.
  unfold pool_connect; intros. repeat dm H; eapply fairy_checkout_mono; eauto.
Qed.
End Frame4.
