(* C26 - frame facts about the sequential pool model: which parts of the state each function can
   touch.  [RecLevel]: functions of the record/DBAPI layer leave fairies, holders, the pool structure,
   the set of records and every fairy_ref alone.  [Mono]: no function below [step] touches the holder
   slots, fairy_refs are only cleared or set to a brand-new fairy, taint flags are never reset. *)
From Coq Require Import List ZArith Bool Arith Lia.
Import ListNotations.
From SAV.engine Require Import PoolSeq.
Open Scope Z_scope.

Lemma upd_same : forall A (m : nat -> A) i v, upd m i v i = v.
Proof. intros. unfold upd. rewrite Nat.eqb_refl. reflexivity. Qed.
Lemma upd_other : forall A (m : nat -> A) i j v, j <> i -> upd m i v j = m j.
Proof. intros. unfold upd. destruct (Nat.eqb_spec j i); [contradiction|reflexivity]. Qed.

(* destruct the scrutinee of the innermost match / if in hypothesis H *)
Ltac dm H :=
  match type of H with
  | context [match ?x with _ => _ end] =>
      lazymatch x with
      | context [match _ with _ => _ end] => fail
      | _ => let E := fresh "E" in destruct x eqn:E
      end
  | context [if ?x then _ else _] =>
      lazymatch x with
      | context [if _ then _ else _] => fail
      | context [match _ with _ => _ end] => fail
      | _ => let E := fresh "E" in destruct x eqn:E
      end
  end.
Ltac inv H := inversion H; subst; clear H.

Definition taint (s : st) : bool := taint_close s || taint_gc s.

(* ------------------------------------------------------------------ RecLevel *)
Record RecLevel (s s' : st) : Prop := {
  rl_fr : fr s' = fr s;
  rl_hold : holders s' = holders s;
  rl_pl_q : q s' = q s;
  rl_pl_ov : overflow s' = overflow s;
  rl_pl_static : static s' = static s;
  rl_pl_sgr : sg_rec s' = sg_rec s;
  rl_pl_sgf : sg_fairy s' = sg_fairy s;
  rl_pl_asc : as_conn s' = as_conn s;
  rl_pl_aso : as_out s' = as_out s;
  rl_nrecs : nrecs s' = nrecs s;
  rl_fairy : r_fairy s' = r_fairy s;
  rl_tc : taint_close s = true -> taint_close s' = true;
  rl_tg : taint_gc s' = taint_gc s;
  rl_nconns : (nconns s <= nconns s')%nat }.

Lemma RecLevel_refl : forall s, RecLevel s s.
Proof. intros; constructor; auto. Qed.
Lemma RecLevel_trans : forall a b c, RecLevel a b -> RecLevel b c -> RecLevel a c.
Proof.
  intros a b c [] []; constructor; try congruence; try (etransitivity; eassumption); auto.
Qed.

Section Frame.
Variable cf : cfg.

Ltac rl_leaf := constructor; cbn; auto.

Lemma next_fault_rl : forall s c s', next_fault s = (c, s') -> RecLevel s s'.
Proof. unfold next_fault; intros. dm H; inv H; rl_leaf. Qed.
Lemma log_rl : forall k c s, RecLevel s (log k c s).
Proof. intros; unfold log; rl_leaf. Qed.
Lemma now_rl : forall s t s', now cf s = (t, s') -> RecLevel s s'.
Proof. unfold now; intros. dm H; inv H; rl_leaf. Qed.

Lemma ext_connect_rl : forall t s x s', ext_connect t s = (x, s') -> RecLevel s s'.
Proof.
  unfold ext_connect; intros. destruct (next_fault s) as [c s1] eqn:E. apply next_fault_rl in E.
  eapply RecLevel_trans; [exact E|]. dm H; inv H; unfold log; rl_leaf.
Qed.
Lemma ext_close_rl : forall c s x s', ext_close c s = (x, s') -> RecLevel s s'.
Proof.
  unfold ext_close; intros. destruct (next_fault s) as [c0 s1] eqn:E. apply next_fault_rl in E.
  eapply RecLevel_trans; [exact E|]. dm H; inv H; unfold log; rl_leaf.
Qed.
Lemma ext_reset_rl : forall k c s x s', ext_reset k c s = (x, s') -> RecLevel s s'.
Proof.
  unfold ext_reset; intros. destruct (next_fault s) as [c0 s1] eqn:E. apply next_fault_rl in E.
  eapply RecLevel_trans; [exact E|]. dm H; inv H; unfold log; rl_leaf.
Qed.
Lemma ext_ping_rl : forall c s x s', ext_ping c s = (x, s') -> RecLevel s s'.
Proof.
  unfold ext_ping; intros. destruct (next_fault s) as [c0 s1] eqn:E. apply next_fault_rl in E.
  eapply RecLevel_trans; [exact E|]. dm H; inv H; unfold log; rl_leaf.
Qed.
Lemma ext_event_rl : forall c s x s', ext_event c s = (x, s') -> RecLevel s s'.
Proof.
  unfold ext_event; intros. destruct (next_fault s) as [c0 s1] eqn:E. apply next_fault_rl in E.
  eapply RecLevel_trans; [exact E|]. repeat dm H; inv H; unfold log; rl_leaf.
Qed.

Lemma close_connection_rl : forall c s x s', close_connection c s = (x, s') -> RecLevel s s'.
Proof.
  unfold close_connection; intros. destruct (ext_close c s) as [y s1] eqn:E. apply ext_close_rl in E.
  repeat dm H; inv H; auto. eapply RecLevel_trans; [exact E|]. rl_leaf.
Qed.

Lemma rec_close_rl : forall r s x s', rec_close r s = (x, s') -> RecLevel s s'.
Proof.
  unfold rec_close; intros. dm H; [|inv H; apply RecLevel_refl].
  destruct (close_connection n s) as [y s1] eqn:E1. apply close_connection_rl in E1.
  dm H; inv H; auto. eapply RecLevel_trans; [exact E1|]. rl_leaf.
Qed.

Lemma rec_connect_rl : forall r s x s', rec_connect cf r s = (x, s') -> RecLevel s s'.
Proof.
  unfold rec_connect; intros.
  destruct (now cf (set_r_dbc s (upd (r_dbc s) r None))) as [t s2] eqn:E1.
  pose proof (now_rl _ _ _ E1) as R1.
  destruct (ext_connect t (set_r_start s2 (upd (r_start s2) r t))) as [y s4] eqn:E2.
  pose proof (ext_connect_rl _ _ _ _ E2) as R2.
  assert (R0 : RecLevel s (set_r_dbc s (upd (r_dbc s) r None))) by rl_leaf.
  assert (R12 : RecLevel s2 (set_r_start s2 (upd (r_start s2) r t))) by rl_leaf.
  assert (R : RecLevel s s4) by (eapply RecLevel_trans; [exact R0|]; eapply RecLevel_trans; [exact R1|];
                                 eapply RecLevel_trans; [exact R12|exact R2]).
  dm H; inv H; auto. eapply RecLevel_trans; [exact R|]. rl_leaf.
Qed.

Lemma rec_invalidate_rl : forall r soft s x s', rec_invalidate cf r soft s = (x, s') -> RecLevel s s'.
Proof.
  unfold rec_invalidate; intros. dm H; [|inv H; apply RecLevel_refl].
  destruct soft.
  - destruct (now cf s) as [t s1] eqn:E1. apply now_rl in E1. inv H.
    eapply RecLevel_trans; [exact E1|]. rl_leaf.
  - destruct (rec_close r s) as [y s1] eqn:E1. apply rec_close_rl in E1.
    dm H; inv H; auto. eapply RecLevel_trans; [exact E1|]. rl_leaf.
Qed.

Lemma get_connection_rl : forall r s x s', get_connection cf r s = (x, s') -> RecLevel s s'.
Proof.
  unfold get_connection; intros.
  match type of H with (let '(_, _) := ?e in _) = _ => destruct e as [rcy s1] eqn:E0 end.
  assert (R0 : RecLevel s s1).
  { destruct (r_dbc s r); [|inv E0; apply RecLevel_refl].
    destruct (-1 <? recycle cf).
    - destruct (now cf s) as [t s0] eqn:En. apply now_rl in En. repeat dm E0; inv E0; auto.
    - repeat dm E0; inv E0; apply RecLevel_refl. }
  match type of H with (let '(_, _) := ?e in _) = _ => destruct e as [y2 s2] eqn:E1 end.
  assert (R1 : RecLevel s1 s2).
  { destruct rcy as [[|]|].
    - destruct (rec_close r s1) as [y s3] eqn:Ec. apply rec_close_rl in Ec.
      destruct y; [|inv E1; auto]. apply rec_connect_rl in E1. eapply RecLevel_trans; eauto.
    - inv E1. apply RecLevel_refl.
    - apply rec_connect_rl in E1; auto. }
  repeat dm H; inv H; eapply RecLevel_trans; eauto.
Qed.

Lemma mark_det_rl : forall o s, RecLevel s (mark_det o s).
Proof. intros; unfold mark_det; destruct o; [rl_leaf|apply RecLevel_refl]. Qed.

Lemma fairy_reset_rl : forall c twr s x s', fairy_reset cf c twr s = (x, s') -> RecLevel s s'.
Proof.
  unfold fairy_reset; intros. repeat dm H; try (inv H; apply RecLevel_refl); eapply ext_reset_rl; eauto.
Qed.


(* ------------------------------------------------------------------ Mono *)
End Frame.

Record Mono (s s' : st) : Prop := {
  m_nf : (nfairies s <= nfairies s')%nat;
  m_orig : forall f, (f < nfairies s)%nat -> f_orig s' f = f_orig s f;
  m_dead : forall f, (f < nfairies s)%nat -> f_dead s' f = f_dead s f;
  m_fairy : forall r f, r_fairy s' r = Some f ->
            r_fairy s r = Some f \/
            ((nfairies s <= f < nfairies s')%nat /\ f_orig s' f = r /\ f_dead s' f = false);
  m_hold : holders s' = holders s;
  m_sg : forall f, sg_fairy s' = Some f -> sg_fairy s = Some f \/ (nfairies s <= f < nfairies s')%nat;
  m_tc : taint_close s = true -> taint_close s' = true;
  m_tg : taint_gc s = true -> taint_gc s' = true;
  m_nrecs : (nrecs s <= nrecs s')%nat }.

Lemma Mono_refl : forall s, Mono s s.
Proof. intros; constructor; auto. Qed.
Lemma Mono_trans : forall a b c, Mono a b -> Mono b c -> Mono a c.
Proof.
  intros a b c [] []; constructor; try lia; try congruence; auto.
  - intros. rewrite m_orig1 by lia. auto.
  - intros. rewrite m_dead1 by lia. auto.
  - intros r f H. destruct (m_fairy1 _ _ H) as [H1|[H1 [H2 H3]]].
    + destruct (m_fairy0 _ _ H1) as [H4|[H4 [H5 H6]]]; auto.
      right. split; [lia|]. rewrite m_orig1, m_dead1 by lia. auto.
    + right. split; [lia|auto].
  - intros f H. destruct (m_sg1 _ H) as [H1|H1]; [|right; lia].
    destruct (m_sg0 _ H1); [auto|right; lia].
Qed.
Lemma RecLevel_Mono : forall s s', RecLevel s s' -> Mono s s'.
Proof.
  intros s s' []. unfold nfairies, f_orig, f_dead, sg_fairy in *.
  constructor; unfold nfairies, f_orig, f_dead; try rewrite rl_fr0; auto; try lia.
  - intros. rewrite rl_fairy0 in H. auto.
  - intros. unfold sg_fairy in *. left. congruence.
  - rewrite rl_tg0; auto.
Qed.

Section Frame2.
Variable cf : cfg.

Ltac mono_leaf := constructor; cbn; intros; auto; try lia.
Ltac mt := eapply Mono_trans.

Lemma Mono_clear_fairy : forall s r, Mono s (set_r_fairy s (upd (r_fairy s) r None)).
Proof.
  intros. mono_leaf. left. unfold upd in H. destruct (Nat.eqb r0 r); [discriminate|auto].
Qed.

Lemma new_record_mono : forall s x s', new_record cf s = (x, s') -> Mono s s'.
Proof.
  unfold new_record; intros.
  match type of H with context [rec_connect cf ?r ?s0] => destruct (rec_connect cf r s0) as [y s7] eqn:E; set (sx := s0) in * end.
  apply rec_connect_rl, RecLevel_Mono in E.
  assert (M0 : Mono s sx).
  { subst sx. mono_leaf. left. unfold upd in H0. destruct (Nat.eqb r (nrecs s)); [discriminate|auto]. }
  dm H; inv H; mt; eauto.
Qed.

Lemma inc_overflow_mono : forall s b s', inc_overflow cf s = (b, s') -> Mono s s'.
Proof. unfold inc_overflow; intros. repeat dm H; inv H; try apply Mono_refl; mono_leaf. Qed.
Lemma dec_overflow_mono : forall s, Mono s (dec_overflow s).
Proof. intros; unfold dec_overflow; mono_leaf. Qed.
Lemma q_get_mono : forall s r s', q_get cf s = Some (r, s') -> Mono s s'.
Proof. unfold q_get; intros. repeat dm H; inv H; mono_leaf. Qed.

Lemma do_get_queue_mono : forall fuel s x s', do_get_queue cf fuel s = (x, s') -> Mono s s'.
Proof.
  induction fuel; intros s x s' H; cbn [do_get_queue] in H.
  - inv H. apply Mono_refl.
  - destruct (q_get cf s) as [[r s1]|] eqn:Eq.
    + inv H. eapply q_get_mono; eauto.
    + dm H.
      * dm H; [eauto|inv H; apply Mono_refl].
      * destruct (inc_overflow cf s) as [ok s1] eqn:Ei. apply inc_overflow_mono in Ei.
        destruct ok.
        -- destruct (new_record cf s1) as [y s2] eqn:En. apply new_record_mono in En.
           dm H; inv H; mt; eauto. mt; eauto. apply dec_overflow_mono.
        -- mt; eauto.
Qed.

Lemma do_get_mono : forall s x s', do_get cf s = (x, s') -> Mono s s'.
Proof.
  unfold do_get; intros. destruct (kind cf).
  - eapply do_get_queue_mono; eauto.
  - eapply new_record_mono; eauto.
  - match type of H with (let '(_, _) := ?e in _) = _ => destruct e as [y s1] eqn:E0 end.
    assert (M0 : Mono s s1).
    { dm E0; [inv E0; apply Mono_refl|].
      destruct (new_record cf s) as [z s2] eqn:En. apply new_record_mono in En.
      dm E0; inv E0; auto. mt; eauto. mono_leaf. }
    destruct y; [|inv H; auto].
    dm H; [|inv H; auto].
    match type of H with context [new_record cf ?s0] => destruct (new_record cf s0) as [z s3] eqn:En; set (sx := s0) in * end.
    apply new_record_mono in En.
    assert (M1 : Mono s1 sx) by (subst sx; mono_leaf).
    dm H; inv H.
    + mt; [exact M0|]. mt; [exact M1|]. mt; [exact En|]. mono_leaf.
    + mt; [exact M0|]. mt; eauto.
  - dm H; [inv H; apply Mono_refl|].
    destruct (new_record cf s) as [z s2] eqn:En. apply new_record_mono in En.
    dm H; inv H; auto. mt; eauto. mono_leaf.
  - dm H; [inv H; apply Mono_refl|].
    match type of H with (let '(_, _) := ?e in _) = _ => destruct e as [y s1] eqn:E0 end.
    assert (M0 : Mono s s1).
    { dm E0; [inv E0; apply Mono_refl|].
      destruct (new_record cf s) as [z s2] eqn:En. apply new_record_mono in En.
      dm E0; inv E0; auto. mt; eauto. mono_leaf. }
    destruct y; inv H; auto. mt; eauto. mono_leaf.
Qed.

Lemma rec_close_if_open_rl : forall r s x s', rec_close_if_open r s = (x, s') -> RecLevel s s'.
Proof. unfold rec_close_if_open; intros. dm H; [eapply rec_close_rl; eauto|inv H; apply RecLevel_refl]. Qed.

Lemma do_return_conn_mono : forall r s x s', do_return_conn cf r s = (x, s') -> Mono s s'.
Proof.
  unfold do_return_conn; intros. destruct (kind cf).
  - dm H.
    + destruct (rec_close_if_open r s) as [y s1] eqn:E1. apply rec_close_if_open_rl, RecLevel_Mono in E1.
      inv H. mt; eauto. apply dec_overflow_mono.
    + inv H. mono_leaf.
  - eapply RecLevel_Mono, rec_close_if_open_rl; eauto.
  - inv H; apply Mono_refl.
  - inv H. mono_leaf. discriminate.
  - dm H; inv H; try apply Mono_refl. mono_leaf.
Qed.

Lemma rec_checkin_mono : forall r fwc s x s', rec_checkin cf r fwc s = (x, s') -> Mono s s'.
Proof.
  unfold rec_checkin; intros. dm H.
  - apply do_return_conn_mono in H. mt; [apply Mono_clear_fairy|exact H].
  - dm H; [inv H; apply Mono_refl|eapply do_return_conn_mono; eauto].
Qed.

Lemma checkin_failed_mono : forall r fwc s x s', checkin_failed cf r fwc s = (x, s') -> Mono s s'.
Proof.
  unfold checkin_failed; intros.
  destruct (rec_invalidate cf r false s) as [y s1] eqn:E1. apply rec_invalidate_rl, RecLevel_Mono in E1.
  dm H; [|inv H; auto]. apply rec_checkin_mono in H. mt; eauto.
Qed.

Lemma reraise_after_mono : forall A e (h : res unit * st) (x : res A) s s',
  reraise_after e h = (x, s') -> Mono s (snd h) -> Mono s s'.
Proof. unfold reraise_after; intros. destruct h as [[|] s1]; inv H; auto. Qed.

Lemma record_checkout_mono : forall s x s', record_checkout cf s = (x, s') -> Mono s s'.
Proof.
  unfold record_checkout; intros.
  destruct (do_get cf s) as [[r|e] s1] eqn:E1; pose proof (do_get_mono _ _ _ E1) as M1; [|inv H; auto].
  destruct (get_connection cf r s1) as [[c|err] s2] eqn:E2;
    pose proof (RecLevel_Mono _ _ (get_connection_rl _ _ _ _ _ E2)) as M2.
  - inv H. mt; [exact M1|]. mt; [exact M2|]. clear.
    constructor; cbn; intros; auto; try lia.
    + rewrite upd_other by lia. auto.
    + rewrite upd_other by lia. auto.
    + unfold upd in H. destruct (Nat.eqb r0 r) eqn:Er.
      * inv H. right. apply Nat.eqb_eq in Er. subst. rewrite !upd_same. repeat split; lia.
      * auto.
  - destruct (checkin_failed cf r false s2) as [y s3] eqn:E3.
    pose proof (checkin_failed_mono _ _ _ _ _ E3) as M3.
    eapply reraise_after_mono; [exact H|]. cbn. mt; [exact M1|]. mt; eauto.
Qed.

End Frame2.
