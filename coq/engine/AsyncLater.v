(* C29 - "later operations on the engine work" *)
From Coq Require Import List ZArith Bool Arith Lia.
Import ListNotations.
From SAV.engine Require Import Async AsyncConn AsyncExec AsyncWorld AsyncSafe AsyncNoCancel.
Open Scope Z_scope.

Section Later.
  Variable cf : cfg.
  Hypothesis Hps : 1 <= psize cf.

  (* on a safe engine a block that is not cancelled runs to completion and leaves the engine safe *)
  Theorem later_ok sty ops s w cs :
    sty <> SLeak -> Done cf s w -> ncancel cs = 0%nat ->
    let '(o, s', w', _) := exec (block cf async_api sty ops) s w cs in
    o = Ok VUnit /\ Done cf s' w' /\ n_warn s' = n_warn s.
  Proof.
    intros Hs D Hq.
    pose proof (block_safe cf Hps sty ops s w cs Hs D ltac:(lia)) as B.
    pose proof (block_not_cancelled cf sty ops s w cs Hq) as Nc.
    destruct (exec (block cf async_api sty ops) s w cs) as [[[o s'] w'] cs'].
    destruct B as (B1 & B2 & _ & [-> | ->]); [auto|]. exfalso. apply Nc. reflexivity.
  Qed.

  (* the cancellation clause of C29 in one statement: any tasks on a fresh engine with at most one
     cancellation anywhere, then one more task that is not cancelled: it completes, and the engine is
     safe (connection returned exactly once, no open transaction, nothing left to the collector) *)
  Theorem later_operations_work bs cs sty ops :
    sty <> SLeak -> (ncancel cs <= 1)%nat ->
    let '(s1, w1, _) := run_tasks cf bs (init_pst cf) init_world cs in
    let '(o, s', w', _) := exec (block cf async_api sty ops) s1 w1 [] in
    o = Ok VUnit /\ Done cf s' w'.
  Proof.
    intros Hs Hc.
    pose proof (tasks_safe cf Hps bs (init_pst cf) init_world cs (init_done cf Hps) Hc) as T.
    destruct (run_tasks cf bs (init_pst cf) init_world cs) as [[s1 w1] cs1]. destruct T as [T _].
    pose proof (later_ok sty ops s1 w1 [] Hs T eq_refl) as L.
    destruct (exec (block cf async_api sty ops) s1 w1 []) as [[[o s'] w'] cs'].
    destruct L as (L1 & L2 & _). auto.
  Qed.
End Later.
