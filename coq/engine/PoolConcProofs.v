(* C25 proofs: identity safety for every configuration, accounting for max_overflow >= 0,
   over all schedules (all accepted event traces from the initial state, any number of threads). *)
From Coq Require Import List ZArith Bool Lia Arith Permutation.
Import ListNotations.
From SAV.engine Require Import PoolConc.
Open Scope Z_scope.

Definition owns (p : option pc) (x : conn) : Prop :=
  match p with Some (Holding y) | Some (R1 y) | Some (R2 y) => y = x | _ => False end.

Lemma nth_error_upd ts : forall i j p,
  nth_error (upd ts i p) j =
  if Nat.eqb j i then (match nth_error ts i with Some _ => Some p | None => None end) else nth_error ts j.
Proof.
  induction ts as [|x r IH]; intros i j p.
  - destruct i, j; cbn; try reflexivity; destruct (Nat.eqb _ _); reflexivity.
  - destruct i as [|i], j as [|j]; cbn; try reflexivity. apply IH.
Qed.

Lemma upd_length ts : forall i p, length (upd ts i p) = length ts.
Proof. induction ts as [|x r IH]; intros [|i] p; cbn; auto. Qed.

Lemma nodup_app_r {A} (l1 l2 : list A) : NoDup (l1 ++ l2) -> NoDup l2.
Proof. induction l1 as [|a l1 IH]; cbn; [auto|]. intros H. inversion H; subst. auto. Qed.

(* ---- list facts about held ---- *)
Lemma in_remove_pair i x h j y :
  In (j, y) (remove_pair i x h) <-> In (j, y) h /\ ~ (j = i /\ y = x).
Proof.
  unfold remove_pair. rewrite filter_In. cbn [fst snd]. split.
  - intros [H1 H2]. split; [exact H1|]. intros [-> ->]. rewrite !Nat.eqb_refl in H2. discriminate.
  - intros [H1 H2]. split; [exact H1|].
    destruct (Nat.eqb_spec j i) as [->|]; [|reflexivity]. destruct (Nat.eqb_spec y x) as [->|]; [|reflexivity].
    exfalso. apply H2. split; reflexivity.
Qed.

Lemma remove_pair_perm i x : forall h, NoDup (map snd h) -> In (i, x) h ->
  Permutation (map snd h) (x :: map snd (remove_pair i x h)).
Proof.
  induction h as [|[j y] h IH]; intros Hn Hin; [destruct Hin|].
  cbn [map snd] in Hn. inversion Hn as [|? ? Hny Hn']; subst.
  cbn [remove_pair filter fst snd]. destruct Hin as [E|Hin].
  - inversion E; subst. rewrite !Nat.eqb_refl. cbn [andb negb].
    assert (Hf : filter (fun p => negb (Nat.eqb (fst p) i && Nat.eqb (snd p) x)) h = h).
    { clear -Hny. induction h as [|[k z] h IH]; [reflexivity|]. cbn [filter fst snd map] in *.
      destruct (Nat.eqb_spec z x) as [->|]; [exfalso; apply Hny; left; reflexivity|].
      rewrite andb_false_r. cbn [negb]. f_equal. apply IH. intros H. apply Hny. right. exact H. }
    fold (remove_pair i x h). unfold remove_pair. rewrite Hf. cbn [map snd]. apply Permutation_refl.
  - assert (Hyx : y <> x).
    { intros ->. apply Hny. apply in_map_iff. exists (i, x). split; [reflexivity|exact Hin]. }
    destruct (Nat.eqb_spec y x); [contradiction|]. rewrite andb_false_r. cbn [negb map snd].
    fold (remove_pair i x h). eapply perm_trans; [apply perm_skip; apply IH; assumption|]. apply perm_swap.
Qed.

Lemma remove_pair_len i x h : NoDup (map snd h) -> In (i, x) h ->
  Z.of_nat (length (remove_pair i x h)) + 1 = Z.of_nat (length h).
Proof.
  intros Hn Hin. pose proof (Permutation_length (remove_pair_perm i x h Hn Hin)) as H.
  rewrite !map_length in H. cbn [length] in H. rewrite map_length in H. lia.
Qed.

Lemma qpop_spec l q y q' : qpop l q = Some (y, q') -> Permutation q (y :: q') /\ length q = S (length q').
Proof.
  unfold qpop. destruct l.
  - destruct (rev q) as [|z r] eqn:E; [discriminate|]. intros H; inversion H; subst.
    assert (Hq : q = rev r ++ [y]) by (rewrite <- (rev_involutive q), E; reflexivity).
    subst q. split; [apply Permutation_sym, Permutation_cons_append|]. rewrite app_length. cbn. lia.
  - destruct q as [|z r]; [discriminate|]. intros H; inversion H; subst. split; [apply Permutation_refl|reflexivity].
Qed.

Section P.
Variable c : cfg.

(* ---------- identity invariant: holds for every configuration ---------- *)
Definition Inv_id (st : state) : Prop :=
  let (s, ts) := st in
  NoDup (opened s) /\ forall i x, In (i, x) (held s) <-> owns (nth_error ts i) x.


Lemma nth_repeat_idle n i : owns (nth_error (repeat Idle n) i) = fun _ => False.
Proof. revert i. induction n; intros [|i]; cbn; auto. Qed.

Lemma Inv_id_init n : Inv_id (init c n).
Proof. cbn. split; [constructor|]. intros i x. rewrite nth_repeat_idle. split; intros []. Qed.

Ltac upd_cases j i :=
  rewrite nth_error_upd; destruct (Nat.eqb_spec j i) as [->|].

Lemma owns_keep ts i p p' s_held :
  nth_error ts i = Some p ->
  (forall x, owns (Some p) x <-> owns (Some p') x) ->
  (forall j x, In (j, x) s_held <-> owns (nth_error ts j) x) ->
  forall j x, In (j, x) s_held <-> owns (nth_error (upd ts i p') j) x.
Proof.
  intros Hn Hp H j x. upd_cases j i; [|apply H]. rewrite Hn. rewrite H, Hn. apply Hp.
Qed.

Lemma owns_add ts i p x0 s_held :
  nth_error ts i = Some p -> (forall x, ~ owns (Some p) x) ->
  (forall j x, In (j, x) s_held <-> owns (nth_error ts j) x) ->
  forall j x, In (j, x) ((i, x0) :: s_held) <-> owns (nth_error (upd ts i (Holding x0)) j) x.
Proof.
  intros Hn Hp H j x. upd_cases j i.
  - rewrite Hn. cbn [owns In]. split.
    + intros [E|Hin]; [inversion E; reflexivity|]. apply H in Hin. rewrite Hn in Hin. exfalso. exact (Hp _ Hin).
    + intros ->. left; reflexivity.
  - cbn [In]. rewrite <- H. split; [intros [E|Hin]; [inversion E; congruence|exact Hin]|auto].
Qed.

Lemma owns_remove ts i x0 p p' s_held :
  nth_error ts i = Some p -> (forall x, owns (Some p) x <-> x = x0) -> (forall x, ~ owns (Some p') x) ->
  (forall j x, In (j, x) s_held <-> owns (nth_error ts j) x) ->
  forall j x, In (j, x) (remove_pair i x0 s_held) <-> owns (nth_error (upd ts i p') j) x.
Proof.
  intros Hn Hp Hp' H j x. rewrite in_remove_pair. upd_cases j i.
  - rewrite Hn. split.
    + intros [Hin Hne]. apply H in Hin. rewrite Hn in Hin. apply Hp in Hin. exfalso. apply Hne. auto.
    + intros Ho. exfalso. exact (Hp' _ Ho).
  - rewrite H. split; [intros [Ho _]; exact Ho|intros Ho; split; [exact Ho|intros [E _]; contradiction]].
Qed.

Theorem stepf_inv_id st e st' : Inv_id st -> stepf c st e = Some st' -> Inv_id st'.
Proof.
  destruct st as [s ts]. intros [Hnd Hown] Hs. unfold stepf in Hs. destruct e.
  - (* EStart *) destruct (nth_error ts i) as [[]|] eqn:En; try discriminate. inversion Hs; subst. split; [exact Hnd|].
    apply (owns_keep ts i Idle _ _ En); [|exact Hown]. intros x; destruct (use_overflow c); cbn; tauto.
  - (* ERd1 *) destruct (nth_error ts i) as [[]|] eqn:En; try discriminate;
      (destruct (v =? overflow s); [|discriminate]); inversion Hs; subst; (split; [exact Hnd|]);
      (eapply owns_keep; [exact En| |exact Hown]); intros x; cbn; tauto.
  - (* EQGet *)
    assert (Hcore : forall p, nth_error ts i = Some p -> (forall x, ~ owns (Some p) x) ->
      match qpop (lifo c) (queue s) with
      | Some (y, q') => if Nat.eqb c0 y then Some ({| queue := q'; overflow := overflow s; held := (i, c0) :: held s |}, upd ts i (Holding c0)) else None
      | None => None end = Some st' -> Inv_id st').
    { intros p En Hp H. destruct (qpop (lifo c) (queue s)) as [[y q']|] eqn:Eq; [|discriminate].
      destruct (Nat.eqb_spec c0 y) as [->|]; [|discriminate]. inversion H; subst. cbn.
      destruct (qpop_spec _ _ _ _ Eq) as [Hperm _]. split.
      - unfold opened in *. cbn [queue held map snd].
        eapply Permutation_NoDup; [|exact Hnd].
        eapply perm_trans; [apply Permutation_app_tail; exact Hperm|]. cbn. apply Permutation_middle.
      - apply (owns_add ts i p y _ En Hp Hown). }
    destruct (nth_error ts i) as [[]|] eqn:En; try discriminate;
      (eapply Hcore; [reflexivity| |exact Hs]); intros x; cbn; tauto.
  - (* EQEmpty *) destruct (nth_error ts i) as [[]|] eqn:En; try discriminate; destruct (queue s) eqn:Eq; try discriminate;
      inversion Hs; subst; (split; [exact Hnd|]).
    + apply (owns_keep ts i (G2 wait) _ _ En); [|exact Hown]. intros x; destruct (use_overflow c); cbn; tauto.
    + apply (owns_keep ts i GW _ _ En); [|exact Hown]. intros x; cbn; tauto.
  - (* EQWait *) destruct (nth_error ts i) as [[| |[|]| | | | | | | | | | | | | | | | ]|] eqn:En; try discriminate;
      destruct (queue s) eqn:Eq; try discriminate; inversion Hs; subst; (split; [exact Hnd|]); [|exact Hown].
    apply (owns_keep ts i (G2 true) _ _ En); [|exact Hown]. intros x; cbn; tauto.
  - (* ERd2 *) destruct (nth_error ts i) as [[]|] eqn:En; try discriminate.
    destruct (negb (v =? overflow s)); [discriminate|].
    destruct (use_overflow c && (max_overflow c <=? v)); inversion Hs; subst; (split; [exact Hnd|]);
      apply (owns_keep ts i (G3 wait) _ _ En); try exact Hown; intros x; try destruct wait; cbn; tauto.
  - (* EInc *) destruct (nth_error ts i) as [[]|] eqn:En; try discriminate.
    destruct (negb (use_overflow c)); [discriminate|].
    destruct (overflow s <? max_overflow c); destruct b; try discriminate; inversion Hs; subst;
      (split; [exact Hnd|]); apply (owns_keep ts i G4 _ _ En); try exact Hown; intros x; cbn; tauto.
  - (* ECreate *) destruct (nth_error ts i) as [[]|] eqn:En; try discriminate. destruct ok.
    + destruct (existsb (Nat.eqb c0) (opened s)) eqn:Ex; [discriminate|]. inversion Hs; subst. cbn. split.
      * unfold opened in *. cbn [queue held map snd].
        eapply Permutation_NoDup; [apply Permutation_middle|]. constructor; [|exact Hnd].
        intros Hin. assert (existsb (Nat.eqb c0) (queue s ++ map snd (held s)) = true).
        { apply existsb_exists. exists c0. split; [exact Hin|apply Nat.eqb_refl]. } congruence.
      * apply (owns_add ts i G5 c0 _ En); [intros x; cbn; tauto|exact Hown].
    + inversion Hs; subst. split; [exact Hnd|].
      apply (owns_keep ts i G5 _ _ En); [|exact Hown]. intros x; destruct (use_overflow c); cbn; tauto.
  - (* EDec *) destruct (nth_error ts i) as [[]|] eqn:En; try discriminate; destruct (use_overflow c); try discriminate;
      inversion Hs; subst; (split; [exact Hnd|]).
    + apply (owns_keep ts i G6 _ _ En); [|exact Hown]. intros x; cbn; tauto.
    + apply (owns_keep ts i R3 _ _ En); [|exact Hown]. intros x; cbn; tauto.
  - (* ERelease *) destruct (nth_error ts i) as [[]|] eqn:En; try discriminate. inversion Hs; subst. split; [exact Hnd|].
    apply (owns_keep ts i (Holding c0) _ _ En); [|exact Hown]. intros x; cbn; tauto.
  - (* EQPut *) destruct (nth_error ts i) as [[]|] eqn:En; try discriminate.
    destruct (qlen s <? pool_size c); [|discriminate]. inversion Hs; subst. cbn.
    assert (Hin : In (i, c0) (held s)) by (apply Hown; rewrite En; reflexivity).
    assert (Hnh : NoDup (map snd (held s))).
    { unfold opened in Hnd. apply nodup_app_r in Hnd. exact Hnd. }
    split.
    + unfold opened in *. cbn [queue held].
      eapply Permutation_NoDup; [|exact Hnd]. rewrite <- app_assoc. cbn [app].
      apply Permutation_app_head. apply remove_pair_perm; assumption.
    + apply (owns_remove ts i c0 (R1 c0) Idle _ En); [intros x; cbn; split; auto|intros x; cbn; tauto|exact Hown].
  - (* EQFull *) destruct (nth_error ts i) as [[]|] eqn:En; try discriminate.
    destruct (qlen s <? pool_size c); [discriminate|]. inversion Hs; subst. split; [exact Hnd|].
    apply (owns_keep ts i (R1 c0) _ _ En); [|exact Hown]. intros x; cbn; tauto.
  - (* EClose *) destruct (nth_error ts i) as [[]|] eqn:En; try discriminate. inversion Hs; subst. cbn.
    assert (Hin : In (i, c0) (held s)) by (apply Hown; rewrite En; reflexivity).
    assert (Hnh : NoDup (map snd (held s))).
    { unfold opened in Hnd. apply nodup_app_r in Hnd. exact Hnd. }
    split.
    + unfold opened in *. cbn [queue held].
      pose proof (remove_pair_perm i c0 (held s) Hnh Hin) as Hp.
      assert (Hnd2 : NoDup (queue s ++ c0 :: map snd (remove_pair i c0 (held s)))).
      { eapply Permutation_NoDup; [apply Permutation_app_head; exact Hp|exact Hnd]. }
      apply NoDup_remove_1 in Hnd2. exact Hnd2.
    + apply (owns_remove ts i c0 (R2 c0) _ _ En); [intros x; cbn; split; auto| |exact Hown].
      intros x; destruct (use_overflow c); cbn; tauto.
  - (* EURd *) destruct (use_overflow c); [discriminate|]. destruct (negb (v =? overflow s)); [discriminate|].
    destruct (nth_error ts i) as [[]|] eqn:En; try discriminate; inversion Hs; subst; (split; [exact Hnd|]).
    + apply (owns_keep ts i U4 _ _ En); [|exact Hown]. intros x; cbn; tauto.
    + apply (owns_keep ts i U6 _ _ En); [|exact Hown]. intros x; cbn; tauto.
    + apply (owns_keep ts i U3 _ _ En); [|exact Hown]. intros x; cbn; tauto.
  - (* EUWr *) destruct (use_overflow c); [discriminate|].
    destruct (nth_error ts i) as [[]|] eqn:En; try discriminate;
      match type of Hs with (if ?b then _ else _) = _ => destruct b; [|discriminate] end;
      inversion Hs; subst; (split; [exact Hnd|]).
    + apply (owns_keep ts i (U4w v0) _ _ En); [|exact Hown]. intros x; cbn; tauto.
    + apply (owns_keep ts i (U6w v0) _ _ En); [|exact Hown]. intros x; cbn; tauto.
    + apply (owns_keep ts i (U3w v0) _ _ En); [|exact Hown]. intros x; cbn; tauto.
Qed.

Theorem run_inv_id : forall tr st st', Inv_id st -> run c st tr = Some st' -> Inv_id st'.
Proof.
  induction tr as [|e tr IH]; intros st st' Hi Hr; cbn in Hr; [inversion Hr; subst; exact Hi|].
  destruct (stepf c st e) as [st1|] eqn:E; [|discriminate]. eapply IH; [|exact Hr]. eapply stepf_inv_id; eassumption.
Qed.

Theorem reach_inv_id st : reach c st -> Inv_id st.
Proof. intros [n [tr H]]. eapply run_inv_id; [apply Inv_id_init|exact H]. Qed.

(* no DBAPI connection is held by two checkouts at the same time, nor idle and held at once *)
Theorem no_double_hold s ts : reach c (s, ts) ->
  forall i j x, owns (nth_error ts i) x -> owns (nth_error ts j) x -> i = j.
Proof.
  intros Hr i j x Hi Hj. apply reach_inv_id in Hr. destruct Hr as [Hnd Hown].
  apply Hown in Hi. apply Hown in Hj.
  assert (Hnh : NoDup (map snd (held s))) by (unfold opened in Hnd; apply nodup_app_r in Hnd; exact Hnd).
  clear -Hi Hj Hnh. induction (held s) as [|[k y] h IH]; [destruct Hi|].
  cbn [map snd] in Hnh. inversion Hnh as [|? ? Hny Hn']; subst.
  destruct Hi as [Ei|Hi], Hj as [Ej|Hj].
  - inversion Ei; inversion Ej; subst; reflexivity.
  - inversion Ei; subst. exfalso. apply Hny. apply in_map_iff. exists (j, x). split; [reflexivity|exact Hj].
  - inversion Ej; subst. exfalso. apply Hny. apply in_map_iff. exists (i, x). split; [reflexivity|exact Hi].
  - apply IH; assumption.
Qed.

Theorem idle_not_held s ts : reach c (s, ts) ->
  forall i x, owns (nth_error ts i) x -> ~ In x (queue s).
Proof.
  intros Hr i x Hi Hq. apply reach_inv_id in Hr. destruct Hr as [Hnd Hown]. apply Hown in Hi.
  unfold opened in Hnd. revert Hnd Hq. generalize (queue s) as q. induction q as [|y q IH]; intros Hnd Hq; [destruct Hq|].
  cbn in Hnd. inversion Hnd as [|? ? Hny Hn']; subst. destruct Hq as [->|Hq].
  - apply Hny. apply in_or_app. right. apply in_map_iff. exists (i, x). split; [reflexivity|exact Hi].
  - apply IH; assumption.
Qed.

(* ---------- accounting invariant: max_overflow >= 0 ---------- *)
Hypothesis ps_pos : 0 <= pool_size c.
Hypothesis mo_nonneg : 0 <= max_overflow c.

Definition pending (p : pc) : Z := match p with G5 | G6 | R3 => 1 | _ => 0 end.
Fixpoint sumz (f : pc -> Z) (ts : list pc) : Z := match ts with [] => 0 | p :: r => f p + sumz f r end.
Definition hlen (s : shared) : Z := Z.of_nat (length (held s)).

Definition Inv_cnt (st : state) : Prop :=
  let (s, ts) := st in
  0 <= qlen s <= pool_size c /\
  overflow s + pool_size c = qlen s + hlen s + sumz pending ts /\
  overflow s <= max_overflow c.

Lemma sumz_repeat f n : f Idle = 0 -> sumz f (repeat Idle n) = 0.
Proof. intros H. induction n; cbn; lia. Qed.

Lemma sumz_upd f ts : forall i p0 p, nth_error ts i = Some p0 -> sumz f (upd ts i p) = sumz f ts - f p0 + f p.
Proof.
  induction ts as [|x r IH]; intros i p0 p H; [destruct i; discriminate|].
  destruct i as [|j]; cbn in *.
  - inversion H; subst. lia.
  - rewrite (IH j p0 p H). lia.
Qed.

Lemma uo_true : use_overflow c = true.
Proof. unfold use_overflow. apply Z.ltb_lt. lia. Qed.

Lemma Inv_cnt_init n : Inv_cnt (init c n).
Proof. cbn. unfold qlen, hlen. cbn. rewrite sumz_repeat by reflexivity. lia. Qed.

Theorem stepf_inv_cnt st e st' : Inv_id st -> Inv_cnt st -> stepf c st e = Some st' -> Inv_cnt st'.
Proof.
  destruct st as [s ts]. intros [Hnd Hown] [Hq [Hv Hm]] Hs. unfold stepf in Hs. rewrite ?uo_true in Hs.
  destruct e; cbn [negb andb] in Hs.
  - destruct (nth_error ts i) as [[]|] eqn:En; try discriminate. inversion Hs; subst.
    unfold Inv_cnt. rewrite (sumz_upd pending _ _ _ _ En). cbn [pending]. lia.
  - destruct (nth_error ts i) as [[]|] eqn:En; try discriminate;
      (destruct (v =? overflow s); [|discriminate]); inversion Hs; subst;
      unfold Inv_cnt; rewrite (sumz_upd pending _ _ _ _ En); cbn [pending]; lia.
  - assert (Hcore : forall p, nth_error ts i = Some p -> pending p = 0 ->
      match qpop (lifo c) (queue s) with
      | Some (y, q') => if Nat.eqb c0 y then Some ({| queue := q'; overflow := overflow s; held := (i, c0) :: held s |}, upd ts i (Holding c0)) else None
      | None => None end = Some st' -> Inv_cnt st').
    { intros p En Hp H. destruct (qpop (lifo c) (queue s)) as [[y q']|] eqn:Eq; [|discriminate].
      destruct (Nat.eqb c0 y); [|discriminate]. inversion H; subst.
      destruct (qpop_spec _ _ _ _ Eq) as [_ Hlen]. unfold Inv_cnt, qlen, hlen in *. cbn [queue held overflow length].
      rewrite (sumz_upd pending _ _ _ _ En). cbn [pending]. rewrite Hp. lia. }
    destruct (nth_error ts i) as [[]|] eqn:En; try discriminate; (eapply Hcore; [reflexivity|reflexivity|exact Hs]).
  - destruct (nth_error ts i) as [[]|] eqn:En; try discriminate; destruct (queue s) eqn:Eq; try discriminate;
      inversion Hs; subst; unfold Inv_cnt; rewrite (sumz_upd pending _ _ _ _ En); cbn [pending]; lia.
  - destruct (nth_error ts i) as [[| |[|]| | | | | | | | | | | | | | | | ]|] eqn:En; try discriminate;
      destruct (queue s) eqn:Eq; try discriminate; inversion Hs; subst; unfold Inv_cnt.
    + rewrite (sumz_upd pending _ _ _ _ En). cbn [pending]. lia.
    + lia.
  - destruct (nth_error ts i) as [[]|] eqn:En; try discriminate.
    destruct (negb (v =? overflow s)); [discriminate|].
    destruct (max_overflow c <=? v); inversion Hs; subst; unfold Inv_cnt;
      rewrite (sumz_upd pending _ _ _ _ En); destruct wait; cbn [pending]; lia.
  - destruct (nth_error ts i) as [[]|] eqn:En; try discriminate.
    destruct (overflow s <? max_overflow c) eqn:El; destruct b; try discriminate; inversion Hs; subst;
      unfold Inv_cnt, set_ov, qlen, hlen in *; cbn [queue held overflow];
      rewrite (sumz_upd pending _ _ _ _ En); cbn [pending]; [apply Z.ltb_lt in El|]; lia.
  - destruct (nth_error ts i) as [[]|] eqn:En; try discriminate. destruct ok.
    + destruct (existsb (Nat.eqb c0) (opened s)); [discriminate|]. inversion Hs; subst.
      unfold Inv_cnt, qlen, hlen in *. cbn [queue held overflow length].
      rewrite (sumz_upd pending _ _ _ _ En). cbn [pending]. lia.
    + inversion Hs; subst. unfold Inv_cnt. rewrite (sumz_upd pending _ _ _ _ En). cbn [pending]. lia.
  - destruct (nth_error ts i) as [[]|] eqn:En; try discriminate; inversion Hs; subst;
      unfold Inv_cnt, set_ov, qlen, hlen in *; cbn [queue held overflow];
      rewrite (sumz_upd pending _ _ _ _ En); cbn [pending]; lia.
  - destruct (nth_error ts i) as [[]|] eqn:En; try discriminate. inversion Hs; subst.
    unfold Inv_cnt. rewrite (sumz_upd pending _ _ _ _ En). cbn [pending]. lia.
  - destruct (nth_error ts i) as [[]|] eqn:En; try discriminate.
    destruct (qlen s <? pool_size c) eqn:El; [|discriminate]. inversion Hs; subst. apply Z.ltb_lt in El.
    assert (Hin : In (i, c0) (held s)) by (apply Hown; rewrite En; reflexivity).
    assert (Hnh : NoDup (map snd (held s))) by (unfold opened in Hnd; apply nodup_app_r in Hnd; exact Hnd).
    pose proof (remove_pair_len i c0 (held s) Hnh Hin) as Hl.
    unfold Inv_cnt, qlen, hlen in *. cbn [queue held overflow]. rewrite app_length. cbn [length].
    rewrite (sumz_upd pending _ _ _ _ En). cbn [pending]. lia.
  - destruct (nth_error ts i) as [[]|] eqn:En; try discriminate.
    destruct (qlen s <? pool_size c); [discriminate|]. inversion Hs; subst.
    unfold Inv_cnt. rewrite (sumz_upd pending _ _ _ _ En). cbn [pending]. lia.
  - destruct (nth_error ts i) as [[]|] eqn:En; try discriminate. inversion Hs; subst.
    assert (Hin : In (i, c0) (held s)) by (apply Hown; rewrite En; reflexivity).
    assert (Hnh : NoDup (map snd (held s))) by (unfold opened in Hnd; apply nodup_app_r in Hnd; exact Hnd).
    pose proof (remove_pair_len i c0 (held s) Hnh Hin) as Hl.
    unfold Inv_cnt, qlen, hlen in *. cbn [queue held overflow].
    rewrite (sumz_upd pending _ _ _ _ En). cbn [pending]. lia.
  - discriminate.
  - discriminate.
Qed.

Theorem reach_inv_cnt st : reach c st -> Inv_cnt st.
Proof.
  intros [n [tr H]]. assert (G : forall tr st st', Inv_id st -> Inv_cnt st -> run c st tr = Some st' -> Inv_cnt st').
  { clear H. clear tr. intros tr. induction tr as [|e tr IH]; intros st0 st' Hi Hc Hr; cbn in Hr; [inversion Hr; subst; exact Hc|].
    destruct (stepf c st0 e) as [st1|] eqn:E; [|discriminate].
    eapply IH; [eapply stepf_inv_id; eassumption|eapply stepf_inv_cnt; eassumption|exact Hr]. }
  eapply G; [apply Inv_id_init|apply Inv_cnt_init|exact H].
Qed.

Lemma sumz_nonneg ts : 0 <= sumz pending ts.
Proof. induction ts as [|p r IH]; cbn [sumz]; [lia|destruct p; cbn [pending]; lia]. Qed.

(* never more than pool_size + max_overflow connections open *)
Theorem open_bound s ts : reach c (s, ts) -> Z.of_nat (length (opened s)) <= pool_size c + max_overflow c.
Proof.
  intros H. apply reach_inv_cnt in H. destruct H as [Hq [Hv Hm]]. pose proof (sumz_nonneg ts).
  unfold opened. rewrite app_length, map_length. unfold qlen, hlen in *. lia.
Qed.

(* never more than pool_size idle *)
Theorem idle_bound s ts : reach c (s, ts) -> qlen s <= pool_size c.
Proof. intros H. apply reach_inv_cnt in H. destruct H as [Hq _]. lia. Qed.

(* checkedout() = pool_size - qsize + overflow equals the number of live checkouts whenever no thread
   is in the middle of a pool operation *)
Definition quiescent (ts : list pc) : Prop :=
  forall p, In p ts -> p = Idle \/ exists x, p = Holding x.
Theorem checkedout_exact s ts : reach c (s, ts) -> quiescent ts ->
  pool_size c - qlen s + overflow s = hlen s.
Proof.
  intros H Q. apply reach_inv_cnt in H. destruct H as [Hq [Hv Hm]].
  assert (E1 : sumz pending ts = 0).
  { clear -Q. induction ts as [|p r IH]; cbn [sumz]; [reflexivity|].
    rewrite IH by (intros x Hx; apply Q; right; exact Hx).
    destruct (Q p (or_introl eq_refl)) as [->|[x ->]]; reflexivity. }
  lia.
Qed.

(* a checkout that is waiting inside Queue.get is served as soon as it wakes up with a connection
   available: with a non-empty queue the only enabled continuations of a waiting thread are "got" *)
Theorem waiter_served_partial s ts i : nth_error ts i = Some GW -> queue s <> [] ->
  stepf c (s, ts) (EQEmpty i) = None /\ stepf c (s, ts) (EQWait i) = None /\
  exists x st', stepf c (s, ts) (EQGet i x) = Some st'.
Proof.
  intros En Hq. cbn [stepf]. rewrite En. destruct (queue s) as [|y q] eqn:Eq; [contradiction|].
  split; [reflexivity|]. split; [reflexivity|].
  destruct (qpop (lifo c) (y :: q)) as [[z q']|] eqn:Ep.
  - exists z. rewrite Nat.eqb_refl. eexists. reflexivity.
  - exfalso. unfold qpop in Ep. destruct (lifo c); [|discriminate].
    destruct (rev (y :: q)) eqn:Er; [|discriminate].
    apply (f_equal (@length conn)) in Er. rewrite rev_length in Er. discriminate.
Qed.
End P.
