(* C27 - proofs, part 3: pooled connections opened before a disconnect are never used again (invariant over all
   histories). *)
From Coq Require Import List Arith Bool Lia.
Import ListNotations.
From SAV.engine Require Import Disconnect DisconnectProofs DisconnectSteps.

(* timestamps and ids are consistent with the clock / the connection counter *)
Definition WF (s : st) : Prop :=
  (forall id st0, In (Some (id, st0)) (s_idle s) -> st0 <= s_clock s /\ id < s_nconn s) /\
  (forall id st0, s_cur s = Some (id, st0) -> st0 <= s_clock s /\ id < s_nconn s) /\
  s_invt s <= s_clock s.

(* every connection with id < n0 that is still pooled predates the pool's invalidation time *)
Definition Fresh (n0 : nat) (s : st) : Prop :=
  (forall id st0, In (Some (id, st0)) (s_idle s) -> id < n0 -> st0 < s_invt s) /\
  (forall id st0, s_cur s = Some (id, st0) -> n0 <= id) /\
  n0 <= s_nconn s.

Definition use_kind (k : nat) : Prop := k = K_EXEC \/ k = K_COMMIT \/ k = K_ROLLBACK.

(* the DBAPI calls logged since [base] never execute/commit/rollback on a connection older than n0 *)
Definition LogOk (n0 : nat) (base : list (nat * nat)) (s : st) : Prop :=
  exists new, s_log s = new ++ base /\ Forall (fun kc => use_kind (fst kc) -> n0 <= snd kc) new.

Definition Inv (n0 : nat) (base : list (nat * nat)) (s : st) : Prop := WF s /\ Fresh n0 s /\ LogOk n0 base s.

Lemma inv_ext : forall n0 base s s',
  s_log s' = s_log s -> s_nconn s' = s_nconn s -> s_clock s' = s_clock s -> s_idle s' = s_idle s ->
  s_invt s' = s_invt s -> s_cur s' = s_cur s -> Inv n0 base s -> Inv n0 base s'.
Proof.
  intros n0 base s s' E1 E2 E3 E4 E5 E6 (W & F & L). unfold Inv, WF, Fresh, LogOk in *.
  rewrite E1, E2, E3, E4, E5, E6. auto.
Qed.

Lemma inv_set_txn : forall n0 base s t n, Inv n0 base s -> Inv n0 base (set_txn s t n).
Proof. intros. eapply inv_ext; eauto. Qed.

Lemma logok_cons : forall n0 base s s' k cid,
  s_log s' = (k, cid) :: s_log s -> (use_kind k -> n0 <= cid) -> LogOk n0 base s -> LogOk n0 base s'.
Proof.
  intros n0 base s s' k cid E H (new & E1 & F). exists ((k, cid) :: new). split.
  - rewrite E, E1. reflexivity.
  - constructor; [exact H|exact F].
Qed.

Lemma not_use_close : ~ use_kind K_CLOSE.
Proof. intros [H|[H|H]]; discriminate. Qed.
Lemma not_use_connect : ~ use_kind K_CONNECT.
Proof. intros [H|[H|H]]; discriminate. Qed.

Section I.
  Variable faults : nat -> fault.
  Variable lst : list lbeh.
  Variable n0 : nat.
  Variable base : list (nat * nat).
  Notation Inv := (Inv n0 base).

  Lemma inv_called : forall k cid s, Inv s -> (use_kind k -> n0 <= cid) -> Inv (called k cid s).
  Proof.
    intros k cid s (W & F & L) H. split; [exact W|]. split; [exact F|].
    apply (logok_cons n0 base s _ k cid); [reflexivity|exact H|exact L].
  Qed.

  Lemma inv_inval : forall s cid st0, Inv s -> s_cur s = Some (cid, st0) -> Inv (inval_state lst s cid).
  Proof.
    intros s cid st0 ((W1 & W2 & W3) & (F1 & F2 & F3) & L) Hc. unfold inval_state.
    destruct (pool_inv lst); (split; [|split]).
    - split; [|split]; cbn.
      + intros id s0 Hin. apply in_app_or in Hin. destruct Hin as [Hin|[Hin|[]]]; [|discriminate].
        destruct (W1 _ _ Hin). lia.
      + discriminate.
      + lia.
    - split; [|split]; cbn.
      + intros id s0 Hin Hlt. apply in_app_or in Hin. destruct Hin as [Hin|[Hin|[]]]; [|discriminate].
        destruct (W1 _ _ Hin). lia.
      + discriminate.
      + exact F3.
    - apply (logok_cons n0 base s _ K_CLOSE cid); [reflexivity|intros X; destruct (not_use_close X)|exact L].
    - split; [|split]; cbn.
      + intros id s0 Hin. apply in_app_or in Hin. destruct Hin as [Hin|[Hin|[]]]; [|discriminate]. auto.
      + discriminate.
      + exact W3.
    - split; [|split]; cbn.
      + intros id s0 Hin Hlt. apply in_app_or in Hin. destruct Hin as [Hin|[Hin|[]]]; [|discriminate]. eauto.
      + discriminate.
      + exact F3.
    - apply (logok_cons n0 base s _ K_CLOSE cid); [reflexivity|intros X; destruct (not_use_close X)|exact L].
  Qed.

  Lemma inv_handle : forall f s s' c, Inv s -> handle lst f s = (s', c) -> Inv s'.
  Proof.
    intros f s s' c HI H.
    destruct (handle_spec _ _ _ _ _ H) as (_ & [[_ ->]|[(_ & _ & ->)|(_ & cid & st0 & E & ->)]]); auto.
    eapply inv_inval; eauto.
  Qed.

  Lemma inv_coh : forall k cid st0 s s' c, Inv s -> s_cur s = Some (cid, st0) ->
    call_or_handle faults lst k cid s = (s', c) -> Inv s'.
  Proof.
    intros k cid st0 s s' c HI Hc H.
    assert (Hcid : n0 <= cid). { destruct HI as (_ & (_ & F2 & _) & _). eapply F2; eauto. }
    pose proof (inv_called k cid s HI (fun _ => Hcid)) as HI1.
    destruct (coh_spec faults lst _ _ _ _ _ _ Hc H) as [(_ & -> & _)|[(_ & _ & -> & _)|(_ & _ & -> & _)]]; auto.
    eapply inv_inval; eauto.
  Qed.

  (* a freshly created connection becomes the current one *)
  Lemma inv_connect_cur : forall s rest, Inv s -> s_cur s = None -> incl rest (s_idle s) ->
    forall s1 r, connect faults s = (s1, r) ->
    match fst r with
    | Some c => Inv (set_cur s1 rest (Some c))
    | None => Inv (set_cur s1 (rest ++ [None]) None) /\ Inv s1
    end.
  Proof.
    intros s rest ((W1 & W2 & W3) & (F1 & F2 & F3) & L) Hc Hincl s1 r H.
    destruct (connect_spec _ _ _ _ H) as [(_ & -> & ->)|(_ & -> & ->)]; cbn [fst].
    - split; [|split].
      + split; [|split]; cbn.
        * intros id s0 Hin. destruct (W1 _ _ (Hincl _ Hin)). lia.
        * intros id s0 E. injection E as <- <-. lia.
        * lia.
      + split; [|split]; cbn.
        * intros id s0 Hin. apply F1. apply Hincl. exact Hin.
        * intros id s0 E. injection E as <- <-. exact F3.
        * lia.
      + apply (logok_cons n0 base s _ K_CONNECT (s_nconn s)); [reflexivity|intros X; destruct (not_use_connect X)|exact L].
    - assert (L' : LogOk n0 base (called K_CONNECT (s_nconn s) s)).
      { apply (logok_cons n0 base s _ K_CONNECT (s_nconn s)); [reflexivity|intros X; destruct (not_use_connect X)|exact L]. }
      split.
      + split; [|split]; [split; [|split]|split; [|split]|]; cbn; auto; try discriminate.
        * intros id s0 Hin. apply in_app_or in Hin. destruct Hin as [Hin|[Hin|[]]]; [|discriminate]. apply W1. auto.
        * intros id s0 Hin. apply in_app_or in Hin. destruct Hin as [Hin|[Hin|[]]]; [|discriminate]. apply F1. auto.
      + split; [|split]; [split; [|split]|split; [|split]|]; cbn; auto.
  Qed.

  Lemma inv_checkout : forall s s' f, Inv s -> s_cur s = None -> checkout faults s = (s', f) -> Inv s'.
  Proof.
    intros s s' f HI Hc H. unfold checkout in H.
    destruct (s_idle s) as [|r0 rest] eqn:Ei.
    - destruct (connect faults s) as [s1 r] eqn:Ec.
      pose proof (inv_connect_cur s [] HI Hc ltac:(intros x []) s1 r Ec) as X.
      destruct (connect_spec _ _ _ _ Ec) as [(_ & -> & ->)|(_ & -> & ->)]; cbn [fst snd] in *; injection H as <- _.
      + cbn in X. rewrite Ei. exact X.
      + exact (proj2 X).
    - assert (Hincl : incl rest (s_idle s)) by (rewrite Ei; apply incl_tl, incl_refl).
      assert (R : forall s0, Inv s0 -> s_cur s0 = None -> s_idle s0 = s_idle s ->
                (let (s1, r) := connect faults s0 in
                 match fst r with
                 | Some c => (set_cur s1 rest (Some c), FOk)
                 | None => (set_cur s1 (rest ++ [None]) None, snd r)
                 end) = (s', f) -> Inv s').
      { intros s0 HI0 Hc0 Ei0 H0. destruct (connect faults s0) as [s1 r] eqn:Ec.
        pose proof (inv_connect_cur s0 rest HI0 Hc0 ltac:(rewrite Ei0; exact Hincl) s1 r Ec) as X.
        destruct (fst r); injection H0 as <- _; [exact X|exact (proj1 X)]. }
      destruct r0 as [[cid start]|].
      + destruct (Nat.ltb start (s_invt s)) eqn:El.
        * apply (R (add_log s K_CLOSE cid)); auto.
          destruct HI as (W & F & L). split; [exact W|]. split; [exact F|].
          apply (logok_cons n0 base s _ K_CLOSE cid); [reflexivity|intros X; destruct (not_use_close X)|exact L].
        * injection H as <- _. apply Nat.ltb_ge in El.
          destruct HI as ((W1 & W2 & W3) & (F1 & F2 & F3) & L).
          assert (Hin : In (Some (cid, start)) (s_idle s)) by (rewrite Ei; left; reflexivity).
          split; [|split].
          -- split; [|split]; cbn.
             ++ intros id s0 Hin'. apply W1. apply Hincl. exact Hin'.
             ++ intros id s0 E. injection E as <- <-. apply W1. exact Hin.
             ++ exact W3.
          -- split; [|split]; cbn.
             ++ intros id s0 Hin'. apply F1. apply Hincl. exact Hin'.
             ++ intros id s0 E. injection E as <- <-.
                destruct (Nat.lt_ge_cases cid n0) as [Hlt|Hge]; [|exact Hge].
                pose proof (F1 _ _ Hin Hlt). lia.
             ++ exact F3.
          -- exact L.
      + apply (R s); auto.
  Qed.

  Lemma inv_ensure : forall s s' e, Inv s -> ensure faults lst s = (s', e) -> Inv s'.
  Proof.
    intros s s' e HI H. unfold ensure in H.
    destruct (s_cur s) eqn:Hc; [injection H as <- _; exact HI|].
    destruct (s_txn s); try (injection H as <- _; exact HI).
    destruct (checkout faults s) as [s1 f] eqn:Eco.
    pose proof (inv_checkout _ _ _ HI Hc Eco) as HI1.
    destruct f; [injection H as <- _; exact HI1| |].
    - destruct (handle lst FErr s1) as [s2 c] eqn:Eh. injection H as <- _. eapply inv_handle; eauto.
    - destruct (handle lst FDisc s1) as [s2 c] eqn:Eh. injection H as <- _. eapply inv_handle; eauto.
  Qed.

  Lemma inv_autobegin : forall s, Inv s -> Inv (autobegin s).
  Proof. intros s HI. unfold autobegin. destruct (s_txn s); [apply inv_set_txn; exact HI|exact HI|exact HI]. Qed.

  Lemma inv_exec_path : forall s s' c, Inv s -> exec_path faults lst s = (s', c) -> Inv s'.
  Proof.
    intros s s' c HI H. destruct (ensure faults lst s) as [s1 e] eqn:He.
    pose proof (inv_ensure _ _ _ HI He) as HI1.
    destruct e as [c0|].
    - unfold exec_path in H. rewrite He in H. injection H as <- _. exact HI1.
    - destruct (exec_after_ensure faults lst s s1 He) as (cid & st0 & Hc & Heq). rewrite Heq in H.
      destruct (inactive_check s1); [injection H as <- _; exact HI1|].
      destruct (autobegin_fields s1) as (F1 & _).
      eapply (inv_coh K_EXEC cid st0 (autobegin s1)); eauto using inv_autobegin. congruence.
  Qed.

  Lemma inv_begin : forall s s' c, Inv s -> begin_op faults lst s = (s', c) -> Inv s'.
  Proof.
    intros s s' c HI H. unfold begin_op in H. destruct (s_txn s); try (injection H as <- _; exact HI).
    destruct (ensure faults lst s) as [s1 e] eqn:He. pose proof (inv_ensure _ _ _ HI He) as HI1.
    destruct e; injection H as <- _; [exact HI1|apply inv_set_txn; exact HI1].
  Qed.

  Theorem inv_step : forall o s s' c, Inv s -> step faults lst o s = (s', c) -> Inv s'.
  Proof.
    intros o s s' c HI H. destruct o; cbn [step] in H.
    - eapply inv_exec_path; eauto.
    - eapply inv_begin; eauto.
    - unfold commit_op in H. destruct (s_txn s); try (injection H as <- _; exact HI).
      destruct (s_cur s) as [[cid st0]|] eqn:Hc; [|injection H as <- _; apply inv_set_txn; exact HI].
      destruct (call_or_handle faults lst K_COMMIT cid s) as [s1 c1] eqn:Hcoh.
      pose proof (inv_coh _ _ _ _ _ _ HI Hc Hcoh) as HI1.
      destruct c1; injection H as <- _; apply inv_set_txn; exact HI1.
    - unfold rollback_op in H. destruct (s_txn s); try (injection H as <- _; try apply inv_set_txn; exact HI).
      destruct (s_cur s) as [[cid st0]|] eqn:Hc; [|injection H as <- _; apply inv_set_txn; exact HI].
      destruct (call_or_handle faults lst K_ROLLBACK cid s) as [s1 c1] eqn:Hcoh.
      pose proof (inv_coh _ _ _ _ _ _ HI Hc Hcoh) as HI1.
      destruct c1; injection H as <- _; apply inv_set_txn; exact HI1.
    - unfold savepoint_op in H.
      destruct (match s_txn s with TNone => begin_op faults lst s | _ => (s, ROk) end) as [s1 c1] eqn:Hb.
      assert (HI1 : Inv s1).
      { destruct (s_txn s); [eapply inv_begin; eauto|injection Hb as <- _; exact HI|injection Hb as <- _; exact HI]. }
      destruct c1; try (injection H as <- _; exact HI1).
      destruct (exec_path faults lst s1) as [s2 c2] eqn:He. pose proof (inv_exec_path _ _ _ HI1 He) as HI2.
      destruct c2; injection H as <- _; exact HI2.
    - unfold rollback_sp_op in H. destruct (s_nested s) as [|a rest]; [injection H as <- _; exact HI|].
      destruct (a && _ && _); [|injection H as <- _; apply inv_set_txn; exact HI].
      destruct (exec_path faults lst s) as [s1 c1] eqn:He. injection H as <- _.
      apply inv_set_txn. eapply inv_exec_path; eauto.
    - unfold release_sp_op in H. destruct (s_nested s) as [|[|] rest]; try (injection H as <- _; exact HI).
      destruct (exec_path faults lst s) as [s1 c1] eqn:He. pose proof (inv_exec_path _ _ _ HI He) as HI1.
      destruct c1; injection H as <- _; apply inv_set_txn; exact HI1.
  Qed.

  Lemma inv_final : forall h s, Inv s -> Inv (final faults lst h s).
  Proof.
    induction h as [|o h IH]; intros s HI; [exact HI|]. cbn [final].
    destruct (step faults lst o s) as [s1 c] eqn:Hs. cbn [fst]. apply IH. eapply inv_step; eauto.
  Qed.
End I.

Lemma wf_inv0 : forall s, WF s -> Inv 0 (s_log s) s.
Proof.
  intros s W. split; [exact W|]. split.
  - split; [|split]; intros; lia.
  - exists []. split; [reflexivity|constructor].
Qed.

Theorem wf_step : forall faults lst o s s' c, WF s -> step faults lst o s = (s', c) -> WF s'.
Proof. intros faults lst o s s' c W H. exact (proj1 (inv_step faults lst 0 (s_log s) o s s' c (wf_inv0 s W) H)). Qed.

Theorem wf_final : forall faults lst h s, WF s -> WF (final faults lst h s).
Proof. intros faults lst h s W. exact (proj1 (inv_final faults lst 0 (s_log s) h s (wf_inv0 s W))). Qed.

Lemma wf_init : forall w, WF (init w).
Proof.
  intros w. unfold init, WF. cbn. split; [|split].
  - intros id st0 Hin. apply in_map_iff in Hin. destruct Hin as (i & E & Hi). injection E as <- <-.
    apply in_seq in Hi. lia.
  - intros id st0 E. injection E as <- <-. lia.
  - lia.
Qed.

(* the shape of the state after a disconnect hit the LIVE connection *)
Definition disc_shape (lst : list lbeh) (s s' : st) : Prop :=
  s_idle s' = s_idle s ++ [None] /\ s_nconn s' = s_nconn s /\ s_cur s' = None /\
  s_clock s' = (if pool_inv lst then S (s_clock s) else s_clock s) /\
  s_invt s' = (if pool_inv lst then S (s_clock s) else s_invt s).

Section D.
  Variable faults : nat -> fault.
  Variable lst : list lbeh.

  Lemma coh_disc_shape : forall k cid st0 s s' c, s_cur s = Some (cid, st0) ->
    call_or_handle faults lst k cid s = (s', c) -> is_disc c = true -> disc_shape lst s s'.
  Proof.
    intros k cid st0 s s' c Hc H Hd.
    destruct (coh_spec faults lst _ _ _ _ _ _ Hc H) as [(-> & _)|[(_ & E & _)|(_ & _ & -> & _)]];
      try discriminate; try congruence.
    unfold disc_shape, inval_state. cbn. destruct (pool_inv lst); auto.
  Qed.

  Lemma exec_live_disc_shape : forall s s' c, s_cur s <> None -> exec_path faults lst s = (s', c) ->
    is_disc c = true -> disc_shape lst s s'.
  Proof.
    intros s s' c Hc H Hd. destruct (s_cur s) as [[cid st0]|] eqn:E; [|congruence].
    rewrite (exec_live faults lst s cid st0 E) in H.
    destruct (inactive_check s); [injection H as _ <-; discriminate|].
    destruct (autobegin_fields s) as (F1 & _ & _ & _ & F5 & F6 & F7 & F8 & _).
    assert (Hc2 : s_cur (autobegin s) = Some (cid, st0)) by congruence.
    destruct (coh_disc_shape _ _ _ _ _ _ Hc2 H Hd) as (P1 & P2 & P3 & P4 & P5).
    unfold disc_shape. rewrite P1, P2, P3, P4, P5, F5, F6, F7, F8. auto.
  Qed.

  Lemma step_live_disc_shape : forall o s s' c, s_cur s <> None -> step faults lst o s = (s', c) ->
    is_disc c = true -> disc_shape lst s s'.
  Proof.
    intros o s s' c Hc H Hd. destruct o; cbn [step] in H.
    - eapply exec_live_disc_shape; eauto.
    - unfold begin_op in H. destruct (s_txn s); try (injection H as _ <-; discriminate).
      rewrite (ensure_live faults lst s Hc) in H. injection H as _ <-. discriminate.
    - unfold commit_op in H. destruct (s_txn s); try (injection H as _ <-; discriminate).
      destruct (s_cur s) as [[cid st0]|] eqn:E; [|congruence].
      destruct (call_or_handle faults lst K_COMMIT cid s) as [s1 c1] eqn:Hcoh.
      assert (X : c = ROk \/ s' = set_txn s1 TInactive [] /\ c = c1) by (destruct c1; injection H as <- <-; auto).
      destruct X as [->|[-> ->]]; [discriminate|]. exact (coh_disc_shape _ _ _ _ _ _ E Hcoh Hd).
    - unfold rollback_op in H. destruct (s_txn s); try (injection H as _ <-; discriminate).
      destruct (s_cur s) as [[cid st0]|] eqn:E; [|congruence].
      destruct (call_or_handle faults lst K_ROLLBACK cid s) as [s1 c1] eqn:Hcoh.
      assert (X : c = ROk \/ s' = set_txn s1 TNone [] /\ c = c1) by (destruct c1; injection H as <- <-; auto).
      destruct X as [->|[-> ->]]; [discriminate|]. exact (coh_disc_shape _ _ _ _ _ _ E Hcoh Hd).
    - unfold savepoint_op in H.
      assert (Hb : exists s1, (match s_txn s with TNone => begin_op faults lst s | _ => (s, ROk) end) = (s1, ROk) /\
                       same_pool s s1 /\ s_cur s1 <> None).
      { assert (Refl : same_pool s s) by (unfold same_pool; auto).
        destruct (s_txn s) eqn:Et; [|exists s; auto|exists s; auto].
        unfold begin_op. rewrite Et, (ensure_live faults lst s Hc). eexists. split; [reflexivity|]. split; [exact Refl|exact Hc]. }
      destruct Hb as (s1 & Hb1 & (Q1 & Q2 & Q3 & Q4 & Q5) & Hc1). rewrite Hb1 in H.
      destruct (exec_path faults lst s1) as [s2 c2] eqn:He.
      assert (X : c = ROk \/ s' = s2 /\ c = c2) by (destruct c2; injection H as <- <-; auto).
      destruct X as [->|[-> ->]]; [discriminate|].
      destruct (exec_live_disc_shape _ _ _ Hc1 He Hd) as (P1 & P2 & P3 & P4 & P5).
      unfold disc_shape. rewrite P1, P2, P3, P4, P5, Q1, Q2, Q4, Q5. auto.
    - unfold rollback_sp_op in H. destruct (s_nested s) as [|a rest]; [injection H as _ <-; discriminate|].
      destruct (a && _ && _); [|injection H as _ <-; discriminate].
      destruct (exec_path faults lst s) as [s1 c1] eqn:He. injection H as <- <-.
      exact (exec_live_disc_shape _ _ _ Hc He Hd).
    - unfold release_sp_op in H. destruct (s_nested s) as [|[|] rest]; try (injection H as _ <-; discriminate).
      destruct (exec_path faults lst s) as [s1 c1] eqn:He.
      assert (X : c = ROk \/ s' = set_nested s1 (false :: rest) /\ c = c1) by (destruct c1; injection H as <- <-; auto).
      destruct X as [->|[-> ->]]; [discriminate|].
      exact (exec_live_disc_shape _ _ _ Hc He Hd).
  Qed.

  Lemma disc_establishes_inv : forall s s', WF s -> pool_inv lst = true -> disc_shape lst s s' ->
    Inv (s_nconn s') (s_log s') s'.
  Proof.
    intros s s' (W1 & W2 & W3) Hl (P1 & P2 & P3 & P4 & P5).
    pose proof Hl as E.
    rewrite E in P4, P5. split; [|split].
    - split; [|split].
      + intros id st0 Hin. rewrite P1 in Hin. apply in_app_or in Hin. destruct Hin as [Hin|[Hin|[]]]; [|discriminate].
        destruct (W1 _ _ Hin). lia.
      + intros id st0 X. congruence.
      + lia.
    - split; [|split].
      + intros id st0 Hin _. rewrite P1 in Hin. apply in_app_or in Hin. destruct Hin as [Hin|[Hin|[]]]; [|discriminate].
        destruct (W1 _ _ Hin). lia.
      + intros id st0 X. congruence.
      + lia.
    - exists []. split; [reflexivity|constructor].
  Qed.

  (* T2 *)
  Theorem older_pooled_connections_not_reused : forall o s s1 c,
    WF s -> s_cur s <> None -> pool_inv lst = true -> step faults lst o s = (s1, c) -> is_disc c = true ->
    forall h, exists new,
      s_log (final faults lst h s1) = new ++ s_log s1 /\
      Forall (fun kc => use_kind (fst kc) -> s_nconn s1 <= snd kc) new.
  Proof.
    intros o s s1 c W Hc Hl H Hd h.
    pose proof (disc_establishes_inv s s1 W Hl (step_live_disc_shape o s s1 c Hc H Hd)) as HI.
    destruct (inv_final faults lst _ _ h s1 HI) as (_ & _ & L). exact L.
  Qed.
End D.
