(* C26 - QueuePool accounting, part 2: fairy-level operations, the boundary invariant, the theorem *)
From Coq Require Import List ZArith Bool Arith Lia.
Import ListNotations.
From SAV.engine Require Import PoolSeq PoolSeqFrame PoolSeqLeakProofs PoolSeqOpOn PoolSeqAccProofs.
Open Scope Z_scope.

Lemma Mono_tc_false : forall s s', Mono s s' -> taint s' = false -> taint s = false.
Proof. exact Mono_taint_false. Qed.

Section Acc2.
Variable cf : cfg.
Hypothesis KQ : kind cf = KQueue.
Hypothesis PS : 0 <= psize cf.
Hypothesis MO : -1 <= maxov cf.

Notation A := (A cf).
Ltac a_leaf := eapply A_frame; [reflexivity|reflexivity|reflexivity|reflexivity|auto|].

Lemma A_untainted : forall fl s, A fl s -> taint s = false -> AccK cf (flz fl) s /\ QOk cf fl s /\ OvB cf s.
Proof. intros fl s [T|H] Hn; [congruence|exact H]. Qed.

(* ---- do_get leaves every fairy_ref alone (a new record starts with None, which it had anyway) *)
Lemma new_record_rfairy : forall s x s', new_record cf s = (x, s') -> r_fairy s (nrecs s) = None ->
  forall r', r_fairy s' r' = r_fairy s r'.
Proof.
  unfold new_record; intros s x s' H Hn r'.
  match type of H with context [rec_connect cf ?r ?s0] => destruct (rec_connect cf r s0) as [y s7] eqn:E end.
  apply rec_connect_rl in E. destruct E.
  assert (r_fairy s' = r_fairy s7) by (destruct y; inv H; reflexivity). rewrite H0, rl_fairy.
  change (upd (r_fairy s) (nrecs s) None r' = r_fairy s r').
  unfold upd. destruct (Nat.eqb_spec r' (nrecs s)); [subst; auto|auto].
Qed.

Lemma do_get_rfairy : forall s x s', do_get cf s = (x, s') -> r_fairy s (nrecs s) = None ->
  forall r', r_fairy s' r' = r_fairy s r'.
Proof.
  unfold do_get; rewrite KQ. generalize 2%nat.
  induction n; intros s x s' H Hn r'; cbn [do_get_queue] in H; [inv H; auto|].
  destruct (q_get cf s) as [[r s1]|] eqn:Eq.
  - inv H. unfold q_get in Eq. repeat dm Eq; inv Eq; reflexivity.
  - dm H.
    + dm H; [eapply IHn; eauto|inv H; auto].
    + destruct (inc_overflow cf s) as [ok s1] eqn:Ei.
      assert (F1 : rc s1 = rc s) by (unfold inc_overflow in Ei; repeat dm Ei; inv Ei; auto).
      destruct ok.
      * destruct (new_record cf s1) as [y s2] eqn:En.
        pose proof (new_record_rfairy _ _ _ En) as G. unfold r_fairy, nrecs in *. rewrite F1 in G.
        specialize (G Hn r'). dm H; inv H; exact G.
      * unfold r_fairy, nrecs in *. rewrite <- F1 in Hn. rewrite <- F1. eapply IHn; eauto.
Qed.

(* _ConnectionRecord.checkout *)
Lemma record_checkout_Q : forall s x s', record_checkout cf s = (x, s') -> A None s -> taint s' = false ->
  A None s' /\
  match x with
  | Ok f => exists r0, f = nfairies s /\ f_rec s' f = Some r0 /\ f_orig s' f = r0 /\ r_fairy s' r0 = Some f /\
                       r_fairy s r0 = None /\
                       (forall r', r' <> r0 -> r_fairy s' r' = r_fairy s r') /\
                       (forall g, g <> f -> f_rec s' g = f_rec s g)
  | Raise _ => (forall r', r_fairy s' r' = r_fairy s r') /\ fr s' = fr s
  end.
Proof.
  unfold record_checkout; intros s x s' H HA T.
  assert (T0 : taint s = false).
  { pose proof (record_checkout_mono cf s x s') as M. unfold record_checkout in M. specialize (M H).
    eapply Mono_tc_false; eauto. }
  destruct (A_untainted _ _ HA T0) as (_ & (Q1 & Q2 & Q3 & Q4 & Q5) & _).
  assert (Hn : r_fairy s (nrecs s) = None) by (apply Q5; lia).
  destruct (do_get cf s) as [[r|e] s1] eqn:E1; assert (A1 := do_get_A cf KQ MO _ _ _ E1 HA);
    pose proof (do_get_rfairy _ _ _ E1 Hn) as F1; pose proof (do_get_fr _ _ _ _ E1) as G1.
  2:{ inv H. split; auto. }
  destruct (get_connection cf r s1) as [[c|err] s2] eqn:E2; pose proof (get_connection_rl _ _ _ _ _ E2) as R2.
  - destruct (new_fairy c r s2) as [f sf'] eqn:Enf. inv H. pose proof R2 as [].
    unfold new_fairy in Enf. inv Enf.
    assert (T1 : taint s2 = false) by exact T.
    destruct (A_untainted _ _ (A_rl cf _ _ _ R2 A1) T1) as (HA2 & (P1 & P2 & P3 & P4 & P5) & HO2).
    destruct (P3 r eq_refl) as (R1' & R2' & R3').
    match goal with |- context [A None ?sf] => set (sf' := sf) end.
    split.
    + right. split; [|split].
      * unfold AccK in *. cbn [flz] in *.
        change (q sf') with (q s2). change (overflow sf') with (overflow s2).
        unfold inuse_count, in_use in *. change (nrecs sf') with (nrecs s2).
        change (r_fairy sf') with (upd (r_fairy s2) r (Some (nfairies s2))).
        rewrite (count_upto_upd (r_fairy s2) (nrecs s2) r (Some (nfairies s2)) R1'). rewrite R2'. lia.
      * unfold QOk.
        change (q sf') with (q s2). change (nrecs sf') with (nrecs s2).
        change (r_fairy sf') with (upd (r_fairy s2) r (Some (nfairies s2))).
        split; [|split; [exact P2|split; [intros; discriminate|split; [exact P4|]]]].
        -- intros x Hx. destruct (P1 x Hx). split; auto. rewrite upd_other; auto. intro; subst; auto.
        -- intros x Hx. rewrite upd_other by lia. apply P5; auto.
      * exact HO2.
    + exists r.
      assert (NF : nfairies s2 = nfairies s) by (unfold nfairies; rewrite rl_fr, G1; reflexivity).
      split; [exact NF|].
      split; [change (f_rec sf' (nfairies s2)) with (upd (f_rec s2) (nfairies s2) (Some r) (nfairies s2)); apply upd_same|].
      split; [change (f_orig sf' (nfairies s2)) with (upd (f_orig s2) (nfairies s2) r (nfairies s2)); apply upd_same|].
      split; [change (r_fairy sf' r) with (upd (r_fairy s2) r (Some (nfairies s2)) r); apply upd_same|].
      split; [rewrite <- F1, <- rl_fairy; exact R2'|].
      split.
      * intros r' Hr'. change (r_fairy sf' r') with (upd (r_fairy s2) r (Some (nfairies s2)) r').
        rewrite upd_other by auto. rewrite rl_fairy. apply F1.
      * intros g Hg. change (f_rec sf' g) with (upd (f_rec s2) (nfairies s2) (Some r) g).
        rewrite upd_other by lia. unfold f_rec. rewrite rl_fr, G1. reflexivity.
  - destruct (checkin_failed cf r false s2) as [y s3] eqn:E3.
    assert (E : s' = s3) by (unfold reraise_after in H; destruct y; inv H; auto). subst s3.
    pose proof (A_rl cf _ _ _ R2 A1) as A2.
    split; [eapply checkin_failed_A; eauto; intros; discriminate|].
    assert (x' : exists e', x = Raise e') by (unfold reraise_after in H; destruct y; inv H; eauto).
    destruct x' as [e' ->].
    split; [|rewrite (checkin_failed_fr _ _ _ _ _ _ E3); destruct R2; rewrite rl_fr; auto].
    intros r'. pose proof (checkin_failed_oo cf O _ _ _ _ _ E3) as [].
    assert (T2 : taint s2 = false).
    { eapply Mono_tc_false; [eapply checkin_failed_mono; eauto|auto]. }
    destruct (A_untainted _ _ A2 T2) as (_ & (P1 & P2 & P3 & P4 & P5) & _).
    destruct (P3 r eq_refl) as (R1' & R2' & R3').
    destruct R2. rewrite <- F1, <- rl_fairy.
    destruct (Nat.eq_dec r' r); [subst r'|apply oo_rec; auto].
    rewrite R2'.
    (* the floating record has no fairy before and after *)
    unfold checkin_failed in E3. destruct (rec_invalidate cf r false s2) as [[|e1] s4] eqn:E4.
    + apply rec_invalidate_rl in E4. destruct E4 as [? ? ? ? ? ? ? ? ? ? Ef4 ? ? ?].
      unfold rec_checkin in E3. rewrite Ef4, R2' in E3. apply do_return_conn_rfairy in E3.
      rewrite E3, Ef4. exact R2'.
    + exfalso. pose proof (rec_invalidate_raise _ _ _ _ _ _ E4) as Tc.
      destruct (rec_checkin cf r false s4) as [w s5] eqn:E5.
      assert (s' = s5) by (destruct w; inv E3; auto). subst s5.
      pose proof (Mono_taint_true _ _ (rec_checkin_mono cf _ _ _ _ _ E5) (tc_taint _ Tc)). congruence.
Qed.


Lemma do_return_conn_raise : forall r s e s', do_return_conn cf r s = (Raise e, s') -> taint s' = true.
Proof.
  unfold do_return_conn; rewrite KQ; intros r s e s' H. dm H; [|inv H].
  destruct (rec_close_if_open r s) as [[|e0] s1] eqn:Ec; inv H.
  unfold rec_close_if_open in Ec. destruct (r_dbc s r) eqn:Ed; [|inv Ec].
  change (taint (dec_overflow s1)) with (taint s1). apply tc_taint.
  eapply rec_close_raise; eauto. congruence.
Qed.

(* _finalize_fairy: accounting preserved; the fairy's link to its record and the record's fairy_ref
   are cleared together (unless tainted) *)
Lemma finalize_A1 : forall dbc r gcf twr fy s x s', finalize cf dbc r gcf twr fy s = (x, s') -> A None s -> A None s'.
Proof.
  intros dbc r gcf twr fy s x s' H.
  pose proof (finalize_gen cf (fun a b => A None a -> A None b)) as G. cbv beta in G.
  refine (G _ _ _ _ r fy _ _ dbc gcf twr s x s' H).
  - auto.
  - auto.
  - intros a b R HA. eapply A_rl; eauto.
  - intros a HA. apply (A_frame cf None a); auto. unfold taint; cbn. intros _. apply orb_true_r.
  - intros r0 a y b _ Hc HA. eapply rec_checkin_A; eauto. intros; discriminate.
  - intros a HA. unfold clear_fairy. destruct fy; [apply (A_frame cf None a); auto|exact HA].
Qed.

Lemma finalize_A : forall dbc r gcf twr fy s x s', finalize cf dbc r gcf twr fy s = (x, s') -> A None s ->
  A None s' /\
  (forall f r0, fy = Some f -> r = Some r0 -> gcf = None -> r_fairy s r0 = Some f -> f_rec s' f = Some r0 ->
                taint s' = false -> r_fairy s' r0 = Some f).
Proof.
  intros dbc r gcf twr fy s x s' H HA. split; [eapply finalize_A1; eauto|].
  intros f r0 -> -> -> Hl Hl' T. exfalso.
  unfold finalize in H. cbv iota in H. unfold clear_fairy in H.
  (* a check-in of r0 while it belongs to f ends either with the fairy cleared or tainted *)
  assert (CK : forall a y b, r_fairy a r0 = Some f ->
    match r_fairy a r0 with Some _ => rec_checkin cf r0 true a | None => (Ok tt, a) end = (y, b) ->
    match y with Ok _ => True | Raise _ => taint b = true end).
  { intros a y b Ha Hc. rewrite Ha in Hc. destruct y; auto.
    unfold rec_checkin in Hc. rewrite Ha in Hc. eapply do_return_conn_raise; eauto. }
  assert (CL : forall b, f_rec (set_f_rec (set_f_dbc b (upd (f_dbc b) f None)) (upd (f_rec b) f None)) f = None)
    by (intros b; change (upd (f_rec b) f None f = None); apply upd_same).
  match type of H with (let '(_, _) := ?e in _) = _ => destruct e as [y s1] eqn:E0 end.
  assert (M0 : (y = Ok tt /\ r_fairy s1 = r_fairy s) \/
               (exists e, y = Raise e /\ (taint s1 = true \/ f_rec s1 f = None))).
  { match type of E0 with match ?d with _ => _ end = _ => destruct d as [c|] end; [|inv E0; auto].
    match type of E0 with (let '(_, _) := ?e in _) = _ => destruct e as [y1 s2] eqn:E1 end.
    assert (M1 : RecLevel s s2).
    { destruct (fairy_reset cf c twr s) as [z s3] eqn:Er. apply fairy_reset_rl in Er.
      destruct z; inv E1; auto. }
    destruct y1 as [|e]; [inv E0; left; destruct M1; auto|].
    match type of E0 with (let '(_, _) := ?e in _) = _ => destruct e as [z s3] eqn:E2 end.
    pose proof (rec_invalidate_rl _ _ _ _ _ _ E2) as R3.
    assert (Rf : r_fairy s3 = r_fairy s) by (destruct R3, M1; congruence).
    destruct z as [|e2].
    2:{ inv E0. right. eexists. split; [reflexivity|]. left. apply tc_taint. eapply rec_invalidate_raise; eauto. }
    destruct (is_exception e) eqn:Ee; [inv E0; auto|].
    match type of E0 with match ?e with _ => _ end = _ => destruct e as [w s4] eqn:Ec end.
    pose proof (CK _ _ _ ltac:(rewrite Rf; exact Hl) Ec) as Hw.
    right. destruct w; inv E0; eexists; (split; [reflexivity|]); auto. }
  destruct M0 as [[-> F0]|[e [-> [T1|F1]]]].
  - match type of H with match ?e with _ => _ end = _ => destruct e as [w s2] eqn:E1 end.
    pose proof (CK _ _ _ ltac:(rewrite F0; exact Hl) E1) as Hw.
    destruct w; inv H; [rewrite CL in Hl'; discriminate|congruence].
  - inv H. congruence.
  - inv H. congruence.
Qed.

Lemma fairy_checkin_A : forall f twr s x s', fairy_checkin cf f twr s = (x, s') -> A None s ->
  A None s' /\ (forall r0, f_rec s f = Some r0 -> r_fairy s r0 = Some f -> f_rec s' f = Some r0 ->
                taint s' = false -> r_fairy s' r0 = Some f).
Proof.
  unfold fairy_checkin; intros f twr s x s' H HA. destruct (finalize_A _ _ _ _ _ _ _ _ H HA) as [B1 B2].
  split; [exact B1|intros; eapply B2; eauto].
Qed.

Lemma fairy_close_A : forall f s x s', fairy_close cf f s = (x, s') -> A None s ->
  A None s' /\ (forall r0, f_rec s f = Some r0 -> r_fairy s r0 = Some f -> f_rec s' f = Some r0 ->
                taint s' = false -> r_fairy s' r0 = Some f).
Proof.
  unfold fairy_close; intros f s x s' H HA. dm H.
  - eapply fairy_checkin_A in H; [exact H|]. a_leaf. auto.
  - inv H. split; [a_leaf; auto|]. intros. assumption.
Qed.

Lemma fairy_invalidate_A : forall f soft s x s', fairy_invalidate cf f soft s = (x, s') -> A None s ->
  A None s' /\ (forall r0, f_rec s f = Some r0 -> r_fairy s r0 = Some f -> f_rec s' f = Some r0 ->
                taint s' = false -> r_fairy s' r0 = Some f).
Proof.
  unfold fairy_invalidate; intros f soft s x s' H HA. dm H; [|inv H; split; auto].
  match type of H with (let '(_, _) := ?e in _) = _ => destruct e as [y s1] eqn:E0 end.
  assert (R0 : A None s1 /\ fr s1 = fr s /\ r_fairy s1 = r_fairy s).
  { dm E0; [apply rec_invalidate_rl in E0; split; [eapply A_rl; eauto|destruct E0; auto]|inv E0; auto]. }
  destruct R0 as (R0 & R1 & R2).
  destruct y; [|inv H; split; [auto|intros; congruence]].
  destruct soft; [inv H; split; [auto|intros; congruence]|].
  eapply fairy_checkin_A in H; [|a_leaf; eauto].
  destruct H as [B1 B2]. split; auto. intros r0 H1 H2 H3 T. apply B2; auto.
  - change (f_rec (set_f_dbc s1 (upd (f_dbc s1) f None)) f) with (f_rec s1 f). unfold f_rec in *. rewrite R1. auto.
  - change (r_fairy (set_f_dbc s1 (upd (f_dbc s1) f None)) r0) with (r_fairy s1 r0). rewrite R2. auto.
Qed.

Lemma fairy_detach_A : forall f s x s', fairy_detach cf f s = (x, s') -> A None s ->
  (forall r, f_rec s f = Some r -> r_fairy s r <> None) ->
  A None s' /\ (forall r0, f_rec s' f = Some r0 -> taint s' = true).
Proof.
  unfold fairy_detach; intros f s x s' H HA Hr. destruct (f_rec s f) as [r|] eqn:Er.
  2:{ inv H. split; auto. intros; congruence. }
  match type of H with context [do_return_conn cf ?r ?s0] =>
    destruct (do_return_conn cf r s0) as [y s4] eqn:E1; set (sx := s0) in * end.
  assert (AX : A (Some r) sx).
  { subst sx. pose proof (A_clear cf r s HA (Hr r eq_refl)) as A1.
    unfold mark_det. repeat dm_goal; a_leaf; auto; a_leaf; auto; a_leaf; auto. }
  pose proof (do_return_conn_A cf KQ _ _ _ _ E1 AX) as A4.
  destruct y; inv H.
  - split; [a_leaf; auto|]. intros r0.
    change (f_rec (set_f_rec s4 (upd (f_rec s4) f None)) f) with (upd (f_rec s4) f None f).
    rewrite upd_same. discriminate.
  - split; auto. intros. eapply do_return_conn_raise; eauto.
Qed.

Lemma pool_invalidate_A : forall f chk s x s', pool_invalidate cf f chk s = (x, s') -> A None s ->
  A None s' /\ (forall r0, f_rec s f = Some r0 -> r_fairy s r0 = Some f -> f_rec s' f = Some r0 ->
                taint s' = false -> r_fairy s' r0 = Some f).
Proof.
  unfold pool_invalidate; intros f chk s x s' H HA.
  match type of H with context [if ?b then (let (_, _) := now cf s in _) else s] =>
    set (s1 := if b then (let (t, s1) := now cf s in mark_all (set_inv_time s1 t)) else s) in *;
    assert (M0 : A None s1 /\ fr s1 = fr s /\ r_fairy s1 = r_fairy s) end.
  { subst s1. match goal with |- A None (if ?b then _ else _) /\ _ => destruct b end; [|auto].
    destruct (now cf s) as [t s2] eqn:En. apply now_rl in En. pose proof (A_rl cf _ _ _ En HA). destruct En.
    split; [unfold mark_all; a_leaf; auto; a_leaf; auto|].
    split; [rewrite <- rl_fr; reflexivity|rewrite <- rl_fairy; reflexivity]. }
  destruct M0 as (M0 & M1 & M2).
  destruct chk; [|inv H; split; [auto|intros; congruence]].
  dm H; [|inv H; split; [auto|intros; congruence]].
  eapply fairy_invalidate_A in H; [|exact M0]. destruct H as [B1 B2]. split; auto.
  intros r0 H1 H2 H3 T. apply B2; auto; unfold f_rec in *; congruence.
Qed.

Lemma checkout_loop_A : forall n f s x s', checkout_loop cf n f s = (x, s') -> A None s -> A None s'.
Proof.
  induction n; intros f s x s' H HA; cbn [checkout_loop] in H.
  - destruct (fairy_invalidate cf f false s) as [y s1] eqn:E. eapply fairy_invalidate_A in E; eauto.
    destruct E. destruct y; inv H; auto.
  - destruct (f_rec s f) as [r|] eqn:Er; [|inv H; auto].
    destruct (f_dbc s f) as [c|] eqn:Ec; [|inv H; auto].
    set (s0 := set_r_fresh s (upd (r_fresh s) r false)) in *.
    assert (M0 : A None s0) by (subst s0; a_leaf; auto).
    match type of H with (let '(_, _) := ?e in _) = _ => destruct e as [x1 s1] eqn:E1 end.
    assert (M1 : RecLevel s0 s1).
    { dm E1; [|inv E1; apply RecLevel_refl].
      destruct (ext_ping c s0) as [z s2] eqn:Ep. apply ext_ping_rl in Ep.
      repeat dm E1; inv E1; auto. }
    match type of H with (let '(_, _) := ?e in _) = _ => destruct e as [x2 s2] eqn:E2 end.
    assert (M2 : RecLevel s1 s2).
    { destruct x1; [|inv E2; apply RecLevel_refl]. dm E2; [|inv E2; apply RecLevel_refl].
      eapply ext_event_rl; eauto. }
    assert (A2 : A None s2) by (eapply A_rl; [exact M2|]; eapply A_rl; eauto).
    destruct x2 as [|e]; [inv H; auto|].
    destruct (is_disc e).
    + destruct (rec_invalidate cf r false s2) as [y3 s3] eqn:E3.
      apply rec_invalidate_rl in E3. pose proof (A_rl cf _ _ _ E3 A2) as A3.
      destruct y3; [|inv H; auto].
      match type of H with (let '(_, _) := ?e in _) = _ => destruct e as [y4 s4] eqn:E4 end.
      assert (A4 : A None s4).
      { dm E4; [|inv E4; auto]. eapply pool_invalidate_A in E4; eauto. destruct E4; auto. }
      destruct y4; [|inv H; auto].
      destruct (get_connection cf r s4) as [[c'|err] s5] eqn:E5;
        pose proof (A_rl cf _ _ _ (get_connection_rl _ _ _ _ _ E5) A4) as A5.
      * eapply IHn in H; [exact H|]. a_leaf; auto.
      * destruct (checkin_failed cf r true s5) as [y6 s6] eqn:E6.
        assert (A6 : A None s6) by (eapply checkin_failed_A; eauto; intros; discriminate).
        unfold reraise_after in H. destruct y6; inv H; auto.
    + destruct (f_rec s2 f) as [r'|]; [|inv H; auto].
      destruct (checkin_failed cf r' true s2) as [y6 s6] eqn:E6.
      assert (A6 : A None s6) by (eapply checkin_failed_A; eauto; intros; discriminate).
      unfold reraise_after in H. destruct y6; inv H; auto.
Qed.

(* on success the loop leaves the fairy linked to its record *)
Lemma checkout_loop_link : forall n f r0 s g s', checkout_loop cf n f s = (Ok g, s') ->
  f_rec s f = Some r0 -> r_fairy s r0 = Some f -> f_rec s' f = Some r0 /\ r_fairy s' r0 = Some f.
Proof.
  induction n; intros f r0 s g s' H H1 H2; cbn [checkout_loop] in H.
  - destruct (fairy_invalidate cf f false s) as [[|] ?]; inv H.
  - rewrite H1 in H. destruct (f_dbc s f) as [c|] eqn:Ec; [|inv H].
    set (s0 := set_r_fresh s (upd (r_fresh s) r0 false)) in *.
    match type of H with (let '(_, _) := ?e in _) = _ => destruct e as [x1 s1] eqn:E1 end.
    assert (M1 : RecLevel s0 s1).
    { dm E1; [|inv E1; apply RecLevel_refl].
      destruct (ext_ping c s0) as [z s2] eqn:Ep. apply ext_ping_rl in Ep.
      repeat dm E1; inv E1; auto. }
    match type of H with (let '(_, _) := ?e in _) = _ => destruct e as [x2 s2] eqn:E2 end.
    assert (M2 : RecLevel s1 s2).
    { destruct x1; [|inv E2; apply RecLevel_refl]. dm E2; [|inv E2; apply RecLevel_refl].
      eapply ext_event_rl; eauto. }
    assert (R02 : RecLevel s0 s2) by (eapply RecLevel_trans; eauto).
    assert (L2 : f_rec s2 f = Some r0 /\ r_fairy s2 r0 = Some f).
    { destruct R02. unfold f_rec in *. rewrite rl_fr, rl_fairy. auto. }
    destruct x2 as [|e]; [inv H; auto|].
    destruct (is_disc e).
    + destruct (rec_invalidate cf r0 false s2) as [y3 s3] eqn:E3.
      apply rec_invalidate_rl in E3.
      destruct y3; [|inv H].
      match type of H with (let '(_, _) := ?e in _) = _ => destruct e as [y4 s4] eqn:E4 end.
      assert (L4 : f_rec s4 f = Some r0 /\ r_fairy s4 r0 = Some f).
      { assert (L3 : f_rec s3 f = Some r0 /\ r_fairy s3 r0 = Some f)
          by (destruct E3, L2; unfold f_rec in *; rewrite rl_fr, rl_fairy; auto).
        dm E4; [|inv E4; auto]. unfold pool_invalidate in E4.
        match type of E4 with (_, ?sa) = _ => assert (fr sa = fr s3 /\ r_fairy sa = r_fairy s3) end.
        { dm_goal; auto. destruct (now cf s3) as [t s5] eqn:En. apply now_rl in En. destruct En.
          split; [rewrite <- rl_fr|rewrite <- rl_fairy]; reflexivity. }
        inv E4. destruct H0 as [H3 H4]. unfold f_rec in *. rewrite H3, H4. auto. }
      destruct y4; [|inv H].
      destruct (get_connection cf r0 s4) as [[c'|err] s5] eqn:E5.
      * apply get_connection_rl in E5. eapply IHn in H; eauto.
        -- change (f_rec (set_f_dbc s5 (upd (f_dbc s5) f (Some c'))) f) with (f_rec s5 f).
           destruct E5, L4. unfold f_rec in *. rewrite rl_fr. auto.
        -- change (r_fairy (set_f_dbc s5 (upd (f_dbc s5) f (Some c'))) r0) with (r_fairy s5 r0).
           destruct E5, L4. rewrite rl_fairy. auto.
      * unfold reraise_after in H. destruct (checkin_failed cf r0 true s5) as [[|] ?]; inv H.
    + unfold reraise_after in H. destruct (f_rec s2 f); [|inv H].
      destruct (checkin_failed cf n0 true s2) as [[|] ?]; inv H.
Qed.

(* ------------------------------------------------------------------ the boundary invariant *)
Definition RecOrig (s : st) : Prop :=
  forall f r, f_rec s f = Some r -> r = f_orig s f /\ (f < nfairies s)%nat.
Definition RBd (s : st) : Prop :=
  forall g r, f_dead s g = false -> f_rec s g = Some r -> r_fairy s r = Some g.
Definition QB (s : st) : Prop :=
  Bnd s /\ A None s /\ (taint s = false -> RecOrig s /\ RBd s).

Lemma pool_connect_Q : forall s x s', pool_connect cf s = (x, s') -> A None s -> taint s' = false ->
  A None s' /\ exists r0, r_fairy s r0 = None /\
     (forall r', r' <> r0 -> r_fairy s' r' = r_fairy s r') /\
     (forall g, g <> nfairies s -> f_rec s' g = f_rec s g) /\
     (f_rec s' (nfairies s) = f_rec s (nfairies s) \/ f_rec s' (nfairies s) = None \/
      (f_rec s' (nfairies s) = Some r0 /\ f_orig s' (nfairies s) = r0 /\ nfairies s' = S (nfairies s))) /\
     match x with
     | Ok f => f = nfairies s /\ f_rec s' f = Some r0 /\ r_fairy s' r0 = Some f
     | Raise _ => True
     end.
Proof.
  unfold pool_connect; rewrite KQ. unfold fairy_checkout. intros s x s' H HA T.
  destruct (record_checkout cf s) as [[f|e] s1] eqn:Er.
  2:{ inv H. destruct (record_checkout_Q _ _ _ Er HA T) as (B1 & B2 & B3).
      split; auto.
      assert (T0 : taint s = false) by (eapply Mono_tc_false; [eapply record_checkout_mono; eauto|auto]).
      destruct (A_untainted _ _ HA T0) as (_ & (_ & _ & _ & _ & Q5) & _).
      exists (nrecs s). split; [apply Q5; lia|]. split; [intros; apply B2|].
      split; [intros; unfold f_rec; rewrite B3; auto|]. split; [left; unfold f_rec; rewrite B3; auto|exact I]. }
  cbn beta iota in H.
  set (s2 := set_f_counter s1 (upd (f_counter s1) f (f_counter s1 f + 1))) in *.
  assert (T1 : taint s1 = false).
  { destruct (f_rec s1 f), (f_dbc s1 f); try (inv H; exact T).
    dm H; [inv H; exact T|]. apply (Mono_tc_false s2 s'); [eapply checkout_loop_mono; exact H|exact T]. }
  destruct (record_checkout_Q _ _ _ Er HA T1) as (B1 & r0 & C1 & C2 & C3 & C4 & C5 & C6 & C7).
  subst f.
  assert (NF1 : nfairies s1 = S (nfairies s)) by (apply record_checkout_new in Er; tauto).
  assert (L2 : f_rec s2 (nfairies s) = Some r0 /\ r_fairy s2 r0 = Some (nfairies s) /\ A None s2
               /\ f_orig s2 (nfairies s) = r0).
  { subst s2. split; [exact C2|]. split; [exact C4|]. split; [a_leaf; auto|exact C3]. }
  destruct L2 as (L2a & L2b & L2c & L2d).
  assert (G : forall x' s'', (x', s'') = (x, s') ->
     (x' = Ok (nfairies s) /\ s'' = s2) \/ (s'' = s1 /\ x' = Raise AssertE) \/ checkout_loop cf 2 (nfairies s) s2 = (x', s'') ->
     A None s'' /\ exists r0, r_fairy s r0 = None /\
     (forall r', r' <> r0 -> r_fairy s'' r' = r_fairy s r') /\
     (forall g, g <> nfairies s -> f_rec s'' g = f_rec s g) /\
     (f_rec s'' (nfairies s) = f_rec s (nfairies s) \/ f_rec s'' (nfairies s) = None \/
      (f_rec s'' (nfairies s) = Some r0 /\ f_orig s'' (nfairies s) = r0 /\ nfairies s'' = S (nfairies s))) /\
     match x' with
     | Ok f => f = nfairies s /\ f_rec s'' f = Some r0 /\ r_fairy s'' r0 = Some f
     | Raise _ => True
     end).
  { intros x' s'' _ [[-> ->]|[[-> ->]|Hl]].
    - split; [exact L2c|]. exists r0. split; [exact C5|]. split; [exact C6|]. split; [exact C7|].
      split; [right; right; repeat split; auto|auto].
    - split; [exact B1|]. exists r0. split; [exact C5|]. split; [exact C6|]. split; [exact C7|].
      split; [right; right; repeat split; auto|exact I].
    - pose proof (checkout_loop_A _ _ _ _ _ Hl L2c) as A3.
      pose proof (checkout_loop_oo cf _ _ r0 _ _ _ Hl ltac:(intros r1 Hr1; congruence)) as [].
      pose proof (checkout_loop_nf cf _ _ _ _ _ Hl) as (N1 & N2 & N3).
      split; [exact A3|]. exists r0. split; [exact C5|].
      split; [intros r' Hr'; rewrite oo_rec by auto; apply C6; auto|].
      split; [intros g Hg; rewrite oo_other by auto; apply C7; auto|].
      split.
      + destruct oo_self as [Hs|Hs]; [right; right; rewrite Hs, N2, N1; repeat split; auto|auto].
      + destruct x' as [g|]; [|exact I].
        pose proof (checkout_loop_ret cf _ _ _ _ _ Hl). subst g.
        destruct (checkout_loop_link _ _ _ _ _ _ Hl L2a L2b). auto. }
  apply (G x s' eq_refl).
  rewrite C2 in H. destruct (f_dbc s1 (nfairies s)); [|right; left; inv H; auto].
  dm H; [left; inv H; auto|right; right; exact H].
Qed.

Lemma gc_fairy_Q : forall f s, A None s ->
  A None (gc_fairy cf f s) /\ (forall g, f_rec (gc_fairy cf f s) g = f_rec s g) /\
  (forall r' g, g <> f -> r_fairy s r' = Some g -> r_fairy (gc_fairy cf f s) r' = Some g).
Proof.
  intros f s HA. unfold gc_fairy. destruct (f_dead s f); [auto|].
  set (s0 := set_f_dead s (upd (f_dead s) f true)).
  destruct (finalize cf None (Some (f_orig s f)) (Some f) false None s0) as [x s'] eqn:E. cbn [snd].
  assert (A0 : A None s0) by (subst s0; a_leaf; auto).
  destruct (finalize_A _ _ _ _ _ _ _ _ E A0) as [B1 _].
  split; [exact B1|]. split.
  - intros g. pose proof (finalize_oo cf (S g) (f_orig s f) _ _ _ _ _ _ _ _ E
                            ltac:(intros; discriminate) ltac:(intros r' Hr'; inv Hr'; auto)) as [].
    rewrite oo_other by lia. reflexivity.
  - intros r' g Hg Hr'. destruct (Nat.eq_dec r' (f_orig s f)).
    + subst r'. unfold finalize in E. change (r_fairy s0 (f_orig s f)) with (r_fairy s (f_orig s f)) in E.
      rewrite Hr' in E. rewrite (proj2 (Nat.eqb_neq f g)) in E by auto. cbn [negb] in E. inv E. exact Hr'.
    + pose proof (finalize_oo cf O (f_orig s f) _ _ _ _ _ _ _ _ E
                   ltac:(intros; discriminate) ltac:(intros r1 Hr1; inv Hr1; auto)) as [].
      rewrite oo_rec by auto. exact Hr'.
Qed.


Lemma gc_fairy_parts : forall f s,
  nfairies (gc_fairy cf f s) = nfairies s /\ f_orig (gc_fairy cf f s) = f_orig s /\
  (forall g, g <> f -> f_dead (gc_fairy cf f s) g = f_dead s g) /\ f_dead (gc_fairy cf f s) f = true /\
  (taint (gc_fairy cf f s) = false -> taint s = false).
Proof.
  intros f s. unfold gc_fairy. destruct (f_dead s f) eqn:Ed; [auto|].
  set (s0 := set_f_dead s (upd (f_dead s) f true)).
  destruct (finalize cf None (Some (f_orig s f)) (Some f) false None s0) as [x s'] eqn:E. cbn [snd].
  pose proof (finalize_nf _ _ _ _ _ _ _ _ _ E) as (N1 & N2 & N3).
  pose proof (finalize_mono _ _ _ _ _ _ _ _ _ E) as M.
  split; [rewrite N1; reflexivity|]. split; [rewrite N2; reflexivity|].
  split; [intros g Hg; rewrite N3; subst s0; change (upd (f_dead s) f true g = f_dead s g); apply upd_other; auto|].
  split; [rewrite N3; subst s0; change (upd (f_dead s) f true f = true); apply upd_same|].
  intros T. exact (Mono_tc_false _ _ M T).
Qed.

Lemma gc_fairy_RB : forall f s, A None s -> (taint s = false -> RecOrig s /\ RBd s) ->
  A None (gc_fairy cf f s) /\ (taint (gc_fairy cf f s) = false -> RecOrig (gc_fairy cf f s) /\ RBd (gc_fairy cf f s)).
Proof.
  intros f s HA HR. destruct (gc_fairy_Q f s HA) as (G1 & G2 & G3).
  destruct (gc_fairy_parts f s) as (P1 & P2 & P3 & P4 & P5).
  split; [exact G1|]. intros T. destruct (HR (P5 T)) as [RO RB]. split.
  - intros g r Hr. rewrite G2 in Hr. rewrite P1, P2. apply RO; auto.
  - intros g r Hd Hr. rewrite G2 in Hr.
    assert (g <> f) by (intro; subst; congruence).
    rewrite P3 in Hd by auto. apply G3; auto.
Qed.

Lemma QB_init : forall fl, QB (init cf fl).
Proof.
  intros. split; [apply Bnd_init|]. split.
  - right. split; [|split].
    + unfold AccK, inuse_count. cbn. lia.
    + repeat split; cbn; intros; try discriminate; try contradiction; auto; try constructor; try lia.
    + unfold OvB. cbn. lia.
  - intros _. split; [intros f r H; cbn in H; discriminate|intros g r _ H; cbn in H; discriminate].
Qed.

(* operations on a held fairy *)
Lemma QB_on_fairy : forall f s s',
  QB s -> held f s = true ->
  Mono s s' -> SameNF s s' ->
  (forall r0, (forall r, f_rec s f = Some r -> r = r0) -> OpOn f r0 s s') ->
  (A None s -> (forall r, f_rec s f = Some r -> taint s = false -> r_fairy s r <> None) ->
   A None s' /\ (forall r0, f_rec s f = Some r0 -> r_fairy s r0 = Some f -> f_rec s' f = Some r0 ->
                 taint s' = false -> r_fairy s' r0 = Some f)) ->
  QB s'.
Proof.
  intros f s s' (B & HA & RR) Hh M (N1 & N2 & N3) HO HAk.
  pose proof B as (_ & HAl & _). destruct (HAl f Hh) as [Hf Hd].
  assert (RBf : forall r, f_rec s f = Some r -> taint s = false -> r_fairy s r = Some f)
    by (intros r Hr T; apply (proj2 (RR T)); auto).
  destruct (HAk HA) as [A' Lk]. { intros r Hr T. rewrite (RBf r Hr T). discriminate. }
  split; [eapply Bnd_same; eauto; repeat split; auto|]. split; [exact A'|].
  intros T. pose proof (Mono_tc_false _ _ M T) as T0. destruct (RR T0) as [RO RB]. split.
  - intros g r Hr. rewrite N1, N2.
    pose proof (HO (f_orig s f) ltac:(intros r1 Hr1; apply RO in Hr1; tauto)) as [].
    destruct (Nat.eq_dec g f).
    + subst g. destruct oo_self as [Hs|Hs]; [rewrite Hs in Hr; apply RO; auto|congruence].
    + rewrite oo_other in Hr by auto. apply RO; auto.
  - intros g r Hdg Hr. rewrite N3 in Hdg.
    destruct (Nat.eq_dec g f).
    + subst g.
      pose proof (HO (f_orig s f) ltac:(intros r1 Hr1; apply RO in Hr1; tauto)) as [].
      destruct oo_self as [Hs|Hs]; [|congruence]. rewrite Hs in Hr.
      apply Lk; auto. rewrite Hs; auto.
    + (* another live fairy: its record is not the one operated on *)
      destruct (f_rec s f) as [rf|] eqn:Ef.
      * pose proof (HO rf ltac:(intros r1 Hr1; congruence)) as [].
        rewrite oo_other in Hr by auto. pose proof (RB g r Hdg Hr) as Hg.
        assert (r <> rf) by (intro; subst; rewrite (RBf rf eq_refl T0) in Hg; congruence).
        rewrite oo_rec by auto. exact Hg.
      * pose proof (HO (S r) ltac:(intros r1 Hr1; congruence)) as [].
        rewrite oo_other in Hr by auto. pose proof (RB g r Hdg Hr) as Hg.
        rewrite oo_rec by lia. exact Hg.
Qed.

(* after pool.connect(): the links of the old fairies are intact *)
Lemma connect_RB : forall s x s1, pool_connect cf s = (x, s1) -> A None s ->
  (taint s = false -> RecOrig s /\ RBd s) -> taint s1 = false ->
  A None s1 /\ RecOrig s1 /\
  (forall g r, g <> nfairies s -> f_dead s1 g = false -> f_rec s1 g = Some r -> r_fairy s1 r = Some g) /\
  (forall f, x = Ok f -> f = nfairies s /\ exists r0, f_rec s1 f = Some r0 /\ r_fairy s1 r0 = Some f).
Proof.
  intros s x s1 E HA RR T.
  pose proof (pool_connect_mono _ _ _ _ E) as M. pose proof (Mono_tc_false _ _ M T) as T0.
  destruct (RR T0) as [RO RB]. pose proof M as [].
  destruct (pool_connect_Q _ _ _ E HA T) as (A1 & r0 & C1 & C2 & C3 & C4 & C5).
  assert (RO1 : RecOrig s1).
  { intros g r Hr. destruct (Nat.eq_dec g (nfairies s)).
    - subst g. destruct C4 as [C4|[C4|(C4 & C4' & C4'')]].
      + rewrite C4 in Hr. apply RO in Hr. lia.
      + congruence.
      + rewrite C4 in Hr. inv Hr. split; [auto|lia].
    - rewrite C3 in Hr by auto. destruct (RO _ _ Hr). rewrite m_orig by auto. split; [auto|lia]. }
  split; [exact A1|]. split; [exact RO1|]. split.
  - intros g r Hg Hd Hr. rewrite C3 in Hr by auto. destruct (RO _ _ Hr) as [_ Hlt].
    rewrite m_dead in Hd by auto. pose proof (RB g r Hd Hr) as Hg'.
    assert (r <> r0) by (intro; subst; congruence). rewrite C2 by auto. exact Hg'.
  - intros f ->. destruct C5 as (C5 & C5' & C5''). split; [auto|]. exists r0. auto.
Qed.

Theorem step_QB : forall o dt s x s', QB s -> step cf o dt s = (x, s') -> QB s'.
Proof.
  intros o dt s x s' B H.
  pose proof (step_Bnd cf o dt s x s' ltac:(destruct B; auto) H) as B'.
  unfold step in H.
  set (s0 := set_trace (set_clock s (clock s + dt)) []) in *.
  assert (B0 : QB s0).
  { destruct B as (B1 & B2 & B3). split; [exact B1|]. split; [|exact B3].
    subst s0. a_leaf; auto. }
  clearbody s0. clear B s.
  assert (OH : forall h (k : nat -> st -> res unit * st),
     (forall f y s1, k f s0 = (y, s1) -> Mono s0 s1 /\ SameNF s0 s1 /\
        (forall r0, (forall r, f_rec s0 f = Some r -> r = r0) -> OpOn f r0 s0 s1) /\
        (A None s0 -> (forall r, f_rec s0 f = Some r -> taint s0 = false -> r_fairy s0 r <> None) ->
          A None s1 /\ (forall r0, f_rec s0 f = Some r0 -> r_fairy s0 r0 = Some f -> f_rec s1 f = Some r0 ->
                 taint s1 = false -> r_fairy s1 r0 = Some f))) ->
     on_holder h s0 (fun f => k f s0) = (x, s') -> QB s').
  { intros h k Hk Ho. unfold on_holder in Ho.
    destruct (nth_error (holders s0) h) as [[f|]|] eqn:En; try (inv Ho; exact B0).
    destruct (k f s0) as [y s1] eqn:Ek. destruct (Hk _ _ _ Ek) as (K1 & K2 & K3 & K4).
    assert (s' = s1) by (destruct y; inv Ho; auto). subst s1.
    eapply (QB_on_fairy f s0 s'); eauto. unfold held. eapply nth_error_held; eauto. }
  destruct o.
  - (* connect *)
    destruct (pool_connect cf s0) as [[f|e] s1] eqn:E; inv H; destruct B0 as (B0 & HA & RR).
    + (* success *)
      split; [exact B'|]. split.
      { destruct (taint s1) eqn:T; [left; exact T|].
        destruct (connect_RB _ _ _ E HA RR T) as (A1 & _). a_leaf; auto. }
      intros T. change (taint s1 = false) in T.
      destruct (connect_RB _ _ _ E HA RR T) as (A1 & RO1 & RB1 & RF).
      destruct (RF f eq_refl) as (-> & r0 & F1 & F2).
      split; [exact RO1|]. intros g r Hd Hr. change (f_dead s1 g = false) in Hd. change (f_rec s1 g = Some r) in Hr.
      change (r_fairy s1 r = Some g). destruct (Nat.eq_dec g (nfairies s0)); [subst g|apply RB1; auto].
      rewrite F1 in Hr. inv Hr. exact F2.
    + (* failure *)
      split; [exact B'|].
      assert (X : A None s1 /\ (taint s1 = false -> RecOrig s1 /\
                 (forall g r, g <> nfairies s0 -> f_dead s1 g = false -> f_rec s1 g = Some r -> r_fairy s1 r = Some g))).
      { destruct (taint s1) eqn:T; [split; [left; exact T|discriminate]|].
        destruct (connect_RB _ _ _ E HA RR T) as (A1 & RO1 & RB1 & _). auto. }
      destruct X as [A1 X].
      destruct (Nat.eqb_spec (nfairies s1) (S (nfairies s0))) as [En|En].
      * destruct (gc_fairy_Q (nfairies s0) s1 A1) as (G1 & G2 & G3).
        destruct (gc_fairy_parts (nfairies s0) s1) as (P1 & P2 & P3 & P4 & P5).
        split; [exact G1|]. intros T. destruct (X (P5 T)) as [RO1 RB1]. split.
        -- intros g r Hr. rewrite G2 in Hr. rewrite P1, P2. apply RO1; auto.
        -- intros g r Hd Hr. rewrite G2 in Hr.
           assert (g <> nfairies s0) by (intro; subst; congruence).
           rewrite P3 in Hd by auto. apply G3; auto.
      * split; [exact A1|]. intros T. destruct (X T) as [RO1 RB1]. split; [exact RO1|].
        intros g r Hd Hr. destruct (RO1 _ _ Hr) as [_ Hlt].
        pose proof (pool_connect_mono _ _ _ _ E) as [].
        pose proof (pool_connect_new _ _ _ _ E) as N. cbn beta iota in N.
        destruct N as [(N1 & _)|(N1 & _)]; [|congruence].
        apply RB1; auto. rewrite N1 in Hlt. lia.
  - eapply OH; eauto. intros f y s1 Hk. split; [eapply fairy_close_mono; eauto|]. split; [eapply fairy_close_nf; eauto|].
    split; [intros; eapply fairy_close_oo; eauto|]. intros HA _. eapply fairy_close_A; eauto.
  - eapply (OH h (fun f => fairy_invalidate cf f soft)); eauto. intros f y s1 Hk.
    split; [eapply fairy_invalidate_mono; eauto|]. split; [eapply fairy_invalidate_nf; eauto|].
    split; [intros; eapply fairy_invalidate_oo; eauto|]. intros HA _. eapply fairy_invalidate_A; eauto.
  - eapply OH; eauto. intros f y s1 Hk. pose proof (fairy_detach_mono _ _ _ _ _ Hk) as M.
    split; [exact M|]. split; [eapply fairy_detach_nf; eauto|].
    split; [intros; eapply fairy_detach_oo; eauto|]. intros HA Hr.
    destruct (taint s0) eqn:T0.
    + pose proof (Mono_taint_true _ _ M T0) as T1. split; [left; exact T1|]. intros r0 _ _ _ T. congruence.
    + destruct (fairy_detach_A _ _ _ _ Hk HA ltac:(intros r Hr1; apply Hr; auto)) as [D1 D2].
      split; [exact D1|]. intros r0 _ _ H3 T. rewrite (D2 _ H3) in T. discriminate.
  - (* del *)
    destruct (nth_error (holders s0) h) as [[f|]|] eqn:En; try (inv H; exact B0).
    inv H. destruct B0 as (B0 & HA & RR). split; [exact B'|].
    set (s1 := set_holders s0 (set_nth (holders s0) h None)) in *.
    assert (A1 : A None s1) by (subst s1; a_leaf; auto).
    assert (RR1 : taint s1 = false -> RecOrig s1 /\ RBd s1) by exact RR.
    destruct (held f s1); [split; auto|]. apply gc_fairy_RB; auto.
  - inv H. exact B0.
  - eapply (OH h (fun f => pool_invalidate cf f true)); eauto. intros f y s1 Hk.
    split; [eapply pool_invalidate_mono; eauto|]. split; [eapply pool_invalidate_nf; eauto|].
    split; [intros; eapply pool_invalidate_oo; eauto|]. intros HA _. eapply pool_invalidate_A; eauto.
Qed.

Theorem run_QB : forall ops s, QB s -> QB (run cf ops s).
Proof.
  induction ops as [|[o dt] r IH]; intros s B; cbn [run]; auto.
  destruct (step cf o dt s) as [x s1] eqn:E. cbn [snd]. apply IH. eapply step_QB; eauto.
Qed.

(* overflow_consistent: after any history and any fault script, unless a BaseException has escaped a
   DBAPI close(): checkedout() is exactly the number of records in use, idle records never exceed
   pool_size, the overflow counter stays within [-pool_size, max_overflow] *)
Theorem overflow_consistent : forall fl ops,
  let s := run cf ops (init cf fl) in
  taint s = false ->
  checkedout cf s = Z.of_nat (inuse_count s) /\
  (0 < psize cf -> checkedin s <= psize cf) /\
  - psize cf <= overflow s /\ (0 <= maxov cf -> overflow s <= maxov cf).
Proof.
  intros fl ops s T. destruct (run_QB ops _ (QB_init fl)) as (_ & HA & _). fold s in HA.
  destruct (A_untainted _ _ HA T) as (H1 & (_ & _ & _ & Q4 & _) & H3).
  unfold AccK in H1. cbn [flz] in H1. unfold checkedout, checkedin. split; [lia|]. split; [exact Q4|].
  split; [lia|exact H3].
Qed.

(* with no_leak: all holders released => checkedout() = 0 *)
Theorem no_leak_checkedout : forall fl ops,
  let s := run cf ops (init cf fl) in
  taint s = false -> all_released s -> checkedout cf s = 0.
Proof.
  intros fl ops s T R.
  assert (Tc : taint_gc s = false) by (unfold taint in T; apply orb_false_iff in T; tauto).
  destruct (overflow_consistent fl ops T) as [H _]. fold s in H. rewrite H.
  pose proof (no_leak cf fl ops Tc R) as H0. fold s in H0. rewrite H0. reflexivity.
Qed.

End Acc2.
