(* C23: the theorems about whole histories. *)
From Coq Require Import List ZArith NArith Bool Arith Lia.
Import ListNotations.
From SAV.engine Require Import RefDb Txn TxnBase TxnWF TxnSpec TxnSim.

Definition res_agree (r : option res) (b : option bool) : Prop :=
  match r, b with
  | None, None => True
  | Some r, Some b => res_ok r b
  | _, _ => False
  end.

Definition agree (rs : option res * st) (bp : option bool * spec) : Prop :=
  res_agree (fst rs) (fst bp) /\ R (snd rs) (snd bp).

Theorem sim_trace : forall ops s p, R s p -> WF s -> guard_from ops p = true ->
  Forall2 agree (trace ops s) (strace ops p).
Proof.
  induction ops as [|o ops IH]; intros s p HR W G; cbn [trace strace]; constructor.
  - pose proof (sim_step o s p HR W) as S. unfold agree, step_res, step_st, sstep_raised, sstep_st. cbn [fst snd].
    cbn [guard_from] in G. destruct (sstep o p) as [[b p']|].
    + apply andb_true_iff in G. destruct G as [G1 G2]. destruct (S G1) as (r & s' & A & B & C).
      rewrite A. split; auto.
    + rewrite S. split; [exact I|apply R_clear_log; auto].
  - pose proof (sim_step o s p HR W) as S. pose proof (step_good o s W) as [W' _].
    cbn [guard_from] in G. unfold sstep_st. unfold step_st in *. destruct (sstep o p) as [[b p']|].
    + apply andb_true_iff in G. destruct G as [G1 G2]. destruct (S G1) as (r & s' & A & B & C).
      rewrite A in *. apply IH; auto.
    + rewrite S in *. apply IH; auto. apply R_clear_log; auto.
Qed.

(* what R says about the observations *)
Lemma R_flags : forall s p, R s p ->
  in_transaction s = spec_in_transaction p /\ in_nested_transaction s = spec_in_nested p.
Proof.
  intros s p HR. unfold in_transaction, in_nested_transaction, inst_active, spec_in_transaction, spec_in_nested.
  destruct (c_root s) as [r|] eqn:Hr.
  - destruct (R_root_some _ _ _ HR Hr) as (nf & rs & Hst & _ & Hch & Hact & _).
    rewrite Hact, Hst, app_length. cbn [length]. split.
    + destruct (length nf + 1) eqn:E; [lia|reflexivity].
    + destruct (c_nested s) as [k|] eqn:Hk.
      * rewrite (R_nested_active _ _ _ HR Hk). inversion Hch; subst. cbn [length]. symmetry. apply Nat.ltb_lt. lia.
      * inversion Hch; subst. reflexivity.
  - destruct (R_root_none _ _ HR Hr) as [-> ->]. split; reflexivity.
Qed.

Section Guarded.
  Variable ops : list op.
  Hypothesis G : guard_from ops (spec_init []) = true.

  Let T := trace ops (init db_empty).
  Let ST := strace ops (spec_init []).

  Lemma guarded_agree : Forall2 agree T ST.
  Proof. apply sim_trace; auto using R_init, WF_init. Qed.

  Lemma map_agree : forall A (f : option res * st -> A) (g : option bool * spec -> A),
    (forall rs bp, agree rs bp -> f rs = g bp) -> map f T = map g ST.
  Proof.
    intros A f g H. pose proof guarded_agree as F. induction F; cbn; auto. f_equal; auto.
  Qed.

  (* after every operation (so in particular after each outer commit) another connection sees
     exactly what the reference nested-transaction model says; and the connection itself too *)
  Theorem committed_data_eq_reference :
    map (fun rs => (committed (s_db (snd rs)), work (s_db (snd rs)))) T =
    map (fun bp => (p_committed (snd bp), p_cur (snd bp))) ST.
  Proof. apply map_agree. intros rs bp [_ HR]. rewrite (R_committed _ _ HR), (R_work _ _ HR). reflexivity. Qed.

  Theorem flags_agree :
    map (fun rs => (in_transaction (snd rs), in_nested_transaction (snd rs))) T =
    map (fun bp => (spec_in_transaction (snd bp), spec_in_nested (snd bp))) ST.
  Proof. apply map_agree. intros rs bp [_ HR]. destruct (R_flags _ _ HR) as [-> ->]. reflexivity. Qed.

  (* every handle is active exactly while the reference model holds its frame open *)
  Theorem handles_agree : Forall2 (fun rs bp => forall k, active k (snd rs) = live k (snd bp)) T ST.
  Proof. pose proof guarded_agree as F. induction F; constructor; auto. destruct H. apply R_active. auto. Qed.

  (* an operation raises exactly when the reference model refuses it - in particular commit() on an
     ended transaction raises - and the fuel of the model is never exhausted *)
  Theorem raises_agree : Forall2 (fun rs bp => res_agree (fst rs) (fst bp)) T ST.
  Proof. pose proof guarded_agree as F. induction F; constructor; auto. destruct H. auto. Qed.

  (* every command sent to the database is accepted by it *)
  Theorem commands_well_nested : Forall (fun rs => forallb snd (s_out (snd rs)) = true) T.
  Proof.
    pose proof guarded_agree as F. induction F; constructor; auto. destruct H. apply (R_out _ _ H0).
  Qed.
End Guarded.

(* the reference model: commit() on an ended transaction raises and changes nothing; rollback()/close()
   on it do nothing *)
Lemma spec_ended_commit : forall k p, k < p_next p -> live k p = false -> sstep (TCommit k) p = Some (true, p).
Proof. intros. unfold sstep. rewrite (proj2 (Nat.ltb_lt _ _) H), H0. reflexivity. Qed.
Lemma spec_ended_close : forall k p, k < p_next p -> live k p = false ->
  sstep (TRollback k) p = Some (false, p) /\ sstep (TClose k) p = Some (false, p).
Proof. intros. unfold sstep. rewrite (proj2 (Nat.ltb_lt _ _) H), H0. auto. Qed.

(* ---- the defective regions (concrete histories) ---- *)
Definition T0 (ops : list op) := trace ops (init db_empty).
Definition ST0 (ops : list op) := strace ops (spec_init []).
Definition rejected (rs : option res * st) : bool := negb (forallb snd (s_out (snd rs))).
Definition flags_of (rs : option res * st) := (in_transaction (snd rs), in_nested_transaction (snd rs)).
Definition sflags_of (bp : option bool * spec) := (spec_in_transaction (snd bp), spec_in_nested (snd bp)).

(* (a) out-of-order savepoint end: s1 = begin_nested(); s2 = begin_nested(); s1.rollback(); s2.rollback() *)
Definition witness_a : list op := [ONested; ONested; TRollback 1; TRollback 2].
(* (b) t1 (autobegun) committed; new transaction with a savepoint; t1.rollback() *)
Definition witness_b : list op := [ONested; OCommit; ONested; TRollback 0].
(* (c) t = begin(); s1 = begin_nested(); insert; with begin_nested() as s2: s2.commit(); s1.rollback()
   raises but ends s1 without ROLLBACK TO; t.commit() then publishes the row *)
Definition witness_c : list op :=
  [OBegin; ONested; OIns 7; ONested; TEnter 2; TCommit 2; TRollback 1; TExit 2 false; TCommit 0].

Lemma refuted_commands_a : existsb rejected (T0 witness_a) = true.
Proof. vm_compute. reflexivity. Qed.
Lemma refuted_flags_a : map flags_of (T0 witness_a) <> map sflags_of (ST0 witness_a).
Proof. intro E. pose proof (f_equal (fun l => nth 2 l (false, false)) E) as X. vm_compute in X. inversion X. Qed.
Lemma refuted_flags_b : map flags_of (T0 witness_b) <> map sflags_of (ST0 witness_b).
Proof. intro E. pose proof (f_equal (fun l => nth 3 l (false, false)) E) as X. vm_compute in X. inversion X. Qed.
Lemma refuted_data_c :
  map (fun rs => committed (s_db (snd rs))) (T0 witness_c) <> map (fun bp => p_committed (snd bp)) (ST0 witness_c).
Proof. intro E. pose proof (f_equal (fun l => nth 8 l []) E) as X. vm_compute in X. inversion X. Qed.
Lemma witnesses_unguarded :
  guard_from witness_a (spec_init []) = false /\ guard_from witness_b (spec_init []) = false /\
  guard_from witness_c (spec_init []) = false.
Proof. vm_compute. auto. Qed.
