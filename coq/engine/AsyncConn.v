(* C29 - the connection life cycle behind AsyncEngine / AsyncConnection on an asyncio driver
   (aiosqlite), as resumption trees over the trampoline of Async.v.  Definitions only.

   Transcribed (the functions are named after the Python ones):
     util/concurrency.py            greenlet_spawn (Async.v), await_ = [await_]
     connectors/asyncio.py          AsyncAdapt_dbapi_cursor.{__init__,execute,_execute_async,close},
                                    AsyncAdapt_dbapi_connection.{rollback,commit,close},
                                    AsyncAdapt_terminate.terminate
     dialects/sqlite/aiosqlite.py   AsyncAdapt_aiosqlite_connection.{rollback,commit,close} (the
                                    "if self._connection._connection" probes), dialect flags
     pool/base.py                   Pool._close_connection, _ConnectionRecord.{checkout,checkin,
                                    _checkin_failed,invalidate,get_connection,close,__close,__connect},
                                    _finalize_fairy (explicit AND weakref/gc call, with the is_async /
                                    asyncio_safe / terminate flag arithmetic), _ConnectionFairy.{_checkout,
                                    _checkin,_reset,invalidate,detach,close,_close_special}
     pool/impl.py                   QueuePool._do_get/_do_return_conn/_inc_overflow/_dec_overflow
                                    (AsyncAdaptedQueuePool = QueuePool over AsyncAdaptedQueue, FIFO)
     engine/base.py                 Connection.{__init__,connection,_revalidate_connection,invalidate,
                                    _autobegin,begin,commit,rollback,close,_begin_impl,_rollback_impl,
                                    _commit_impl,_execute_context,_exec_single_context,
                                    _handle_dbapi_exception}, RootTransaction.{__init__,_close_impl,
                                    _do_commit,_do_rollback,_do_close}
     ext/asyncio/engine.py          AsyncConnection.{start,execute,begin,commit,rollback,close,__aexit__}
   One Connection is checked out at a time (the blocks of a case run one after the other).  The
   harness installs the documented pysqlite/aiosqlite recipe (connect: isolation_level=None, begin:
   exec_driver_sql("BEGIN")), so a transaction begins with an explicit BEGIN statement. *)
From Coq Require Import List ZArith Bool Arith Lia.
Import ListNotations.
From SAV.engine Require Import Async.
Open Scope Z_scope.

(* ---------------- exceptions, statements, awaitables, values ---------------- *)
Inductive exn :=
| ECancelled        (* asyncio.CancelledError - a BaseException *)
| EIntegrity        (* sqlite3.IntegrityError (duplicate primary key) *)
| EOperational      (* sqlite3.OperationalError, not a disconnect (BEGIN inside a transaction) *)
| EDead             (* OperationalError "no active connection": dialect.is_disconnect *)
| EInvalidRequest | EPendingRollback | EResourceClosed | EAwaitRequired | ETimeout
| EInternal.        (* AssertionError / AttributeError: never reached from safe states *)

Definition exn_code (e : exn) : Z :=
  match e with
  | ECancelled => 1 | EIntegrity => 2 | EOperational => 3 | EDead => 4 | EInvalidRequest => 5
  | EPendingRollback => 6 | EResourceClosed => 7 | EAwaitRequired => 8 | ETimeout => 9 | EInternal => 10
  end.
Definition exn_eqb (a b : exn) : bool := exn_code a =? exn_code b.

(* isinstance(e, Exception) *)
Definition is_exception (e : exn) : bool := match e with ECancelled => false | _ => true end.
(* util.concurrency.is_exit_exception: not Exception, or asyncio.TimeoutError / CancelledError *)
Definition is_exit_exception (e : exn) : bool := match e with ECancelled => true | _ => false end.
(* isinstance(e, dialect.loaded_dbapi.Error) *)
Definition is_dbapi_error (e : exn) : bool :=
  match e with EIntegrity | EOperational | EDead => true | _ => false end.
(* SQLiteDialect_aiosqlite.is_disconnect *)
Definition is_disconnect (e : exn) : bool := match e with EDead => true | _ => false end.

Inductive stmt := SBegin | SInsert (v : Z) | SSelect.
Definition returns_rows (s : stmt) : bool := match s with SSelect => true | _ => false end.

Inductive io :=
| IoConnect                       (* await_(aiosqlite.connect(...)) *)
| IoSetup (c : nat)               (* on-connect: create_function x2, isolation_level future *)
| IoCursor (c : nat)              (* await_(cursor.__aenter__()) *)
| IoExec (c : nat) (s : stmt)     (* _execute_async: await self._cursor.execute(...) *)
| IoFetch (c : nat)               (* _execute_async: await self._cursor.fetchall() *)
| IoCursorClose (c : nat)         (* await_(self._cursor.close()) *)
| IoCommit (c : nat) | IoRollback (c : nat)
| IoTermClose (c : nat)           (* await_(asyncio.shield(self._terminate_graceful_close())) *)
| IoClose (c : nat)               (* await_(self._connection.close()) *)
| IoForceClose (c : nat)          (* self._connection.stop(): no suspension *)
| IoProbe (c : nat).              (* reading self._connection._connection: no suspension *)

Inductive val := VUnit | VConn (c : nat) | VRows (l : list Z) | VBool (b : bool).

(* ---------------- the driver: connections with an open/transaction flag, and the data ------------- *)
Record dconn := mkd { d_open : bool; d_txn : bool; d_rows : list Z }.
Record world := mkw { conns : nat -> dconn; nconn : nat; committed : list Z; sqllog : list (nat * Z) }.
(* conns: every connection ever created, by creation index (< nconn); sqllog: statements seen by SQLite, newest first *)

Definition dead : dconn := mkd false false [].
Definition getc (w : world) (c : nat) : dconn := conns w c.
Definition setc (w : world) (c : nat) (d : dconn) : world :=
  mkw (fun c' => if Nat.eqb c' c then d else conns w c') (nconn w) (committed w) (sqllog w).
Definition wlog (w : world) (c : nat) (code : Z) : world := mkw (conns w) (nconn w) (committed w) ((c, code) :: sqllog w).
Definition set_committed (w : world) (l : list Z) : world := mkw (conns w) (nconn w) l (sqllog w).
Definition new_conn (w : world) (d : dconn) : world :=
  mkw (fun c' => if Nat.eqb c' (nconn w) then d else conns w c') (S (nconn w)) (committed w) (sqllog w).

Definition visible (w : world) (c : nat) : list Z :=
  if d_txn (getc w c) then d_rows (getc w c) else committed w.
Fixpoint ins_sorted (v : Z) (l : list Z) : list Z :=
  match l with [] => [v] | a :: r => if v <=? a then v :: l else a :: ins_sorted v r end.

Definition closed_conn (w : world) (c : nat) : world := setc w c dead.

Definition io_step (w : world) (i : io) : (val + exn) * world :=
  match i with
  | IoConnect => (inl (VConn (nconn w)), new_conn w (mkd true false []))
  | IoSetup c | IoCursor c | IoCursorClose c =>
      if d_open (getc w c) then (inl VUnit, w) else (inr EDead, w)
  | IoExec c s =>
      if negb (d_open (getc w c)) then (inr EDead, w) else
      match s with
      | SBegin =>
          if d_txn (getc w c) then (inr EOperational, wlog w c 0)
          else (inl VUnit, wlog (setc w c (mkd true true (committed w))) c 0)
      | SInsert v =>
          if existsb (Z.eqb v) (visible w c) then (inr EIntegrity, wlog w c 1)
          else if d_txn (getc w c) then (inl VUnit, wlog (setc w c (mkd true true (ins_sorted v (d_rows (getc w c))))) c 1)
          else (inl VUnit, wlog (set_committed w (ins_sorted v (committed w))) c 1)
      | SSelect => (inl VUnit, wlog w c 2)
      end
  | IoFetch c => if d_open (getc w c) then (inl (VRows (visible w c)), w) else (inr EDead, w)
  | IoCommit c =>
      if negb (d_open (getc w c)) then (inr EDead, w)
      else if d_txn (getc w c) then (inl VUnit, wlog (set_committed (setc w c (mkd true false [])) (d_rows (getc w c))) c 3)
      else (inl VUnit, w)
  | IoRollback c =>
      if negb (d_open (getc w c)) then (inr EDead, w)
      else if d_txn (getc w c) then (inl VUnit, wlog (setc w c (mkd true false [])) c 4)
      else (inl VUnit, w)
  | IoTermClose c | IoClose c | IoForceClose c => (inl VUnit, closed_conn w c)
  | IoProbe c => (inl (VBool (d_open (getc w c))), w)
  end.

(* a cancelled request that was already queued on the connection thread still runs; a cancelled
   connect creates the sqlite connection and aiosqlite's _connect stops it again *)
Definition io_cancel_step (w : world) (i : io) : world :=
  match i with
  | IoConnect => new_conn w dead
  | _ => snd (io_step w i)
  end.

Definition io_suspends (i : io) : bool :=
  match i with IoForceClose _ | IoProbe _ => false | _ => true end.

(* ---------------- Python-level state ---------------- *)
Record rec := mkrec { r_conn : option nat; r_fairy : bool }.       (* _ConnectionRecord: dbapi_connection, fairy_ref is not None *)
Record fairy := mkfairy { f_rec : bool; f_conn : option nat }.      (* _ConnectionFairy: _connection_record is not None, dbapi_connection *)

Inductive obs := OOk | ORows (l : list Z) | OErr (e : exn).

Record pst := mkpst {
  q : list rec;              (* AsyncAdaptedQueue contents, head = next to be handed out *)
  ov : Z;                    (* QueuePool._overflow *)
  cur : option rec;          (* the record of the latest checkout (the object the fairy / the weakref callback refers to) *)
  fo : option fairy;         (* the fairy object of the latest checkout while it is alive *)
  c_fairy : bool;            (* Connection._dbapi_connection is not None (it is [fo]) *)
  recon : bool;              (* Connection.__can_reconnect *)
  txn : option bool;         (* Connection._transaction: Some is_active *)
  n_out : nat;               (* ghost: records handed out by the pool (_do_get) *)
  n_in : nat;                (* ghost: records handed back to the pool (_do_return_conn) *)
  n_warn : nat;              (* "Double checkin attempted" + gc "non-checked-in connection" warnings *)
  oom : bool;                (* ghost: a path outside the model was taken (pool-wide invalidation) *)
  olog : list obs            (* what the user program saw, newest first *)
}.

Definition set_q s v := mkpst v (ov s) (cur s) (fo s) (c_fairy s) (recon s) (txn s) (n_out s) (n_in s) (n_warn s) (oom s) (olog s).
Definition set_ov s v := mkpst (q s) v (cur s) (fo s) (c_fairy s) (recon s) (txn s) (n_out s) (n_in s) (n_warn s) (oom s) (olog s).
Definition set_cur s v := mkpst (q s) (ov s) v (fo s) (c_fairy s) (recon s) (txn s) (n_out s) (n_in s) (n_warn s) (oom s) (olog s).
Definition set_fo s v := mkpst (q s) (ov s) (cur s) v (c_fairy s) (recon s) (txn s) (n_out s) (n_in s) (n_warn s) (oom s) (olog s).
Definition set_c_fairy s v := mkpst (q s) (ov s) (cur s) (fo s) v (recon s) (txn s) (n_out s) (n_in s) (n_warn s) (oom s) (olog s).
Definition set_recon s v := mkpst (q s) (ov s) (cur s) (fo s) (c_fairy s) v (txn s) (n_out s) (n_in s) (n_warn s) (oom s) (olog s).
Definition set_txn s v := mkpst (q s) (ov s) (cur s) (fo s) (c_fairy s) (recon s) v (n_out s) (n_in s) (n_warn s) (oom s) (olog s).
Definition set_n_out s v := mkpst (q s) (ov s) (cur s) (fo s) (c_fairy s) (recon s) (txn s) v (n_in s) (n_warn s) (oom s) (olog s).
Definition set_n_in s v := mkpst (q s) (ov s) (cur s) (fo s) (c_fairy s) (recon s) (txn s) (n_out s) v (n_warn s) (oom s) (olog s).
Definition set_n_warn s v := mkpst (q s) (ov s) (cur s) (fo s) (c_fairy s) (recon s) (txn s) (n_out s) (n_in s) v (oom s) (olog s).
Definition set_oom s v := mkpst (q s) (ov s) (cur s) (fo s) (c_fairy s) (recon s) (txn s) (n_out s) (n_in s) (n_warn s) v (olog s).
Definition set_olog s v := mkpst (q s) (ov s) (cur s) (fo s) (c_fairy s) (recon s) (txn s) (n_out s) (n_in s) (n_warn s) (oom s) v.

Inductive outcome := Ok (v : val) | Raise (e : exn).
Definition res : Type := outcome * pst.
Definition ptree := prog io val exn res.
Definition M := pst -> ptree.

Definition mret (v : val) : M := fun s => Ret (Ok v, s).
Definition munit : M := mret VUnit.
Definition mraise (e : exn) : M := fun s => Ret (Raise e, s).
Definition mbind (m : M) (f : val -> M) : M :=
  fun s => bind (m s) (fun r => match fst r with Ok v => f v (snd r) | Raise e => Ret (Raise e, snd r) end).
Definition mseq (m : M) (n : M) : M := mbind m (fun _ => n).
(* try: m  except BaseException as e: h e *)
Definition mtry (m : M) (h : exn -> M) : M :=
  fun s => bind (m s) (fun r => match fst r with Ok v => Ret (Ok v, snd r) | Raise e => h e (snd r) end).
(* try: m  finally: fin   (an exception out of [fin] replaces the pending outcome) *)
Definition mfinally (m : M) (fin : M) : M :=
  fun s => bind (m s) (fun r =>
    bind (fin (snd r)) (fun r2 => match fst r2 with Ok _ => Ret (fst r, snd r2) | Raise e => Ret (Raise e, snd r2) end)).
Definition mget (f : pst -> M) : M := fun s => f s s.
Definition mmod (f : pst -> pst) : M := fun s => Ret (Ok VUnit, f s).
(* util.concurrency.await_: switch to the parent greenlet with the awaitable *)
Definition await_ (i : io) : M :=
  fun s => Await i (fun x => match x with inl v => Ret (Ok v, s) | inr e => Ret (Raise e, s) end).

Notation "m ;; n" := (mseq m n) (at level 61, right associativity).
Notation "x <- m ;; n" := (mbind m (fun x => n)) (at level 61, m at next level, right associativity).

(* the DBAPI connections held by the records waiting in the pool queue *)
Definition qconns (q : list rec) : list nat :=
  flat_map (fun r => match r_conn r with Some c => [c] | None => [] end) q.

Record cfg := mkcfg { psize : Z; maxov0 : Z }.
Section Model.
  Variable cf : cfg.
  (* QueuePool.__init__: self._max_overflow = -1 if pool_size == 0 else max_overflow *)
  Definition maxov : Z := if psize cf =? 0 then -1 else maxov0 cf.

  (* dialect flags of SQLiteDialect_aiosqlite (aiosqlite >= 0.22.1 has Connection.stop) *)
  Definition dialect_is_async := true.
  Definition dialect_has_terminate := true.

  Definition cur_conn (s : pst) : option nat := match cur s with Some r => r_conn r | None => None end.
  Definition cur_fairy (s : pst) : bool := match cur s with Some r => r_fairy r | None => false end.
  Definition set_cur_conn (oc : option nat) (s : pst) : pst :=
    match cur s with Some r => set_cur s (Some (mkrec oc (r_fairy r))) | None => s end.
  Definition set_cur_fairy (b : bool) (s : pst) : pst :=
    match cur s with Some r => set_cur s (Some (mkrec (r_conn r) b)) | None => s end.
  Definition fo_conn (s : pst) : option nat := match fo s with Some f => f_conn f | None => None end.
  Definition fo_rec (s : pst) : bool := match fo s with Some f => f_rec f | None => false end.
  Definition set_fo_conn (oc : option nat) (s : pst) : pst :=
    match fo s with Some f => set_fo s (Some (mkfairy (f_rec f) oc)) | None => s end.
  Definition set_fo_rec (b : bool) (s : pst) : pst :=
    match fo s with Some f => set_fo s (Some (mkfairy b (f_conn f))) | None => s end.

  Definition warn : M := mmod (fun s => set_n_warn s (S (n_warn s))).

  (* ---------- connectors/asyncio.py + aiosqlite.py adapter ---------- *)
  (* AsyncAdapt_terminate.terminate *)
  Definition terminate (in_greenlet : bool) (c : nat) : M :=
    if in_greenlet then
      mtry (await_ (IoTermClose c))
           (fun e => match e with
                     | ECancelled | ETimeout =>            (* _terminate_handled_exceptions *)
                         (* the force close now races with the shielded graceful close that is still
                            running (aiosqlite: Connection.stop() twice): outside the model *)
                         mmod (fun s => set_oom s true) ;;
                         await_ (IoForceClose c) ;;
                         (if exn_eqb e ECancelled then mraise e else munit)
                     | _ => mraise e
                     end)
    else await_ (IoForceClose c).

  (* AsyncAdapt_aiosqlite_connection.rollback / commit: "if self._connection._connection:" *)
  Definition dbapi_rollback (c : nat) : M :=
    b <- await_ (IoProbe c) ;; match b with VBool true => await_ (IoRollback c) | _ => munit end.
  Definition dbapi_commit (c : nat) : M :=
    b <- await_ (IoProbe c) ;; match b with VBool true => await_ (IoCommit c) | _ => munit end.

  (* AsyncAdapt_dbapi_cursor.close: elif in_greenlet(): await_(self._cursor.close()) *)
  Definition cursor_close (in_greenlet : bool) (c : nat) : M :=
    if in_greenlet then await_ (IoCursorClose c) else munit.

  (* AsyncAdapt_dbapi_cursor.execute -> _execute_async *)
  Definition cursor_execute (c : nat) (st : stmt) : M :=
    await_ (IoExec c st) ;; (if returns_rows st then await_ (IoFetch c) else munit).

  (* ---------- pool ---------- *)
  (* Pool._close_connection *)
  Definition close_connection (ing : bool) (c : nat) (term : bool) : M :=
    (* ghost (ordering obligation): a connection is only ever closed while its record is NOT available
       to other checkouts - closing awaits the driver, another task may run and take the record *)
    mget (fun s => if existsb (Nat.eqb c) (qconns (q s)) then mmod (fun s => set_oom s true) else munit) ;;
    mtry (if term then terminate ing c else await_ (IoClose c))
         (fun e => if is_exception e then munit else mraise e).

  (* _ConnectionRecord.__close *)
  Definition rec_close_impl (ing term : bool) : M :=
    mget (fun s => match cur_conn s with
                   | Some c =>
                       (* /repo d50803e: try: _close_connection(...) finally: self.dbapi_connection = None *)
                       mfinally (close_connection ing c term) (mmod (set_cur_conn None))
                   | None => mraise EInternal
                   end).
  (* _ConnectionRecord.close *)
  Definition rec_close : M :=
    mget (fun s => match cur_conn s with Some _ => rec_close_impl true false | None => munit end).
  (* _ConnectionRecord.invalidate(e), soft=False *)
  Definition rec_invalidate (ing : bool) : M :=
    mget (fun s => match cur_conn s with
                   | None => munit
                   | Some _ => rec_close_impl ing true ;; mmod (set_cur_conn None)
                   end).

  Definition dec_overflow : M := mmod (fun s => set_ov s (ov s - 1)).
  (* QueuePool._do_return_conn on the current record *)
  Definition pool_return : M :=
    mmod (fun s => set_n_in s (S (n_in s))) ;;
    mget (fun s => match cur s with
                   | None => mraise EInternal
                   | Some r =>
                       if (0 <? psize cf) && (Z.of_nat (length (q s)) =? psize cf)       (* queue.Full *)
                       then mfinally rec_close dec_overflow
                       else mmod (fun s => set_q s (q s ++ [r]))
                   end).
  (* _ConnectionRecord.checkin *)
  Definition rec_checkin (fairy_was_created : bool) : M :=
    mget (fun s => if negb (cur_fairy s) && fairy_was_created then warn
                   else mmod (set_cur_fairy false) ;; pool_return).
  (* _ConnectionRecord._checkin_failed *)
  Definition rec_checkin_failed (fairy_was_created : bool) : M :=
    (* /repo d50803e: try: self.invalidate(e=err) finally: self.checkin(...) *)
    mfinally (rec_invalidate true) (rec_checkin fairy_was_created).

  (* _ConnectionRecord.__connect; dispatch.connect runs outside the try *)
  Definition rec_connect : M :=
    mmod (set_cur_conn None) ;;
    v <- await_ IoConnect ;;
    match v with
    | VConn c => mmod (set_cur_conn (Some c)) ;; await_ (IoSetup c) ;; await_ (IoSetup c) ;; await_ (IoSetup c) ;; munit
    | _ => mraise EInternal
    end.
  (* _ConnectionRecord.get_connection (no recycle; pool-wide invalidation is outside the model) *)
  Definition rec_get_connection : M :=
    mget (fun s => match cur_conn s with None => rec_connect | Some _ => munit end).

  (* QueuePool._do_get; the record becomes [cur] *)
  Definition pool_do_get : M :=
    mget (fun s =>
      let use_overflow := -1 <? maxov in
      let wait := use_overflow && (maxov <=? ov s) in
      match q s with
      | r :: rest => mmod (fun s => set_cur (set_q s rest) (Some r))
      | [] =>
          if use_overflow && (maxov <=? ov s) then
            (if negb wait then mraise EInternal else mraise ETimeout)
          else
            (* _inc_overflow succeeds on both branches here *)
            mmod (fun s => set_ov s (ov s + 1)) ;;
            mtry (mmod (fun s => set_cur s (Some (mkrec None false))) ;; rec_connect)
                 (fun e => dec_overflow ;; mraise e)
      end).

  (* _ConnectionRecord.checkout + _ConnectionFairy._checkout (no pre-ping, no checkout listeners) *)
  Definition checkout : M :=
    pool_do_get ;;
    mmod (fun s => set_n_out s (S (n_out s))) ;;        (* ghost: a record left the pool *)
    mtry rec_get_connection (fun e => rec_checkin_failed false ;; mraise e) ;;
    mmod (fun s => set_fo (set_cur_fairy true s) (Some (mkfairy true (cur_conn s)))).

  (* _ConnectionFairy._reset, reset_on_return = rollback *)
  Definition fairy_reset (twr asyncio_safe : bool) (c : nat) : M :=
    if negb asyncio_safe then munit
    else if twr then munit else dbapi_rollback c.

  (* _ConnectionFairy.detach *)
  Definition fairy_detach : M :=
    mget (fun s => if fo_rec s then
                     mmod (fun s => set_cur_conn None (set_cur_fairy false s)) ;; pool_return ;; mmod (set_fo_rec false)
                   else munit).

  (* the "except BaseException as e:" arm of _finalize_fairy *)
  Definition finalize_except (is_gc has_rec : bool) (e : exn) : M :=
    (if has_rec then rec_invalidate (negb is_gc) else munit) ;;
    (if is_exception e then munit
     else
       (* /repo 51edfd0: the invalidated record goes back to the pool before the BaseException
          propagates, so that its slot is not lost *)
       mget (fun s => if has_rec && cur_fairy s then rec_checkin true else munit) ;;
       (* /repo 356c0aa: the fairy no longer owns the record *)
       mmod (fun s => match fo s with Some _ => set_fo s (Some (mkfairy false None)) | None => s end) ;;
       mraise e).

  (* _finalize_fairy.  [is_gc]: called by the weakref callback (ref is not None, fairy is None,
     dbapi_connection is None, connection_record = cur); otherwise by fairy._checkin *)
  Definition finalize_fairy (is_gc twr : bool) : M :=
    mget (fun s0 =>
      if is_gc && negb (cur_fairy s0) then munit          (* connection_record.fairy_ref is not ref: return *)
      else
      let dbc := if is_gc then cur_conn s0 else fo_conn s0 in
      let has_rec := if is_gc then true else fo_rec s0 in
      let dont_restore_gced := dialect_is_async in
      let detach := if dont_restore_gced then negb has_rec || is_gc else negb has_rec in
      let can_manipulate := if dont_restore_gced then negb is_gc else true in
      let can_close_or_terminate :=
        if dont_restore_gced then negb dialect_is_async || dialect_has_terminate else true in
      let requires_terminate := if dont_restore_gced then dialect_is_async && dialect_has_terminate else false in
      (match dbc with
       | Some c =>
           mfinally
             (mtry
                ((if is_gc then mmod (fun s => set_fo s (Some (mkfairy true (Some c)))) else munit) ;;
                 fairy_reset twr can_manipulate c ;;
                 (if detach then
                    (if has_rec then fairy_detach else munit) ;;
                    (if can_close_or_terminate then close_connection (negb is_gc) c requires_terminate else munit)
                  else munit))
                (finalize_except is_gc has_rec))
             (if detach && is_gc && dont_restore_gced then warn else munit)
       | None => munit
       end) ;;
      mget (fun s => if has_rec && cur_fairy s then rec_checkin true else munit) ;;
      mmod (fun s => match fo s with Some _ => set_fo s (Some (mkfairy false None)) | None => s end)).

  (* _ConnectionFairy.invalidate(e), soft=False *)
  Definition fairy_invalidate : M :=
    mget (fun s => match fo_conn s with
                   | None => warn
                   | Some _ =>
                       (if fo_rec s then rec_invalidate true else munit) ;;
                       mmod (set_fo_conn None) ;;
                       finalize_fairy false false
                   end).

  (* ---------- engine/base.py: Connection ---------- *)
  Definition closed (s : pst) : bool := negb (c_fairy s) && negb (recon s).
  Definition invalidated (s : pst) : bool := negb (c_fairy s) && recon s.
  Definition still_open_and_valid (s : pst) : bool :=
    c_fairy s && match fo_conn s with Some _ => true | None => false end.
  Definition in_transaction (s : pst) : bool := match txn s with Some a => a | None => false end.

  (* Connection.invalidate *)
  Definition conn_invalidate : M :=
    mget (fun s =>
      if invalidated s then munit
      else if closed s then mraise EResourceClosed
      else (if still_open_and_valid s then fairy_invalidate else munit) ;; mmod (fun s => set_c_fairy s false)).

  (* Engine.raw_connection() assigned to Connection._dbapi_connection *)
  Definition raw_connection : M := checkout ;; mmod (fun s => set_c_fairy s true).

  (* Connection._revalidate_connection *)
  Definition revalidate : M :=
    mget (fun s =>
      if recon s && invalidated s then
        match txn s with Some _ => mraise EPendingRollback | None => raw_connection end
      else mraise EResourceClosed).

  (* Connection._safe_close_cursor *)
  Definition safe_close_cursor (c : nat) : M :=
    mtry (cursor_close true c) (fun e => if is_exception e then munit else mraise e).

  (* the DBAPI connection of the fairy held by the Connection (fairy.__getattr__ / fairy.cursor) *)
  Definition the_conn : M :=
    mget (fun s => match fo_conn s with Some c => mret (VConn c) | None => mraise EInternal end).

  (* Connection._rollback_impl / _commit_impl / _handle_dbapi_exception are mutually dependent through
     the autorollback of _handle_dbapi_exception; the autorollback only runs outside a transaction
     and its own failure handling is the reentrant branch, modelled by [handle0] (no autorollback) *)
  Definition handle_gen (autorollback : M) (e : exn) (cursor : option nat) : M :=
    mget (fun s0 =>
      let is_exit := is_exit_exception e in
      let is_disc := (is_dbapi_error e && negb (closed s0) && is_disconnect e) || (is_exit && negb (closed s0)) in
      let invalidate_pool := negb is_exit in
      mfinally
        ((if negb is_disc then
            (match cursor with Some c => safe_close_cursor c | None => munit end) ;;
            mget (fun s => if negb (in_transaction s) then autorollback else munit)
          else munit) ;;
         mraise e)
        (if is_disc then
           mget (fun s =>
             if negb (invalidated s) then
               (if c_fairy s then munit else mraise EInternal) ;;
               (if invalidate_pool then mmod (fun s => set_oom s true) else munit) ;;
               conn_invalidate
             else munit)
         else munit)).
  (* the reentrant call (self._reentrant_error): DBAPIError.instance(...) of the same error is raised
     at once, nothing else happens *)
  Definition handle0 (e : exn) (_ : option nat) : M := mraise e.
  (* Connection.connection *)
  Definition connection_prop (handle : exn -> option nat -> M) : M :=
    mget (fun s =>
      if c_fairy s then the_conn
      else mtry (revalidate ;; the_conn)
                (fun e => match e with
                          | EPendingRollback | EResourceClosed => mraise e
                          | _ => handle e None
                          end)).
  Definition rollback_impl_gen (handle : exn -> option nat -> M) : M :=
    mget (fun s =>
      if still_open_and_valid s then
        mtry (v <- connection_prop handle ;; match v with VConn c => dbapi_rollback c | _ => mraise EInternal end)
             (fun e => handle e None)
      else munit).
  Definition handle_dbapi_exception : exn -> option nat -> M := handle_gen (rollback_impl_gen handle0).
  Definition rollback_impl : M := rollback_impl_gen handle_dbapi_exception.
  Definition commit_impl : M :=
    mtry (v <- connection_prop handle_dbapi_exception ;; match v with VConn c => dbapi_commit c | _ => mraise EInternal end)
         (fun e => handle_dbapi_exception e None).

  (* Connection._execute_context + _exec_single_context for one statement.
     [autobegin] is what "if self._transaction is None: self._autobegin()" does *)
  Definition new_cursor : M :=
    (* try: conn = self._dbapi_connection or self._revalidate_connection(); context = constructor(...)
       except (PendingRollbackError, ResourceClosedError): raise
       except BaseException as e: self._handle_dbapi_exception(e, ..., None, None) *)
    mtry (mget (fun s => if c_fairy s then munit else revalidate) ;;
          v <- the_conn ;;
          match v with VConn c => await_ (IoCursor c) ;; mret (VConn c) | _ => mraise EInternal end)
         (fun e => match e with
                   | EPendingRollback | EResourceClosed => mraise e
                   | _ => handle_dbapi_exception e None
                   end).
  (* _exec_single_context: do_execute + _setup_result_proxy (-> _soft_close for statements without rows) *)
  Definition exec_single (c : nat) (st : stmt) : M :=
    mtry (r <- cursor_execute c st ;;
          (if returns_rows st then munit else cursor_close true c) ;;
          mret r)
         (fun e => handle_dbapi_exception e (Some c)).
  Definition execute_context (autobegin : M) (st : stmt) : M :=
    v <- new_cursor ;;
    match v with
    | VConn c =>
        mget (fun s => match txn s with Some false => mraise EPendingRollback | _ => munit end) ;;
        mget (fun s => match txn s with None => autobegin | Some _ => munit end) ;;
        exec_single c st
    | _ => mraise EInternal
    end.

  (* RootTransaction.__init__ -> Connection._begin_impl: the "begin" listener runs
     exec_driver_sql("BEGIN") with __in_begin set (no nested autobegin); do_begin is a no-op *)
  Definition root_transaction : M :=
    execute_context munit SBegin ;; mmod (fun s => set_txn s (Some true)).
  (* Connection.begin *)
  Definition conn_begin : M :=
    mget (fun s => match txn s with None => root_transaction | Some _ => mraise EInvalidRequest end).
  Definition conn_execute (st : stmt) : M := execute_context conn_begin st.

  (* RootTransaction._close_impl *)
  Definition txn_close_impl (try_deactivate : bool) : M :=
    mfinally
      (mget (fun s => if in_transaction s then rollback_impl else munit))
      (mmod (fun s => set_txn s None)).     (* deactivate + "if connection._transaction is self: = None" *)
  (* RootTransaction._do_commit *)
  Definition txn_commit : M :=
    mget (fun s =>
      if in_transaction s then
        mfinally commit_impl (mmod (fun s => set_txn s (Some false))) ;;
        mmod (fun s => set_txn s None)
      else mraise EPendingRollback).
  (* Connection.commit / rollback *)
  Definition conn_commit : M := mget (fun s => match txn s with Some _ => txn_commit | None => munit end).
  Definition conn_rollback : M := mget (fun s => match txn s with Some _ => txn_close_impl true | None => munit end).

  (* _ConnectionFairy.close / _close_special: _counter is 1 *)
  Definition fairy_close (twr : bool) : M := finalize_fairy false twr.

  (* Connection.close *)
  Definition conn_close : M :=
    mget (fun s =>
      (match txn s with Some _ => txn_close_impl false | None => munit end) ;;
      mget (fun s1 => if c_fairy s1 then
                        (* /repo 4102dab: skip_reset = self._transaction.is_active, read before the close *)
                        fairy_close (match txn s with Some a => a | None => false end) ;;
                        mmod (fun s => set_c_fairy s false)
                      else munit) ;;
      mmod (fun s => set_recon s false)).

  (* Engine.connect(): Connection.__init__ *)
  Definition engine_connect : M :=
    mmod (fun s => set_txn (set_recon (set_c_fairy s false) true) None) ;;
    raw_connection.

  (* garbage collection of the Connection object of a finished task: the fairy (if it still exists)
     dies and its weakref callback runs _finalize_fairy outside any greenlet *)
  Definition gc_collect : M :=
    mget (fun s =>
      (match fo s with
       | Some _ =>
           mmod (fun s => set_fo s None) ;;
           mtry (finalize_fairy true false) (fun _ => munit)      (* exceptions in weakref callbacks are swallowed *)
       | None => munit
       end) ;;
      mmod (fun s => set_fo (set_txn (set_recon (set_c_fairy s false) false) None) None)).

  (* ---------- the user program, through either API ---------- *)
  Inductive op := OpBegin | OpIns (v : Z) | OpSel | OpCommit | OpRollback.
  Inductive style := SCtx | SExplicit | SLeak.

  Definition no_await (r : res) : res :=
    match fst r with Ok _ => (Raise EAwaitRequired, snd r) | Raise _ => r end.

  Record api := mkapi {
    call : bool -> ptree -> ptree;                     (* await greenlet_spawn(fn, _require_await=...) / fn() *)
    shielded : ptree -> (bool -> res -> ptree) -> ptree (* await asyncio.shield(create_task(coro)) / coro *)
  }.
  Definition sync_api : api := mkapi (fun _ p => p) (fun p k => bind p (k false)).
  Definition async_api : api := mkapi (greenlet_spawn no_await) (fun p k => Shield p k).

  Section Prog.
    Variable a : api.
    Definition acall (require : bool) (m : M) : M := fun s => call a require (m s).

    Definition op_body (o : op) : M :=
      match o with
      | OpBegin => acall false conn_begin
      | OpIns v => acall true (conn_execute (SInsert v))
      | OpSel =>
          (* rows = (await conn.execute(select)).all(): ext/asyncio/result.py _ensure_sync_result awaits
             cursor._async_soft_close() directly in the coroutine (the sync Result closes the cursor
             when .all() has exhausted it: the same DBAPI call at the same place) *)
          v <- acall true (conn_execute SSelect) ;;
          mget (fun s => match fo_conn s with Some c => await_ (IoCursorClose c) | None => munit end) ;;
          mret v
      | OpCommit => acall false conn_commit
      | OpRollback => acall false conn_rollback
      end.
    Definition log (o : obs) : M := mmod (fun s => set_olog s (o :: olog s)).
    (* try: r = await op  except Exception as e: log(e) *)
    Fixpoint run_ops (ops : list op) : M :=
      match ops with
      | [] => munit
      | o :: rest =>
          mtry (v <- op_body o ;; log (match v with VRows l => ORows l | _ => OOk end))
               (fun e => if is_exception e then log (OErr e) else mraise e) ;;
          run_ops rest
      end.

    (* AsyncConnection.__aexit__: task = create_task(self.close()); await asyncio.shield(task) *)
    Definition aexit : M :=
      fun s => shielded a (acall false conn_close s)
                 (fun cancelled r => if cancelled then Ret (Raise ECancelled, snd r) else Ret r).

    Definition block (sty : style) (ops : list op) : M :=
      match sty with
      | SCtx =>            (* async with engine.connect() as conn: ops *)
          acall false engine_connect ;; mfinally (run_ops ops) aexit
      | SExplicit =>       (* conn = await engine.connect(); try: ops finally: await conn.close() *)
          acall false engine_connect ;; mfinally (run_ops ops) (acall false conn_close)
      | SLeak =>           (* conn = await engine.connect(); ops   -- never closed *)
          acall false engine_connect ;; run_ops ops
      end.
  End Prog.
End Model.

(* a freshly created engine: empty pool, no connection yet *)
Definition init_pst (cf : cfg) : pst :=
  mkpst [] (0 - psize cf) None None false false None 0 0 0 false [].
Definition init_world : world := mkw (fun _ => dead) 0 [] [].
