(* C27 - proofs about the disconnect state machine, part 1: what each building block does. *)
From Coq Require Import List Arith Bool Lia.
Import ListNotations.
From SAV.engine Require Import Disconnect.

Definition blocked (s : st) : Prop := s_cur s = None /\ s_txn s <> TNone.

(* invalidate_pool_on_disconnect after the listeners ran (it does not depend on the error) *)
Definition pool_inv (lst : list lbeh) : bool := snd (fst (run_chain lst false true false)).

(* the state after _handle_dbapi_exception invalidated the live connection [cid] *)
Definition inval_state (lst : list lbeh) (s : st) (cid : nat) : st :=
  let ip := pool_inv lst in
  let clk := if ip then S (s_clock s) else s_clock s in
  mk (s_n s) ((K_CLOSE, cid) :: s_log s) (s_nconn s) clk (s_idle s ++ [None])
     (if ip then clk else s_invt s) None (s_txn s) (s_nested s).

Definition called (k cid : nat) (s : st) : st :=
  mk (S (s_n s)) ((k, cid) :: s_log s) (s_nconn s) (s_clock s) (s_idle s) (s_invt s) (s_cur s)
     (s_txn s) (s_nested s).

(* the result is a (possibly replaced) DBAPI error *)
Definition err_like (c : code) : Prop :=
  match c with RErr => True | RDisc => True | RCustom _ => True | _ => False end.

Lemma run_chain_ip_indep : forall l d d' ip e,
  snd (fst (run_chain l d ip e)) = snd (fst (run_chain l d' ip e)) /\
  snd (run_chain l d ip e) = snd (run_chain l d' ip e).
Proof.
  induction l as [|b l IH]; intros d d' ip e; [cbn; auto|].
  cbn [run_chain]. destruct (lb_out b) as [|[|[|n]]]; cbn; auto; apply IH.
Qed.

Lemma is_disc_err_code : forall d e, is_disc (err_code d e) = d.
Proof. intros [] []; reflexivity. Qed.
Lemma err_like_err_code : forall d e, err_like (err_code d e).
Proof. intros [] []; exact I. Qed.

Section P.
  Variable faults : nat -> fault.
  Variable lst : list lbeh.

  Lemma handle_spec : forall f s s' c, handle lst f s = (s', c) ->
    err_like c /\
    ((is_disc c = false /\ s' = s) \/
     (is_disc c = true /\ s_cur s = None /\ s' = s) \/
     (is_disc c = true /\ exists cid st0, s_cur s = Some (cid, st0) /\ s' = inval_state lst s cid)).
  Proof.
    intros f s s' c H. unfold handle in H. destruct (classify lst f) as [[d ip] exn] eqn:Ec.
    assert (Eip : ip = pool_inv lst).
    { unfold pool_inv. unfold classify in Ec.
      destruct (run_chain_ip_indep lst (match f with FDisc => true | _ => false end) false true false) as [X _].
      rewrite Ec in X. exact X. }
    destruct d.
    - destruct (s_cur s) as [[cid st0]|] eqn:E; injection H as <- <-; (split; [apply err_like_err_code|]);
        rewrite is_disc_err_code.
      + right. right. split; [reflexivity|]. exists cid, st0. split; [reflexivity|].
        unfold inval_state. rewrite Eip. reflexivity.
      + right. left. auto.
    - injection H as <- <-. split; [apply err_like_err_code|]. rewrite is_disc_err_code. left. auto.
  Qed.

  Lemma coh_spec : forall k cid st0 s s' c, s_cur s = Some (cid, st0) ->
    call_or_handle faults lst k cid s = (s', c) ->
    (c = ROk /\ s' = called k cid s /\ faults (S (s_n s)) = FOk) \/
    (err_like c /\ is_disc c = false /\ s' = called k cid s /\ faults (S (s_n s)) <> FOk) \/
    (err_like c /\ is_disc c = true /\ s' = inval_state lst (called k cid s) cid /\ faults (S (s_n s)) <> FOk).
  Proof.
    intros k cid st0 s s' c Hcur H. unfold call_or_handle, dbcall in H. fold (called k cid s) in H.
    assert (Hc : s_cur (called k cid s) = Some (cid, st0)) by exact Hcur.
    assert (G : forall f, f <> FOk -> handle lst f (called k cid s) = (s', c) ->
              (err_like c /\ is_disc c = false /\ s' = called k cid s /\ f <> FOk) \/
              (err_like c /\ is_disc c = true /\ s' = inval_state lst (called k cid s) cid /\ f <> FOk)).
    { intros f Hf Hh. destruct (handle_spec _ _ _ _ Hh) as (El & [[Ed ->]|[(Ed & E & ->)|(Ed & cid' & st' & E & ->)]]).
      - left. auto.
      - congruence.
      - rewrite Hc in E. injection E as <- <-. right. auto. }
    destruct (faults (S (s_n s))) eqn:Ef.
    - injection H as <- <-. left. auto.
    - right. apply (G FErr); [discriminate|exact H].
    - right. apply (G FDisc); [discriminate|exact H].
  Qed.

  (* connect *)
  Lemma connect_spec : forall s s' r, connect faults s = (s', r) ->
    (faults (S (s_n s)) = FOk /\ r = (Some (s_nconn s, S (s_clock s)), FOk) /\
     s' = mk (S (s_n s)) ((K_CONNECT, s_nconn s) :: s_log s) (S (s_nconn s)) (S (s_clock s)) (s_idle s)
             (s_invt s) (s_cur s) (s_txn s) (s_nested s)) \/
    (faults (S (s_n s)) <> FOk /\ r = (None, faults (S (s_n s))) /\ s' = called K_CONNECT (s_nconn s) s).
  Proof.
    intros s s' r H. unfold connect, dbcall in H.
    destruct (faults (S (s_n s))) eqn:Ef; injection H as <- <-; cbn.
    - left. auto.
    - right. repeat split; auto; discriminate.
    - right. repeat split; auto; discriminate.
  Qed.

  (* checkout: frame, outcome *)
  Lemma checkout_frame : forall s s' f, s_cur s = None -> checkout faults s = (s', f) ->
    s_txn s' = s_txn s /\ s_nested s' = s_nested s /\ s_invt s' = s_invt s /\
    (f = FOk -> exists c, s_cur s' = Some c) /\ (f <> FOk -> s_cur s' = None) /\
    (faults (S (s_n s)) = FOk -> f = FOk) /\
    (s_n s' = s_n s \/ s_n s' = S (s_n s)).
  Proof.
    intros s s' f Hcur H. unfold checkout in H.
    assert (R : forall s0 rest, s_n s0 = s_n s -> s_txn s0 = s_txn s -> s_nested s0 = s_nested s ->
              s_invt s0 = s_invt s ->
              (let (s1, r) := connect faults s0 in
               match fst r with
               | Some c => (set_cur s1 rest (Some c), FOk)
               | None => (set_cur s1 (rest ++ [None]) None, snd r)
               end) = (s', f) ->
              s_txn s' = s_txn s /\ s_nested s' = s_nested s /\ s_invt s' = s_invt s /\
              (f = FOk -> exists c, s_cur s' = Some c) /\ (f <> FOk -> s_cur s' = None) /\
              (faults (S (s_n s)) = FOk -> f = FOk) /\
              (s_n s' = s_n s \/ s_n s' = S (s_n s))).
    { intros s0 rest En Et Ens Ei H0. destruct (connect faults s0) as [s1 r] eqn:Ec.
      destruct (connect_spec _ _ _ Ec) as [(Ef & -> & ->)|(Ef & -> & ->)]; cbn in H0; injection H0 as <- <-; cbn;
        rewrite ?En in *; repeat split; auto; try congruence; eauto. }
    destruct (s_idle s) as [|r0 rest] eqn:Ei.
    - destruct (connect faults s) as [s1 r] eqn:Ec.
      destruct (connect_spec _ _ _ Ec) as [(Ef & -> & ->)|(Ef & -> & ->)]; cbn in H; injection H as <- <-; cbn;
        repeat split; auto; try congruence; eauto.
    - destruct r0 as [[cid start]|].
      + destruct (Nat.ltb start (s_invt s)).
        * apply (R (add_log s K_CLOSE cid) rest); auto.
        * injection H as <- <-. cbn. repeat split; auto; try congruence; eauto.
      + apply (R s rest); auto.
  Qed.

  Lemma ensure_live : forall s, s_cur s <> None -> ensure faults lst s = (s, None).
  Proof. intros s H. unfold ensure. destruct (s_cur s); [reflexivity|congruence]. Qed.

  Lemma ensure_blocked : forall s, blocked s -> ensure faults lst s = (s, Some RPending).
  Proof. intros s [H1 H2]. unfold ensure. rewrite H1. destruct (s_txn s); [congruence|reflexivity|reflexivity]. Qed.

  Lemma ensure_frame : forall s s' e, ensure faults lst s = (s', e) ->
    s_txn s' = s_txn s /\ s_nested s' = s_nested s /\
    (e = None -> exists c, s_cur s' = Some c) /\
    (forall c, e = Some c -> s_cur s' = None /\ s_cur s = None /\ (err_like c \/ c = RPending)) /\
    (s_invt s' = s_invt s).
  Proof.
    intros s s' e H. unfold ensure in H.
    destruct (s_cur s) as [c0|] eqn:Ecur.
    - injection H as <- <-. repeat split; auto; try discriminate. eauto.
    - destruct (s_txn s) eqn:Et.
      + destruct (checkout faults s) as [s1 f] eqn:Eco.
        destruct (checkout_frame _ _ _ Ecur Eco) as (A & B & C & D & E & _).
        assert (Hfail : f <> FOk -> forall s2 c, handle lst f s1 = (s2, c) ->
                  s_txn s2 = s_txn s /\ s_nested s2 = s_nested s /\
                  (Some c = None -> exists c, s_cur s2 = Some c) /\
                  (forall c', Some c = Some c' -> s_cur s2 = None /\ @None (nat*nat) = None /\ (err_like c' \/ c' = RPending)) /\
                  s_invt s2 = s_invt s).
        { intros Hf s2 c Eh. specialize (E Hf).
          assert (Hs2 : s2 = s1 /\ err_like c).
          { destruct (handle_spec _ _ _ _ Eh) as (El & [[_ ->]|[(_ & _ & ->)|(_ & cid' & st' & E' & _)]]); auto. congruence. }
          destruct Hs2 as [-> Hc].
          refine (conj _ (conj _ (conj _ (conj _ _)))); auto; try discriminate.
          intros c' Hc'. injection Hc' as <-. auto. }
        destruct f.
        * injection H as <- <-. repeat split; auto; try discriminate; congruence.
        * destruct (handle lst FErr s1) as [s2 c] eqn:Eh. injection H as <- <-.
          rewrite <- Et. apply Hfail; auto. discriminate.
        * destruct (handle lst FDisc s1) as [s2 c] eqn:Eh. injection H as <- <-.
          rewrite <- Et. apply Hfail; auto. discriminate.
      + injection H as <- <-. refine (conj _ (conj _ (conj _ (conj _ _)))); auto; try discriminate. intros c Hc. injection Hc as <-. auto.
      + injection H as <- <-. refine (conj _ (conj _ (conj _ (conj _ _)))); auto; try discriminate. intros c Hc. injection Hc as <-. auto.
  Qed.
End P.

(* ---- the handle_error listener chain ---- *)
(* the listeners that actually run: up to and including the first one that raises *)
Fixpoint executed (l : list lbeh) : list lbeh :=
  match l with
  | [] => []
  | b :: r => if Nat.eqb (lb_out b) 2 then [b] else b :: executed r
  end.
Definition last_set (get : lbeh -> option bool) (l : list lbeh) (x : bool) : bool :=
  fold_left (fun acc b => assign (get b) acc) l x.
Definition yields_exn (b : lbeh) : bool := Nat.eqb (lb_out b) 1 || Nat.eqb (lb_out b) 2.

(* the classification the handler ends with is the last value a listener that ran assigned (the dialect's
   verdict if none did) - no matter whether the chain ended normally, with returned exceptions, or with a raise *)
Theorem chain_final : forall l d ip e,
  run_chain l d ip e =
  (last_set lb_d (executed l) d, last_set lb_p (executed l) ip, e || existsb yields_exn (executed l)).
Proof.
  induction l as [|b l IH]; intros d ip e; cbn [run_chain executed].
  - cbn. rewrite orb_false_r. reflexivity.
  - unfold yields_exn. destruct (lb_out b) as [|[|[|n]]] eqn:Eo; cbn [Nat.eqb]; cbn [last_set fold_left existsb];
      rewrite ?Eo; cbn [Nat.eqb orb]; rewrite ?IH; unfold last_set, yields_exn; rewrite ?orb_true_r, ?orb_false_r;
      try reflexivity.
Qed.

(* Connection._is_disconnect is cleared by every run of the handler, whatever it was before, whatever the
   dialect and the listeners say, whether or not the Connection was already invalidated: the attribute is False
   at the start of every later run (so an earlier disconnect never taints the classification of a later error) *)
Theorem flag_after_false : forall lst flag d0 inv, flag_after lst flag d0 inv = false.
Proof. intros. unfold flag_after. destruct (fst (fst (run_chain lst (if flag then true else d0) true false))); reflexivity. Qed.
