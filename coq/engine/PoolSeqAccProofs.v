(* C26 - QueuePool accounting: inc/dec of the overflow counter balance on every path *)
From Coq Require Import List ZArith Bool Arith Lia.
Import ListNotations.
From SAV.engine Require Import PoolSeq PoolSeqFrame PoolSeqLeakProofs.
Open Scope Z_scope.

Lemma count_upto_ext : forall p p' n, (forall k, (k < n)%nat -> p k = p' k) -> count_upto p n = count_upto p' n.
Proof. induction n; intros H; cbn; auto. rewrite (H n) by lia. rewrite IHn; auto. Qed.

Lemma count_upto_upd : forall (m : nat -> option nat) n r v, (r < n)%nat ->
  Z.of_nat (count_upto (fun k => match upd m r v k with Some _ => true | None => false end) n) =
  Z.of_nat (count_upto (fun k => match m k with Some _ => true | None => false end) n)
  - (match m r with Some _ => 1 | None => 0 end) + (match v with Some _ => 1 | None => 0 end).
Proof.
  induction n; intros r v H; [lia|]. cbn [count_upto].
  destruct (Nat.eq_dec r n).
  - subst. rewrite upd_same.
    rewrite (count_upto_ext _ (fun k => match m k with Some _ => true | None => false end) n).
    2:{ intros k Hk. rewrite upd_other by lia. reflexivity. }
    destruct (m n), v; lia.
  - rewrite upd_other by lia. rewrite !Nat2Z.inj_add. rewrite IHn by lia. lia.
Qed.

(* combined taint: a BaseException escaped close(), or escaped the reset of an explicitly returned fairy *)
Lemma tc_taint : forall s, taint_close s = true -> taint s = true.
Proof. unfold taint; intros s H; rewrite H; reflexivity. Qed.
Lemma RecLevel_taint : forall s s', RecLevel s s' -> taint s = true -> taint s' = true.
Proof.
  unfold taint; intros s s' [] H. rewrite rl_tg. apply orb_true_iff in H as [H|H]; [rewrite rl_tc; auto|rewrite H; apply orb_true_r].
Qed.
Lemma Mono_taint_true : forall s s', Mono s s' -> taint s = true -> taint s' = true.
Proof.
  unfold taint; intros s s' [] H. apply orb_true_iff in H as [H|H]; [rewrite m_tc; auto|rewrite m_tg; auto; apply orb_true_r].
Qed.
Lemma Mono_taint_false : forall s s', Mono s s' -> taint s' = false -> taint s = false.
Proof. intros s s' M H. destruct (taint s) eqn:E; auto. rewrite (Mono_taint_true _ _ M E) in H. discriminate. Qed.

Section Acc.
Variable cf : cfg.
Hypothesis KQ : kind cf = KQueue.
Hypothesis PS : 0 <= psize cf.
Hypothesis MO : -1 <= maxov cf.    (* max_overflow = -1 means unlimited; smaller values are meaningless *)

Definition flz (fl : option nat) : Z := match fl with Some _ => 1 | None => 0 end.
Definition AccK (k : Z) (s : st) : Prop :=
  psize cf + overflow s = Z.of_nat (length (q s)) + Z.of_nat (inuse_count s) + k.
Definition QOk (fl : option nat) (s : st) : Prop :=
  (forall r, In r (q s) -> (r < nrecs s)%nat /\ r_fairy s r = None) /\
  NoDup (q s) /\
  (forall r, fl = Some r -> (r < nrecs s)%nat /\ r_fairy s r = None /\ ~ In r (q s)) /\
  (0 < psize cf -> Z.of_nat (length (q s)) <= psize cf) /\
  (forall r, (nrecs s <= r)%nat -> r_fairy s r = None).
Definition OvB (s : st) : Prop := 0 <= maxov cf -> overflow s <= maxov cf.
(* the accounting invariant with at most one "floating" record (taken from the pool, no fairy yet /
   any more); void once a BaseException has escaped close() or the reset of an explicitly returned fairy *)
Definition A (fl : option nat) (s : st) : Prop :=
  taint s = true \/ (AccK (flz fl) s /\ QOk fl s /\ OvB s).

Lemma AccK_set_overflow : forall k d s, AccK k s -> AccK (k + d) (set_overflow s (overflow s + d)).
Proof.
  unfold AccK; intros k d s H.
  change (inuse_count (set_overflow s (overflow s + d))) with (inuse_count s).
  change (q (set_overflow s (overflow s + d))) with (q s).
  change (overflow (set_overflow s (overflow s + d))) with (overflow s + d). lia.
Qed.

Lemma AccK_push : forall k r s, AccK (k + 1) s -> AccK k (set_q s (q s ++ [r])).
Proof.
  unfold AccK; intros k r s H.
  change (inuse_count (set_q s (q s ++ [r]))) with (inuse_count s).
  change (q (set_q s (q s ++ [r]))) with (q s ++ [r]).
  change (overflow (set_q s (q s ++ [r]))) with (overflow s).
  rewrite app_length. cbn [length]. lia.
Qed.

Lemma NoDup_snoc : forall (l : list nat) r, NoDup l -> ~ In r l -> NoDup (l ++ [r]).
Proof.
  induction l; intros r H Hn; cbn; [constructor; auto; constructor|].
  inv H. constructor.
  - intro Hi. apply in_app_iff in Hi as [Hi|[Hi|[]]]; [auto|subst; apply Hn; left; auto].
  - apply IHl; auto. intro; apply Hn; right; auto.
Qed.

Lemma inuse_rl : forall s s', nrecs s' = nrecs s -> r_fairy s' = r_fairy s -> inuse_count s' = inuse_count s.
Proof. intros. unfold inuse_count, in_use. rewrite H, H0. reflexivity. Qed.

Lemma A_rl : forall fl s s', RecLevel s s' -> A fl s -> A fl s'.
Proof.
  intros fl s s' R [T|(HA & HQ & HO)]; [left; eapply RecLevel_taint; eauto|right].
  pose proof R as []. unfold AccK, QOk, OvB in *. rewrite (inuse_rl _ _ rl_nrecs rl_fairy).
  rewrite rl_pl_q, rl_pl_ov, rl_nrecs, rl_fairy. auto.
Qed.

(* a new record is floating *)
Lemma new_record_A : forall k s x s', new_record cf s = (x, s') ->
  AccK k s -> QOk None s ->
  AccK k s' /\ overflow s' = overflow s /\ (taint s = true -> taint s' = true) /\
  match x with Ok r => QOk (Some r) s' | Raise _ => QOk None s' end.
Proof.
  unfold new_record; intros k s x s' H HA (Q1 & Q2 & Q3 & Q4 & Q5).
  match type of H with context [rec_connect cf ?r ?s0] => destruct (rec_connect cf r s0) as [y s7] eqn:E; set (s6 := s0) in * end.
  pose proof (rec_connect_rl _ _ _ _ _ E) as R. pose proof R as [].
  assert (N6 : nrecs s6 = S (nrecs s)) by reflexivity.
  assert (F6 : r_fairy s6 = upd (r_fairy s) (nrecs s) None) by reflexivity.
  assert (I6 : inuse_count s6 = inuse_count s).
  { unfold inuse_count, in_use. rewrite N6, F6. cbn [count_upto]. rewrite upd_same.
    apply count_upto_ext. intros j Hj. rewrite upd_other by lia. reflexivity. }
  assert (HA' : AccK k s7).
  { unfold AccK in *. rewrite (inuse_rl _ _ rl_nrecs rl_fairy), rl_pl_q, rl_pl_ov, I6. exact HA. }
  assert (QN : QOk None s7 /\ QOk (Some (nrecs s)) s7).
  { unfold QOk. rewrite rl_pl_q, rl_nrecs, rl_fairy, N6, F6. change (q s6) with (q s).
    assert (X1 : forall r, In r (q s) -> (r < S (nrecs s))%nat /\ upd (r_fairy s) (nrecs s) None r = None).
    { intros r Hr. destruct (Q1 r Hr). split; [lia|]. rewrite upd_other by lia. auto. }
    assert (X5 : forall r, (S (nrecs s) <= r)%nat -> upd (r_fairy s) (nrecs s) None r = None).
    { intros r Hr. rewrite upd_other by lia. apply Q5. lia. }
    split; (split; [exact X1|split; [exact Q2|split; [|split; [exact Q4|exact X5]]]]).
    - intros r Hr. discriminate.
    - intros r Hr. inv Hr. split; [lia|]. split; [apply upd_same|].
      intro Hi. destruct (Q1 _ Hi). lia. }
  split; [destruct y; inv H; exact HA'|]. split; [destruct y; inv H; rewrite rl_pl_ov; reflexivity|].
  split; [intros Tt; assert (s' = s7) by (destruct y; inv H; auto); subst s'; apply (RecLevel_taint s6 s7 R); exact Tt|].
  destruct y; inv H; tauto.
Qed.

Lemma last_opt_spec : forall A (l : list A) x r, last_opt l = Some (x, r) -> l = r ++ [x].
Proof.
  unfold last_opt; intros A l x r H. destruct (rev l) as [|y t] eqn:E; inv H.
  rewrite <- (rev_involutive l), E. cbn. reflexivity.
Qed.

Lemma q_get_A : forall s r s', q_get cf s = Some (r, s') -> A None s -> A (Some r) s'.
Proof.
  unfold q_get; intros s r s' H [T|(HA & (Q1 & Q2 & Q3 & Q4 & Q5) & HO)].
  { left. repeat dm H; inv H; exact T. }
  right.
  assert (X : exists l1 l2, q s = l1 ++ r :: l2 /\ q s' = l1 ++ l2 /\ rc s' = rc s /\ overflow s' = overflow s).
  { destruct (lifo cf).
    - destruct (last_opt (q s)) as [[x t]|] eqn:E; inv H. apply last_opt_spec in E.
      exists t, []. rewrite app_nil_r. auto.
    - destruct (q s) as [|x t] eqn:E; inv H. exists [], t. auto. }
  destruct X as (l1 & l2 & E1 & E2 & E3 & E4).
  assert (N : nrecs s' = nrecs s) by (unfold nrecs; rewrite E3; reflexivity).
  assert (Fy : r_fairy s' = r_fairy s) by (unfold r_fairy; rewrite E3; reflexivity).
  rewrite E1 in Q2. apply NoDup_remove in Q2 as [Q2 Q2'].
  split; [|split].
  - unfold AccK in *. rewrite (inuse_rl _ _ N Fy), E2, E4. rewrite E1 in HA.
    rewrite app_length in HA. rewrite app_length. cbn [length] in HA. cbn [flz] in *. lia.
  - unfold QOk. rewrite E2, N, Fy.
    assert (Hin : forall x, In x (l1 ++ l2) -> In x (q s)).
    { intros x Hx. rewrite E1. apply in_app_iff in Hx. apply in_app_iff. cbn. tauto. }
    split; [intros x Hx; apply Q1; auto|]. split; [exact Q2|]. split; [|split; [|exact Q5]].
    + intros x Hx. inv Hx. destruct (Q1 x) as [Qa Qb]; [rewrite E1; apply in_app_iff; cbn; auto|]. auto.
    + intros Hp. specialize (Q4 Hp). rewrite E1 in Q4. rewrite app_length in Q4. rewrite app_length. cbn [length] in Q4. lia.
  - unfold OvB in *. rewrite E4. exact HO.
Qed.

Lemma q_get_none : forall s, q_get cf s = None -> q s = [].
Proof.
  unfold q_get; intros. destruct (lifo cf).
  - unfold last_opt in H. destruct (rev (q s)) eqn:E; [|discriminate].
    rewrite <- (rev_involutive (q s)), E. reflexivity.
  - destruct (q s); [auto|discriminate].
Qed.

Lemma do_get_queue_A : forall fuel s x s', do_get_queue cf fuel s = (x, s') -> A None s ->
  match x with Ok r => A (Some r) s' | Raise _ => A None s' end.
Proof.
  induction fuel; intros s x s' H HA; cbn [do_get_queue] in H; [inv H; auto|].
  destruct (q_get cf s) as [[r s1]|] eqn:Eq.
  - inv H. eapply q_get_A; eauto.
  - destruct ((-1 <? maxov cf) && (maxov cf <=? overflow s)) eqn:Ew.
    + cbn [negb] in H. inv H. auto.
    + unfold inc_overflow in H.
      destruct HA as [T|(HA & HQ & HO)].
      { (* already tainted *)
        assert (G : forall y (s2 : st), taint s2 = true -> match y : res nat with Ok r => A (Some r) s2 | Raise _ => A None s2 end)
          by (intros [|] s2 T2; left; auto).
        pose proof (do_get_queue_mono cf (S fuel) s x s') as M. cbn [do_get_queue] in M.
        rewrite Eq, Ew in M. unfold inc_overflow in M. specialize (M H). apply G. eapply Mono_taint_true; eauto. }
      assert (Inc : forall s1, s1 = set_overflow s (overflow s + 1) -> overflow s + 1 <= maxov cf \/ maxov cf = -1 ->
                match new_record cf s1 with
                | (Ok r, s2) => (Ok r, s2)
                | (Raise e, s2) => (Raise e, dec_overflow s2)
                end = (x, s') -> match x with Ok r => A (Some r) s' | Raise _ => A None s' end).
      { intros s1 Es1 Hb Hn. destruct (new_record cf s1) as [y s2] eqn:En.
        assert (HA1 : AccK 1 s1) by (subst s1; apply (AccK_set_overflow 0 1); exact HA).
        assert (HQ1 : QOk None s1) by (subst s1; exact HQ).
        destruct (new_record_A _ _ _ _ En HA1 HQ1) as (B1 & B2 & B3 & B4).
        assert (O1 : overflow s1 = overflow s + 1) by (subst s1; reflexivity).
        destruct y; inv Hn; right.
        - split; [exact B1|]. split; [exact B4|]. unfold OvB. rewrite B2, O1. intros. lia.
        - split; [|split].
          + unfold dec_overflow. apply (AccK_set_overflow 1 (-1)). exact B1.
          + exact B4.
          + unfold OvB, dec_overflow in *.
            change (overflow (set_overflow s2 (overflow s2 - 1))) with (overflow s2 - 1).
            rewrite B2, O1. intros Hm. specialize (HO Hm). lia. }
      destruct (maxov cf =? -1) eqn:Em.
      * apply (Inc _ eq_refl); auto. right. lia.
      * destruct (overflow s <? maxov cf) eqn:El.
        -- apply (Inc _ eq_refl); auto. left. sproj. lia.
        -- (* unreachable: not at the limit, yet the increment is refused *)
           exfalso. apply andb_false_iff in Ew. lia.
Qed.

Lemma do_get_A : forall s x s', do_get cf s = (x, s') -> A None s ->
  match x with Ok r => A (Some r) s' | Raise _ => A None s' end.
Proof. unfold do_get; rewrite KQ. intros. eapply do_get_queue_A; eauto. Qed.

Lemma do_return_conn_A : forall r s x s', do_return_conn cf r s = (x, s') -> A (Some r) s -> A None s'.
Proof.
  unfold do_return_conn; rewrite KQ. intros r s x s' H HA.
  destruct (q_full cf s) eqn:Ef.
  - destruct (rec_close_if_open r s) as [y s1] eqn:E1. apply rec_close_if_open_rl in E1.
    inv H. apply (A_rl _ _ _ E1) in HA. destruct HA as [T|(HA & (Q1 & Q2 & Q3 & Q4 & Q5) & HO)]; [left; exact T|right].
    split; [|split].
    + unfold dec_overflow. apply (AccK_set_overflow 1 (-1)). exact HA.
    + split; [exact Q1|]. split; [exact Q2|]. split; [intros; discriminate|]. split; [exact Q4|exact Q5].
    + unfold OvB, dec_overflow in *. change (overflow (set_overflow s1 (overflow s1 - 1))) with (overflow s1 - 1). intros Hm. specialize (HO Hm). lia.
  - inv H. destruct HA as [T|(HA & (Q1 & Q2 & Q3 & Q4 & Q5) & HO)]; [left; exact T|right].
    destruct (Q3 r eq_refl) as (R1 & R2 & R3).
    split; [|split].
    + apply AccK_push. exact HA.
    + unfold QOk.
      change (q (set_q s (q s ++ [r]))) with (q s ++ [r]).
      change (nrecs (set_q s (q s ++ [r]))) with (nrecs s).
      change (r_fairy (set_q s (q s ++ [r]))) with (r_fairy s).
      split; [|split; [|split; [|split]]].
      * intros x Hx. apply in_app_iff in Hx as [Hx|[Hx|[]]]; [apply Q1; auto|subst; auto].
      * apply NoDup_snoc; auto.
      * intros; discriminate.
      * intros Hp. specialize (Q4 Hp). unfold q_full in Ef. rewrite app_length. cbn [length].
        apply andb_false_iff in Ef as [Ef|Ef]; lia.
      * exact Q5.
    + exact HO.
Qed.

Lemma A_frame : forall fl s s', q s' = q s -> overflow s' = overflow s -> nrecs s' = nrecs s ->
  r_fairy s' = r_fairy s -> (taint s = true -> taint s' = true) -> A fl s -> A fl s'.
Proof.
  intros fl s s' E1 E2 E3 E4 E5 [T|(HA & HQ & HO)]; [left; auto|right].
  unfold AccK, QOk, OvB in *. rewrite (inuse_rl _ _ E3 E4), E1, E2, E3, E4. auto.
Qed.
Ltac a_leaf := eapply A_frame; [reflexivity|reflexivity|reflexivity|reflexivity|auto|].

Lemma A_clear : forall r s, A None s -> r_fairy s r <> None ->
  A (Some r) (set_r_fairy s (upd (r_fairy s) r None)).
Proof.
  intros r s [T|(HA & (Q1 & Q2 & Q3 & Q4 & Q5) & HO)] Hr; [left; exact T|right].
  assert (Rn : (r < nrecs s)%nat).
  { destruct (lt_dec r (nrecs s)); auto. rewrite Q5 in Hr by lia. congruence. }
  split; [|split].
  - unfold AccK in *. cbn [flz] in *.
    change (q (set_r_fairy s (upd (r_fairy s) r None))) with (q s).
    change (overflow (set_r_fairy s (upd (r_fairy s) r None))) with (overflow s).
    unfold inuse_count, in_use in *.
    change (nrecs (set_r_fairy s (upd (r_fairy s) r None))) with (nrecs s).
    change (r_fairy (set_r_fairy s (upd (r_fairy s) r None))) with (upd (r_fairy s) r None).
    rewrite (count_upto_upd (r_fairy s) (nrecs s) r None Rn).
    destruct (r_fairy s r); [lia|congruence].
  - unfold QOk.
    change (q (set_r_fairy s (upd (r_fairy s) r None))) with (q s).
    change (nrecs (set_r_fairy s (upd (r_fairy s) r None))) with (nrecs s).
    change (r_fairy (set_r_fairy s (upd (r_fairy s) r None))) with (upd (r_fairy s) r None).
    split; [|split; [exact Q2|split; [|split; [exact Q4|]]]].
    + intros x Hx. destruct (Q1 x Hx). split; auto. unfold upd. destruct (Nat.eqb x r); auto.
    + intros x Hx. inv Hx. split; [auto|]. split; [apply upd_same|].
      intro Hi. destruct (Q1 _ Hi). congruence.
    + intros x Hx. unfold upd. destruct (Nat.eqb x r); auto.
  - exact HO.
Qed.

Lemma rec_checkin_A : forall r fwc s x s', rec_checkin cf r fwc s = (x, s') ->
  (fwc = true -> A None s) -> (fwc = false -> A (Some r) s) -> A None s'.
Proof.
  unfold rec_checkin; intros r fwc s x s' H H1 H2.
  destruct (r_fairy s r) as [g|] eqn:Ef.
  - eapply do_return_conn_A; [exact H|]. destruct fwc.
    + apply A_clear; auto. congruence.
    + destruct (H2 eq_refl) as [T|(HA & (Q1 & Q2 & Q3 & Q4 & Q5) & HO)]; [left; exact T|].
      destruct (Q3 r eq_refl) as (_ & R2 & _). congruence.
  - destruct fwc; [inv H; auto|]. eapply do_return_conn_A; eauto.
Qed.

Lemma checkin_failed_A : forall r fwc s x s', checkin_failed cf r fwc s = (x, s') ->
  (fwc = true -> A None s) -> (fwc = false -> A (Some r) s) -> A None s'.
Proof.
  unfold checkin_failed; intros r fwc s x s' H H1 H2.
  destruct (rec_invalidate cf r false s) as [[|e] s1] eqn:E1; pose proof (rec_invalidate_rl _ _ _ _ _ _ E1) as R.
  - eapply rec_checkin_A; [exact H| |]; intros Hf; eapply A_rl; eauto.
  - (* a BaseException escaped close(): the check-in still happens (try/finally); tainted *)
    destruct (rec_checkin cf r fwc s1) as [w s2] eqn:E2.
    assert (s' = s2) by (destruct w; inv H; auto). subst s2.
    left. eapply Mono_taint_true; [eapply rec_checkin_mono; eauto|].
    apply tc_taint. eapply rec_invalidate_raise; eauto.
Qed.

End Acc.
