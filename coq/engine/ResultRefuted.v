(* C10 - where the implementation leaves the list model: concrete witnesses (each is replayed on the
   real implementation on every run, see findings/C10.json) and the guard's verdict on them *)
From Coq Require Import List ZArith Bool Arith.
Import ListNotations.
From SAV.engine Require Import ResultModel ResultSpec.

Definition r20 : row := [VI 2; VI 0].
Definition r21 : row := [VI 2; VI 1].
Definition rows3 : list row := [r20; r20; r21].

(* D1: r = result.unique(); r.fetchone() -> (2,0); r.first() delivers (2,0) AGAIN (the list model: (2,1)) *)
Lemma only_one_row_ignores_seen :
  run_impl StDirect 2 rows3 [Unique KRow; FetchOne; OnlyOne First] =
    [(OUnit, false); (OItem (IRow r20), false); (OItem (IRow r20), true)] /\
  run_spec 2 rows3 [Unique KRow; FetchOne; OnlyOne First] =
    [(OUnit, false); (OItem (IRow r20), false); (OItem (IRow r21), true)].
Proof. vm_compute. split; reflexivity. Qed.
(* D1, second face: one_or_none() raises MultipleResultsFound although one de-duplicated row remains *)
Lemma one_or_none_spurious_multiple :
  run_impl StDirect 2 rows3 [Unique KRow; FetchOne; OnlyOne OneOrNone] =
    [(OUnit, false); (OItem (IRow r20), false); (OErr MultipleResultsFound, true)] /\
  run_spec 2 rows3 [Unique KRow; FetchOne; OnlyOne OneOrNone] =
    [(OUnit, false); (OItem (IRow r20), false); (OItem (IRow r21), true)].
Proof. vm_compute. split; reflexivity. Qed.
Lemma all_sequences_refuted : exists st w rows ops, run_impl st w rows ops <> run_spec w rows ops.
Proof.
  exists StDirect, 2, rows3, [Unique KRow; FetchOne; OnlyOne First]. vm_compute. intros H. discriminate H.
Qed.
(* the same on every strategy *)
Lemma only_one_row_ignores_seen_any_strategy :
  forallb (fun st => negb (match run_impl st 2 rows3 [Unique KRow; FetchOne; OnlyOne First],
                                 run_spec 2 rows3 [Unique KRow; FetchOne; OnlyOne First] with
                           | [_; _; (OItem (IRow a), _)], [_; _; (OItem (IRow b), _)] => row_eqb a b
                           | _, _ => true end))
          [StDirect; StBuffered 1; StBuffered 2; StBuffered 1000; StFull; StIter] = true.
Proof. vm_compute. reflexivity. Qed.

(* D2: first() (one(), scalar() ...) on a CursorResult that is already exhausted does not close it:
   result.closed stays False and a later fetchone() returns None instead of raising ResourceClosedError.
   IteratorResult closes, as documented. *)
Lemma only_one_row_on_exhausted_cursor_not_closed :
  run_impl StDirect 1 [[VI 1]] [All; OnlyOne First; FetchOne] =
    [(OItems [IRow [VI 1]], false); (ONoRow, false); (ONoRow, false)] /\
  run_spec 1 [[VI 1]] [All; OnlyOne First; FetchOne] =
    [(OItems [IRow [VI 1]], false); (ONoRow, true); (OErr ResourceClosed, true)] /\
  run_impl StIter 1 [[VI 1]] [All; OnlyOne First; FetchOne] = run_spec 1 [[VI 1]] [All; OnlyOne First; FetchOne].
Proof. vm_compute. repeat split; reflexivity. Qed.
(* ... and whether it happens depends on the fetch strategy: one row left, fetchmany(2), first(), fetchone() *)
Lemma closure_depends_on_strategy :
  run_impl StDirect 1 [[VI 1]] [FetchMany (Some 2); OnlyOne First; FetchOne] =
  run_spec 1 [[VI 1]] [FetchMany (Some 2); OnlyOne First; FetchOne] /\
  run_impl (StBuffered 2) 1 [[VI 1]] [FetchMany (Some 2); OnlyOne First; FetchOne] <>
  run_spec 1 [[VI 1]] [FetchMany (Some 2); OnlyOne First; FetchOne].
Proof. vm_compute. split; [reflexivity|intros H; discriminate H]. Qed.

(* formerly D3 (repaired, commit 386c857: ScalarResult.unique / MappingResult.unique are @_generative):
   s = result.scalars(); next(s); s.unique(); the getters memoised by the first next() are dropped, so
   next(s) and fetchmany() both de-duplicate from now on - the implementation and the list model agree *)
Lemma filter_unique_after_fetch_honoured :
  run_impl StDirect 1 [[VI 2]; [VI 2]; [VI 2]; [VI 2]] [Scalars 0; Next; Unique KRow; Next; Next; FetchMany (Some 2)] =
    [(OUnit, false); (OItem (IScalar (VI 2)), false); (OUnit, false);
     (OItem (IScalar (VI 2)), false); (OStop, false); (OItems [], false)] /\
  run_spec 1 [[VI 2]; [VI 2]; [VI 2]; [VI 2]] [Scalars 0; Next; Unique KRow; Next; Next; FetchMany (Some 2)] =
    [(OUnit, false); (OItem (IScalar (VI 2)), false); (OUnit, false);
     (OItem (IScalar (VI 2)), false); (OStop, false); (OItems [], false)].
Proof. vm_compute. split; reflexivity. Qed.

(* the guard rejects exactly these calls ... *)
Lemma guard_rejects_witnesses :
  guard StDirect 2 rows3 [Unique KRow; FetchOne; OnlyOne First] = false /\
  guard StDirect 2 rows3 [Unique KRow; FetchOne; OnlyOne OneOrNone] = false /\
  guard StDirect 1 [[VI 1]] [All; OnlyOne First; FetchOne] = false /\
  guard (StBuffered 2) 1 [[VI 1]] [FetchMany (Some 2); OnlyOne First; FetchOne] = false.
Proof. vm_compute. repeat split; reflexivity. Qed.
(* ... and accepts their neighbours: first() on a fresh uniqued result, first() on an exhausted
   IteratorResult or on a CursorResult that has not noticed the exhaustion yet, unique() on a fresh
   scalars() view, unique() on the result itself or on a scalars() view after a fetch, and a long mixed
   sequence *)
Lemma guard_accepts_neighbours :
  guard StDirect 2 rows3 [Unique KRow; OnlyOne One] = true /\
  guard StIter 1 [[VI 1]] [All; OnlyOne First; FetchOne] = true /\
  guard StDirect 1 [[VI 1]] [FetchMany (Some 2); OnlyOne First; FetchOne] = true /\
  guard StDirect 1 [[VI 2]; [VI 2]; [VI 2]] [Scalars 0; Unique KRow; Next; Next] = true /\
  guard StDirect 1 [[VI 2]; [VI 2]; [VI 2]; [VI 2]] [Scalars 0; Next; Unique KRow; Next; Next; FetchMany (Some 2)] = true /\
  guard StDirect 2 rows3 [FetchOne; Unique KRow; FetchOne; FetchOne] = true /\
  guard (StBuffered 2) 2 (rows3 ++ rows3 ++ [[VI 0; VI 0]])
    [YieldPer 3; Unique KFirst; FetchMany None; Mappings; Columns [1; 0]; Partitions (Some 1) 2; ToRoot;
     IterFor 2; Scalars 1; Unique KRow; FetchMany (Some 2); Freeze; OnlyOne ScalarOne; Close; All] = true.
Proof. vm_compute. repeat split; reflexivity. Qed.

(* why fetchmany()/partitions() without a size and without yield_per is outside the property: the chunk is
   whatever the strategy does by default (cursor.arraysize = 1 on sqlite3; everything when buffering) *)
Lemma sizeless_chunk_is_strategy_specific :
  run_impl StDirect 1 [[VI 1]; [VI 2]; [VI 3]] [FetchMany None] = [(OItems [IRow [VI 1]], false)] /\
  run_impl (StBuffered 5) 1 [[VI 1]; [VI 2]; [VI 3]] [FetchMany None] =
    [(OItems [IRow [VI 1]; IRow [VI 2]; IRow [VI 3]], false)] /\
  run_impl StDirect 1 [[VI 1]; [VI 1]; [VI 3]] [Unique KRow; FetchMany None] = [(OUnit, false); (OItems [IRow [VI 1]], false)] /\
  run_impl StDirect 1 [[VI 1]; [VI 2]; [VI 3]] [YieldPer 2; FetchMany None] =
    [(OUnit, false); (OItems [IRow [VI 1]; IRow [VI 2]], false)].
Proof. vm_compute. repeat split; reflexivity. Qed.
