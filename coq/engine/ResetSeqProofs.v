(* C24 - proofs about the reset-on-return model *)
From Coq Require Import List ZArith Bool Lia.
Import ListNotations.
From SAV.engine Require Import ResetSeq.
Open Scope Z_scope.

(* connection-level facts *)
Definition DI (d : db) : Prop := dirty d = true -> in_txn d = true.
(* a savepoint that remembers uncommitted writes lives inside an open transaction *)
Definition SPI (d : db) : Prop := forall e, In e (sp d) -> fst e = true -> in_txn d = true.
Definition DBI (d : db) : Prop := DI d /\ SPI d.
Definition iso_default (d : db) : Prop := iso d = 0 /\ autoc d = false.

Lemma pristine_spec : forall d, pristine d = true <-> in_txn d = false /\ dirty d = false /\ iso_default d.
Proof.
  unfold pristine, iso_default; intros d.
  rewrite !andb_true_iff, !negb_true_iff, Z.eqb_eq. tauto.
Qed.

Ltac dd := let X := fresh in intro X; discriminate X.

(* frame of the DBAPI calls: only the fault script and the log change *)
Definition Fr (s s' : st) : Prop :=
  idle s' = idle s /\ twr_unsound s' = twr_unsound s /\ nconn s' = nconn s.
Lemma Fr_refl : forall s, Fr s s. Proof. intros; repeat split. Qed.
Lemma Fr_trans : forall a b c, Fr a b -> Fr b c -> Fr a c.
Proof. intros a b c (?&?&?) (?&?&?); repeat split; congruence. Qed.
Lemma Fr_log : forall s k, Fr s (add_log s k). Proof. intros; repeat split. Qed.

Lemma next_fault_frame : forall s c s', next_fault s = (c, s') -> Fr s s'.
Proof. unfold next_fault, Fr; intros. destruct (faults s); inversion H; subst; cbn; auto. Qed.

Lemma clean_DBI : forall d, DBI (clean d).
Proof. intros d. split; [intros H; cbn in H; discriminate|intros e H; cbn in H; contradiction]. Qed.

Lemma db_commit_spec : forall d s ok d' s', db_commit d s = (ok, d', s') ->
  Fr s s' /\ (if ok then d' = clean d else d' = d).
Proof.
  unfold db_commit; intros. destruct (next_fault (add_log s 1)) as [c s2] eqn:E.
  apply next_fault_frame in E. destruct (fkbad d || (c =? 1)); inversion H; subst; auto.
Qed.
Lemma db_rollback_spec : forall d s ok d' s', db_rollback d s = (ok, d', s') ->
  Fr s s' /\ (if ok then d' = clean d else d' = d).
Proof.
  unfold db_rollback; intros. destruct (next_fault (add_log s 2)) as [c s2] eqn:E.
  apply next_fault_frame in E. destruct (c =? 1); inversion H; subst; auto.
Qed.

(* operations that keep in_txn / dirty / the savepoints *)
Definition SameTx (d d' : db) : Prop := in_txn d' = in_txn d /\ dirty d' = dirty d /\ sp d' = sp d.
Lemma SameTx_DBI : forall d d', SameTx d d' -> DBI d -> DBI d'.
Proof. intros d d' (A & B & C) [H1 H2]. split; [unfold DI; rewrite A, B; auto|unfold SPI; rewrite A, C; auto]. Qed.

Lemma db_set_iso_spec : forall l d s d' s', db_set_iso l d s = (d', s') ->
  Fr s s' /\ SameTx d d' /\ (l = 0 -> iso_default d').
Proof.
  unfold db_set_iso, iso_default, SameTx; intros l d s d' s' H. inversion H; subst; clear H.
  split; [apply Fr_log|]. destruct (l =? 2) eqn:E; cbn; (split; [auto|]); intros ->; cbn in E; try discriminate; auto.
Qed.

Lemma run_finalizers_spec : forall fs d s d' s', run_finalizers fs d s = (d', s') ->
  Fr s s' /\ SameTx d d' /\ ((In true fs \/ iso_default d) -> iso_default d').
Proof.
  induction fs as [|b r IH]; intros d s d' s' H; cbn [run_finalizers] in H.
  - inversion H; subst. split; [apply Fr_refl|]. split; [repeat split|]. intros [[]|?]; auto.
  - destruct b.
    + destruct (db_set_iso 0 d s) as [d1 s1] eqn:E. apply db_set_iso_spec in E. destruct E as (E1 & E2 & E3).
      apply IH in H. destruct H as (H1 & H2 & H3).
      split; [exact (Fr_trans _ _ _ E1 H1)|]. split; [destruct E2 as (?&?&?), H2 as (?&?&?); repeat split; congruence|].
      intros _. apply H3. right. apply E3. reflexivity.
    + apply IH in H. destruct H as (H1 & H2 & H3). split; [auto|]. split; [auto|].
      intros [[Hc|Hi]|Hd]; [discriminate|apply H3; auto|apply H3; auto].
Qed.

Definition PoolAll (reset : rstyle) (s : st) : Prop :=
  match idle s with
  | Some d => iso_default d /\ DBI d /\ (reset <> RNone -> pristine d = true)
  | None => True
  end.
(* transaction_was_reset=True never reaches _reset over an open DBAPI transaction *)
Definition Up (s s' : st) : Prop := twr_unsound s' = true -> twr_unsound s = true.
Lemma Fr_Up : forall s s', Fr s s' -> Up s s'.
Proof. intros s s' (F1 & F2 & F3). unfold Up. rewrite F2. auto. Qed.
Lemma Up_trans : forall a b c, Up a b -> Up b c -> Up a c.
Proof. unfold Up; auto. Qed.

Section P.
Variable reset : rstyle.
Variable kind : pkind.
Variable begin_emits : bool.
Variable engine_iso : Z.

(* every characteristic that was set has a pending finaliser *)
Definition CIf (d : db) (fs : list bool) : Prop := iso_default d \/ In true fs.
Definition CI (c : cst) : Prop := CIf (cdb c) (fins c).

(* _finalize_fairy + checkin: what is left in the pool *)
Lemma finalize_end : forall d fs twr s, CIf d fs -> DBI d -> (twr = true -> in_txn d = false) ->
  let s' := finalize reset kind d fs twr s in
  Up s s' /\ PoolAll reset s'.
Proof.
  intros d fs twr s HC HD Ht. cbv zeta. unfold finalize.
  set (s0 := if twr && in_txn d then set_unsound s else s).
  assert (F0 : s0 = s) by (subst s0; destruct twr; cbn; auto; rewrite Ht; auto).
  rewrite F0. clear F0 s0.
  match goal with |- context [match ?e with (_, _) => _ end] =>
    match type of e with (bool * db * st)%type => destruct e as [[ok d1] s1] eqn:E end end.
  assert (G : Fr s s1 /\
              (ok = true -> (d1 = clean d /\ reset <> RNone) \/ (d1 = d /\ (reset = RNone \/ (reset = RRollback /\ twr = true))))).
  { destruct reset.
    - destruct twr.
      + inversion E; subst. split; [apply Fr_refl|]. intros _. right. auto.
      + apply db_rollback_spec in E. destruct E as [E1 E2]. split; [auto|]. intros ->. left. split; [auto|discriminate].
    - apply db_commit_spec in E. destruct E as [E1 E2]. split; [auto|]. intros ->. left. split; [auto|discriminate].
    - inversion E; subst. split; [apply Fr_refl|]. intros _. right. auto. }
  destruct G as (G1 & G5).
  destruct ok.
  2:{ split; [unfold Up; cbn; destruct G1 as (_ & G2 & _); rewrite G2; auto|unfold PoolAll; cbn; auto]. }
  destruct (run_finalizers (rev fs) d1 s1) as [d2 s2] eqn:Er. apply run_finalizers_spec in Er.
  destruct Er as (R1 & R2 & R7).
  split.
  { unfold Up; cbn. destruct G1 as (_ & G2 & _), R1 as (_ & R3 & _). rewrite R3, G2; auto. }
  assert (I2 : iso_default d2).
  { apply R7. destruct HC as [Hd|Hi]; [right|left; apply in_rev in Hi; exact Hi].
    destruct (G5 eq_refl) as [[-> _]|[-> _]]; auto. }
  assert (D1 : DBI d1) by (destruct (G5 eq_refl) as [[-> _]|[-> _]]; [apply clean_DBI|exact HD]).
  pose proof (SameTx_DBI _ _ R2 D1) as D2.
  unfold PoolAll; cbn. destruct kind; cbn; auto; (split; [exact I2|split; [exact D2|]]); intros Hr;
    apply pristine_spec; destruct R2 as (Ra & Rb & Rc); rewrite Ra, Rb;
    (destruct (G5 eq_refl) as [[-> _]|[-> [->|[-> ->]]]]; [cbn; auto|congruence|]);
    (split; [apply Ht; auto|split; [|exact I2]]);
    destruct HD as [HD1 _]; destruct (dirty d) eqn:Ed; auto; rewrite HD1 in *; auto; rewrite Ht in *; auto; discriminate.
Qed.

(* ---- the pieces of one operation *)
Lemma autobegin_spec : forall c s c1 s1, autobegin begin_emits c s = (c1, s1) ->
  Fr s s1 /\ fins c1 = fins c /\ done c1 = done c /\ iso (cdb c1) = iso (cdb c) /\ autoc (cdb c1) = autoc (cdb c) /\
  (DBI (cdb c) -> DBI (cdb c1)).
Proof.
  unfold autobegin; intros c s c1 s1 H. destruct (txn c).
  - inversion H; subst. split; [apply Fr_refl|]. auto 10.
  - destruct (begin_emits && negb (in_txn (cdb c))); inversion H; subst; cbn.
    + split; [apply Fr_log|]. do 4 (split; [reflexivity|]). intros [H1 H2]. split; [intros _; reflexivity|intros e He _; reflexivity].
    + split; [apply Fr_refl|]. auto 10.
Qed.

Lemma cancel_nested_frame : forall c, cdb (cancel_nested c) = cdb c /\ fins (cancel_nested c) = fins c /\
  done (cancel_nested c) = done c /\ txn (cancel_nested c) = txn c.
Proof. intros c. unfold cancel_nested. destruct (ntop c); cbn; auto. Qed.

Lemma root_close_spec : forall c s ok c1 s1, root_close c s = (ok, c1, s1) ->
  Fr s s1 /\ fins c1 = fins c /\ done c1 = done c /\
  (cdb c1 = clean (cdb c) \/ cdb c1 = cdb c) /\
  (txn c = Some true -> ok = true -> cdb c1 = clean (cdb c)) /\
  (txn c <> None -> txn c1 = None).
Proof.
  unfold root_close; intros c s ok c1 s1 H. destruct (txn c) as [[|]|] eqn:Et.
  - destruct (db_rollback (cdb c) s) as [[ok' d1] s2] eqn:E. apply db_rollback_spec in E. destruct E as [E1 E2].
    inversion H; subst; clear H.
    destruct (cancel_nested_frame (set_txn (set_cdb c d1) None)) as (A & B & C & D).
    rewrite A, B, C, D. cbn. destruct ok; subst d1.
    + auto 10.
    + split; auto. split; auto. split; auto. split; auto. split; [intros _ Hf; discriminate|auto].
  - inversion H; subst; clear H. destruct (cancel_nested_frame c) as (A & B & C & D). cbn. rewrite A, B, C.
    split; [apply Fr_refl|]. split; auto. split; auto. split; auto. split; [dd|auto].
  - inversion H; subst; clear H. split; [apply Fr_refl|]. split; auto. split; auto. split; auto. split; [dd|intros Hn; congruence].
Qed.

Lemma db_write_spec : forall b d, iso (db_write b d) = iso d /\ autoc (db_write b d) = autoc d /\ (DBI d -> DBI (db_write b d)).
Proof.
  intros b d. unfold db_write. destruct (autoc d) eqn:Ea; cbn; auto.
  split; auto. split; auto. intros [H1 H2]. split; [intros _; reflexivity|intros e He _; reflexivity].
Qed.

Lemma In_firstn : forall A (l : list A) n x, In x (firstn n l) -> In x l.
Proof. induction l; intros n x H; destruct n; cbn in *; try contradiction. destruct H; [auto|right; eauto]. Qed.

Lemma db_sp_ops_spec :
  (forall d s d' s', db_savepoint d s = (d', s') -> Fr s s' /\ iso d' = iso d /\ autoc d' = autoc d /\ (DBI d -> DBI d')) /\
  (forall k d s d' s', db_rollback_to k d s = (d', s') -> Fr s s' /\ iso d' = iso d /\ autoc d' = autoc d /\ (DBI d -> DBI d')) /\
  (forall k d s d' s', db_release k d s = (d', s') -> Fr s s' /\ iso d' = iso d /\ autoc d' = autoc d /\ (DBI d -> DBI d')).
Proof.
  split; [|split].
  - unfold db_savepoint; intros d s d' s' H. inversion H; subst; clear H. cbn. split; [apply Fr_log|]. split; auto. split; auto.
    intros [H1 H2]. split; [exact H1|]. intros e He Hf. cbn in He. apply in_app_iff in He as [He|[He|[]]]; [eapply H2; eauto|].
    subst e. cbn in Hf. apply H1; auto.
  - unfold db_rollback_to; intros k d s d' s' H. inversion H; subst; clear H. split; [apply Fr_log|].
    destruct (nth_error (sp d) k) as [[dr fk]|] eqn:En; cbn; auto.
    split; auto. split; auto. intros [H1 H2]. split.
    + intros Hd. cbn in Hd. subst dr. apply (H2 (true, fk)); auto. eapply nth_error_In; eauto.
    + intros e He Hf. change (In e (firstn (S k) (sp d))) in He. apply In_firstn in He. eapply H2; eauto.
  - unfold db_release; intros k d s d' s' H. inversion H; subst; clear H. cbn. split; [apply Fr_log|]. split; auto. split; auto.
    intros [H1 H2]. split; [exact H1|]. intros e He Hf. cbn [sp] in He. apply In_firstn in He. eapply H2; eauto.
Qed.

Definition CInv (c : cst) : Prop := CI c /\ DBI (cdb c).

(* an operation that is not an end keeps the invariant and the pool *)
Definition Cont (c : cst) (s : st) (c' : cst) (s' : st) : Prop :=
  CInv c' /\ Fr s s' /\ done c' = false.

Lemma CIf_same : forall d d' fs, iso d' = iso d -> autoc d' = autoc d -> CIf d fs -> CIf d' fs.
Proof. unfold CIf, iso_default; intros d d' fs H1 H2 [H|H]; [left; rewrite H1, H2; auto|auto]. Qed.

Lemma do_op_spec : forall o c s code c' s', do_op reset kind begin_emits o c s = (code, c', s') ->
  CInv c -> done c = false ->
  (Cont c s c' s') \/ (done c' = true /\ Up s s' /\ PoolAll reset s').
Proof.
  intros o c s code c' s' H [HC HD] Hdn. unfold CI in HC.
  assert (K0 : Cont c s c s) by (split; [split; auto|split; [apply Fr_refl|auto]]).
  destruct (db_sp_ops_spec) as (SP1 & SP2 & SP3).
  assert (WR : forall b, (let (c1, s1) := autobegin begin_emits c s in
               (0, set_cdb c1 (db_write b (cdb c1)), s1)) = (code, c', s') -> Cont c s c' s').
  { intros b Hw. destruct (autobegin begin_emits c s) as [c1 s1] eqn:Ea. apply autobegin_spec in Ea.
    destruct Ea as (A1 & A2 & A3 & A4 & A5 & A6). inversion Hw; subst; clear Hw.
    destruct (db_write_spec b (cdb c1)) as (W1 & W2 & W3).
    split; [split|split; [auto|cbn; congruence]].
    - unfold CI; cbn. rewrite A2. eapply CIf_same; [| |exact HC]; congruence.
    - cbn. auto. }
  destruct o; cbn [do_op] in H.
  - (* write *) destruct (invalid_state c); [inversion H; subst; auto|]. left. eapply WR; eauto.
  - (* commit *)
    destruct (txn c) as [[|]|]; try (inversion H; subst; auto; fail).
    destruct (db_commit (cdb c) s) as [[ok d1] s1] eqn:E. apply db_commit_spec in E. destruct E as [E1 E2].
    destruct (cancel_nested_frame (set_cdb c d1)) as (A & B & C & D).
    assert (Dn : forall t, done (set_txn (cancel_nested (set_cdb c d1)) t) = false)
      by (intros t; unfold set_txn; cbn [done]; rewrite C; exact Hdn).
    assert (Cd : forall t, cdb (set_txn (cancel_nested (set_cdb c d1)) t) = d1)
      by (intros t; unfold set_txn; cbn [cdb]; rewrite A; reflexivity).
    assert (Fn : forall t, fins (set_txn (cancel_nested (set_cdb c d1)) t) = fins c)
      by (intros t; unfold set_txn; cbn [fins]; rewrite B; reflexivity).
    left. destruct ok; subst d1; inversion H; subst; clear H; (split; [split|split; [exact E1|apply Dn]]);
      unfold CI; rewrite ?Cd, ?Fn; auto; try apply clean_DBI; try (eapply CIf_same; [| |exact HC]; reflexivity).
  - (* rollback *)
    destruct (root_close c s) as [[ok c1] s1] eqn:E. apply root_close_spec in E.
    destruct E as (R1 & R2 & R3 & R4 & R5 & R6). inversion H; subst; clear H.
    left. split; [split|split; [auto|congruence]].
    + unfold CI. rewrite R2. destruct R4 as [Hr|Hr]; rewrite Hr; exact HC.
    + destruct R4 as [Hr|Hr]; rewrite Hr; auto. apply clean_DBI.
  - (* failing statement *)
    destruct (invalid_state c); [inversion H; subst; auto|].
    destruct (autobegin begin_emits c s) as [c1 s1] eqn:Ea. apply autobegin_spec in Ea.
    destruct Ea as (A1 & A2 & A3 & A4 & A5 & A6). inversion H; subst; clear H.
    left. split; [split; [unfold CI; rewrite A2; eapply CIf_same; [| |exact HC]; congruence|auto]|split; [auto|congruence]].
  - (* begin *)
    destruct (txn c); [inversion H; subst; auto|].
    destruct (autobegin begin_emits c s) as [c1 s1] eqn:Ea. apply autobegin_spec in Ea.
    destruct Ea as (A1 & A2 & A3 & A4 & A5 & A6). inversion H; subst; clear H.
    left. split; [split; [unfold CI; rewrite A2; eapply CIf_same; [| |exact HC]; congruence|auto]|split; [auto|congruence]].
  - (* write violating a deferred constraint *)
    destruct (invalid_state c); [inversion H; subst; auto|]. left. eapply WR; eauto.
  - (* close *)
    destruct (txn c) as [active|] eqn:Et.
    + destruct (root_close c s) as [[ok c1] s1] eqn:E. apply root_close_spec in E.
      destruct E as (R1 & R2 & R3 & R4 & R5 & R6).
      assert (HC1 : CIf (cdb c1) (fins c1)).
      { rewrite R2. destruct R4 as [Hr|Hr]; rewrite Hr; exact HC. }
      assert (HD1 : DBI (cdb c1)) by (destruct R4 as [Hr|Hr]; rewrite Hr; auto; apply clean_DBI).
      destruct ok; inversion H; subst; clear H.
      * right. cbn [done]. split; [reflexivity|].
        destruct (finalize_end (cdb c1) (fins c1) active s1 HC1 HD1) as [G1 G2].
        { intros ->. rewrite (R5 Et eq_refl). reflexivity. }
        split; [|exact G2]. eapply Up_trans; [apply Fr_Up; exact R1|exact G1].
      * (* the error escapes close(): the connection stays checked out *)
        left. split; [split; auto|split; [exact R1|congruence]].
    + right. inversion H; subst; clear H. cbn [done]. split; [reflexivity|].
      destruct (finalize_end (cdb c) (fins c) false s HC HD) as [G1 G2]; [dd|auto].
  - (* drop *)
    right. inversion H; subst; clear H. cbn [done]. split; [reflexivity|].
    destruct (finalize_end (cdb c) (fins c) false s HC HD) as [G1 G2]; [dd|auto].
  - (* invalidate *)
    right. inversion H; subst; clear H. cbn [done]. split; [reflexivity|].
    split; [unfold Up; cbn; auto|unfold PoolAll; cbn; auto].
  - (* execution_options *)
    destruct (negb (level =? 0) || token); [|inversion H; subst; auto].
    destruct (negb (level =? 0) && match txn c with Some true => true | _ => false end); [inversion H; subst; auto|].
    destruct (level =? 0) eqn:El.
    + inversion H; subst; clear H. left. split; [split|split; [apply Fr_refl|reflexivity]]; cbn; auto.
      unfold CI; cbn. destruct HC as [Hd|Hi]; [left; auto|right; apply in_app_iff; auto].
    + destruct (db_set_iso level (cdb c) s) as [d1 s1] eqn:E. apply db_set_iso_spec in E. destruct E as (E1 & E2 & E3).
      inversion H; subst; clear H. left. split; [split|split; [auto|reflexivity]]; cbn.
      * unfold CI; cbn. right. apply in_app_iff. right. left. reflexivity.
      * eapply SameTx_DBI; eauto.
  - (* begin_nested *)
    destruct (autobegin begin_emits c s) as [c1 s1] eqn:Ea. apply autobegin_spec in Ea.
    destruct Ea as (A1 & A2 & A3 & A4 & A5 & A6).
    assert (K1 : Cont c s c1 s1).
    { split; [split; [unfold CI; rewrite A2; eapply CIf_same; [| |exact HC]; congruence|auto]|split; [auto|congruence]]. }
    destruct (invalid_state c1); [inversion H; subst; auto|].
    destruct (db_savepoint (cdb c1) s1) as [d1 s2] eqn:E. apply SP1 in E. destruct E as (E1 & E2 & E3 & E4).
    inversion H; subst; clear H. left. destruct K1 as [[K1 K2] [K3 K4]].
    split; [split|split; [eapply Fr_trans; eauto|reflexivity]]; cbn; auto.
    unfold CI; cbn. eapply CIf_same; [| |exact K1]; congruence.
  - (* nested commit *)
    destruct (length (ns c)) as [|i]; [inversion H; subst; auto|].
    destruct (nth_error (ns c) i) as [n|]; [|inversion H; subst; auto].
    destruct (n_active n); [|inversion H; subst; auto].
    destruct (invalid_state c).
    + inversion H; subst; clear H. left. split; [split; auto|split; [apply Fr_refl|reflexivity]].
    + destruct (db_release (n_sp n) (cdb c) s) as [d1 s1] eqn:E. apply SP3 in E. destruct E as (E1 & E2 & E3 & E4).
      inversion H; subst; clear H. left. split; [split|split; [auto|reflexivity]]; cbn; auto.
      unfold CI; cbn. eapply CIf_same; [| |exact HC]; congruence.
  - (* nested rollback *)
    destruct (length (ns c)) as [|i]; [inversion H; subst; auto|].
    destruct (nth_error (ns c) i) as [n|]; [|inversion H; subst; auto].
    match type of H with (if ?b && _ then _ else _) = _ => destruct b end; cbn [andb] in H.
    + destruct (invalid_state c).
      * inversion H; subst; clear H. left. split; [split; auto|split; [apply Fr_refl|reflexivity]].
      * destruct (db_rollback_to (n_sp n) (cdb c) s) as [d1 s1] eqn:E. apply SP2 in E. destruct E as (E1 & E2 & E3 & E4).
        inversion H; subst; clear H. left. split; [split|split; [auto|reflexivity]]; cbn; auto.
        unfold CI; cbn. eapply CIf_same; [| |exact HC]; congruence.
    + inversion H; subst; clear H. left. split; [split; auto|split; [apply Fr_refl|reflexivity]].
  - (* nested close *)
    destruct (length (ns c)) as [|i]; [inversion H; subst; auto|].
    destruct (nth_error (ns c) i) as [n|]; [|inversion H; subst; auto].
    match type of H with (if ?b && _ then _ else _) = _ => destruct b end; cbn [andb] in H.
    + destruct (invalid_state c).
      * inversion H; subst; clear H. left. split; [split; auto|split; [apply Fr_refl|reflexivity]].
      * destruct (db_rollback_to (n_sp n) (cdb c) s) as [d1 s1] eqn:E. apply SP2 in E. destruct E as (E1 & E2 & E3 & E4).
        inversion H; subst; clear H. left. split; [split|split; [auto|reflexivity]]; cbn; auto.
        unfold CI; cbn. eapply CIf_same; [| |exact HC]; congruence.
    + inversion H; subst; clear H. left. split; [split; auto|split; [apply Fr_refl|reflexivity]].
Qed.

Lemma do_ops_spec : forall ops c s codes codes' c' s', do_ops reset kind begin_emits ops c s codes = (codes', c', s') ->
  CInv c -> done c = false ->
  (Cont c s c' s') \/ (done c' = true /\ Up s s' /\ PoolAll reset s').
Proof.
  induction ops as [|o r IH]; intros c s codes codes' c' s' H HI Hd; cbn [do_ops] in H.
  - inversion H; subst. left. split; [auto|split; [apply Fr_refl|auto]].
  - destruct (do_op reset kind begin_emits o c s) as [[code c1] s1] eqn:E.
    destruct (do_op_spec _ _ _ _ _ _ E HI Hd) as [(A1 & A2 & A3)|(A1 & A2 & A3)].
    + rewrite A3 in H. destruct (IH _ _ _ _ _ _ H A1 A3) as [(B1 & B2 & B3)|(B1 & B2 & B3)].
      * left. split; [auto|split; [eapply Fr_trans; eauto|auto]].
      * right. split; [auto|split; [eapply Up_trans; [apply Fr_Up; eauto|auto]|auto]].
    + rewrite A1 in H. inversion H; subst. right. auto.
Qed.

Lemma checkout_spec : forall s, PoolAll reset s ->
  let d := fst (checkout s) in let s0 := snd (checkout s) in
  iso_default d /\ DBI d /\ (reset <> RNone -> pristine d = true) /\
  idle s0 = None /\ twr_unsound s0 = twr_unsound s.
Proof.
  intros s HP. unfold checkout, PoolAll in *. destruct (idle s) as [d|]; cbn.
  - destruct HP as (P1 & P2 & P3). auto.
  - split; [split; reflexivity|]. split; [split; [dd|intros e []]|]. auto.
Qed.

Lemma connect_spec : forall d s c0 s0, connect engine_iso d s = (c0, s0) -> iso_default d -> DBI d ->
  CInv c0 /\ Fr s s0 /\ done c0 = false.
Proof.
  unfold connect; intros d s c0 s0 H Hi Hd. destruct (engine_iso =? 0).
  - inversion H; subst. split; [split; [left; exact Hi|exact Hd]|split; [apply Fr_refl|reflexivity]].
  - destruct (db_set_iso engine_iso d s) as [d1 s1] eqn:E. apply db_set_iso_spec in E. destruct E as (E1 & E2 & E3).
    inversion H; subst. split; [split; [right; left; reflexivity|eapply SameTx_DBI; eauto]|split; [auto|reflexivity]].
Qed.

Lemma user_spec : forall ops s, PoolAll reset s ->
  let s' := snd (user reset kind begin_emits engine_iso ops s) in
  PoolAll reset s' /\ Up s s'.
Proof.
  intros ops s HP. unfold user.
  destruct (checkout_spec s HP) as (C1 & C2 & C3 & C4 & C6).
  destruct (checkout s) as [d s0] eqn:Ec. cbn [fst snd] in *.
  set (s1 := mkst (idle s0) (nconn s0) (faults s0) [] (twr_unsound s0)).
  assert (U01 : Up s s1) by (unfold Up; subst s1; cbn; rewrite C6; auto).
  destruct (connect engine_iso d s1) as [c0 s2] eqn:Eo.
  destruct (connect_spec _ _ _ _ Eo C1 C2) as (K1 & K2 & K3).
  destruct (do_ops reset kind begin_emits ops c0 s2 []) as [[codes c] s3] eqn:E.
  cbn [snd].
  destruct (do_ops_spec _ _ _ _ _ _ _ E K1 K3) as [((A1 & A1') & A2 & A3)|(A1 & A2 & A3)].
  - (* never returned: the garbage collector finalises the fairy *)
    rewrite A3. destruct (finalize_end (cdb c) (fins c) false s3 A1 A1') as (G1 & G2); [dd|].
    split; [exact G2|]. eapply Up_trans; [exact U01|]. eapply Up_trans; [apply Fr_Up; exact K2|].
    eapply Up_trans; [apply Fr_Up; exact A2|exact G1].
  - rewrite A1. split; [exact A3|]. eapply Up_trans; [exact U01|]. eapply Up_trans; [apply Fr_Up; exact K2|exact A2].
Qed.

Lemma run_spec : forall us s, PoolAll reset s ->
  PoolAll reset (run reset kind begin_emits engine_iso us s) /\ Up s (run reset kind begin_emits engine_iso us s).
Proof.
  induction us as [|u r IH]; intros s HP; cbn [run].
  - split; auto. apply Fr_Up, Fr_refl.
  - destruct (user_spec u s HP) as [A1 A2]. destruct (IH _ A1) as [B1 B2]. split; auto. eapply Up_trans; eauto.
Qed.

Lemma init_PoolAll : forall fl, PoolAll reset (init fl).
Proof. intros; unfold PoolAll; cbn; auto. Qed.

(* ---------------------------------------------------------------- the theorems *)
(* clean_on_checkout: with reset_on_return enabled, for every history of users (incl. savepoints and
   any sequence of option calls, with or without an option engine) and every fault script, the
   connection handed to the next checkout is pristine *)
Theorem clean_on_checkout : reset <> RNone -> forall us fl,
  pristine (next_checkout (run reset kind begin_emits engine_iso us (init fl))) = true.
Proof.
  intros Hr us fl. destruct (run_spec us _ (init_PoolAll fl)) as [HP _].
  destruct (checkout_spec _ HP) as (_ & _ & C3 & _). exact (C3 Hr).
Qed.

(* characteristics_restored: whatever the reset style and whatever list of execution_options calls the
   users made: the next checkout sees the default isolation level / autocommit setting *)
Theorem characteristics_restored : forall us fl,
  iso_default (next_checkout (run reset kind begin_emits engine_iso us (init fl))).
Proof.
  intros us fl. destruct (run_spec us _ (init_PoolAll fl)) as [HP _].
  destruct (checkout_spec _ HP) as (C1 & _). exact C1.
Qed.

(* ... because during a checkout every characteristic that was set has a pending finaliser that names it *)
Theorem finaliser_pending : forall ops d s c0 s0 codes c s',
  iso_default d -> DBI d -> connect engine_iso d s = (c0, s0) ->
  do_ops reset kind begin_emits ops c0 s0 [] = (codes, c, s') -> done c = false ->
  iso_default (cdb c) \/ In true (fins c).
Proof.
  intros ops d s c0 s0 codes c s' Hd HD Ho H Hdn.
  destruct (connect_spec _ _ _ _ Ho Hd HD) as (K1 & K2 & K3).
  destruct (do_ops_spec _ _ _ _ _ _ _ H K1 K3) as [((A1 & _) & _)|(A1 & _)]; [exact A1|congruence].
Qed.

(* reset_exactly_once_or_skipped_soundly: transaction_was_reset=True never reaches _reset over an open
   DBAPI transaction *)
Theorem reset_skipped_soundly : forall us fl,
  twr_unsound (run reset kind begin_emits engine_iso us (init fl)) = false.
Proof.
  intros us fl. destruct (run_spec us _ (init_PoolAll fl)) as [_ U].
  destruct (twr_unsound (run reset kind begin_emits engine_iso us (init fl))) eqn:E; auto. apply U in E. cbn in E. discriminate.
Qed.

End P.
