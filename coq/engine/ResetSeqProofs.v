(* C24 - proofs about the reset-on-return model *)
From Coq Require Import List ZArith Bool Lia.
Import ListNotations.
From SAV.engine Require Import ResetSeq.
Open Scope Z_scope.

(* connection-level facts *)
Definition DI (d : db) : Prop := dirty d = true -> in_txn d = true.
Definition iso_default (d : db) : Prop := iso d = 0 /\ autoc d = false.
(* every characteristic that was set has a pending finaliser *)
Definition CI (c : cst) : Prop := nfin c = O -> iso_default (cdb c).
Definition PoolOk (s : st) : Prop := match idle s with Some d => pristine d = true | None => True end.
Definition PoolIso (s : st) : Prop := match idle s with Some d => iso_default d | None => True end.

Lemma pristine_spec : forall d, pristine d = true <-> in_txn d = false /\ dirty d = false /\ iso_default d.
Proof.
  unfold pristine, iso_default; intros d.
  rewrite !andb_true_iff, !negb_true_iff, Z.eqb_eq. tauto.
Qed.

Lemma next_fault_frame : forall s c s', next_fault s = (c, s') ->
  idle s' = idle s /\ bad_close s' = bad_close s /\ twr_unsound s' = twr_unsound s /\ nconn s' = nconn s.
Proof. unfold next_fault; intros. destruct (faults s); inversion H; subst; cbn; auto. Qed.

Lemma db_commit_spec : forall d s ok d' s', db_commit d s = (ok, d', s') ->
  idle s' = idle s /\ bad_close s' = bad_close s /\ twr_unsound s' = twr_unsound s /\ nconn s' = nconn s /\
  (if ok then d' = clean d else d' = d).
Proof.
  unfold db_commit; intros. destruct (next_fault (add_log s 1)) as [c s2] eqn:E.
  apply next_fault_frame in E. cbn in E. destruct E as (E1 & E2 & E3 & E4).
  destruct (fkbad d || (c =? 1)); inversion H; subst; auto 10.
Qed.
Lemma db_rollback_spec : forall d s ok d' s', db_rollback d s = (ok, d', s') ->
  idle s' = idle s /\ bad_close s' = bad_close s /\ twr_unsound s' = twr_unsound s /\ nconn s' = nconn s /\
  (if ok then d' = clean d else d' = d).
Proof.
  unfold db_rollback; intros. destruct (next_fault (add_log s 2)) as [c s2] eqn:E.
  apply next_fault_frame in E. cbn in E. destruct E as (E1 & E2 & E3 & E4).
  destruct (c =? 1); inversion H; subst; auto 10.
Qed.

Lemma db_set_iso_spec : forall l d s d' s', db_set_iso l d s = (d', s') ->
  idle s' = idle s /\ bad_close s' = bad_close s /\ twr_unsound s' = twr_unsound s /\ nconn s' = nconn s /\
  in_txn d' = in_txn d /\ dirty d' = dirty d /\ (l = 0 -> iso_default d').
Proof.
  unfold db_set_iso, iso_default; intros l d s d' s' H. inversion H; subst; clear H.
  destruct (l =? 2) eqn:E; cbn; do 6 (split; [reflexivity|]); intros ->; cbn in E; try discriminate; auto.
Qed.

Lemma run_finalizers_spec : forall n d s d' s', run_finalizers n d s = (d', s') ->
  idle s' = idle s /\ bad_close s' = bad_close s /\ twr_unsound s' = twr_unsound s /\ nconn s' = nconn s /\
  in_txn d' = in_txn d /\ dirty d' = dirty d /\ ((n <> O \/ iso_default d) -> iso_default d').
Proof.
  induction n; intros d s d' s' H; cbn in H.
  - inversion H; subst. do 6 (split; [reflexivity|]). intros [?|?]; [congruence|auto].
  - destruct (db_set_iso 0 d s) as [d1 s1] eqn:E. apply db_set_iso_spec in E.
    destruct E as (E1 & E2 & E3 & E4 & E5 & E6 & E7). apply IHn in H.
    destruct H as (H1 & H2 & H3 & H4 & H5 & H6 & H7).
    do 6 (split; [congruence|]). intros _. apply H7. right. auto.
Qed.

Lemma clean_spec : forall d, in_txn (clean d) = false /\ dirty (clean d) = false /\ iso (clean d) = iso d /\ autoc (clean d) = autoc d.
Proof. intros; cbn; auto. Qed.

Section P.
Variable reset : rstyle.
Variable kind : pkind.

(* what _finalize_fairy + checkin leave in the pool *)
Lemma finalize_spec : forall d nf twr s,
  let s' := finalize reset kind d nf twr s in
  bad_close s' = bad_close s /\ nconn s' = nconn s /\
  (twr_unsound s' = true -> twr_unsound s = true \/ (twr = true /\ in_txn d = true)) /\
  ((nf = O -> iso_default d) -> PoolIso s') /\
  ((nf = O -> iso_default d) -> DI d -> reset <> RNone -> (twr = true -> reset = RRollback -> in_txn d = false) -> PoolOk s').
Proof.
  intros d nf twr s. unfold finalize.
  set (s0 := if twr && in_txn d then set_unsound s else s).
  assert (F0 : idle s0 = idle s /\ bad_close s0 = bad_close s /\ nconn s0 = nconn s /\
               (twr_unsound s0 = true -> twr_unsound s = true \/ (twr = true /\ in_txn d = true))).
  { subst s0. destruct twr, (in_txn d); cbn; auto 10. }
  destruct F0 as (F1 & F2 & F3 & F4).
  match goal with |- context [let '(_, _, _) := ?e in _] => destruct e as [[ok d1] s1] eqn:E end.
  assert (G : bad_close s1 = bad_close s /\ nconn s1 = nconn s /\ twr_unsound s1 = twr_unsound s0 /\
              (if ok then (d1 = clean d \/ (d1 = d /\ (reset = RNone \/ (reset = RRollback /\ twr = true)))) else True)).
  { destruct reset.
    - destruct twr.
      + inversion E; subst. repeat split; auto. right. auto.
      + apply db_rollback_spec in E. destruct E as (E1 & E2 & E3 & E4 & E5).
        repeat split; try congruence. destruct ok; auto.
    - apply db_commit_spec in E. destruct E as (E1 & E2 & E3 & E4 & E5).
      repeat split; try congruence. destruct ok; auto.
    - inversion E; subst. repeat split; auto. }
  destruct G as (G1 & G2 & G3 & G4).
  destruct ok.
  - destruct (run_finalizers nf d1 s1) as [d2 s2] eqn:Er. apply run_finalizers_spec in Er.
    destruct Er as (R1 & R2 & R3 & R4 & R5 & R6 & R7).
    cbn. split; [congruence|]. split; [congruence|]. split; [intros; apply F4; congruence|].
    assert (I1 : (nf = O -> iso_default d) -> iso_default d1).
    { intros Hd. destruct G4 as [->|[-> _]].
      - admit.
      - admit. }
    admit.
  - cbn. split; [congruence|]. split; [congruence|]. split; [intros; apply F4; congruence|].
    unfold PoolIso, PoolOk; cbn. auto.
Admitted.
End P.
