(* C24 - proofs about the reset-on-return model *)
From Coq Require Import List ZArith Bool Lia.
Import ListNotations.
From SAV.engine Require Import ResetSeq.
Open Scope Z_scope.

(* connection-level facts *)
Definition DI (d : db) : Prop := dirty d = true -> in_txn d = true.
Definition iso_default (d : db) : Prop := iso d = 0 /\ autoc d = false.
Definition PoolOk (s : st) : Prop := match idle s with Some d => pristine d = true | None => True end.
Definition PoolIso (s : st) : Prop := match idle s with Some d => iso_default d | None => True end.

Lemma pristine_spec : forall d, pristine d = true <-> in_txn d = false /\ dirty d = false /\ iso_default d.
Proof.
  unfold pristine, iso_default; intros d.
  rewrite !andb_true_iff, !negb_true_iff, Z.eqb_eq. tauto.
Qed.

(* frame of the DBAPI calls: only the fault script and the log change *)
Definition Fr (s s' : st) : Prop :=
  idle s' = idle s /\ twr_unsound s' = twr_unsound s /\ nconn s' = nconn s.
Lemma Fr_refl : forall s, Fr s s. Proof. intros; repeat split. Qed.
Lemma Fr_trans : forall a b c, Fr a b -> Fr b c -> Fr a c.
Proof. intros a b c (?&?&?) (?&?&?); repeat split; congruence. Qed.

Lemma next_fault_frame : forall s c s', next_fault s = (c, s') -> Fr s s'.
Proof. unfold next_fault, Fr; intros. destruct (faults s); inversion H; subst; cbn; auto. Qed.

Lemma db_commit_spec : forall d s ok d' s', db_commit d s = (ok, d', s') ->
  Fr s s' /\ (if ok then d' = clean d else d' = d).
Proof.
  unfold db_commit; intros. destruct (next_fault (add_log s 1)) as [c s2] eqn:E.
  apply next_fault_frame in E. destruct (fkbad d || (c =? 1)); inversion H; subst; auto.
Qed.
Lemma db_rollback_spec : forall d s ok d' s', db_rollback d s = (ok, d', s') ->
  Fr s s' /\ (if ok then d' = clean d else d' = d).
Proof.
  unfold db_rollback; intros. destruct (next_fault (add_log s 2)) as [c s2] eqn:E.
  apply next_fault_frame in E. destruct (c =? 1); inversion H; subst; auto.
Qed.

Lemma db_set_iso_spec : forall l d s d' s', db_set_iso l d s = (d', s') ->
  Fr s s' /\ in_txn d' = in_txn d /\ dirty d' = dirty d /\ fkbad d' = fkbad d /\ cid d' = cid d /\ (l = 0 -> iso_default d').
Proof.
  unfold db_set_iso, iso_default, Fr; intros l d s d' s' H. inversion H; subst; clear H.
  destruct (l =? 2) eqn:E; cbn; (split; [auto|]); do 4 (split; [reflexivity|]); intros ->; cbn in E; try discriminate; auto.
Qed.

Lemma run_finalizers_spec : forall n d s d' s', run_finalizers n d s = (d', s') ->
  Fr s s' /\ in_txn d' = in_txn d /\ dirty d' = dirty d /\ ((n <> O \/ iso_default d) -> iso_default d').
Proof.
  induction n; intros d s d' s' H; cbn [run_finalizers] in H.
  - inversion H; subst. split; [apply Fr_refl|]. do 2 (split; [reflexivity|]). intros [?|?]; [congruence|auto].
  - destruct (db_set_iso 0 d s) as [d1 s1] eqn:E. apply db_set_iso_spec in E.
    destruct E as (E1 & E2 & E3 & E4 & E5 & E6). apply IHn in H. destruct H as (H1 & H2 & H3 & H4).
    split; [exact (Fr_trans _ _ _ E1 H1)|]. split; [rewrite H2; exact E2|]. split; [rewrite H3; exact E3|]. intros _. apply H4. right. apply E6. reflexivity.
Qed.

Section P.
Variable reset : rstyle.
Variable kind : pkind.

(* what _finalize_fairy + checkin leave in the pool *)
Lemma finalize_spec : forall d nf twr s,
  let s' := finalize reset kind d nf twr s in
  nconn s' = nconn s /\
  (twr_unsound s' = true -> twr_unsound s = true \/ (twr = true /\ in_txn d = true)) /\
  ((nf = O -> iso_default d) -> PoolIso s') /\
  ((nf = O -> iso_default d) -> DI d -> reset <> RNone -> (twr = true -> reset = RRollback -> in_txn d = false) -> PoolOk s').
Proof.
  intros d nf twr s. unfold finalize.
  set (s0 := if twr && in_txn d then set_unsound s else s).
  assert (F0 : idle s0 = idle s /\ nconn s0 = nconn s /\
               (twr_unsound s0 = true -> twr_unsound s = true \/ (twr = true /\ in_txn d = true))).
  { subst s0. destruct twr, (in_txn d); cbn; auto 10. }
  destruct F0 as (F1 & F3 & F4).
  match goal with |- context [match ?e with (_, _) => _ end] =>
    match type of e with (bool * db * st)%type => destruct e as [[ok d1] s1] eqn:E end end.
  assert (G : Fr s0 s1 /\
              (ok = true -> (d1 = clean d /\ reset <> RNone) \/ (d1 = d /\ (reset = RNone \/ (reset = RRollback /\ twr = true))))).
  { destruct reset.
    - destruct twr.
      + inversion E; subst. split; [apply Fr_refl|]. intros _. right. auto.
      + apply db_rollback_spec in E. destruct E as [E1 E2]. split; [auto|]. intros ->. left. split; [auto|discriminate].
    - apply db_commit_spec in E. destruct E as [E1 E2]. split; [auto|]. intros ->. left. split; [auto|discriminate].
    - inversion E; subst. split; [apply Fr_refl|]. intros _. right. auto. }
  destruct G as ((G1 & G3 & G4) & G5).
  destruct ok.
  - destruct (run_finalizers nf d1 s1) as [d2 s2] eqn:Er. apply run_finalizers_spec in Er.
    destruct Er as ((R1 & R3 & R4) & R5 & R6 & R7).
    cbn. split; [congruence|]. split; [intros; apply F4; congruence|].
    assert (I1 : (nf = O -> iso_default d) -> iso_default d2).
    { intros Hd. apply R7. destruct nf; [right|left; discriminate].
      specialize (Hd eq_refl). destruct (G5 eq_refl) as [[-> _]|[-> _]]; auto. }
    split.
    + intros Hd. unfold PoolIso; cbn. destruct kind; cbn; auto.
    + intros Hd HDI Hr Ht. unfold PoolOk; cbn. destruct kind; cbn; auto;
        apply pristine_spec; (split; [|split; [|auto]]); rewrite ?R5, ?R6;
        destruct (G5 eq_refl) as [[-> _]|[-> [->|[-> ->]]]]; cbn; auto; try congruence;
        try (apply Ht; auto);
        try (destruct (dirty d) eqn:Ed; auto; rewrite HDI in *; auto; rewrite Ht in *; auto; discriminate).
  - cbn. split; [congruence|]. split; [intros; apply F4; congruence|].
    unfold PoolIso, PoolOk; cbn. auto.
Qed.

(* ---- one operation of a user *)
(* every characteristic that was set has a pending finaliser *)
Definition CI (c : cst) : Prop := nfin c = O -> iso_default (cdb c).
(* transaction_was_reset=True never reaches _reset over an open DBAPI transaction *)
Definition Up (s s' : st) : Prop := twr_unsound s' = true -> twr_unsound s = true.

Ltac dd := let X := fresh in intro X; discriminate X.

Lemma Fr_Up : forall s s', Fr s s' -> Up s s'.
Proof. intros s s' (F1 & F2 & F3). unfold Up. rewrite F2. auto. Qed.

Lemma clean_DI : forall d, DI (clean d).
Proof. intros d H. cbn in H. discriminate. Qed.

(* the ways a checkout ends through _finalize_fairy *)
Lemma finalize_end : forall d nf twr s, (nf = O -> iso_default d) -> DI d ->
  (twr = true -> in_txn d = false) ->
  let s' := finalize reset kind d nf twr s in
  Up s s' /\ PoolIso s' /\ (reset <> RNone -> PoolOk s').
Proof.
  intros d nf twr s HC HD Ht. destruct (finalize_spec d nf twr s) as (F2 & F3 & F4 & F5). cbv zeta.
  split; [|split; [auto|]].
  - unfold Up. intros H. destruct (F3 H) as [?|[Hw Hi]]; auto. rewrite Ht in Hi; auto. discriminate.
  - intros Hr. apply F5; auto.
Qed.

Lemma do_op_spec : forall o c s code c' s', do_op reset kind o c s = (code, c', s') ->
  CI c -> DI (cdb c) -> done c = false ->
  CI c' /\ DI (cdb c') /\ Up s s' /\
  (done c' = false -> idle s' = idle s) /\
  (done c' = true -> PoolIso s' /\ (reset <> RNone -> PoolOk s')).
Proof.
  intros o c s code c' s' H HC HD Hdn. unfold CI in *.
  assert (U0 : Up s s) by (apply Fr_Up, Fr_refl).
  destruct c as [d t nf dn]. cbn [cdb txn nfin done] in *. subst dn.
  destruct o; cbn [do_op cdb txn nfin done] in H.
  - (* write *)
    destruct t as [[|]|]; inversion H; subst; clear H; cbn [cdb txn nfin done];
      (split; [|split; [|split; [auto|split; [auto|dd]]]]); auto.
    + intros Hn. specialize (HC Hn). unfold iso_default in *. destruct (autoc d) eqn:Ea; cbn; rewrite ?Ea; tauto.
    + unfold DI in *. destruct (autoc d); cbn; auto.
    + intros Hn. specialize (HC Hn). unfold iso_default in *. destruct (autoc d) eqn:Ea; cbn; rewrite ?Ea; tauto.
    + unfold DI in *. destruct (autoc d); cbn; auto.
  - (* commit *)
    destruct t as [[|]|].
    + destruct (db_commit d s) as [[ok d1] s1] eqn:E. apply db_commit_spec in E. destruct E as [E1 E2].
      destruct ok; subst d1; inversion H; subst; clear H; cbn [cdb txn nfin done].
      * split; [exact HC|]. split; [apply clean_DI|]. split; [apply Fr_Up; auto|]. split; [destruct E1; auto|dd].
      * split; [exact HC|]. split; [exact HD|]. split; [apply Fr_Up; auto|]. split; [destruct E1; auto|dd].
    + inversion H; subst; clear H; cbn [cdb txn nfin done]. split; auto. split; auto. split; auto. split; auto. dd.
    + inversion H; subst; clear H; cbn [cdb txn nfin done]. split; auto. split; auto. split; auto. split; auto. dd.
  - (* rollback *)
    destruct t as [[|]|].
    + destruct (db_rollback d s) as [[ok d1] s1] eqn:E. apply db_rollback_spec in E. destruct E as [E1 E2].
      destruct ok; subst d1; inversion H; subst; clear H; cbn [cdb txn nfin done].
      * split; [exact HC|]. split; [apply clean_DI|]. split; [apply Fr_Up; auto|]. split; [destruct E1; auto|dd].
      * split; [exact HC|]. split; [exact HD|]. split; [apply Fr_Up; auto|]. split; [destruct E1; auto|dd].
    + inversion H; subst; clear H; cbn [cdb txn nfin done]. split; auto. split; auto. split; auto. split; auto. dd.
    + inversion H; subst; clear H; cbn [cdb txn nfin done]. split; auto. split; auto. split; auto. split; auto. dd.
  - (* isolation level *)
    destruct t as [[|]|]; try (inversion H; subst; clear H; cbn; split; auto; split; auto; split; auto; split; auto; dd).
    + destruct (db_set_iso 1 d s) as [d1 s1] eqn:E. apply db_set_iso_spec in E. destruct E as (E1 & E2 & E3 & E4 & E5 & E6).
      inversion H; subst; clear H; cbn. split; [dd|]. split; [unfold DI; rewrite E2, E3; auto|].
      split; [apply Fr_Up; auto|]. split; [destruct E1; auto|dd].
    + destruct (db_set_iso 1 d s) as [d1 s1] eqn:E. apply db_set_iso_spec in E. destruct E as (E1 & E2 & E3 & E4 & E5 & E6).
      inversion H; subst; clear H; cbn. split; [dd|]. split; [unfold DI; rewrite E2, E3; auto|].
      split; [apply Fr_Up; auto|]. split; [destruct E1; auto|dd].
  - (* autocommit *)
    destruct t as [[|]|]; try (inversion H; subst; clear H; cbn; split; auto; split; auto; split; auto; split; auto; dd).
    + destruct (db_set_iso 2 d s) as [d1 s1] eqn:E. apply db_set_iso_spec in E. destruct E as (E1 & E2 & E3 & E4 & E5 & E6).
      inversion H; subst; clear H; cbn. split; [dd|]. split; [unfold DI; rewrite E2, E3; auto|].
      split; [apply Fr_Up; auto|]. split; [destruct E1; auto|dd].
    + destruct (db_set_iso 2 d s) as [d1 s1] eqn:E. apply db_set_iso_spec in E. destruct E as (E1 & E2 & E3 & E4 & E5 & E6).
      inversion H; subst; clear H; cbn. split; [dd|]. split; [unfold DI; rewrite E2, E3; auto|].
      split; [apply Fr_Up; auto|]. split; [destruct E1; auto|dd].
  - (* failing statement *)
    destruct t as [[|]|]; inversion H; subst; clear H; cbn; split; auto; split; auto; split; auto; split; auto; dd.
  - (* begin *)
    destruct t as [[|]|]; inversion H; subst; clear H; cbn; split; auto; split; auto; split; auto; split; auto; dd.
  - (* write violating a deferred constraint *)
    destruct t as [[|]|]; inversion H; subst; clear H; cbn [cdb txn nfin done];
      (split; [|split; [|split; [auto|split; [auto|dd]]]]); auto.
    + intros Hn. specialize (HC Hn). unfold iso_default in *. destruct (autoc d) eqn:Ea; cbn; rewrite ?Ea; tauto.
    + unfold DI in *. destruct (autoc d); cbn; auto.
    + intros Hn. specialize (HC Hn). unfold iso_default in *. destruct (autoc d) eqn:Ea; cbn; rewrite ?Ea; tauto.
    + unfold DI in *. destruct (autoc d); cbn; auto.
  - (* close *)
    destruct t as [[|]|].
    + destruct (db_rollback d s) as [[ok d1] s1] eqn:E. apply db_rollback_spec in E. destruct E as [E1 E2].
      destruct ok; subst; inversion H; subst; clear H; cbn [cdb done nfin txn].
      * destruct (finalize_end (clean d) nf true s1) as (G1 & G2 & G3); auto; [apply clean_DI|].
        split; auto. split; [apply clean_DI|]. split; [|split; [dd|auto]].
        destruct E1 as (F1 & F2 & F3). unfold Up in *. rewrite <- F2. exact G1.
      * split; auto. split; auto. split; [apply Fr_Up; auto|]. split; [destruct E1; auto|dd].
    + inversion H; subst; clear H; cbn [cdb done nfin txn].
      destruct (finalize_end d nf false s) as (G1 & G2 & G3); auto; [intros; discriminate|].
      split; auto. split; auto. split; auto. split; [dd|auto].
    + inversion H; subst; clear H; cbn [cdb done nfin txn].
      destruct (finalize_end d nf false s) as (G1 & G2 & G3); auto; [intros; discriminate|].
      split; auto. split; auto. split; auto. split; [dd|auto].
  - (* drop: the weakref callback *)
    inversion H; subst; clear H; cbn [cdb done nfin txn].
    destruct (finalize_end d nf false s) as (G1 & G2 & G3); auto; [intros; discriminate|].
    split; auto. split; auto. split; auto. split; [dd|auto].
  - (* invalidate *)
    inversion H; subst; clear H; cbn [cdb done nfin txn].
    split; auto. split; auto. split; [unfold Up; cbn; auto|]. split; [dd|].
    intros _. unfold PoolIso, PoolOk; cbn. auto.
Qed.

Lemma Up_trans : forall a b c, Up a b -> Up b c -> Up a c.
Proof.
  unfold Up; intros a b c A B H. auto.
Qed.

Lemma do_ops_spec : forall ops c s codes codes' c' s', do_ops reset kind ops c s codes = (codes', c', s') ->
  CI c -> DI (cdb c) -> done c = false ->
  CI c' /\ DI (cdb c') /\ Up s s' /\
  (done c' = false -> idle s' = idle s) /\
  (done c' = true -> PoolIso s' /\ (reset <> RNone -> PoolOk s')).
Proof.
  induction ops as [|o r IH]; intros c s codes codes' c' s' H HC HD Hd; cbn [do_ops] in H.
  - inversion H; subst. split; [exact HC|]. split; [exact HD|]. split; [apply Fr_Up, Fr_refl|]. split; [reflexivity|]. rewrite Hd. dd.
  - destruct (do_op reset kind o c s) as [[code c1] s1] eqn:E.
    destruct (do_op_spec _ _ _ _ _ _ E HC HD Hd) as (A1 & A2 & A3 & A4 & A5).
    destruct (done c1) eqn:Ed.
    + inversion H; subst. rewrite Ed. split; [exact A1|]. split; [exact A2|]. split; [exact A3|]. split; [dd|intros _; apply A5; reflexivity].
    + destruct (IH _ _ _ _ _ _ H A1 A2 Ed) as (B1 & B2 & B3 & B4 & B5).
      split; [exact B1|]. split; [exact B2|]. split; [eapply Up_trans; eauto|]. split; [|exact B5].
      intros Hf. rewrite B4, A4; auto.
Qed.

(* the connection kept by the pool always satisfies dirty -> in_txn and has default characteristics *)
Definition PoolDI (s : st) : Prop := match idle s with Some d => DI d | None => True end.

Lemma finalize_DI : forall d nf twr s, DI d -> PoolDI (finalize reset kind d nf twr s).
Proof.
  intros d nf twr s HD. unfold finalize.
  set (s0 := if twr && in_txn d then set_unsound s else s).
  match goal with |- context [match ?e with (_, _) => _ end] =>
    match type of e with (bool * db * st)%type => destruct e as [[ok d1] s1] eqn:E end end.
  assert (G : ok = true -> d1 = clean d \/ d1 = d).
  { destruct reset.
    - destruct twr; [inversion E; auto|]. apply db_rollback_spec in E. destruct E as [_ E2]. intros ->; auto.
    - apply db_commit_spec in E. destruct E as [_ E2]. intros ->; auto.
    - inversion E; auto. }
  destruct ok; [|unfold PoolDI; cbn; auto].
  destruct (run_finalizers nf d1 s1) as [d2 s2] eqn:Er. apply run_finalizers_spec in Er.
  destruct Er as (Rf & R5 & R6 & R7).
  assert (D2 : DI d2).
  { unfold DI. rewrite R5, R6. destruct (G eq_refl) as [Hg|Hg]; rewrite Hg; [apply clean_DI|exact HD]. }
  unfold PoolDI. cbn. destruct kind; cbn; auto.
Qed.

Lemma do_op_DI : forall o c s code c' s', do_op reset kind o c s = (code, c', s') ->
  DI (cdb c) -> PoolDI s -> done c = false -> done c' = true -> PoolDI s'.
Proof.
  intros o c s code c' s' H HD HP Hd0 Hdn. destruct c as [d t nf dn]. cbn [cdb done] in *. subst dn.
  assert (ND : forall c1, done c1 = false -> (code, c1, s') = (code, c', s') -> False)
    by (intros c1 Hc1 Heq; inversion Heq; subst; congruence).
  destruct o; cbn [do_op cdb txn nfin done] in H.
  - exfalso. destruct t as [[|]|]; inversion H; subst; cbn in Hdn; discriminate Hdn.
  - exfalso. destruct t as [[|]|]; [destruct (db_commit d s) as [[[|] d1] s1]| |]; inversion H; subst; cbn in Hdn; discriminate Hdn.
  - exfalso. destruct t as [[|]|]; [destruct (db_rollback d s) as [[[|] d1] s1]| |]; inversion H; subst; cbn in Hdn; discriminate Hdn.
  - exfalso. destruct t as [[|]|]; [|destruct (db_set_iso 1 d s) as [d1 s1]|destruct (db_set_iso 1 d s) as [d1 s1]];
      inversion H; subst; cbn in Hdn; discriminate Hdn.
  - exfalso. destruct t as [[|]|]; [|destruct (db_set_iso 2 d s) as [d1 s1]|destruct (db_set_iso 2 d s) as [d1 s1]];
      inversion H; subst; cbn in Hdn; discriminate Hdn.
  - exfalso. destruct t as [[|]|]; inversion H; subst; cbn in Hdn; discriminate Hdn.
  - exfalso. destruct t as [[|]|]; inversion H; subst; cbn in Hdn; discriminate Hdn.
  - exfalso. destruct t as [[|]|]; inversion H; subst; cbn in Hdn; discriminate Hdn.
  - (* close *)
    destruct t as [[|]|].
    + destruct (db_rollback d s) as [[ok d1] s1] eqn:E. apply db_rollback_spec in E. destruct E as [E1 E2].
      destruct ok; subst; inversion H; subst; [|cbn in Hdn; discriminate].
      apply finalize_DI, clean_DI.
    + inversion H; subst. apply finalize_DI; auto.
    + inversion H; subst. apply finalize_DI; auto.
  - inversion H; subst. apply finalize_DI; auto.
  - inversion H; subst. unfold PoolDI; cbn; auto.
Qed.

Lemma do_ops_DI : forall ops c s codes codes' c' s', do_ops reset kind ops c s codes = (codes', c', s') ->
  CI c -> DI (cdb c) -> done c = false -> PoolDI s -> done c' = true -> PoolDI s'.
Proof.
  induction ops as [|o r IH]; intros c s codes codes' c' s' H HC HD Hd HP Hdn; cbn [do_ops] in H.
  - inversion H; subst. congruence.
  - destruct (do_op reset kind o c s) as [[code c1] s1] eqn:E.
    destruct (do_op_spec _ _ _ _ _ _ E HC HD Hd) as (A1 & A2 & A3 & A4 & A5).
    destruct (done c1) eqn:Ed.
    + inversion H; subst. eapply do_op_DI; eauto.
    + eapply IH; eauto. unfold PoolDI. rewrite A4; auto.
Qed.

(* ---- one user *)
Definition PoolAll (s : st) : Prop := PoolIso s /\ PoolDI s /\ (reset <> RNone -> PoolOk s).

Lemma checkout_spec : forall s, PoolAll s ->
  let d := fst (checkout s) in let s0 := snd (checkout s) in
  iso_default d /\ DI d /\ (reset <> RNone -> pristine d = true) /\
  idle s0 = None /\ twr_unsound s0 = twr_unsound s.
Proof.
  intros s (P1 & P2 & P3). unfold checkout, PoolIso, PoolDI, PoolOk in *. destruct (idle s) as [d|]; cbn.
  - split; [exact P1|]. split; [exact P2|]. split; [exact P3|]. repeat split.
  - split; [split; reflexivity|]. split; [intros H; discriminate H|]. split; [reflexivity|]. repeat split.
Qed.

Lemma user_spec : forall ops s, PoolAll s ->
  let s' := snd (user reset kind ops s) in
  PoolAll s' /\ Up s s'.
Proof.
  intros ops s HP. unfold user.
  destruct (checkout_spec s HP) as (C1 & C2 & C3 & C4 & C6).
  destruct (checkout s) as [d s0] eqn:Ec. cbn [fst snd] in *.
  set (s1 := mkst (idle s0) (nconn s0) (faults s0) [] (twr_unsound s0)).
  destruct (do_ops reset kind ops (mkcst d None O false) s1 []) as [[codes c] s2] eqn:E.
  assert (HC : CI (mkcst d None O false)) by (intros _; exact C1).
  destruct (do_ops_spec _ _ _ _ _ _ _ E HC C2 eq_refl) as (A1 & A2 & A3 & A4 & A5).
  assert (U01 : Up s s1) by (unfold Up; subst s1; cbn; rewrite C6; auto).
  cbn [snd]. destruct (done c) eqn:Ed.
  - destruct (A5 eq_refl) as [B1 B2]. split; [|eapply Up_trans; eauto].
    split; [exact B1|]. split; [|exact B2].
    eapply do_ops_DI; eauto. unfold PoolDI; subst s1; cbn. rewrite C4. exact I.
  - (* never returned: the garbage collector finalises the fairy *)
    destruct (finalize_end (cdb c) (nfin c) false s2 A1 A2) as (G1 & G2 & G3); [intros; discriminate|].
    split; [|eapply Up_trans; [exact U01|]; eapply Up_trans; eauto].
    split; [exact G2|]. split; [apply finalize_DI; auto|exact G3].
Qed.

Lemma run_spec : forall us s, PoolAll s -> PoolAll (run reset kind us s) /\ Up s (run reset kind us s).
Proof.
  induction us as [|u r IH]; intros s HP; cbn [run].
  - split; auto. apply Fr_Up, Fr_refl.
  - destruct (user_spec u s HP) as [A1 A2]. destruct (IH _ A1) as [B1 B2]. split; auto. eapply Up_trans; eauto.
Qed.

Lemma init_PoolAll : forall fl, PoolAll (init fl).
Proof. intros; unfold PoolAll, PoolIso, PoolDI, PoolOk; cbn; auto. Qed.

(* ---------------------------------------------------------------- the theorems *)
(* clean_on_checkout: with reset_on_return enabled, for every history of users and every fault
   script, the connection handed to the next checkout is pristine *)
Theorem clean_on_checkout : reset <> RNone -> forall us fl,
  pristine (next_checkout (run reset kind us (init fl))) = true.
Proof.
  intros Hr us fl. destruct (run_spec us _ (init_PoolAll fl)) as [HP _].
  destruct (checkout_spec _ HP) as (_ & _ & C3 & _). exact (C3 Hr).
Qed.

(* characteristics_restored: whatever the reset style: the next checkout sees the default isolation
   level / autocommit setting *)
Theorem characteristics_restored : forall us fl,
  iso_default (next_checkout (run reset kind us (init fl))).
Proof.
  intros us fl. destruct (run_spec us _ (init_PoolAll fl)) as [HP _].
  destruct (checkout_spec _ HP) as (C1 & _). exact C1.
Qed.

(* ... and while a connection is checked out every characteristic that was set has a pending finaliser *)
Theorem finaliser_pending : forall ops d s codes c s',
  iso_default d -> DI d ->
  do_ops reset kind ops (mkcst d None O false) s [] = (codes, c, s') ->
  nfin c = O -> iso_default (cdb c).
Proof.
  intros ops d s codes c s' Hd HD H.
  assert (HC : CI (mkcst d None O false)) by (intros _; exact Hd).
  destruct (do_ops_spec _ _ _ _ _ _ _ H HC HD eq_refl) as (A1 & _). exact A1.
Qed.

(* reset_exactly_once_or_skipped_soundly: transaction_was_reset=True never reaches _reset over an open
   DBAPI transaction *)
Theorem reset_skipped_soundly : forall us fl,
  twr_unsound (run reset kind us (init fl)) = false.
Proof.
  intros us fl. destruct (run_spec us _ (init_PoolAll fl)) as [_ U].
  destruct (twr_unsound (run reset kind us (init fl))) eqn:E; auto. apply U in E. cbn in E. discriminate.
Qed.

End P.
