(* C25: interleaving model of QueuePool (pool/impl.py _do_get / _inc_overflow / _dec_overflow /
   _do_return_conn over util/queue.py Queue.get / put).

   Granularity: every critical section (Queue mutex, _overflow_lock) is one atomic step of one thread;
   the unlocked reads of _overflow in _do_get are separate steps; for max_overflow = -1 the unlocked
   "+= 1" / "-= 1" are split into read and write steps.  Any thread may move at any time: the
   theorems quantify over all schedules of any number of threads.  A blocking Queue.get may wake up
   (notify, timeout or spuriously) at any time: that over-approximates condition variables and time. *)
From Coq Require Import List ZArith Bool Lia Arith.
Import ListNotations.
Open Scope Z_scope.

Definition conn := nat.

Inductive pc :=
| Idle
| G1                 (* _do_get: about to read _overflow (unlocked) to compute `wait` *)
| G2 (wait : bool)   (* about to enter self._pool.get(wait, timeout) *)
| GW                 (* blocked inside Queue.get (waiting on not_empty) *)
| G3 (wait : bool)   (* got Empty; about to re-read _overflow (unlocked) *)
| GE                 (* timed out: TimeoutError message reads overflow() once more *)
| G4                 (* about to run _inc_overflow under _overflow_lock *)
| G5                 (* slot reserved; about to create the connection *)
| G6                 (* creation failed; about to _dec_overflow *)
| Holding (c : conn)
| R1 (c : conn)      (* _do_return_conn: about to put(record, False) *)
| R2 (c : conn)      (* got Full; about to close the record *)
| R3                 (* closed; about to _dec_overflow *)
(* max_overflow = -1 : unlocked read-modify-write *)
| U4 | U4w (v : Z)   (* _inc_overflow: about to read / has read v, about to write v+1 *)
| U6 | U6w (v : Z)   (* _dec_overflow after a failed create *)
| U3 | U3w (v : Z).  (* _dec_overflow after closing an overflow connection *)

Record shared := { queue : list conn; overflow : Z; held : list (nat * conn) }.
(* the open connections are exactly the idle ones and the held ones *)
Definition opened (s : shared) : list conn := queue s ++ map snd (held s).
Record cfg := { pool_size : Z; max_overflow : Z; lifo : bool }.
Definition state := (shared * list pc)%type.

Fixpoint upd (ts : list pc) (i : nat) (p : pc) : list pc :=
  match ts, i with [] , _ => [] | _ :: r, O => p :: r | x :: r, S j => x :: upd r j p end.

Definition qlen (s : shared) : Z := Z.of_nat (length (queue s)).

(* Queue._get : popleft (FIFO) or pop (LIFO); Queue._put : append *)
Definition qpop (l : bool) (q : list conn) : option (conn * list conn) :=
  if l then match rev q with [] => None | c :: r => Some (c, rev r) end
  else match q with [] => None | c :: r => Some (c, r) end.

Definition remove_pair (i : nat) (c : conn) (h : list (nat * conn)) : list (nat * conn) :=
  filter (fun p => negb (Nat.eqb (fst p) i && Nat.eqb (snd p) c)) h.

Inductive ev :=
| EStart (i : nat)                 (* thread i calls pool.connect() *)
| ERd1 (i : nat) (v : Z)           (* first unlocked read of _overflow *)
| EQGet (i : nat) (c : conn)       (* Queue.get returned c (first try or after waiting) *)
| EQEmpty (i : nat)                (* Queue.get raised Empty (non-blocking, or timed out) *)
| EQWait (i : nat)                 (* Queue.get blocked on not_empty *)
| ERd2 (i : nat) (v : Z)           (* second unlocked read of _overflow *)
| EInc (i : nat) (b : bool)        (* _inc_overflow under the lock returned b *)
| ECreate (i : nat) (c : conn) (ok : bool)
| EDec (i : nat)                   (* _dec_overflow under the lock *)
| ERelease (i : nat)               (* thread i starts returning its connection *)
| EQPut (i : nat)                  (* Queue.put succeeded *)
| EQFull (i : nat)                 (* Queue.put raised Full *)
| EClose (i : nat)
| EURd (i : nat) (v : Z)           (* max_overflow = -1: unlocked read of _overflow for += / -= *)
| EUWr (i : nat) (v : Z).          (* ... and the write back *)

Section M.
Variable c : cfg.

Definition use_overflow : bool := (-1 <? max_overflow c).

Definition set_ov s v := {| queue := queue s; overflow := v; held := held s |}.

(* executable acceptor: one event of one thread *)
Definition stepf (st : state) (e : ev) : option state :=
  let (s, ts) := st in
  match e with
  | EStart i =>
      match nth_error ts i with
      | Some Idle => Some (s, upd ts i (if use_overflow then G1 else G2 false))
      | _ => None end
  | ERd1 i v =>
      match nth_error ts i with
      | Some G1 => if Z.eqb v (overflow s) then Some (s, upd ts i (G2 (max_overflow c <=? v))) else None
      | Some GE => if Z.eqb v (overflow s) then Some (s, upd ts i Idle) else None
      | _ => None end
  | EQGet i x =>
      match nth_error ts i with
      | Some (G2 _) | Some GW =>
          match qpop (lifo c) (queue s) with
          | Some (y, q') =>
              if Nat.eqb x y
              then Some ({| queue := q'; overflow := overflow s; held := (i, x) :: held s |},
                         upd ts i (Holding x))
              else None
          | None => None end
      | _ => None end
  | EQEmpty i =>
      match nth_error ts i, queue s with
      | Some (G2 w), [] => Some (s, upd ts i (if use_overflow then G3 w else U4))
      | Some GW, [] => Some (s, upd ts i (G3 true))
      | _, _ => None end
  | EQWait i =>
      match nth_error ts i, queue s with
      | Some (G2 true), [] => Some (s, upd ts i GW)
      | Some GW, [] => Some (s, ts)
      | _, _ => None end
  | ERd2 i v =>
      match nth_error ts i with
      | Some (G3 w) =>
          if negb (Z.eqb v (overflow s)) then None
          else if use_overflow && (max_overflow c <=? v)
               then Some (s, upd ts i (if w then GE else G1))        (* TimeoutError / retry *)
               else Some (s, upd ts i G4)
      | _ => None end
  | EInc i b =>
      match nth_error ts i with
      | Some G4 =>
          if negb use_overflow then None
          else if overflow s <? max_overflow c
               then if b then Some (set_ov s (overflow s + 1), upd ts i G5) else None
               else if b then None else Some (s, upd ts i G1)
      | _ => None end
  | ECreate i x ok =>
      match nth_error ts i with
      | Some G5 =>
          if ok then
            if existsb (Nat.eqb x) (opened s) then None
            else Some ({| queue := queue s; overflow := overflow s; held := (i, x) :: held s |},
                      upd ts i (Holding x))
          else Some (s, upd ts i (if use_overflow then G6 else U6))
      | _ => None end
  | EDec i =>
      match nth_error ts i with
      | Some G6 | Some R3 => if use_overflow then Some (set_ov s (overflow s - 1), upd ts i Idle) else None
      | _ => None end
  | ERelease i =>
      match nth_error ts i with
      | Some (Holding x) => Some (s, upd ts i (R1 x))
      | _ => None end
  | EQPut i =>
      match nth_error ts i with
      | Some (R1 x) =>
          if qlen s <? pool_size c
          then Some ({| queue := queue s ++ [x]; overflow := overflow s;
                        held := remove_pair i x (held s) |}, upd ts i Idle)
          else None
      | _ => None end
  | EQFull i =>
      match nth_error ts i with
      | Some (R1 x) => if qlen s <? pool_size c then None else Some (s, upd ts i (R2 x))
      | _ => None end
  | EClose i =>
      match nth_error ts i with
      | Some (R2 x) =>
          Some ({| queue := queue s; overflow := overflow s; held := remove_pair i x (held s) |},
                upd ts i (if use_overflow then R3 else U3))
      | _ => None end
  | EURd i v =>
      if use_overflow then None else
      if negb (Z.eqb v (overflow s)) then None else
      match nth_error ts i with
      | Some U4 => Some (s, upd ts i (U4w v))
      | Some U6 => Some (s, upd ts i (U6w v))
      | Some U3 => Some (s, upd ts i (U3w v))
      | _ => None end
  | EUWr i v =>
      if use_overflow then None else
      match nth_error ts i with
      | Some (U4w v0) => if Z.eqb v (v0 + 1) then Some (set_ov s v, upd ts i G5) else None
      | Some (U6w v0) | Some (U3w v0) => if Z.eqb v (v0 - 1) then Some (set_ov s v, upd ts i Idle) else None
      | _ => None end
  end.

Fixpoint run (st : state) (tr : list ev) : option state :=
  match tr with
  | [] => Some st
  | e :: r => match stepf st e with Some st' => run st' r | None => None end
  end.

Definition init (n : nat) : state :=
  ({| queue := []; overflow := - pool_size c; held := [] |}, repeat Idle n).

Definition reach (st : state) : Prop := exists n tr, run (init n) tr = Some st.
End M.
