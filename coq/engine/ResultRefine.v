(* C10 - simulation between the model of the implementation (ResultModel.istep) and the list model
   (ResultSpec.sstep), lifted to arbitrary operation sequences *)
From Coq Require Import List ZArith Bool Arith Lia.
Import ListNotations.
From SAV.engine Require Import ResultModel ResultSpec ResultFetchProofs ResultViewProofs ResultOnlyOneProofs.

Definition erase (v : view) : sview := {| skind := kind v; scols := cols v; sufs := ufs v |}.
(* every memoised attribute agrees with the view's current uniqueness state *)
Definition memo_ok (v : view) : Prop :=
  (forall m, mu v = Some m -> ufs v = Some m) /\ (forall g c, slot_of g v = Some c -> c = ufs v).

Record R (i : istate) (s : sstate) : Prop := mkR {
  R_rem : rem s = remaining (fs i);
  R_closed : sclosed s = hardc (fs i);
  R_yp : syp s = yp i;
  R_hp : shp s = hp i;
  R_root : sroot s = erase (rootv i);
  R_fview : sfview s = option_map erase (fview i);
  R_wf : fwf (fs i);
  R_rootmemo : memo_ok (rootv i);
  R_fmemo : forall v, fview i = Some v -> memo_ok v;
  R_rootkind : kind (rootv i) = VRoot;
  R_uroot : u_ok (hp i) (ufs (rootv i));
  R_ufview : forall v, fview i = Some v -> u_ok (hp i) (ufs v) }.

(* ---------- small facts ---------- *)
Lemma eff_u_memo_ok v : memo_ok v -> eff_u v = ufs v.
Proof.
  intros [M _]. unfold eff_u. destruct (ufs v) as [u|] eqn:U; auto.
  destruct (mu v) as [m|] eqn:E; auto. specialize (M m eq_refl). congruence.
Qed.
Lemma memo_ok_mkview k c u : memo_ok (mkview k c u).
Proof. split; [cbn; intros; discriminate|]. intros [] c0; cbn; intros; discriminate. Qed.
Lemma erase_eq v1 v : kind v1 = kind v -> cols v1 = cols v -> ufs v1 = ufs v -> erase v1 = erase v.
Proof. unfold erase. intros -> -> ->. reflexivity. Qed.

Lemma touch_mu_fields v :
  kind (touch_mu v) = kind v /\ cols (touch_mu v) = cols v /\ ufs (touch_mu v) = ufs v /\
  g_one (touch_mu v) = g_one v /\ g_many (touch_mu v) = g_many v /\ g_iter (touch_mu v) = g_iter v /\
  mu (touch_mu v) = match ufs v, mu v with Some u, None => Some u | _, _ => mu v end.
Proof. unfold touch_mu. destruct (ufs v) eqn:E1, (mu v) eqn:E2; cbn; rewrite ?E1, ?E2; repeat split; reflexivity. Qed.
Lemma touch_mu_memo_ok v : memo_ok v -> memo_ok (touch_mu v).
Proof.
  intros [M S]. destruct (touch_mu_fields v) as [_ [_ [U [G1 [G2 [G3 Mu]]]]]]. split.
  - intros m Hm. rewrite Mu in Hm. rewrite U. destruct (ufs v) as [u|] eqn:E.
    + destruct (mu v) eqn:E2; [apply M; exact Hm|congruence].
    + apply M. exact Hm.
  - intros g c. rewrite U. destruct g; cbn [slot_of]; rewrite ?G1, ?G2, ?G3; intros Hc;
      [apply (S GOne)|apply (S GMany)|apply (S GIter)]; exact Hc.
Qed.

Lemma use_getter_fields g v cu v1 : use_getter g v = (cu, v1) ->
  kind v1 = kind v /\ cols v1 = cols v /\ ufs v1 = ufs v.
Proof.
  unfold use_getter. destruct (slot_of g v).
  - intros H; inversion H; subst; auto.
  - destruct (touch_mu_fields v) as [K [C [U _]]].
    intros H; inversion H; subst. destruct g; cbn; auto.
Qed.
Lemma use_getter_memo_ok g v cu v1 : use_getter g v = (cu, v1) -> memo_ok v -> memo_ok v1 /\ cu = ufs v.
Proof.
  unfold use_getter. intros H Mo. destruct (slot_of g v) as [c|] eqn:S.
  - inversion H; subst. split; [exact Mo|]. destruct Mo as [_ S']. apply (S' g). exact S.
  - pose proof (eff_u_memo_ok v Mo) as Ef. pose proof (touch_mu_memo_ok v Mo) as [M1 S1].
    destruct (touch_mu_fields v) as [K [C [U [G1 [G2 [G3 Mu]]]]]].
    inversion H; subst. split; [|exact Ef]. split.
    + destruct g; cbn [mu ufs]; exact M1.
    + intros g' c'. destruct g, g'; cbn [slot_of g_one g_many g_iter ufs]; intros Hc;
        try (inversion Hc; subst; rewrite U; exact Ef);
        first [apply (S1 GOne); exact Hc | apply (S1 GMany); exact Hc | apply (S1 GIter); exact Hc].
Qed.

Lemma scur_erase i s : R i s -> scur s = erase (cur_view i).
Proof.
  intros H. unfold scur, cur_view. rewrite (R_fview _ _ H), (R_root _ _ H). destruct (fview i); reflexivity.
Qed.
Lemma cur_u_ok i s : R i s -> u_ok (hp i) (ufs (cur_view i)).
Proof.
  intros H. unfold cur_view. destruct (fview i) eqn:F; [apply (R_ufview _ _ H); exact F|apply (R_uroot _ _ H)].
Qed.
Lemma cur_memo i s : R i s -> memo_ok (cur_view i).
Proof.
  intros H. unfold cur_view. destruct (fview i) eqn:F; [apply (R_fmemo _ _ H); exact F|apply (R_rootmemo _ _ H)].
Qed.
Lemma cur_kind_root i s : R i s -> fview i = None -> kind (cur_view i) = VRoot.
Proof. intros H F. unfold cur_view. rewrite F. apply (R_rootkind _ _ H). Qed.
Lemma u_ok_len h h' u : length h' = length h -> u_ok h u -> u_ok h' u.
Proof. unfold u_ok. destruct u; auto. intros ->. auto. Qed.

(* rebuilding R after a call that replaced the fetch state, the seen-sets and the current view's memo *)
Lemma R_fetch i s v1 f1 h1 r cl :
  R i s -> kind v1 = kind (cur_view i) -> cols v1 = cols (cur_view i) -> ufs v1 = ufs (cur_view i) ->
  memo_ok v1 ->
  remaining f1 = r -> hardc f1 = cl -> fwf f1 -> length h1 = length (hp i) ->
  R (with_fetch i v1 f1 h1)
    {| rem := r; sclosed := cl; syp := syp s; shp := h1; sroot := sroot s; sfview := sfview s |}.
Proof.
  intros H K C U M Hr Hcl W L.
  pose proof (erase_eq _ _ K C U) as Er.
  unfold with_fetch, set_cur_view, cur_view in *. cbn [fview].
  destruct (fview i) as [v0|] eqn:F.
  - constructor; cbn [fs yp hp rootv fview rem sclosed syp shp sroot sfview]; auto.
    + apply (R_yp _ _ H).
    + apply (R_root _ _ H).
    + rewrite (R_fview _ _ H), F. cbn. f_equal. symmetry. exact Er.
    + apply (R_rootmemo _ _ H).
    + intros v Hv. inversion Hv; subst. exact M.
    + apply (R_rootkind _ _ H).
    + apply (u_ok_len (hp i)); [exact L|apply (R_uroot _ _ H)].
    + intros v Hv. inversion Hv; subst. rewrite U. apply (u_ok_len (hp i)); [exact L|]. apply (R_ufview _ _ H v0 F).
  - constructor; cbn [fs yp hp rootv fview rem sclosed syp shp sroot sfview]; auto.
    + apply (R_yp _ _ H).
    + rewrite (R_root _ _ H). symmetry. exact Er.
    + rewrite (R_fview _ _ H), F. reflexivity.
    + intros v Hv. discriminate.
    + rewrite K. apply (R_rootkind _ _ H).
    + rewrite U. apply (u_ok_len (hp i)); [exact L|apply (R_uroot _ _ H)].
    + intros v Hv. discriminate.
Qed.

(* only the memo of the current view changed *)
Lemma R_getter i s g cu v1 : R i s -> use_getter g (cur_view i) = (cu, v1) ->
  R (with_fetch i v1 (fs i) (hp i)) s.
Proof.
  intros H E. destruct (use_getter_fields _ _ _ _ E) as [K [C U]].
  assert (M : memo_ok v1) by apply (use_getter_memo_ok _ _ _ _ E (cur_memo i s H)).
  pose proof (R_fetch i s v1 (fs i) (hp i) (rem s) (sclosed s) H K C U M
                (eq_sym (R_rem _ _ H)) (eq_sym (R_closed _ _ H)) (R_wf _ _ H) eq_refl) as H'.
  rewrite <- (R_hp _ _ H) in H' at 2. destruct s; exact H'.
Qed.

(* the uniqueness state a (possibly memoised) getter works with is the view's current one *)
Lemma getter_cfg i s g cu v1 : R i s -> use_getter g (cur_view i) = (cu, v1) -> cu = ufs (cur_view i).
Proof. intros H E. apply (use_getter_memo_ok _ _ _ _ E (cur_memo i s H)). Qed.

Lemma deliver_unfold i s n : R i s ->
  deliver (scur s) n s =
  (let '(d, r, h) := adeliver (ufs (cur_view i)) (cols (cur_view i)) n (remaining (fs i)) (hp i) in
   (d, {| rem := r; sclosed := sclosed s; syp := syp s; shp := h; sroot := sroot s; sfview := sfview s |})).
Proof.
  intros H. unfold deliver. rewrite (scur_erase i s H). cbn [erase sufs scols].
  rewrite (R_rem _ _ H), (R_hp _ _ H). reflexivity.
Qed.

Lemma adeliver_len cu c n rm h d r h' : adeliver cu c n rm h = (d, r, h') -> length h' = length h.
Proof. intros A. pose proof (adeliver_heap_length cu c n rm h) as L. rewrite A in L. exact L. Qed.

(* ---------- the row-delivering calls, result not closed ---------- *)
Section Open.
Variables (i : istate) (s : sstate).
Hypothesis HR : R i s.
Hypothesis Hopen : hardc (fs i) = false.
Let v := cur_view i.

Lemma Hsopen : sclosed s = false.
Proof. rewrite (R_closed _ _ HR). exact Hopen. Qed.

Lemma sim_getter_state g cu v1 f1 h1 r :
  use_getter g v = (cu, v1) -> remaining f1 = r -> hardc f1 = false -> length h1 = length (hp i) ->
  R (with_fetch i v1 f1 h1)
    {| rem := r; sclosed := sclosed s; syp := syp s; shp := h1; sroot := sroot s; sfview := sfview s |}.
Proof.
  intros E Hr Hc L. destruct (use_getter_fields _ _ _ _ E) as [K [C U]].
  rewrite Hsopen. apply R_fetch; auto.
  - apply (use_getter_memo_ok _ _ _ _ E (cur_memo i s HR)).
  - apply fwf_open. exact Hc.
Qed.

Lemma sim_onerow cu v1 : use_getter GOne v = (cu, v1) ->
  exists f1 h1 d s1, onerow cu (cols v) (fs i) (hp i) = (f1, h1, Ok (hd_error d)) /\
    deliver (scur s) 1 s = (d, s1) /\ R (with_fetch i v1 f1 h1) s1.
Proof.
  intros E. pose proof (getter_cfg i s _ _ _ HR E) as Hcu. fold v in Hcu. subst cu.
  rewrite (deliver_unfold i s 1 HR). fold v.
  destruct (adeliver (ufs v) (cols v) 1 (remaining (fs i)) (hp i)) as [[d r] h'] eqn:A.
  destruct (onerow_ok _ _ _ _ _ _ _ Hopen A) as [f1 [E1 [R1 Hc1]]].
  exists f1, h', d. eexists. split; [exact E1|]. split; [reflexivity|].
  apply (sim_getter_state GOne _ _ _ _ _ E R1 Hc1 (adeliver_len _ _ _ _ _ _ _ _ A)).
Qed.

Lemma sim_iter k cu v1 : use_getter GIter v = (cu, v1) ->
  exists f1 h1 d s1, iter_loop k cu (cols v) (fs i) (hp i) [] = (f1, h1, Ok (d, length d <? k)) /\
    deliver (scur s) k s = (d, s1) /\ R (with_fetch i v1 f1 h1) s1.
Proof.
  intros E. pose proof (getter_cfg i s _ _ _ HR E) as Hcu. fold v in Hcu. subst cu.
  rewrite (deliver_unfold i s k HR). fold v.
  destruct (adeliver (ufs v) (cols v) k (remaining (fs i)) (hp i)) as [[d r] h'] eqn:A.
  destruct (iter_loop_ok (ufs v) (cols v) k (fs i) (hp i) [] d r h' Hopen (cur_u_ok i s HR) A) as [f1 [E1 [R1 Hc1]]].
  exists f1, h', d. eexists. split; [exact E1|]. split; [reflexivity|].
  apply (sim_getter_state GIter _ _ _ _ _ E R1 Hc1 (adeliver_len _ _ _ _ _ _ _ _ A)).
Qed.

(* fetchmany(n) / one partition, for an admissible size *)
Lemma manyrows_sized n : size_ok n (yp i) = true ->
  forall f0 h0 d0 r0 h0', hardc f0 = false -> u_ok h0 (ufs v) ->
    adeliver (ufs v) (cols v) (size_of n (syp s)) (remaining f0) h0 = (d0, r0, h0') ->
    exists f', manyrows (ufs v) (yp i) (cols v) n f0 h0 = (f', h0', Ok d0) /\ remaining f' = r0 /\ hardc f' = false.
Proof.
  intros Sz f0 h0 d0 r0 h0' Hc0 Hu0 A. rewrite (R_yp _ _ HR) in A. unfold size_ok, size_of in *.
  destruct n as [n|].
  - apply Nat.leb_le in Sz. apply manyrows_some_ok; auto.
  - destruct (yp i) as [[|y]|]; try discriminate. apply manyrows_none_ok; auto.
Qed.

Lemma sim_many n cu v1 : use_getter GMany v = (cu, v1) -> size_ok n (yp i) = true ->
  exists f1 h1 d s1, manyrows cu (yp i) (cols v) n (fs i) (hp i) = (f1, h1, Ok d) /\
    deliver (scur s) (size_of n (syp s)) s = (d, s1) /\ R (with_fetch i v1 f1 h1) s1.
Proof.
  intros E Sz. pose proof (getter_cfg i s _ _ _ HR E) as Hcu. fold v in Hcu. subst cu.
  rewrite (deliver_unfold i s _ HR). fold v.
  destruct (adeliver (ufs v) (cols v) (size_of n (syp s)) (remaining (fs i)) (hp i)) as [[d r] h'] eqn:A.
  destruct (manyrows_sized n Sz (fs i) (hp i) d r h' Hopen (cur_u_ok i s HR) A) as [f1 [E1 [R1 Hc1]]].
  exists f1, h', d. eexists. split; [exact E1|]. split; [reflexivity|].
  apply (sim_getter_state GMany _ _ _ _ _ E R1 Hc1 (adeliver_len _ _ _ _ _ _ _ _ A)).
Qed.

(* the spec's partition loop is [aparts] on (rows, seen-sets) *)
Lemma sparts_aparts sv n : forall k s0 acc,
  sparts k sv n s0 acc =
  (let '(ps, st, r, h) := aparts k (sufs sv) (scols sv) n (rem s0) (shp s0) acc in
   (ps, st, {| rem := r; sclosed := sclosed s0; syp := syp s0; shp := h; sroot := sroot s0; sfview := sfview s0 |})).
Proof.
  induction k as [|k IH]; intros s0 acc.
  - cbn. destruct s0; reflexivity.
  - cbn [sparts aparts]. unfold deliver.
    destruct (adeliver (sufs sv) (scols sv) n (rem s0) (shp s0)) as [[d r] h] eqn:A.
    destruct d as [|p d']; [reflexivity|].
    rewrite IH. cbn [sroot sfview rem shp sclosed syp]. reflexivity.
Qed.

Lemma sim_parts n k cu v1 : use_getter GMany v = (cu, v1) -> size_ok n (yp i) = true ->
  exists f1 h1 ps st s1, parts_loop k cu (yp i) (cols v) n (fs i) (hp i) [] = (f1, h1, Ok (ps, st)) /\
    sparts k (scur s) (size_of n (syp s)) s [] = (ps, st, s1) /\ R (with_fetch i v1 f1 h1) s1.
Proof.
  intros E Sz. pose proof (getter_cfg i s _ _ _ HR E) as Hcu. fold v in Hcu. subst cu.
  rewrite (sparts_aparts (scur s) (size_of n (syp s)) k s []).
  rewrite (scur_erase i s HR). cbn [erase sufs scols]. fold v.
  rewrite (R_rem _ _ HR), (R_hp _ _ HR).
  destruct (aparts k (ufs v) (cols v) (size_of n (syp s)) (remaining (fs i)) (hp i) []) as [[[ps st] r] h'] eqn:A.
  destruct (parts_loop_ok (ufs v) (yp i) (cols v) n (size_of n (syp s)) k (fs i) (hp i) [] ps st r h'
              Hopen (cur_u_ok i s HR) (manyrows_sized n Sz) A) as [f1 [E1 [R1 Hc1]]].
  exists f1, h', ps, st. eexists. split; [exact E1|]. split; [reflexivity|].
  apply (sim_getter_state GMany _ _ _ _ _ E R1 Hc1).
  clear E1. revert A. generalize (remaining (fs i)) (hp i) (@nil (list row)).
  induction k as [|k IH]; intros rm h0 acc A.
  - cbn in A. inversion A; reflexivity.
  - cbn [aparts] in A. destruct (adeliver (ufs v) (cols v) (size_of n (syp s)) rm h0) as [[d r0] h1] eqn:A1.
    pose proof (adeliver_len _ _ _ _ _ _ _ _ A1) as L1. destruct d.
    + inversion A; subst. exact L1.
    + rewrite (IH _ _ _ A). exact L1.
Qed.

Lemma sim_all :
  exists f1 h1 d s1, allrows (eff_u v) (cols v) (fs i) (hp i) = (f1, h1, Ok d) /\
    deliver (scur s) (length (rem s)) s = (d, s1) /\ R (with_fetch i (touch_mu v) f1 h1) s1.
Proof.
  rewrite (eff_u_memo_ok v (cur_memo i s HR)).
  rewrite (deliver_unfold i s _ HR). fold v. rewrite (R_rem _ _ HR).
  destruct (adeliver (ufs v) (cols v) (length (remaining (fs i))) (remaining (fs i)) (hp i)) as [[d r] h'] eqn:A.
  destruct (allrows_ok _ _ _ _ _ _ _ Hopen A) as [f1 [E1 [R1 [_ Hc1]]]].
  exists f1, h', d. eexists. split; [exact E1|]. split; [reflexivity|].
  destruct (touch_mu_fields v) as [K [C [U _]]].
  rewrite Hsopen. apply R_fetch; auto.
  - apply touch_mu_memo_ok. apply (cur_memo i s HR).
  - apply fwf_open. exact Hc1.
  - apply (adeliver_len _ _ _ _ _ _ _ _ A).
Qed.
End Open.

(* ---------- views and configuration ---------- *)
Lemma R_set_view i s v' :
  R i s -> memo_ok v' -> (fview i = None -> kind v' = VRoot) -> u_ok (hp i) (ufs v') ->
  R (set_cur_view i v') (set_scur s (erase v')).
Proof.
  intros H M K U. unfold set_cur_view, set_scur. rewrite (R_fview _ _ H).
  destruct (fview i) as [v0|] eqn:F; cbn [option_map].
  - constructor; cbn [fs yp hp rootv fview rem sclosed syp shp sroot sfview option_map]; auto;
      try (intros v Hv; inversion Hv; subst; assumption); apply H.
  - constructor; cbn [fs yp hp rootv fview rem sclosed syp shp sroot sfview option_map]; auto;
      try (intros v Hv; discriminate); apply H.
Qed.

Lemma R_heap_grow i s : R i s ->
  R {| fs := fs i; yp := yp i; hp := hp i ++ [[]]; rootv := rootv i; fview := fview i |}
    {| rem := rem s; sclosed := sclosed s; syp := syp s; shp := shp s ++ [[]]; sroot := sroot s; sfview := sfview s |}.
Proof.
  intros H. assert (G : forall u, u_ok (hp i) u -> u_ok (hp i ++ [[]]) u).
  { unfold u_ok. intros [u|]; auto. rewrite app_length. cbn. lia. }
  constructor; cbn; try (apply H); auto.
  - rewrite (R_hp _ _ H). reflexivity.
  - apply G. apply H.
  - intros v Hv. apply G. apply (R_ufview _ _ H v Hv).
Qed.

(* ---------- one call ---------- *)
Lemma hd_error_case {A B} (d : list A) (g : A -> B) (n : B) :
  match hd_error d with Some p => g p | None => n end = match d with p :: _ => g p | [] => n end.
Proof. destruct d; reflexivity. Qed.

Theorem step_sim i s o : R i s -> op_ok i o = true ->
  snd (istep i o) = snd (sstep s o) /\ R (fst (istep i o)) (fst (sstep s o)).
Proof.
  intros H G.
  pose proof (scur_erase i s H) as SC.
  pose proof (R_closed _ _ H) as CL.
  destruct o; unfold op_ok in G; unfold istep, sstep; try rewrite SC; cbn [erase skind scols sufs]; try rewrite <- SC.
  - (* fetchone *)
    destruct (kind (cur_view i)) eqn:K;
      try (cbn; split; [reflexivity|exact H]);
      (destruct (use_getter GOne (cur_view i)) as [cu v1] eqn:E; rewrite CL;
       destruct (hardc (fs i)) eqn:Hc;
       [ rewrite (onerow_closed cu _ _ _ (R_wf _ _ H) Hc); cbn; split; [reflexivity|apply (R_getter i s _ _ _ H E)]
       | destruct (sim_onerow i s H Hc cu v1 E) as [f1 [h1 [d [s1 [E1 [E2 R']]]]]];
         rewrite E1, E2; cbn [fst snd out_of]; split; [apply hd_error_case|exact R'] ]).
  - (* next *)
    destruct (use_getter GOne (cur_view i)) as [cu v1] eqn:E; rewrite CL.
    destruct (hardc (fs i)) eqn:Hc.
    + rewrite (onerow_closed cu _ _ _ (R_wf _ _ H) Hc). cbn. split; [reflexivity|apply (R_getter i s _ _ _ H E)].
    + destruct (sim_onerow i s H Hc cu v1 E) as [f1 [h1 [d [s1 [E1 [E2 R']]]]]].
      rewrite E1, E2. cbn [fst snd out_of]. split; [apply hd_error_case|exact R'].
  - (* iterate *)
    destruct (use_getter GIter (cur_view i)) as [cu v1] eqn:E. rewrite CL.
    destruct (hardc (fs i)) eqn:Hc.
    + destruct k as [|k].
      * cbn. split; [reflexivity|apply (R_getter i s _ _ _ H E)].
      * rewrite (iter_loop_closed cu _ k _ _ _ (R_wf _ _ H) Hc). cbn. split; [reflexivity|apply (R_getter i s _ _ _ H E)].
    + destruct (sim_iter i s H Hc k cu v1 E) as [f1 [h1 [d [s1 [E1 [E2 R']]]]]]. rewrite E1.
      destruct k as [|k].
      * cbn [fst snd out_of]. cbn [iter_loop] in E1. inversion E1; subst.
        split; [reflexivity|apply (R_getter i s _ _ _ H E)].
      * rewrite E2. cbn [fst snd out_of]. split; [reflexivity|exact R'].
  - (* fetchmany *)
    pose proof G as Sz.
    destruct (use_getter GMany (cur_view i)) as [cu v1] eqn:E. rewrite CL.
    destruct (hardc (fs i)) eqn:Hc.
    + rewrite (manyrows_closed cu _ _ n _ _ (R_wf _ _ H) Hc).
      * cbn. split; [reflexivity|apply (R_getter i s _ _ _ H E)].
      * unfold size_ok in Sz. destruct n as [n|]; auto. destruct (yp i) as [[|y]|]; auto; discriminate.
      * unfold size_ok in Sz. destruct n as [[|n]|]; auto. discriminate.
    + destruct (sim_many i s H Hc n cu v1 E Sz) as [f1 [h1 [d [s1 [E1 [E2 R']]]]]].
      rewrite E1, E2. cbn [fst snd out_of]. split; [reflexivity|exact R'].
  - (* partitions *)
    destruct k as [|k]; [cbn; split; [reflexivity|exact H]|].
    cbn [Nat.eqb orb] in G. pose proof G as Sz.
    destruct (use_getter GMany (cur_view i)) as [cu v1] eqn:E. rewrite CL.
    destruct (hardc (fs i)) eqn:Hc.
    + cbn [parts_loop]. rewrite (manyrows_closed cu _ _ n _ _ (R_wf _ _ H) Hc).
      * cbn. split; [reflexivity|apply (R_getter i s _ _ _ H E)].
      * unfold size_ok in Sz. destruct n as [n|]; auto. destruct (yp i) as [[|y]|]; auto; discriminate.
      * unfold size_ok in Sz. destruct n as [[|n]|]; auto. discriminate.
    + destruct (sim_parts i s H Hc n (S k) cu v1 E Sz) as [f1 [h1 [ps [st [s1 [E1 [E2 R']]]]]]].
      rewrite E1, E2. cbn [fst snd out_of]. split; [reflexivity|exact R'].
  - (* all *)
    rewrite CL. destruct (hardc (fs i)) eqn:Hc.
    + rewrite (allrows_closed _ _ _ _ (R_wf _ _ H) Hc). cbn [fst snd out_of closed_err]. split; [reflexivity|].
      assert (E : with_fetch i (cur_view i) (fs i) (hp i) = i).
      { unfold with_fetch, set_cur_view, cur_view. cbn [fview]. destruct i as [a b c d e]; cbn. destruct e; reflexivity. }
      rewrite E. exact H.
    + destruct (sim_all i s H Hc) as [f1 [h1 [d [s1 [E1 [E2 R']]]]]].
      rewrite E1, E2. cbn [fst snd out_of]. split; [reflexivity|exact R'].
  - (* first / one / one_or_none / scalar... *)
    destruct (oo_flags w) as [[second none] scalar] eqn:FL.
    assert (Main : (hardc (fs i) || (seen_empty (hp i) (cur_view i) && negb (softc (fs i)))) = true ->
      snd (let '(f1, r) := only_one_row (cur_view i) second none scalar (fs i) in
           (with_fetch i (cur_view i) f1 (hp i),
            out_of (fun x => match x with Some it => OItem it | None => ONoRow end) r)) =
      snd (if sclosed s then closed_err s else
           (close_spec s,
            match peek2 (scur s) s with
            | [] => if none then OErr NoResultFound else ONoRow
            | p :: more => match more, second with
                           | _ :: _, true => OErr MultipleResultsFound
                           | _, _ => OItem (if scalar then IScalar (first_col p)
                                            else post (kind (cur_view i)) (cols (cur_view i)) p)
                           end
            end)) /\
      R (fst (let '(f1, r) := only_one_row (cur_view i) second none scalar (fs i) in
              (with_fetch i (cur_view i) f1 (hp i),
               out_of (fun x => match x with Some it => OItem it | None => ONoRow end) r)))
        (fst (if sclosed s then closed_err s else
              (close_spec s,
               match peek2 (scur s) s with
               | [] => if none then OErr NoResultFound else ONoRow
               | p :: more => match more, second with
                              | _ :: _, true => OErr MultipleResultsFound
                              | _, _ => OItem (if scalar then IScalar (first_col p)
                                               else post (kind (cur_view i)) (cols (cur_view i)) p)
                              end
               end)))).
    { intros G'. rewrite CL. destruct (hardc (fs i)) eqn:Hc; cbn [orb] in G'.
      - rewrite (only_one_closed _ _ _ _ _ (R_wf _ _ H) Hc). cbn [fst snd out_of closed_err]. split; [reflexivity|].
        assert (E : with_fetch i (cur_view i) (fs i) (hp i) = i).
        { unfold with_fetch, set_cur_view, cur_view. cbn [fview]. destruct i as [a b c d e]; cbn. destruct e; reflexivity. }
        rewrite E. exact H.
      - apply andb_prop in G'. destruct G' as [G2 G3].
        apply negb_true_iff in G3.
        assert (Heff : second = true -> eff_u (cur_view i) = ufs (cur_view i))
          by (intros _; apply eff_u_memo_ok; apply (cur_memo i s H)).
        destruct (only_one_ok (cur_view i) second none scalar (fs i) (hp i) Hc G3 G2 Heff) as [f1 [E1 [R1 [Hc1 W1]]]].
        rewrite E1. cbn [fst snd]. unfold peek2. rewrite SC. cbn [erase sufs scols].
        rewrite (R_rem _ _ H), (R_hp _ _ H).
        destruct (fst (fst (adeliver (ufs (cur_view i)) (cols (cur_view i)) 2 (remaining (fs i)) (hp i)))) as [|p more].
        + split; [cbn [only_one_spec]; destruct none; reflexivity|].
          unfold close_spec. rewrite (R_hp _ _ H).
          apply (R_fetch i s (cur_view i) f1 (hp i) [] true H); auto.
          apply (cur_memo i s H).
        + split; [cbn [only_one_spec]; destruct more, second; reflexivity|].
          unfold close_spec. rewrite (R_hp _ _ H).
          apply (R_fetch i s (cur_view i) f1 (hp i) [] true H); auto.
          apply (cur_memo i s H). }
    destruct (kind (cur_view i)) eqn:K; destruct scalar; cbn [fst snd];
      try (split; [reflexivity|exact H]); apply Main; exact G.
  - (* back to the result *)
    cbn. split; [reflexivity|]. constructor; cbn; try (intros v Hv; discriminate); try (apply H); auto.
  - (* scalars *)
    rewrite (R_root _ _ H). cbn [erase scols sufs].
    destruct (reduce_cols (cols (rootv i)) [i0]) as [c|]; cbn [fst snd]; [|split; [reflexivity|exact H]].
    split; [reflexivity|]. constructor; cbn; try (apply H); auto.
    + intros v Hv. inversion Hv; subst. apply memo_ok_mkview.
    + intros v Hv. inversion Hv; subst. cbn. apply (R_uroot _ _ H).
  - (* mappings *)
    rewrite (R_root _ _ H). cbn [erase scols sufs fst snd].
    split; [reflexivity|]. constructor; cbn; try (apply H); auto.
    + intros v Hv. inversion Hv; subst. apply memo_ok_mkview.
    + intros v Hv. inversion Hv; subst. cbn. apply (R_uroot _ _ H).
  - (* columns *)
    assert (Hm : forall c, fview i = None -> kind (set_cols (reset_memo (cur_view i)) c) = VRoot).
    { intros c F. cbn. apply (cur_kind_root i s H F). }
    destruct (kind (cur_view i)) eqn:K; try (cbn; split; [reflexivity|exact H]);
      (destruct (reduce_cols (cols (cur_view i)) idx) as [c|]; cbn [fst snd]; split; try reflexivity;
       [ match goal with |- R _ (set_scur s ?sv) =>
           assert (E : sv = erase (set_cols (reset_memo (cur_view i)) c))
             by (unfold erase; cbn; rewrite K; reflexivity); rewrite E end;
         apply (R_set_view i s (set_cols (reset_memo (cur_view i)) c) H (memo_ok_mkview _ _ _) (Hm c)); cbn; apply (cur_u_ok i s H)
       | pose proof (R_set_view i s (reset_memo (cur_view i)) H) as H';
         assert (E : erase (reset_memo (cur_view i)) = scur s) by (rewrite SC; reflexivity);
         rewrite E in H';
         assert (E2 : set_scur s (scur s) = s) by (unfold set_scur, scur; destruct s as [a b c d e f]; cbn; destruct f; reflexivity);
         rewrite E2 in H'; apply H';
         [ apply memo_ok_mkview | intros F; cbn; apply (cur_kind_root i s H F) | cbn; apply (cur_u_ok i s H) ] ]).
  - (* unique *)
    cbn [fst snd]. split; [reflexivity|].
    pose proof (R_heap_grow i s H) as H'.
    set (i' := {| fs := fs i; yp := yp i; hp := hp i ++ [[]]; rootv := rootv i; fview := fview i |}) in *.
    set (s' := {| rem := rem s; sclosed := sclosed s; syp := syp s; shp := shp s ++ [[]]; sroot := sroot s; sfview := sfview s |}) in *.
    assert (CV : cur_view i' = cur_view i) by reflexivity.
    set (u := Some (length (hp i), st)).
    assert (Uok : u_ok (hp i') u) by (cbn; rewrite app_length; cbn; lia).
    rewrite (R_hp _ _ H).
    pose proof (R_set_view i' s' (set_ufs (reset_memo (cur_view i)) u) H') as H2.
    assert (E : erase (set_ufs (reset_memo (cur_view i)) u) =
                {| skind := kind (cur_view i); scols := cols (cur_view i); sufs := u |}) by reflexivity.
    rewrite E in H2. apply H2; [| |exact Uok].
    + split; [cbn; intros; discriminate|intros [] c0; cbn; intros; discriminate].
    + intros F. cbn. apply (cur_kind_root i s H F).
  - (* yield_per *)
    cbn [fst snd]. split; [reflexivity|].
    destruct (yield_per_remaining n (fs i)) as [Y1 Y2].
    constructor; cbn [fs yp hp rootv fview rem sclosed syp shp sroot sfview].
    + rewrite Y1. apply (R_rem _ _ H).
    + rewrite Y2. apply (R_closed _ _ H).
    + reflexivity.
    + apply (R_hp _ _ H).
    + exact (R_root _ _ H).
    + rewrite (R_fview _ _ H). destruct (fview i); reflexivity.
    + apply yield_per_fwf. apply (R_wf _ _ H).
    + apply memo_ok_mkview.
    + intros v Hv. destruct (fview i) as [v0|]; [|discriminate]. inversion Hv; subst. apply memo_ok_mkview.
    + exact (R_rootkind _ _ H).
    + exact (R_uroot _ _ H).
    + intros v Hv. destruct (fview i) as [v0|] eqn:F; [|discriminate]. inversion Hv; subst. cbn.
      apply (R_ufview _ _ H v0 F).
  - (* close *)
    cbn [fst snd]. split; [reflexivity|].
    destruct (soft_close_hard (fs i) (R_wf _ _ H)) as [C1 [C2 C3]].
    constructor; cbn; try (apply H); auto.
  - (* freeze *)
    rewrite CL. destruct (hardc (fs i)) eqn:Hc.
    + rewrite (allrows_closed _ _ _ _ (R_wf _ _ H) Hc). cbn. split; [reflexivity|exact H].
    + rewrite (eff_u_memo_ok _ (R_rootmemo _ _ H)).
      unfold deliver. rewrite (R_root _ _ H). cbn [erase sufs scols]. rewrite (R_rem _ _ H), (R_hp _ _ H).
      destruct (adeliver (ufs (rootv i)) (cols (rootv i)) (length (remaining (fs i))) (remaining (fs i)) (hp i))
        as [[d r] h'] eqn:A.
      destruct (allrows_ok _ _ _ _ _ _ _ Hc A) as [f1 [E1 [R1 [_ Hc1]]]].
      rewrite E1. cbn [fst snd shp]. split; [reflexivity|].
      constructor; cbn; auto; try (intros v Hv; discriminate).
      * intros Hx; discriminate.
      * apply memo_ok_mkview.
Qed.

(* ---------- any sequence of calls ---------- *)
Lemma run_sim : forall ops i s, R i s -> guard_from i ops = true -> irun i ops = srun s ops.
Proof.
  induction ops as [|o t IH]; intros i s H G; [reflexivity|].
  cbn [guard_from] in G. apply andb_prop in G. destruct G as [G1 G2].
  destruct (step_sim i s o H G1) as [E R'].
  cbn [irun srun]. destruct (istep i o) as [i1 o1] eqn:E1. destruct (sstep s o) as [s1 o2] eqn:E2.
  cbn [fst snd] in *. subst o2. rewrite (R_closed _ _ R'). f_equal. apply IH; assumption.
Qed.

Lemma R_init st w rows : R (init_state st w rows) (init_spec w rows).
Proof.
  constructor; cbn; auto; try (intros v Hv; discriminate).
  - unfold remaining. cbn. symmetry. apply init_remaining.
  - intros Hx; discriminate.
  - apply memo_ok_mkview.
Qed.

Theorem all_sequences_guarded st w rows ops :
  guard st w rows ops = true -> run_impl st w rows ops = run_spec w rows ops.
Proof. intros G. apply run_sim; [apply R_init|exact G]. Qed.

(* no loop of the model ever runs out of fuel inside the guarded region *)
Lemma sstep_no_fuel s o : snd (sstep s o) <> OFuel.
Proof.
  unfold sstep, closed_err. destruct o; cbn [snd];
    repeat match goal with
    | |- context [let '(_, _) := ?x in _] => destruct x
    | |- context [match ?x with _ => _ end] => destruct x
    | |- context [if ?x then _ else _] => destruct x
    end; cbn [snd]; discriminate.
Qed.
Lemma srun_no_fuel : forall ops s, ~ In OFuel (map fst (srun s ops)).
Proof.
  induction ops as [|o t IH]; intros s; cbn [srun map]; [intros []|].
  pose proof (sstep_no_fuel s o) as N.
  destruct (sstep s o) as [s1 out] eqn:E. cbn [map fst snd] in *. intros [Hx|Hx]; [|apply (IH s1 Hx)].
  apply N. exact Hx.
Qed.
Theorem fuel_suffices st w rows ops :
  guard st w rows ops = true -> ~ In OFuel (map fst (run_impl st w rows ops)).
Proof. intros G. rewrite (all_sequences_guarded st w rows ops G). apply srun_no_fuel. Qed.
