(* executable entry point for the correspondence check of C23 *)
From Coq Require Import List ZArith NArith Bool Arith.
Import ListNotations.
From SAV.base Require Import Tree.
From SAV.engine Require Import RefDb Txn TxnSpec.

Open Scope Z_scope.

(* op encoding: [0] begin  [1] begin_nested  [2,v] insert v  [3] conn.commit  [4] conn.rollback
   [5] conn.close  [6,k] h_k.commit  [7,k] h_k.rollback  [8,k] h_k.close  [9,k] h_k.__enter__
   [10,k,e] h_k.__exit__ (e=1: with an exception)
   [11,m] raising `begin` listener: 0 remove, 1 raises once, 2 raises always
   [12,b] the next DBAPI rollback() reports an error *)
Definition as_op (t : tree) : option op :=
  match t with
  | L [I 0] => Some OBegin
  | L [I 1] => Some ONested
  | L [I 2; I v] => Some (OIns v)
  | L [I 3] => Some OCommit
  | L [I 4] => Some ORollback
  | L [I 5] => Some OClose
  | L [I 6; k] => option_map TCommit (as_nat k)
  | L [I 7; k] => option_map TRollback (as_nat k)
  | L [I 8; k] => option_map TClose (as_nat k)
  | L [I 9; k] => option_map TEnter (as_nat k)
  | L [I 10; k; e] =>
      match as_nat k, as_bool e with Some k', Some e' => Some (TExit k' e') | _, _ => None end
  | L [I 11; m] => option_map FBegin (as_N m)
  | L [I 12; b] => option_map FRollback (as_bool b)
  | _ => None
  end.

Definition of_cmd (c : cmd) : tree :=
  match c with
  | Begin => L [I 0]
  | Savepoint n => L [I 1; of_N n]
  | RollbackTo n => L [I 2; of_N n]
  | Release n => L [I 3; of_N n]
  | Commit => L [I 4]
  | Rollback => L [I 5]
  end.

Definition of_res (r : res) : tree :=
  match r with
  | Ok => I 0
  | Raise InvalidRequestError => I 1
  | Raise PendingRollbackError => I 2
  | Raise ResourceClosedError => I 3
  | Raise OperationalError => I 4
  | Raise ListenerError => I 8
  | OutOfFuel => I 7
  end.

Definition of_optnat (o : option nat) : tree := match o with Some k => of_nat k | None => I (-1) end.
Definition of_rows (t : table) : tree := of_list (of_list I) t.

(* observation after one operation *)
Definition obs_of (r : option res) (s : st) : tree :=
  match r with
  | None => L [I 9]
  | Some r =>
      L [of_res r; of_list (fun e => of_cmd (fst e)) (s_out s); of_nat (s_warns s);
         of_bool (in_transaction s); of_bool (in_nested_transaction s);
         of_optnat (c_root s); of_optnat (c_nested s);
         of_list (fun t => of_bool (t_active t)) (txns s);
         of_rows (visible 0%N (s_db s))]
  end.

(* spec-side observation: raised, flags, visible data, guard still true *)
Fixpoint spec_obs (ops : list op) (p : spec) (g : bool) : list tree :=
  match ops with
  | [] => []
  | o :: r =>
      match sstep o p with
      | None => L [I 9] :: spec_obs r p g
      | Some (b, q) =>
          let g' := g && gstep o p in
          L [of_bool b; of_bool (spec_in_transaction q); of_bool (spec_in_nested q);
             of_rows (tbl_get 0%N (p_committed q)); of_bool g'] :: spec_obs r q g'
      end
  end.

(* reference-db script: [0] begin [1,n] savepoint [2,n] rollback to [3,n] release [4] commit
   [5] rollback [6,v] insert v;  observation per command: accepted, current rows, visible rows *)
Inductive dbop : Type := DCmd (c : cmd) | DIns (v : Z).
Definition as_dbop (t : tree) : option dbop :=
  match t with
  | L [I 0] => Some (DCmd Begin)
  | L [I 1; n] => option_map (fun n => DCmd (Savepoint n)) (as_N n)
  | L [I 2; n] => option_map (fun n => DCmd (RollbackTo n)) (as_N n)
  | L [I 3; n] => option_map (fun n => DCmd (Release n)) (as_N n)
  | L [I 4] => Some (DCmd Commit)
  | L [I 5] => Some (DCmd Rollback)
  | L [I 6; I v] => Some (DIns v)
  | _ => None
  end.
Fixpoint db_script (l : list dbop) (d : db) : list tree :=
  match l with
  | [] => []
  | o :: r =>
      let '(acc, d') :=
        match o with
        | DIns v => (true, db_insert 0%N [v] d)
        | DCmd c => match exec_cmd d c with Some d' => (true, d') | None => (false, d) end
        end in
      L [of_bool acc; of_rows (current 0%N d'); of_rows (visible 0%N d')] :: db_script r d'
  end.

(* input L [I 0; L ops]  -> model observations of the history (on an empty database)
         L [I 1; L dbops] -> reference database observations
         L [I 2; L ops]  -> reference nested-transaction model + guard observations *)
Definition run_case (t : tree) : tree :=
  match t with
  | L [I 0; tops] =>
      match as_list_of as_op tops with
      | Some ops => L (map (fun rs => obs_of (fst rs) (snd rs)) (trace ops (init db_empty)))
      | None => bad_input
      end
  | L [I 1; tops] =>
      match as_list_of as_dbop tops with
      | Some l => L (db_script l db_empty)
      | None => bad_input
      end
  | L [I 2; tops] =>
      match as_list_of as_op tops with
      | Some ops => L (spec_obs ops (spec_init []) true)
      | None => bad_input
      end
  | _ => bad_input
  end.
