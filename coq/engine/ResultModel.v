(* C10 - executable model of the Result machinery (definitions only; proofs are in Result*Proofs.v).

   Transcribes, bugs included:
     engine/cursor.py   CursorFetchStrategy, BufferedRowCursorFetchStrategy, FullyBufferedCursorFetchStrategy,
                        NoCursorDQLFetchStrategy, CursorResult._soft_close / close / yield_per
     engine/result.py   IteratorResult (_fetch*_impl, _soft_close), Result / ScalarResult / MappingResult
                        (unique, columns, scalars, mappings, tuples, yield_per, partitions, freeze, FrozenResult)
     engine/_result_cy.py  _onerow_getter, _manyrow_getter, _allrows, _iterator_getter, _only_one_row,
                        _unique_strategy, _apply_unique_strategy and the memoisation of these getters
                        (HasMemoized.memoized_attribute; reset by the @_generative methods unique, columns,
                        yield_per).

   The DBAPI cursor is the list of rows it has not delivered yet. *)
From Coq Require Import List ZArith Bool Arith.
Import ListNotations.

(* ---------- values, rows ---------- *)
Inductive val := VI (z : Z) | VL (l : list Z).      (* int | (unhashable) list of ints *)
Definition row := list val.

Fixpoint zs_eqb (a b : list Z) : bool :=
  match a, b with
  | [], [] => true
  | x :: a', y :: b' => Z.eqb x y && zs_eqb a' b'
  | _, _ => false
  end.
Definition val_eqb (a b : val) : bool :=
  match a, b with
  | VI x, VI y => Z.eqb x y
  | VL x, VL y => zs_eqb x y
  | _, _ => false
  end.
Fixpoint row_eqb (a b : row) : bool :=
  match a, b with
  | [], [] => true
  | x :: a', y :: b' => val_eqb x y && row_eqb a' b'
  | _, _ => false
  end.
Definition mem (k : row) (s : list row) : bool := existsb (row_eqb k) s.

Inductive exn := ResourceClosed | NoResultFound | MultipleResultsFound | AttributeErr | IndexErr.
(* [Fuel]: a loop ran out of fuel; proved unreachable *)
Inductive res (A : Type) := Ok (a : A) | Raise (e : exn) | Fuel.
Arguments Ok {A} a. Arguments Raise {A} e. Arguments Fuel {A}.

(* =====================================================================================
   1. fetch layer: the cursor strategy of a CursorResult, or the iterator of an IteratorResult
   ===================================================================================== *)
Inductive source :=
| SDirect (cur : list row)                                   (* CursorFetchStrategy *)
| SBuffered (buf cur : list row) (bufsize growth maxbuf : nat) (* BufferedRowCursorFetchStrategy *)
| SFull (buf : list row)                                     (* FullyBufferedCursorFetchStrategy *)
| SNone                                                      (* _NO_CURSOR_DQL: CursorResult after a soft/hard close *)
| SIter (it : list row).                                     (* IteratorResult.iterator *)

(* [hardc] = CursorResult.closed / IteratorResult._hard_closed.  CursorResult._soft_closed is true exactly
   when the strategy is _NO_CURSOR_DQL; IteratorResult._soft_closed is never read. *)
Record fstate := { src : source; hardc : bool }.
Definition set_src (f : fstate) (s : source) : fstate := {| src := s; hardc := hardc f |}.
Definition softc (f : fstate) : bool := match src f with SNone => true | _ => false end.

Definition remaining_src (s : source) : list row :=
  match s with
  | SDirect c => c
  | SBuffered b c _ _ _ => b ++ c
  | SFull b => b
  | SNone => []
  | SIter l => l
  end.
Definition remaining (f : fstate) : list row := remaining_src (src f).

(* DBAPI cursor.fetchmany(n) *)
Definition cur_fetchmany (n : nat) (c : list row) : list row * list row := (firstn n c, skipn n c).
(* sqlite3's cursor.arraysize *)
Definition arraysize : nat := 1.

(* CursorResult._soft_close(hard) / IteratorResult._soft_close(hard) *)
Definition soft_close (hard : bool) (f : fstate) : fstate :=
  match src f with
  | SIter _ => {| src := SIter []; hardc := hard || hardc f |}
  | _ => if (negb hard && softc f) || (hard && hardc f) then f
         else {| src := SNone; hardc := hard || hardc f |}
  end.

(* BufferedRowCursorFetchStrategy._buffer_rows, called with an empty _rowbuffer:
   (new _rowbuffer, cursor, new _bufsize) *)
Definition buffer_rows (c : list row) (bs g m : nat) : list row * list row * nat :=
  let '(new, c') := if bs <? 1 then (c, []) else cur_fetchmany bs c in
  match new with
  | [] => ([], c', bs)
  | _ => (new, c', if negb (g =? 0) && (bs <? m) then Nat.min m (bs * g) else bs)
  end.

(* strategy.fetchone(result, cursor, hard_close) / IteratorResult._fetchone_impl(hard_close) *)
Definition fetchone_impl (hard : bool) (f : fstate) : fstate * res (option row) :=
  match src f with
  | SNone => (f, if hardc f then Raise ResourceClosed else Ok None)
  | SDirect c =>
      match c with
      | [] => (soft_close hard f, Ok None)
      | r :: t => (set_src f (SDirect t), Ok (Some r))
      end
  | SBuffered b c bs g m =>
      match b with
      | r :: b' => (set_src f (SBuffered b' c bs g m), Ok (Some r))
      | [] =>
          let '(b1, c1, bs1) := buffer_rows c bs g m in
          match b1 with
          | [] => (soft_close hard (set_src f (SBuffered [] c1 bs1 g m)), Ok None)
          | r :: b' => (set_src f (SBuffered b' c1 bs1 g m), Ok (Some r))
          end
      end
  | SFull b =>
      match b with
      | r :: b' => (set_src f (SFull b'), Ok (Some r))
      | [] => (soft_close hard f, Ok None)
      end
  | SIter l =>
      if hardc f then (f, Raise ResourceClosed) else
      match l with
      | [] => (soft_close hard f, Ok None)
      | r :: t => (set_src f (SIter t), Ok (Some r))
      end
  end.

(* strategy.fetchall / IteratorResult._fetchall_impl *)
Definition fetchall_impl (f : fstate) : fstate * res (list row) :=
  match src f with
  | SNone => (f, if hardc f then Raise ResourceClosed else Ok [])
  | SDirect c => (soft_close false (set_src f (SDirect [])), Ok c)
  | SBuffered b c bs g m => (soft_close false (set_src f (SBuffered [] [] bs g m)), Ok (b ++ c))
  | SFull b => (soft_close false (set_src f (SFull [])), Ok b)
  | SIter l => if hardc f then (f, Raise ResourceClosed) else (soft_close false f, Ok l)
  end.

(* strategy.fetchmany(size) / IteratorResult._fetchmany_impl(size) *)
Definition fetchmany_impl (size : option nat) (f : fstate) : fstate * res (list row) :=
  match src f with
  | SNone => (f, if hardc f then Raise ResourceClosed else Ok [])
  | SDirect c =>
      let n := match size with Some n => n | None => arraysize end in
      let '(l, c') := cur_fetchmany n c in
      let f1 := set_src f (SDirect c') in
      (match l with [] => soft_close false f1 | _ => f1 end, Ok l)
  | SBuffered b c bs g m =>
      match size with
      | None => fetchall_impl f
      | Some size =>
          let lb := length b in
          let '(b1, c1, close) :=
            if lb <? size then
              let '(new, c') := cur_fetchmany (size - lb) c in
              match new with [] => (b, c', true) | _ => (b ++ new, c', false) end
            else (b, c, false) in
          let k := Nat.min size (length b1) in
          let f1 := set_src f (SBuffered (skipn k b1) c1 bs g m) in
          (if close then soft_close false f1 else f1, Ok (firstn k b1))
      end
  | SFull b =>
      match size with
      | None => fetchall_impl f
      | Some size =>
          let k := Nat.min size (length b) in
          let f1 := set_src f (SFull (skipn k b)) in
          (match firstn k b with [] => soft_close false f1 | _ => f1 end, Ok (firstn k b))
      end
  | SIter l =>
      if hardc f then (f, Raise ResourceClosed) else
      match size with
      | None => (set_src f (SIter []), Ok l)
      | Some n => (set_src f (SIter (skipn n l)), Ok (firstn n l))
      end
  end.

(* strategy.yield_per(result, cursor, num) *)
Definition yield_per_impl (n : nat) (f : fstate) : fstate :=
  match src f with
  | SDirect c => set_src f (SBuffered [] c n 0 n)
  | SBuffered b c _ _ _ => set_src f (SBuffered b c n 0 n)
  | _ => f
  end.

(* how the result is created *)
Inductive strategy := StDirect | StBuffered (max_row_buffer : nat) | StFull | StIter.
Definition init_src (st : strategy) (rows : list row) : source :=
  match st with
  | StDirect => SDirect rows
  | StBuffered m => SBuffered (firstn 1 rows) (skipn 1 rows) (Nat.min m 5) 5 m
  | StFull => SFull rows
  | StIter => SIter rows
  end.

(* =====================================================================================
   2. views: Result (root), ScalarResult, MappingResult; uniqueness state; memoised getters
   ===================================================================================== *)
Inductive strat := KRow | KFirst.    (* unique(strategy): key = the whole (projected) row | its first column *)
Definition key_of (st : strat) (p : row) : row := match st with KRow => p | KFirst => firstn 1 p end.
(* _unique_filter_state = (set object, strategy); set objects live in a heap and are named by their index *)
Definition ustate := (nat * strat)%type.
Definition ustate_eqb (a b : ustate) : bool :=
  Nat.eqb (fst a) (fst b) && match snd a, snd b with KRow, KRow | KFirst, KFirst => true | _, _ => false end.
Definition heap := list (list row).
Definition hget (h : heap) (sid : nat) : list row := nth sid h [].
Fixpoint hset (h : heap) (sid : nat) (s : list row) : heap :=
  match h, sid with
  | [], _ => []
  | _ :: t, 0 => s :: t
  | x :: t, S k => x :: hset t k s
  end.

Inductive vkind := VRoot | VScalar | VMapping.
(* [cols]: (position in the raw row, column label).  [mu] = memoised _unique_strategy,
   [g_one]/[g_many]/[g_iter] = memoised _onerow_getter/_manyrow_getter/_iterator_getter, each holding
   the uniqueness state it captured when it was created (None = the non-uniquing variant). *)
Record view := {
  kind : vkind; cols : list (nat * nat); ufs : option ustate;
  mu : option ustate; g_one : option (option ustate); g_many : option (option ustate);
  g_iter : option (option ustate) }.
Definition mkview k c u : view :=
  {| kind := k; cols := c; ufs := u; mu := None; g_one := None; g_many := None; g_iter := None |}.
(* InPlaceGenerative._generate: drop every memoised attribute *)
Definition reset_memo (v : view) : view := mkview (kind v) (cols v) (ufs v).
Definition set_ufs (v : view) (u : option ustate) : view :=
  {| kind := kind v; cols := cols v; ufs := u; mu := mu v; g_one := g_one v; g_many := g_many v; g_iter := g_iter v |}.
Definition set_cols (v : view) (c : list (nat * nat)) : view :=
  {| kind := kind v; cols := c; ufs := ufs v; mu := mu v; g_one := g_one v; g_many := g_many v; g_iter := g_iter v |}.

(* what a getter created now captures: the current _unique_filter_state decides WHETHER it uniques,
   the (possibly memoised earlier) _unique_strategy decides with WHICH set and strategy *)
Definition eff_u (v : view) : option ustate :=
  match ufs v with
  | None => None
  | Some u => Some (match mu v with Some m => m | None => u end)
  end.
Definition touch_mu (v : view) : view :=
  match ufs v, mu v with
  | Some u, None =>
      {| kind := kind v; cols := cols v; ufs := ufs v; mu := Some u; g_one := g_one v; g_many := g_many v; g_iter := g_iter v |}
  | _, _ => v
  end.
Inductive slot := GOne | GMany | GIter.
Definition slot_of (g : slot) (v : view) : option (option ustate) :=
  match g with GOne => g_one v | GMany => g_many v | GIter => g_iter v end.
(* read a memoised getter: (captured uniqueness state, view with the memo filled) *)
Definition use_getter (g : slot) (v : view) : option ustate * view :=
  match slot_of g v with
  | Some c => (c, v)
  | None =>
      let c := eff_u v in
      let v1 := touch_mu v in
      (c, match g with
          | GOne => {| kind := kind v1; cols := cols v1; ufs := ufs v1; mu := mu v1; g_one := Some c; g_many := g_many v1; g_iter := g_iter v1 |}
          | GMany => {| kind := kind v1; cols := cols v1; ufs := ufs v1; mu := mu v1; g_one := g_one v1; g_many := Some c; g_iter := g_iter v1 |}
          | GIter => {| kind := kind v1; cols := cols v1; ufs := ufs v1; mu := mu v1; g_one := g_one v1; g_many := g_many v1; g_iter := Some c |}
          end)
  end.

(* delivered objects *)
Inductive item := IRow (r : row) | IScalar (v : val) | IMap (m : list (nat * val)).
Definition project (c : list (nat * nat)) (raw : row) : row := map (fun p => nth (fst p) raw (VI 0)) c.
Definition first_col (p : row) : val := hd (VI 0) p.
(* _post_creational_filter *)
Definition post (k : vkind) (c : list (nat * nat)) (p : row) : item :=
  match k with
  | VRoot => IRow p
  | VScalar => IScalar (first_col p)
  | VMapping => IMap (combine (map snd c) p)
  end.

(* _apply_unique_strategy(rows, destination, uniques, strategy): (rows appended to destination, uniques) *)
Fixpoint apply_unique (st : strat) (rows : list row) (seen : list row) : list row * list row :=
  match rows with
  | [] => ([], seen)
  | p :: t =>
      if mem (key_of st p) seen then apply_unique st t seen
      else let '(d, s) := apply_unique st t (key_of st p :: seen) in (p :: d, s)
  end.

Definition map_res {A B} (g : A -> B) (r : res A) : res B :=
  match r with Ok a => Ok (g a) | Raise e => Raise e | Fuel => Fuel end.

(* ---- _onerow_getter / _iterator_getter: one made row or None ---- *)
Fixpoint onerow_loop (fuel : nat) (c : list (nat * nat)) (u : ustate) (f : fstate) (h : heap)
  : fstate * heap * res (option row) :=
  match fuel with
  | 0 => (f, h, Fuel)
  | S k =>
      let '(f1, r) := fetchone_impl false f in
      match r with
      | Ok (Some raw) =>
          let p := project c raw in
          if mem (key_of (snd u) p) (hget h (fst u)) then onerow_loop k c u f1 h
          else (f1, hset h (fst u) (key_of (snd u) p :: hget h (fst u)), Ok (Some p))
      | Ok None => (f1, h, Ok None)
      | Raise e => (f1, h, Raise e)
      | Fuel => (f1, h, Fuel)
      end
  end.
Definition onerow (cu : option ustate) (c : list (nat * nat)) (f : fstate) (h : heap)
  : fstate * heap * res (option row) :=
  match cu with
  | Some u => onerow_loop (S (length (remaining f))) c u f h
  | None => let '(f1, r) := fetchone_impl false f in (f1, h, map_res (option_map (project c)) r)
  end.

(* ---- _manyrow_getter ---- *)
(* the [while num_required:] loop of the uniquing variant *)
Fixpoint many_loop (fuel : nat) (c : list (nat * nat)) (u : ustate) (num : nat) (collect : list row)
  (f : fstate) (h : heap) : fstate * heap * res (list row) :=
  let required := num - length collect in
  match fuel with
  | 0 => (f, h, if required =? 0 then Ok collect else Fuel)
  | S k =>
      if required =? 0 then (f, h, Ok collect) else
      let '(f1, r) := fetchmany_impl (Some required) f in
      match r with
      | Ok [] => (f1, h, Ok collect)
      | Ok rows =>
          let '(d, s) := apply_unique (snd u) (map (project c) rows) (hget h (fst u)) in
          many_loop k c u num (collect ++ d) f1 (hset h (fst u) s)
      | Raise e => (f1, h, Raise e)
      | Fuel => (f1, h, Fuel)
      end
  end.
Definition many_fuel (f : fstate) : nat := S (S (length (remaining f))).
Definition manyrows (cu : option ustate) (ypv : option nat) (c : list (nat * nat)) (num : option nat)
  (f : fstate) (h : heap) : fstate * heap * res (list row) :=
  match cu with
  | Some u =>
      match num, ypv with
      | Some n, _ => many_loop (many_fuel f) c u n [] f h
      | None, Some (S y) => many_loop (many_fuel f) c u (S y) [] f h       (* if yield_per: *)
      | None, _ =>
          (* no size known: fetch the strategy's default chunk to find out *)
          let '(f1, r) := fetchmany_impl None f in
          match r with
          | Ok rows =>
              let '(d, s) := apply_unique (snd u) (map (project c) rows) (hget h (fst u)) in
              many_loop (many_fuel f1) c u (length rows) d f1 (hset h (fst u) s)
          | Raise e => (f1, h, Raise e)
          | Fuel => (f1, h, Fuel)
          end
      end
  | None =>
      let '(f1, r) := fetchmany_impl (match num with Some n => Some n | None => ypv end) f in
      (f1, h, map_res (map (project c)) r)
  end.

(* ---- _allrows ---- *)
Definition allrows (cu : option ustate) (c : list (nat * nat)) (f : fstate) (h : heap)
  : fstate * heap * res (list row) :=
  let '(f1, r) := fetchall_impl f in
  match r with
  | Ok rows =>
      let made := map (project c) rows in
      match cu with
      | Some u =>
          let '(d, s) := apply_unique (snd u) made (hget h (fst u)) in (f1, hset h (fst u) s, Ok d)
      | None => (f1, h, Ok made)
      end
  | Raise e => (f1, h, Raise e)
  | Fuel => (f1, h, Fuel)
  end.

(* ---- _only_one_row ---- *)
(* uniquing + raise_for_second_row: read on until a row that differs from the first one *)
Fixpoint second_loop (fuel : nat) (c : list (nat * nat)) (st : strat) (first : row) (f : fstate)
  : fstate * res (option row) :=
  match fuel with
  | 0 => (f, Fuel)
  | S k =>
      let '(f1, r) := fetchone_impl true f in
      match r with
      | Ok (Some raw) =>
          let p := project c raw in
          if row_eqb (key_of st first) (key_of st p) then second_loop k c st first f1
          else (f1, Ok (Some p))
      | Ok None => (f1, Ok None)
      | Raise e => (f1, Raise e)
      | Fuel => (f1, Fuel)
      end
  end.
(* returns Ok None for a Python None *)
Definition only_one_row (v : view) (second none scalar : bool) (f : fstate) : fstate * res (option item) :=
  let '(f1, r) := fetchone_impl true f in
  match r with
  | Raise e => (f1, Raise e)
  | Fuel => (f1, Fuel)
  | Ok None => (f1, if none then Raise NoResultFound else Ok None)
  | Ok (Some raw) =>
      let p := project (cols v) raw in
      let deliver := Ok (Some (if scalar then IScalar (first_col p) else post (kind v) (cols v) p)) in
      if second then
        let '(f2, r2) :=
          match eff_u v with
          | Some u => second_loop (S (length (remaining f1))) (cols v) (snd u) p f1
          | None => let '(f2, r2) := fetchone_impl true f1 in (f2, map_res (option_map (project (cols v))) r2)
          end in
        match r2 with
        | Ok (Some _) => (soft_close true f2, Raise MultipleResultsFound)
        | Ok None => (f2, deliver)
        | Raise e => (f2, Raise e)
        | Fuel => (f2, Fuel)
        end
      else (soft_close true f1, deliver)
  end.

(* ---- iteration: it = iter(view); k times next(it) ---- *)
Fixpoint iter_loop (k : nat) (cu : option ustate) (c : list (nat * nat)) (f : fstate) (h : heap)
  (acc : list row) : fstate * heap * res (list row * bool) :=
  match k with
  | 0 => (f, h, Ok (acc, false))
  | S k' =>
      let '(f1, h1, r) := onerow cu c f h in
      match r with
      | Ok (Some p) => iter_loop k' cu c f1 h1 (acc ++ [p])
      | Ok None => (f1, h1, Ok (acc, true))
      | Raise e => (f1, h1, Raise e)
      | Fuel => (f1, h1, Fuel)
      end
  end.
(* ---- it = view.partitions(size); k times next(it) ---- *)
Fixpoint parts_loop (k : nat) (cu : option ustate) (ypv : option nat) (c : list (nat * nat))
  (num : option nat) (f : fstate) (h : heap) (acc : list (list row))
  : fstate * heap * res (list (list row) * bool) :=
  match k with
  | 0 => (f, h, Ok (acc, false))
  | S k' =>
      let '(f1, h1, r) := manyrows cu ypv c num f h in
      match r with
      | Ok [] => (f1, h1, Ok (acc, true))
      | Ok part => parts_loop k' cu ypv c num f1 h1 (acc ++ [part])
      | Raise e => (f1, h1, Raise e)
      | Fuel => (f1, h1, Fuel)
      end
  end.

(* =====================================================================================
   3. the result object with its current view; operations
   ===================================================================================== *)
Record istate := { fs : fstate; yp : option nat; hp : heap; rootv : view; fview : option view }.
Definition cur_view (s : istate) : view := match fview s with Some v => v | None => rootv s end.
Definition set_cur_view (s : istate) (v : view) : istate :=
  match fview s with
  | Some _ => {| fs := fs s; yp := yp s; hp := hp s; rootv := rootv s; fview := Some v |}
  | None => {| fs := fs s; yp := yp s; hp := hp s; rootv := v; fview := None |}
  end.
Definition with_fetch (s : istate) (v : view) (f : fstate) (h : heap) : istate :=
  set_cur_view {| fs := f; yp := yp s; hp := h; rootv := rootv s; fview := fview s |} v.

Inductive ookind := First | OneOrNone | One | Scalar | ScalarOne | ScalarOneOrNone.
(* (raise_for_second_row, raise_for_none, scalar) *)
Definition oo_flags (w : ookind) : bool * bool * bool :=
  match w with
  | First => (false, false, false)
  | OneOrNone => (true, false, false)
  | One => (true, true, false)
  | Scalar => (false, false, true)
  | ScalarOne => (true, true, true)
  | ScalarOneOrNone => (true, false, true)
  end.
Definition oo_scalar (w : ookind) : bool := snd (oo_flags w).

Inductive op :=
| FetchOne                                   (* view.fetchone() *)
| Next                                       (* next(view) *)
| IterFor (k : nat)                          (* it = iter(view); up to k times next(it) *)
| FetchMany (n : option nat)                 (* view.fetchmany(n) *)
| Partitions (n : option nat) (k : nat)      (* it = view.partitions(n); up to k times next(it) *)
| All                                        (* view.all() / view.fetchall() *)
| OnlyOne (w : ookind)                       (* first/one_or_none/one/scalar/scalar_one/scalar_one_or_none *)
| ToRoot                                     (* view = result  (also result.tuples()) *)
| Scalars (i : nat)                          (* view = result.scalars(i) *)
| Mappings                                   (* view = result.mappings() *)
| Columns (idx : list nat)                   (* view.columns( *idx ) *)
| Unique (st : strat)                        (* view.unique(strategy) *)
| YieldPer (n : nat)                         (* view.yield_per(n) *)
| Close                                      (* view.close() *)
| Freeze.                                    (* result = result.freeze()(); view = result *)

Inductive outcome :=
| OUnit | ONoRow | OItem (i : item) | OItems (l : list item)
| OIter (l : list item) (stopped : bool) | OParts (l : list (list item)) (stopped : bool)
| OStop | OErr (e : exn) | OFuel.
(* (what the call returned or raised, result.closed afterwards) *)
Definition obs := (outcome * bool)%type.

Definition out_of {A} (g : A -> outcome) (r : res A) : outcome :=
  match r with Ok a => g a | Raise e => OErr e | Fuel => OFuel end.

Definition identity_cols (w : nat) : list (nat * nat) := map (fun i => (i, i)) (seq 0 w).
Definition relabel (c : list (nat * nat)) : list (nat * nat) := combine (seq 0 (length c)) (map snd c).
Definition reduce_cols (c : list (nat * nat)) (idx : list nat) : option (list (nat * nat)) :=
  match idx with
  | [] => None
  | _ => if forallb (fun i => i <? length c) idx then Some (map (fun i => nth i c (0, 0)) idx) else None
  end.

Definition istep (s : istate) (o : op) : istate * outcome :=
  let v := cur_view s in
  let pst := post (kind v) (cols v) in
  match o with
  | FetchOne =>
      match kind v with
      | VScalar => (s, OErr AttributeErr)
      | _ => let '(cu, v1) := use_getter GOne v in
             let '(f1, h1, r) := onerow cu (cols v) (fs s) (hp s) in
             (with_fetch s v1 f1 h1,
              out_of (fun x => match x with Some p => OItem (pst p) | None => ONoRow end) r)
      end
  | Next =>
      let '(cu, v1) := use_getter GOne v in
      let '(f1, h1, r) := onerow cu (cols v) (fs s) (hp s) in
      (with_fetch s v1 f1 h1, out_of (fun x => match x with Some p => OItem (pst p) | None => OStop end) r)
  | IterFor k =>
      let '(cu, v1) := use_getter GIter v in
      let '(f1, h1, r) := iter_loop k cu (cols v) (fs s) (hp s) [] in
      (with_fetch s v1 f1 h1, out_of (fun x => OIter (map pst (fst x)) (snd x)) r)
  | FetchMany n =>
      let '(cu, v1) := use_getter GMany v in
      let '(f1, h1, r) := manyrows cu (yp s) (cols v) n (fs s) (hp s) in
      (with_fetch s v1 f1 h1, out_of (fun l => OItems (map pst l)) r)
  | Partitions n k =>
      match k with
      | 0 => (s, OParts [] false)            (* generator created, never started *)
      | _ => let '(cu, v1) := use_getter GMany v in
             let '(f1, h1, r) := parts_loop k cu (yp s) (cols v) n (fs s) (hp s) [] in
             (with_fetch s v1 f1 h1, out_of (fun x => OParts (map (map pst) (fst x)) (snd x)) r)
      end
  | All =>
      let '(f1, h1, r) := allrows (eff_u v) (cols v) (fs s) (hp s) in
      (with_fetch s (match r with Ok _ => touch_mu v | _ => v end) f1 h1, out_of (fun l => OItems (map pst l)) r)
  | OnlyOne w =>
      let '(second, none, scalar) := oo_flags w in
      match kind v, scalar with
      | VScalar, true | VMapping, true => (s, OErr AttributeErr)
      | _, _ =>
          (* (the memoisation of _unique_strategy by this call is not modelled: whenever it is read the
             result ends up hard closed, after which no getter configuration is observable) *)
          let '(f1, r) := only_one_row v second none scalar (fs s) in
          (with_fetch s v f1 (hp s), out_of (fun x => match x with Some i => OItem i | None => ONoRow end) r)
      end
  | ToRoot => ({| fs := fs s; yp := yp s; hp := hp s; rootv := rootv s; fview := None |}, OUnit)
  | Scalars i =>
      match reduce_cols (cols (rootv s)) [i] with
      | Some c => ({| fs := fs s; yp := yp s; hp := hp s; rootv := rootv s;
                      fview := Some (mkview VScalar c (ufs (rootv s))) |}, OUnit)
      | None => (s, OErr IndexErr)
      end
  | Mappings =>
      ({| fs := fs s; yp := yp s; hp := hp s; rootv := rootv s;
          fview := Some (mkview VMapping (cols (rootv s)) (ufs (rootv s))) |}, OUnit)
  | Columns idx =>
      match kind v with
      | VScalar => (s, OErr AttributeErr)
      | _ => (* @_generative: memoisations are dropped before _reduce can fail *)
             match reduce_cols (cols v) idx with
             | Some c => (set_cur_view s (set_cols (reset_memo v) c), OUnit)
             | None => (set_cur_view s (reset_memo v), OErr IndexErr)
             end
      end
  | Unique st =>
      let u := Some (length (hp s), st) in
      (* Result.unique, ScalarResult.unique and MappingResult.unique are all @_generative *)
      let v1 := set_ufs (reset_memo v) u in
      (set_cur_view {| fs := fs s; yp := yp s; hp := hp s ++ [[]]; rootv := rootv s; fview := fview s |} v1, OUnit)
  | YieldPer n =>
      ({| fs := yield_per_impl n (fs s); yp := Some n; hp := hp s; rootv := reset_memo (rootv s);
          fview := option_map reset_memo (fview s) |}, OUnit)
  | Close => ({| fs := soft_close true (fs s); yp := yp s; hp := hp s; rootv := rootv s; fview := fview s |}, OUnit)
  | Freeze =>
      let rv := rootv s in
      let '(f1, h1, r) := allrows (eff_u rv) (cols rv) (fs s) (hp s) in
      match r with
      | Ok d => ({| fs := {| src := SIter d; hardc := false |}; yp := None; hp := h1;
                    rootv := mkview VRoot (relabel (cols rv)) None; fview := None |}, OUnit)
      | Raise e => (s, OErr e)
      | Fuel => (s, OFuel)
      end
  end.

Definition init_state (st : strategy) (w : nat) (rows : list row) : istate :=
  {| fs := {| src := init_src st rows; hardc := false |}; yp := None; hp := [];
     rootv := mkview VRoot (identity_cols w) None; fview := None |}.

Fixpoint irun (s : istate) (ops : list op) : list obs :=
  match ops with
  | [] => []
  | o :: t => let '(s1, out) := istep s o in (out, hardc (fs s1)) :: irun s1 t
  end.
Definition run_impl (st : strategy) (w : nat) (rows : list row) (ops : list op) : list obs :=
  irun (init_state st w rows) ops.
