(* C26 - frame facts for operations on one fairy: only its record's fairy_ref and its own record link change *)
From Coq Require Import List ZArith Bool Arith Lia.
Import ListNotations.
From SAV.engine Require Import PoolSeq PoolSeqFrame PoolSeqLeakProofs.
Open Scope Z_scope.

(* an operation on fairy f whose record is r0: other fairies keep their record link, other records
   keep their fairy_ref, f's own link is kept or cleared *)
Record OpOn (f r0 : nat) (s s' : st) : Prop := {
  oo_other : forall g, g <> f -> f_rec s' g = f_rec s g;
  oo_self : f_rec s' f = f_rec s f \/ f_rec s' f = None;
  oo_rec : forall r', r' <> r0 -> r_fairy s' r' = r_fairy s r' }.

Lemma OpOn_refl : forall f r0 s, OpOn f r0 s s.
Proof. intros; constructor; auto. Qed.
Lemma OpOn_trans : forall f r0 a b c, OpOn f r0 a b -> OpOn f r0 b c -> OpOn f r0 a c.
Proof.
  intros f r0 a b c [] []; constructor.
  - intros. rewrite oo_other1, oo_other0; auto.
  - destruct oo_self1 as [H|H]; [rewrite H; auto|auto].
  - intros. rewrite oo_rec1, oo_rec0; auto.
Qed.
Lemma OpOn_same : forall f r0 s s', f_rec s' = f_rec s -> r_fairy s' = r_fairy s -> OpOn f r0 s s'.
Proof. intros f r0 s s' H1 H2. constructor; rewrite ?H1, ?H2; auto. Qed.
Lemma OpOn_fr : forall f r0 s s', fr s' = fr s -> r_fairy s' = r_fairy s -> OpOn f r0 s s'.
Proof. intros f r0 s s' H1 H2. apply OpOn_same; auto. unfold f_rec; rewrite H1; auto. Qed.
Lemma RecLevel_OpOn : forall f r0 s s', RecLevel s s' -> OpOn f r0 s s'.
Proof. intros f r0 s s' []. apply OpOn_fr; auto. Qed.

Section OpOnS.
Variable cf : cfg.
Ltac ot := eapply OpOn_trans.
Ltac oleaf := apply OpOn_same; reflexivity.

Lemma do_return_conn_oo : forall f r0 r s x s', do_return_conn cf r s = (x, s') -> OpOn f r0 s s'.
Proof.
  intros. apply OpOn_fr; [eapply do_return_conn_fr; eauto|eapply do_return_conn_rfairy; eauto].
Qed.

Lemma clear_fairy_oo : forall f r s, OpOn f r s (set_r_fairy s (upd (r_fairy s) r None)).
Proof.
  intros. constructor; auto. intros r' Hr.
  change (r_fairy (set_r_fairy s (upd (r_fairy s) r None))) with (upd (r_fairy s) r None).
  apply upd_other; auto.
Qed.

Lemma rec_checkin_oo : forall f r fwc s x s', rec_checkin cf r fwc s = (x, s') -> OpOn f r s s'.
Proof.
  unfold rec_checkin; intros. dm H.
  - ot; [apply clear_fairy_oo|]. eapply do_return_conn_oo; eauto.
  - dm H; [inv H; apply OpOn_refl|eapply do_return_conn_oo; eauto].
Qed.

Lemma checkin_failed_oo : forall f r fwc s x s', checkin_failed cf r fwc s = (x, s') -> OpOn f r s s'.
Proof.
  unfold checkin_failed; intros.
  destruct (rec_invalidate cf r false s) as [y s1] eqn:E1. apply rec_invalidate_rl, (RecLevel_OpOn f r) in E1.
  dm H.
  - ot; [exact E1|]. eapply rec_checkin_oo; eauto.
  - destruct (rec_checkin cf r fwc s1) as [w s2] eqn:E2. apply (rec_checkin_oo f) in E2.
    destruct w; inv H; (ot; [exact E1|exact E2]).
Qed.

Lemma finalize_oo : forall f r0 dbc r gcf twr fy s x s', finalize cf dbc r gcf twr fy s = (x, s') ->
  (forall f', fy = Some f' -> f' = f) -> (forall r', r = Some r' -> r' = r0) -> OpOn f r0 s s'.
Proof.
  intros f r0 dbc r gcf twr fy s x s' H Hf Hr.
  eapply (finalize_gen cf (OpOn f r0) (OpOn_refl f r0) (OpOn_trans f r0)); [| | | |exact H].
  - intros. apply RecLevel_OpOn; auto.
  - intros. oleaf.
  - intros r1 s1 x1 s2 Hr1 Hc. rewrite <- (Hr r1 Hr1). eapply rec_checkin_oo; eauto.
  - intros s1. unfold clear_fairy. destruct fy as [f'|]; [|apply OpOn_refl]. rewrite (Hf f' eq_refl). constructor; auto.
    + intros g Hg. change (f_rec (set_f_rec (set_f_dbc s1 (upd (f_dbc s1) f None)) (upd (f_rec s1) f None)) g)
        with (upd (f_rec s1) f None g). apply upd_other; auto.
    + right. change (f_rec (set_f_rec (set_f_dbc s1 (upd (f_dbc s1) f None)) (upd (f_rec s1) f None)) f)
        with (upd (f_rec s1) f None f). apply upd_same.
Qed.

Lemma fairy_checkin_oo : forall f r0 twr s x s', fairy_checkin cf f twr s = (x, s') ->
  (forall r, f_rec s f = Some r -> r = r0) -> OpOn f r0 s s'.
Proof. unfold fairy_checkin; intros. eapply finalize_oo; eauto. intros f' Hf; inv Hf; auto. Qed.

Lemma fairy_close_oo : forall f r0 s x s', fairy_close cf f s = (x, s') ->
  (forall r, f_rec s f = Some r -> r = r0) -> OpOn f r0 s s'.
Proof.
  unfold fairy_close; intros. dm H.
  - eapply fairy_checkin_oo in H; [|exact H0]. ot; [|exact H]. oleaf.
  - inv H. oleaf.
Qed.

Lemma fairy_invalidate_oo : forall f r0 soft s x s', fairy_invalidate cf f soft s = (x, s') ->
  (forall r, f_rec s f = Some r -> r = r0) -> OpOn f r0 s s'.
Proof.
  unfold fairy_invalidate; intros f r0 soft s x s' H Hr. dm H; [|inv H; apply OpOn_refl].
  match type of H with (let '(_, _) := ?e in _) = _ => destruct e as [y s1] eqn:E0 end.
  assert (R0 : fr s1 = fr s /\ r_fairy s1 = r_fairy s).
  { dm E0; [apply rec_invalidate_rl in E0; destruct E0; auto|inv E0; auto]. }
  destruct R0 as [R1 R2].
  destruct y; [|inv H; apply OpOn_fr; auto]. destruct soft; [inv H; apply OpOn_fr; auto|].
  eapply fairy_checkin_oo in H.
  - ot; [apply OpOn_fr; eauto|]. ot; [|exact H]. oleaf.
  - intros r. change (f_rec (set_f_dbc s1 (upd (f_dbc s1) f None)) f) with (f_rec s1 f).
    unfold f_rec in *. rewrite R1. apply Hr.
Qed.

Lemma fairy_detach_oo : forall f r0 s x s', fairy_detach cf f s = (x, s') ->
  (forall r, f_rec s f = Some r -> r = r0) -> OpOn f r0 s s'.
Proof.
  unfold fairy_detach; intros f r0 s x s' H Hr. destruct (f_rec s f) as [r|] eqn:Er; [|inv H; apply OpOn_refl].
  rewrite (Hr r eq_refl) in *.
  match type of H with context [do_return_conn cf ?r ?s0] =>
    destruct (do_return_conn cf r s0) as [y s4] eqn:E1; set (sx := s0) in * end.
  eapply (do_return_conn_oo f r0) in E1.
  assert (M0 : OpOn f r0 s sx).
  { subst sx. ot; [apply clear_fairy_oo|]. unfold mark_det. repeat dm_goal; oleaf. }
  dm H; inv H; [|ot; eauto]. ot; [exact M0|]. ot; [exact E1|].
  constructor; auto.
  - intros g Hg. change (f_rec (set_f_rec s4 (upd (f_rec s4) f None)) g) with (upd (f_rec s4) f None g).
    apply upd_other; auto.
  - right. change (f_rec (set_f_rec s4 (upd (f_rec s4) f None)) f) with (upd (f_rec s4) f None f). apply upd_same.
Qed.

Lemma pool_invalidate_oo : forall f r0 chk s x s', pool_invalidate cf f chk s = (x, s') ->
  (forall r, f_rec s f = Some r -> r = r0) -> OpOn f r0 s s'.
Proof.
  unfold pool_invalidate; intros f r0 chk s x s' H Hr.
  match type of H with context [if ?b then (let (_, _) := now cf s in _) else s] =>
    set (s1 := if b then (let (t, s1) := now cf s in mark_all (set_inv_time s1 t)) else s) in *;
    assert (M0 : fr s1 = fr s /\ r_fairy s1 = r_fairy s) end.
  { subst s1. match goal with |- fr (if ?b then _ else _) = _ /\ _ => destruct b end; [|auto].
    destruct (now cf s) as [t s2] eqn:En. apply now_rl in En. destruct En.
    split; [rewrite <- rl_fr; reflexivity|rewrite <- rl_fairy; reflexivity]. }
  destruct M0 as [M1 M2].
  destruct chk; [|inv H; apply OpOn_fr; auto].
  dm H; [|inv H; apply OpOn_fr; auto].
  eapply fairy_invalidate_oo in H.
  - ot; [apply OpOn_fr; eauto|exact H].
  - intros r. unfold f_rec in *. rewrite M1. apply Hr.
Qed.

Lemma checkout_loop_oo : forall n f r0 s x s', checkout_loop cf n f s = (x, s') ->
  (forall r, f_rec s f = Some r -> r = r0) -> OpOn f r0 s s'.
Proof.
  induction n; intros f r0 s x s' H Hr; cbn [checkout_loop] in H.
  - destruct (fairy_invalidate cf f false s) as [y s1] eqn:E. eapply (fairy_invalidate_oo f r0) in E; eauto.
    destruct y; inv H; auto.
  - destruct (f_rec s f) as [r|] eqn:Er; [|inv H; apply OpOn_refl].
    rewrite (Hr r eq_refl) in *. clear Hr.
    destruct (f_dbc s f) as [c|] eqn:Ec; [|inv H; apply OpOn_refl].
    set (s0 := set_r_fresh s (upd (r_fresh s) r0 false)) in *.
    assert (M0 : OpOn f r0 s s0) by (subst s0; oleaf).
    match type of H with (let '(_, _) := ?e in _) = _ => destruct e as [x1 s1] eqn:E1 end.
    assert (M1 : RecLevel s0 s1).
    { dm E1; [|inv E1; apply RecLevel_refl].
      destruct (ext_ping c s0) as [z s2] eqn:Ep. apply ext_ping_rl in Ep.
      repeat dm E1; inv E1; auto. }
    match type of H with (let '(_, _) := ?e in _) = _ => destruct e as [x2 s2] eqn:E2 end.
    assert (M2 : RecLevel s1 s2).
    { destruct x1; [|inv E2; apply RecLevel_refl]. dm E2; [|inv E2; apply RecLevel_refl].
      eapply ext_event_rl; eauto. }
    assert (R02 : RecLevel s0 s2) by (eapply RecLevel_trans; eauto).
    assert (M02 : OpOn f r0 s s2) by (ot; [exact M0|apply RecLevel_OpOn; auto]).
    assert (Fr2 : f_rec s2 f = Some r0).
    { destruct R02. unfold f_rec in *. rewrite rl_fr. exact Er. }
    destruct x2 as [|e]; [inv H; auto|].
    destruct (is_disc e).
    + destruct (rec_invalidate cf r0 false s2) as [y3 s3] eqn:E3.
      apply rec_invalidate_rl in E3.
      destruct y3; [|inv H; ot; [exact M02|apply RecLevel_OpOn; auto]].
      match type of H with (let '(_, _) := ?e in _) = _ => destruct e as [y4 s4] eqn:E4 end.
      assert (Fr3 : f_rec s3 f = Some r0) by (destruct E3; unfold f_rec in *; rewrite rl_fr; auto).
      assert (M4 : OpOn f r0 s3 s4 /\ f_rec s4 f = Some r0).
      { dm E4; [|inv E4; split; [apply OpOn_refl|auto]].
        pose proof E4 as E4'. eapply (pool_invalidate_oo f r0) in E4; [|intros r1 Hr1; congruence].
        split; auto. unfold pool_invalidate in E4'.
        match type of E4' with (_, ?sa) = _ => assert (fr sa = fr s3) end.
        { dm_goal; auto. destruct (now cf s3) as [t s5] eqn:En. apply now_rl in En. destruct En.
          rewrite <- rl_fr. reflexivity. }
        inv E4'. unfold f_rec in *. rewrite H0. exact Fr3. }
      destruct M4 as [M4 Fr4].
      destruct y4; [|inv H; ot; [exact M02|]; ot; [apply RecLevel_OpOn; eauto|auto]].
      destruct (get_connection cf r0 s4) as [[c'|err] s5] eqn:E5;
        pose proof (get_connection_rl _ _ _ _ _ E5) as M5.
      * eapply (IHn f r0) in H.
        -- ot; [exact M02|]. ot; [apply RecLevel_OpOn; exact E3|]. ot; [exact M4|].
           ot; [apply RecLevel_OpOn; exact M5|]. ot; [|exact H]. oleaf.
        -- intros r1. change (f_rec (set_f_dbc s5 (upd (f_dbc s5) f (Some c'))) f) with (f_rec s5 f).
           destruct M5. unfold f_rec in *. rewrite rl_fr. congruence.
      * destruct (checkin_failed cf r0 true s5) as [y6 s6] eqn:E6.
        pose proof (checkin_failed_oo f _ _ _ _ _ E6) as M6.
        assert (OpOn f r0 s s6).
        { ot; [exact M02|]. ot; [apply RecLevel_OpOn; exact E3|]. ot; [exact M4|].
          ot; [apply RecLevel_OpOn; exact M5|exact M6]. }
        unfold reraise_after in H. destruct y6; inv H; auto.
    + rewrite Fr2 in H.
      destruct (checkin_failed cf r0 true s2) as [y6 s6] eqn:E6.
      pose proof (checkin_failed_oo f _ _ _ _ _ E6) as M6.
      assert (OpOn f r0 s s6) by (ot; eauto).
      unfold reraise_after in H. destruct y6; inv H; auto.
Qed.

End OpOnS.
