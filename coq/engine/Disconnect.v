(* C27 - a disconnect invalidates the connection and blocks silent continuation (model only).

   One Connection over a QueuePool (FIFO) whose other records are idle; every DBAPI call (connect, execute,
   commit, rollback) consults a fault oracle indexed by the call's number: ok / error / disconnect-class
   error.  Transcribes engine/base.py Connection._handle_dbapi_exception (classification, handle_error
   listeners that flip is_disconnect / invalidate_pool_on_disconnect, the finally-invalidation),
   Connection.invalidate, _revalidate_connection, _invalid_transaction, _execute_context,
   begin/commit/rollback/begin_nested with RootTransaction / NestedTransaction bookkeeping, and pool/base.py
   Pool._invalidate, _ConnectionFairy.invalidate, _ConnectionRecord.get_connection (recycle on pool
   invalidation time).  time.time() is a logical clock.

   Not modelled: Connection.close() (its checkin/reset path is C26), the auto-rollback and re-entrancy
   branch of the handler (reachable only with no transaction begun on a live connection, which autobegin
   excludes for every operation of the alphabet), two-phase transactions, listeners that raise. *)
From Coq Require Import List Arith Bool.
Import ListNotations.

Inductive fault : Type := FOk | FErr | FDisc.
Inductive tstate : Type := TNone | TActive | TInactive.
(* RCustom d: a handle_error listener returned / raised its own exception, which replaces the error; [d] is the
   classification (is_disconnect) the handler ended with - invisible in the exception, visible in the state *)
Inductive code : Type := ROk | RErr | RDisc | RPending | RInvalidReq | RCustom (d : bool).

(* one handle_error listener: what it assigns to ctx.is_disconnect / ctx.invalidate_pool_on_disconnect (None:
   untouched) and how it ends: 0 returns None, 1 returns an exception, 2 raises an exception *)
Record lbeh : Type := mkl { lb_d : option bool; lb_p : option bool; lb_out : nat }.

Definition is_disc (c : code) : bool :=
  match c with RDisc => true | RCustom d => d | _ => false end.
Inductive op : Type := OExec | OBegin | OCommit | ORollback | OSavepoint | ORollbackSp | OReleaseSp.

(* DBAPI call kinds in the log *)
Definition K_CONNECT := 0.
Definition K_EXEC := 1.
Definition K_COMMIT := 2.
Definition K_ROLLBACK := 3.
Definition K_CLOSE := 4.

Record st : Type := mk {
  s_n : nat;                          (* DBAPI calls made so far: the index the fault oracle sees *)
  s_log : list (nat * nat);           (* (kind, DBAPI connection id), newest first *)
  s_nconn : nat;                      (* connections opened so far = id of the next one *)
  s_clock : nat;                      (* logical time.time() *)
  s_idle : list (option (nat * nat)); (* pool queue, front first: a record's connection (id, starttime) *)
  s_invt : nat;                       (* Pool._invalidate_time *)
  s_cur : option (nat * nat);         (* Connection._dbapi_connection (id, starttime); None = invalidated *)
  s_txn : tstate;                     (* Connection._transaction: none / is_active / not is_active *)
  s_nested : list bool                (* Connection._nested_transaction chain, innermost first: is_active *)
}.

Definition set_txn (s : st) (t : tstate) (n : list bool) : st :=
  mk (s_n s) (s_log s) (s_nconn s) (s_clock s) (s_idle s) (s_invt s) (s_cur s) t n.
Definition set_nested (s : st) (n : list bool) : st := set_txn s (s_txn s) n.
Definition set_cur (s : st) (idle : list (option (nat * nat))) (c : option (nat * nat)) : st :=
  mk (s_n s) (s_log s) (s_nconn s) (s_clock s) idle (s_invt s) c (s_txn s) (s_nested s).
Definition add_log (s : st) (k cid : nat) : st :=
  mk (s_n s) ((k, cid) :: s_log s) (s_nconn s) (s_clock s) (s_idle s) (s_invt s) (s_cur s) (s_txn s) (s_nested s).

Section Model.
  Variable faults : nat -> fault.   (* what the n-th DBAPI call does *)
  Variable lst : list lbeh.         (* the handle_error listeners, in registration order *)

  (* a fault-consulting DBAPI call *)
  Definition dbcall (k cid : nat) (s : st) : st * fault :=
    (mk (S (s_n s)) ((k, cid) :: s_log s) (s_nconn s) (s_clock s) (s_idle s) (s_invt s) (s_cur s)
        (s_txn s) (s_nested s),
     faults (S (s_n s))).

  Definition assign (o : option bool) (x : bool) : bool := match o with Some y => y | None => x end.

  (* the listener loop: ctx.is_disconnect, ctx.invalidate_pool_on_disconnect, "an exception replaces the error";
     a raising listener ends the loop (break) - what the listeners assigned so far is kept *)
  Fixpoint run_chain (l : list lbeh) (d ip exn : bool) : bool * bool * bool :=
    match l with
    | [] => (d, ip, exn)
    | b :: r =>
        let d' := assign (lb_d b) d in
        let ip' := assign (lb_p b) ip in
        match lb_out b with
        | 2 => (d', ip', true)
        | 1 => run_chain r d' ip' true
        | _ => run_chain r d' ip' exn
        end
    end.

  (* Connection._is_disconnect, the instance attribute shadowing the class-level False: its value after one
     run of the handler that started with the attribute at [flag], the dialect saying [d0], on a Connection
     that is / is not already invalidated [inv] (the deletion does not look at it).  The model of the handler therefore starts
     from flag = False. *)
  Definition flag_after (flag d0 inv : bool) : bool :=
    let f1 := if flag then true else d0 in            (* if not self._is_disconnect: self._is_disconnect = ... *)
    let f2 := fst (fst (run_chain lst f1 true false)) in   (* if self._is_disconnect != ctx.is_disconnect: ... *)
    if f2 then false else f2.                          (* finally: if self._is_disconnect: del ... *)

  (* classification after the listeners ran: (is_disconnect, invalidate_pool_on_disconnect, replaced) *)
  Definition classify (f : fault) : bool * bool * bool :=
    run_chain lst (match f with FDisc => true | _ => false end) true false.

  Definition err_code (d exn : bool) : code := if exn then RCustom d else if d then RDisc else RErr.

  (* an exception that is not a DBAPI error travelling through the handler (PendingRollbackError out of
     Connection.connection inside _commit_impl): the listeners still run and may replace it *)
  Definition pass_code (c : code) : code :=
    match run_chain lst false true false with (d, _, true) => RCustom d | _ => c end.

  (* _handle_dbapi_exception for a DBAPI error [f <> FOk] *)
  Definition handle (f : fault) (s : st) : st * code :=
    match classify f with
    | (d, ip, exn) =>
        if d then
          match s_cur s with
          | Some (cid, _) =>
              (* Pool._invalidate: stamp;  fairy.invalidate: close, record checked in empty;  Connection.invalidate *)
              let clk := if ip then S (s_clock s) else s_clock s in
              (mk (s_n s) ((K_CLOSE, cid) :: s_log s) (s_nconn s) clk (s_idle s ++ [None])
                  (if ip then clk else s_invt s) None (s_txn s) (s_nested s), err_code true exn)
          | None => (s, err_code true exn)
          end
        else (s, err_code false exn)
    end.

  (* a DBAPI call on the live connection wrapped in try/except -> _handle_dbapi_exception *)
  Definition call_or_handle (k cid : nat) (s : st) : st * code :=
    let (s1, f) := dbcall k cid s in
    match f with FOk => (s1, ROk) | _ => handle f s1 end.

  (* creator(): Some connection, or the fault *)
  Definition connect (s : st) : st * (option (nat * nat) * fault) :=
    let (s1, f) := dbcall K_CONNECT (s_nconn s) s in
    match f with
    | FOk =>
        let c := (s_nconn s1, S (s_clock s1)) in
        (mk (s_n s1) (s_log s1) (S (s_nconn s1)) (S (s_clock s1)) (s_idle s1) (s_invt s1) (s_cur s1)
            (s_txn s1) (s_nested s1), (Some c, FOk))
    | _ => (s1, (None, f))
    end.

  (* engine.raw_connection(): QueuePool._do_get + _ConnectionRecord.get_connection *)
  Definition checkout (s : st) : st * fault :=
    match s_idle s with
    | [] =>
        let (s1, r) := connect s in
        match fst r with Some c => (set_cur s1 (s_idle s1) (Some c), FOk) | None => (s1, snd r) end
    | r0 :: rest =>
        let reconnect (s0 : st) :=
          let (s1, r) := connect s0 in
          match fst r with
          | Some c => (set_cur s1 rest (Some c), FOk)
          | None => (set_cur s1 (rest ++ [None]) None, snd r)      (* _checkin_failed *)
          end in
        match r0 with
        | Some (cid, start) =>
            if Nat.ltb start (s_invt s) then reconnect (add_log s K_CLOSE cid)   (* recycle *)
            else (set_cur s rest (Some (cid, start)), FOk)
        | None => reconnect s
        end
    end.

  (* Connection.connection / the head of _execute_context: None = a DBAPI connection is present *)
  Definition ensure (s : st) : st * option code :=
    match s_cur s with
    | Some _ => (s, None)
    | None =>
        match s_txn s with
        | TNone =>
            let (s1, f) := checkout s in
            match f with FOk => (s1, None) | _ => let (s2, c) := handle f s1 in (s2, Some c) end
        | _ => (s, Some RPending)                                   (* _invalid_transaction *)
        end
    end.

  Definition head_inactive (n : list bool) : bool := match n with false :: _ => true | _ => false end.

  (* _execute_context + _exec_single_context *)
  Definition exec_path (s : st) : st * code :=
    let (s1, e) := ensure s in
    match e with
    | Some c => (s1, c)
    | None =>
        if match s_txn s1 with TInactive => true | _ => false end || head_inactive (s_nested s1)
        then (s1, RPending)
        else
          let s2 := match s_txn s1 with TNone => set_txn s1 TActive (s_nested s1) | _ => s1 end in
          match s_cur s2 with
          | Some (cid, _) => call_or_handle K_EXEC cid s2
          | None => (s2, ROk)
          end
    end.

  Definition begin_op (s : st) : st * code :=
    match s_txn s with
    | TNone =>
        let (s1, e) := ensure s in
        match e with Some c => (s1, c) | None => (set_txn s1 TActive (s_nested s1), ROk) end
    | _ => (s, RInvalidReq)
    end.

  Definition commit_op (s : st) : st * code :=
    match s_txn s with
    | TNone => (s, ROk)
    | TInactive => (s, RPending)
    | TActive =>
        match s_cur s with
        | None => (set_txn s TInactive [], pass_code RPending)
        | Some (cid, _) =>
            let (s1, c) := call_or_handle K_COMMIT cid s in
            match c with
            | ROk => (set_txn s1 TNone [], ROk)
            | _ => (set_txn s1 TInactive [], c)
            end
        end
    end.

  Definition rollback_op (s : st) : st * code :=
    match s_txn s with
    | TNone => (s, ROk)
    | TInactive => (set_txn s TNone [], ROk)
    | TActive =>
        match s_cur s with
        | None => (set_txn s TNone [], ROk)
        | Some (cid, _) =>
            let (s1, c) := call_or_handle K_ROLLBACK cid s in
            match c with
            | ROk => (set_txn s1 TNone [], ROk)
            | _ => (set_txn s1 TNone [], c)        (* finally: savepoints cancelled, transaction detached *)
            end
        end
    end.

  Definition savepoint_op (s : st) : st * code :=
    let (s1, c1) := match s_txn s with TNone => begin_op s | _ => (s, ROk) end in
    match c1 with
    | ROk =>
        let (s2, c) := exec_path s1 in
        match c with ROk => (set_nested s2 (true :: s_nested s2), ROk) | _ => (s2, c) end
    | _ => (s1, c1)
    end.

  (* NestedTransaction.rollback() of the connection's current savepoint (nothing when there is none) *)
  Definition rollback_sp_op (s : st) : st * code :=
    match s_nested s with
    | [] => (s, ROk)
    | a :: rest =>
        if a && match s_txn s with TActive => true | _ => false end &&
           match s_cur s with Some _ => true | None => false end
        then let (s1, c) := exec_path s in (set_nested s1 rest, c)
        else (set_nested s rest, ROk)
    end.

  (* NestedTransaction.commit() of the current savepoint *)
  Definition release_sp_op (s : st) : st * code :=
    match s_nested s with
    | [] => (s, ROk)
    | true :: rest =>
        let (s1, c) := exec_path s in
        match c with ROk => (set_nested s1 rest, ROk) | _ => (set_nested s1 (false :: rest), c) end
    | false :: _ => (s, RPending)
    end.

  Definition step (o : op) (s : st) : st * code :=
    match o with
    | OExec => exec_path s
    | OBegin => begin_op s
    | OCommit => commit_op s
    | ORollback => rollback_op s
    | OSavepoint => savepoint_op s
    | ORollbackSp => rollback_sp_op s
    | OReleaseSp => release_sp_op s
    end.

  (* a history: per operation its result, the state after it *)
  Fixpoint run (h : list op) (s : st) : list (code * st) :=
    match h with
    | [] => []
    | o :: h' => let (s', c) := step o s in (c, s') :: run h' s'
    end.

  Fixpoint final (h : list op) (s : st) : st :=
    match h with [] => s | o :: h' => final h' (fst (step o s)) end.
End Model.

Definition invalidated (s : st) : bool := match s_cur s with None => true | Some _ => false end.
Definition in_txn (s : st) : bool := match s_txn s with TNone => false | _ => true end.

(* the DBAPI calls made between two states (oldest first) *)
Definition calls_since (before after : st) : list (nat * nat) :=
  rev (firstn (length (s_log after) - length (s_log before)) (s_log after)).

(* initial state: the connection holds DBAPI connection 0, [warm] further connections idle in the pool *)
Definition init (warm : nat) : st :=
  mk 0 [] (S warm) (S warm)
     (map (fun i => Some (i, S i)) (seq 1 warm)) 0 (Some (0, 1)) TNone [].
