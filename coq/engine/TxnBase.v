(* Basic facts about the state accessors/updates of the C23 model, and the unguarded results:
   well-formedness of every reachable state, fuel sufficiency, operations on an inactive
   transaction object send nothing to the database. *)
From Coq Require Import List ZArith NArith Bool Arith Lia.
Import ListNotations.
From SAV.engine Require Import RefDb Txn.

Arguments get : simpl never.
Arguments active : simpl never.
Arguments is_root : simpl never.
Arguments sp : simpl never.
Arguments prev : simpl never.
Arguments subject : simpl never.
Arguments outer : simpl never.

(* ---- generated: every accessor ignores every non-[txns] update ---- *)
Lemma get_set_root : forall k o s, get k (set_root o s) = get k s. Proof. reflexivity. Qed.
Lemma get_set_nested : forall k o s, get k (set_nested o s) = get k s. Proof. reflexivity. Qed.
Lemma get_set_ctx : forall k o s, get k (set_ctx o s) = get k s. Proof. reflexivity. Qed.
Lemma get_set_seq : forall k n s, get k (set_seq n s) = get k s. Proof. reflexivity. Qed.
Lemma get_set_closed : forall k b s, get k (set_closed b s) = get k s. Proof. reflexivity. Qed.
Lemma get_set_in_begin : forall k b s, get k (set_in_begin b s) = get k s. Proof. reflexivity. Qed.
Lemma get_set_beginfail : forall k n s, get k (set_beginfail n s) = get k s. Proof. reflexivity. Qed.
Lemma get_set_rbfail : forall k b s, get k (set_rbfail b s) = get k s. Proof. reflexivity. Qed.
Lemma get_set_db : forall k d s, get k (set_db d s) = get k s. Proof. reflexivity. Qed.
Lemma get_add_out : forall k e s, get k (add_out e s) = get k s. Proof. reflexivity. Qed.
Lemma get_add_warn : forall k s, get k (add_warn s) = get k s. Proof. reflexivity. Qed.
Lemma get_clear_log : forall k s, get k (clear_log s) = get k s. Proof. reflexivity. Qed.
Lemma active_set_root : forall k o s, active k (set_root o s) = active k s. Proof. reflexivity. Qed.
Lemma active_set_nested : forall k o s, active k (set_nested o s) = active k s. Proof. reflexivity. Qed.
Lemma active_set_ctx : forall k o s, active k (set_ctx o s) = active k s. Proof. reflexivity. Qed.
Lemma active_set_seq : forall k n s, active k (set_seq n s) = active k s. Proof. reflexivity. Qed.
Lemma active_set_closed : forall k b s, active k (set_closed b s) = active k s. Proof. reflexivity. Qed.
Lemma active_set_in_begin : forall k b s, active k (set_in_begin b s) = active k s. Proof. reflexivity. Qed.
Lemma active_set_beginfail : forall k n s, active k (set_beginfail n s) = active k s. Proof. reflexivity. Qed.
Lemma active_set_rbfail : forall k b s, active k (set_rbfail b s) = active k s. Proof. reflexivity. Qed.
Lemma active_set_db : forall k d s, active k (set_db d s) = active k s. Proof. reflexivity. Qed.
Lemma active_add_out : forall k e s, active k (add_out e s) = active k s. Proof. reflexivity. Qed.
Lemma active_add_warn : forall k s, active k (add_warn s) = active k s. Proof. reflexivity. Qed.
Lemma active_clear_log : forall k s, active k (clear_log s) = active k s. Proof. reflexivity. Qed.
Lemma is_root_set_root : forall k o s, is_root k (set_root o s) = is_root k s. Proof. reflexivity. Qed.
Lemma is_root_set_nested : forall k o s, is_root k (set_nested o s) = is_root k s. Proof. reflexivity. Qed.
Lemma is_root_set_ctx : forall k o s, is_root k (set_ctx o s) = is_root k s. Proof. reflexivity. Qed.
Lemma is_root_set_seq : forall k n s, is_root k (set_seq n s) = is_root k s. Proof. reflexivity. Qed.
Lemma is_root_set_closed : forall k b s, is_root k (set_closed b s) = is_root k s. Proof. reflexivity. Qed.
Lemma is_root_set_in_begin : forall k b s, is_root k (set_in_begin b s) = is_root k s. Proof. reflexivity. Qed.
Lemma is_root_set_beginfail : forall k n s, is_root k (set_beginfail n s) = is_root k s. Proof. reflexivity. Qed.
Lemma is_root_set_rbfail : forall k b s, is_root k (set_rbfail b s) = is_root k s. Proof. reflexivity. Qed.
Lemma is_root_set_db : forall k d s, is_root k (set_db d s) = is_root k s. Proof. reflexivity. Qed.
Lemma is_root_add_out : forall k e s, is_root k (add_out e s) = is_root k s. Proof. reflexivity. Qed.
Lemma is_root_add_warn : forall k s, is_root k (add_warn s) = is_root k s. Proof. reflexivity. Qed.
Lemma is_root_clear_log : forall k s, is_root k (clear_log s) = is_root k s. Proof. reflexivity. Qed.
Lemma sp_set_root : forall k o s, sp k (set_root o s) = sp k s. Proof. reflexivity. Qed.
Lemma sp_set_nested : forall k o s, sp k (set_nested o s) = sp k s. Proof. reflexivity. Qed.
Lemma sp_set_ctx : forall k o s, sp k (set_ctx o s) = sp k s. Proof. reflexivity. Qed.
Lemma sp_set_seq : forall k n s, sp k (set_seq n s) = sp k s. Proof. reflexivity. Qed.
Lemma sp_set_closed : forall k b s, sp k (set_closed b s) = sp k s. Proof. reflexivity. Qed.
Lemma sp_set_in_begin : forall k b s, sp k (set_in_begin b s) = sp k s. Proof. reflexivity. Qed.
Lemma sp_set_beginfail : forall k n s, sp k (set_beginfail n s) = sp k s. Proof. reflexivity. Qed.
Lemma sp_set_rbfail : forall k b s, sp k (set_rbfail b s) = sp k s. Proof. reflexivity. Qed.
Lemma sp_set_db : forall k d s, sp k (set_db d s) = sp k s. Proof. reflexivity. Qed.
Lemma sp_add_out : forall k e s, sp k (add_out e s) = sp k s. Proof. reflexivity. Qed.
Lemma sp_add_warn : forall k s, sp k (add_warn s) = sp k s. Proof. reflexivity. Qed.
Lemma sp_clear_log : forall k s, sp k (clear_log s) = sp k s. Proof. reflexivity. Qed.
Lemma prev_set_root : forall k o s, prev k (set_root o s) = prev k s. Proof. reflexivity. Qed.
Lemma prev_set_nested : forall k o s, prev k (set_nested o s) = prev k s. Proof. reflexivity. Qed.
Lemma prev_set_ctx : forall k o s, prev k (set_ctx o s) = prev k s. Proof. reflexivity. Qed.
Lemma prev_set_seq : forall k n s, prev k (set_seq n s) = prev k s. Proof. reflexivity. Qed.
Lemma prev_set_closed : forall k b s, prev k (set_closed b s) = prev k s. Proof. reflexivity. Qed.
Lemma prev_set_in_begin : forall k b s, prev k (set_in_begin b s) = prev k s. Proof. reflexivity. Qed.
Lemma prev_set_beginfail : forall k n s, prev k (set_beginfail n s) = prev k s. Proof. reflexivity. Qed.
Lemma prev_set_rbfail : forall k b s, prev k (set_rbfail b s) = prev k s. Proof. reflexivity. Qed.
Lemma prev_set_db : forall k d s, prev k (set_db d s) = prev k s. Proof. reflexivity. Qed.
Lemma prev_add_out : forall k e s, prev k (add_out e s) = prev k s. Proof. reflexivity. Qed.
Lemma prev_add_warn : forall k s, prev k (add_warn s) = prev k s. Proof. reflexivity. Qed.
Lemma prev_clear_log : forall k s, prev k (clear_log s) = prev k s. Proof. reflexivity. Qed.
Lemma subject_set_root : forall k o s, subject k (set_root o s) = subject k s. Proof. reflexivity. Qed.
Lemma subject_set_nested : forall k o s, subject k (set_nested o s) = subject k s. Proof. reflexivity. Qed.
Lemma subject_set_ctx : forall k o s, subject k (set_ctx o s) = subject k s. Proof. reflexivity. Qed.
Lemma subject_set_seq : forall k n s, subject k (set_seq n s) = subject k s. Proof. reflexivity. Qed.
Lemma subject_set_closed : forall k b s, subject k (set_closed b s) = subject k s. Proof. reflexivity. Qed.
Lemma subject_set_in_begin : forall k b s, subject k (set_in_begin b s) = subject k s. Proof. reflexivity. Qed.
Lemma subject_set_beginfail : forall k n s, subject k (set_beginfail n s) = subject k s. Proof. reflexivity. Qed.
Lemma subject_set_rbfail : forall k b s, subject k (set_rbfail b s) = subject k s. Proof. reflexivity. Qed.
Lemma subject_set_db : forall k d s, subject k (set_db d s) = subject k s. Proof. reflexivity. Qed.
Lemma subject_add_out : forall k e s, subject k (add_out e s) = subject k s. Proof. reflexivity. Qed.
Lemma subject_add_warn : forall k s, subject k (add_warn s) = subject k s. Proof. reflexivity. Qed.
Lemma subject_clear_log : forall k s, subject k (clear_log s) = subject k s. Proof. reflexivity. Qed.
Lemma outer_set_root : forall k o s, outer k (set_root o s) = outer k s. Proof. reflexivity. Qed.
Lemma outer_set_nested : forall k o s, outer k (set_nested o s) = outer k s. Proof. reflexivity. Qed.
Lemma outer_set_ctx : forall k o s, outer k (set_ctx o s) = outer k s. Proof. reflexivity. Qed.
Lemma outer_set_seq : forall k n s, outer k (set_seq n s) = outer k s. Proof. reflexivity. Qed.
Lemma outer_set_closed : forall k b s, outer k (set_closed b s) = outer k s. Proof. reflexivity. Qed.
Lemma outer_set_in_begin : forall k b s, outer k (set_in_begin b s) = outer k s. Proof. reflexivity. Qed.
Lemma outer_set_beginfail : forall k n s, outer k (set_beginfail n s) = outer k s. Proof. reflexivity. Qed.
Lemma outer_set_rbfail : forall k b s, outer k (set_rbfail b s) = outer k s. Proof. reflexivity. Qed.
Lemma outer_set_db : forall k d s, outer k (set_db d s) = outer k s. Proof. reflexivity. Qed.
Lemma outer_add_out : forall k e s, outer k (add_out e s) = outer k s. Proof. reflexivity. Qed.
Lemma outer_add_warn : forall k s, outer k (add_warn s) = outer k s. Proof. reflexivity. Qed.
Lemma outer_clear_log : forall k s, outer k (clear_log s) = outer k s. Proof. reflexivity. Qed.
Lemma len_set_root : forall o s, length (txns (set_root o s)) = length (txns s). Proof. reflexivity. Qed.
Lemma len_set_nested : forall o s, length (txns (set_nested o s)) = length (txns s). Proof. reflexivity. Qed.
Lemma len_set_ctx : forall o s, length (txns (set_ctx o s)) = length (txns s). Proof. reflexivity. Qed.
Lemma len_set_seq : forall n s, length (txns (set_seq n s)) = length (txns s). Proof. reflexivity. Qed.
Lemma len_set_closed : forall b s, length (txns (set_closed b s)) = length (txns s). Proof. reflexivity. Qed.
Lemma len_set_in_begin : forall b s, length (txns (set_in_begin b s)) = length (txns s). Proof. reflexivity. Qed.
Lemma len_set_beginfail : forall n s, length (txns (set_beginfail n s)) = length (txns s). Proof. reflexivity. Qed.
Lemma len_set_rbfail : forall b s, length (txns (set_rbfail b s)) = length (txns s). Proof. reflexivity. Qed.
Lemma len_set_db : forall d s, length (txns (set_db d s)) = length (txns s). Proof. reflexivity. Qed.
Lemma len_add_out : forall e s, length (txns (add_out e s)) = length (txns s). Proof. reflexivity. Qed.
Lemma len_add_warn : forall s, length (txns (add_warn s)) = length (txns s). Proof. reflexivity. Qed.
Lemma len_clear_log : forall s, length (txns (clear_log s)) = length (txns s). Proof. reflexivity. Qed.
Global Hint Rewrite get_set_root get_set_nested get_set_ctx get_set_seq get_set_closed get_set_in_begin get_set_beginfail get_set_rbfail get_set_db get_add_out get_add_warn get_clear_log active_set_root active_set_nested active_set_ctx active_set_seq active_set_closed active_set_in_begin active_set_beginfail active_set_rbfail active_set_db active_add_out active_add_warn active_clear_log is_root_set_root is_root_set_nested is_root_set_ctx is_root_set_seq is_root_set_closed is_root_set_in_begin is_root_set_beginfail is_root_set_rbfail is_root_set_db is_root_add_out is_root_add_warn is_root_clear_log sp_set_root sp_set_nested sp_set_ctx sp_set_seq sp_set_closed sp_set_in_begin sp_set_beginfail sp_set_rbfail sp_set_db sp_add_out sp_add_warn sp_clear_log prev_set_root prev_set_nested prev_set_ctx prev_set_seq prev_set_closed prev_set_in_begin prev_set_beginfail prev_set_rbfail prev_set_db prev_add_out prev_add_warn prev_clear_log subject_set_root subject_set_nested subject_set_ctx subject_set_seq subject_set_closed subject_set_in_begin subject_set_beginfail subject_set_rbfail subject_set_db subject_add_out subject_add_warn subject_clear_log outer_set_root outer_set_nested outer_set_ctx outer_set_seq outer_set_closed outer_set_in_begin outer_set_beginfail outer_set_rbfail outer_set_db outer_add_out outer_add_warn outer_clear_log len_set_root len_set_nested len_set_ctx len_set_seq len_set_closed len_set_in_begin len_set_beginfail len_set_rbfail len_set_db len_add_out len_add_warn len_clear_log : st.

(* ---- generated: projections of updated states ---- *)
Lemma c_root_set_root : forall o s, c_root (set_root o s) = o. Proof. reflexivity. Qed.
Lemma c_root_set_nested : forall o s, c_root (set_nested o s) = c_root s. Proof. reflexivity. Qed.
Lemma c_root_set_ctx : forall o s, c_root (set_ctx o s) = c_root s. Proof. reflexivity. Qed.
Lemma c_root_set_seq : forall n s, c_root (set_seq n s) = c_root s. Proof. reflexivity. Qed.
Lemma c_root_set_closed : forall b s, c_root (set_closed b s) = c_root s. Proof. reflexivity. Qed.
Lemma c_root_set_in_begin : forall b s, c_root (set_in_begin b s) = c_root s. Proof. reflexivity. Qed.
Lemma c_root_set_beginfail : forall n s, c_root (set_beginfail n s) = c_root s. Proof. reflexivity. Qed.
Lemma c_root_set_rbfail : forall b s, c_root (set_rbfail b s) = c_root s. Proof. reflexivity. Qed.
Lemma c_root_set_db : forall d s, c_root (set_db d s) = c_root s. Proof. reflexivity. Qed.
Lemma c_root_add_out : forall e s, c_root (add_out e s) = c_root s. Proof. reflexivity. Qed.
Lemma c_root_add_warn : forall s, c_root (add_warn s) = c_root s. Proof. reflexivity. Qed.
Lemma c_root_clear_log : forall s, c_root (clear_log s) = c_root s. Proof. reflexivity. Qed.
Lemma c_nested_set_root : forall o s, c_nested (set_root o s) = c_nested s. Proof. reflexivity. Qed.
Lemma c_nested_set_nested : forall o s, c_nested (set_nested o s) = o. Proof. reflexivity. Qed.
Lemma c_nested_set_ctx : forall o s, c_nested (set_ctx o s) = c_nested s. Proof. reflexivity. Qed.
Lemma c_nested_set_seq : forall n s, c_nested (set_seq n s) = c_nested s. Proof. reflexivity. Qed.
Lemma c_nested_set_closed : forall b s, c_nested (set_closed b s) = c_nested s. Proof. reflexivity. Qed.
Lemma c_nested_set_in_begin : forall b s, c_nested (set_in_begin b s) = c_nested s. Proof. reflexivity. Qed.
Lemma c_nested_set_beginfail : forall n s, c_nested (set_beginfail n s) = c_nested s. Proof. reflexivity. Qed.
Lemma c_nested_set_rbfail : forall b s, c_nested (set_rbfail b s) = c_nested s. Proof. reflexivity. Qed.
Lemma c_nested_set_db : forall d s, c_nested (set_db d s) = c_nested s. Proof. reflexivity. Qed.
Lemma c_nested_add_out : forall e s, c_nested (add_out e s) = c_nested s. Proof. reflexivity. Qed.
Lemma c_nested_add_warn : forall s, c_nested (add_warn s) = c_nested s. Proof. reflexivity. Qed.
Lemma c_nested_clear_log : forall s, c_nested (clear_log s) = c_nested s. Proof. reflexivity. Qed.
Lemma c_ctx_set_root : forall o s, c_ctx (set_root o s) = c_ctx s. Proof. reflexivity. Qed.
Lemma c_ctx_set_nested : forall o s, c_ctx (set_nested o s) = c_ctx s. Proof. reflexivity. Qed.
Lemma c_ctx_set_ctx : forall o s, c_ctx (set_ctx o s) = o. Proof. reflexivity. Qed.
Lemma c_ctx_set_seq : forall n s, c_ctx (set_seq n s) = c_ctx s. Proof. reflexivity. Qed.
Lemma c_ctx_set_closed : forall b s, c_ctx (set_closed b s) = c_ctx s. Proof. reflexivity. Qed.
Lemma c_ctx_set_in_begin : forall b s, c_ctx (set_in_begin b s) = c_ctx s. Proof. reflexivity. Qed.
Lemma c_ctx_set_beginfail : forall n s, c_ctx (set_beginfail n s) = c_ctx s. Proof. reflexivity. Qed.
Lemma c_ctx_set_rbfail : forall b s, c_ctx (set_rbfail b s) = c_ctx s. Proof. reflexivity. Qed.
Lemma c_ctx_set_db : forall d s, c_ctx (set_db d s) = c_ctx s. Proof. reflexivity. Qed.
Lemma c_ctx_add_out : forall e s, c_ctx (add_out e s) = c_ctx s. Proof. reflexivity. Qed.
Lemma c_ctx_add_warn : forall s, c_ctx (add_warn s) = c_ctx s. Proof. reflexivity. Qed.
Lemma c_ctx_clear_log : forall s, c_ctx (clear_log s) = c_ctx s. Proof. reflexivity. Qed.
Lemma c_seq_set_root : forall o s, c_seq (set_root o s) = c_seq s. Proof. reflexivity. Qed.
Lemma c_seq_set_nested : forall o s, c_seq (set_nested o s) = c_seq s. Proof. reflexivity. Qed.
Lemma c_seq_set_ctx : forall o s, c_seq (set_ctx o s) = c_seq s. Proof. reflexivity. Qed.
Lemma c_seq_set_seq : forall n s, c_seq (set_seq n s) = n. Proof. reflexivity. Qed.
Lemma c_seq_set_closed : forall b s, c_seq (set_closed b s) = c_seq s. Proof. reflexivity. Qed.
Lemma c_seq_set_in_begin : forall b s, c_seq (set_in_begin b s) = c_seq s. Proof. reflexivity. Qed.
Lemma c_seq_set_beginfail : forall n s, c_seq (set_beginfail n s) = c_seq s. Proof. reflexivity. Qed.
Lemma c_seq_set_rbfail : forall b s, c_seq (set_rbfail b s) = c_seq s. Proof. reflexivity. Qed.
Lemma c_seq_set_db : forall d s, c_seq (set_db d s) = c_seq s. Proof. reflexivity. Qed.
Lemma c_seq_add_out : forall e s, c_seq (add_out e s) = c_seq s. Proof. reflexivity. Qed.
Lemma c_seq_add_warn : forall s, c_seq (add_warn s) = c_seq s. Proof. reflexivity. Qed.
Lemma c_seq_clear_log : forall s, c_seq (clear_log s) = c_seq s. Proof. reflexivity. Qed.
Lemma c_closed_set_root : forall o s, c_closed (set_root o s) = c_closed s. Proof. reflexivity. Qed.
Lemma c_closed_set_nested : forall o s, c_closed (set_nested o s) = c_closed s. Proof. reflexivity. Qed.
Lemma c_closed_set_ctx : forall o s, c_closed (set_ctx o s) = c_closed s. Proof. reflexivity. Qed.
Lemma c_closed_set_seq : forall n s, c_closed (set_seq n s) = c_closed s. Proof. reflexivity. Qed.
Lemma c_closed_set_closed : forall b s, c_closed (set_closed b s) = b. Proof. reflexivity. Qed.
Lemma c_closed_set_in_begin : forall b s, c_closed (set_in_begin b s) = c_closed s. Proof. reflexivity. Qed.
Lemma c_closed_set_beginfail : forall n s, c_closed (set_beginfail n s) = c_closed s. Proof. reflexivity. Qed.
Lemma c_closed_set_rbfail : forall b s, c_closed (set_rbfail b s) = c_closed s. Proof. reflexivity. Qed.
Lemma c_closed_set_db : forall d s, c_closed (set_db d s) = c_closed s. Proof. reflexivity. Qed.
Lemma c_closed_add_out : forall e s, c_closed (add_out e s) = c_closed s. Proof. reflexivity. Qed.
Lemma c_closed_add_warn : forall s, c_closed (add_warn s) = c_closed s. Proof. reflexivity. Qed.
Lemma c_closed_clear_log : forall s, c_closed (clear_log s) = c_closed s. Proof. reflexivity. Qed.
Lemma c_in_begin_set_root : forall o s, c_in_begin (set_root o s) = c_in_begin s. Proof. reflexivity. Qed.
Lemma c_in_begin_set_nested : forall o s, c_in_begin (set_nested o s) = c_in_begin s. Proof. reflexivity. Qed.
Lemma c_in_begin_set_ctx : forall o s, c_in_begin (set_ctx o s) = c_in_begin s. Proof. reflexivity. Qed.
Lemma c_in_begin_set_seq : forall n s, c_in_begin (set_seq n s) = c_in_begin s. Proof. reflexivity. Qed.
Lemma c_in_begin_set_closed : forall b s, c_in_begin (set_closed b s) = c_in_begin s. Proof. reflexivity. Qed.
Lemma c_in_begin_set_in_begin : forall b s, c_in_begin (set_in_begin b s) = b. Proof. reflexivity. Qed.
Lemma c_in_begin_set_beginfail : forall n s, c_in_begin (set_beginfail n s) = c_in_begin s. Proof. reflexivity. Qed.
Lemma c_in_begin_set_rbfail : forall b s, c_in_begin (set_rbfail b s) = c_in_begin s. Proof. reflexivity. Qed.
Lemma c_in_begin_set_db : forall d s, c_in_begin (set_db d s) = c_in_begin s. Proof. reflexivity. Qed.
Lemma c_in_begin_add_out : forall e s, c_in_begin (add_out e s) = c_in_begin s. Proof. reflexivity. Qed.
Lemma c_in_begin_add_warn : forall s, c_in_begin (add_warn s) = c_in_begin s. Proof. reflexivity. Qed.
Lemma c_in_begin_clear_log : forall s, c_in_begin (clear_log s) = c_in_begin s. Proof. reflexivity. Qed.
Lemma c_beginfail_set_root : forall o s, c_beginfail (set_root o s) = c_beginfail s. Proof. reflexivity. Qed.
Lemma c_beginfail_set_nested : forall o s, c_beginfail (set_nested o s) = c_beginfail s. Proof. reflexivity. Qed.
Lemma c_beginfail_set_ctx : forall o s, c_beginfail (set_ctx o s) = c_beginfail s. Proof. reflexivity. Qed.
Lemma c_beginfail_set_seq : forall n s, c_beginfail (set_seq n s) = c_beginfail s. Proof. reflexivity. Qed.
Lemma c_beginfail_set_closed : forall b s, c_beginfail (set_closed b s) = c_beginfail s. Proof. reflexivity. Qed.
Lemma c_beginfail_set_in_begin : forall b s, c_beginfail (set_in_begin b s) = c_beginfail s. Proof. reflexivity. Qed.
Lemma c_beginfail_set_beginfail : forall n s, c_beginfail (set_beginfail n s) = n. Proof. reflexivity. Qed.
Lemma c_beginfail_set_rbfail : forall b s, c_beginfail (set_rbfail b s) = c_beginfail s. Proof. reflexivity. Qed.
Lemma c_beginfail_set_db : forall d s, c_beginfail (set_db d s) = c_beginfail s. Proof. reflexivity. Qed.
Lemma c_beginfail_add_out : forall e s, c_beginfail (add_out e s) = c_beginfail s. Proof. reflexivity. Qed.
Lemma c_beginfail_add_warn : forall s, c_beginfail (add_warn s) = c_beginfail s. Proof. reflexivity. Qed.
Lemma c_beginfail_clear_log : forall s, c_beginfail (clear_log s) = c_beginfail s. Proof. reflexivity. Qed.
Lemma c_rbfail_set_root : forall o s, c_rbfail (set_root o s) = c_rbfail s. Proof. reflexivity. Qed.
Lemma c_rbfail_set_nested : forall o s, c_rbfail (set_nested o s) = c_rbfail s. Proof. reflexivity. Qed.
Lemma c_rbfail_set_ctx : forall o s, c_rbfail (set_ctx o s) = c_rbfail s. Proof. reflexivity. Qed.
Lemma c_rbfail_set_seq : forall n s, c_rbfail (set_seq n s) = c_rbfail s. Proof. reflexivity. Qed.
Lemma c_rbfail_set_closed : forall b s, c_rbfail (set_closed b s) = c_rbfail s. Proof. reflexivity. Qed.
Lemma c_rbfail_set_in_begin : forall b s, c_rbfail (set_in_begin b s) = c_rbfail s. Proof. reflexivity. Qed.
Lemma c_rbfail_set_beginfail : forall n s, c_rbfail (set_beginfail n s) = c_rbfail s. Proof. reflexivity. Qed.
Lemma c_rbfail_set_rbfail : forall b s, c_rbfail (set_rbfail b s) = b. Proof. reflexivity. Qed.
Lemma c_rbfail_set_db : forall d s, c_rbfail (set_db d s) = c_rbfail s. Proof. reflexivity. Qed.
Lemma c_rbfail_add_out : forall e s, c_rbfail (add_out e s) = c_rbfail s. Proof. reflexivity. Qed.
Lemma c_rbfail_add_warn : forall s, c_rbfail (add_warn s) = c_rbfail s. Proof. reflexivity. Qed.
Lemma c_rbfail_clear_log : forall s, c_rbfail (clear_log s) = c_rbfail s. Proof. reflexivity. Qed.
Lemma s_db_set_root : forall o s, s_db (set_root o s) = s_db s. Proof. reflexivity. Qed.
Lemma s_db_set_nested : forall o s, s_db (set_nested o s) = s_db s. Proof. reflexivity. Qed.
Lemma s_db_set_ctx : forall o s, s_db (set_ctx o s) = s_db s. Proof. reflexivity. Qed.
Lemma s_db_set_seq : forall n s, s_db (set_seq n s) = s_db s. Proof. reflexivity. Qed.
Lemma s_db_set_closed : forall b s, s_db (set_closed b s) = s_db s. Proof. reflexivity. Qed.
Lemma s_db_set_in_begin : forall b s, s_db (set_in_begin b s) = s_db s. Proof. reflexivity. Qed.
Lemma s_db_set_beginfail : forall n s, s_db (set_beginfail n s) = s_db s. Proof. reflexivity. Qed.
Lemma s_db_set_rbfail : forall b s, s_db (set_rbfail b s) = s_db s. Proof. reflexivity. Qed.
Lemma s_db_set_db : forall d s, s_db (set_db d s) = d. Proof. reflexivity. Qed.
Lemma s_db_add_out : forall e s, s_db (add_out e s) = s_db s. Proof. reflexivity. Qed.
Lemma s_db_add_warn : forall s, s_db (add_warn s) = s_db s. Proof. reflexivity. Qed.
Lemma s_db_clear_log : forall s, s_db (clear_log s) = s_db s. Proof. reflexivity. Qed.
Lemma s_out_set_root : forall o s, s_out (set_root o s) = s_out s. Proof. reflexivity. Qed.
Lemma s_out_set_nested : forall o s, s_out (set_nested o s) = s_out s. Proof. reflexivity. Qed.
Lemma s_out_set_ctx : forall o s, s_out (set_ctx o s) = s_out s. Proof. reflexivity. Qed.
Lemma s_out_set_seq : forall n s, s_out (set_seq n s) = s_out s. Proof. reflexivity. Qed.
Lemma s_out_set_closed : forall b s, s_out (set_closed b s) = s_out s. Proof. reflexivity. Qed.
Lemma s_out_set_in_begin : forall b s, s_out (set_in_begin b s) = s_out s. Proof. reflexivity. Qed.
Lemma s_out_set_beginfail : forall n s, s_out (set_beginfail n s) = s_out s. Proof. reflexivity. Qed.
Lemma s_out_set_rbfail : forall b s, s_out (set_rbfail b s) = s_out s. Proof. reflexivity. Qed.
Lemma s_out_set_db : forall d s, s_out (set_db d s) = s_out s. Proof. reflexivity. Qed.
Lemma s_out_add_out : forall e s, s_out (add_out e s) = s_out s ++ [e]. Proof. reflexivity. Qed.
Lemma s_out_add_warn : forall s, s_out (add_warn s) = s_out s. Proof. reflexivity. Qed.
Lemma s_out_clear_log : forall s, s_out (clear_log s) = []. Proof. reflexivity. Qed.
Lemma s_warns_set_root : forall o s, s_warns (set_root o s) = s_warns s. Proof. reflexivity. Qed.
Lemma s_warns_set_nested : forall o s, s_warns (set_nested o s) = s_warns s. Proof. reflexivity. Qed.
Lemma s_warns_set_ctx : forall o s, s_warns (set_ctx o s) = s_warns s. Proof. reflexivity. Qed.
Lemma s_warns_set_seq : forall n s, s_warns (set_seq n s) = s_warns s. Proof. reflexivity. Qed.
Lemma s_warns_set_closed : forall b s, s_warns (set_closed b s) = s_warns s. Proof. reflexivity. Qed.
Lemma s_warns_set_in_begin : forall b s, s_warns (set_in_begin b s) = s_warns s. Proof. reflexivity. Qed.
Lemma s_warns_set_beginfail : forall n s, s_warns (set_beginfail n s) = s_warns s. Proof. reflexivity. Qed.
Lemma s_warns_set_rbfail : forall b s, s_warns (set_rbfail b s) = s_warns s. Proof. reflexivity. Qed.
Lemma s_warns_set_db : forall d s, s_warns (set_db d s) = s_warns s. Proof. reflexivity. Qed.
Lemma s_warns_add_out : forall e s, s_warns (add_out e s) = s_warns s. Proof. reflexivity. Qed.
Lemma s_warns_add_warn : forall s, s_warns (add_warn s) = S (s_warns s). Proof. reflexivity. Qed.
Lemma s_warns_clear_log : forall s, s_warns (clear_log s) = 0. Proof. reflexivity. Qed.
Lemma txns_set_root : forall o s, txns (set_root o s) = txns s. Proof. reflexivity. Qed.
Lemma txns_set_nested : forall o s, txns (set_nested o s) = txns s. Proof. reflexivity. Qed.
Lemma txns_set_ctx : forall o s, txns (set_ctx o s) = txns s. Proof. reflexivity. Qed.
Lemma txns_set_seq : forall n s, txns (set_seq n s) = txns s. Proof. reflexivity. Qed.
Lemma txns_set_closed : forall b s, txns (set_closed b s) = txns s. Proof. reflexivity. Qed.
Lemma txns_set_in_begin : forall b s, txns (set_in_begin b s) = txns s. Proof. reflexivity. Qed.
Lemma txns_set_beginfail : forall n s, txns (set_beginfail n s) = txns s. Proof. reflexivity. Qed.
Lemma txns_set_rbfail : forall b s, txns (set_rbfail b s) = txns s. Proof. reflexivity. Qed.
Lemma txns_set_db : forall d s, txns (set_db d s) = txns s. Proof. reflexivity. Qed.
Lemma txns_add_out : forall e s, txns (add_out e s) = txns s. Proof. reflexivity. Qed.
Lemma txns_add_warn : forall s, txns (add_warn s) = txns s. Proof. reflexivity. Qed.
Lemma txns_clear_log : forall s, txns (clear_log s) = txns s. Proof. reflexivity. Qed.
Lemma c_root_push_txn : forall t s, c_root (push_txn t s) = c_root s. Proof. reflexivity. Qed.
Lemma c_root_upd_txn : forall k f s, c_root (upd_txn k f s) = c_root s. Proof. reflexivity. Qed.
Lemma c_root_set_active : forall k b s, c_root (set_active k b s) = c_root s. Proof. reflexivity. Qed.
Lemma c_nested_push_txn : forall t s, c_nested (push_txn t s) = c_nested s. Proof. reflexivity. Qed.
Lemma c_nested_upd_txn : forall k f s, c_nested (upd_txn k f s) = c_nested s. Proof. reflexivity. Qed.
Lemma c_nested_set_active : forall k b s, c_nested (set_active k b s) = c_nested s. Proof. reflexivity. Qed.
Lemma c_ctx_push_txn : forall t s, c_ctx (push_txn t s) = c_ctx s. Proof. reflexivity. Qed.
Lemma c_ctx_upd_txn : forall k f s, c_ctx (upd_txn k f s) = c_ctx s. Proof. reflexivity. Qed.
Lemma c_ctx_set_active : forall k b s, c_ctx (set_active k b s) = c_ctx s. Proof. reflexivity. Qed.
Lemma c_seq_push_txn : forall t s, c_seq (push_txn t s) = c_seq s. Proof. reflexivity. Qed.
Lemma c_seq_upd_txn : forall k f s, c_seq (upd_txn k f s) = c_seq s. Proof. reflexivity. Qed.
Lemma c_seq_set_active : forall k b s, c_seq (set_active k b s) = c_seq s. Proof. reflexivity. Qed.
Lemma c_closed_push_txn : forall t s, c_closed (push_txn t s) = c_closed s. Proof. reflexivity. Qed.
Lemma c_closed_upd_txn : forall k f s, c_closed (upd_txn k f s) = c_closed s. Proof. reflexivity. Qed.
Lemma c_closed_set_active : forall k b s, c_closed (set_active k b s) = c_closed s. Proof. reflexivity. Qed.
Lemma c_in_begin_push_txn : forall t s, c_in_begin (push_txn t s) = c_in_begin s. Proof. reflexivity. Qed.
Lemma c_in_begin_upd_txn : forall k f s, c_in_begin (upd_txn k f s) = c_in_begin s. Proof. reflexivity. Qed.
Lemma c_in_begin_set_active : forall k b s, c_in_begin (set_active k b s) = c_in_begin s. Proof. reflexivity. Qed.
Lemma c_beginfail_push_txn : forall t s, c_beginfail (push_txn t s) = c_beginfail s. Proof. reflexivity. Qed.
Lemma c_beginfail_upd_txn : forall k f s, c_beginfail (upd_txn k f s) = c_beginfail s. Proof. reflexivity. Qed.
Lemma c_beginfail_set_active : forall k b s, c_beginfail (set_active k b s) = c_beginfail s. Proof. reflexivity. Qed.
Lemma c_rbfail_push_txn : forall t s, c_rbfail (push_txn t s) = c_rbfail s. Proof. reflexivity. Qed.
Lemma c_rbfail_upd_txn : forall k f s, c_rbfail (upd_txn k f s) = c_rbfail s. Proof. reflexivity. Qed.
Lemma c_rbfail_set_active : forall k b s, c_rbfail (set_active k b s) = c_rbfail s. Proof. reflexivity. Qed.
Lemma s_db_push_txn : forall t s, s_db (push_txn t s) = s_db s. Proof. reflexivity. Qed.
Lemma s_db_upd_txn : forall k f s, s_db (upd_txn k f s) = s_db s. Proof. reflexivity. Qed.
Lemma s_db_set_active : forall k b s, s_db (set_active k b s) = s_db s. Proof. reflexivity. Qed.
Lemma s_out_push_txn : forall t s, s_out (push_txn t s) = s_out s. Proof. reflexivity. Qed.
Lemma s_out_upd_txn : forall k f s, s_out (upd_txn k f s) = s_out s. Proof. reflexivity. Qed.
Lemma s_out_set_active : forall k b s, s_out (set_active k b s) = s_out s. Proof. reflexivity. Qed.
Lemma s_warns_push_txn : forall t s, s_warns (push_txn t s) = s_warns s. Proof. reflexivity. Qed.
Lemma s_warns_upd_txn : forall k f s, s_warns (upd_txn k f s) = s_warns s. Proof. reflexivity. Qed.
Lemma s_warns_set_active : forall k b s, s_warns (set_active k b s) = s_warns s. Proof. reflexivity. Qed.
Global Hint Rewrite c_root_set_root c_root_set_nested c_root_set_ctx c_root_set_seq c_root_set_closed c_root_set_in_begin c_root_set_beginfail c_root_set_rbfail c_root_set_db c_root_add_out c_root_add_warn c_root_clear_log c_nested_set_root c_nested_set_nested c_nested_set_ctx c_nested_set_seq c_nested_set_closed c_nested_set_in_begin c_nested_set_beginfail c_nested_set_rbfail c_nested_set_db c_nested_add_out c_nested_add_warn c_nested_clear_log c_ctx_set_root c_ctx_set_nested c_ctx_set_ctx c_ctx_set_seq c_ctx_set_closed c_ctx_set_in_begin c_ctx_set_beginfail c_ctx_set_rbfail c_ctx_set_db c_ctx_add_out c_ctx_add_warn c_ctx_clear_log c_seq_set_root c_seq_set_nested c_seq_set_ctx c_seq_set_seq c_seq_set_closed c_seq_set_in_begin c_seq_set_beginfail c_seq_set_rbfail c_seq_set_db c_seq_add_out c_seq_add_warn c_seq_clear_log c_closed_set_root c_closed_set_nested c_closed_set_ctx c_closed_set_seq c_closed_set_closed c_closed_set_in_begin c_closed_set_beginfail c_closed_set_rbfail c_closed_set_db c_closed_add_out c_closed_add_warn c_closed_clear_log c_in_begin_set_root c_in_begin_set_nested c_in_begin_set_ctx c_in_begin_set_seq c_in_begin_set_closed c_in_begin_set_in_begin c_in_begin_set_beginfail c_in_begin_set_rbfail c_in_begin_set_db c_in_begin_add_out c_in_begin_add_warn c_in_begin_clear_log c_beginfail_set_root c_beginfail_set_nested c_beginfail_set_ctx c_beginfail_set_seq c_beginfail_set_closed c_beginfail_set_in_begin c_beginfail_set_beginfail c_beginfail_set_rbfail c_beginfail_set_db c_beginfail_add_out c_beginfail_add_warn c_beginfail_clear_log c_rbfail_set_root c_rbfail_set_nested c_rbfail_set_ctx c_rbfail_set_seq c_rbfail_set_closed c_rbfail_set_in_begin c_rbfail_set_beginfail c_rbfail_set_rbfail c_rbfail_set_db c_rbfail_add_out c_rbfail_add_warn c_rbfail_clear_log s_db_set_root s_db_set_nested s_db_set_ctx s_db_set_seq s_db_set_closed s_db_set_in_begin s_db_set_beginfail s_db_set_rbfail s_db_set_db s_db_add_out s_db_add_warn s_db_clear_log s_out_set_root s_out_set_nested s_out_set_ctx s_out_set_seq s_out_set_closed s_out_set_in_begin s_out_set_beginfail s_out_set_rbfail s_out_set_db s_out_add_out s_out_add_warn s_out_clear_log s_warns_set_root s_warns_set_nested s_warns_set_ctx s_warns_set_seq s_warns_set_closed s_warns_set_in_begin s_warns_set_beginfail s_warns_set_rbfail s_warns_set_db s_warns_add_out s_warns_add_warn s_warns_clear_log txns_set_root txns_set_nested txns_set_ctx txns_set_seq txns_set_closed txns_set_in_begin txns_set_beginfail txns_set_rbfail txns_set_db txns_add_out txns_add_warn txns_clear_log c_root_push_txn c_root_upd_txn c_root_set_active c_nested_push_txn c_nested_upd_txn c_nested_set_active c_ctx_push_txn c_ctx_upd_txn c_ctx_set_active c_seq_push_txn c_seq_upd_txn c_seq_set_active c_closed_push_txn c_closed_upd_txn c_closed_set_active c_in_begin_push_txn c_in_begin_upd_txn c_in_begin_set_active c_beginfail_push_txn c_beginfail_upd_txn c_beginfail_set_active c_rbfail_push_txn c_rbfail_upd_txn c_rbfail_set_active s_db_push_txn s_db_upd_txn s_db_set_active s_out_push_txn s_out_upd_txn s_out_set_active s_warns_push_txn s_warns_upd_txn s_warns_set_active : st.

(* ---- updates of the object table ---- *)
Lemma upd_length : forall A (f : A -> A) l k, length (upd k f l) = length l.
Proof. induction l; destruct k; cbn; auto. Qed.

Lemma nth_upd : forall A (f : A -> A) l k j,
  nth_error (upd j f l) k = if Nat.eqb k j then option_map f (nth_error l k) else nth_error l k.
Proof.
  induction l; intros k j.
  - destruct j, k; cbn; try reflexivity; destruct (Nat.eqb k j); reflexivity.
  - destruct j, k; cbn; try reflexivity. apply IHl.
Qed.

Lemma len_upd_txn : forall k f s, length (txns (upd_txn k f s)) = length (txns s).
Proof. intros. cbn. apply upd_length. Qed.
Lemma len_set_active : forall k b s, length (txns (set_active k b s)) = length (txns s).
Proof. intros. apply len_upd_txn. Qed.
Lemma len_push : forall t s, length (txns (push_txn t s)) = S (length (txns s)).
Proof. intros. cbn. rewrite app_length. cbn. lia. Qed.

Lemma get_upd_txn : forall k j f s,
  get k (upd_txn j f s) = if Nat.eqb k j then option_map f (get k s) else get k s.
Proof. intros. unfold get. cbn. apply nth_upd. Qed.

Lemma get_push : forall k t s,
  get k (push_txn t s) = if Nat.eqb k (length (txns s)) then Some t else get k s.
Proof.
  intros. unfold get. cbn. destruct (Nat.eqb_spec k (length (txns s))).
  - subst. rewrite nth_error_app2 by lia. rewrite Nat.sub_diag. reflexivity.
  - destruct (Nat.lt_ge_cases k (length (txns s))).
    + apply nth_error_app1; auto.
    + rewrite (proj2 (nth_error_None _ _)). symmetry. apply nth_error_None. lia.
      rewrite app_length. cbn. lia.
Qed.

Lemma get_lt : forall k s t, get k s = Some t -> k < length (txns s).
Proof. intros. apply nth_error_Some. unfold get in H. congruence. Qed.
Lemma get_some : forall k s, k < length (txns s) -> exists t, get k s = Some t.
Proof. intros. unfold get. destruct (nth_error (txns s) k) eqn:E; eauto. apply nth_error_None in E. lia. Qed.

(* accessors after set_active *)
Lemma active_set_active_same : forall k b s, k < length (txns s) -> active k (set_active k b s) = b.
Proof.
  intros. unfold active, set_active. rewrite get_upd_txn, Nat.eqb_refl.
  destruct (get_some _ _ H) as [t ->]. reflexivity.
Qed.
Lemma active_set_active_other : forall k j b s, k <> j -> active k (set_active j b s) = active k s.
Proof.
  intros. unfold active, set_active. rewrite get_upd_txn.
  destruct (Nat.eqb_spec k j); [contradiction|reflexivity].
Qed.
Lemma active_set_active_false : forall k j s, active k (set_active j false s) = active k s && negb (Nat.eqb k j).
Proof.
  intros. unfold active, set_active. rewrite get_upd_txn.
  destruct (Nat.eqb_spec k j); destruct (get k s); cbn;
    rewrite ?andb_false_r, ?andb_true_r; reflexivity.
Qed.

Ltac acc_upd :=
  intros; unfold is_root, sp, prev, subject, outer, active, set_active; rewrite get_upd_txn;
  match goal with |- context [Nat.eqb ?k ?j] => destruct (Nat.eqb k j) end;
  match goal with |- context [get ?k ?s] => destruct (get k s) end; reflexivity.

Lemma is_root_set_active : forall k j b s, is_root k (set_active j b s) = is_root k s. Proof. acc_upd. Qed.
Lemma sp_set_active : forall k j b s, sp k (set_active j b s) = sp k s. Proof. acc_upd. Qed.
Lemma prev_set_active : forall k j b s, prev k (set_active j b s) = prev k s. Proof. acc_upd. Qed.
Lemma subject_set_active : forall k j b s, subject k (set_active j b s) = subject k s. Proof. acc_upd. Qed.
Lemma outer_set_active : forall k j b s, outer k (set_active j b s) = outer k s. Proof. acc_upd. Qed.

(* accessors after the with-block bookkeeping update *)
Lemma active_set_ctx_t : forall k j b o s, active k (upd_txn j (set_ctx_t b o) s) = active k s. Proof. acc_upd. Qed.
Lemma is_root_set_ctx_t : forall k j b o s, is_root k (upd_txn j (set_ctx_t b o) s) = is_root k s. Proof. acc_upd. Qed.
Lemma sp_set_ctx_t : forall k j b o s, sp k (upd_txn j (set_ctx_t b o) s) = sp k s. Proof. acc_upd. Qed.
Lemma prev_set_ctx_t : forall k j b o s, prev k (upd_txn j (set_ctx_t b o) s) = prev k s. Proof. acc_upd. Qed.
Lemma subject_set_ctx_t_same : forall k b o s, k < length (txns s) -> subject k (upd_txn k (set_ctx_t b o) s) = b.
Proof. intros. unfold subject. rewrite get_upd_txn, Nat.eqb_refl. destruct (get_some _ _ H) as [t ->]. reflexivity. Qed.
Lemma outer_set_ctx_t_same : forall k b o s, k < length (txns s) -> outer k (upd_txn k (set_ctx_t b o) s) = o.
Proof. intros. unfold outer. rewrite get_upd_txn, Nat.eqb_refl. destruct (get_some _ _ H) as [t ->]. reflexivity. Qed.
Lemma subject_set_ctx_t_other : forall k j b o s, k <> j -> subject k (upd_txn j (set_ctx_t b o) s) = subject k s.
Proof. intros. unfold subject. rewrite get_upd_txn. destruct (Nat.eqb_spec k j); [contradiction|reflexivity]. Qed.
Lemma outer_set_ctx_t_other : forall k j b o s, k <> j -> outer k (upd_txn j (set_ctx_t b o) s) = outer k s.
Proof. intros. unfold outer. rewrite get_upd_txn. destruct (Nat.eqb_spec k j); [contradiction|reflexivity]. Qed.

(* accessors after creating an object *)
Ltac acc_push := intros; unfold active, is_root, sp, prev, subject, outer; rewrite get_push;
  match goal with |- context [Nat.eqb ?k ?j] => destruct (Nat.eqb k j) end; reflexivity.
Lemma active_push : forall k t s, active k (push_txn t s) = if Nat.eqb k (length (txns s)) then t_active t else active k s. Proof. acc_push. Qed.
Lemma is_root_push : forall k t s, is_root k (push_txn t s) = if Nat.eqb k (length (txns s)) then t_root t else is_root k s. Proof. acc_push. Qed.
Lemma sp_push : forall k t s, sp k (push_txn t s) = if Nat.eqb k (length (txns s)) then t_sp t else sp k s. Proof. acc_push. Qed.
Lemma prev_push : forall k t s, prev k (push_txn t s) = if Nat.eqb k (length (txns s)) then t_prev t else prev k s. Proof. acc_push. Qed.
Lemma subject_push : forall k t s, subject k (push_txn t s) = if Nat.eqb k (length (txns s)) then t_subject t else subject k s. Proof. acc_push. Qed.
Lemma outer_push : forall k t s, outer k (push_txn t s) = if Nat.eqb k (length (txns s)) then t_outer t else outer k s. Proof. acc_push. Qed.

Global Hint Rewrite len_upd_txn len_set_active len_push is_root_set_active sp_set_active prev_set_active
  subject_set_active outer_set_active active_set_ctx_t is_root_set_ctx_t sp_set_ctx_t prev_set_ctx_t
  active_push is_root_push sp_push prev_push subject_push outer_push active_set_active_false : st.

Lemma active_lt : forall k s, active k s = true -> k < length (txns s).
Proof. unfold active. intros. destruct (get k s) eqn:E; [eapply get_lt; eauto|discriminate]. Qed.
Lemma prev_lt : forall k j s, prev k s = Some j -> k < length (txns s).
Proof. unfold prev. intros. destruct (get k s) eqn:E; [eapply get_lt; eauto|discriminate]. Qed.
