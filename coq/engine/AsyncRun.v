(* executable entry point for the correspondence check of C29 *)
From Coq Require Import List ZArith Bool Arith.
Import ListNotations.
From SAV.base Require Import Tree.
From SAV.engine Require Import Async AsyncConn.
Open Scope Z_scope.

(* input:  [api; psize; max_overflow; blocks; decisions]
     api        0 = sync API (Engine/Connection), 1 = asyncio API (AsyncEngine/AsyncConnection)
     blocks     list of [style; ops]    style 0 = async with engine.connect(), 1 = explicit try/finally close,
                                        2 = never closed;   every block is a task of its own, followed by
                                        "settle" (pending shielded tasks finish, garbage collection)
     ops        [0] begin  [1;v] insert v  [2] select  [3] commit  [4] rollback
     decisions  one per suspension of the user tasks: 0 none, 1 cancel (request takes effect), 2 cancel (no effect)
   output: [per-block [outcome; checkedout before gc; checkedout after gc]; user log; suspension trace;
            sql log; committed rows; per-connection in-transaction flag; idle records; [n_out; n_in; n_warn]; oom] *)
Definition as_op (t : tree) : option op :=
  match t with
  | L [I 0] => Some OpBegin
  | L [I 1; I v] => Some (OpIns v)
  | L [I 2] => Some OpSel
  | L [I 3] => Some OpCommit
  | L [I 4] => Some OpRollback
  | _ => None
  end.
Definition as_style (t : tree) : option style :=
  match t with I 0 => Some SCtx | I 1 => Some SExplicit | I 2 => Some SLeak | _ => None end.
Definition as_block (t : tree) : option (style * list op) := as_pair_of as_style (as_list_of as_op) t.
Definition as_cdec (t : tree) : option cdec :=
  match t with I 0 => Some N | I 1 => Some (C true) | I 2 => Some (C false) | _ => None end.

Definition io_label (i : io) : Z :=
  match i with
  | IoConnect => 1 | IoSetup _ => 2 | IoCursor _ => 3 | IoExec _ _ => 4 | IoFetch _ => 5
  | IoCursorClose _ => 6 | IoCommit _ => 7 | IoRollback _ => 8 | IoTermClose _ => 9 | IoClose _ => 10
  | IoForceClose _ => 11 | IoProbe _ => 12
  end.

Definition checkedout (cf : cfg) (s : pst) : Z := psize cf - Z.of_nat (length (q s)) + ov s.


Definition the_run (asyncp : bool) (p : ptree) (w : world) (cs : list cdec) : res * world * list cdec * list (ev io) :=
  if asyncp then run_loop io_step io_cancel_step io_suspends ECancelled p w cs
  else let '(r, w', t) := run_sync io_step p w in (r, w', cs, map (fun i => EvAwait i false) t).

(* a block as a task, then settle *)
Fixpoint run_blocks (cf : cfg) (asyncp : bool) (bs : list (style * list op)) (s : pst) (w : world) (cs : list cdec)
  : list tree * pst * world * list (ev io) :=
  match bs with
  | [] => ([], s, w, [])
  | (sty, ops) :: rest =>
      let a := if asyncp then async_api else sync_api in
      (* the last block of a case is the "later operations" probe: never cancelled *)
      let cs0 := match rest with [] => [] | _ => cs end in
      let '(r, w1, cs1, t1) := the_run asyncp (block cf a sty ops s) w cs0 in
      let s1 := snd r in
      let co1 := checkedout cf s1 in
      let '(r2, w2, _, t2) := the_run asyncp (gc_collect cf s1) w1 [] in
      let s2 := snd r2 in
      (* a connection that is never closed is reclaimed by reference counting or by the collector:
         only the state after collection is compared *)
      let co1 := match sty with SLeak => checkedout cf s2 | _ => co1 end in
      let o := L [I (match fst r with Ok _ => 0 | Raise e => exn_code e end); I co1; I (checkedout cf s2)] in
      let '(os, s3, w3, t3) := run_blocks cf asyncp rest s2 w2 cs1 in
      (o :: os, s3, w3, t1 ++ t2 ++ t3)
  end.

Definition of_obs (o : obs) : tree :=
  match o with OOk => L [I 0] | ORows l => L [I 1; of_list I l] | OErr e => L [I 2; I (exn_code e)] end.

Definition run_case (t : tree) : tree :=
  match t with
  | L [api; I ps; I mo; bs; cs] =>
      match as_bool api, as_list_of as_block bs, as_list_of as_cdec cs with
      | Some asyncp, Some blocks, Some decs =>
          let cf := mkcfg ps mo in
          let '(os, s, w, tr) := run_blocks cf asyncp blocks (init_pst cf) init_world decs in
          if oom s then L [I 77] else      (* a disconnect error led to Pool._invalidate: outside the model *)
          L [ L os;
              of_list of_obs (rev (olog s));
              L (if negb asyncp then [] else flat_map (fun e => match e with
                                    | EvAwait i c => if io_suspends i then [L [I (io_label i); of_bool c]] else []
                                    | EvInner _ => []
                                    | EvShield c => [L [I 13; of_bool c]]
                                    end) tr);
              of_list (fun e => L [of_nat (fst e); I (snd e)]) (rev (sqllog w));
              of_list I (committed w);
              of_list (fun c => of_bool (d_txn (getc w c))) (seq 0 (nconn w));
              of_list (fun r => match r_conn r with Some c => of_nat c | None => I (-1) end) (q s);
              L [of_nat (n_out s); of_nat (n_in s); of_nat (n_warn s)];
              of_bool (oom s) ]
      | _, _, _ => bad_input
      end
  | _ => bad_input
  end.
