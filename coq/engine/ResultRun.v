(* executable entry point for the correspondence check of C10 *)
From Coq Require Import List ZArith Bool Arith.
Import ListNotations.
From SAV.base Require Import Tree.
From SAV.engine Require Import ResultModel.

(* ---- decoding ----
   case   L [strategy; I w; L rows; L ops]
   strategy  L [I 0] direct | L [I 1; I max_row_buffer] buffered | L [I 2] fully buffered | L [I 3] IteratorResult
   value  I z | L [I z ...] (a Python list)
   op     L [I 0] fetchone | L [I 1] next | L [I 2; I k] iterate k | L [I 3; n?] fetchmany | L [I 4; n?; I k] partitions
          L [I 5] all | L [I 15] fetchall | L [I 6; I which] first/one_or_none/one/scalar/scalar_one/scalar_one_or_none
          L [I 7] back to the result | L [I 16] tuples | L [I 8; I i] scalars | L [I 9] mappings | L [I 10; L idx] columns
          L [I 11; I s] unique (0 default, 1 deep-tuple of the row, 2 deep-tuple of its first column)
          L [I 12; I n] yield_per | L [I 13] close | L [I 14] freeze + thaw              n? = I n | L [] (None) *)
Definition as_val (t : tree) : option val :=
  match t with
  | I z => Some (VI z)
  | L l => match all_some (map as_Z l) with Some zs => Some (VL zs) | None => None end
  end.
Definition as_row (t : tree) : option row := as_list_of as_val t.
(* a size: None | n >= 1   (what cursor.fetchmany(0) does is DBAPI specific: sqlite3 returns every row) *)
Definition as_optnat (t : tree) : option (option nat) :=
  match t with
  | L [] => Some None
  | I z => if (1 <=? z)%Z then Some (Some (Z.to_nat z)) else None
  | _ => None
  end.
Definition as_strategy (t : tree) : option strategy :=
  match t with
  | L [I 0%Z] => Some StDirect
  | L [I 1%Z; m] => match as_nat m with Some m => Some (StBuffered m) | None => None end
  | L [I 2%Z] => Some StFull
  | L [I 3%Z] => Some StIter
  | _ => None
  end.
Definition as_ookind (z : Z) : option ookind :=
  match z with
  | 0%Z => Some First | 1%Z => Some OneOrNone | 2%Z => Some One
  | 3%Z => Some Scalar | 4%Z => Some ScalarOne | 5%Z => Some ScalarOneOrNone
  | _ => None
  end.
Definition as_op (t : tree) : option op :=
  match t with
  | L [I 0%Z] => Some FetchOne
  | L [I 1%Z] => Some Next
  | L [I 2%Z; k] => option_map IterFor (as_nat k)
  | L [I 3%Z; n] => option_map FetchMany (as_optnat n)
  | L [I 4%Z; n; k] => match as_optnat n, as_nat k with Some n, Some k => Some (Partitions n k) | _, _ => None end
  | L [I 5%Z] | L [I 15%Z] => Some All
  | L [I 6%Z; I w] => option_map OnlyOne (as_ookind w)
  | L [I 7%Z] | L [I 16%Z] => Some ToRoot
  | L [I 8%Z; i] => option_map Scalars (as_nat i)
  | L [I 9%Z] => Some Mappings
  | L [I 10%Z; idx] => match as_list_of as_nat idx with
                       | Some [] => None            (* columns() without arguments: not modelled *)
                       | Some l => Some (Columns l)
                       | None => None end
  | L [I 11%Z; I 0%Z] | L [I 11%Z; I 1%Z] => Some (Unique KRow)
  | L [I 11%Z; I 2%Z] => Some (Unique KFirst)
  | L [I 12%Z; n] => option_map YieldPer (as_nat n)
  | L [I 13%Z] => Some Close
  | L [I 14%Z] => Some Freeze
  | _ => None
  end.

Definition has_list (r : row) : bool := existsb (fun v => match v with VL _ => true | VI _ => false end) r.
(* unique() with the default strategy hashes the row: a row holding a list raises TypeError (not modelled) *)
Definition default_unique (t : tree) : bool :=
  match t with L [I 11%Z; I 0%Z] => true | _ => false end.

(* ---- encoding ---- *)
Definition of_val (v : val) : tree := match v with VI z => I z | VL l => L (map I l) end.
Definition of_row (r : row) : tree := L (map of_val r).
Definition of_item (i : item) : tree :=
  match i with
  | IRow r => L [I 0; of_row r]
  | IScalar v => L [I 1; of_val v]
  | IMap m => L [I 2; L (map (fun p => L [of_nat (fst p); of_val (snd p)]) m)]
  end.
Definition of_exn (e : exn) : tree :=
  I (match e with ResourceClosed => 1 | NoResultFound => 2 | MultipleResultsFound => 3
              | AttributeErr => 4 | IndexErr => 5 end)%Z.
Definition of_outcome (o : outcome) : tree :=
  match o with
  | OUnit => L [I 0]
  | ONoRow => L [I 1]
  | OItem i => L [I 2; of_item i]
  | OItems l => L [I 3; of_list of_item l]
  | OIter l b => L [I 4; of_list of_item l; of_bool b]
  | OParts l b => L [I 5; of_list (of_list of_item) l; of_bool b]
  | OStop => L [I 6]
  | OErr e => L [I 7; of_exn e]
  | OFuel => L [I 8]
  end.
(* internal state of a BufferedRowCursorFetchStrategy: (len(_rowbuffer), _bufsize, _growth_factor, _max_row_buffer) *)
Definition of_internals (f : fstate) : tree :=
  match src f with
  | SBuffered b _ bs g m => L [of_nat (length b); of_nat bs; of_nat g; of_nat m]
  | _ => L []
  end.

Fixpoint run_obs (s : istate) (ops : list op) : list tree :=
  match ops with
  | [] => []
  | o :: t => let '(s1, out) := istep s o in
              L [of_outcome out; of_bool (hardc (fs s1)); of_internals (fs s1)] :: run_obs s1 t
  end.

Definition run_case (t : tree) : tree :=
  match t with
  | L [ts; tw; L trows; L tops] =>
      match as_strategy ts, as_nat tw, all_some (map as_row trows), all_some (map as_op tops) with
      | Some st, Some w, Some rows, Some ops =>
          if (1 <=? w) && forallb (fun r => length r =? w) rows
             && negb (existsb default_unique tops && existsb has_list rows)
          then L (run_obs (init_state st w rows) ops) else bad_input
      | _, _, _, _ => bad_input
      end
  | _ => bad_input
  end.
