(* C10 - consequences of the refinement: whatever mix of fetchone / next / iteration / fetchmany /
   partitions is used, followed by all(): every row is delivered exactly once, in order (and, with
   unique(), exactly the first occurrence of every distinct row) *)
From Coq Require Import List ZArith Bool Arith Lia.
Import ListNotations.
From SAV.engine Require Import ResultModel ResultSpec ResultFetchProofs ResultViewProofs ResultOnlyOneProofs ResultRefine.

(* the row-delivering calls that do not discard anything *)
Definition plain_op (o : op) : bool :=
  match o with
  | FetchOne | Next | IterFor _ | ToRoot => true
  | FetchMany (Some n) => 1 <=? n
  | Partitions (Some n) _ => 1 <=? n
  | _ => false
  end.

(* ---------- on the list model ---------- *)
(* what one all() would deliver now *)
Definition all_now (s : sstate) : list row :=
  fst (fst (adeliver (sufs (sroot s)) (scols (sroot s)) (length (rem s)) (rem s) (shp s))).
Definition pinv (s : sstate) : Prop :=
  sfview s = None /\ skind (sroot s) = VRoot /\ sclosed s = false /\ u_ok (shp s) (sufs (sroot s)).

Lemma take_big st c : forall rm n seen, length rm <= n -> take st c rm n seen = take st c rm (length rm) seen.
Proof.
  induction rm as [|raw t IH]; intros n seen Hn; [reflexivity|].
  destruct n; [cbn in Hn; lia|]. cbn [length] in *. cbn [take]. destruct st as [k|].
  - destruct (mem (key_of k (project c raw)) seen).
    + rewrite (IH (S n)) by lia. rewrite (IH (S (length t))) by lia. reflexivity.
    + rewrite (IH n) by lia. reflexivity.
  - rewrite (IH n) by lia. reflexivity.
Qed.
(* delivering some rows first and everything else afterwards = delivering everything *)
Lemma take_then_all st c : forall rm n seen d1 s1 r1,
  take st c rm n seen = (d1, s1, r1) ->
  take st c rm (length rm) seen =
    (let '(d2, s2, r2) := take st c r1 (length r1) s1 in (d1 ++ d2, s2, r2)).
Proof.
  induction rm as [|raw t IH]; intros n seen d1 s1 r1 H.
  - cbn in H. inversion H; subst. reflexivity.
  - destruct n.
    + rewrite take_zero in H. inversion H; subst. cbn [app].
      destruct (take st c (raw :: t) (length (raw :: t)) s1) as [[a b] r]. reflexivity.
    + cbn [length]. cbn [take] in *. destruct st as [k|].
      * destruct (mem (key_of k (project c raw)) seen).
        -- rewrite (take_big (Some k) c t (S (length t))) by lia. apply (IH (S n) seen d1 s1 r1 H).
        -- destruct (take (Some k) c t n (key_of k (project c raw) :: seen)) as [[a b] r] eqn:T.
           inversion H; subst. rewrite (IH n _ a s1 r1 T).
           destruct (take (Some k) c r1 (length r1) s1) as [[a2 b2] r2]. reflexivity.
      * destruct (take None c t n seen) as [[a b] r] eqn:T. inversion H; subst. rewrite (IH n _ a s1 r1 T).
        destruct (take None c r1 (length r1) s1) as [[a2 b2] r2]. reflexivity.
Qed.
Lemma adeliver_then_all u c n rm h d1 r1 h1 : u_ok h u ->
  adeliver u c n rm h = (d1, r1, h1) ->
  fst (fst (adeliver u c (length rm) rm h)) = d1 ++ fst (fst (adeliver u c (length r1) r1 h1)).
Proof.
  unfold adeliver. intros Hu. destruct u as [u|].
  - destruct (take (Some (snd u)) c rm n (hget h (fst u))) as [[a b] r] eqn:T. intros H; inversion H; subst.
    rewrite (take_then_all _ _ _ _ _ _ _ _ T). rewrite hget_hset_same by exact Hu.
    destruct (take (Some (snd u)) c r1 (length r1) b) as [[a2 b2] r2]. reflexivity.
  - destruct (take None c rm n []) as [[a b] r] eqn:T. intros H; inversion H; subst.
    rewrite (take_then_all _ _ _ _ _ _ _ _ T).
    assert (B : b = []) by (rewrite take_None in T; inversion T; reflexivity). subst b.
    destruct (take None c r1 (length r1) []) as [[a2 b2] r2]. reflexivity.
Qed.

Lemma flat_rows_map d : flat_map rows_of_item (map (post VRoot (@nil (nat * nat))) d) = d.
Proof. induction d; cbn; congruence. Qed.
Lemma flat_rows_post c d : flat_map rows_of_item (map (post VRoot c) d) = d.
Proof. induction d; cbn; congruence. Qed.

Lemma deliver_pinv s n d s1 : pinv s -> deliver (scur s) n s = (d, s1) ->
  pinv s1 /\ sroot s1 = sroot s /\ all_now s = d ++ all_now s1.
Proof.
  intros [F [K [C U]]] H. unfold deliver, scur in H. rewrite F in H.
  destruct (adeliver (sufs (sroot s)) (scols (sroot s)) n (rem s) (shp s)) as [[d0 r] h] eqn:A.
  inversion H; subst. unfold pinv, all_now. cbn [sfview sroot sclosed shp rem].
  repeat split; auto.
  - apply (u_ok_len (shp s)); [apply (adeliver_len _ _ _ _ _ _ _ _ A)|exact U].
  - apply (adeliver_then_all _ _ _ _ _ _ _ _ U A).
Qed.

Lemma sparts_pinv n : forall k s acc ps st s1, pinv s -> sparts k (scur s) n s acc = (ps, st, s1) ->
  pinv s1 /\ sroot s1 = sroot s /\ concat acc ++ all_now s = concat ps ++ all_now s1.
Proof.
  induction k as [|k IH]; intros s acc ps st s1 P H.
  - cbn in H. inversion H; subst. auto.
  - cbn [sparts] in H. destruct (deliver (scur s) n s) as [d s0] eqn:D.
    destruct (deliver_pinv s n d s0 P D) as [P0 [R0 A0]]. destruct d as [|p d'].
    + inversion H; subst. rewrite A0. auto.
    + assert (SC : scur s0 = scur s) by (unfold scur; destruct P as [F _], P0 as [F0 _]; rewrite F, F0; exact R0).
      rewrite <- SC in H. destruct (IH s0 _ ps st s1 P0 H) as [P1 [R1 A1]].
      split; [exact P1|]. split; [congruence|]. rewrite A0, <- A1. rewrite concat_app. cbn [concat].
      rewrite app_nil_r, <- app_assoc. reflexivity.
Qed.

Lemma flat_parts c ps : flat_map (flat_map rows_of_item) (map (map (post VRoot c)) ps) = concat ps.
Proof. induction ps; cbn; [reflexivity|]. rewrite flat_rows_post. congruence. Qed.

Lemma sstep_plain s o : pinv s -> plain_op o = true ->
  pinv (fst (sstep s o)) /\ sroot (fst (sstep s o)) = sroot s /\
  all_now s = delivered_by (snd (sstep s o)) ++ all_now (fst (sstep s o)).
Proof.
  intros P Hp. pose proof P as [F [K [C U]]].
  assert (KS : skind (scur s) = VRoot) by (unfold scur; rewrite F; exact K).
  destruct o; try discriminate; unfold sstep; rewrite ?KS, ?C.
  - destruct (deliver (scur s) 1 s) as [d s1] eqn:D. destruct (deliver_pinv s 1 d s1 P D) as [P1 [R1 A1]].
    cbn [fst snd]. split; [exact P1|split; [exact R1|]]. rewrite A1.
    pose proof (adeliver_length (sufs (scur s)) (scols (scur s)) 1 (rem s) (shp s)) as L.
    unfold deliver in D. destruct (adeliver (sufs (scur s)) (scols (scur s)) 1 (rem s) (shp s)) as [[d0 r0] h0].
    inversion D; subst. cbn in L. destruct d as [|p [|q d']]; cbn in L; try lia; reflexivity.
  - destruct (deliver (scur s) 1 s) as [d s1] eqn:D. destruct (deliver_pinv s 1 d s1 P D) as [P1 [R1 A1]].
    cbn [fst snd]. split; [exact P1|split; [exact R1|]]. rewrite A1.
    pose proof (adeliver_length (sufs (scur s)) (scols (scur s)) 1 (rem s) (shp s)) as L.
    unfold deliver in D. destruct (adeliver (sufs (scur s)) (scols (scur s)) 1 (rem s) (shp s)) as [[d0 r0] h0].
    inversion D; subst. cbn in L. destruct d as [|p [|q d']]; cbn in L; try lia; reflexivity.
  - destruct k as [|k]; [cbn; auto|].
    destruct (deliver (scur s) (S k) s) as [d s1] eqn:D. destruct (deliver_pinv s _ d s1 P D) as [P1 [R1 A1]].
    cbn [fst snd delivered_by]. rewrite flat_rows_post. auto.
  - destruct n as [n|]; [|discriminate].
    cbn [size_of]. destruct (deliver (scur s) n s) as [d s1] eqn:D.
    destruct (deliver_pinv s _ d s1 P D) as [P1 [R1 A1]].
    cbn [fst snd delivered_by]. rewrite flat_rows_post. auto.
  - destruct n as [n|]; [|discriminate]. destruct k as [|k]; [cbn; auto|].
    cbn [size_of]. destruct (sparts (S k) (scur s) n s []) as [[ps st] s1] eqn:D.
    destruct (sparts_pinv n (S k) s [] ps st s1 P D) as [P1 [R1 A1]].
    cbn [fst snd delivered_by]. rewrite flat_parts. cbn [concat app] in A1. auto.
  - cbn [fst snd delivered_by app]. unfold pinv, all_now. cbn. auto.
Qed.

Lemma srun_plain : forall ops s, pinv s -> forallb plain_op ops = true ->
  delivered (srun s (ops ++ [All])) = all_now s.
Proof.
  induction ops as [|o t IH]; intros s P H.
  - cbn [app srun]. destruct P as [F [K [C U]]]. unfold sstep. rewrite C.
    unfold deliver, scur. rewrite F. unfold all_now.
    destruct (adeliver (sufs (sroot s)) (scols (sroot s)) (length (rem s)) (rem s) (shp s)) as [[d r] h].
    unfold delivered. cbn. rewrite K, flat_rows_post, app_nil_r. reflexivity.
  - cbn [forallb] in H. apply andb_prop in H. destruct H as [H1 H2].
    destruct (sstep_plain s o P H1) as [P1 [R1 A1]].
    cbn [app srun]. destruct (sstep s o) as [s1 out]. cbn [fst snd] in *.
    unfold delivered in *. cbn [flat_map fst]. rewrite (IH s1 P1 H2). symmetry. exact A1.
Qed.

(* ---------- the guard holds for such sequences ---------- *)
Lemma op_ok_plain i o : plain_op o = true -> op_ok i o = true.
Proof.
  intros Hp. destruct o; try discriminate; unfold op_ok; auto.
  - destruct n as [n|]; [|discriminate]. exact Hp.
  - destruct n as [n|]; [|discriminate]. unfold plain_op in Hp. cbn [size_ok]. rewrite Hp. apply orb_true_r.
Qed.
Lemma istep_plain_fview i o : fview i = None -> plain_op o = true -> fview (fst (istep i o)) = None.
Proof.
  intros F Hp. destruct o; try discriminate; unfold istep;
    repeat match goal with
    | |- context [let '(_, _) := ?x in _] => destruct x
    | |- context [match ?x with _ => _ end] => destruct x
    end; cbn [fst]; unfold with_fetch, set_cur_view; cbn [fview]; rewrite ?F; reflexivity.
Qed.

Lemma guard_plain : forall ops i s, R i s -> fview i = None -> forallb plain_op ops = true ->
  guard_from i (ops ++ [All]) = true.
Proof.
  induction ops as [|o t IH]; intros i s H F Hp.
  - reflexivity.
  - cbn [forallb] in Hp. apply andb_prop in Hp. destruct Hp as [H1 H2].
    cbn [app guard_from]. pose proof (op_ok_plain i o H1) as G. rewrite G. cbn [andb].
    destruct (step_sim i s o H G) as [_ R']. apply (IH _ _ R'); [apply istep_plain_fview; assumption|exact H2].
Qed.

Lemma project_identity w r : length r = w -> project (identity_cols w) r = r.
Proof.
  intros <-. unfold project, identity_cols. rewrite map_map. cbn [fst].
  induction r as [|x t IH]; [reflexivity|].
  cbn [length seq map nth]. f_equal. rewrite <- seq_shift, map_map. cbn [nth]. exact IH.
Qed.

(* ---------- the corollaries ---------- *)
Theorem no_row_lost_or_duplicated st w rows ops :
  forallb plain_op ops = true -> Forall (fun r => length r = w) rows ->
  delivered (run_impl st w rows (ops ++ [All])) = rows.
Proof.
  intros Hp Hw.
  rewrite (all_sequences_guarded st w rows (ops ++ [All])).
  - unfold run_spec. rewrite srun_plain; [|repeat split; cbn; auto|exact Hp].
    unfold all_now, init_spec, adeliver. cbn [sroot sufs scols rem shp].
    rewrite take_None, firstn_all. cbn [fst].
    induction Hw as [|r t Hr Ht IH]; [reflexivity|]. cbn [map]. rewrite (project_identity w r Hr), IH. reflexivity.
  - unfold guard. apply (guard_plain ops _ _ (R_init st w rows) eq_refl Hp).
Qed.

(* first occurrences, in order: _apply_unique_strategy over the whole list *)
Definition dedup (k : strat) (rows : list row) : list row := fst (apply_unique k rows []).

Theorem unique_delivers_first_occurrences st w rows k ops :
  forallb plain_op ops = true -> Forall (fun r => length r = w) rows ->
  delivered (run_impl st w rows (Unique k :: ops ++ [All])) = dedup k rows.
Proof.
  intros Hp Hw.
  assert (Hmap : map (project (identity_cols w)) rows = rows).
  { induction Hw as [|r t Hr Ht IH]; [reflexivity|]. cbn [map]. rewrite (project_identity w r Hr), IH. reflexivity. }
  pose proof (R_init st w rows) as R0.
  assert (G0 : op_ok (init_state st w rows) (Unique k) = true) by reflexivity.
  destruct (step_sim _ _ (Unique k) R0 G0) as [_ R1].
  rewrite (all_sequences_guarded st w rows (Unique k :: ops ++ [All])).
  - unfold run_spec. cbn [srun]. destruct (sstep (init_spec w rows) (Unique k)) as [s1 out] eqn:E.
    cbn in E. inversion E; subst. unfold delivered. cbn [flat_map fst delivered_by app].
    match goal with |- flat_map _ (srun ?s _) = _ => pose proof (srun_plain ops s) as SP end.
    unfold delivered in SP. rewrite SP; [|repeat split; cbn; auto|exact Hp].
    unfold all_now, adeliver. cbn [sroot sufs scols rem shp fst snd hget nth].
    destruct (apply_unique k (map (project (identity_cols w)) rows) []) as [d1 s1] eqn:A.
    assert (A' : apply_unique k (map (project (identity_cols w)) (firstn (length rows) rows)) [] = (d1, s1))
      by (rewrite firstn_all; exact A).
    pose proof (take_chunk k (identity_cols w) rows _ _ _ d1 s1 (le_n _) A') as TC. unfold row in *. rewrite TC. rewrite skipn_all. cbn [take fst].
    rewrite app_nil_r. unfold dedup. rewrite Hmap in A. unfold row in *. rewrite A. reflexivity.
  - unfold guard. cbn [guard_from]. rewrite G0. cbn [andb].
    apply (guard_plain ops _ _ R1); [reflexivity|exact Hp].
Qed.

(* what [dedup] means: same members, none twice *)
Lemma mem_true_iff k s : mem k s = true <-> exists x, In x s /\ row_eqb k x = true.
Proof. unfold mem. rewrite existsb_exists. reflexivity. Qed.

Lemma apply_unique_seen k : forall rows seen d s, apply_unique k rows seen = (d, s) ->
  (forall x, mem x s = true <-> (mem x seen = true \/ mem x (map (key_of k) d) = true)) /\
  (forall p, In p rows -> mem (key_of k p) s = true).
Proof.
  assert (Hrefl : forall r, row_eqb r r = true).
  { induction r as [|v t IH]; [reflexivity|]. cbn. rewrite IH, andb_true_r.
    destruct v; cbn; [apply Z.eqb_refl|]. induction l; cbn; [reflexivity|]. rewrite Z.eqb_refl. exact IHl. }
  induction rows as [|p t IH]; intros seen d s H.
  - cbn in H. inversion H; subst. split; [intros x; cbn; split; [tauto|intros [Hx|Hx]; [exact Hx|discriminate]]|intros p []].
  - cbn [apply_unique] in H. destruct (mem (key_of k p) seen) eqn:M.
    + destruct (IH seen d s H) as [A B]. split; [exact A|].
      intros q [<-|Hq]; [apply A; left; exact M|apply B; exact Hq].
    + destruct (apply_unique k t (key_of k p :: seen)) as [d' s'] eqn:E. inversion H; subst.
      destruct (IH _ _ _ E) as [A B]. split.
      * intros x. rewrite A. cbn [map mem existsb]. unfold mem. rewrite !orb_true_iff. tauto.
      * intros q [<-|Hq]; [|apply B; exact Hq]. apply A. left. cbn. rewrite Hrefl. reflexivity.
Qed.

(* [dedup] keeps a representative of every key ... *)
Lemma dedup_complete k rows p : In p rows -> mem (key_of k p) (map (key_of k) (dedup k rows)) = true.
Proof.
  intros Hp. unfold dedup. destruct (apply_unique k rows []) as [d s] eqn:E.
  destruct (apply_unique_seen k rows [] d s E) as [A B]. specialize (B p Hp).
  apply A in B. destruct B as [B|B]; [discriminate|exact B].
Qed.
(* ... only rows of the input ... *)
Lemma apply_unique_incl k : forall rows seen p, In p (fst (apply_unique k rows seen)) -> In p rows.
Proof.
  induction rows as [|q t IH]; intros seen p H; [exact H|].
  cbn [apply_unique] in H. destruct (mem (key_of k q) seen).
  - right. apply (IH seen p H).
  - destruct (apply_unique k t (key_of k q :: seen)) as [d s] eqn:E. cbn in H.
    destruct H as [<-|H]; [left; reflexivity|right]. apply (IH (key_of k q :: seen)). rewrite E. exact H.
Qed.
Lemma dedup_incl k rows p : In p (dedup k rows) -> In p rows.
Proof. apply apply_unique_incl. Qed.
(* ... and no key twice *)
Lemma apply_unique_fresh k : forall rows seen l1 p l2,
  fst (apply_unique k rows seen) = l1 ++ p :: l2 ->
  mem (key_of k p) seen = false /\ mem (key_of k p) (map (key_of k) l1) = false.
Proof.
  induction rows as [|q t IH]; intros seen l1 p l2 H.
  - cbn in H. destruct l1; discriminate.
  - cbn [apply_unique] in H. destruct (mem (key_of k q) seen) eqn:M.
    + apply (IH seen l1 p l2 H).
    + destruct (apply_unique k t (key_of k q :: seen)) as [d s] eqn:E. cbn [fst] in H.
      destruct l1 as [|x l1'].
      * cbn in H. inversion H; subst. auto.
      * cbn [app] in H. inversion H; subst.
        assert (E' : fst (apply_unique k t (key_of k x :: seen)) = l1' ++ p :: l2) by (rewrite E; reflexivity).
        destruct (IH _ _ _ _ E') as [A B]. cbn [mem existsb] in A. apply orb_false_iff in A. destruct A as [A1 A2].
        split; [exact A2|]. cbn [map mem existsb]. rewrite A1. exact B.
Qed.
Lemma dedup_nodup k rows l1 p l2 : dedup k rows = l1 ++ p :: l2 ->
  mem (key_of k p) (map (key_of k) l1) = false.
Proof. intros H. apply (apply_unique_fresh k rows [] l1 p l2 H). Qed.
