(* Lemmas about the reference semantics of Python lists/slices (base/PySlice.v). *)
From Coq Require Import List ZArith Bool Lia ZifyBool Permutation Arith FinFun.
Import ListNotations.
From SAV.base Require Import PySlice.
Open Scope Z_scope.

(* ---------- slice.indices() ---------- *)
Lemma clamp_index_bounds : forall step len v, 0 <= len ->
  (0 < step -> 0 <= clamp_index step len v <= len) /\
  (step < 0 -> -1 <= clamp_index step len v <= len - 1).
Proof.
  intros step len v Hl. unfold clamp_index.
  destruct (v <? 0) eqn:E1; [destruct (v + len <? 0) eqn:E2|destruct (len <=? v) eqn:E3];
    destruct (step <? 0) eqn:E4; lia.
Qed.

Lemma adjust_bounds : forall sl len start stop step, 0 <= len ->
  adjust sl len = Ok (start, stop, step) ->
  step <> 0 /\
  (0 < step -> 0 <= start <= len /\ 0 <= stop <= len) /\
  (step < 0 -> -1 <= start <= len - 1 /\ -1 <= stop <= len - 1).
Proof.
  intros sl len start stop step Hl. unfold adjust.
  set (st := match sstep sl with Some s => s | None => 1 end).
  destruct (st =? 0) eqn:E0; [discriminate|].
  intro H. injection H as H1 H2 H3. subst step.
  assert (Hs : st <> 0) by lia. split; [exact Hs|].
  assert (A1 : (0 < st -> 0 <= start <= len) /\ (st < 0 -> -1 <= start <= len - 1)).
  { subst start. destruct (sstart sl) as [v|]; [apply clamp_index_bounds; lia|].
    destruct (st <? 0) eqn:E; lia. }
  assert (A2 : (0 < st -> 0 <= stop <= len) /\ (st < 0 -> -1 <= stop <= len - 1)).
  { subst stop. destruct (sstop sl) as [v|]; [apply clamp_index_bounds; lia|].
    destruct (st <? 0) eqn:E; lia. }
  split; intro; split; try apply A1; try apply A2; assumption.
Qed.

Lemma adjust_step0 : forall sl len, sstep sl = Some 0 -> adjust sl len = Raise ValueError.
Proof. intros sl len H. unfold adjust. rewrite H. reflexivity. Qed.

(* ---------- range ---------- *)
Lemma slicelen_nonneg : forall start stop step, step <> 0 -> 0 <= slicelen start stop step.
Proof.
  intros start stop step Hs. unfold slicelen.
  destruct (step <? 0) eqn:E.
  - destruct (stop <? start) eqn:E2; [|lia].
    assert (0 <= (start - stop - 1) / - step) by (apply Z.div_pos; lia). lia.
  - destruct (start <? stop) eqn:E2; [|lia].
    assert (0 <= (stop - start - 1) / step) by (apply Z.div_pos; lia). lia.
Qed.

Lemma range_In : forall start stop step e, step <> 0 -> In e (range start stop step) ->
  exists k, 0 <= k < slicelen start stop step /\ e = start + k * step.
Proof.
  intros start stop step e Hs H. unfold range in H. apply in_map_iff in H.
  destruct H as [k [Hk Hin]]. apply in_seq in Hin. exists (Z.of_nat k). split; [|lia].
  pose proof (slicelen_nonneg start stop step Hs). lia.
Qed.

Lemma range_bounds : forall start stop step e, step <> 0 -> In e (range start stop step) ->
  (0 < step -> start <= e < stop) /\ (step < 0 -> stop < e <= start).
Proof.
  intros start stop step e Hs H. destruct (range_In _ _ _ _ Hs H) as [k [[Hk0 Hk] He]].
  unfold slicelen in Hk. split; intro Hst.
  - destruct (step <? 0) eqn:E; [lia|]. destruct (start <? stop) eqn:E2; [|lia].
    pose proof (Z.mul_div_le (stop - start - 1) step Hst). nia.
  - destruct (step <? 0) eqn:E; [|lia]. destruct (stop <? start) eqn:E2; [|lia].
    assert (Hp : 0 < - step) by lia.
    pose proof (Z.mul_div_le (start - stop - 1) (- step) Hp). nia.
Qed.

Lemma range_in_bounds : forall sl len start stop step e, 0 <= len ->
  adjust sl len = Ok (start, stop, step) -> In e (range start stop step) -> 0 <= e < len.
Proof.
  intros sl len start stop step e Hl Ha Hin.
  destruct (adjust_bounds _ _ _ _ _ Hl Ha) as [Hs [Hp Hn]].
  destruct (range_bounds _ _ _ _ Hs Hin) as [Bp Bn].
  destruct (Z.lt_total 0 step) as [H|[H|H]]; [|lia|].
  - specialize (Hp H). specialize (Bp H). lia.
  - specialize (Hn H). specialize (Bn H). lia.
Qed.

Lemma range_NoDup : forall start stop step, step <> 0 -> NoDup (range start stop step).
Proof.
  intros start stop step Hs. unfold range. apply Injective_map_NoDup; [|apply seq_NoDup].
  intros a b H. nia.
Qed.

Lemma range_length : forall start stop step,
  length (range start stop step) = Z.to_nat (slicelen start stop step).
Proof. intros. unfold range. rewrite map_length, seq_length. reflexivity. Qed.

Lemma slicelen_step1 : forall start stop, slicelen start stop 1 = Z.max 0 (stop - start).
Proof.
  intros. unfold slicelen. cbn [Z.ltb Z.compare]. destruct (start <? stop) eqn:E; [|lia].
  rewrite Z.div_1_r. lia.
Qed.

Lemma memZ_In : forall x l, memZ x l = true <-> In x l.
Proof.
  intros. unfold memZ. rewrite existsb_exists. split.
  - intros [y [H1 H2]]. apply Z.eqb_eq in H2. subst; auto.
  - intro. exists x. split; auto. apply Z.eqb_refl.
Qed.

Lemma NoDup_map_to_nat : forall idx, NoDup idx -> (forall e, In e idx -> 0 <= e) ->
  NoDup (map Z.to_nat idx).
Proof.
  induction 1 as [|a idx Hn Hd IH]; intros Hp; cbn [map]; constructor.
  - intro Hin. apply in_map_iff in Hin. destruct Hin as [b [Hb Hin]].
    assert (0 <= a) by (apply Hp; left; auto). assert (0 <= b) by (apply Hp; right; auto).
    assert (a = b) by lia. subst. contradiction.
  - apply IH. intros; apply Hp; right; auto.
Qed.

(* ---------- positions, set_nth / del_nth ---------- *)
Section L.
Variable A : Type.
Implicit Types (l : list A) (n : nat).

Lemma norm_index_Some : forall i len n, norm_index i len = Some n ->
  0 <= len -> (n < Z.to_nat len)%nat /\
  Z.of_nat n = (if i <? 0 then i + len else i).
Proof.
  intros i len n H Hl. unfold norm_index in H.
  destruct (i <? 0) eqn:E;
  match type of H with (if ?c then _ else _) = _ => destruct c eqn:E2 end; try discriminate;
  injection H as <-; lia.
Qed.

Lemma norm_index_lt : forall i l n, norm_index i (zlen l) = Some n -> (n < length l)%nat.
Proof.
  intros i l n H. destruct (norm_index_Some _ _ _ H) as [H1 _]; unfold zlen in *; lia.
Qed.

Lemma norm_index_nonneg : forall i len, 0 <= i < len -> norm_index i len = Some (Z.to_nat i).
Proof.
  intros i len H. unfold norm_index. destruct (i <? 0) eqn:E; [lia|].
  destruct ((i <? 0) || (len <=? i)) eqn:E2; [lia|reflexivity].
Qed.

Lemma set_nth_length : forall n (x : A) l, length (set_nth n x l) = length l.
Proof. induction n; destruct l; cbn [set_nth length]; auto. Qed.

Lemma del_nth_split : forall n l, del_nth n l = firstn n l ++ skipn (S n) l.
Proof.
  induction n; destruct l; cbn [del_nth firstn skipn app]; auto. rewrite IHn.
  destruct l; reflexivity.
Qed.

Lemma set_nth_split : forall n (x : A) l, (n < length l)%nat ->
  set_nth n x l = firstn n l ++ x :: skipn (S n) l.
Proof.
  induction n; destruct l; cbn [set_nth firstn skipn app length]; intros; try lia; auto.
  rewrite IHn by lia. reflexivity.
Qed.

Lemma nth_error_perm_del : forall n l (x : A), nth_error l n = Some x ->
  Permutation l (x :: del_nth n l).
Proof.
  intros n l x H. rewrite del_nth_split.
  destruct (nth_error_split l n H) as [l1 [l2 [E Hl]]]. subst l n.
  rewrite firstn_app, firstn_all, Nat.sub_diag. cbn [firstn]. rewrite app_nil_r.
  replace (skipn (S (length l1)) (l1 ++ x :: l2)) with l2.
  - symmetry. apply Permutation_middle.
  - rewrite skipn_app. rewrite skipn_all2 by lia.
    replace (S (length l1) - length l1)%nat with 1%nat by lia. reflexivity.
Qed.

Lemma nth_error_perm_set : forall n l (x y : A), nth_error l n = Some x ->
  Permutation (y :: l) (x :: set_nth n y l).
Proof.
  intros n l x y H.
  assert (Hn : (n < length l)%nat) by (apply nth_error_Some; congruence).
  rewrite set_nth_split by exact Hn.
  destruct (nth_error_split l n H) as [l1 [l2 [E Hl]]]. subst l n.
  rewrite firstn_app, firstn_all, Nat.sub_diag. cbn [firstn]. rewrite app_nil_r.
  replace (skipn (S (length l1)) (l1 ++ x :: l2)) with l2.
  - rewrite <- !Permutation_middle. apply perm_swap.
  - rewrite skipn_app. rewrite skipn_all2 by lia.
    replace (S (length l1) - length l1)%nat with 1%nat by lia. reflexivity.
Qed.

Lemma insert_perm : forall p l (x : A), Permutation (x :: l) (firstn p l ++ x :: skipn p l).
Proof. intros. rewrite <- Permutation_middle, firstn_skipn. reflexivity. Qed.

(* ---------- sel / pick / drop_idx ---------- *)
Lemma sel_app : forall js js' l, sel (js ++ js') l = sel js l ++ sel js' l.
Proof. intros. unfold sel. apply flat_map_app. Qed.

Lemma sel_shift : forall js (a : A) l, sel (map S js) (a :: l) = sel js l.
Proof. induction js; intros; cbn; auto. unfold sel in IHjs. rewrite IHjs. reflexivity. Qed.

Lemma sel_all : forall l, sel (seq 0 (length l)) l = l.
Proof.
  induction l; [reflexivity|]. cbn [length seq]. rewrite <- seq_shift.
  cbn [sel flat_map nth_error app]. fold (sel (map S (seq 0 (length l))) (a :: l)).
  rewrite sel_shift, IHl. reflexivity.
Qed.

Lemma sel_perm : forall js js' l, Permutation js js' -> Permutation (sel js l) (sel js' l).
Proof. intros. unfold sel. apply Permutation_flat_map. assumption. Qed.

Lemma filter_partition_perm : forall (B : Type) (p : B -> bool) (l : list B),
  Permutation l (filter p l ++ filter (fun x => negb (p x)) l).
Proof.
  induction l; cbn [filter]; [constructor|]. destruct (p a); cbn [negb app].
  - constructor. assumption.
  - rewrite <- Permutation_middle. constructor. assumption.
Qed.

Theorem pick_drop_perm : forall idx l, NoDup idx -> (forall e, In e idx -> 0 <= e < zlen l) ->
  Permutation l (pick idx l ++ drop_idx idx l).
Proof.
  intros idx l Hnd Hb. unfold pick, drop_idx.
  set (p := fun j => memZ (Z.of_nat j) idx).
  rewrite <- (sel_all l) at 1.
  rewrite (sel_perm _ _ l (filter_partition_perm _ p (seq 0 (length l)))), sel_app.
  apply Permutation_app; [|reflexivity]. apply sel_perm.
  apply NoDup_Permutation.
  - apply NoDup_filter, seq_NoDup.
  - apply NoDup_map_to_nat; auto. intros e He. apply Hb in He. lia.
  - intro j. rewrite filter_In, in_seq, in_map_iff. unfold p. rewrite memZ_In. split.
    + intros [_ H]. exists (Z.of_nat j). split; [lia|assumption].
    + intros [e [He Hin]]. pose proof (Hb e Hin) as B. unfold zlen in B. split; [lia|].
      replace (Z.of_nat j) with e by lia. assumption.
Qed.

Corollary getslice_delslice_perm : forall l sl g d,
  py_getslice l sl = Ok g -> py_delslice l sl = Ok d -> Permutation l (g ++ d).
Proof.
  intros l sl g d. unfold py_getslice, py_delslice.
  destruct (adjust sl (zlen l)) as [[[start stop] step]|e] eqn:Ha; [|discriminate].
  intros H1 H2. injection H1 as <-. injection H2 as <-.
  assert (Hl : 0 <= zlen l) by (unfold zlen; lia).
  destruct (adjust_bounds _ _ _ _ _ Hl Ha) as [Hs _].
  apply pick_drop_perm; [apply range_NoDup; assumption|].
  intros e He. eapply range_in_bounds; eauto.
Qed.

Lemma getslice_delslice_same_error : forall l sl e,
  py_getslice l sl = Raise e <-> py_delslice l sl = Raise e.
Proof.
  intros. unfold py_getslice, py_delslice.
  destruct (adjust sl (zlen l)) as [[[start stop] step]|e']; split; intro H; try discriminate; auto.
Qed.
End L.
