(* Reference semantics of the Python builtin list (CPython 3.12, Objects/listobject.c and
   Objects/sliceobject.c): index normalisation, slice.indices(), range(), item / slice read,
   assignment and deletion, insert clamping, pop, repeat.  This is the SPEC side for C38; it is
   validated against CPython by the correspondence check (the instrumented collection delegates to
   the builtin, so every observation of contents is an observation of CPython).
   Definitions only; the lemmas are in PySliceProofs.v. *)
From Coq Require Import List ZArith Bool.
Import ListNotations.
Open Scope Z_scope.

(* Python exceptions are result values *)
Inductive pyexn := IndexError | ValueError | KeyError | TypeError | RuntimeError.
Inductive res (T : Type) := Ok (t : T) | Raise (e : pyexn).
Arguments Ok {T} t.
Arguments Raise {T} e.

Definition pyexn_eqb (a b : pyexn) : bool :=
  match a, b with
  | IndexError, IndexError | ValueError, ValueError | KeyError, KeyError
  | TypeError, TypeError | RuntimeError, RuntimeError => true
  | _, _ => false
  end.

(* slice(start, stop, step); None = absent *)
Record pyslice := mkslice { sstart : option Z; sstop : option Z; sstep : option Z }.

(* slice.indices(len) = PySlice_Unpack + PySlice_AdjustIndices.  step 0 -> ValueError *)
Definition clamp_index (step len v : Z) : Z :=
  if v <? 0 then
    (let v' := v + len in if v' <? 0 then (if step <? 0 then -1 else 0) else v')
  else if len <=? v then (if step <? 0 then len - 1 else len)
  else v.

Definition adjust (sl : pyslice) (len : Z) : res (Z * Z * Z) :=
  let step := match sstep sl with None => 1 | Some s => s end in
  if step =? 0 then Raise ValueError
  else
    let start := match sstart sl with
                 | None => if step <? 0 then len - 1 else 0
                 | Some v => clamp_index step len v end in
    let stop := match sstop sl with
                | None => if step <? 0 then -1 else len
                | Some v => clamp_index step len v end in
    Ok (start, stop, step).

(* number of indices selected: PySlice_AdjustIndices' return value, also len(range(start,stop,step)) *)
Definition slicelen (start stop step : Z) : Z :=
  if step <? 0 then (if stop <? start then (start - stop - 1) / (- step) + 1 else 0)
  else (if start <? stop then (stop - start - 1) / step + 1 else 0).

(* list(range(start, stop, step)), step <> 0 :  cur = start + i*step  for i < slicelen *)
Definition range (start stop step : Z) : list Z :=
  map (fun k => start + Z.of_nat k * step) (seq 0 (Z.to_nat (slicelen start stop step))).

Definition memZ (x : Z) (l : list Z) : bool := existsb (Z.eqb x) l.

Section L.
Variable A : Type.

Definition zlen (l : list A) : Z := Z.of_nat (length l).

(* an int subscript: negative counts from the end; None = out of range *)
Definition norm_index (i len : Z) : option nat :=
  let i' := if i <? 0 then i + len else i in
  if (i' <? 0) || (len <=? i') then None else Some (Z.to_nat i').

Fixpoint set_nth (n : nat) (x : A) (l : list A) : list A :=
  match l, n with
  | [], _ => []
  | _ :: t, O => x :: t
  | h :: t, S n' => h :: set_nth n' x t
  end.

Fixpoint del_nth (n : nat) (l : list A) : list A :=
  match l, n with
  | [], _ => []
  | _ :: t, O => t
  | h :: t, S n' => h :: del_nth n' t
  end.

(* l[i] *)
Definition py_getitem (l : list A) (i : Z) : res A :=
  match norm_index i (zlen l) with
  | None => Raise IndexError
  | Some n => match nth_error l n with Some x => Ok x | None => Raise IndexError end
  end.

(* l[i] = x *)
Definition py_setitem (l : list A) (i : Z) (x : A) : res (list A) :=
  match norm_index i (zlen l) with
  | None => Raise IndexError
  | Some n => Ok (set_nth n x l)
  end.

(* del l[i] *)
Definition py_delitem (l : list A) (i : Z) : res (list A) :=
  match norm_index i (zlen l) with
  | None => Raise IndexError
  | Some n => Ok (del_nth n l)
  end.

(* l.insert(i, x): i is clamped into [0, len] after adding len to a negative i; never raises *)
Definition insert_pos (i len : Z) : Z :=
  if i <? 0 then Z.max 0 (i + len) else Z.min i len.
Definition py_insert (l : list A) (i : Z) (x : A) : list A :=
  let p := Z.to_nat (insert_pos i (zlen l)) in
  firstn p l ++ x :: skipn p l.

(* l.pop(i)  (i = -1 when omitted): IndexError on the empty list and on an index out of range *)
Definition py_pop (l : list A) (i : Z) : res (A * list A) :=
  match norm_index i (zlen l) with
  | None => Raise IndexError
  | Some n => match nth_error l n with
              | Some x => Ok (x, del_nth n l)
              | None => Raise IndexError
              end
  end.

(* the elements at the given positions, in the order of the positions (a position outside the
   list selects nothing: unreachable after [adjust], see PySliceProofs.range_in_bounds) *)
Definition sel (js : list nat) (l : list A) : list A :=
  flat_map (fun j => match nth_error l j with Some x => [x] | None => [] end) js.
Definition pick (idx : list Z) (l : list A) : list A := sel (map Z.to_nat idx) l.

(* the list without the elements at the given indices, order kept *)
Definition drop_idx (idx : list Z) (l : list A) : list A :=
  sel (filter (fun j => negb (memZ (Z.of_nat j) idx)) (seq 0 (length l))) l.

(* l[sl] *)
Definition py_getslice (l : list A) (sl : pyslice) : res (list A) :=
  match adjust sl (zlen l) with
  | Raise e => Raise e
  | Ok (start, stop, step) => Ok (pick (range start stop step) l)
  end.

(* del l[sl] *)
Definition py_delslice (l : list A) (sl : pyslice) : res (list A) :=
  match adjust sl (zlen l) with
  | Raise e => Raise e
  | Ok (start, stop, step) => Ok (drop_idx (range start stop step) l)
  end.

(* extended-slice assignment body: selfitems[cur] = seqitems[i] *)
Definition assign_at (l : list A) (ivs : list (Z * A)) : list A :=
  fold_left (fun acc iv => set_nth (Z.to_nat (fst iv)) (snd iv) acc) ivs l.

(* l[sl] = v   for a sequence v (already materialised: CPython copies v first when v is l).
   step = 1: list_ass_slice (stop raised to start, any length of v).
   step <> 1: sizes must agree, else ValueError. *)
Definition py_setslice (l : list A) (sl : pyslice) (v : list A) : res (list A) :=
  match adjust sl (zlen l) with
  | Raise e => Raise e
  | Ok (start, stop, step) =>
    if step =? 1 then
      Ok (firstn (Z.to_nat start) l ++ v ++ skipn (Z.to_nat (Z.max start stop)) l)
    else
      let idx := range start stop step in
      if Nat.eqb (length v) (length idx) then Ok (assign_at l (combine idx v))
      else Raise ValueError
  end.

(* l *= n *)
Definition py_imul (l : list A) (n : Z) : list A :=
  if n <=? 0 then [] else concat (repeat l (Z.to_nat n)).

End L.

Arguments zlen {A} l.
Arguments set_nth {A} n x l.
Arguments del_nth {A} n l.
Arguments py_getitem {A} l i.
Arguments py_setitem {A} l i x.
Arguments py_delitem {A} l i.
Arguments py_insert {A} l i x.
Arguments py_pop {A} l i.
Arguments sel {A} js l.
Arguments pick {A} idx l.
Arguments drop_idx {A} idx l.
Arguments py_getslice {A} l sl.
Arguments py_delslice {A} l sl.
Arguments assign_at {A} l ivs.
Arguments py_setslice {A} l sl v.
Arguments py_imul {A} l n.
