(* Generic exchange format between the Python harness and every executable model:
   nested lists of integers.  Python ints -> [I z]; strings -> [L] of code points; tuples/lists -> [L]. *)
From Coq Require Import List ZArith Bool.
Import ListNotations.

Inductive tree : Type := I (z : Z) | L (l : list tree).

Fixpoint tree_eqb (a b : tree) {struct a} : bool :=
  match a, b with
  | I x, I y => Z.eqb x y
  | L xs, L ys =>
      (fix go (xs ys : list tree) {struct xs} : bool :=
         match xs, ys with
         | [], [] => true
         | x :: xs', y :: ys' => tree_eqb x y && go xs' ys'
         | _, _ => false
         end) xs ys
  | _, _ => false
  end.

(* indices (0-based) of the cases on which [f] disagrees with the expected observation *)
Fixpoint bad_from (f : tree -> tree) (n : nat) (cs : list (tree * tree)) : list nat :=
  match cs with
  | [] => []
  | (i, o) :: r => if tree_eqb (f i) o then bad_from f (S n) r else n :: bad_from f (S n) r
  end.
Definition bad_indices (f : tree -> tree) (cs : list (tree * tree)) : list nat := bad_from f 0 cs.

(* decoding helpers; a model's [run_case] returns [bad_input] on a tree it does not understand, which
   never equals an implementation observation (observations never contain the tag -999). *)
Definition bad_input : tree := L [I (-999)%Z].

Definition as_Z (t : tree) : option Z := match t with I z => Some z | _ => None end.
Definition as_N (t : tree) : option N :=
  match t with I z => if (0 <=? z)%Z then Some (Z.to_N z) else None | _ => None end.
Definition as_nat (t : tree) : option nat :=
  match t with I z => if (0 <=? z)%Z then Some (Z.to_nat z) else None | _ => None end.
Definition as_bool (t : tree) : option bool :=
  match t with I 0%Z => Some false | I 1%Z => Some true | _ => None end.
Definition as_list (t : tree) : option (list tree) := match t with L l => Some l | _ => None end.

Fixpoint all_some {A} (l : list (option A)) : option (list A) :=
  match l with
  | [] => Some []
  | Some a :: r => match all_some r with Some r' => Some (a :: r') | None => None end
  | None :: _ => None
  end.
Definition as_list_of {A} (f : tree -> option A) (t : tree) : option (list A) :=
  match t with L l => all_some (map f l) | _ => None end.
Definition as_pair_of {A B} (f : tree -> option A) (g : tree -> option B) (t : tree) : option (A * B) :=
  match t with
  | L [a; b] => match f a, g b with Some x, Some y => Some (x, y) | _, _ => None end
  | _ => None
  end.
(* Python None is encoded as [L []] where an optional integer is expected, [I z] otherwise *)
Definition as_optZ (t : tree) : option (option Z) :=
  match t with I z => Some (Some z) | L [] => Some None | _ => None end.

Definition of_bool (b : bool) : tree := I (if b then 1 else 0)%Z.
Definition of_N (n : N) : tree := I (Z.of_N n).
Definition of_nat (n : nat) : tree := I (Z.of_nat n).
Definition of_list {A} (f : A -> tree) (l : list A) : tree := L (map f l).
Definition of_optZ (o : option Z) : tree := match o with Some z => I z | None => L [] end.
