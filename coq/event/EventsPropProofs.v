(* C28: the forward and the reverse registry map agree, and every listener of every collection is
   known to the registry, after every operation of every guarded propagation history. *)
From Coq Require Import List Arith Bool Lia.
Import ListNotations.
From SAV.event Require Import Events EventsWalk EventsColl EventsProofs EventsProp.

(* ------------------------------------------------------------------ boolean tests *)
Lemma pkey_eqb_eq : forall a b : pkey, pkey_eqb a b = true <-> a = b.
Proof.
  intros [a1 a2] [b1 b2]. unfold pkey_eqb. cbn. rewrite andb_true_iff, !Nat.eqb_eq.
  split; [intros [-> ->]; reflexivity|intro H; inversion H; auto].
Qed.
Lemma pkey_eqb_refl : forall a, pkey_eqb a a = true.
Proof. intro. apply pkey_eqb_eq. reflexivity. Qed.
Lemma pkey_eqb_neq : forall a b : pkey, pkey_eqb a b = false <-> a <> b.
Proof.
  intros a b. destruct (pkey_eqb a b) eqn:E; split; intro H; try discriminate; try reflexivity.
  - apply pkey_eqb_eq in E. contradiction.
  - intro X. apply pkey_eqb_eq in X. congruence.
Qed.
Lemma mem_ident_In : forall a l, mem_ident a l = true <-> In a l.
Proof.
  intros. unfold mem_ident. rewrite existsb_exists. split.
  - intros [b [Hb E]]. apply ident_eqb_eq in E. subst. exact Hb.
  - intro H. exists a. split; [exact H|apply ident_eqb_refl].
Qed.
Lemma mem_ident_false : forall a l, mem_ident a l = false <-> ~ In a l.
Proof. intros. rewrite <- mem_ident_In. destruct (mem_ident a l); intuition congruence. Qed.
Lemma mem_id_In' : forall a l, mem_id a l = true <-> In a (map l_id l).
Proof.
  intros. unfold mem_id. rewrite existsb_exists, in_map_iff. split.
  - intros [y [Hy E]]. apply ident_eqb_eq in E. exists y. auto.
  - intros [y [E Hy]]. exists y. split; [exact Hy|]. apply ident_eqb_eq. auto.
Qed.

Lemma fwd_has_true : forall k o m, fwd_has k o m = true <-> exists a, In (k, o, a) m.
Proof.
  intros. unfold fwd_has. rewrite existsb_exists. split.
  - intros [[[k' o'] a] [H E]]. cbn in E. apply andb_true_iff in E. destruct E as [E1 E2].
    apply pkey_eqb_eq in E1. apply Nat.eqb_eq in E2. subst. exists a. exact H.
  - intros [a H]. exists (k, o, a). split; [exact H|]. cbn. rewrite pkey_eqb_refl, Nat.eqb_refl. reflexivity.
Qed.
Lemma fwd_has_false : forall k o m, fwd_has k o m = false <-> forall a, ~ In (k, o, a) m.
Proof.
  intros. destruct (fwd_has k o m) eqn:E; split; intro H; try discriminate; try reflexivity.
  - apply fwd_has_true in E. destruct E as [a Ha]. exfalso. eapply H; eauto.
  - intros a Ha. assert (fwd_has k o m = true) by (apply fwd_has_true; eauto). congruence.
Qed.
Lemma fwd_has_key_true : forall k m, fwd_has_key k m = true <-> exists o a, In (k, o, a) m.
Proof.
  intros. unfold fwd_has_key. rewrite existsb_exists. split.
  - intros [[[k' o'] a] [H E]]. cbn in E. apply pkey_eqb_eq in E. subst. eauto.
  - intros [o [a H]]. exists (k, o, a). split; [exact H|]. cbn. apply pkey_eqb_refl.
Qed.
Lemma In_fwd_of_key : forall k o a m, In (o, a) (fwd_of_key k m) <-> In (k, o, a) m.
Proof.
  intros. unfold fwd_of_key. rewrite in_map_iff. split.
  - intros [[[k' o'] a'] [E H]]. apply filter_In in H. destruct H as [H1 H2]. cbn in *.
    apply pkey_eqb_eq in H2. inversion E. subst. exact H1.
  - intro H. exists (k, o, a). split; [reflexivity|]. apply filter_In. split; [exact H|]. cbn. apply pkey_eqb_refl.
Qed.
Lemma In_fwd_del_key : forall k k' o a m, In (k', o, a) (fwd_del_key k m) <-> In (k', o, a) m /\ k' <> k.
Proof.
  intros. unfold fwd_del_key. rewrite filter_In. cbn. rewrite negb_true_iff, pkey_eqb_neq.
  split; intros [A B]; split; auto.
Qed.

Lemma rev_is_true : forall o a e, rev_is o a e = true <-> fst e = (o, a).
Proof.
  intros o a [[o' a'] k]. unfold rev_is. cbn. rewrite andb_true_iff, Nat.eqb_eq, ident_eqb_eq.
  split; [intros [-> ->]; reflexivity|intro H; inversion H; auto].
Qed.
Lemma In_rev_del : forall o a e m, In e (rev_del o a m) <-> In e m /\ fst e <> (o, a).
Proof.
  intros. unfold rev_del. rewrite filter_In, negb_true_iff. split; intros [A B]; split; auto.
  - intro X. apply rev_is_true in X. congruence.
  - destruct (rev_is o a e) eqn:E; [|reflexivity]. apply rev_is_true in E. contradiction.
Qed.
Lemma rev_lookup_In : forall o a k m, NoDup (map fst m) -> (rev_lookup o a m = Some k <-> In (o, a, k) m).
Proof.
  induction m as [|e m IH]; intro ND; cbn; [split; [discriminate|intros []]|].
  inversion ND as [|? ? Hn ND']; subst. destruct (rev_is o a e) eqn:E.
  - apply rev_is_true in E. split.
    + intro H. inversion H. left. destruct e as [oa k']. cbn in *. subst. reflexivity.
    + intros [Heq|H]; [subst e; reflexivity|]. exfalso. apply Hn. rewrite E. change (o, a) with (fst (o, a, k)).
      apply in_map. exact H.
  - rewrite (IH ND'). split; [intro H; right; exact H|].
    intros [Heq|H]; [|exact H]. subst e. unfold rev_is in E. cbn in E. rewrite Nat.eqb_refl, ident_eqb_refl in E. discriminate.
Qed.
Lemma rev_lookup_other : forall o a o' a' k m, o <> o' -> rev_lookup o a (rev_set o' a' k m) = rev_lookup o a m.
Proof.
  intros. unfold rev_set. cbn. unfold rev_is at 1. cbn.
  destruct (Nat.eqb_spec o o'); [contradiction|]. cbn.
  unfold rev_del. induction m as [|e m IH]; cbn; [reflexivity|].
  destruct (rev_is o' a' e) eqn:E; cbn.
  - rewrite IH. destruct (rev_is o a e) eqn:E2; [|reflexivity].
    apply rev_is_true in E. apply rev_is_true in E2. rewrite E in E2. inversion E2. congruence.
  - rewrite IH. reflexivity.
Qed.
Lemma rev_set_nodup : forall o a k m, NoDup (map fst m) -> NoDup (map fst (rev_set o a k m)).
Proof.
  intros. unfold rev_set. cbn. constructor.
  - intro X. apply in_map_iff in X. destruct X as [e [E He]]. apply In_rev_del in He. destruct He. congruence.
  - unfold rev_del. apply NoDup_map_filter. exact H.
Qed.
Lemma In_rev_set : forall o a k e m, In e (rev_set o a k m) <-> e = (o, a, k) \/ (In e m /\ fst e <> (o, a)).
Proof. intros. unfold rev_set. cbn. rewrite In_rev_del. intuition. Qed.

(* ------------------------------------------------------------------ sets of function objects *)
Lemma In_set_add : forall a b s, In b (set_add a s) <-> b = a \/ In b s.
Proof.
  intros. unfold set_add. destruct (mem_ident a s) eqn:E; cbn; [|intuition].
  apply mem_ident_In in E. split; [auto|intros [->|H]; auto].
Qed.
Lemma In_set_union : forall t s b, In b (set_union s t) <-> In b s \/ In b t.
Proof.
  induction t as [|a t IH]; intros s b; cbn; [tauto|]. rewrite IH, In_set_add. intuition.
Qed.
Lemma In_set_discard : forall a b s, In b (set_discard a s) <-> In b s /\ b <> a.
Proof.
  intros. unfold set_discard. rewrite filter_In, negb_true_iff, ident_eqb_neq. intuition.
Qed.
Lemma In_dedup : forall l a, In a (dedup l) <-> In a l.
Proof.
  induction l as [|b l IH]; intro a; cbn; [tauto|]. destruct (mem_ident b l) eqn:E.
  - rewrite IH. apply mem_ident_In in E. split; [auto|intros [<-|H]; auto].
  - cbn. rewrite IH. tauto.
Qed.
Lemma NoDup_dedup : forall l, NoDup (dedup l).
Proof.
  induction l as [|b l IH]; cbn; [constructor|]. destruct (mem_ident b l) eqn:E; [exact IH|].
  constructor; [|exact IH]. rewrite In_dedup. apply mem_ident_false. exact E.
Qed.

(* deque.remove on a list without repeated function objects *)
Lemma remove_first_nodup : forall a l, NoDup (map l_id l) -> In a (map l_id l) ->
  exists l', remove_first a l = Some l' /\ NoDup (map l_id l') /\
             forall b, In b (map l_id l') <-> In b (map l_id l) /\ b <> a.
Proof.
  induction l as [|y l IH]; intros ND Hin; [destruct Hin|]. cbn in ND. inversion ND as [|? ? Hy ND']; subst.
  cbn [remove_first]. destruct (ident_eqb a (l_id y)) eqn:E.
  - apply ident_eqb_eq in E. subst a. exists l. split; [reflexivity|]. split; [exact ND'|].
    intro b. cbn. split; [intro H; split; [right; exact H|intro; subst; contradiction]|].
    intros [[<-|H] N]; [contradiction|exact H].
  - apply ident_eqb_neq in E. destruct Hin as [Hin|Hin]; [congruence|].
    destruct (IH ND' Hin) as [l' [E1 [E2 E3]]]. rewrite E1. exists (y :: l'). split; [reflexivity|]. split.
    + cbn. constructor; [|exact E2]. intro X. apply E3 in X. tauto.
    + intro b. cbn. rewrite E3. split; [intros [<-|[H N]]; auto|intros [[<-|H] N]; auto].
Qed.

(* ================================================================== the invariant *)
Definition fko (e : pkey * nat * ident) : pkey * nat := (fst (fst e), snd (fst e)).

Record PInv (st : pstate) : Prop := {
  q_coll : forall j c, get_coll st j = Some c -> NoDup (idents c) /\ (forall a, In a (c_p c) -> In a (idents c));
  (* every listener of every collection is registered for that collection, and conversely *)
  q_reg : forall j c a, get_coll st j = Some c -> (In a (idents c) <-> exists k, In (k, j, a) (p_fwd st));
  q_own : forall k o a, In (k, o, a) (p_fwd st) -> exists c, get_coll st o = Some c;
  q_ko : NoDup (map fko (p_fwd st));
  (* the forward and the reverse map hold the same associations *)
  q_agree : forall k o a, In (k, o, a) (p_fwd st) <-> In (o, a, k) (p_rev st);
  q_revf : NoDup (map fst (p_rev st));
  q_fresh : forall k o w, In (k, o, IdW w) (p_fwd st) -> w < p_next st;
  q_same : forall k o o' a a', In (k, o, a) (p_fwd st) -> In (k, o', a') (p_fwd st) -> a = a';
  q_orig : forall k o a, In (k, o, a) (p_fwd st) -> In (k, fst k, a) (p_fwd st) }.

Lemma q_oa : forall st, PInv st -> forall k k' o a, In (k, o, a) (p_fwd st) -> In (k', o, a) (p_fwd st) -> k = k'.
Proof.
  intros st I k k' o a H1 H2. apply (q_agree _ I) in H1. apply (q_agree _ I) in H2.
  pose proof (NoDup_map_inj _ _ fst _ _ _ (q_revf _ I) H1 H2 eq_refl) as E. inversion E. reflexivity.
Qed.

Lemma get_coll_init : forall j, get_coll pinit j = None.
Proof. intro j. unfold get_coll. cbn. destruct j; reflexivity. Qed.
Lemma PInv_init : PInv pinit.
Proof.
  constructor.
  - intros j c H. rewrite get_coll_init in H. discriminate.
  - intros j c a H. rewrite get_coll_init in H. discriminate.
  - intros k o a H. destruct H.
  - constructor.
  - intros k o a. cbn. tauto.
  - constructor.
  - intros k o w H. destruct H.
  - intros k o o' a a' H. destruct H.
  - intros k o a H. destruct H.
Qed.

Definition internal (o : pout) : bool :=
  match o with POut x => match x with OValueError | OFuel | OUnreach => true | _ => false end | PMaps _ _ => false end.

(* get_coll after an update of one slot *)
Lemma get_coll_set_eq : forall st insts' i c, nth_error (p_insts st) i <> None ->
  insts' = set_nth (p_insts st) i (Some c) ->
  forall st', p_insts st' = insts' -> get_coll st' i = Some c.
Proof.
  intros st insts' i c Hi E st' E'. unfold get_coll. rewrite E', E, nth_error_set_nth_eq; [reflexivity|].
  apply nth_error_Some. exact Hi.
Qed.
Lemma get_coll_set_neq : forall st i x j st', p_insts st' = set_nth (p_insts st) i x -> i <> j ->
  get_coll st' j = get_coll st j.
Proof. intros. unfold get_coll. rewrite H, nth_error_set_nth_neq by assumption. reflexivity. Qed.

Lemma idents_place : forall b x l a, In a (map l_id (place b x l)) <-> a = l_id x \/ In a (map l_id l).
Proof.
  intros. unfold place. destruct b; cbn.
  - rewrite map_app, in_app_iff. cbn. intuition.
  - intuition.
Qed.
Lemma nodup_place : forall b x l, NoDup (map l_id l) -> ~ In (l_id x) (map l_id l) -> NoDup (map l_id (place b x l)).
Proof.
  intros. unfold place. destruct b; cbn.
  - rewrite map_app. cbn. apply EventsProofs.NoDup_app_snoc; assumption.
  - constructor; assumption.
Qed.

(* facts about "the collection of instance i after for_modify" *)
Lemma promoted_facts : forall st i oc, PInv st -> nth_error (p_insts st) i = Some oc ->
  let c := promoted oc in
  (NoDup (idents c) /\ (forall b, In b (c_p c) -> In b (idents c))) /\
  (forall b, In b (idents c) <-> exists k, In (k, i, b) (p_fwd st)).
Proof.
  intros st i oc I Ei c. destruct oc as [c0|].
  - assert (G : get_coll st i = Some c0) by (unfold get_coll; rewrite Ei; reflexivity).
    split; [apply (q_coll _ I i c0 G)|intro b; apply (q_reg _ I i c0 b G)].
  - split; [cbn; split; [constructor|intros b []]|]. intro b. cbn. split; [intros []|].
    intros [k H]. destruct (q_own _ I _ _ _ H) as [c0 Hc]. unfold get_coll in Hc. rewrite Ei in Hc. discriminate.
Qed.

Section SetInst.
(* a state that differs from st in the collection of instance i (and possibly the maps) *)
Variables (st st' : pstate) (i : nat) (c' : coll).
Hypothesis Hi : nth_error (p_insts st) i <> None.
Hypothesis Hins : p_insts st' = set_nth (p_insts st) i (Some c').
Lemma gc_eq : get_coll st' i = Some c'.
Proof. unfold get_coll. rewrite Hins, nth_error_set_nth_eq; [reflexivity|]. apply nth_error_Some. exact Hi. Qed.
Lemma gc_neq : forall j, i <> j -> get_coll st' j = get_coll st j.
Proof. intros. unfold get_coll. rewrite Hins, nth_error_set_nth_neq by assumption. reflexivity. Qed.
End SetInst.

Lemma pstep_listen : forall st i f fl, PInv st -> pgstep st (PListen i f fl) = true ->
  PInv (fst (pstep st (PListen i f fl))) /\ internal (snd (pstep st (PListen i f fl))) = false.
Proof.
  intros st i f fl I G. cbn [pstep]. destruct (nth_error (p_insts st) i) as [oc|] eqn:Ei; [|split; [exact I|reflexivity]].
  assert (Hne : nth_error (p_insts st) i <> None) by congruence.
  destruct (promoted_facts st i oc I Ei) as [[Cnd Cp] Cr].
  set (c := promoted oc) in *. set (x := mk_lfn (p_next st) f fl). set (a := l_id x).
  destruct (fwd_has (i, f) i (p_fwd st)) eqn:Hh; cbn [fst snd]; (split; [|reflexivity]).
  - (* the pair is registered for this collection already *)
    match goal with |- PInv ?s => set (st' := s) end.
    assert (Gi : get_coll st' i = Some c) by (eapply gc_eq; [exact Hne|reflexivity]).
    assert (Gj : forall j, i <> j -> get_coll st' j = get_coll st j) by (intros; eapply gc_neq; [reflexivity|assumption]).
    constructor; cbn [st' p_insts p_fwd p_rev p_next p_fired].
    + intros j c0 H. destruct (Nat.eq_dec i j) as [<-|N]; [rewrite Gi in H; inversion H; subst; auto|].
      rewrite Gj in H by exact N. apply (q_coll _ I j c0 H).
    + intros j c0 b H. destruct (Nat.eq_dec i j) as [<-|N]; [rewrite Gi in H; inversion H; subst; apply Cr|].
      rewrite Gj in H by exact N. apply (q_reg _ I j c0 b H).
    + intros k o b H. destruct (Nat.eq_dec i o) as [<-|N]; [eauto|]. rewrite Gj by exact N. apply (q_own _ I k o b H).
    + apply (q_ko _ I).
    + apply (q_agree _ I).
    + apply (q_revf _ I).
    + intros k o w H. pose proof (q_fresh _ I k o w H). lia.
    + apply (q_same _ I).
    + apply (q_orig _ I).
  - (* a new registration *)
    assert (N1 : ~ In a (idents c)).
    { intro X. apply Cr in X. destruct X as [k X]. unfold a, x, mk_lfn in X. cbn [l_id] in X.
      destruct (fl_once fl || fl_wrap fl) eqn:W.
      - pose proof (q_fresh _ I _ _ _ X). lia.
      - cbn [pgstep] in G. unfold get_coll in G. rewrite Ei in G.
        assert (Xi : In (IdF f) (idents c)) by (apply Cr; eauto).
        destruct oc as [c0|]; [|destruct Xi].
        rewrite W, Hh in G. cbn in G. apply negb_true_iff, mem_ident_false in G. contradiction. }
    assert (N2 : forall o b, ~ In ((i, f), o, b) (p_fwd st)).
    { intros o b X. apply (q_orig _ I) in X. cbn [fst] in X.
      assert (fwd_has (i, f) i (p_fwd st) = true) by (apply fwd_has_true; eauto). congruence. }
    assert (N3 : forall k, ~ In (i, a, k) (p_rev st)).
    { intros k X. apply (q_agree _ I) in X. apply N1. apply Cr. eauto. }
    set (c' := {| c_l := place (negb (fl_insert fl)) x (c_l c);
                  c_p := if fl_prop fl then set_add (l_id x) (c_p c) else c_p c |}).
    match goal with |- PInv ?s => set (st' := s) end.
    assert (Gi : get_coll st' i = Some c') by (eapply gc_eq; [exact Hne|reflexivity]).
    assert (Gj : forall j, i <> j -> get_coll st' j = get_coll st j) by (intros; eapply gc_neq; [reflexivity|assumption]).
    assert (Ic : forall b, In b (idents c') <-> b = a \/ In b (idents c)) by (intro b; apply idents_place).
    constructor; cbn [st' p_insts p_fwd p_rev p_next p_fired].
    + intros j c0 H. destruct (Nat.eq_dec i j) as [<-|N].
      * rewrite Gi in H. inversion H. subst c0. split; [apply nodup_place; assumption|].
        intros b Hb. apply Ic. cbn [c' c_p] in Hb. destruct (fl_prop fl); [|right; auto].
        apply In_set_add in Hb. destruct Hb as [->|Hb]; [left; reflexivity|right; auto].
      * rewrite Gj in H by exact N. apply (q_coll _ I j c0 H).
    + intros j c0 b H. destruct (Nat.eq_dec i j) as [<-|N].
      * rewrite Gi in H. inversion H. subst c0. rewrite Ic, Cr. split.
        -- intros [->|[k X]]; [exists (i, f); apply in_or_app; right; left; reflexivity|exists k; apply in_or_app; left; exact X].
        -- intros [k X]. apply in_app_or in X. destruct X as [X|[X|[]]]; [right; eauto|inversion X; left; reflexivity].
      * rewrite Gj in H by exact N. rewrite (q_reg _ I j c0 b H). split; intros [k X]; exists k.
        -- apply in_or_app. left. exact X.
        -- apply in_app_or in X. destruct X as [X|[X|[]]]; [exact X|inversion X; congruence].
    + intros k o b H. apply in_app_or in H. destruct H as [H|[H|[]]].
      * destruct (Nat.eq_dec i o) as [<-|N]; [eauto|]. rewrite Gj by exact N. apply (q_own _ I k o b H).
      * inversion H. subst. eauto.
    + rewrite map_app. cbn. apply NoDup_app_snoc; [apply (q_ko _ I)|].
      intro X. apply in_map_iff in X. destruct X as [[[k o] b] [E X]]. unfold fko in E. cbn in E. inversion E. subst.
      eapply N2; eauto.
    + intros k o b. rewrite in_app_iff, In_rev_set. cbn. rewrite <- (q_agree _ I). split.
      * intros [H|[H|[]]]; [right; split; [exact H|]|left; inversion H; reflexivity].
        cbn. intro E. inversion E. subst. apply N1. apply Cr. eauto.
      * intros [H|[H _]]; [right; left; inversion H; reflexivity|left; exact H].
    + apply rev_set_nodup. apply (q_revf _ I).
    + intros k o w H. apply in_app_or in H. destruct H as [H|[H|[]]].
      * pose proof (q_fresh _ I k o w H). lia.
      * inversion H. unfold a, x, mk_lfn in *. cbn [l_id] in *. destruct (fl_once fl || fl_wrap fl); [|discriminate].
        match goal with E : IdW _ = IdW _ |- _ => inversion E end. lia.
    + intros k o o' b b' H H'. apply in_app_or in H. apply in_app_or in H'.
      destruct H as [H|[H|[]]], H' as [H'|[H'|[]]].
      * eapply (q_same _ I); eauto.
      * inversion H'. subst. exfalso. eapply N2; eauto.
      * inversion H. subst. exfalso. eapply N2; eauto.
      * inversion H. inversion H'. congruence.
    + intros k o b H. apply in_app_or in H. destruct H as [H|[H|[]]].
      * apply in_or_app. left. apply (q_orig _ I k o b H).
      * inversion H. subst. apply in_or_app. right. left. reflexivity.
Qed.

(* ------------------------------------------------------------------ remove *)
Lemma remove_all_spec : forall owners insts rev,
  NoDup (map fst owners) ->
  (forall o a, In (o, a) owners -> exists c, nth_error insts o = Some (Some c) /\ NoDup (idents c) /\ In a (idents c)) ->
  exists insts' rev', remove_all owners insts rev = (insts', rev', OOk) /\
    (forall j, nth_error insts j = Some None \/ nth_error insts j = None -> nth_error insts' j = nth_error insts j) /\
    (forall j c, nth_error insts j = Some (Some c) -> exists c', nth_error insts' j = Some (Some c') /\
        (NoDup (idents c) -> NoDup (idents c')) /\
        (forall b, In b (idents c') <-> In b (idents c) /\ ~ In (j, b) owners) /\
        (forall b, In b (c_p c') -> In b (c_p c) /\ ~ In (j, b) owners)) /\
    (forall e, In e rev' <-> In e rev /\ ~ In (fst e) owners) /\
    (NoDup (map fst rev) -> NoDup (map fst rev')).
Proof.
  induction owners as [|[o a] r IH]; intros insts rev ND H.
  - exists insts, rev. split; [reflexivity|]. split; [auto|]. split; [|split; [intro e; cbn; tauto|auto]].
    intros j c Hj. exists c. split; [exact Hj|]. split; [auto|]. split; intro b; cbn; tauto.
  - cbn in ND. inversion ND as [|? ? Ho ND']; subst.
    destruct (H o a (or_introl eq_refl)) as [c [Hc [Cnd Ca]]].
    destruct (remove_first_nodup a (c_l c) Cnd Ca) as [l' [E1 [E2 E3]]].
    cbn [remove_all]. rewrite Hc, E1.
    set (c1 := {| c_l := l'; c_p := set_discard a (c_p c) |}).
    assert (Ho' : o < length insts) by (apply nth_error_Some; congruence).
    destruct (IH (set_nth insts o (Some c1)) (rev_del o a rev) ND') as [insts' [rev' [R [A [B [C D]]]]]].
    { intros o' a' Hin. assert (o <> o') by (intro; subst; apply Ho; change o' with (fst (o', a')); apply in_map; exact Hin).
      rewrite nth_error_set_nth_neq by assumption. apply H. right. exact Hin. }
    exists insts', rev'. split; [exact R|]. split; [|split; [|split]].
    + intros j Hj. assert (o <> j) by (intro; subst; destruct Hj; congruence).
      rewrite A; rewrite nth_error_set_nth_neq by assumption; auto.
    + intros j c0 Hj. destruct (Nat.eq_dec o j) as [<-|N].
      * rewrite Hc in Hj. inversion Hj. subst c0.
        destruct (B o c1 (nth_error_set_nth_eq _ _ _ _ Ho')) as [c' [F1 [F2 [F3 F4]]]].
        exists c'. split; [exact F1|]. split; [intros _; apply F2; exact E2|]. split.
        -- intro b. rewrite F3. unfold idents at 1. cbn [c1 c_l]. rewrite E3. cbn. split.
           ++ intros [[X1 X2] X3]. split; [exact X1|]. intros [X|X]; [inversion X; congruence|contradiction].
           ++ intros [X1 X2]. split; [split; [exact X1|intro; subst; apply X2; left; reflexivity]|].
              intro X. apply X2. right. exact X.
        -- intros b Hb. apply F4 in Hb. destruct Hb as [X1 X2]. cbn [c1 c_p] in X1. apply In_set_discard in X1.
           split; [tauto|]. intros [X|X]; [inversion X; subst; tauto|contradiction].
      * destruct (B j c0) as [c' [F1 [F2 [F3 F4]]]]; [rewrite nth_error_set_nth_neq by exact N; exact Hj|].
        exists c'. split; [exact F1|]. split; [exact F2|]. split.
        -- intro b. rewrite F3. cbn. split; [intros [X1 X2]; split; [exact X1|]|intros [X1 X2]; split; [exact X1|]].
           ++ intros [X|X]; [inversion X; congruence|contradiction].
           ++ intro X. apply X2. right. exact X.
        -- intros b Hb. apply F4 in Hb. destruct Hb as [X1 X2]. split; [exact X1|].
           intros [X|X]; [inversion X; congruence|contradiction].
    + intro e. rewrite C, In_rev_del. cbn. split.
      * intros [[X1 X2] X3]. split; [exact X1|]. intros [X|X]; [congruence|contradiction].
      * intros [X1 X2]. split; [split; [exact X1|intro X; apply X2; left; congruence]|]. intro X. apply X2. right. exact X.
    + intro N. apply D. unfold rev_del. apply NoDup_map_filter. exact N.
Qed.

Lemma owners_nodup : forall k m, NoDup (map fko m) -> NoDup (map fst (fwd_of_key k m)).
Proof.
  intros k m. unfold fwd_of_key. induction m as [|[[k' o] a] m IH]; cbn; intro H; [constructor|].
  inversion H as [|? ? Hn H']; subst. destruct (pkey_eqb k k') eqn:E; cbn; [|apply IH; exact H'].
  apply pkey_eqb_eq in E. subst k'. constructor; [|apply IH; exact H'].
  intro X. apply Hn. rewrite map_map in X. apply in_map_iff in X. destruct X as [[[k2 o2] a2] [E2 X]].
  apply filter_In in X. destruct X as [X1 X2]. cbn in E2, X2. apply pkey_eqb_eq in X2. subst k2 o2.
  apply in_map_iff. exists (k, o, a2). split; [reflexivity|exact X1].
Qed.

Lemma pstep_remove : forall st i f, PInv st ->
  PInv (fst (pstep st (PRemove i f))) /\ internal (snd (pstep st (PRemove i f))) = false.
Proof.
  intros st i f I. cbn [pstep]. destruct (Nat.ltb i (length (p_insts st))); [|split; [exact I|reflexivity]].
  destruct (fwd_has_key (i, f) (p_fwd st)) eqn:Hk; [|split; [exact I|reflexivity]].
  set (k := (i, f)) in *. set (owners := fwd_of_key k (p_fwd st)).
  assert (Ow : forall o a, In (o, a) owners <-> In (k, o, a) (p_fwd st)) by (intros; apply In_fwd_of_key).
  destruct (remove_all_spec owners (p_insts st) (p_rev st)) as [insts' [rev' [R [A [B [C D]]]]]].
  { apply owners_nodup. apply (q_ko _ I). }
  { intros o a Hin. apply Ow in Hin. destruct (q_own _ I _ _ _ Hin) as [c Hc].
    exists c. unfold get_coll in Hc. destruct (nth_error (p_insts st) o) as [[c0|]|] eqn:E; try discriminate.
    inversion Hc. subst c0. split; [reflexivity|].
    assert (G : get_coll st o = Some c) by (unfold get_coll; rewrite E; reflexivity).
    split; [apply (q_coll _ I o c G)|]. apply (q_reg _ I o c a G). eauto. }
  rewrite R. cbn [fst snd]. split; [|reflexivity].
  match goal with |- PInv ?s => set (st' := s) end.
  (* collections before and after *)
  assert (GC : forall j c', get_coll st' j = Some c' -> exists c, get_coll st j = Some c /\
            (NoDup (idents c) -> NoDup (idents c')) /\
            (forall b, In b (idents c') <-> In b (idents c) /\ ~ In (k, j, b) (p_fwd st)) /\
            (forall b, In b (c_p c') -> In b (c_p c) /\ ~ In (k, j, b) (p_fwd st))).
  { intros j c' H. unfold get_coll in H. cbn [st' p_insts] in H.
    destruct (nth_error (p_insts st) j) as [[c|]|] eqn:E.
    - destruct (B j c E) as [c2 [F1 [F2 [F3 F4]]]]. rewrite F1 in H. inversion H. subst c2.
      exists c. split; [unfold get_coll; rewrite E; reflexivity|]. split; [exact F2|]. split.
      + intro b. rewrite F3, Ow. tauto.
      + intros b Hb. apply F4 in Hb. rewrite Ow in Hb. exact Hb.
    - rewrite A in H by (left; exact E). rewrite E in H. discriminate.
    - rewrite A in H by (right; exact E). rewrite E in H. discriminate. }
  assert (GC2 : forall j c, get_coll st j = Some c -> exists c', get_coll st' j = Some c').
  { intros j c H. unfold get_coll in H. destruct (nth_error (p_insts st) j) as [[c0|]|] eqn:E; try discriminate.
    destruct (B j c0 E) as [c2 [F1 _]]. exists c2. unfold get_coll. cbn [st' p_insts]. rewrite F1. reflexivity. }
  constructor; cbn [st' p_fwd p_rev p_next p_fired].
  - intros j c' H. destruct (GC j c' H) as [c [G [F2 [F3 F4]]]]. destruct (q_coll _ I j c G) as [X1 X2].
    split; [apply F2; exact X1|]. intros b Hb. apply F4 in Hb. apply F3. split; [apply X2; tauto|tauto].
  - intros j c' b H. destruct (GC j c' H) as [c [G [F2 [F3 F4]]]]. rewrite F3, (q_reg _ I j c b G). split.
    + intros [[k' X] N]. exists k'. apply In_fwd_del_key. split; [exact X|]. intro; subst. contradiction.
    + intros [k' X]. apply In_fwd_del_key in X. destruct X as [X N]. split; [eauto|].
      intro Y. apply N. eapply (q_oa _ I); eauto.
  - intros k' o b H. apply In_fwd_del_key in H. destruct H as [H _].
    destruct (q_own _ I _ _ _ H) as [c G]. apply (GC2 o c G).
  - unfold fwd_del_key. apply NoDup_map_filter. apply (q_ko _ I).
  - intros k' o b. rewrite In_fwd_del_key, C, <- (q_agree _ I). cbn [fst]. rewrite Ow. split.
    + intros [H N]. split; [exact H|]. intro Y. apply N. eapply (q_oa _ I); eauto.
    + intros [H N]. split; [exact H|]. intro; subst. contradiction.
  - apply D. apply (q_revf _ I).
  - intros k' o w H. apply In_fwd_del_key in H. apply (q_fresh _ I k' o w). tauto.
  - intros k' o o' b b' H H'. apply In_fwd_del_key in H. apply In_fwd_del_key in H'.
    eapply (q_same _ I); [apply H|apply H'].
  - intros k' o b H. apply In_fwd_del_key in H. destruct H as [H N]. apply In_fwd_del_key.
    split; [apply (q_orig _ I k' o b H)|exact N].
Qed.

(* ------------------------------------------------------------------ _update *)
Lemma NoDup_app_disj : forall A (l1 l2 : list A), NoDup l1 -> NoDup l2 -> (forall x, In x l1 -> ~ In x l2) -> NoDup (l1 ++ l2).
Proof.
  induction l1 as [|a l1 IH]; intros l2 N1 N2 D; cbn; [exact N2|]. inversion N1 as [|? ? Ha N1']; subst.
  constructor.
  - intro X. apply in_app_or in X. destruct X as [X|X]; [contradiction|]. apply (D a (or_introl eq_refl) X).
  - apply IH; auto. intros x Hx. apply D. right. exact Hx.
Qed.

Lemma assoc_multi_spec : forall j i (kf : ident -> pkey), j <> i -> forall els fwd rev,
  NoDup (map kf els) ->
  (forall a, In a els -> rev_lookup i a rev = Some (kf a)) ->
  (forall a, In a els -> fwd_has (kf a) j fwd = false) ->
  exists rev', assoc_multi j i els fwd rev = (fwd ++ map (fun a => (kf a, j, a)) els, rev') /\
    (forall e, In e rev' <-> (In e rev /\ ~ (fst (fst e) = j /\ In (snd (fst e)) els)) \/
                             (exists a, In a els /\ e = (j, a, kf a))) /\
    (NoDup (map fst rev) -> NoDup (map fst rev')).
Proof.
  intros j i kf Hji. induction els as [|a r IH]; intros fwd rev ND HL HF.
  - exists rev. cbn. rewrite app_nil_r. split; [reflexivity|]. split; [|auto].
    intro e. split; [intro H; left; split; [exact H|intros [_ []]]|intros [[H _]|[a [[] _]]]; exact H].
  - cbn in ND. inversion ND as [|? ? Hk ND']; subst.
    cbn [assoc_multi]. rewrite (HL a (or_introl eq_refl)), (HF a (or_introl eq_refl)).
    assert (Har : ~ In a r) by (intro X; apply Hk; apply in_map; exact X).
    destruct (IH (fwd ++ [(kf a, j, a)]) (rev_set j a (kf a) rev) ND') as [rev' [E [C D]]].
    + intros a' Ha'. rewrite rev_lookup_other by (intro; subst; apply Hji; reflexivity). apply HL. right. exact Ha'.
    + intros a' Ha'. apply fwd_has_false. intros b X. apply in_app_or in X. destruct X as [X|[X|[]]].
      * pose proof (HF a' (or_intror Ha')) as F. eapply fwd_has_false in F. apply F. exact X.
      * injection X as E1 E2. apply Hk. rewrite E1. apply in_map. exact Ha'.
    + exists rev'. split; [rewrite E, <- app_assoc; reflexivity|]. split.
      * intro e. rewrite C, In_rev_set. cbn [In]. destruct e as [[o b] k]. cbn [fst snd]. split.
        -- intros [[[X|[X1 X2]] X3]|[a' [X1 X2]]].
           ++ right. exists a. split; [left; reflexivity|exact X].
           ++ left. split; [exact X1|]. intros [Y1 [Y2|Y2]]; [apply X2; cbn; congruence|apply X3; auto].
           ++ right. exists a'. split; [right; exact X1|exact X2].
        -- intros [[X1 X2]|[a' [[<-|X1] X2]]].
           ++ left. split; [right; split; [exact X1|]|].
              ** cbn. intro Y. inversion Y. subst. apply X2. auto.
              ** intros [Y1 Y2]. apply X2. auto.
           ++ left. split; [left; exact X2|]. inversion X2. subst. intros [_ Y]. contradiction.
           ++ right. exists a'. auto.
      * intro N. apply D. apply rev_set_nodup. exact N.
Qed.

Lemma pstep_update : forall st j i p, PInv st -> pgstep st (PUpdate j i p) = true ->
  PInv (fst (pstep st (PUpdate j i p))) /\ internal (snd (pstep st (PUpdate j i p))) = false.
Proof.
  intros st j i p I G. cbn [pstep].
  destruct (nth_error (p_insts st) j) as [ocj|] eqn:Ej; [|split; [exact I|reflexivity]].
  destruct (nth_error (p_insts st) i) as [oci|] eqn:Ei; [|split; [exact I|reflexivity]].
  destruct (Nat.eqb_spec j i) as [|Hji]; [split; [exact I|reflexivity]|].
  destruct oci as [ci|]; [|split; [exact I|reflexivity]].
  assert (Hne : nth_error (p_insts st) j <> None) by congruence.
  assert (Gi : get_coll st i = Some ci) by (unfold get_coll; rewrite Ei; reflexivity).
  destruct (q_coll _ I i ci Gi) as [Ind Ip]. pose proof (fun b => q_reg _ I i ci b Gi) as Ir.
  destruct (promoted_facts st j ocj I Ej) as [[Jnd Jp] Jr].
  set (cj := promoted ocj) in *.
  assert (Dj : forall a, In a (idents ci) -> ~ In a (idents cj)).
  { intros a Ha Hb. cbn [pgstep] in G. rewrite Gi in G. unfold get_coll in G. rewrite Ej in G.
    destruct ocj as [cj0|]; [|destruct Hb]. apply negb_true_iff in G.
    assert (existsb (fun a0 => mem_ident a0 (idents cj0)) (idents ci) = true); [|congruence].
    apply existsb_exists. exists a. split; [exact Ha|]. apply mem_ident_In. exact Hb. }
  set (prop' := set_union (c_p cj) (c_p ci)).
  set (others := filter (fun l => (negb (mem_id (l_id l) (c_l cj)) && negb p) || mem_ident (l_id l) prop') (c_l ci)).
  set (els := dedup (c_p ci ++ map l_id others)).
  assert (Osub : forall a, In a (map l_id others) -> In a (idents ci)).
  { intros a Ha. apply in_map_iff in Ha. destruct Ha as [l [E Hl]]. apply filter_In in Hl. destruct Hl as [Hl _].
    apply in_map_iff. exists l. auto. }
  assert (Ond : NoDup (map l_id others)) by (apply NoDup_map_filter; exact Ind).
  assert (Pin : forall a, In a (c_p ci) -> In a (map l_id others)).
  { intros a Ha. pose proof (Ip a Ha) as X. apply in_map_iff in X. destruct X as [l [E Hl]].
    apply in_map_iff. exists l. split; [exact E|]. apply filter_In. split; [exact Hl|].
    apply orb_true_iff. right. apply mem_ident_In. unfold prop'. apply In_set_union. right. rewrite E. exact Ha. }
  assert (Els : forall a, In a els <-> In a (map l_id others)).
  { intro a. unfold els. rewrite In_dedup, in_app_iff. split; [intros [X|X]; auto|auto]. }
  set (kf := fun a => match rev_lookup i a (p_rev st) with Some k => k | None => (0, 0) end).
  assert (Kf : forall a, In a els -> rev_lookup i a (p_rev st) = Some (kf a) /\ In (kf a, i, a) (p_fwd st)).
  { intros a Ha. apply Els, Osub, Ir in Ha. destruct Ha as [k Hk].
    assert (L : rev_lookup i a (p_rev st) = Some k) by (apply (rev_lookup_In _ _ _ _ (q_revf _ I)); apply (q_agree _ I); exact Hk).
    unfold kf. rewrite L. auto. }
  assert (Kinj : NoDup (map kf els)).
  { apply NoDup_map_on; [apply NoDup_dedup|]. intros x y Hx Hy E.
    destruct (Kf x Hx) as [_ X]. destruct (Kf y Hy) as [_ Y]. rewrite E in X. eapply (q_same _ I); eauto. }
  assert (Knew : forall a, In a els -> forall b, ~ In (kf a, j, b) (p_fwd st)).
  { intros a Ha b X. destruct (Kf a Ha) as [_ Y]. assert (b = a) by (eapply (q_same _ I); eauto). subst b.
    apply (Dj a); [apply Osub, Els; exact Ha|]. apply Jr. eauto. }
  destruct (assoc_multi_spec j i kf Hji els (p_fwd st) (p_rev st) Kinj) as [rev' [E [C D]]].
  { intros a Ha. apply (Kf a Ha). }
  { intros a Ha. apply fwd_has_false. apply Knew. exact Ha. }
  fold cj prop' others els. rewrite E. cbn [fst snd]. split; [|reflexivity].
  set (N := map (fun a => (kf a, j, a)) els).
  assert (InN : forall k o a, In (k, o, a) N <-> o = j /\ In a els /\ k = kf a).
  { intros k o a. unfold N. rewrite in_map_iff. split.
    - intros [a' [X Y]]. inversion X. subst. auto.
    - intros [-> [Y ->]]. exists a. auto. }
  set (cj' := {| c_l := c_l cj ++ others; c_p := prop' |}).
  match goal with |- PInv ?s => set (st' := s) end.
  assert (Gj : get_coll st' j = Some cj') by (eapply gc_eq; [exact Hne|reflexivity]).
  assert (Go : forall o, j <> o -> get_coll st' o = get_coll st o) by (intros; eapply gc_neq; [reflexivity|assumption]).
  assert (Ij : forall b, In b (idents cj') <-> In b (idents cj) \/ In b els).
  { intro b. unfold idents, cj'. cbn [c_l]. rewrite map_app, in_app_iff, Els. tauto. }
  constructor; cbn [st' p_fwd p_rev p_next p_fired].
  - intros o c0 H. destruct (Nat.eq_dec j o) as [<-|Nq]; [|rewrite Go in H by exact Nq; apply (q_coll _ I o c0 H)].
    rewrite Gj in H. inversion H. subst c0. split.
    + unfold idents, cj'. cbn [c_l]. rewrite map_app. apply NoDup_app_disj; [exact Jnd|exact Ond|].
      intros x Hx Hy. apply (Dj x); [apply Osub; exact Hy|exact Hx].
    + intros b Hb. apply Ij. cbn [cj' c_p] in Hb. unfold prop' in Hb. apply In_set_union in Hb.
      destruct Hb as [Hb|Hb]; [left; apply Jp; exact Hb|right; apply Els, Pin; exact Hb].
  - intros o c0 b H. destruct (Nat.eq_dec j o) as [<-|Nq].
    + rewrite Gj in H. inversion H. subst c0. rewrite Ij, Jr. split.
      * intros [[k X]|X]; [exists k; apply in_or_app; left; exact X|].
        exists (kf b). apply in_or_app. right. apply InN. auto.
      * intros [k X]. apply in_app_or in X. destruct X as [X|X]; [left; eauto|]. apply InN in X. tauto.
    + rewrite Go in H by exact Nq. rewrite (q_reg _ I o c0 b H). split; intros [k X]; exists k.
      * apply in_or_app. left. exact X.
      * apply in_app_or in X. destruct X as [X|X]; [exact X|]. apply InN in X. destruct X. congruence.
  - intros k o b H. apply in_app_or in H. destruct H as [H|H].
    + destruct (Nat.eq_dec j o) as [<-|Nq]; [eauto|]. rewrite Go by exact Nq. apply (q_own _ I k o b H).
    + apply InN in H. destruct H as [-> _]. eauto.
  - rewrite map_app. apply NoDup_app_disj; [apply (q_ko _ I)| |].
    + unfold N. rewrite map_map. unfold fko. cbn. 
      assert (M : map (fun x => (kf x, j)) els = map (fun k => (k, j)) (map kf els)) by (rewrite map_map; reflexivity).
      rewrite M. apply NoDup_map_on; [exact Kinj|]. intros x y _ _ Exy. inversion Exy. reflexivity.
    + intros x Hx Hy. apply in_map_iff in Hx. destruct Hx as [[[k o] b] [Ex Hx]].
      apply in_map_iff in Hy. destruct Hy as [[[k2 o2] b2] [Ey Hy]]. apply InN in Hy. destruct Hy as [-> [Hy ->]].
      unfold fko in *. cbn in *. subst x. inversion Ey. subst. eapply Knew; eauto.
  - intros k o b. rewrite in_app_iff, C, InN, <- (q_agree _ I). cbn [fst snd]. split.
    + intros [H|[-> [H ->]]]; [left; split; [exact H|]|right; exists b; auto].
      intros [-> Hb]. apply (Dj b); [apply Osub, Els; exact Hb|]. apply Jr. eauto.
    + intros [[H _]|[a [Ha Hx]]]; [left; exact H|]. inversion Hx. subst. right. auto.
  - apply D. apply (q_revf _ I).
  - intros k o w H. apply in_app_or in H. destruct H as [H|H]; [apply (q_fresh _ I k o w H)|].
    apply InN in H. destruct H as [-> [H ->]]. destruct (Kf _ H) as [_ X]. apply (q_fresh _ I _ _ _ X).
  - intros k o o' b b' H H'. apply in_app_or in H. apply in_app_or in H'.
    destruct H as [H|H], H' as [H'|H'].
    + eapply (q_same _ I); eauto.
    + apply InN in H'. destruct H' as [-> [H' ->]]. destruct (Kf _ H') as [_ X]. eapply (q_same _ I); eauto.
    + apply InN in H. destruct H as [-> [H ->]]. destruct (Kf _ H) as [_ X]. eapply (q_same _ I); eauto.
    + apply InN in H. apply InN in H'. destruct H as [-> [H ->]]. destruct H' as [-> [H' E']].
      destruct (Kf _ H) as [_ X]. destruct (Kf _ H') as [_ X']. rewrite <- E' in X'. eapply (q_same _ I); eauto.
  - intros k o b H. apply in_app_or in H. destruct H as [H|H].
    + apply in_or_app. left. apply (q_orig _ I k o b H).
    + apply InN in H. destruct H as [-> [H ->]]. destruct (Kf _ H) as [_ X]. apply in_or_app. left.
      apply (q_orig _ I _ _ _ X).
Qed.

(* ------------------------------------------------------------------ the remaining operations and runs *)
Lemma PInv_ext : forall st st', PInv st -> (forall j, get_coll st' j = get_coll st j) ->
  p_fwd st' = p_fwd st -> p_rev st' = p_rev st -> p_next st <= p_next st' -> PInv st'.
Proof.
  intros st st' I G F R N. constructor; rewrite ?F, ?R.
  - intros j c H. rewrite G in H. apply (q_coll _ I j c H).
  - intros j c a H. rewrite G in H. apply (q_reg _ I j c a H).
  - intros k o a H. rewrite G. apply (q_own _ I k o a H).
  - apply (q_ko _ I).
  - apply (q_agree _ I).
  - apply (q_revf _ I).
  - intros k o w H. pose proof (q_fresh _ I k o w H). lia.
  - apply (q_same _ I).
  - apply (q_orig _ I).
Qed.

Lemma pstep_inv : forall st op, PInv st -> pgstep st op = true ->
  PInv (fst (pstep st op)) /\ internal (snd (pstep st op)) = false.
Proof.
  intros st op I G. destruct op as [|i f fl|i f|i f|i|j i p|nf].
  - cbn [pstep fst snd]. split; [|reflexivity]. apply (PInv_ext st); auto. intro j. unfold get_coll. cbn [p_insts].
    destruct (Nat.lt_ge_cases j (length (p_insts st))) as [L|L].
    + rewrite nth_error_app1 by exact L. reflexivity.
    + rewrite nth_error_app2 by exact L. rewrite (proj2 (nth_error_None _ _) L).
      destruct (j - length (p_insts st)) as [|[|n]]; reflexivity.
  - apply pstep_listen; assumption.
  - apply pstep_remove; assumption.
  - cbn [pstep]. destruct (Nat.ltb i _); split; auto.
  - cbn [pstep]. destruct (nth_error (p_insts st) i); [|split; auto]. destruct (call_all _ _). cbn [fst snd].
    split; [|reflexivity]. apply (PInv_ext st); auto.
  - apply pstep_update; assumption.
  - cbn [pstep]. split; auto.
Qed.

Lemma prun_inv : forall ops st, PInv st -> pguard st ops = true ->
  PInv (fst (prun st ops)) /\ existsb internal (snd (prun st ops)) = false.
Proof.
  induction ops as [|o ops IH]; intros st I G; cbn [prun].
  - split; [exact I|reflexivity].
  - cbn [pguard] in G. apply andb_true_iff in G. destruct G as [G1 G2].
    destruct (pstep_inv st o I G1) as [I1 E1]. destruct (pstep st o) as [st1 x]. cbn [fst snd] in *.
    destruct (IH st1 I1 G2) as [I2 E2]. destruct (prun st1 ops) as [st2 xs]. cbn [fst snd existsb] in *.
    split; [exact I2|]. rewrite E1, E2. reflexivity.
Qed.

(* ================================================================== theorems *)
Theorem registry_maps_agree : forall ops, pguard pinit ops = true ->
  let st := fst (prun pinit ops) in
  forall k o a, In (k, o, a) (p_fwd st) <-> In (o, a, k) (p_rev st).
Proof. intros ops G st. apply (q_agree _ (proj1 (prun_inv ops pinit PInv_init G))). Qed.

Theorem propagated_listeners_registered : forall ops, pguard pinit ops = true ->
  let st := fst (prun pinit ops) in
  forall j c a, get_coll st j = Some c -> (In a (idents c) <-> exists k, In (k, j, a) (p_fwd st)).
Proof. intros ops G st. apply (q_reg _ (proj1 (prun_inv ops pinit PInv_init G))). Qed.

Theorem propagation_no_internal_error : forall ops, pguard pinit ops = true ->
  existsb internal (snd (prun pinit ops)) = false.
Proof. intros ops G. apply (prun_inv ops pinit PInv_init G). Qed.

Lemma bool_iff_eq : forall a b : bool, (a = true <-> b = true) -> a = b.
Proof. intros [|] [|] H; try reflexivity; [symmetry|]; apply H; reflexivity. Qed.

(* the two maps observed over any grid of owners and keys are equal *)
Theorem snapshot_maps_equal : forall ops nf l l', pguard pinit ops = true ->
  snd (pstep (fst (prun pinit ops)) (PSnapshot nf)) = PMaps l l' -> l = l'.
Proof.
  intros ops nf l l' G H. pose proof (proj1 (prun_inv ops pinit PInv_init G)) as I.
  cbn [pstep snd] in H. inversion H. subst. apply map_ext. intros [o k]. cbn [fst snd].
  apply bool_iff_eq. rewrite fwd_has_true, existsb_exists. split.
  - intros [a Ha]. apply (q_agree _ I) in Ha. exists (o, a, k). split; [exact Ha|]. cbn.
    rewrite Nat.eqb_refl, pkey_eqb_refl. reflexivity.
  - intros [[[o' a] k'] [He E]]. cbn in E. apply andb_true_iff in E. destruct E as [E1 E2].
    apply Nat.eqb_eq in E1. apply pkey_eqb_eq in E2. subst. exists a. apply (q_agree _ I). exact He.
Qed.

(* event.remove() takes the listener out of every collection it was propagated to: it succeeds, the
   pair is not registered afterwards, and every listener still held by any collection is registered
   there under another pair *)
Theorem remove_reaches_every_copy : forall ops i f, pguard pinit ops = true ->
  let st := fst (prun pinit ops) in
  snd (pstep st (PContains i f)) = POut (OBool true) ->
  let st' := fst (pstep st (PRemove i f)) in
  snd (pstep st (PRemove i f)) = POut OOk /\
  snd (pstep st' (PContains i f)) = POut (OBool false) /\
  forall j c a, get_coll st' j = Some c -> In a (idents c) -> exists k, k <> (i, f) /\ In (k, j, a) (p_fwd st').
Proof.
  intros ops i f G st C st'. pose proof (proj1 (prun_inv ops pinit PInv_init G)) as I. fold st in I.
  destruct (pstep_remove st i f I) as [I' _]. fold st' in I'.
  cbn [pstep] in C. destruct (Nat.ltb i (length (p_insts st))) eqn:L; [|discriminate].
  cbn [snd] in C. inversion C as [Hk].
  assert (F' : p_fwd st' = fwd_del_key (i, f) (p_fwd st) /\ length (p_insts st') = length (p_insts st) /\
               snd (pstep st (PRemove i f)) = POut OOk).
  { unfold st'. cbn [pstep]. rewrite L, Hk.
    destruct (remove_all_spec (fwd_of_key (i, f) (p_fwd st)) (p_insts st) (p_rev st)) as [insts' [rev' [R [A [B _]]]]].
    - apply owners_nodup. apply (q_ko _ I).
    - intros o a Hin. apply In_fwd_of_key in Hin. destruct (q_own _ I _ _ _ Hin) as [c Hc].
      exists c. unfold get_coll in Hc. destruct (nth_error (p_insts st) o) as [[c0|]|] eqn:E; try discriminate.
      inversion Hc. subst c0. split; [reflexivity|].
      assert (Gc : get_coll st o = Some c) by (unfold get_coll; rewrite E; reflexivity).
      split; [apply (q_coll _ I o c Gc)|]. apply (q_reg _ I o c a Gc). eauto.
    - rewrite R. cbn [fst snd p_fwd p_insts]. split; [reflexivity|]. split; [|reflexivity].
      apply Nat.le_antisymm.
      + destruct (Nat.le_gt_cases (length insts') (length (p_insts st))) as [X|X]; [exact X|exfalso].
        assert (E : nth_error (p_insts st) (length (p_insts st)) = None) by (apply nth_error_None; lia).
        pose proof (A _ (or_intror E)) as Y. rewrite E in Y. apply nth_error_None in Y. lia.
      + destruct (Nat.le_gt_cases (length (p_insts st)) (length insts')) as [X|X]; [exact X|exfalso].
        assert (E : nth_error insts' (length insts') = None) by (apply nth_error_None; lia).
        destruct (nth_error (p_insts st) (length insts')) as [[c|]|] eqn:E2.
        * destruct (B _ c E2) as [c' [Y _]]. congruence.
        * pose proof (A _ (or_introl E2)). congruence.
        * apply nth_error_None in E2. lia. }
  destruct F' as (F1 & F2 & F3). split; [exact F3|]. split.
  - cbn [pstep]. rewrite F2, L, F1. cbn [snd]. f_equal. f_equal.
    destruct (fwd_has_key (i, f) (fwd_del_key (i, f) (p_fwd st))) eqn:X; [|reflexivity].
    apply fwd_has_key_true in X. destruct X as [o [a X]]. apply In_fwd_del_key in X. destruct X. congruence.
  - intros j c a Gc Ha. apply (q_reg _ I' j c a Gc) in Ha. destruct Ha as [k Hk']. exists k. split; [|exact Hk'].
    rewrite F1 in Hk'. apply In_fwd_del_key in Hk'. tauto.
Qed.
