(* C28 (concurrency part): interleaving model of _CompoundListener.exec_once /
   exec_once_unless_exception / _exec_once_impl / _exec_w_sync_on_first_run (event/attr.py).

     def exec_once(self, args):                       def _exec_once_impl(self, retry_on_exception, args):
         if not self._exec_once:                        with self._get_exec_once_mutex():
             self._exec_once_impl(False, args)                if not self._exec_once:
     def exec_once_unless_exception(self, args):                  try: self(args); exception = False
         if not self._exec_once:                                except: exception = True; raise
             self._exec_once_impl(True, args)                     finally:
                                                                    if not exception or not retry_on_exception:
     def _exec_w_sync_on_first_run(self, args):                           self._exec_once = True
         if not self._exec_w_sync_once:
             with self._get_exec_once_mutex():
                 try: self(args)
                 except: raise
                 else: self._exec_w_sync_once = True
         else:
             self(args)

   Every read and write of a flag, the mutex acquisition, the beginning and the end of the listener
   call and the mutex release are separate steps; any thread may move at any time (the mutex
   acquisition only when the mutex is free).  The counters are ghost state used by the theorems. *)
From Coq Require Import List Arith Bool.
Import ListNotations.

Inductive kind := KOnce | KUnless | KSync.
Definition is_sync (k : kind) : bool := match k with KSync => true | _ => false end.

Inductive pc :=
| Idle
| PRead (k : kind)                 (* called; about to read the flag outside the mutex *)
| PLock (k : kind)                 (* saw the flag false; about to acquire the mutex *)
| PRead2 (k : kind)                (* holds the mutex; about to read _exec_once again *)
| PCall (k : kind) (held : bool)   (* about to call the listeners *)
| PIn (k : kind) (held : bool)     (* inside the listeners *)
| PFin (k : kind) (exc : bool)     (* holds the mutex; listeners returned (exc: raised) *)
| PRel (k : kind).                 (* holds the mutex; about to release it *)

Record xshared := {
  f_once : bool;             (* _exec_once *)
  f_sync : bool;             (* _exec_w_sync_once *)
  mutex : option nat;        (* owner of _exec_once_mutex *)
  n_run : nat;               (* listener runs begun by exec_once / exec_once_unless_exception *)
  n_run_sync : nat;          (* listener runs begun by _exec_w_sync_on_first_run *)
  n_succ : nat;              (* ... of the former, ended without exception *)
  n_fail_o : nat;            (* ... ended with an exception under exec_once *)
  n_fail_u : nat;            (* ... ended with an exception under exec_once_unless_exception *)
  n_done : nat }.            (* completed calls of exec_once / exec_once_unless_exception *)
Definition xstate := (xshared * list pc)%type.

Inductive ev :=
| ECall (i : nat) (k : kind)
| ERead (i : nat) (w : bool) (b : bool)   (* w: false = _exec_once, true = _exec_w_sync_once *)
| ELock (i : nat)
| EBegin (i : nat)
| EEnd (i : nat) (exc : bool)
| EWrite (i : nat)
| EUnlock (i : nat).

Fixpoint upd (ts : list pc) (i : nat) (p : pc) : list pc :=
  match ts, i with [], _ => [] | _ :: r, O => p :: r | x :: r, S j => x :: upd r j p end.

(* does the thread set its flag after the listeners finished? *)
Definition due (k : kind) (exc : bool) : bool :=
  match k with
  | KOnce => true            (* not exception or not retry_on_exception, retry_on_exception = False *)
  | KUnless => negb exc      (* ..., retry_on_exception = True *)
  | KSync => negb exc        (* the `else:` of the try statement *)
  end.

Definition set_sh (s : xshared) (fo fs : bool) (m : option nat) : xshared :=
  {| f_once := fo; f_sync := fs; mutex := m; n_run := n_run s; n_run_sync := n_run_sync s;
     n_succ := n_succ s; n_fail_o := n_fail_o s; n_fail_u := n_fail_u s; n_done := n_done s |}.
Definition bump_done (k : kind) (s : xshared) : xshared :=
  {| f_once := f_once s; f_sync := f_sync s; mutex := mutex s; n_run := n_run s; n_run_sync := n_run_sync s;
     n_succ := n_succ s; n_fail_o := n_fail_o s; n_fail_u := n_fail_u s;
     n_done := if is_sync k then n_done s else S (n_done s) |}.
Definition bump_run (k : kind) (s : xshared) : xshared :=
  {| f_once := f_once s; f_sync := f_sync s; mutex := mutex s;
     n_run := if is_sync k then n_run s else S (n_run s);
     n_run_sync := if is_sync k then S (n_run_sync s) else n_run_sync s;
     n_succ := n_succ s; n_fail_o := n_fail_o s; n_fail_u := n_fail_u s; n_done := n_done s |}.
Definition bump_end (k : kind) (exc : bool) (s : xshared) : xshared :=
  {| f_once := f_once s; f_sync := f_sync s; mutex := mutex s; n_run := n_run s; n_run_sync := n_run_sync s;
     n_succ := match k, exc with KOnce, false | KUnless, false => S (n_succ s) | _, _ => n_succ s end;
     n_fail_o := match k, exc with KOnce, true => S (n_fail_o s) | _, _ => n_fail_o s end;
     n_fail_u := match k, exc with KUnless, true => S (n_fail_u s) | _, _ => n_fail_u s end;
     n_done := n_done s |}.

Definition stepf (st : xstate) (e : ev) : option xstate :=
  let (s, ts) := st in
  match e with
  | ECall i k =>
      match nth_error ts i with Some Idle => Some (s, upd ts i (PRead k)) | _ => None end
  | ERead i w b =>
      match nth_error ts i with
      | Some (PRead k) =>
          if Bool.eqb w (is_sync k) && Bool.eqb b (if is_sync k then f_sync s else f_once s) then
            if b then
              (if is_sync k then Some (s, upd ts i (PCall k false))      (* else: self(args) *)
               else Some (bump_done k s, upd ts i Idle))                 (* nothing to do *)
            else Some (s, upd ts i (PLock k))
          else None
      | Some (PRead2 k) =>
          if negb w && Bool.eqb b (f_once s) then
            if b then Some (s, upd ts i (PRel k)) else Some (s, upd ts i (PCall k true))
          else None
      | _ => None
      end
  | ELock i =>
      match nth_error ts i, mutex s with
      | Some (PLock k), None =>
          Some (set_sh s (f_once s) (f_sync s) (Some i),
                upd ts i (if is_sync k then PCall k true else PRead2 k))
      | _, _ => None
      end
  | EBegin i =>
      match nth_error ts i with
      | Some (PCall k h) => Some (bump_run k s, upd ts i (PIn k h))
      | _ => None
      end
  | EEnd i exc =>
      match nth_error ts i with
      | Some (PIn k true) => Some (bump_end k exc s, upd ts i (PFin k exc))
      | Some (PIn k false) => Some (s, upd ts i Idle)
      | _ => None
      end
  | EWrite i =>
      match nth_error ts i with
      | Some (PFin k exc) =>
          if due k exc then
            Some (if is_sync k then set_sh s (f_once s) true (mutex s) else set_sh s true (f_sync s) (mutex s),
                  upd ts i (PRel k))
          else None
      | _ => None
      end
  | EUnlock i =>
      match nth_error ts i with
      | Some (PRel k) => Some (bump_done k (set_sh s (f_once s) (f_sync s) None), upd ts i Idle)
      | Some (PFin k exc) =>
          if due k exc then None
          else Some (bump_done k (set_sh s (f_once s) (f_sync s) None), upd ts i Idle)
      | _ => None
      end
  end.

Fixpoint xrun (st : xstate) (tr : list ev) : option xstate :=
  match tr with
  | [] => Some st
  | e :: r => match stepf st e with Some st' => xrun st' r | None => None end
  end.

Definition xinit (n : nat) : xstate :=
  ({| f_once := false; f_sync := false; mutex := None; n_run := 0; n_run_sync := 0; n_succ := 0;
      n_fail_o := 0; n_fail_u := 0; n_done := 0 |}, repeat Idle n).
Definition xreach (st : xstate) : Prop := exists n tr, xrun (xinit n) tr = Some st.

(* thread i holds the mutex according to its program counter *)
Definition holds (p : pc) : bool :=
  match p with
  | PRead2 _ | PFin _ _ | PRel _ => true
  | PCall _ h | PIn _ h => h
  | _ => false
  end.
(* thread is executing the listeners *)
Definition inside (p : pc) : bool := match p with PIn _ _ => true | _ => false end.
Definition quiescent (ts : list pc) : Prop := forall p, In p ts -> p = Idle.
