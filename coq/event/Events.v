(* C28: executable model of the listener bookkeeping of sqlalchemy.event (one event name) and the
   registration-log specification it is compared with.

   MODEL (what the code does; event/attr.py, registry.py, base.py, api.py):
     * classes are numbered in creation order; a class record carries its direct bases, its
       __mro__[1:] (without object; computed by Python's C3, given as data) and its entry in
       _ClsLevelDispatch._clslevel (None = "cls not in self._clslevel").
     * an instance record carries its class and its per-instance collection:
       None = _EmptyListener, Some l = _ListenerCollection with .listeners = l.
     * k2c is registry._key_to_collection: (target, fn) -> listen_fn.  The owner collection is
       determined by the target (the single _ClsLevelDispatch for a class target, the instance's own
       _ListenerCollection for an instance target), so the inner dict has at most that one entry.
     * a listen function is identified the way Python identifies it (object identity): the user's
       function itself (IdF f) or a wrapper closure created by this very listen() call (IdW k) -
       named=True/retval wrap (fl_wrap) and once=True (util.only_once, fl_once).  k is the running
       number of the listen() call.  [fired] are the only_once wrappers whose `once` list is empty.
   NOT modelled: _sa_propagate_class_events=False targets, _update()/_join() (so propagate=True,
   which only feeds _update, is accepted and has no effect), _clear(), garbage collection of
   targets, legacy signatures, several event names (each name has an independent collection). *)
From Coq Require Import List Arith Bool.
Import ListNotations.

(* ------------------------------------------------------------------ identities and records *)
Inductive ident := IdF (f : nat) | IdW (k : nat).
Definition ident_eqb (a b : ident) : bool :=
  match a, b with
  | IdF x, IdF y => Nat.eqb x y
  | IdW x, IdW y => Nat.eqb x y
  | _, _ => false
  end.

Record lfn := { l_id : ident; l_fn : nat; l_once : bool }.

Inductive target := TCls (c : nat) | TInst (i : nat).
Definition target_eqb (a b : target) : bool :=
  match a, b with
  | TCls x, TCls y => Nat.eqb x y
  | TInst x, TInst y => Nat.eqb x y
  | _, _ => false
  end.
Definition key := (target * nat)%type.
Definition key_eqb (a b : key) : bool := target_eqb (fst a) (fst b) && Nat.eqb (snd a) (snd b).

Record cls_rec := { c_bases : list nat; c_mro : list nat; c_lvl : option (list lfn) }.
Record inst_rec := { i_cls : nat; i_coll : option (list lfn) }.
Record state := {
  classes : list cls_rec;
  insts : list inst_rec;
  k2c : list (key * lfn);
  next_w : nat;
  fired : list ident }.

Record flags := { fl_insert : bool; fl_prop : bool; fl_once : bool; fl_wrap : bool }.
Inductive op :=
| NewClass (bases mro : list nat)
| NewInst (c : nat)
| Listen (t : target) (f : nat) (fl : flags)
| Remove (t : target) (f : nat)
| Contains (t : target) (f : nat)
| Dispatch (i : nat).

Inductive out :=
| OOk
| OCalls (l : list nat)      (* the user functions called by one dispatch, in call order *)
| OBool (b : bool)
| OInvalidRequest            (* exc.InvalidRequestError from event.remove *)
| OValueError                (* deque.remove(x): x not in deque *)
| OBadOp                     (* the operation names a class / instance that does not exist *)
| OFuel                      (* walk_subclasses ran out of fuel (proved impossible) *)
| OUnreach.                  (* registry names a collection that does not exist (proved impossible) *)

(* ------------------------------------------------------------------ small list helpers *)
Fixpoint set_nth {A} (l : list A) (n : nat) (x : A) : list A :=
  match l, n with
  | [], _ => []
  | _ :: r, O => x :: r
  | y :: r, S m => y :: set_nth r m x
  end.
Definition memn (x : nat) (l : list nat) : bool := existsb (Nat.eqb x) l.
Definition mem_id (x : ident) (l : list lfn) : bool := existsb (fun y => ident_eqb x (l_id y)) l.
Definition mem_ident (x : ident) (l : list ident) : bool := existsb (ident_eqb x) l.

Definition dflt_cls : cls_rec := {| c_bases := []; c_mro := []; c_lvl := None |}.
Definition get_cls (cs : list cls_rec) (c : nat) : cls_rec := nth c cs dflt_cls.
Definition lvl (cs : list cls_rec) (c : nat) : option (list lfn) := c_lvl (get_cls cs c).
Definition lvl_list (cs : list cls_rec) (c : nat) : list lfn :=
  match lvl cs c with Some l => l | None => [] end.
Definition set_lvl (cs : list cls_rec) (c : nat) (l : list lfn) : list cls_rec :=
  let r := get_cls cs c in
  set_nth cs c {| c_bases := c_bases r; c_mro := c_mro r; c_lvl := Some l |}.

(* ------------------------------------------------------------------ util.walk_subclasses
     stack = [cls]; while stack: cls = stack.pop(); if cls in seen: continue; seen.add(cls);
     stack.extend(cls.__subclasses__()); yield cls
   The stack is kept with its top (Python's last element) at the head.  __subclasses__() lists the
   direct subclasses in creation order. *)
Definition subclasses (cs : list cls_rec) (p : nat) : list nat :=
  filter (fun c => memn p (c_bases (get_cls cs c))) (seq 0 (length cs)).

Fixpoint walk (cs : list cls_rec) (fuel : nat) (stack seen : list nat) : option (list nat) :=
  match stack with
  | [] => Some []
  | c :: rest =>
      match fuel with
      | O => None
      | S n =>
          if memn c seen then walk cs n rest seen
          else option_map (cons c) (walk cs n (rev (subclasses cs c) ++ rest) (c :: seen))
      end
  end.
Definition edges (cs : list cls_rec) : nat :=
  fold_right (fun c a => length (subclasses cs c) + a) 0 (seq 0 (length cs)).
Definition walk_fuel (cs : list cls_rec) : nat := 2 + edges cs.
Definition walk_subclasses (cs : list cls_rec) (t : nat) : option (list nat) :=
  walk cs (walk_fuel cs) [t] [].

(* ------------------------------------------------------------------ _ClsLevelDispatch.update_subclass
     if target not in self._clslevel: self._clslevel[target] = deque()
     clslevel = self._clslevel[target]
     for cls in target.__mro__[1:]:
         if cls in self._clslevel:
             clslevel.extend([fn for fn in self._clslevel[cls] if fn not in clslevel]) *)
Fixpoint merge_mro (cs : list cls_rec) (mro : list nat) (acc : list lfn) : list lfn :=
  match mro with
  | [] => acc
  | p :: r =>
      match lvl cs p with
      | Some lp => merge_mro cs r (acc ++ filter (fun x => negb (mem_id (l_id x) acc)) lp)
      | None => merge_mro cs r acc
      end
  end.
Definition update_subclass (cs : list cls_rec) (c : nat) : list cls_rec :=
  set_lvl cs c (merge_mro cs (c_mro (get_cls cs c)) (lvl_list cs c)).

(* ------------------------------------------------------------------ _do_insert_or_append
     for cls in util.walk_subclasses(target):
         if cls is not target and cls not in self._clslevel: self.update_subclass(cls)
         else:
             if cls not in self._clslevel: self.update_subclass(cls)
             self._clslevel[cls].append(fn)  /  .appendleft(fn) *)
Definition place (is_append : bool) (x : lfn) (l : list lfn) : list lfn :=
  if is_append then l ++ [x] else x :: l.
Definition in_lvl (cs : list cls_rec) (c : nat) : bool :=
  match lvl cs c with Some _ => true | None => false end.
Definition ins_step (t : nat) (is_append : bool) (x : lfn) (cs : list cls_rec) (c : nat) : list cls_rec :=
  if negb (Nat.eqb c t) && negb (in_lvl cs c) then update_subclass cs c
  else
    let cs1 := if in_lvl cs c then cs else update_subclass cs c in
    set_lvl cs1 c (place is_append x (lvl_list cs1 c)).
Definition do_insert (cs : list cls_rec) (t : nat) (is_append : bool) (x : lfn) : option (list cls_rec) :=
  match walk_subclasses cs t with
  | None => None
  | Some w => Some (fold_left (ins_step t is_append x) w cs)
  end.

(* ------------------------------------------------------------------ removal
   deque.remove(x) removes the first element equal to x; None = ValueError.
   _ClsLevelDispatch.remove:
     for cls in util.walk_subclasses(target):
         if cls in self._clslevel: self._clslevel[cls].remove(event_key._listen_fn) *)
Fixpoint remove_first (x : ident) (l : list lfn) : option (list lfn) :=
  match l with
  | [] => None
  | y :: r => if ident_eqb x (l_id y) then Some r else option_map (cons y) (remove_first x r)
  end.
Fixpoint remove_walk (cs : list cls_rec) (w : list nat) (x : ident) : list cls_rec * bool :=
  match w with
  | [] => (cs, true)
  | c :: r =>
      match lvl cs c with
      | None => remove_walk cs r x
      | Some l =>
          match remove_first x l with
          | None => (cs, false)                 (* ValueError propagates; earlier removals stay *)
          | Some l' => remove_walk (set_lvl cs c l') r x
          end
      end
  end.

(* ------------------------------------------------------------------ registry *)
Definition has_key (k : key) (m : list (key * lfn)) : bool := existsb (fun p => key_eqb k (fst p)) m.
Fixpoint lookup_key (k : key) (m : list (key * lfn)) : option lfn :=
  match m with
  | [] => None
  | (k', x) :: r => if key_eqb k k' then Some x else lookup_key k r
  end.
Definition del_key (k : key) (m : list (key * lfn)) : list (key * lfn) :=
  filter (fun p => negb (key_eqb k (fst p))) m.

(* ------------------------------------------------------------------ calling a collection
   _CompoundListener.__call__ / _EmptyListener.__call__: every function in order; an only_once
   wrapper calls its function the first time only. *)
Fixpoint call_all (l : list lfn) (fd : list ident) : list nat * list ident :=
  match l with
  | [] => ([], fd)
  | x :: r =>
      if l_once x then
        if mem_ident (l_id x) fd then call_all r fd
        else let (cl, fd') := call_all r (l_id x :: fd) in (l_fn x :: cl, fd')
      else let (cl, fd') := call_all r fd in (l_fn x :: cl, fd')
  end.

(* ------------------------------------------------------------------ one API call *)
Definition valid_target (nc ni : nat) (t : target) : bool :=
  match t with TCls c => Nat.ltb c nc | TInst i => Nat.ltb i ni end.
Definition all_lt (n : nat) (l : list nat) : bool := forallb (fun x => Nat.ltb x n) l.

Definition mk_lfn (nw : nat) (f : nat) (fl : flags) : lfn :=
  {| l_id := if fl_once fl || fl_wrap fl then IdW nw else IdF f; l_fn := f; l_once := fl_once fl |}.

Definition coll_list (ir : inst_rec) : list lfn := match i_coll ir with Some l => l | None => [] end.

Definition step (st : state) (o : op) : state * out :=
  let cs := classes st in
  match o with
  | NewClass bases mro =>
      if all_lt (length cs) bases && all_lt (length cs) mro then
        ({| classes := cs ++ [{| c_bases := bases; c_mro := mro; c_lvl := None |}]; insts := insts st;
            k2c := k2c st; next_w := next_w st; fired := fired st |}, OOk)
      else (st, OBadOp)
  | NewInst c =>
      (* first access of obj.dispatch: _Dispatch.__init__ builds the _EmptyListener of the class,
         whose __init__ calls update_subclass when the class is not in _clslevel yet *)
      if Nat.ltb c (length cs) then
        ({| classes := if in_lvl cs c then cs else update_subclass cs c;
            insts := insts st ++ [{| i_cls := c; i_coll := None |}];
            k2c := k2c st; next_w := next_w st; fired := fired st |}, OOk)
      else (st, OBadOp)
  | Listen (TCls t) f fl =>
      if Nat.ltb t (length cs) then
        (* _do_insert_or_append: if not registry._stored_in_collection(event_key, self): return
           - a (class, fn) pair that is already established is ignored, like at instance level *)
        if has_key (TCls t, f) (k2c st) then
          ({| classes := cs; insts := insts st; k2c := k2c st; next_w := S (next_w st); fired := fired st |}, OOk)
        else
          let x := mk_lfn (next_w st) f fl in
          match do_insert cs t (negb (fl_insert fl)) x with
          | None => (st, OFuel)
          | Some cs' =>
              ({| classes := cs'; insts := insts st; k2c := k2c st ++ [((TCls t, f), x)];
                  next_w := S (next_w st); fired := fired st |}, OOk)
          end
      else (st, OBadOp)
  | Listen (TInst i) f fl =>
      match nth_error (insts st) i with
      | None => (st, OBadOp)
      | Some ir =>
          let x := mk_lfn (next_w st) f fl in
          let l := coll_list ir in                       (* for_modify: promote _EmptyListener *)
          if has_key (TInst i, f) (k2c st) then          (* append_to_list: not stored, not appended *)
            ({| classes := cs; insts := set_nth (insts st) i {| i_cls := i_cls ir; i_coll := Some l |};
                k2c := k2c st; next_w := S (next_w st); fired := fired st |}, OOk)
          else
            ({| classes := cs;
                insts := set_nth (insts st) i
                           {| i_cls := i_cls ir; i_coll := Some (place (negb (fl_insert fl)) x l) |};
                k2c := k2c st ++ [((TInst i, f), x)]; next_w := S (next_w st); fired := fired st |}, OOk)
      end
  | Remove t f =>
      if valid_target (length cs) (length (insts st)) t then
        match lookup_key (t, f) (k2c st) with
        | None => (st, OInvalidRequest)
        | Some x =>
            let m' := del_key (t, f) (k2c st) in
            match t with
            | TCls c =>
                match walk_subclasses cs c with
                | None => (st, OFuel)
                | Some w =>
                    let (cs', ok) := remove_walk cs w (l_id x) in
                    ({| classes := cs'; insts := insts st; k2c := m'; next_w := next_w st; fired := fired st |},
                     if ok then OOk else OValueError)
                end
            | TInst i =>
                match nth_error (insts st) i with
                | None => (st, OBadOp)
                | Some ir =>
                    match i_coll ir with
                    | None => (st, OUnreach)
                    | Some l =>
                        match remove_first (l_id x) l with
                        | None =>
                            ({| classes := cs; insts := insts st; k2c := m'; next_w := next_w st;
                                fired := fired st |}, OValueError)
                        | Some l' =>
                            ({| classes := cs;
                                insts := set_nth (insts st) i {| i_cls := i_cls ir; i_coll := Some l' |};
                                k2c := m'; next_w := next_w st; fired := fired st |}, OOk)
                        end
                    end
                end
            end
        end
      else (st, OBadOp)
  | Contains t f =>
      if valid_target (length cs) (length (insts st)) t then (st, OBool (has_key (t, f) (k2c st)))
      else (st, OBadOp)
  | Dispatch i =>
      match nth_error (insts st) i with
      | None => (st, OBadOp)
      | Some ir =>
          (* parent_listeners is the class's deque itself, then the instance's own listeners *)
          let (cl, fd') := call_all (lvl_list cs (i_cls ir) ++ coll_list ir) (fired st) in
          ({| classes := cs; insts := insts st; k2c := k2c st; next_w := next_w st; fired := fd' |}, OCalls cl)
      end
  end.

Definition init : state := {| classes := []; insts := []; k2c := []; next_w := 0; fired := [] |}.
Fixpoint run (st : state) (ops : list op) : state * list out :=
  match ops with
  | [] => (st, [])
  | o :: r => let (st1, x) := step st o in let (st2, xs) := run st1 r in (st2, x :: xs)
  end.

(* ================================================================== SPECIFICATION
   The registration log: one entry per listen() call that registered a new (target, fn) pair, in
   call order; remove() deletes the entry with that pair.  A dispatch on an instance of class c
   calls the entries whose target is c or an ancestor of c, then the entries of the instance itself;
   within each group insert=True entries come first (latest first), then the others in
   registration order.  A once=True entry is called by the first dispatch that reaches it only. *)
Record reg := { g_id : nat; g_tgt : target; g_fn : nat; g_ins : bool; g_once : bool; g_wrap : bool }.
Record sstate := {
  s_hier : list (list nat * list nat);     (* per class: direct bases, ancestors (mro tail) *)
  s_insts : list nat;                      (* class of each instance *)
  s_log : list reg;
  s_next : nat;
  s_fired : list nat }.

Definition key_of (r : reg) : key := (g_tgt r, g_fn r).
Definition live (k : key) (log : list reg) : bool := existsb (fun r => key_eqb k (key_of r)) log.
Definition s_mro (sp : sstate) (c : nat) : list nat := snd (nth c (s_hier sp) ([], [])).

Definition ordered (l : list reg) : list reg :=
  rev (filter g_ins l) ++ filter (fun r => negb (g_ins r)) l.
Definition rel_cls (mro : list nat) (c : nat) (r : reg) : bool :=
  match g_tgt r with TCls t => Nat.eqb t c || memn t mro | TInst _ => false end.
Definition rel_inst (i : nat) (r : reg) : bool :=
  match g_tgt r with TInst j => Nat.eqb j i | TCls _ => false end.
Definition spec_list (sp : sstate) (i : nat) : list reg :=
  let c := nth i (s_insts sp) 0 in
  ordered (filter (rel_cls (s_mro sp c) c) (s_log sp)) ++ ordered (filter (rel_inst i) (s_log sp)).

Fixpoint spec_call (l : list reg) (fd : list nat) : list nat * list nat :=
  match l with
  | [] => ([], fd)
  | r :: t =>
      if g_once r then
        if memn (g_id r) fd then spec_call t fd
        else let (cl, fd') := spec_call t (g_id r :: fd) in (g_fn r :: cl, fd')
      else let (cl, fd') := spec_call t fd in (g_fn r :: cl, fd')
  end.
Definition spec_calls (sp : sstate) (i : nat) : list nat := fst (spec_call (spec_list sp i) (s_fired sp)).

Definition sstep (sp : sstate) (o : op) : sstate * out :=
  let nc := length (s_hier sp) in
  let ni := length (s_insts sp) in
  match o with
  | NewClass bases mro =>
      if all_lt nc bases && all_lt nc mro then
        ({| s_hier := s_hier sp ++ [(bases, mro)]; s_insts := s_insts sp; s_log := s_log sp;
            s_next := s_next sp; s_fired := s_fired sp |}, OOk)
      else (sp, OBadOp)
  | NewInst c =>
      if Nat.ltb c nc then
        ({| s_hier := s_hier sp; s_insts := s_insts sp ++ [c]; s_log := s_log sp;
            s_next := s_next sp; s_fired := s_fired sp |}, OOk)
      else (sp, OBadOp)
  | Listen t f fl =>
      if valid_target nc ni t then
        ({| s_hier := s_hier sp; s_insts := s_insts sp;
            s_log := if live (t, f) (s_log sp) then s_log sp
                     else s_log sp ++ [{| g_id := s_next sp; g_tgt := t; g_fn := f; g_ins := fl_insert fl;
                                          g_once := fl_once fl; g_wrap := fl_wrap fl |}];
            s_next := S (s_next sp); s_fired := s_fired sp |}, OOk)
      else (sp, OBadOp)
  | Remove t f =>
      if valid_target nc ni t then
        if live (t, f) (s_log sp) then
          ({| s_hier := s_hier sp; s_insts := s_insts sp;
              s_log := filter (fun r => negb (key_eqb (t, f) (key_of r))) (s_log sp);
              s_next := s_next sp; s_fired := s_fired sp |}, OOk)
        else (sp, OInvalidRequest)
      else (sp, OBadOp)
  | Contains t f =>
      if valid_target nc ni t then (sp, OBool (live (t, f) (s_log sp))) else (sp, OBadOp)
  | Dispatch i =>
      if Nat.ltb i ni then
        let (cl, fd') := spec_call (spec_list sp i) (s_fired sp) in
        ({| s_hier := s_hier sp; s_insts := s_insts sp; s_log := s_log sp; s_next := s_next sp;
            s_fired := fd' |}, OCalls cl)
      else (sp, OBadOp)
  end.

Definition sinit : sstate := {| s_hier := []; s_insts := []; s_log := []; s_next := 0; s_fired := [] |}.
Fixpoint srun (sp : sstate) (ops : list op) : sstate * list out :=
  match ops with
  | [] => (sp, [])
  | o :: r => let (sp1, x) := sstep sp o in let (sp2, xs) := srun sp1 r in (sp2, x :: xs)
  end.

(* ================================================================== GUARD
   The region in which the code meets the specification (each excluded region has a refutation):
     (g1) single inheritance: a new class has no base, or one base b and mro = b :: mro(b);
     (g3) a class-level listen() of an unwrapped function (no once/named/retval wrapper) that
          registers a new (class, fn) pair is not made while the same function is registered
          unwrapped on an ancestor or descendant class.
   (A former clause (g2), "no repeated class-level pair", is gone: the repeat is ignored since the
   repair of C28-class-double-listen.) *)
Definition comparable (sp : sstate) (a b : nat) : bool :=
  Nat.eqb a b || memn a (s_mro sp b) || memn b (s_mro sp a).
Definition plain (r : reg) : bool := negb (g_once r || g_wrap r).
Definition clash (sp : sstate) (t f : nat) (r : reg) : bool :=
  match g_tgt r with
  | TCls t' => plain r && Nat.eqb (g_fn r) f && comparable sp t t'
  | TInst _ => false
  end.
Fixpoint list_eq_nat (a b : list nat) : bool :=
  match a, b with
  | [], [] => true
  | x :: a', y :: b' => Nat.eqb x y && list_eq_nat a' b'
  | _, _ => false
  end.
Definition gstep (sp : sstate) (o : op) : bool :=
  let nc := length (s_hier sp) in
  match o with
  | NewClass bases mro =>
      match bases with
      | [] => match mro with [] => true | _ => false end
      | [b] => Nat.ltb b nc && list_eq_nat mro (b :: s_mro sp b)
      | _ => false
      end
  | Listen (TCls t) f fl =>
      Nat.ltb t nc &&
      (live (TCls t, f) (s_log sp) || fl_once fl || fl_wrap fl || negb (existsb (clash sp t f) (s_log sp)))
  | _ => true
  end.
Fixpoint guard (sp : sstate) (ops : list op) : bool :=
  match ops with
  | [] => true
  | o :: r => gstep sp o && guard (fst (sstep sp o)) r
  end.
