(* C28 proofs, part 2: the class-level collections.  update_subclass, _do_insert_or_append and
   _ClsLevelDispatch.remove compute the lists prescribed by the registration log when the hierarchy
   has single inheritance and the log satisfies the guard. *)
From Coq Require Import List Arith Bool Lia Permutation.
Import ListNotations.
From SAV.event Require Import Events EventsWalk.

(* ------------------------------------------------------------------ registrations as listen functions *)
Definition lfn_of (r : reg) : lfn :=
  {| l_id := if g_once r || g_wrap r then IdW (g_id r) else IdF (g_fn r); l_fn := g_fn r; l_once := g_once r |}.
Definition ident_of (r : reg) : ident := l_id (lfn_of r).
Definition cls_regs (m : list nat) (c : nat) (log : list reg) : list reg := ordered (filter (rel_cls m c) log).
Definition cls_list (cs : list cls_rec) (log : list reg) (c : nat) : list lfn :=
  map lfn_of (cls_regs (mro cs c) c log).
Definition not_key (k : key) (r : reg) : bool := negb (key_eqb k (key_of r)).

(* ------------------------------------------------------------------ generic list facts *)
Lemma filter_nil_iff : forall A (p : A -> bool) l, (forall x, In x l -> p x = false) -> filter p l = [].
Proof.
  induction l as [|a l IH]; intro H; cbn; [reflexivity|].
  rewrite (H a (or_introl eq_refl)). apply IH. intros; apply H; right; assumption.
Qed.
Lemma filter_all : forall A (p : A -> bool) l, (forall x, In x l -> p x = true) -> filter p l = l.
Proof.
  induction l as [|a l IH]; intro H; cbn; [reflexivity|].
  rewrite (H a (or_introl eq_refl)). f_equal. apply IH. intros; apply H; right; assumption.
Qed.
Lemma filter_comm : forall A (p q : A -> bool) l, filter p (filter q l) = filter q (filter p l).
Proof.
  induction l as [|a l IH]; cbn; [reflexivity|].
  destruct (q a) eqn:Q, (p a) eqn:P; cbn; rewrite ?Q, ?P, IH; reflexivity.
Qed.
Lemma filter_rev : forall A (p : A -> bool) l, filter p (rev l) = rev (filter p l).
Proof.
  induction l as [|a l IH]; cbn; [reflexivity|].
  rewrite filter_app, IH. cbn. destruct (p a); cbn; [reflexivity|rewrite app_nil_r; reflexivity].
Qed.
Lemma NoDup_map_filter : forall A B (f : A -> B) (p : A -> bool) l, NoDup (map f l) -> NoDup (map f (filter p l)).
Proof.
  induction l as [|a l IH]; cbn; intro H; [constructor|].
  inversion H as [|? ? Ha H']; subst. destruct (p a); cbn; [|apply IH; exact H'].
  constructor; [|apply IH; exact H']. intro X. apply Ha. apply in_map_iff in X.
  destruct X as [y [E Hy]]. apply filter_In in Hy. apply in_map_iff. exists y. tauto.
Qed.
Lemma NoDup_map_inj : forall A B (f : A -> B) l x y, NoDup (map f l) -> In x l -> In y l -> f x = f y -> x = y.
Proof.
  induction l as [|a l IH]; intros x y H Hx Hy E; [destruct Hx|].
  cbn in H. inversion H as [|? ? Ha H']; subst.
  destruct Hx as [<-|Hx], Hy as [<-|Hy]; auto.
  - exfalso. apply Ha. rewrite E. apply in_map. exact Hy.
  - exfalso. apply Ha. rewrite <- E. apply in_map. exact Hx.
Qed.

(* ------------------------------------------------------------------ [ordered] *)
Lemma ordered_snoc : forall l r,
  ordered (l ++ [r]) = if g_ins r then r :: ordered l else ordered l ++ [r].
Proof.
  intros. unfold ordered. rewrite !filter_app. cbn. destruct (g_ins r); cbn.
  - rewrite rev_app_distr. cbn. rewrite app_nil_r. reflexivity.
  - rewrite app_nil_r, app_assoc. reflexivity.
Qed.
Lemma ordered_filter : forall p l, ordered (filter p l) = filter p (ordered l).
Proof.
  intros. unfold ordered. rewrite filter_app, filter_rev. f_equal; [f_equal|]; apply filter_comm.
Qed.
Lemma ordered_perm : forall l, Permutation (ordered l) l.
Proof.
  intro l. unfold ordered. eapply Permutation_trans.
  - apply Permutation_app_tail. symmetry. apply Permutation_rev.
  - induction l as [|a l IH]; cbn; [constructor|]. destruct (g_ins a); cbn.
    + constructor. exact IH.
    + eapply Permutation_trans; [apply Permutation_sym, Permutation_middle|]. constructor. exact IH.
Qed.
Lemma In_ordered : forall r l, In r (ordered l) <-> In r l.
Proof.
  intros. split; apply Permutation_in; [apply ordered_perm|apply Permutation_sym, ordered_perm].
Qed.
Lemma ordered_nil : ordered [] = [].
Proof. reflexivity. Qed.

Lemma In_cls_regs : forall m c log r, In r (cls_regs m c log) <-> In r log /\ rel_cls m c r = true.
Proof. intros. unfold cls_regs. rewrite In_ordered, filter_In. tauto. Qed.

Lemma place_lfn : forall r l,
  map lfn_of (if g_ins r then r :: l else l ++ [r]) = place (negb (g_ins r)) (lfn_of r) (map lfn_of l).
Proof. intros. unfold place. destruct (g_ins r); cbn; [reflexivity|rewrite map_app; reflexivity]. Qed.

Lemma cls_regs_snoc_rel : forall m c log r, rel_cls m c r = true ->
  map lfn_of (cls_regs m c (log ++ [r])) = place (negb (g_ins r)) (lfn_of r) (map lfn_of (cls_regs m c log)).
Proof.
  intros. unfold cls_regs. rewrite filter_app. cbn. rewrite H, ordered_snoc. apply place_lfn.
Qed.
Lemma cls_regs_snoc_irr : forall m c log r, rel_cls m c r = false -> cls_regs m c (log ++ [r]) = cls_regs m c log.
Proof. intros. unfold cls_regs. rewrite filter_app. cbn. rewrite H, app_nil_r. reflexivity. Qed.
Lemma cls_regs_del : forall m c log k, cls_regs m c (filter (not_key k) log) = filter (not_key k) (cls_regs m c log).
Proof. intros. unfold cls_regs. rewrite filter_comm. apply ordered_filter. Qed.

(* ------------------------------------------------------------------ deque.remove on a registration list *)
Lemma remove_first_regs : forall L r, NoDup (map ident_of L) -> NoDup (map key_of L) -> In r L ->
  remove_first (ident_of r) (map lfn_of L) = Some (map lfn_of (filter (not_key (key_of r)) L)).
Proof.
  induction L as [|a L IH]; intros r Hi Hk Hr; [destruct Hr|].
  change (map ident_of (a :: L)) with (ident_of a :: map ident_of L) in Hi.
  change (map key_of (a :: L)) with (key_of a :: map key_of L) in Hk.
  inversion Hi as [|? ? Hia Hi']; inversion Hk as [|? ? Hka Hk']; subst.
  cbn [map remove_first filter]. change (l_id (lfn_of a)) with (ident_of a).
  destruct (ident_eqb (ident_of r) (ident_of a)) eqn:E.
  - apply ident_eqb_eq in E. assert (r = a).
    { destruct Hr as [<-|Hr]; [reflexivity|]. exfalso. apply Hia. rewrite <- E. apply in_map. exact Hr. }
    subst a. unfold not_key at 1. rewrite key_eqb_refl. cbn. f_equal. f_equal. symmetry. apply filter_all.
    intros x Hx. unfold not_key. apply negb_true_iff. destruct (key_eqb (key_of r) (key_of x)) eqn:K; [|reflexivity].
    apply key_eqb_eq in K. exfalso. apply Hka. rewrite K. apply in_map. exact Hx.
  - assert (Hne : a <> r) by (intro; subst; rewrite ident_eqb_refl in E; discriminate).
    destruct Hr as [Hr|Hr]; [contradiction|].
    assert (Kne : not_key (key_of r) a = true).
    { unfold not_key. apply negb_true_iff. destruct (key_eqb (key_of r) (key_of a)) eqn:K; [|reflexivity].
      apply key_eqb_eq in K. exfalso. apply Hka. rewrite <- K. apply in_map. exact Hr. }
    rewrite Kne. rewrite (IH r Hi' Hk' Hr). reflexivity.
Qed.

(* ------------------------------------------------------------------ merge_mro *)
Lemma mem_id_nil : forall x, mem_id x [] = false.
Proof. reflexivity. Qed.
Lemma mem_id_In : forall x l, In x l -> mem_id (l_id x) l = true.
Proof. intros. unfold mem_id. apply existsb_exists. exists x. split; [assumption|apply ident_eqb_refl]. Qed.

Lemma merge_none : forall cs m acc, (forall q, In q m -> lvl cs q = None) -> merge_mro cs m acc = acc.
Proof.
  induction m as [|p m IH]; intros acc H; cbn; [reflexivity|].
  rewrite (H p (or_introl eq_refl)). apply IH. intros; apply H; right; assumption.
Qed.
Lemma merge_pre : forall cs pre m acc, (forall q, In q pre -> lvl cs q = None) ->
  merge_mro cs (pre ++ m) acc = merge_mro cs m acc.
Proof.
  induction pre as [|p pre IH]; intros m acc H; cbn; [reflexivity|].
  rewrite (H p (or_introl eq_refl)). apply IH. intros; apply H; right; assumption.
Qed.
Lemma merge_absorb : forall cs m acc,
  (forall q lq x, In q m -> lvl cs q = Some lq -> In x lq -> mem_id (l_id x) acc = true) ->
  merge_mro cs m acc = acc.
Proof.
  induction m as [|p m IH]; intros acc H; cbn; [reflexivity|].
  destruct (lvl cs p) as [lp|] eqn:E.
  - rewrite (filter_nil_iff _ _ lp), app_nil_r.
    + apply IH. intros q lq x Hq. apply H. right. exact Hq.
    + intros x Hx. apply negb_false_iff. apply (H p lp x (or_introl eq_refl) E Hx).
  - apply IH. intros q lq x Hq. apply H. right. exact Hq.
Qed.
Lemma first_in_lvl : forall cs m,
  (forall q, In q m -> lvl cs q = None) \/
  exists pre p rest lp, m = pre ++ p :: rest /\ (forall q, In q pre -> lvl cs q = None) /\ lvl cs p = Some lp.
Proof.
  induction m as [|a m IH]; [left; intros q []|].
  destruct (lvl cs a) as [la|] eqn:E.
  - right. exists [], a, m, la. split; [reflexivity|]. split; [intros q []|exact E].
  - destruct IH as [IH|[pre [p [rest [lp [E1 [E2 E3]]]]]]].
    + left. intros q [<-|Hq]; auto.
    + right. exists (a :: pre), p, rest, lp. split; [rewrite E1; reflexivity|]. split; [|exact E3].
      intros q [<-|Hq]; auto.
Qed.

Lemma rel_cls_anc : forall cs, single cs -> forall p q r, p < length cs -> In q (mro cs p) ->
  rel_cls (mro cs q) q r = true -> rel_cls (mro cs p) p r = true.
Proof.
  intros cs Hs p q r Hp Hq H. unfold rel_cls in *. destruct (g_tgt r) as [t|]; [|discriminate].
  apply orb_true_iff in H. apply orb_true_iff. right. apply memn_In.
  destruct H as [H|H].
  - apply Nat.eqb_eq in H. subst. exact Hq.
  - apply memn_In in H. eapply mro_trans; eauto.
Qed.

(* update_subclass of a class that is not in _clslevel yields the list prescribed by the log,
   provided the in-_clslevel ancestors are consistent with the log and every class-level target of
   the log among the class and its ancestors is in _clslevel *)
Lemma merge_mro_spec : forall cs log d, single cs -> d < length cs -> lvl cs d = None ->
  (forall q l, In q (mro cs d) -> lvl cs q = Some l -> l = cls_list cs log q) ->
  (forall r q, In r log -> g_tgt r = TCls q -> In q (d :: mro cs d) -> lvl cs q <> None) ->
  merge_mro cs (mro cs d) [] = cls_list cs log d.
Proof.
  intros cs log d Hs Hd Hn Hcons Htgt.
  destruct (first_in_lvl cs (mro cs d)) as [Hall|[pre [p [rest [lp [E [Hpre Hp]]]]]]].
  - rewrite merge_none by exact Hall. unfold cls_list, cls_regs.
    rewrite filter_nil_iff; [reflexivity|].
    intros r Hr. unfold rel_cls. destruct (g_tgt r) as [t|] eqn:Et; [|reflexivity].
    destruct (Nat.eqb t d || memn t (mro cs d)) eqn:X; [|reflexivity]. exfalso.
    apply orb_true_iff in X. destruct X as [X|X].
    + apply Nat.eqb_eq in X. subst. apply (Htgt r d Hr Et (or_introl eq_refl)). exact Hn.
    + apply memn_In in X. apply (Htgt r t Hr Et (or_intror X)). apply Hall. exact X.
  - pose proof (mro_suffix cs Hs d pre p rest Hd E) as Er.
    assert (Hpm : In p (mro cs d)) by (rewrite E; apply in_or_app; right; left; reflexivity).
    assert (Hpl : p < length cs) by (pose proof (mro_lt cs Hs d p Hd Hpm); lia).
    pose proof (Hcons p lp Hpm Hp) as Elp.
    rewrite E, merge_pre by exact Hpre. cbn [merge_mro]. rewrite Hp. cbn [app].
    rewrite (filter_all _ _ lp) by (intros; reflexivity).
    rewrite merge_absorb.
    + (* lp is the list of d *)
      rewrite Elp. unfold cls_list, cls_regs. f_equal. f_equal. apply filter_ext_in.
      intros r Hr. unfold rel_cls. destruct (g_tgt r) as [t|] eqn:Et; [|reflexivity].
      destruct (Nat.eqb t p || memn t (mro cs p)) eqn:X.
      * symmetry. apply orb_true_iff. right. apply memn_In.
        apply orb_true_iff in X. destruct X as [X|X].
        -- apply Nat.eqb_eq in X. subst. exact Hpm.
        -- apply memn_In in X. eapply mro_trans; eauto.
      * symmetry. apply orb_false_iff in X. destruct X as [X1 X2].
        apply Nat.eqb_neq in X1. apply memn_false in X2.
        destruct (Nat.eqb t d || memn t (mro cs d)) eqn:Y; [|reflexivity]. exfalso.
        apply orb_true_iff in Y. destruct Y as [Y|Y].
        -- apply Nat.eqb_eq in Y. subst. apply (Htgt r d Hr Et (or_introl eq_refl)). exact Hn.
        -- apply memn_In in Y. pose proof (Htgt r t Hr Et (or_intror Y)) as Z.
           rewrite E in Y. apply in_app_or in Y. destruct Y as [Y|[Y|Y]].
           ++ apply Z. apply Hpre. exact Y.
           ++ congruence.
           ++ apply X2. rewrite <- Er. exact Y.
    + intros q lq x Hq Hlq Hx. rewrite Er in Hq.
      assert (Hqd : In q (mro cs d)) by (eapply mro_trans; eauto).
      rewrite (Hcons q lq Hqd Hlq) in Hx. rewrite Elp.
      unfold cls_list in *. apply in_map_iff in Hx. destruct Hx as [r [<- Hr]].
      apply mem_id_In. apply in_map. apply In_cls_regs in Hr. apply In_cls_regs. split; [tauto|].
      eapply rel_cls_anc; eauto. tauto.
Qed.

Lemma update_subclass_spec : forall cs log d, single cs -> d < length cs -> lvl cs d = None ->
  (forall q l, In q (mro cs d) -> lvl cs q = Some l -> l = cls_list cs log q) ->
  (forall r q, In r log -> g_tgt r = TCls q -> In q (d :: mro cs d) -> lvl cs q <> None) ->
  update_subclass cs d = set_lvl cs d (cls_list cs log d).
Proof.
  intros. unfold update_subclass, lvl_list. rewrite H1. f_equal. apply merge_mro_spec; auto.
Qed.

(* ------------------------------------------------------------------ hierarchy-preserving updates *)
Definition same_hier (a b : list cls_rec) : Prop :=
  length a = length b /\ forall c, c_bases (get_cls a c) = c_bases (get_cls b c) /\ mro a c = mro b c.
Lemma same_hier_refl : forall a, same_hier a a.
Proof. intro a. split; auto. Qed.
Lemma same_hier_set_lvl : forall a b c l, same_hier a b -> same_hier (set_lvl a c l) b.
Proof.
  intros a b c l [H1 H2]. split; [rewrite set_lvl_length; exact H1|].
  intro d. unfold mro. rewrite bases_set_lvl, mro_set_lvl. apply H2.
Qed.
Lemma same_hier_single : forall a b, same_hier a b -> single b -> single a.
Proof.
  intros a b [H1 H2] Hs c Hc. rewrite H1 in Hc. destruct (Hs c Hc) as [[E1 E2]|[p [Hp [E1 E2]]]].
  - left. destruct (H2 c) as [-> ->]. auto.
  - right. exists p. destruct (H2 c) as [-> ->]. destruct (H2 p) as [_ ->]. auto.
Qed.
Lemma same_hier_cls_list : forall a b log c, same_hier a b -> cls_list a log c = cls_list b log c.
Proof. intros a b log c [_ H]. unfold cls_list. destruct (H c) as [_ ->]. reflexivity. Qed.
Lemma same_hier_subclasses : forall a b p, same_hier a b -> subclasses a p = subclasses b p.
Proof.
  intros a b p [H1 H2]. unfold subclasses. rewrite H1. apply filter_ext. intro c. destruct (H2 c) as [-> _]. reflexivity.
Qed.

(* ------------------------------------------------------------------ _do_insert_or_append *)
Section Insert.
Variable cs : list cls_rec.
Variable log : list reg.
Variable r : reg.
Variable t : nat.
Variable W : list nat.
Hypothesis Hs : single cs.
Hypothesis Ht : t < length cs.
Hypothesis Hr : g_tgt r = TCls t.
Hypothesis Hcons : forall c l, c < length cs -> lvl cs c = Some l -> l = cls_list cs log c.
Hypothesis Htgt : forall r' q, In r' log -> g_tgt r' = TCls q -> q < length cs /\ lvl cs q <> None.
Hypothesis WND : NoDup W.
Hypothesis Wdesc : forall d, In d W <-> d < length cs /\ desc cs t d.
Hypothesis Word : forall pre d post, W = pre ++ d :: post -> d <> t -> exists p, In p pre /\ mro cs d = p :: mro cs p.

Let log' := log ++ [r].
Let x := lfn_of r.
Let app := negb (g_ins r).

Lemma rel_new : forall c, rel_cls (mro cs c) c r = true <-> desc cs t c.
Proof.
  intro c. unfold rel_cls, desc. rewrite Hr, orb_true_iff, Nat.eqb_eq, memn_In. intuition congruence.
Qed.

Lemma cls_list_new_desc : forall c, desc cs t c -> cls_list cs log' c = place app x (cls_list cs log c).
Proof. intros c H. unfold cls_list, log'. apply cls_regs_snoc_rel. apply rel_new. exact H. Qed.
Lemma cls_list_new_other : forall c, ~ desc cs t c -> cls_list cs log' c = cls_list cs log c.
Proof.
  intros c H. unfold cls_list, log'. rewrite cls_regs_snoc_irr; [reflexivity|].
  destruct (rel_cls (mro cs c) c r) eqn:E; [|reflexivity]. exfalso. apply H. apply rel_new. exact E.
Qed.

(* a strict ancestor of t is not a descendant of t *)
Lemma anc_not_desc : forall q, In q (mro cs t) -> ~ desc cs t q.
Proof.
  intros q Hq Hd. pose proof (mro_lt cs Hs t q Ht Hq) as H1.
  assert (q < length cs) by lia. pose proof (desc_lt cs Hs t q H Hd). lia.
Qed.

Lemma closure : forall n pre d post, length pre < n -> W = pre ++ d :: post ->
  forall q, In q (mro cs d) -> desc cs t q -> In q pre.
Proof.
  induction n as [|n IH]; intros pre d post Hn HW q Hq Hd; [lia|].
  destruct (Nat.eq_dec d t) as [->|Hne]; [exfalso; eapply anc_not_desc; eauto|].
  destruct (Word pre d post HW Hne) as [p [Hp Em]]. rewrite Em in Hq.
  destruct Hq as [<-|Hq]; [exact Hp|].
  destruct (in_split _ _ Hp) as [pre' [post' Epre]].
  assert (HW' : W = pre' ++ p :: (post' ++ d :: post)) by (rewrite HW, Epre, <- app_assoc; reflexivity).
  assert (Hl : length pre' < n) by (rewrite Epre, app_length in Hn; cbn in Hn; lia).
  pose proof (IH pre' p _ Hl HW' q Hq Hd) as X. rewrite Epre. apply in_or_app. left. exact X.
Qed.

Definition mid (P : list nat) (csP : list cls_rec) : Prop :=
  same_hier csP cs /\
  (forall c, In c P -> lvl csP c = Some (cls_list cs log' c)) /\
  (forall c, ~ In c P -> lvl csP c = lvl cs c).

Lemma ins_step_mid : forall P c Q csP, W = P ++ c :: Q -> mid P csP ->
  mid (P ++ [c]) (ins_step t app x csP c).
Proof.
  intros P c Q csP HW (SH & HP & HnP).
  assert (HcW : In c W) by (rewrite HW; apply in_or_app; right; left; reflexivity).
  destruct (proj1 (Wdesc c) HcW) as [Hcl Hcd].
  assert (HcP : ~ In c P).
  { intro X. rewrite HW in WND. apply NoDup_remove_2 in WND. apply WND. apply in_or_app. left. exact X. }
  assert (HsP : single csP) by (eapply same_hier_single; eauto).
  assert (HlP : length csP = length cs) by (destruct SH; assumption).
  assert (Hmro : forall d, mro csP d = mro cs d) by (intro d; destruct SH as [_ H]; apply H).
  assert (PW : forall q, In q P -> q < length cs /\ desc cs t q).
  { intros q Hq. apply Wdesc. rewrite HW. apply in_or_app. left. exact Hq. }
  (* the result of the step, in every case: class c gets the new list, nothing else changes *)
  assert (Goal : ins_step t app x csP c = set_lvl csP c (cls_list cs log' c)).
  { unfold ins_step. destruct (Nat.eqb_spec c t) as [->|Hne]; cbn [negb andb].
    - (* the target itself *)
      rewrite (cls_list_new_desc t Hcd).
      assert (Hlt : lvl csP t = lvl cs t) by (apply HnP; exact HcP).
      unfold in_lvl. destruct (lvl csP t) as [l|] eqn:El.
      + unfold lvl_list. rewrite El. rewrite (Hcons t l Ht (eq_trans (eq_sym Hlt) eq_refl)). reflexivity.
      + rewrite (update_subclass_spec csP log t HsP); try (rewrite HlP; exact Ht); try exact El.
        * unfold lvl_list. rewrite lvl_set_lvl_eq by (rewrite HlP; exact Ht).
          rewrite (same_hier_cls_list csP cs log t SH).
          unfold set_lvl. (* two successive updates of the same slot *)
          assert (SS : forall A (l : list A) n a b, set_nth (set_nth l n a) n b = set_nth l n b).
          { induction l; destruct n; cbn; intros; auto. rewrite IHl. reflexivity. }
          unfold get_cls. rewrite nth_set_nth_eq by (rewrite HlP; exact Ht). cbn. rewrite SS. reflexivity.
        * intros q l Hq Hl. rewrite Hmro in Hq. rewrite (same_hier_cls_list csP cs log q SH).
          assert (~ In q P) by (intro X; apply (anc_not_desc q Hq); apply PW; exact X).
          rewrite HnP in Hl by assumption. apply Hcons; [|exact Hl].
          pose proof (mro_lt cs Hs t q Ht Hq). lia.
        * intros r' q Hr' Et Hq. rewrite Hmro in Hq. destruct (Htgt r' q Hr' Et) as [_ Hne].
          assert (~ In q P).
          { intro X. destruct Hq as [<-|Hq]; [contradiction|]. apply (anc_not_desc q Hq). apply PW. exact X. }
          rewrite HnP by assumption. exact Hne.
    - (* a proper descendant *)
      assert (Clo : forall q, In q (mro cs c) -> desc cs t q -> In q P).
      { intros q Hq Hd. eapply (closure (S (length P)) P c Q); eauto. }
      assert (HtP : In t P).
      { destruct Hcd as [->|Hcd]; [congruence|]. apply Clo; [exact Hcd|left; reflexivity]. }
      unfold in_lvl. destruct (lvl csP c) as [l|] eqn:El; cbn [negb andb].
      + assert (Hlc : lvl cs c = Some l) by (rewrite <- HnP by exact HcP; exact El).
        unfold lvl_list. rewrite El. rewrite (cls_list_new_desc c Hcd), (Hcons c l Hcl Hlc). reflexivity.
      + rewrite (update_subclass_spec csP log' c HsP); try (rewrite HlP; exact Hcl); try exact El.
        * rewrite (same_hier_cls_list csP cs log' c SH). reflexivity.
        * intros q l Hq Hl. rewrite Hmro in Hq. rewrite (same_hier_cls_list csP cs log' q SH).
          destruct (in_dec Nat.eq_dec q P) as [HqP|HqP].
          -- rewrite HP in Hl by exact HqP. congruence.
          -- rewrite HnP in Hl by exact HqP.
             rewrite cls_list_new_other by (intro X; apply HqP; apply Clo; assumption).
             apply Hcons; [|exact Hl]. pose proof (mro_lt cs Hs c q Hcl Hq). lia.
        * intros r' q Hr' Et Hq. rewrite Hmro in Hq. unfold log' in Hr'. apply in_app_or in Hr'.
          destruct Hr' as [Hr'|[<-|[]]].
          -- destruct (Htgt r' q Hr' Et) as [_ Hne'].
             destruct (in_dec Nat.eq_dec q P) as [HqP|HqP]; [rewrite HP by exact HqP; discriminate|].
             rewrite HnP by exact HqP. exact Hne'.
          -- rewrite Hr in Et. inversion Et. subst q. rewrite HP by exact HtP. discriminate. }
  rewrite Goal. split; [apply same_hier_set_lvl; exact SH|]. split.
  - intros d Hd. apply in_app_or in Hd. destruct Hd as [Hd|[<-|[]]].
    + rewrite lvl_set_lvl_neq by (intro; subst; contradiction). apply HP. exact Hd.
    + apply lvl_set_lvl_eq. rewrite HlP. exact Hcl.
  - intros d Hd. assert (c <> d) by (intro; subst; apply Hd; apply in_or_app; right; left; reflexivity).
    rewrite lvl_set_lvl_neq by assumption. apply HnP. intro X. apply Hd. apply in_or_app. left. exact X.
Qed.

Lemma fold_mid : forall Q P csP, W = P ++ Q -> mid P csP -> mid W (fold_left (ins_step t app x) Q csP).
Proof.
  induction Q as [|c Q IH]; intros P csP HW HM; cbn [fold_left].
  - rewrite app_nil_r in HW. subst P. exact HM.
  - apply (IH (P ++ [c])).
    + rewrite <- app_assoc. exact HW.
    + eapply ins_step_mid; eauto.
Qed.

Lemma do_insert_mid : mid W (fold_left (ins_step t app x) W cs).
Proof.
  apply (fold_mid W [] cs); [reflexivity|]. split; [apply same_hier_refl|]. split; [intros c []|reflexivity].
Qed.
End Insert.

(* ------------------------------------------------------------------ _ClsLevelDispatch.remove *)
Section Remove.
Variable cs : list cls_rec.
Variable log : list reg.
Variable r : reg.
Variable t : nat.
Variable W : list nat.
Hypothesis Hs : single cs.
Hypothesis Ht : t < length cs.
Hypothesis Hr : g_tgt r = TCls t.
Hypothesis Hin : In r log.
Hypothesis Hkeys : NoDup (map key_of log).
Hypothesis Hids : forall c, c < length cs -> NoDup (map ident_of (cls_regs (mro cs c) c log)).
Hypothesis Hcons : forall c l, c < length cs -> lvl cs c = Some l -> l = cls_list cs log c.
Hypothesis WND : NoDup W.
Hypothesis Wdesc : forall d, In d W <-> d < length cs /\ desc cs t d.

Let log' := filter (not_key (key_of r)) log.

Definition rmid (P : list nat) (csP : list cls_rec) : Prop :=
  same_hier csP cs /\
  (forall c l, In c P -> lvl cs c = Some l -> lvl csP c = Some (cls_list cs log' c)) /\
  (forall c, In c P -> lvl cs c = None -> lvl csP c = None) /\
  (forall c, ~ In c P -> lvl csP c = lvl cs c).

Lemma keys_regs_nodup : forall c, NoDup (map key_of (cls_regs (mro cs c) c log)).
Proof.
  intro c. unfold cls_regs. eapply Permutation_NoDup.
  - apply Permutation_map. apply Permutation_sym. apply ordered_perm.
  - apply NoDup_map_filter. exact Hkeys.
Qed.

Lemma remove_walk_mid : forall Q P csP, W = P ++ Q -> rmid P csP ->
  exists cs', remove_walk csP Q (ident_of r) = (cs', true) /\ rmid W cs'.
Proof.
  induction Q as [|c Q IH]; intros P csP HW HM; cbn [remove_walk].
  - rewrite app_nil_r in HW. subst P. exists csP. auto.
  - destruct HM as (SH & H1 & H2 & H3).
    assert (HcW : In c W) by (rewrite HW; apply in_or_app; right; left; reflexivity).
    destruct (proj1 (Wdesc c) HcW) as [Hcl Hcd].
    assert (HcP : ~ In c P).
    { intro X. rewrite HW in WND. apply NoDup_remove_2 in WND. apply WND. apply in_or_app. left. exact X. }
    assert (HlP : length csP = length cs) by (destruct SH; assumption).
    rewrite (H3 c HcP). destruct (lvl cs c) as [l|] eqn:El.
    + rewrite (Hcons c l Hcl El). unfold cls_list.
      assert (Hrel : In r (cls_regs (mro cs c) c log)).
      { apply In_cls_regs. split; [exact Hin|]. unfold rel_cls. rewrite Hr. apply orb_true_iff.
        destruct Hcd as [->|Hcd]; [left; apply Nat.eqb_refl|right; apply memn_In; exact Hcd]. }
      rewrite (remove_first_regs _ r (Hids c Hcl) (keys_regs_nodup c) Hrel).
      apply (IH (P ++ [c])); [rewrite <- app_assoc; exact HW|].
      split; [apply same_hier_set_lvl; exact SH|]. split; [|split].
      * intros d l' Hd Hl'. apply in_app_or in Hd. destruct Hd as [Hd|[<-|[]]].
        -- rewrite lvl_set_lvl_neq by (intro; subst; contradiction). eapply H1; eauto.
        -- rewrite lvl_set_lvl_eq by (rewrite HlP; exact Hcl). unfold cls_list, log'.
           rewrite cls_regs_del. reflexivity.
      * intros d Hd Hl'. apply in_app_or in Hd. destruct Hd as [Hd|[<-|[]]]; [|congruence].
        rewrite lvl_set_lvl_neq by (intro; subst; contradiction). apply H2; assumption.
      * intros d Hd. assert (c <> d) by (intro; subst; apply Hd; apply in_or_app; right; left; reflexivity).
        rewrite lvl_set_lvl_neq by assumption. apply H3. intro X. apply Hd. apply in_or_app. left. exact X.
    + apply (IH (P ++ [c])); [rewrite <- app_assoc; exact HW|].
      split; [exact SH|]. split; [|split].
      * intros d l' Hd Hl'. apply in_app_or in Hd. destruct Hd as [Hd|[<-|[]]]; [eapply H1; eauto|congruence].
      * intros d Hd Hl'. apply in_app_or in Hd. destruct Hd as [Hd|[<-|[]]]; [apply H2; assumption|].
        rewrite H3 by exact HcP. exact El.
      * intros d Hd. apply H3. intro X. apply Hd. apply in_or_app. left. exact X.
Qed.

Lemma remove_walk_spec : exists cs', remove_walk cs W (ident_of r) = (cs', true) /\ rmid W cs'.
Proof.
  apply (remove_walk_mid W [] cs); [reflexivity|]. split; [apply same_hier_refl|].
  split; [intros c l []|]. split; [intros c []|reflexivity].
Qed.

(* classes outside the walk: the removed registration was not relevant for them *)
Lemma cls_list_del_other : forall c, ~ desc cs t c -> cls_list cs log' c = cls_list cs log c.
Proof.
  intros c Hc. unfold cls_list, log'. rewrite cls_regs_del. f_equal. apply filter_all.
  intros y Hy. unfold not_key. apply negb_true_iff. destruct (key_eqb (key_of r) (key_of y)) eqn:K; [|reflexivity].
  apply key_eqb_eq in K. apply In_cls_regs in Hy. destruct Hy as [Hy Hrel].
  assert (y = r) by (eapply NoDup_map_inj; eauto). subst y. exfalso. apply Hc.
  unfold rel_cls in Hrel. rewrite Hr in Hrel. apply orb_true_iff in Hrel.
  destruct Hrel as [X|X]; [apply Nat.eqb_eq in X; left; auto|apply memn_In in X; right; exact X].
Qed.
End Remove.
