(* C28 proofs, part 4: the statements used by props/C28.v *)
From Coq Require Import List Arith Bool Lia.
Import ListNotations.
From SAV.event Require Import Events EventsWalk EventsColl EventsProofs.

(* ------------------------------------------------------------------ runs *)
Lemma run_app : forall a b st,
  run st (a ++ b) = (fst (run (fst (run st a)) b), snd (run st a) ++ snd (run (fst (run st a)) b)).
Proof.
  induction a as [|o a IH]; intros b st; cbn [run app].
  - cbn. destruct (run st b). reflexivity.
  - destruct (step st o) as [st1 x]. rewrite IH. destruct (run st1 a) as [st2 xs]. cbn [fst snd].
    destruct (run st2 b). reflexivity.
Qed.
Lemma srun_app : forall a b sp,
  srun sp (a ++ b) = (fst (srun (fst (srun sp a)) b), snd (srun sp a) ++ snd (srun (fst (srun sp a)) b)).
Proof.
  induction a as [|o a IH]; intros b sp; cbn [srun app].
  - cbn. destruct (srun sp b). reflexivity.
  - destruct (sstep sp o) as [sp1 x]. rewrite IH. destruct (srun sp1 a) as [sp2 xs]. cbn [fst snd].
    destruct (srun sp2 b). reflexivity.
Qed.
Lemma guard_app : forall a b sp, guard sp (a ++ b) = guard sp a && guard (fst (srun sp a)) b.
Proof.
  induction a as [|o a IH]; intros b sp; cbn [guard app srun]; [reflexivity|].
  rewrite IH. destruct (sstep sp o) as [sp1 x]. cbn [fst]. destruct (srun sp1 a). cbn [fst].
  rewrite andb_assoc. reflexivity.
Qed.

(* ------------------------------------------------------------------ main theorem *)
Theorem dispatch_calls_exactly_registered_guarded : forall ops, guard sinit ops = true ->
  snd (run init ops) = snd (srun sinit ops).
Proof. intros ops G. apply (run_refines ops init sinit INV_init G). Qed.

Lemma reach_inv : forall ops, guard sinit ops = true -> INV (fst (run init ops)) (fst (srun sinit ops)).
Proof. intros ops G. apply (run_refines ops init sinit INV_init G). Qed.

Theorem dispatch_is_spec_calls : forall ops i, guard sinit ops = true ->
  i < length (insts (fst (run init ops))) ->
  snd (step (fst (run init ops)) (Dispatch i)) = OCalls (spec_calls (fst (srun sinit ops)) i).
Proof.
  intros ops i G Hi. pose proof (reach_inv ops G) as I.
  destruct (step_dispatch _ _ i I) as [E _]. rewrite E. cbn [sstep].
  assert (L : length (s_insts (fst (srun sinit ops))) = length (insts (fst (run init ops)))).
  { rewrite <- (inv_icls _ _ I), map_length. reflexivity. }
  rewrite L. destruct (Nat.ltb_spec i (length (insts (fst (run init ops))))) as [_|X]; [|lia].
  unfold spec_calls. destruct (spec_call _ _). reflexivity.
Qed.

(* ------------------------------------------------------------------ results that never occur *)
Theorem fuel_sufficient : forall st o, snd (step st o) <> OFuel.
Proof.
  intros st o. destruct o as [bases m|c|t f fl|t f|t f|i]; cbn [step].
  - destruct (all_lt _ bases && all_lt _ m); cbn; discriminate.
  - destruct (Nat.ltb c _); cbn; discriminate.
  - destruct t as [t|i].
    + destruct (Nat.ltb_spec t (length (classes st))) as [H|H]; [|cbn; discriminate].
      destruct (has_key _ _); [cbn; discriminate|].
      unfold do_insert. destruct (walk_subclasses_some _ t H) as [w ->]. cbn. discriminate.
    + destruct (nth_error (insts st) i); [|cbn; discriminate].
      destruct (has_key _ _); cbn; discriminate.
  - destruct (valid_target _ _ t) eqn:V; [|cbn; discriminate].
    destruct (lookup_key _ _); [|cbn; discriminate].
    destruct t as [c|i].
    + cbn [valid_target] in V. apply Nat.ltb_lt in V. destruct (walk_subclasses_some _ c V) as [w ->].
      destruct (remove_walk _ _ _) as [cs' [|]]; cbn; discriminate.
    + destruct (nth_error (insts st) i); [|cbn; discriminate].
      destruct (i_coll i0); [|cbn; discriminate]. destruct (remove_first _ l0); cbn; discriminate.
  - destruct (valid_target _ _ t); cbn; discriminate.
  - destruct (nth_error (insts st) i); [|cbn; discriminate]. destruct (call_all _ _). cbn. discriminate.
Qed.

Definition internal_error (x : out) : bool :=
  match x with OValueError | OFuel | OUnreach => true | _ => false end.
Lemma sstep_no_internal : forall sp o, internal_error (snd (sstep sp o)) = false.
Proof.
  intros sp o. destruct o as [bases m|c|t f fl|t f|t f|i]; cbn [sstep].
  - destruct (all_lt _ bases && all_lt _ m); reflexivity.
  - destruct (Nat.ltb c _); reflexivity.
  - destruct (valid_target _ _ t); reflexivity.
  - destruct (valid_target _ _ t); [|reflexivity]. destruct (live _ _); reflexivity.
  - destruct (valid_target _ _ t); reflexivity.
  - destruct (Nat.ltb i _); [|reflexivity]. destruct (spec_call _ _). reflexivity.
Qed.
Lemma srun_no_internal : forall ops sp, existsb internal_error (snd (srun sp ops)) = false.
Proof.
  induction ops as [|o ops IH]; intro sp; cbn [srun]; [reflexivity|].
  pose proof (sstep_no_internal sp o) as H. destruct (sstep sp o) as [sp1 x]. specialize (IH sp1).
  destruct (srun sp1 ops). cbn [snd existsb] in *. rewrite H, IH. reflexivity.
Qed.
Theorem guarded_no_internal_error : forall ops, guard sinit ops = true ->
  existsb internal_error (snd (run init ops)) = false.
Proof. intros ops G. rewrite (dispatch_calls_exactly_registered_guarded ops G). apply srun_no_internal. Qed.

(* ------------------------------------------------------------------ propagate=True has no effect on the modelled operations *)
Theorem propagate_inert : forall st t f fl b,
  step st (Listen t f {| fl_insert := fl_insert fl; fl_prop := b; fl_once := fl_once fl; fl_wrap := fl_wrap fl |})
  = step st (Listen t f fl).
Proof. intros st t f [a p o w] b. destruct t; reflexivity. Qed.

(* ------------------------------------------------------------------ remove is the inverse of listen *)
Lemma filter_not_key_snoc : forall k log r, live k log = false -> key_of r = k ->
  filter (not_key k) (log ++ [r]) = log.
Proof.
  intros k log r Hl Hk. rewrite filter_app. cbn. unfold not_key at 2. rewrite Hk, key_eqb_refl. cbn.
  rewrite app_nil_r. apply filter_not_key_id. intros y Hy E.
  assert (live k log = true) by (apply live_In; exists y; auto). congruence.
Qed.

Lemma spec_dispatch_ext : forall sp sp' i, s_hier sp' = s_hier sp -> s_insts sp' = s_insts sp ->
  s_log sp' = s_log sp -> s_fired sp' = s_fired sp ->
  snd (sstep sp' (Dispatch i)) = snd (sstep sp (Dispatch i)).
Proof.
  intros sp sp' i H1 H2 H3 H4. cbn [sstep]. unfold spec_list, s_mro. rewrite H1, H2, H3, H4.
  destruct (Nat.ltb i _); [|reflexivity]. destruct (spec_call _ _). reflexivity.
Qed.

Theorem remove_is_inverse : forall ops t f fl,
  let st := fst (run init ops) in
  let sp := fst (srun sinit ops) in
  guard sinit (ops ++ [Listen t f fl; Remove t f]) = true ->
  valid_target (length (classes st)) (length (insts st)) t = true ->
  snd (step st (Contains t f)) = OBool false ->
  let st1 := fst (step st (Listen t f fl)) in
  let st2 := fst (step st1 (Remove t f)) in
  snd (step st1 (Remove t f)) = OOk /\
  snd (step st2 (Contains t f)) = OBool false /\
  forall i, snd (step st2 (Dispatch i)) = snd (step st (Dispatch i)).
Proof.
  intros ops t f fl st sp G V C st1 st2.
  rewrite guard_app in G. apply andb_true_iff in G. destruct G as [G0 G]. fold sp in G.
  cbn [guard] in G. apply andb_true_iff in G. destruct G as [G1 _].
  pose proof (reach_inv ops G0) as I. fold st sp in I.
  assert (Lv : live (t, f) (s_log sp) = false).
  { destruct (step_contains st sp t f I) as [E _]. rewrite C in E. cbn [sstep] in E.
    rewrite (valid_target_eq st sp t I), V in E. cbn in E. inversion E. reflexivity. }
  destruct (step_refines st sp (Listen t f fl) I G1) as [_ I1]. fold st1 in I1.
  set (sp1 := fst (sstep sp (Listen t f fl))) in *.
  destruct (step_remove st1 sp1 t f I1) as [E2 I2]. fold st2 in I2.
  set (sp2 := fst (sstep sp1 (Remove t f))) in *.
  (* the specification side, computed *)
  assert (S1 : s_hier sp1 = s_hier sp /\ s_insts sp1 = s_insts sp /\ s_fired sp1 = s_fired sp /\
               exists r, key_of r = (t, f) /\ s_log sp1 = s_log sp ++ [r]).
  { unfold sp1. cbn [sstep]. rewrite (valid_target_eq st sp t I), V, Lv. cbn [fst s_hier s_insts s_fired s_log].
    repeat split. eexists. split; [|reflexivity]. reflexivity. }
  destruct S1 as (H1 & H2 & H3 & r & Hk & H4).
  assert (V1 : valid_target (length (s_hier sp1)) (length (s_insts sp1)) t = true).
  { rewrite H1, H2, (valid_target_eq st sp t I). exact V. }
  assert (Lv1 : live (t, f) (s_log sp1) = true).
  { rewrite H4. apply live_In. exists r. split; [apply in_or_app; right; left; reflexivity|exact Hk]. }
  assert (S2 : snd (sstep sp1 (Remove t f)) = OOk /\ s_hier sp2 = s_hier sp /\ s_insts sp2 = s_insts sp /\
               s_fired sp2 = s_fired sp /\ s_log sp2 = s_log sp).
  { unfold sp2. cbn [sstep]. rewrite V1, Lv1. cbn [fst snd s_hier s_insts s_fired s_log].
    repeat split; auto. rewrite H4.
    change (fun r0 => negb (key_eqb (t, f) (key_of r0))) with (not_key (t, f)).
    apply filter_not_key_snoc; assumption. }
  destruct S2 as (O2 & J1 & J2 & J3 & J4).
  split; [rewrite E2; exact O2|]. split.
  - destruct (step_contains st2 sp2 t f I2) as [E _]. rewrite E. cbn [sstep].
    rewrite J1, J2, (valid_target_eq st sp t I), V, J4, Lv. reflexivity.
  - intro i. destruct (step_dispatch st2 sp2 i I2) as [E _]. destruct (step_dispatch st sp i I) as [E' _].
    rewrite E, E'. apply spec_dispatch_ext; assumption.
Qed.

(* ------------------------------------------------------------------ a subclass created later inherits *)
Lemma list_eq_nat_refl : forall a, list_eq_nat a a = true.
Proof. induction a; cbn; [reflexivity|rewrite Nat.eqb_refl; exact IHa]. Qed.

Lemma all_lt_spec : forall n l, (forall x, In x l -> x < n) -> all_lt n l = true.
Proof. intros. unfold all_lt. apply forallb_forall. intros x Hx. apply Nat.ltb_lt. auto. Qed.

(* the class-level listeners a fresh instance of class b is called with, by the specification *)
Definition class_calls (sp : sstate) (b : nat) : list nat :=
  fst (spec_call (ordered (filter (rel_cls (s_mro sp b) b) (s_log sp))) (s_fired sp)).

Theorem later_subclass_inherits : forall ops b,
  let st := fst (run init ops) in
  let sp := fst (srun sinit ops) in
  guard sinit ops = true -> b < length (classes st) ->
  let d := length (classes st) in
  let j := length (insts st) in
  snd (run st [NewClass [b] (b :: mro (classes st) b); NewInst d; Dispatch j])
    = [OOk; OOk; OCalls (class_calls sp b)] /\
  snd (run st [NewInst b; Dispatch j]) = [OOk; OCalls (class_calls sp b)].
Proof.
  intros ops b st sp G Hb d j. pose proof (reach_inv ops G) as I. fold st sp in I.
  assert (Ln : length (s_hier sp) = d) by (apply (hier_len _ _ (inv_hier _ _ I))).
  assert (Li : length (s_insts sp) = j) by (rewrite <- (inv_icls _ _ I), map_length; reflexivity).
  assert (Em : s_mro sp b = mro (classes st) b) by (apply (s_mro_eq st sp b (inv_hier _ _ I))).
  assert (NoInst : filter (rel_inst j) (s_log sp) = []).
  { apply filter_nil_iff. intros r Hr. unfold rel_inst. destruct (g_tgt r) as [|k] eqn:Et; [reflexivity|].
    pose proof (inv_tgt_i _ _ I r k Hr Et). apply Nat.eqb_neq. fold j in H. lia. }
  split.
  - (* the late subclass *)
    set (ops3 := [NewClass [b] (b :: mro (classes st) b); NewInst d; Dispatch j]).
    assert (G3 : guard sp ops3 = true).
    { cbn [guard ops3 gstep]. rewrite Ln. destruct (Nat.ltb_spec b d) as [_|X]; [|unfold d in X; lia].
      rewrite Em, list_eq_nat_refl. reflexivity. }
    destruct (run_refines ops3 st sp I G3) as [E _]. rewrite E. clear E.
    assert (V : all_lt d [b] && all_lt d (b :: mro (classes st) b) = true).
    { apply andb_true_iff. split; apply all_lt_spec.
      - intros x [<-|[]]. exact Hb.
      - intros x [<-|Hx]; [exact Hb|]. pose proof (mro_lt _ (inv_single _ _ I) b x Hb Hx). unfold d. lia. }
    unfold ops3. cbn [srun sstep]. rewrite Ln, V. cbn [fst snd s_hier s_insts s_log s_next s_fired].
    rewrite app_length, Ln. cbn [length]. destruct (Nat.ltb_spec d (d + 1)) as [_|X]; [|lia].
    cbn [fst snd s_hier s_insts s_log s_next s_fired]. rewrite app_length, Li. cbn [length].
    destruct (Nat.ltb_spec j (j + 1)) as [_|X]; [|lia].
    unfold spec_list. cbn [s_insts s_log s_hier s_fired].
    rewrite app_nth2 by lia. rewrite Li, Nat.sub_diag. cbn [nth].
    unfold s_mro at 1. cbn [s_hier]. rewrite app_nth2 by lia. rewrite Ln, Nat.sub_diag. cbn [nth snd].
    rewrite NoInst, ordered_nil, app_nil_r.
    assert (Ef : filter (rel_cls (b :: mro (classes st) b) d) (s_log sp) = filter (rel_cls (s_mro sp b) b) (s_log sp)).
    { apply filter_ext_in. intros r Hr. unfold rel_cls. destruct (g_tgt r) as [t|] eqn:Et; [|reflexivity].
      destruct (inv_tgt_c _ _ I r t Hr Et) as [Ht _]. fold d in Ht.
      destruct (Nat.eqb_spec t d) as [->|_]; [lia|]. rewrite Em. cbn [orb].
      unfold memn. cbn [existsb]. reflexivity. }
    rewrite Ef. unfold class_calls. destruct (spec_call _ _). reflexivity.
  - (* a fresh instance of the base itself *)
    set (ops2 := [NewInst b; Dispatch j]).
    destruct (run_refines ops2 st sp I eq_refl) as [E _]. rewrite E. clear E.
    unfold ops2. cbn [srun sstep]. rewrite Ln. destruct (Nat.ltb_spec b d) as [_|X]; [|unfold d in X; lia].
    cbn [fst snd s_hier s_insts s_log s_next s_fired]. rewrite app_length, Li. cbn [length].
    destruct (Nat.ltb_spec j (j + 1)) as [_|X]; [|lia].
    unfold spec_list. cbn [s_insts s_log s_hier s_fired].
    rewrite app_nth2 by lia. rewrite Li, Nat.sub_diag. cbn [nth].
    unfold s_mro at 1. cbn [s_hier]. fold (s_mro sp b).
    rewrite NoInst, ordered_nil, app_nil_r. unfold class_calls. destruct (spec_call _ _). reflexivity.
Qed.
