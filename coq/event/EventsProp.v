(* C28: propagation of instance-level listeners between dispatch objects
   (_Dispatch._update -> _ListenerCollection._update -> registry._stored_in_collection_multi) together
   with BOTH registry maps.  Instances only (class-level collections are the subject of Events.v and
   are not touched by _update); one event name.

     _key_to_collection : key -> {owner collection -> listen_fn}    ("forward")
     _collection_to_key : owner collection -> {listen_fn -> key}    ("reverse")

   Both dict-of-dicts are kept flat: [p_fwd] is the list of (key, owner, listen_fn) in insertion order
   (so the entries of one key are in the order dispatch_reg.items() yields them), [p_rev] the list of
   (owner, listen_fn, key).  Inner dicts never stay empty in the code paths below (every defaultdict
   access that creates one fills it or deletes it again), so `key in _key_to_collection` is "some
   entry has this key".  The owner of instance i's _ListenerCollection is i; a key is
   (target instance, function). *)
From Coq Require Import List Arith Bool.
Import ListNotations.
From SAV.event Require Import Events.

Definition pkey := (nat * nat)%type.
Definition pkey_eqb (a b : pkey) : bool := Nat.eqb (fst a) (fst b) && Nat.eqb (snd a) (snd b).

Record coll := { c_l : list lfn;          (* .listeners *)
                 c_p : list ident }.      (* .propagate (a set) *)
Record pstate := {
  p_insts : list (option coll);           (* None = _EmptyListener *)
  p_fwd : list (pkey * nat * ident);
  p_rev : list (nat * ident * pkey);
  p_next : nat;
  p_fired : list ident }.

Inductive pop :=
| PNewInst
| PListen (i f : nat) (fl : flags)
| PRemove (i f : nat)
| PContains (i f : nat)
| PDispatch (i : nat)
| PUpdate (j i : nat) (only_propagate : bool)   (* insts[j].dispatch._update(insts[i].dispatch, only_propagate) *)
| PSnapshot (nf : nat).                          (* observe both registry maps for functions 0..nf-1 *)

Inductive pout :=
| POut (o : out)
| PMaps (fwd rev : list bool).

(* ------------------------------------------------------------------ the two maps *)
Definition fwd_has (k : pkey) (o : nat) (m : list (pkey * nat * ident)) : bool :=
  existsb (fun e => pkey_eqb k (fst (fst e)) && Nat.eqb o (snd (fst e))) m.
Definition fwd_has_key (k : pkey) (m : list (pkey * nat * ident)) : bool :=
  existsb (fun e => pkey_eqb k (fst (fst e))) m.
Definition fwd_of_key (k : pkey) (m : list (pkey * nat * ident)) : list (nat * ident) :=
  map (fun e => (snd (fst e), snd e)) (filter (fun e => pkey_eqb k (fst (fst e))) m).
Definition fwd_del_key (k : pkey) (m : list (pkey * nat * ident)) : list (pkey * nat * ident) :=
  filter (fun e => negb (pkey_eqb k (fst (fst e)))) m.

Definition rev_is (o : nat) (a : ident) (e : nat * ident * pkey) : bool :=
  Nat.eqb o (fst (fst e)) && ident_eqb a (snd (fst e)).
Fixpoint rev_lookup (o : nat) (a : ident) (m : list (nat * ident * pkey)) : option pkey :=
  match m with
  | [] => None
  | e :: r => if rev_is o a e then Some (snd e) else rev_lookup o a r
  end.
Definition rev_del (o : nat) (a : ident) (m : list (nat * ident * pkey)) : list (nat * ident * pkey) :=
  filter (fun e => negb (rev_is o a e)) m.
(* listener_to_key[listen_ref] = key *)
Definition rev_set (o : nat) (a : ident) (k : pkey) (m : list (nat * ident * pkey)) : list (nat * ident * pkey) :=
  (o, a, k) :: rev_del o a m.

Definition set_add (a : ident) (s : list ident) : list ident := if mem_ident a s then s else a :: s.
Definition set_discard (a : ident) (s : list ident) : list ident := filter (fun b => negb (ident_eqb a b)) s.
Fixpoint set_union (s t : list ident) : list ident :=      (* s.update(t) *)
  match t with [] => s | a :: r => set_union (set_add a s) r end.
Fixpoint dedup (l : list ident) : list ident :=
  match l with [] => [] | a :: r => if mem_ident a r then dedup r else a :: dedup r end.

Definition get_coll (st : pstate) (i : nat) : option coll :=
  match nth_error (p_insts st) i with Some (Some c) => Some c | _ => None end.
Definition promoted (oc : option coll) : coll := match oc with Some c => c | None => {| c_l := []; c_p := [] |} end.

(* registry._stored_in_collection_multi(newowner = j, oldowner = i, elements):
     for listen_fn in elements:
         try: key = old_listener_to_key[listen_ref]      except KeyError: continue
         dispatch_reg = _key_to_collection[key]
         if newowner_ref in dispatch_reg: assert dispatch_reg[newowner_ref] == listen_ref
         else: dispatch_reg[newowner_ref] = listen_ref
         new_listener_to_key[listen_ref] = key
   (the assert is not modelled) *)
Fixpoint assoc_multi (j i : nat) (els : list ident)
         (fwd : list (pkey * nat * ident)) (rev : list (nat * ident * pkey))
  : list (pkey * nat * ident) * list (nat * ident * pkey) :=
  match els with
  | [] => (fwd, rev)
  | a :: r =>
      match rev_lookup i a rev with
      | None => assoc_multi j i r fwd rev
      | Some k =>
          assoc_multi j i r (if fwd_has k j fwd then fwd else fwd ++ [(k, j, a)]) (rev_set j a k rev)
      end
  end.

(* _EventKey.remove: for every (collection, listen_fn) registered under the key:
     collection.listeners.remove(fn); collection.propagate.discard(fn);
     registry._removed_from_collection (forward entry already popped; reverse entry popped) *)
Fixpoint remove_all (owners : list (nat * ident)) (insts : list (option coll)) (rev : list (nat * ident * pkey))
  : list (option coll) * list (nat * ident * pkey) * out :=
  match owners with
  | [] => (insts, rev, OOk)
  | (o, a) :: r =>
      match nth_error insts o with
      | Some (Some c) =>
          match remove_first a (c_l c) with
          | None => (insts, rev, OValueError)
          | Some l' =>
              remove_all r (set_nth insts o (Some {| c_l := l'; c_p := set_discard a (c_p c) |})) (rev_del o a rev)
          end
      | _ => (insts, rev, OUnreach)
      end
  end.

Definition grid (n nf : nat) : list (nat * pkey) :=
  flat_map (fun o => flat_map (fun t => map (fun f => (o, (t, f))) (seq 0 nf)) (seq 0 n)) (seq 0 n).

Definition pstep (st : pstate) (op : pop) : pstate * pout :=
  let n := length (p_insts st) in
  match op with
  | PNewInst =>
      ({| p_insts := p_insts st ++ [None]; p_fwd := p_fwd st; p_rev := p_rev st; p_next := p_next st;
          p_fired := p_fired st |}, POut OOk)
  | PListen i f fl =>
      match nth_error (p_insts st) i with
      | None => (st, POut OBadOp)
      | Some oc =>
          let c := promoted oc in
          let x := mk_lfn (p_next st) f fl in
          if fwd_has (i, f) i (p_fwd st) then
            ({| p_insts := set_nth (p_insts st) i (Some c); p_fwd := p_fwd st; p_rev := p_rev st;
                p_next := S (p_next st); p_fired := p_fired st |}, POut OOk)
          else
            ({| p_insts := set_nth (p_insts st) i
                             (Some {| c_l := place (negb (fl_insert fl)) x (c_l c);
                                      c_p := if fl_prop fl then set_add (l_id x) (c_p c) else c_p c |});
                p_fwd := p_fwd st ++ [((i, f), i, l_id x)];
                p_rev := rev_set i (l_id x) (i, f) (p_rev st);
                p_next := S (p_next st); p_fired := p_fired st |}, POut OOk)
      end
  | PRemove i f =>
      if Nat.ltb i n then
        if fwd_has_key (i, f) (p_fwd st) then
          let '(insts', rev', o) := remove_all (fwd_of_key (i, f) (p_fwd st)) (p_insts st) (p_rev st) in
          ({| p_insts := insts'; p_fwd := fwd_del_key (i, f) (p_fwd st); p_rev := rev';
              p_next := p_next st; p_fired := p_fired st |}, POut o)
        else (st, POut OInvalidRequest)
      else (st, POut OBadOp)
  | PContains i f =>
      if Nat.ltb i n then (st, POut (OBool (fwd_has_key (i, f) (p_fwd st)))) else (st, POut OBadOp)
  | PDispatch i =>
      match nth_error (p_insts st) i with
      | None => (st, POut OBadOp)
      | Some oc =>
          let (cl, fd') := call_all (c_l (promoted oc)) (p_fired st) in
          ({| p_insts := p_insts st; p_fwd := p_fwd st; p_rev := p_rev st; p_next := p_next st;
              p_fired := fd' |}, POut (OCalls cl))
      end
  | PUpdate j i onlyp =>
      match nth_error (p_insts st) j, nth_error (p_insts st) i with
      | Some ocj, Some oci =>
          if Nat.eqb j i then (st, POut OBadOp)
          else
            match oci with
            | None => (st, POut OOk)       (* isinstance(ls, _EmptyListener): continue *)
            | Some ci =>
                let cj := promoted ocj in
                let prop' := set_union (c_p cj) (c_p ci) in
                let others :=
                  filter (fun l => (negb (mem_id (l_id l) (c_l cj)) && negb onlyp) || mem_ident (l_id l) prop')
                         (c_l ci) in
                let els := dedup (c_p ci ++ map l_id others) in
                let (fwd', rev') := assoc_multi j i els (p_fwd st) (p_rev st) in
                ({| p_insts := set_nth (p_insts st) j (Some {| c_l := c_l cj ++ others; c_p := prop' |});
                    p_fwd := fwd'; p_rev := rev'; p_next := p_next st; p_fired := p_fired st |}, POut OOk)
            end
      | _, _ => (st, POut OBadOp)
      end
  | PSnapshot nf =>
      (st, PMaps (map (fun g => fwd_has (snd g) (fst g) (p_fwd st)) (grid n nf))
                 (map (fun g => existsb (fun e => Nat.eqb (fst g) (fst (fst e)) && pkey_eqb (snd g) (snd e)) (p_rev st))
                      (grid n nf)))
  end.

Definition pinit : pstate := {| p_insts := []; p_fwd := []; p_rev := []; p_next := 0; p_fired := [] |}.
Fixpoint prun (st : pstate) (ops : list pop) : pstate * list pout :=
  match ops with
  | [] => (st, [])
  | o :: r => let (st1, x) := pstep st o in let (st2, xs) := prun st1 r in (st2, x :: xs)
  end.

(* ================================================================== guard
   The region in which every function object occurs at most once per collection:
     * an unwrapped listen() on an instance that already holds the same function through propagation
       is excluded (a repeat of the instance's own registration is fine: it is ignored);
     * _update() is only applied when the two collections share no function. *)
Definition idents (c : coll) : list ident := map l_id (c_l c).
Definition pgstep (st : pstate) (op : pop) : bool :=
  match op with
  | PListen i f fl =>
      match get_coll st i with
      | Some c => fl_once fl || fl_wrap fl || fwd_has (i, f) i (p_fwd st) || negb (mem_ident (IdF f) (idents c))
      | None => true
      end
  | PUpdate j i _ =>
      match get_coll st j, get_coll st i with
      | Some cj, Some ci => negb (existsb (fun a => mem_ident a (idents cj)) (idents ci))
      | _, _ => true
      end
  | _ => true
  end.
Fixpoint pguard (st : pstate) (ops : list pop) : bool :=
  match ops with
  | [] => true
  | o :: r => pgstep st o && pguard (fst (pstep st o)) r
  end.
