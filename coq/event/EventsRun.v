(* executable entry point for C28: family 0 = listen/remove/dispatch sequences (Events.v),
   family 1 = exec_once trace acceptance (ExecOnce.v), family 2 = only_once wrapper trace acceptance
   (ExecOnceWrap.v), family 3 = propagation histories with both registry maps (EventsProp.v) *)
From Coq Require Import List ZArith Bool Arith.
Import ListNotations.
From SAV.base Require Import Tree.
From SAV.event Require Import Events ExecOnce ExecOnceWrap EventsProp.
Open Scope Z_scope.

Definition dec_target (k n : tree) : option target :=
  match k, as_nat n with
  | I 0, Some c => Some (TCls c)
  | I 1, Some i => Some (TInst i)
  | _, _ => None
  end.

(* listen: [2; target kind; target; fn; insert; propagate; once; named; retval] - named=True and the
   retval adapter of the harness's Events class both wrap the function in a fresh closure *)
Definition dec_op (t : tree) : option op :=
  match t with
  | L [I 0; b; m] =>
      match as_list_of as_nat b, as_list_of as_nat m with
      | Some bs, Some ms => Some (NewClass bs ms)
      | _, _ => None
      end
  | L [I 1; c] => option_map NewInst (as_nat c)
  | L [I 2; k; n; f; i; p; o; nm; rv] =>
      match dec_target k n, as_nat f, as_bool i, as_bool p, as_bool o, as_bool nm, as_bool rv with
      | Some tg, Some f', Some i', Some p', Some o', Some nm', Some rv' =>
          Some (Listen tg f' {| fl_insert := i'; fl_prop := p'; fl_once := o'; fl_wrap := nm' || rv' |})
      | _, _, _, _, _, _, _ => None
      end
  | L [I 3; k; n; f] =>
      match dec_target k n, as_nat f with Some tg, Some f' => Some (Remove tg f') | _, _ => None end
  | L [I 4; k; n; f] =>
      match dec_target k n, as_nat f with Some tg, Some f' => Some (Contains tg f') | _, _ => None end
  | L [I 5; i] => option_map Dispatch (as_nat i)
  | _ => None
  end.

Definition enc_out (o : out) : tree :=
  match o with
  | OOk => L [I 0]
  | OCalls l => L [I 1; L (map of_nat l)]
  | OBool b => L [I 2; of_bool b]
  | OInvalidRequest => L [I 3]
  | OValueError => L [I 4]
  | OBadOp => L [I 5]
  | OFuel => L [I 6]
  | OUnreach => L [I 7]
  end.

(* ---- exec_once traces: [1; n threads; events] ---- *)
Definition dec_kind (z : Z) : option kind :=
  match z with 0 => Some KOnce | 1 => Some KUnless | 2 => Some KSync | _ => None end.
Definition dec_ev (t : tree) : option ev :=
  match t with
  | L [I 0; I i; I k] => option_map (ECall (Z.to_nat i)) (dec_kind k)
  | L [I 1; I i; I w; I b] => Some (ERead (Z.to_nat i) (negb (Z.eqb w 0)) (negb (Z.eqb b 0)))
  | L [I 2; I i] => Some (ELock (Z.to_nat i))
  | L [I 3; I i] => Some (EBegin (Z.to_nat i))
  | L [I 4; I i; I x] => Some (EEnd (Z.to_nat i) (negb (Z.eqb x 0)))
  | L [I 5; I i] => Some (EWrite (Z.to_nat i))
  | L [I 6; I i] => Some (EUnlock (Z.to_nat i))
  | _ => None
  end.
Fixpoint run_idx (st : xstate) (tr : list ev) (k : Z) : Z * xstate :=
  match tr with
  | [] => (-1, st)
  | e :: r => match stepf st e with Some st' => run_idx st' r (k + 1) | None => (k, st) end
  end.

(* ---- only_once traces: [2; retry; events] ---- *)
Definition dec_wev (t : tree) : option wev :=
  match t with
  | L [I 0; I c] => Some (WEnter (Z.to_nat c))
  | L [I 1; I c] => Some (WSkip (Z.to_nat c))
  | L [I 2; I c; I x] => Some (WExit (Z.to_nat c) (negb (Z.eqb x 0)))
  | _ => None
  end.
Fixpoint wrun_idx (retry : bool) (s : wstate) (tr : list wev) (k : Z) : Z * wstate :=
  match tr with
  | [] => (-1, s)
  | e :: r => match wstep retry s e with Some s' => wrun_idx retry s' r (k + 1) | None => (k, s) end
  end.

(* ---- propagation histories: [3; ops] ---- *)
Definition dec_pop (t : tree) : option pop :=
  match t with
  | L [I 0] => Some PNewInst
  | L [I 2; n; f; i; p; o; nm; rv] =>
      match as_nat n, as_nat f, as_bool i, as_bool p, as_bool o, as_bool nm, as_bool rv with
      | Some n', Some f', Some i', Some p', Some o', Some nm', Some rv' =>
          Some (PListen n' f' {| fl_insert := i'; fl_prop := p'; fl_once := o'; fl_wrap := nm' || rv' |})
      | _, _, _, _, _, _, _ => None
      end
  | L [I 3; n; f] => match as_nat n, as_nat f with Some n', Some f' => Some (PRemove n' f') | _, _ => None end
  | L [I 4; n; f] => match as_nat n, as_nat f with Some n', Some f' => Some (PContains n' f') | _, _ => None end
  | L [I 5; n] => option_map PDispatch (as_nat n)
  | L [I 6; j; i; p] =>
      match as_nat j, as_nat i, as_bool p with Some j', Some i', Some p' => Some (PUpdate j' i' p') | _, _, _ => None end
  | L [I 7; nf] => option_map PSnapshot (as_nat nf)
  | _ => None
  end.
Definition enc_pout (o : pout) : tree :=
  match o with
  | POut x => enc_out x
  | PMaps f r => L [I 6; L (map of_bool f); L (map of_bool r)]
  end.

Definition run_case (t : tree) : tree :=
  match t with
  | L [I 0; L ops] =>
      match all_some (map dec_op ops) with
      | Some os => L (map enc_out (snd (run init os)))
      | None => bad_input
      end
  | L [I 1; I n; L evs] =>
      match all_some (map dec_ev evs) with
      | Some tr =>
          let '(k, (s, _)) := run_idx (xinit (Z.to_nat n)) tr 0 in
          L [I k; of_bool (f_once s); of_bool (f_sync s); of_nat (n_run s); of_nat (n_run_sync s)]
      | None => bad_input
      end
  | L [I 2; I r; L evs] =>
      match all_some (map dec_wev evs) with
      | Some tr =>
          let '(k, s) := wrun_idx (negb (Z.eqb r 0)) winit tr 0 in
          L [I k; of_bool (w_armed s); of_nat (w_enter s)]
      | None => bad_input
      end
  | L [I 3; L ops] =>
      match all_some (map dec_pop ops) with
      | Some os => L (map enc_pout (snd (prun pinit os)))
      | None => bad_input
      end
  | _ => bad_input
  end.
