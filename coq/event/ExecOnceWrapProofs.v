(* C28: a once=True listener body is never entered twice (every interleaving of any number of
   contexts, re-entrant ones included) *)
From Coq Require Import List Arith Bool Lia.
Import ListNotations.
From SAV.event Require Import ExecOnceWrap.

Definition winv (retry : bool) (s : wstate) : Prop :=
  length (w_in s) <= 1 /\ (w_armed s = true -> w_in s = []) /\
  w_enter s = w_fail s + (if w_armed s then 0 else 1) /\ (retry = false -> w_fail s = 0).

Lemma winv_init : forall retry, winv retry winit.
Proof. intro. repeat split; cbn; auto. Qed.

Lemma wstep_inv : forall retry s e s', winv retry s -> wstep retry s e = Some s' -> winv retry s'.
Proof.
  intros retry s e s' (A & B & C & D) H. destruct e as [c|c|c exc]; cbn [wstep] in H.
  - destruct (w_armed s) eqn:Ea; cbn in H; [|discriminate]. destruct (negb (wmem c (w_in s))); [|discriminate].
    inversion H. subst s'. clear H. rewrite (B eq_refl).
    split; [cbn; lia|]. split; [cbn; discriminate|]. split; [cbn; lia|exact D].
  - destruct (w_armed s) eqn:Ea; [discriminate|]. inversion H. subst s'. clear H.
    split; [exact A|]. split; [rewrite Ea; discriminate|]. split; [rewrite Ea; exact C|exact D].
  - destruct (wmem c (w_in s)) eqn:Em; [|discriminate]. inversion H. subst s'. clear H.
    assert (F : filter (fun d => negb (Nat.eqb c d)) (w_in s) = []).
    { destruct (w_in s) as [|a [|b r]]; cbn in *; try discriminate; try lia.
      rewrite orb_false_r in Em. rewrite Em. reflexivity. }
    cbn. rewrite F. assert (Ea : w_armed s = false).
    { destruct (w_armed s) eqn:E; [|reflexivity]. rewrite (B eq_refl) in Em. discriminate. }
    rewrite Ea in *. destruct (exc && retry) eqn:X.
    + split; [cbn; lia|]. split; [reflexivity|]. split; [cbn; lia|].
      intro R. apply andb_true_iff in X. destruct X. congruence.
    + split; [cbn; lia|]. split; [discriminate|]. split; [cbn; lia|exact D].
Qed.

Lemma wrun_inv : forall retry tr s s', winv retry s -> wrun retry s tr = Some s' -> winv retry s'.
Proof.
  induction tr as [|e tr IH]; intros s s' I H; cbn in H; [inversion H; subst; exact I|].
  destruct (wstep retry s e) eqn:E; [|discriminate]. eapply IH; [eapply wstep_inv; eauto|exact H].
Qed.

(* bodies never overlap; the body is entered at most once plus once per re-armed failure; with
   once=True (no retry) at most once altogether *)
Theorem once_listener_at_most_once : forall retry s, wreach retry s ->
  length (w_in s) <= 1 /\ w_enter s <= 1 + w_fail s /\ (retry = false -> w_enter s <= 1).
Proof.
  intros retry s [tr H]. destruct (wrun_inv retry tr winit s (winv_init retry) H) as (A & B & C & D).
  split; [exact A|]. split; [destruct (w_armed s); lia|]. intro R. rewrite (D R) in C. destruct (w_armed s); lia.
Qed.
