(* C28 proofs, part 1: equality tests, list updates, util.walk_subclasses (fuel is always sufficient;
   for single-inheritance hierarchies the walk lists exactly the descendants, each once, every class
   after its base). *)
From Coq Require Import List Arith Bool Lia.
Import ListNotations.
From SAV.event Require Import Events.

(* ------------------------------------------------------------------ equality tests *)
Lemma ident_eqb_eq : forall a b, ident_eqb a b = true <-> a = b.
Proof.
  destruct a, b; cbn; split; intro H; try discriminate; try congruence.
  - apply Nat.eqb_eq in H. congruence.
  - inversion H. apply Nat.eqb_refl.
  - apply Nat.eqb_eq in H. congruence.
  - inversion H. apply Nat.eqb_refl.
Qed.
Lemma ident_eqb_refl : forall a, ident_eqb a a = true.
Proof. intro a. apply ident_eqb_eq. reflexivity. Qed.
Lemma ident_eqb_neq : forall a b, ident_eqb a b = false <-> a <> b.
Proof.
  intros a b. split.
  - intros H E. apply ident_eqb_eq in E. congruence.
  - intro H. destruct (ident_eqb a b) eqn:E; [apply ident_eqb_eq in E; contradiction|reflexivity].
Qed.
Lemma target_eqb_eq : forall a b, target_eqb a b = true <-> a = b.
Proof.
  destruct a, b; cbn; split; intro H; try discriminate; try congruence.
  - apply Nat.eqb_eq in H. congruence.
  - inversion H. apply Nat.eqb_refl.
  - apply Nat.eqb_eq in H. congruence.
  - inversion H. apply Nat.eqb_refl.
Qed.
Lemma key_eqb_eq : forall a b : key, key_eqb a b = true <-> a = b.
Proof.
  intros [t f] [t' f']. unfold key_eqb. cbn [fst snd]. rewrite andb_true_iff, target_eqb_eq, Nat.eqb_eq.
  split; [intros [-> ->]; reflexivity|intro H; inversion H; auto].
Qed.
Lemma key_eqb_refl : forall a, key_eqb a a = true.
Proof. intro a. apply key_eqb_eq. reflexivity. Qed.
Lemma key_eqb_sym : forall a b, key_eqb a b = key_eqb b a.
Proof.
  intros a b. destruct (key_eqb a b) eqn:E.
  - apply key_eqb_eq in E. subst. symmetry. apply key_eqb_refl.
  - destruct (key_eqb b a) eqn:E'; [|reflexivity]. apply key_eqb_eq in E'. subst.
    rewrite key_eqb_refl in E. discriminate.
Qed.

Lemma memn_In : forall x l, memn x l = true <-> In x l.
Proof.
  intros x l. unfold memn. rewrite existsb_exists. split.
  - intros [y [Hy E]]. apply Nat.eqb_eq in E. subst. exact Hy.
  - intro H. exists x. split; [exact H|apply Nat.eqb_refl].
Qed.
Lemma memn_false : forall x l, memn x l = false <-> ~ In x l.
Proof.
  intros x l. rewrite <- memn_In. destruct (memn x l); intuition congruence.
Qed.

(* ------------------------------------------------------------------ set_nth *)
Lemma set_nth_length : forall A (l : list A) n x, length (set_nth l n x) = length l.
Proof. induction l; destruct n; cbn; intros; auto. Qed.
Lemma nth_set_nth_eq : forall A (l : list A) n x d, n < length l -> nth n (set_nth l n x) d = x.
Proof. induction l; destruct n; cbn; intros; try lia; auto. apply IHl. lia. Qed.
Lemma nth_set_nth_neq : forall A (l : list A) n m x d, n <> m -> nth m (set_nth l n x) d = nth m l d.
Proof. induction l; destruct n, m; cbn; intros; try congruence; auto. Qed.
Lemma nth_error_set_nth_eq : forall A (l : list A) n x, n < length l -> nth_error (set_nth l n x) n = Some x.
Proof. induction l; destruct n; cbn; intros; try lia; auto. apply IHl. lia. Qed.
Lemma nth_error_set_nth_neq : forall A (l : list A) n m x, n <> m -> nth_error (set_nth l n x) m = nth_error l m.
Proof. induction l; destruct n, m; cbn; intros; try congruence; auto. Qed.
Lemma map_set_nth : forall A B (f : A -> B) (l : list A) n x,
  map f (set_nth l n x) = set_nth (map f l) n (f x).
Proof. induction l; destruct n; cbn; intros; auto. rewrite IHl. reflexivity. Qed.
Lemma set_nth_same : forall A (l : list A) n d, set_nth l n (nth n l d) = l \/ length l <= n.
Proof.
  induction l; destruct n; cbn; intros; auto; try (right; lia).
  destruct (IHl n d) as [H|H]; [left; rewrite H; reflexivity|right; lia].
Qed.
Lemma set_nth_id : forall A (l : list A) n x, nth_error l n = Some x -> set_nth l n x = l.
Proof.
  induction l; destruct n; cbn; intros; try discriminate.
  - inversion H. reflexivity.
  - rewrite IHl; auto.
Qed.

(* ------------------------------------------------------------------ class table access *)
Section Cls.
Variable cs : list cls_rec.

Lemma lvl_set_lvl_eq : forall c l, c < length cs -> lvl (set_lvl cs c l) c = Some l.
Proof. intros. unfold lvl, set_lvl, get_cls. rewrite nth_set_nth_eq; auto. Qed.
Lemma lvl_set_lvl_neq : forall c d l, c <> d -> lvl (set_lvl cs c l) d = lvl cs d.
Proof. intros. unfold lvl, set_lvl, get_cls. rewrite nth_set_nth_neq; auto. Qed.
Lemma set_lvl_length : forall c l, length (set_lvl cs c l) = length cs.
Proof. intros. unfold set_lvl. apply set_nth_length. Qed.
Lemma bases_set_lvl : forall c l d, c_bases (get_cls (set_lvl cs c l) d) = c_bases (get_cls cs d).
Proof.
  intros. unfold set_lvl, get_cls. destruct (Nat.eq_dec c d) as [->|N].
  - destruct (Nat.lt_ge_cases d (length cs)).
    + rewrite nth_set_nth_eq; auto.
    + rewrite !nth_overflow; auto. rewrite set_nth_length. lia.
  - rewrite nth_set_nth_neq; auto.
Qed.
Lemma mro_set_lvl : forall c l d, c_mro (get_cls (set_lvl cs c l) d) = c_mro (get_cls cs d).
Proof.
  intros. unfold set_lvl, get_cls. destruct (Nat.eq_dec c d) as [->|N].
  - destruct (Nat.lt_ge_cases d (length cs)).
    + rewrite nth_set_nth_eq; auto.
    + rewrite !nth_overflow; auto. rewrite set_nth_length. lia.
  - rewrite nth_set_nth_neq; auto.
Qed.
Lemma hier_set_lvl : forall c l,
  map (fun r => (c_bases r, c_mro r)) (set_lvl cs c l) = map (fun r => (c_bases r, c_mro r)) cs.
Proof.
  intros. unfold set_lvl. rewrite map_set_nth. cbn.
  destruct (Nat.lt_ge_cases c (length cs)).
  - apply set_nth_id. rewrite nth_error_map. unfold get_cls.
    rewrite (nth_error_nth' cs dflt_cls H). reflexivity.
  - clear -H. revert c H. induction cs; destruct c; cbn; intros; auto; try lia. rewrite IHl; auto. lia.
Qed.
End Cls.

Lemma subclasses_set_lvl : forall cs c l p, subclasses (set_lvl cs c l) p = subclasses cs p.
Proof.
  intros. unfold subclasses. rewrite set_lvl_length. apply filter_ext. intro d. rewrite bases_set_lvl. reflexivity.
Qed.

(* ------------------------------------------------------------------ fuel *)
Fixpoint sumf (g : nat -> nat) (l : list nat) : nat :=
  match l with [] => 0 | x :: r => g x + sumf g r end.
Definition weight (cs : list cls_rec) (seen : list nat) : nat :=
  sumf (fun c => if memn c seen then 0 else length (subclasses cs c)) (seq 0 (length cs)).

Lemma sumf_fold : forall g l, fold_right (fun x a => g x + a) 0 l = sumf g l.
Proof. induction l; cbn; auto. Qed.

Lemma memn_cons_neq : forall a c seen, a <> c -> memn a (c :: seen) = memn a seen.
Proof. intros. unfold memn. cbn. destruct (Nat.eqb_spec a c); [contradiction|reflexivity]. Qed.

Lemma sumf_mark_out : forall (g : nat -> nat) seen c l, ~ In c l ->
  sumf (fun x => if memn x (c :: seen) then 0 else g x) l = sumf (fun x => if memn x seen then 0 else g x) l.
Proof.
  induction l as [|a l IH]; intro H; cbn [sumf]; [reflexivity|].
  rewrite memn_cons_neq by (intro; subst; apply H; left; reflexivity).
  rewrite IH; [reflexivity|intro X; apply H; right; exact X].
Qed.

Lemma sumf_mark : forall (g : nat -> nat) seen c l, NoDup l -> In c l -> memn c seen = false ->
  sumf (fun x => if memn x (c :: seen) then 0 else g x) l + g c = sumf (fun x => if memn x seen then 0 else g x) l.
Proof.
  intros g seen c. induction l as [|a l IH]; intros ND Hin Hc; [destruct Hin|].
  inversion ND as [|? ? Ha ND']; subst. cbn [sumf].
  destruct Hin as [->|Hin].
  - rewrite sumf_mark_out by exact Ha. unfold memn at 1. cbn [existsb]. rewrite Nat.eqb_refl. cbn [orb].
    rewrite Hc. lia.
  - rewrite memn_cons_neq by (intro; subst; contradiction).
    specialize (IH ND' Hin Hc). lia.
Qed.

Lemma weight_cons : forall cs seen c, c < length cs -> memn c seen = false ->
  weight cs (c :: seen) + length (subclasses cs c) = weight cs seen.
Proof.
  intros. unfold weight. apply (sumf_mark (fun x => length (subclasses cs x))); auto.
  - apply seq_NoDup.
  - apply in_seq. lia.
Qed.

Lemma subclasses_lt : forall cs p d, In d (subclasses cs p) -> d < length cs.
Proof. intros cs p d H. unfold subclasses in H. apply filter_In in H. destruct H as [H _]. apply in_seq in H. lia. Qed.

Lemma walk_some : forall cs fuel stack seen,
  (forall c, In c stack -> c < length cs) -> length stack + weight cs seen < fuel ->
  exists w, walk cs fuel stack seen = Some w.
Proof.
  intros cs. induction fuel as [|f IH]; intros stack seen Hlt Hm; [lia|].
  destruct stack as [|c rest]; [exists []; reflexivity|].
  cbn [walk]. destruct (memn c seen) eqn:Hc.
  - apply IH; [intros; apply Hlt; right; auto|cbn in Hm; lia].
  - destruct (IH (rev (subclasses cs c) ++ rest) (c :: seen)) as [w Hw].
    + intros d Hd. apply in_app_or in Hd. destruct Hd as [Hd|Hd].
      * apply in_rev in Hd. eapply subclasses_lt; eauto.
      * apply Hlt. right. exact Hd.
    + rewrite app_length, rev_length. pose proof (weight_cons cs seen c (Hlt c (or_introl eq_refl)) Hc).
      cbn in Hm. lia.
    + rewrite Hw. eexists. reflexivity.
Qed.

Lemma walk_subclasses_some : forall cs t, t < length cs -> exists w, walk_subclasses cs t = Some w.
Proof.
  intros cs t H. unfold walk_subclasses, walk_fuel. apply walk_some.
  - intros c [<-|[]]. exact H.
  - cbn [length]. assert (E : weight cs [] = edges cs).
    { unfold weight, edges. rewrite sumf_fold. reflexivity. }
    rewrite E. lia.
Qed.

(* ------------------------------------------------------------------ generic facts about the walk *)
Lemma walk_props : forall cs fuel stack seen w, walk cs fuel stack seen = Some w ->
  NoDup w /\
  (forall d, In d w -> ~ In d seen) /\
  (forall s, In s stack -> In s seen \/ In s w) /\
  (forall d ch, In d w -> In ch (subclasses cs d) -> In ch seen \/ In ch w) /\
  (forall pre d post, w = pre ++ d :: post -> In d stack \/ exists p, In p pre /\ In d (subclasses cs p)).
Proof.
  intros cs. induction fuel as [|f IH]; intros stack seen w H.
  - destruct stack; [|discriminate]. inversion H. subst. repeat split; try constructor; intros; try contradiction.
    destruct pre; discriminate.
  - destruct stack as [|c rest].
    { inversion H. subst. repeat split; try constructor; intros; try contradiction. destruct pre; discriminate. }
    cbn [walk] in H. destruct (memn c seen) eqn:Hc.
    + destruct (IH _ _ _ H) as (A & B & C & D & E). repeat split; auto.
      * intros s [<-|Hs]; [left; apply memn_In; exact Hc|apply C; exact Hs].
      * intros pre d post Hw. destruct (E pre d post Hw) as [X|X]; [left; right; exact X|right; exact X].
    + destruct (walk cs f (rev (subclasses cs c) ++ rest) (c :: seen)) as [w'|] eqn:Hw'; [|discriminate].
      cbn in H. inversion H. subst w. clear H.
      destruct (IH _ _ _ Hw') as (A & B & C & D & E).
      apply memn_false in Hc.
      repeat split.
      * constructor; [|exact A]. intro X. apply (B c X). left. reflexivity.
      * intros d [<-|Hd]; [exact Hc|]. intro X. apply (B d Hd). right. exact X.
      * intros s [<-|Hs]; [right; left; reflexivity|].
        destruct (C s (in_or_app _ _ _ (or_intror Hs))) as [[<-|X]|X]; [right; left; reflexivity|left; exact X|right; right; exact X].
      * intros d ch [<-|Hd] Hch.
        -- destruct (C ch (in_or_app _ _ _ (or_introl (proj1 (in_rev _ _) Hch)))) as [[<-|X]|X];
             [right; left; reflexivity|left; exact X|right; right; exact X].
        -- destruct (D d ch Hd Hch) as [[<-|X]|X]; [right; left; reflexivity|left; exact X|right; right; exact X].
      * intros pre d post Hw. destruct pre as [|a pre].
        -- cbn in Hw. inversion Hw. left. left. reflexivity.
        -- cbn in Hw. inversion Hw. subst a.
           destruct (E pre d post H1) as [X|[p [Hp Hd]]].
           ++ apply in_app_or in X. destruct X as [X|X].
              ** right. exists c. split; [left; reflexivity|apply in_rev; exact X].
              ** left. right. exact X.
           ++ right. exists p. split; [right; exact Hp|exact Hd].
Qed.

(* ------------------------------------------------------------------ single-inheritance hierarchies *)
Definition mro (cs : list cls_rec) (c : nat) : list nat := c_mro (get_cls cs c).
Definition single (cs : list cls_rec) : Prop :=
  forall c, c < length cs ->
    (c_bases (get_cls cs c) = [] /\ mro cs c = []) \/
    (exists b, b < c /\ c_bases (get_cls cs c) = [b] /\ mro cs c = b :: mro cs b).
Definition desc (cs : list cls_rec) (t d : nat) : Prop := d = t \/ In t (mro cs d).

Section Single.
Variable cs : list cls_rec.
Hypothesis Hs : single cs.

Lemma mro_lt : forall c q, c < length cs -> In q (mro cs c) -> q < c.
Proof.
  induction c as [c IH] using lt_wf_ind. intros q Hc Hq.
  destruct (Hs c Hc) as [[_ E]|[b [Hb [_ E]]]]; rewrite E in Hq; [destruct Hq|].
  destruct Hq as [<-|Hq]; [exact Hb|]. assert (q < b) by (apply IH; auto; lia). lia.
Qed.

Lemma mro_suffix : forall c pre p rest, c < length cs -> mro cs c = pre ++ p :: rest -> rest = mro cs p.
Proof.
  induction c as [c IH] using lt_wf_ind. intros pre p rest Hc E.
  destruct (Hs c Hc) as [[_ E']|[b [Hb [_ E']]]]; rewrite E' in E.
  - destruct pre; discriminate.
  - destruct pre as [|a pre]; cbn in E; inversion E; subst.
    + reflexivity.
    + apply (IH a Hb pre p rest); [lia|assumption].
Qed.

Lemma mro_trans : forall c p q, c < length cs -> In p (mro cs c) -> In q (mro cs p) -> In q (mro cs c).
Proof.
  intros c p q Hc Hp Hq. destruct (in_split _ _ Hp) as [pre [rest E]].
  rewrite E. rewrite (mro_suffix c pre p rest Hc E). apply in_or_app. right. right. exact Hq.
Qed.

Lemma mro_comparable : forall c a b, c < length cs -> In a (c :: mro cs c) -> In b (c :: mro cs c) ->
  a = b \/ In a (mro cs b) \/ In b (mro cs a).
Proof.
  intros c a b Hc Ha Hb.
  destruct Ha as [<-|Ha], Hb as [<-|Hb]; auto.
  destruct (in_split _ _ Ha) as [pre [rest E]].
  pose proof (mro_suffix c pre a rest Hc E) as Er. rewrite E in Hb.
  apply in_app_or in Hb. destruct Hb as [Hb|[<-|Hb]]; auto.
  - (* b before a: a is an ancestor of b *)
    destruct (in_split _ _ Hb) as [pre' [rest' E']]. rewrite E' in E. rewrite <- app_assoc in E. cbn in E.
    pose proof (mro_suffix c pre' b (rest' ++ a :: rest) Hc E) as Er'.
    right. left. rewrite <- Er'. apply in_or_app. right. left. reflexivity.
  - right. right. rewrite <- Er. exact Hb.
Qed.

Lemma desc_lt : forall t d, d < length cs -> desc cs t d -> t <= d.
Proof. intros t d Hd [->|H]; [lia|]. pose proof (mro_lt d t Hd H). lia. Qed.

Lemma sub_parent : forall p d, In d (subclasses cs p) -> d < length cs /\ mro cs d = p :: mro cs p /\ p < d.
Proof.
  intros p d H. unfold subclasses in H. apply filter_In in H. destruct H as [H1 H2].
  apply in_seq in H1. assert (Hd : d < length cs) by lia. split; [exact Hd|].
  destruct (Hs d Hd) as [[E _]|[b [Hb [E E']]]]; rewrite E in H2; [discriminate|].
  apply memn_In in H2. destruct H2 as [<-|[]]. auto.
Qed.

Lemma parent_sub : forall p d, d < length cs -> mro cs d = p :: mro cs p -> In d (subclasses cs p).
Proof.
  intros p d Hd E. unfold subclasses. apply filter_In. split; [apply in_seq; lia|].
  destruct (Hs d Hd) as [[_ E']|[b [Hb [Eb E']]]]; rewrite E' in E; [discriminate|].
  inversion E. subst. rewrite Eb. apply memn_In. left. reflexivity.
Qed.

(* the walk from t *)
Lemma walk_single : forall t w, t < length cs -> walk_subclasses cs t = Some w ->
  NoDup w /\
  (forall d, In d w <-> d < length cs /\ desc cs t d) /\
  (forall pre d post, w = pre ++ d :: post -> d <> t -> exists p, In p pre /\ mro cs d = p :: mro cs p).
Proof.
  intros t w Ht Hw. unfold walk_subclasses in Hw.
  destruct (walk_props _ _ _ _ _ Hw) as (A & _ & C & D & E).
  assert (Ord : forall pre d post, w = pre ++ d :: post -> d <> t -> exists p, In p pre /\ mro cs d = p :: mro cs p).
  { intros pre d post Hpre Hne. destruct (E pre d post Hpre) as [[<-|[]]|[p [Hp Hd]]]; [congruence|].
    exists p. split; [exact Hp|]. apply sub_parent in Hd. tauto. }
  split; [exact A|]. split; [|exact Ord].
  intro d. split.
  - (* soundness: by induction on the position *)
    intro Hd. destruct (in_split _ _ Hd) as [pre [post Hpre]].
    assert (Aux : forall n pre d post, length pre < n -> w = pre ++ d :: post -> d < length cs /\ desc cs t d).
    { clear d pre post Hd Hpre. induction n as [|n IH]; intros pre d post Hn Hpre; [lia|].
      destruct (Nat.eq_dec d t) as [->|Hne]; [split; [exact Ht|left; reflexivity]|].
      destruct (E pre d post Hpre) as [[<-|[]]|[p [Hp Hdp]]]; [congruence|].
      destruct (in_split _ _ Hp) as [pre' [post' Hpre']].
      assert (Hw' : w = pre' ++ p :: (post' ++ d :: post)).
      { rewrite Hpre, Hpre'. rewrite <- app_assoc. reflexivity. }
      assert (Hl : length pre' < n) by (rewrite Hpre', app_length in Hn; cbn in Hn; lia).
      destruct (IH pre' p _ Hl Hw') as [Hpl Hpd].
      apply sub_parent in Hdp. destruct Hdp as (Hdl & Em & _). split; [exact Hdl|].
      right. rewrite Em. destruct Hpd as [->|Hpd]; [left; reflexivity|right; exact Hpd]. }
    exact (Aux (S (length pre)) pre d post (Nat.lt_succ_diag_r _) Hpre).
  - (* completeness: by induction on d *)
    intros [Hdl Hd]. revert Hdl Hd. induction d as [d IH] using lt_wf_ind. intros Hdl Hd.
    destruct Hd as [->|Hd].
    + destruct (C t (or_introl eq_refl)) as [[]|X]. exact X.
    + destruct (Hs d Hdl) as [[_ Em]|[b [Hb [_ Em]]]]; rewrite Em in Hd; [destruct Hd|].
      assert (Hbw : In b w).
      { apply IH; [exact Hb|lia|]. destruct Hd as [->|Hd]; [left; reflexivity|right; exact Hd]. }
      destruct (D b d Hbw (parent_sub b d Hdl Em)) as [[]|X]. exact X.
Qed.

End Single.
