(* C28 (concurrency part): invariants of the exec_once interleaving model, for every schedule of any
   number of threads. *)
From Coq Require Import List Arith Bool Lia.
Import ListNotations.
From SAV.event Require Import ExecOnce.

(* ------------------------------------------------------------------ thread-table updates *)
Lemma nth_upd_eq : forall ts i p q, nth_error ts i = Some q -> nth_error (upd ts i p) i = Some p.
Proof. induction ts; destruct i; cbn; intros; try discriminate; eauto. Qed.
Lemma nth_upd_neq : forall ts i j p, i <> j -> nth_error (upd ts i p) j = nth_error ts j.
Proof. induction ts; destruct i, j; cbn; intros; try congruence; auto. Qed.
Lemma upd_length : forall ts i p, length (upd ts i p) = length ts.
Proof. induction ts; destruct i; cbn; intros; auto. Qed.

(* ------------------------------------------------------------------ classification of program counters *)
Definition unsync (p : pc) : bool := match p with PCall _ false | PIn _ false => true | _ => false end.
(* a once-kind thread between the second check and the flag write *)
Definition crit (p : pc) : bool :=
  match p with
  | PCall k true | PIn k true => negb (is_sync k)
  | PFin k _ => negb (is_sync k)
  | _ => false
  end.
Definition late (p : pc) : bool :=
  match p with PFin k _ | PRel k => negb (is_sync k) | _ => false end.
Definition wfpc (p : pc) : bool :=
  match p with PCall k false | PIn k false => is_sync k | _ => true end.

Definition owner_pc (s : xshared) (ts : list pc) : option pc :=
  match mutex s with Some i => nth_error ts i | None => None end.
(* 1 when a once-kind thread is inside the listeners *)
Definition in_run (s : xshared) (ts : list pc) : nat :=
  match owner_pc s ts with Some (PIn k true) => if is_sync k then 0 else 1 | _ => 0 end.
(* 1 when a once-kind thread has finished the listeners and is about to set the flag *)
Definition pend (s : xshared) (ts : list pc) : nat :=
  match owner_pc s ts with
  | Some (PFin k exc) => if is_sync k then 0 else if due k exc then 1 else 0
  | _ => 0
  end.

Record XInv (s : xshared) (ts : list pc) : Prop := {
  x_own : forall i, mutex s = Some i -> exists p, nth_error ts i = Some p /\ holds p = true;
  x_excl : forall i p, nth_error ts i = Some p -> holds p = true -> mutex s = Some i;
  x_wf : forall i p, nth_error ts i = Some p -> wfpc p = true;
  x_sync : f_sync s = false -> forall i p, nth_error ts i = Some p -> unsync p = false;
  x_flag : forall i p, nth_error ts i = Some p -> crit p = true -> f_once s = false;
  x_run : n_run s = n_succ s + n_fail_o s + n_fail_u s + in_run s ts;
  x_set0 : f_once s = false -> n_succ s + n_fail_o s = pend s ts;
  x_set1 : f_once s = true -> n_succ s + n_fail_o s = 1;
  x_done : (n_done s >= 1 \/ exists i p, nth_error ts i = Some p /\ late p = true) -> n_run s >= 1 }.

Lemma crit_holds : forall p, crit p = true -> holds p = true.
Proof. destruct p as [|k|k|k|k [|]|k [|]|k e|k]; cbn; intros; try discriminate; reflexivity. Qed.

Lemma xinit_inv : forall n, XInv (fst (xinit n)) (snd (xinit n)).
Proof.
  intro n. assert (R : forall i p, nth_error (repeat Idle n) i = Some p -> p = Idle).
  { intros i p H. apply nth_error_In in H. apply repeat_spec in H. exact H. }
  constructor; cbn [xinit fst snd f_once f_sync mutex n_run n_run_sync n_succ n_fail_o n_fail_u n_done].
  - intros i H. discriminate.
  - intros i p H Hh. rewrite (R i p H) in Hh. discriminate.
  - intros i p H. rewrite (R i p H). reflexivity.
  - intros _ i p H. rewrite (R i p H). reflexivity.
  - intros i p H Hc. rewrite (R i p H) in Hc. discriminate.
  - reflexivity.
  - reflexivity.
  - discriminate.
  - intros [H|[i [p [H Hl]]]]; [lia|]. rewrite (R i p H) in Hl. discriminate.
Qed.

(* owner-based counters after a step of a thread that is not / is the owner *)
Lemma owner_other : forall s s' ts i p, mutex s' = mutex s -> (forall j, mutex s = Some j -> j <> i) ->
  owner_pc s' (upd ts i p) = owner_pc s ts.
Proof.
  intros s s' ts i p Hm Hn. unfold owner_pc. rewrite Hm. destruct (mutex s) as [j|] eqn:E; [|reflexivity].
  apply nth_upd_neq. intro X. apply (Hn j eq_refl). auto.
Qed.
Lemma owner_self : forall s' ts i p q, mutex s' = Some i -> nth_error ts i = Some q ->
  owner_pc s' (upd ts i p) = Some p.
Proof. intros. unfold owner_pc. rewrite H. eapply nth_upd_eq; eauto. Qed.

Ltac inv_step :=
  match goal with
  | H : Some _ = Some _ |- _ => inversion H; subst; clear H
  | H : None = Some _ |- _ => discriminate H
  end.

(* case analysis on "thread j of the updated table" *)
Ltac split_j i j H :=
  destruct (Nat.eq_dec i j) as [<-|?];
  [erewrite nth_upd_eq in H by eassumption; inversion H; subst; clear H
  |rewrite nth_upd_neq in H by assumption].

Lemma not_owner_idle : forall s ts i p, XInv s ts -> nth_error ts i = Some p -> holds p = false ->
  forall j, mutex s = Some j -> j <> i.
Proof.
  intros s ts i p I Hi Hh j Hj E. subst j. destruct (x_own _ _ I i Hj) as [q [Hq Hq']]. congruence.
Qed.

Lemma step_inv : forall s ts e s' ts', XInv s ts -> stepf (s, ts) e = Some (s', ts') -> XInv s' ts'.
Proof.
  intros s ts e s' ts' I H. unfold stepf in H. destruct e as [i k|i w b|i|i|i exc|i|i].
  - (* ECall *)
    destruct (nth_error ts i) as [[| | | | | | |]|] eqn:Ei; try discriminate. inv_step.
    pose proof (not_owner_idle s' ts i Idle I Ei eq_refl) as NO.
    assert (OW : owner_pc s' (upd ts i (PRead k)) = owner_pc s' ts) by (apply owner_other; auto).
    constructor.
    + intros j Hj. destruct (x_own _ _ I j Hj) as [p [Hp Hh]]. exists p. split; [|exact Hh].
      rewrite nth_upd_neq; [exact Hp|]. intro; subst. apply (NO j Hj eq_refl).
    + intros j p Hp Hh. split_j i j Hp; [discriminate|]. eapply x_excl; eauto.
    + intros j p Hp. split_j i j Hp; [reflexivity|]. eapply x_wf; eauto.
    + intros Hs j p Hp. split_j i j Hp; [reflexivity|]. eapply x_sync; eauto.
    + intros j p Hp Hc. split_j i j Hp; [discriminate|]. eapply x_flag; eauto.
    + unfold in_run. rewrite OW. apply (x_run _ _ I).
    + unfold pend. rewrite OW. apply (x_set0 _ _ I).
    + apply (x_set1 _ _ I).
    + intros [Hd|[j [p [Hp Hl]]]]; apply (x_done _ _ I); [left; exact Hd|].
      split_j i j Hp; [discriminate|]. right. exists j, p. auto.
  - (* ERead *)
    destruct (nth_error ts i) as [[|k|k|k|k h|k h|k e|k]|] eqn:Ei; try discriminate.
    + (* outer read *)
      destruct (Bool.eqb w (is_sync k) && Bool.eqb b (if is_sync k then f_sync s else f_once s)) eqn:C; [|discriminate].
      apply andb_true_iff in C. destruct C as [_ C]. apply eqb_prop in C.
      pose proof (not_owner_idle s ts i (PRead k) I Ei eq_refl) as NO.
      destruct b.
      * destruct (is_sync k) eqn:Ek; inv_step.
        -- (* unsynchronised run of _exec_w_sync_on_first_run *)
           assert (OW : owner_pc s' (upd ts i (PCall k false)) = owner_pc s' ts) by (apply owner_other; auto).
           constructor.
           ++ intros j Hj. destruct (x_own _ _ I j Hj) as [p [Hp Hh]]. exists p. split; [|exact Hh].
              rewrite nth_upd_neq; [exact Hp|]. intro; subst. apply (NO j Hj eq_refl).
           ++ intros j p Hp Hh. split_j i j Hp; [discriminate|]. eapply x_excl; eauto.
           ++ intros j p Hp. split_j i j Hp; [exact Ek|]. eapply x_wf; eauto.
           ++ intros Hs. congruence.
           ++ intros j p Hp Hc. split_j i j Hp; [discriminate|]. eapply x_flag; eauto.
           ++ unfold in_run. rewrite OW. apply (x_run _ _ I).
           ++ unfold pend. rewrite OW. apply (x_set0 _ _ I).
           ++ apply (x_set1 _ _ I).
           ++ intros [Hd|[j [p [Hp Hl]]]]; apply (x_done _ _ I); [left; exact Hd|].
              split_j i j Hp; [discriminate|]. right. exists j, p. auto.
        -- (* exec_once: already executed *)
           assert (OW : owner_pc (bump_done k s) (upd ts i Idle) = owner_pc s ts) by (apply owner_other; auto).
           assert (R1 : n_run s >= 1).
           { pose proof (x_set1 _ _ I (eq_sym C)). pose proof (x_run _ _ I). lia. }
           constructor; cbn [bump_done f_once f_sync mutex n_run n_run_sync n_succ n_fail_o n_fail_u n_done].
           ++ intros j Hj. destruct (x_own _ _ I j Hj) as [p [Hp Hh]]. exists p. split; [|exact Hh].
              rewrite nth_upd_neq; [exact Hp|]. intro; subst. apply (NO j Hj eq_refl).
           ++ intros j p Hp Hh. split_j i j Hp; [discriminate|]. eapply x_excl; eauto.
           ++ intros j p Hp. split_j i j Hp; [reflexivity|]. eapply x_wf; eauto.
           ++ intros Hs j p Hp. split_j i j Hp; [reflexivity|]. eapply x_sync; eauto.
           ++ intros j p Hp Hc. split_j i j Hp; [discriminate|]. eapply x_flag; eauto.
           ++ unfold in_run. rewrite OW. apply (x_run _ _ I).
           ++ unfold pend. rewrite OW. apply (x_set0 _ _ I).
           ++ apply (x_set1 _ _ I).
           ++ intros _. exact R1.
      * inv_step.
        assert (OW : owner_pc s' (upd ts i (PLock k)) = owner_pc s' ts) by (apply owner_other; auto).
        constructor.
        -- intros j Hj. destruct (x_own _ _ I j Hj) as [p [Hp Hh]]. exists p. split; [|exact Hh].
           rewrite nth_upd_neq; [exact Hp|]. intro; subst. apply (NO j Hj eq_refl).
        -- intros j p Hp Hh. split_j i j Hp; [discriminate|]. eapply x_excl; eauto.
        -- intros j p Hp. split_j i j Hp; [reflexivity|]. eapply x_wf; eauto.
        -- intros Hs j p Hp. split_j i j Hp; [reflexivity|]. eapply x_sync; eauto.
        -- intros j p Hp Hc. split_j i j Hp; [discriminate|]. eapply x_flag; eauto.
        -- unfold in_run. rewrite OW. apply (x_run _ _ I).
        -- unfold pend. rewrite OW. apply (x_set0 _ _ I).
        -- apply (x_set1 _ _ I).
        -- intros [Hd|[j [p [Hp Hl]]]]; apply (x_done _ _ I); [left; exact Hd|].
           split_j i j Hp; [discriminate|]. right. exists j, p. auto.
    + (* second read, inside the mutex *)
      destruct (negb w && Bool.eqb b (f_once s)) eqn:C; [|discriminate].
      apply andb_true_iff in C. destruct C as [_ C]. apply eqb_prop in C.
      pose proof (x_excl _ _ I i (PRead2 k) Ei eq_refl) as Om.
      destruct b; inv_step.
      * (* already executed: release *)
        assert (OW : owner_pc s' (upd ts i (PRel k)) = Some (PRel k)) by (eapply owner_self; eauto).
        assert (OW0 : owner_pc s' ts = Some (PRead2 k)) by (unfold owner_pc; rewrite Om; exact Ei).
        assert (R1 : n_run s' >= 1).
        { pose proof (x_set1 _ _ I (eq_sym C)). pose proof (x_run _ _ I). lia. }
        constructor.
        -- intros j Hj. rewrite Om in Hj. inversion Hj. subst j. exists (PRel k). split; [eapply nth_upd_eq; eauto|reflexivity].
        -- intros j p Hp Hh. split_j i j Hp; [exact Om|]. eapply x_excl; eauto.
        -- intros j p Hp. split_j i j Hp; [reflexivity|]. eapply x_wf; eauto.
        -- intros Hs j p Hp. split_j i j Hp; [reflexivity|]. eapply x_sync; eauto.
        -- intros j p Hp Hc. split_j i j Hp; [discriminate|]. eapply x_flag; eauto.
        -- pose proof (x_run _ _ I) as X. unfold in_run in *. rewrite OW. rewrite OW0 in X. exact X.
        -- intros Hf. congruence.
        -- apply (x_set1 _ _ I).
        -- intros _. exact R1.
      * (* not executed: call the listeners *)
        assert (OW : owner_pc s' (upd ts i (PCall k true)) = Some (PCall k true)) by (eapply owner_self; eauto).
        assert (OW0 : owner_pc s' ts = Some (PRead2 k)) by (unfold owner_pc; rewrite Om; exact Ei).
        constructor.
        -- intros j Hj. rewrite Om in Hj. inversion Hj. subst j. exists (PCall k true). split; [eapply nth_upd_eq; eauto|reflexivity].
        -- intros j p Hp Hh. split_j i j Hp; [exact Om|]. eapply x_excl; eauto.
        -- intros j p Hp. split_j i j Hp; [reflexivity|]. eapply x_wf; eauto.
        -- intros Hs j p Hp. split_j i j Hp; [reflexivity|]. eapply x_sync; eauto.
        -- intros j p Hp Hc. auto.
        -- pose proof (x_run _ _ I) as X. unfold in_run in *. rewrite OW. rewrite OW0 in X. exact X.
        -- intros Hf. pose proof (x_set0 _ _ I Hf) as X. unfold pend in *. rewrite OW. rewrite OW0 in X. exact X.
        -- apply (x_set1 _ _ I).
        -- intros [Hd|[j [p [Hp Hl]]]]; apply (x_done _ _ I); [left; exact Hd|].
           split_j i j Hp; [discriminate|]. right. exists j, p. auto.
  - (* ELock *)
    destruct (nth_error ts i) as [[|k|k|k|k h|k h|k e|k]|] eqn:Ei; try discriminate.
    destruct (mutex s) as [o|] eqn:Em; [discriminate|]. inv_step.
    set (p' := if is_sync k then PCall k true else PRead2 k).
    assert (Hp' : holds p' = true) by (unfold p'; destruct (is_sync k); reflexivity).
    assert (NoHold : forall j p, nth_error ts j = Some p -> holds p = false).
    { intros j p Hp. destruct (holds p) eqn:E; [|reflexivity]. pose proof (x_excl _ _ I j p Hp E). congruence. }
    assert (OW : owner_pc (set_sh s (f_once s) (f_sync s) (Some i)) (upd ts i p') = Some p') by (eapply owner_self; eauto; reflexivity).
    assert (Z1 : in_run s ts = 0) by (unfold in_run, owner_pc; rewrite Em; reflexivity).
    assert (Z2 : pend s ts = 0) by (unfold pend, owner_pc; rewrite Em; reflexivity).
    constructor; cbn [set_sh f_once f_sync mutex n_run n_run_sync n_succ n_fail_o n_fail_u n_done].
    + intros j Hj. inversion Hj. subst j. exists p'. split; [eapply nth_upd_eq; eauto|exact Hp'].
    + intros j p Hp Hh. split_j i j Hp; [reflexivity|]. rewrite (NoHold j p Hp) in Hh. discriminate.
    + intros j p Hp. split_j i j Hp; [unfold p'; destruct (is_sync k); reflexivity|]. eapply x_wf; eauto.
    + intros Hs j p Hp. split_j i j Hp; [unfold p'; destruct (is_sync k); reflexivity|]. eapply x_sync; eauto.
    + intros j p Hp Hc. split_j i j Hp.
      * unfold p' in Hc. destruct (is_sync k) eqn:Ek; cbn in Hc; [rewrite Ek in Hc|]; discriminate.
      * eapply x_flag; eauto.
    + pose proof (x_run _ _ I) as X. unfold in_run at 1. rewrite OW.
      unfold p'. destruct (is_sync k); cbn; lia.
    + intros Hf. pose proof (x_set0 _ _ I Hf) as X. unfold pend at 1. rewrite OW.
      unfold p'. destruct (is_sync k); cbn; lia.
    + apply (x_set1 _ _ I).
    + intros [Hd|[j [p [Hp Hl]]]]; apply (x_done _ _ I); [left; exact Hd|].
      split_j i j Hp; [unfold p' in Hl; destruct (is_sync k); discriminate|]. right. exists j, p. auto.
  - (* EBegin *)
    destruct (nth_error ts i) as [[|k|k|k|k h|k h|k e|k]|] eqn:Ei; try discriminate. inv_step.
    destruct h.
    + (* synchronised *)
      pose proof (x_excl _ _ I i (PCall k true) Ei eq_refl) as Om.
      assert (OW : owner_pc (bump_run k s) (upd ts i (PIn k true)) = Some (PIn k true)) by (eapply owner_self; eauto).
      assert (OW0 : owner_pc s ts = Some (PCall k true)) by (unfold owner_pc; rewrite Om; exact Ei).
      constructor; cbn [bump_run f_once f_sync mutex n_run n_run_sync n_succ n_fail_o n_fail_u n_done].
      * intros j Hj. rewrite Om in Hj. inversion Hj. subst j. exists (PIn k true). split; [eapply nth_upd_eq; eauto|reflexivity].
      * intros j p Hp Hh. split_j i j Hp; [exact Om|]. eapply x_excl; eauto.
      * intros j p Hp. split_j i j Hp; [reflexivity|]. eapply x_wf; eauto.
      * intros Hs j p Hp. split_j i j Hp; [reflexivity|]. eapply x_sync; eauto.
      * intros j p Hp Hc. split_j i j Hp; [apply (x_flag _ _ I i (PCall k true) Ei); exact Hc|]. eapply x_flag; eauto.
      * pose proof (x_run _ _ I) as X. unfold in_run in *. rewrite OW. rewrite OW0 in X.
        destruct (is_sync k); lia.
      * intros Hf. pose proof (x_set0 _ _ I Hf) as X. unfold pend in *. rewrite OW. rewrite OW0 in X. exact X.
      * apply (x_set1 _ _ I).
      * intros Hd. destruct (is_sync k) eqn:Ek; [|lia]. apply (x_done _ _ I).
        destruct Hd as [Hd|[j [p [Hp Hl]]]]; [left; exact Hd|].
        split_j i j Hp; [discriminate|]. right. exists j, p. auto.
    + (* unsynchronised (flag _exec_w_sync_once already set) *)
      pose proof (x_wf _ _ I i (PCall k false) Ei) as Ek. cbn in Ek.
      pose proof (not_owner_idle s ts i (PCall k false) I Ei eq_refl) as NO.
      assert (OW : owner_pc (bump_run k s) (upd ts i (PIn k false)) = owner_pc s ts) by (apply owner_other; auto).
      constructor; cbn [bump_run f_once f_sync mutex n_run n_run_sync n_succ n_fail_o n_fail_u n_done].
      * intros j Hj. destruct (x_own _ _ I j Hj) as [p [Hp Hh]]. exists p. split; [|exact Hh].
        rewrite nth_upd_neq; [exact Hp|]. intro; subst. apply (NO j Hj eq_refl).
      * intros j p Hp Hh. split_j i j Hp; [discriminate|]. eapply x_excl; eauto.
      * intros j p Hp. split_j i j Hp; [exact Ek|]. eapply x_wf; eauto.
      * intros Hs j p Hp. pose proof (x_sync _ _ I Hs i _ Ei) as X. discriminate.
      * intros j p Hp Hc. split_j i j Hp; [discriminate|]. eapply x_flag; eauto.
      * rewrite Ek. unfold in_run. rewrite OW. apply (x_run _ _ I).
      * unfold pend. rewrite OW. apply (x_set0 _ _ I).
      * apply (x_set1 _ _ I).
      * rewrite Ek. intros [Hd|[j [p [Hp Hl]]]]; apply (x_done _ _ I); [left; exact Hd|].
        split_j i j Hp; [discriminate|]. right. exists j, p. auto.
  - (* EEnd *)
    destruct (nth_error ts i) as [[|k|k|k|k h|k h|k e|k]|] eqn:Ei; try discriminate.
    destruct h; inv_step.
    + pose proof (x_excl _ _ I i (PIn k true) Ei eq_refl) as Om.
      assert (OW : owner_pc (bump_end k exc s) (upd ts i (PFin k exc)) = Some (PFin k exc)) by (eapply owner_self; eauto).
      assert (OW0 : owner_pc s ts = Some (PIn k true)) by (unfold owner_pc; rewrite Om; exact Ei).
      pose proof (x_run _ _ I) as XR. unfold in_run in XR. rewrite OW0 in XR.
      constructor; cbn [bump_end f_once f_sync mutex n_run n_run_sync n_succ n_fail_o n_fail_u n_done].
      * intros j Hj. rewrite Om in Hj. inversion Hj. subst j. exists (PFin k exc). split; [eapply nth_upd_eq; eauto|reflexivity].
      * intros j p Hp Hh. split_j i j Hp; [exact Om|]. eapply x_excl; eauto.
      * intros j p Hp. split_j i j Hp; [reflexivity|]. eapply x_wf; eauto.
      * intros Hs j p Hp. split_j i j Hp; [reflexivity|]. eapply x_sync; eauto.
      * intros j p Hp Hc. split_j i j Hp; [apply (x_flag _ _ I i (PIn k true) Ei); exact Hc|]. eapply x_flag; eauto.
      * unfold in_run. rewrite OW. destruct k, exc; cbn in *; lia.
      * intros Hf. pose proof (x_set0 _ _ I Hf) as X. unfold pend in *. rewrite OW. rewrite OW0 in X.
        destruct k, exc; cbn in *; lia.
      * intros Hf. destruct (is_sync k) eqn:Ek.
        -- pose proof (x_set1 _ _ I Hf). destruct k, exc; cbn in *; try discriminate; lia.
        -- assert (f_once s = false) by (apply (x_flag _ _ I i (PIn k true) Ei); cbn; rewrite Ek; reflexivity). congruence.
      * intros Hd. destruct (is_sync k) eqn:Ek; [|lia]. apply (x_done _ _ I).
        destruct Hd as [Hd|[j [p [Hp Hl]]]]; [left; exact Hd|].
        split_j i j Hp; [cbn in Hl; rewrite Ek in Hl; discriminate|]. right. exists j, p. auto.
    + pose proof (not_owner_idle s' ts i (PIn k false) I Ei eq_refl) as NO.
      assert (OW : owner_pc s' (upd ts i Idle) = owner_pc s' ts) by (apply owner_other; auto).
      constructor.
      * intros j Hj. destruct (x_own _ _ I j Hj) as [p [Hp Hh]]. exists p. split; [|exact Hh].
        rewrite nth_upd_neq; [exact Hp|]. intro; subst. apply (NO j Hj eq_refl).
      * intros j p Hp Hh. split_j i j Hp; [discriminate|]. eapply x_excl; eauto.
      * intros j p Hp. split_j i j Hp; [reflexivity|]. eapply x_wf; eauto.
      * intros Hs j p Hp. split_j i j Hp; [reflexivity|]. eapply x_sync; eauto.
      * intros j p Hp Hc. split_j i j Hp; [discriminate|]. eapply x_flag; eauto.
      * unfold in_run. rewrite OW. apply (x_run _ _ I).
      * unfold pend. rewrite OW. apply (x_set0 _ _ I).
      * apply (x_set1 _ _ I).
      * intros [Hd|[j [p [Hp Hl]]]]; apply (x_done _ _ I); [left; exact Hd|].
        split_j i j Hp; [discriminate|]. right. exists j, p. auto.
  - (* EWrite *)
    destruct (nth_error ts i) as [[|k|k|k|k h|k h|k e|k]|] eqn:Ei; try discriminate.
    destruct (due k e) eqn:Ed; [|discriminate]. inv_step.
    pose proof (x_excl _ _ I i (PFin k e) Ei eq_refl) as Om.
    assert (OW0 : owner_pc s ts = Some (PFin k e)) by (unfold owner_pc; rewrite Om; exact Ei).
    assert (RL : n_run s >= 1 \/ is_sync k = true).
    { destruct (is_sync k) eqn:Ek; [right; reflexivity|left]. apply (x_done _ _ I). right. exists i, (PFin k e).
      split; [exact Ei|cbn; rewrite Ek; reflexivity]. }
    destruct (is_sync k) eqn:Ek.
    + assert (OW : owner_pc (set_sh s (f_once s) true (mutex s)) (upd ts i (PRel k)) = Some (PRel k)) by (eapply owner_self; eauto).
      constructor; cbn [set_sh f_once f_sync mutex n_run n_run_sync n_succ n_fail_o n_fail_u n_done].
      * intros j Hj. rewrite Om in Hj. inversion Hj. subst j. exists (PRel k). split; [eapply nth_upd_eq; eauto|reflexivity].
      * intros j p Hp Hh. split_j i j Hp; [exact Om|]. eapply x_excl; eauto.
      * intros j p Hp. split_j i j Hp; [reflexivity|]. eapply x_wf; eauto.
      * intros Hs. discriminate.
      * intros j p Hp Hc. split_j i j Hp; [discriminate|]. eapply x_flag; eauto.
      * pose proof (x_run _ _ I) as X. unfold in_run in *. rewrite OW. rewrite OW0 in X. exact X.
      * intros Hf. pose proof (x_set0 _ _ I Hf) as X. unfold pend in *. rewrite OW. rewrite OW0, Ek in X. exact X.
      * apply (x_set1 _ _ I).
      * intros [Hd|[j [p [Hp Hl]]]]; apply (x_done _ _ I); [left; exact Hd|].
        split_j i j Hp; [cbn in Hl; rewrite Ek in Hl; discriminate|]. right. exists j, p. auto.
    + assert (OW : owner_pc (set_sh s true (f_sync s) (mutex s)) (upd ts i (PRel k)) = Some (PRel k)) by (eapply owner_self; eauto).
      assert (F0 : f_once s = false) by (apply (x_flag _ _ I i (PFin k e) Ei); cbn; rewrite Ek; reflexivity).
      pose proof (x_set0 _ _ I F0) as S0. unfold pend in S0. rewrite OW0, Ek, Ed in S0.
      constructor; cbn [set_sh f_once f_sync mutex n_run n_run_sync n_succ n_fail_o n_fail_u n_done].
      * intros j Hj. rewrite Om in Hj. inversion Hj. subst j. exists (PRel k). split; [eapply nth_upd_eq; eauto|reflexivity].
      * intros j p Hp Hh. split_j i j Hp; [exact Om|]. eapply x_excl; eauto.
      * intros j p Hp. split_j i j Hp; [reflexivity|]. eapply x_wf; eauto.
      * intros Hs j p Hp. split_j i j Hp; [reflexivity|]. eapply x_sync; eauto.
      * intros j p Hp Hc. split_j i j Hp; [discriminate|].
        pose proof (x_excl _ _ I j p Hp (crit_holds p Hc)). congruence.
      * pose proof (x_run _ _ I) as X. unfold in_run in *. rewrite OW. rewrite OW0 in X. exact X.
      * intros Hf. discriminate.
      * intros _. exact S0.
      * intros _. destruct RL as [R|R]; [exact R|discriminate].
  - (* EUnlock *)
    destruct (nth_error ts i) as [[|k|k|k|k h|k h|k e|k]|] eqn:Ei; try discriminate.
    + (* after the listeners, nothing to write *)
      destruct (due k e) eqn:Ed; [discriminate|]. inv_step.
      pose proof (x_excl _ _ I i (PFin k e) Ei eq_refl) as Om.
      assert (OW0 : owner_pc s ts = Some (PFin k e)) by (unfold owner_pc; rewrite Om; exact Ei).
      assert (RL : is_sync k = false -> n_run s >= 1).
      { intro Ek. apply (x_done _ _ I). right. exists i, (PFin k e). split; [exact Ei|cbn; rewrite Ek; reflexivity]. }
      constructor; cbn [bump_done set_sh f_once f_sync mutex n_run n_run_sync n_succ n_fail_o n_fail_u n_done].
      * intros j Hj. discriminate.
      * intros j p Hp Hh. split_j i j Hp; [discriminate|]. pose proof (x_excl _ _ I j p Hp Hh). congruence.
      * intros j p Hp. split_j i j Hp; [reflexivity|]. eapply x_wf; eauto.
      * intros Hs j p Hp. split_j i j Hp; [reflexivity|]. eapply x_sync; eauto.
      * intros j p Hp Hc. split_j i j Hp; [discriminate|]. eapply x_flag; eauto.
      * pose proof (x_run _ _ I) as X. unfold in_run, owner_pc in *. cbn [mutex]. rewrite Om, Ei in X. exact X.
      * intros Hf. pose proof (x_set0 _ _ I Hf) as X. unfold pend, owner_pc in *. cbn [mutex]. rewrite Om, Ei, Ed in X.
        destruct (is_sync k); exact X.
      * apply (x_set1 _ _ I).
      * intros Hd. destruct (is_sync k) eqn:Ek; [|apply RL; reflexivity]. apply (x_done _ _ I).
        destruct Hd as [Hd|[j [p [Hp Hl]]]]; [left; exact Hd|].
        split_j i j Hp; [discriminate|]. right. exists j, p. auto.
    + inv_step.
      pose proof (x_excl _ _ I i (PRel k) Ei eq_refl) as Om.
      assert (RL : is_sync k = false -> n_run s >= 1).
      { intro Ek. apply (x_done _ _ I). right. exists i, (PRel k). split; [exact Ei|cbn; rewrite Ek; reflexivity]. }
      constructor; cbn [bump_done set_sh f_once f_sync mutex n_run n_run_sync n_succ n_fail_o n_fail_u n_done].
      * intros j Hj. discriminate.
      * intros j p Hp Hh. split_j i j Hp; [discriminate|]. pose proof (x_excl _ _ I j p Hp Hh). congruence.
      * intros j p Hp. split_j i j Hp; [reflexivity|]. eapply x_wf; eauto.
      * intros Hs j p Hp. split_j i j Hp; [reflexivity|]. eapply x_sync; eauto.
      * intros j p Hp Hc. split_j i j Hp; [discriminate|]. eapply x_flag; eauto.
      * pose proof (x_run _ _ I) as X. unfold in_run, owner_pc in *. cbn [mutex]. rewrite Om, Ei in X. exact X.
      * intros Hf. pose proof (x_set0 _ _ I Hf) as X. unfold pend, owner_pc in *. cbn [mutex]. rewrite Om, Ei in X. exact X.
      * apply (x_set1 _ _ I).
      * intros Hd. destruct (is_sync k) eqn:Ek; [|apply RL; reflexivity]. apply (x_done _ _ I).
        destruct Hd as [Hd|[j [p [Hp Hl]]]]; [left; exact Hd|].
        split_j i j Hp; [discriminate|]. right. exists j, p. auto.
Qed.

(* ================================================================== theorems *)
Lemma run_inv : forall tr s ts s' ts', XInv s ts -> xrun (s, ts) tr = Some (s', ts') -> XInv s' ts'.
Proof.
  induction tr as [|e tr IH]; intros s ts s' ts' I H; cbn [xrun] in H.
  - inversion H. subst. exact I.
  - destruct (stepf (s, ts) e) as [[s1 ts1]|] eqn:E; [|discriminate].
    eapply IH; [|exact H]. eapply step_inv; eauto.
Qed.
Lemma reach_xinv : forall s ts, xreach (s, ts) -> XInv s ts.
Proof.
  intros s ts [n [tr H]]. pose proof (xinit_inv n) as I. destruct (xinit n) as [s0 ts0] eqn:E.
  eapply run_inv; eauto.
Qed.

(* the mutex: at most one thread is between acquire and release *)
Theorem mutex_exclusive : forall s ts, xreach (s, ts) -> forall i j p q,
  nth_error ts i = Some p -> nth_error ts j = Some q -> holds p = true -> holds q = true -> i = j.
Proof.
  intros s ts R i j p q Hp Hq H1 H2. pose proof (reach_xinv _ _ R) as I.
  pose proof (x_excl _ _ I i p Hp H1). pose proof (x_excl _ _ I j q Hq H2). congruence.
Qed.

Lemma in_run_flag : forall s ts, XInv s ts -> in_run s ts = 1 -> f_once s = false /\ pend s ts = 0.
Proof.
  intros s ts I H. unfold in_run, pend, owner_pc in *. destruct (mutex s) as [i|]; [|discriminate].
  destruct (nth_error ts i) as [[|k|k|k|k h|k [|]|k e|k]|] eqn:E; try discriminate.
  destruct (is_sync k) eqn:Ek; [discriminate|]. split; [|reflexivity].
  apply (x_flag _ _ I i _ E). cbn. rewrite Ek. reflexivity.
Qed.
Lemma in_run_le : forall s ts, in_run s ts <= 1.
Proof.
  intros. unfold in_run. destruct (owner_pc s ts) as [[|k|k|k|k h|k [|]|k e|k]|]; try lia. destruct (is_sync k); lia.
Qed.
Lemma pend_le : forall s ts, pend s ts <= 1.
Proof.
  intros. unfold pend. destruct (owner_pc s ts) as [[|k|k|k|k h|k h|k e|k]|]; try lia.
  destruct (is_sync k); [lia|]. destruct (due k e); lia.
Qed.

(* at most one run of the listeners sets the flag; every other run is a failed
   exec_once_unless_exception run (which is to be retried) *)
Theorem exec_once_at_most_once : forall s ts, xreach (s, ts) ->
  n_succ s + n_fail_o s <= 1 /\ n_run s <= 1 + n_fail_u s.
Proof.
  intros s ts R. pose proof (reach_xinv _ _ R) as I. pose proof (x_run _ _ I) as XR.
  pose proof (in_run_le s ts). pose proof (pend_le s ts).
  destruct (f_once s) eqn:F.
  - pose proof (x_set1 _ _ I F). split; [lia|].
    destruct (Nat.eq_dec (in_run s ts) 1) as [E|E]; [destruct (in_run_flag s ts I E); congruence|lia].
  - pose proof (x_set0 _ _ I F). split; [lia|].
    destruct (Nat.eq_dec (in_run s ts) 1) as [E|E]; [destruct (in_run_flag s ts I E); lia|lia].
Qed.

Lemma quiescent_free : forall s ts, XInv s ts -> quiescent ts -> mutex s = None.
Proof.
  intros s ts I Q. destruct (mutex s) as [i|] eqn:E; [|reflexivity].
  destruct (x_own _ _ I i E) as [p [Hp Hh]]. rewrite (Q p (nth_error_In _ _ Hp)) in Hh. discriminate.
Qed.

(* when every thread has returned and at least one call was made, the listeners have run; if no
   listener raised they have run exactly once *)
Theorem exec_once_exactly_once : forall s ts, xreach (s, ts) -> quiescent ts -> n_done s >= 1 ->
  n_run s >= 1 /\ (n_fail_o s = 0 -> n_fail_u s = 0 -> n_run s = 1).
Proof.
  intros s ts R Q D. pose proof (reach_xinv _ _ R) as I.
  assert (R1 : n_run s >= 1) by (apply (x_done _ _ I); left; exact D).
  split; [exact R1|]. intros F1 F2. destruct (exec_once_at_most_once s ts R). lia.
Qed.

(* once _exec_once is set no thread is or will be inside the listeners through exec_once /
   exec_once_unless_exception: the run counter is frozen *)
Lemma step_frozen : forall s ts e s' ts', XInv s ts -> f_once s = true -> stepf (s, ts) e = Some (s', ts') ->
  f_once s' = true /\ n_run s' = n_run s.
Proof.
  intros s ts e s' ts' I F H. unfold stepf in H. destruct e as [i k|i w b|i|i|i exc|i|i];
    destruct (nth_error ts i) as [[|k0|k0|k0|k0 h|k0 h|k0 e0|k0]|] eqn:Ei; try discriminate.
  - inv_step. auto.
  - destruct (_ && _); [|discriminate]. destruct b; [destruct (is_sync k0)|]; inv_step; auto.
  - destruct (_ && _); [|discriminate]. destruct b; inv_step; auto.
  - destruct (mutex s); [discriminate|]. inv_step. auto.
  - inv_step. cbn. split; [exact F|]. destruct (is_sync k0) eqn:Ek; [reflexivity|]. exfalso.
    destruct h.
    + assert (f_once s = false) by (apply (x_flag _ _ I i _ Ei); cbn; rewrite Ek; reflexivity). congruence.
    + pose proof (x_wf _ _ I i _ Ei) as W. cbn in W. congruence.
  - destruct h; inv_step; auto.
  - destruct (due k0 e0); [|discriminate]. inv_step. destruct (is_sync k0); cbn; auto.
  - destruct (due k0 e0); [discriminate|]. inv_step. auto.
  - inv_step. auto.
Qed.
Theorem no_run_after_flag : forall tr s ts s' ts', xreach (s, ts) -> f_once s = true ->
  xrun (s, ts) tr = Some (s', ts') -> n_run s' = n_run s.
Proof.
  intros tr s ts s' ts' R. pose proof (reach_xinv _ _ R) as I. clear R. revert s ts I.
  induction tr as [|e tr IH]; intros s ts I F H; cbn [xrun] in H.
  - inversion H. reflexivity.
  - destruct (stepf (s, ts) e) as [[s1 ts1]|] eqn:E; [|discriminate].
    destruct (step_frozen _ _ _ _ _ I F E) as [F1 N1]. rewrite <- N1.
    apply (IH s1 ts1); auto. eapply step_inv; eauto.
Qed.

(* _exec_w_sync_on_first_run: until a first run has succeeded, runs of the listeners are mutually
   exclusive *)
Theorem sync_first_run_exclusive : forall s ts, xreach (s, ts) -> f_sync s = false -> forall i j p q,
  nth_error ts i = Some p -> nth_error ts j = Some q -> inside p = true -> inside q = true -> i = j.
Proof.
  intros s ts R F i j p q Hp Hq H1 H2. pose proof (reach_xinv _ _ R) as I.
  assert (A : forall n x, nth_error ts n = Some x -> inside x = true -> holds x = true).
  { intros n x Hx Hi. pose proof (x_sync _ _ I F n x Hx) as U.
    destruct x as [|k|k|k|k h|k [|]|k e|k]; try discriminate; auto. }
  eapply mutex_exclusive; eauto.
Qed.

(* ------------------------------------------------------------------ the retry rule, as accepted traces *)
Lemma xrun_app : forall a b st, xrun st (a ++ b) = match xrun st a with Some st' => xrun st' b | None => None end.
Proof. induction a as [|e a IH]; intros b st; cbn [xrun app]; [reflexivity|]. destruct (stepf st e); auto. Qed.
Lemma upd_upd : forall ts i p q, upd (upd ts i p) i q = upd ts i q.
Proof. induction ts; destruct i; cbn; intros; auto. rewrite IHts. reflexivity. Qed.

(* one call that finds the flag unset and the mutex free runs the listeners *)
Lemma call_runs : forall s ts i k, is_sync k = false -> nth_error ts i = Some Idle -> mutex s = None ->
  f_once s = false ->
  xrun (s, ts) [ECall i k; ERead i false false; ELock i; ERead i false false; EBegin i]
  = Some (bump_run k (set_sh s false (f_sync s) (Some i)), upd ts i (PIn k true)).
Proof.
  intros s ts i k Ek Hi Hm Hf. cbn [xrun]. unfold stepf at 1. rewrite Hi.
  unfold stepf at 1. rewrite (nth_upd_eq ts i (PRead k) Idle Hi), Ek, Hf. cbn [Bool.eqb andb].
  unfold stepf at 1. rewrite upd_upd, (nth_upd_eq ts i (PLock k) Idle Hi), Hm, Ek.
  unfold stepf at 1. rewrite upd_upd, (nth_upd_eq ts i (PRead2 k) Idle Hi). cbn [set_sh f_once negb andb]. rewrite Hf.
  cbn [Bool.eqb]. unfold stepf at 1. rewrite upd_upd, (nth_upd_eq ts i (PCall k true) Idle Hi), upd_upd.
  reflexivity.
Qed.

(* after an exception in exec_once_unless_exception the flag stays unset and the next call runs the
   listeners again *)
Theorem unless_exception_retries : forall s ts i j, nth_error ts i = Some Idle -> nth_error ts j = Some Idle ->
  mutex s = None -> f_once s = false ->
  exists s' ts',
    xrun (s, ts) ([ECall i KUnless; ERead i false false; ELock i; ERead i false false; EBegin i; EEnd i true; EUnlock i]
                  ++ [ECall j KUnless; ERead j false false; ELock j; ERead j false false; EBegin j]) = Some (s', ts')
    /\ f_once s' = false /\ n_run s' = 2 + n_run s.
Proof.
  intros s ts i j Hi Hj Hm Hf.
  assert (Hj' : nth_error (upd ts i Idle) j = Some Idle).
  { destruct (Nat.eq_dec i j) as [<-|N]; [eapply nth_upd_eq; eauto|rewrite nth_upd_neq by exact N; exact Hj]. }
  rewrite xrun_app.
  change [ECall i KUnless; ERead i false false; ELock i; ERead i false false; EBegin i; EEnd i true; EUnlock i]
    with ([ECall i KUnless; ERead i false false; ELock i; ERead i false false; EBegin i] ++ [EEnd i true; EUnlock i]).
  rewrite xrun_app, (call_runs s ts i KUnless eq_refl Hi Hm Hf).
  assert (E : xrun (bump_run KUnless (set_sh s false (f_sync s) (Some i)), upd ts i (PIn KUnless true))
                [EEnd i true; EUnlock i]
              = Some (bump_done KUnless (set_sh (bump_end KUnless true (bump_run KUnless (set_sh s false (f_sync s) (Some i))))
                                          false (f_sync s) None), upd ts i Idle)).
  { cbn [xrun]. unfold stepf at 1. rewrite (nth_upd_eq ts i _ Idle Hi).
    unfold stepf at 1. rewrite upd_upd, (nth_upd_eq ts i _ Idle Hi). cbn [due negb]. rewrite upd_upd. reflexivity. }
  rewrite E. rewrite call_runs; [|reflexivity|exact Hj'|reflexivity|reflexivity].
  eexists. eexists. split; [reflexivity|]. split; reflexivity.
Qed.

(* after an exception in exec_once the flag is set: the next call returns without running *)
Theorem once_exception_no_retry : forall s ts i j k, is_sync k = false ->
  nth_error ts i = Some Idle -> nth_error ts j = Some Idle -> mutex s = None -> f_once s = false ->
  exists s' ts',
    xrun (s, ts) ([ECall i KOnce; ERead i false false; ELock i; ERead i false false; EBegin i; EEnd i true; EWrite i; EUnlock i]
                  ++ [ECall j k; ERead j false true]) = Some (s', ts')
    /\ f_once s' = true /\ n_run s' = 1 + n_run s /\ nth_error ts' j = Some Idle.
Proof.
  intros s ts i j k Ek Hi Hj Hm Hf.
  assert (Hj' : nth_error (upd ts i Idle) j = Some Idle).
  { destruct (Nat.eq_dec i j) as [<-|N]; [eapply nth_upd_eq; eauto|rewrite nth_upd_neq by exact N; exact Hj]. }
  rewrite xrun_app.
  change [ECall i KOnce; ERead i false false; ELock i; ERead i false false; EBegin i; EEnd i true; EWrite i; EUnlock i]
    with ([ECall i KOnce; ERead i false false; ELock i; ERead i false false; EBegin i] ++ [EEnd i true; EWrite i; EUnlock i]).
  rewrite xrun_app, (call_runs s ts i KOnce eq_refl Hi Hm Hf).
  assert (E : xrun (bump_run KOnce (set_sh s false (f_sync s) (Some i)), upd ts i (PIn KOnce true))
                [EEnd i true; EWrite i; EUnlock i]
              = Some (bump_done KOnce (set_sh (bump_end KOnce true (bump_run KOnce (set_sh s false (f_sync s) (Some i))))
                                          true (f_sync s) None), upd ts i Idle)).
  { cbn [xrun]. unfold stepf at 1. rewrite (nth_upd_eq ts i _ Idle Hi).
    unfold stepf at 1. rewrite upd_upd, (nth_upd_eq ts i _ Idle Hi). cbn [due is_sync].
    unfold stepf at 1. rewrite upd_upd, (nth_upd_eq ts i _ Idle Hi). rewrite upd_upd. reflexivity. }
  rewrite E. cbn [xrun]. unfold stepf at 1. rewrite Hj'. unfold stepf at 1. rewrite (nth_upd_eq _ j _ Idle Hj'), Ek.
  cbn [Bool.eqb andb bump_done set_sh bump_end bump_run f_once]. rewrite upd_upd.
  eexists. eexists. split; [reflexivity|]. cbn. split; [reflexivity|]. split; [reflexivity|].
  eapply nth_upd_eq; eauto.
Qed.
