(* C28 (concurrency part 2): util.only_once, the wrapper event.listen(..., once=True) and
   _once_unless_exception=True put around a listener:

     once = [fn]
     def go(arg, kw):
         if once:
             once_fn = once.pop()
             try: return once_fn(arg, kw)
             except:
                 if retry_on_exception: once.insert(0, once_fn)
                 raise
         return None

   A "context" is one call of the wrapper: by another thread, or re-entrantly from inside the
   listener (a nested call is just another context that finishes before the outer one resumes).  The
   check-and-pop is one step (there is no yield point between `if once` and `once.pop()`; CPython does
   not switch threads between them unless it is preempted exactly there); the listener body is not. *)
From Coq Require Import List Arith Bool.
Import ListNotations.

Record wstate := {
  w_armed : bool;        (* the `once` list is non-empty *)
  w_in : list nat;       (* contexts inside the listener body *)
  w_enter : nat;         (* how often the body was entered *)
  w_fail : nat }.        (* bodies that raised and were re-armed *)
Inductive wev :=
| WEnter (c : nat)               (* the wrapper popped the function and calls it *)
| WSkip (c : nat)                (* the wrapper found `once` empty and returned None *)
| WExit (c : nat) (exc : bool).  (* the body returned / raised *)

Definition wmem (c : nat) (l : list nat) : bool := existsb (Nat.eqb c) l.
Definition wstep (retry : bool) (s : wstate) (e : wev) : option wstate :=
  match e with
  | WEnter c =>
      if w_armed s && negb (wmem c (w_in s)) then
        Some {| w_armed := false; w_in := c :: w_in s; w_enter := S (w_enter s); w_fail := w_fail s |}
      else None
  | WSkip c => if w_armed s then None else Some s
  | WExit c exc =>
      if wmem c (w_in s) then
        Some {| w_armed := if exc && retry then true else w_armed s;
                w_in := filter (fun d => negb (Nat.eqb c d)) (w_in s);
                w_enter := w_enter s;
                w_fail := if exc && retry then S (w_fail s) else w_fail s |}
      else None
  end.
Fixpoint wrun (retry : bool) (s : wstate) (tr : list wev) : option wstate :=
  match tr with
  | [] => Some s
  | e :: r => match wstep retry s e with Some s' => wrun retry s' r | None => None end
  end.
Definition winit : wstate := {| w_armed := true; w_in := []; w_enter := 0; w_fail := 0 |}.
Definition wreach (retry : bool) (s : wstate) : Prop := exists tr, wrun retry winit tr = Some s.
