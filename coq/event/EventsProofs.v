(* C28 proofs, part 3: the refinement invariant between the model and the registration-log
   specification, and the main theorems. *)
From Coq Require Import List Arith Bool Lia Permutation.
Import ListNotations.
From SAV.event Require Import Events EventsWalk EventsColl.

Definition hpair (r : cls_rec) : list nat * list nat := (c_bases r, c_mro r).
Definition hier_of (cs : list cls_rec) : list (list nat * list nat) := map hpair cs.
Definition inst_regs (i : nat) (log : list reg) : list reg := ordered (filter (rel_inst i) log).
Definition kv (r : reg) : key * lfn := (key_of r, lfn_of r).

Record INV (st : state) (sp : sstate) : Prop := {
  inv_hier : hier_of (classes st) = s_hier sp;
  inv_single : single (classes st);
  inv_lvl : forall c l, c < length (classes st) -> lvl (classes st) c = Some l ->
            l = cls_list (classes st) (s_log sp) c;
  inv_tgt_c : forall r q, In r (s_log sp) -> g_tgt r = TCls q ->
              q < length (classes st) /\ lvl (classes st) q <> None;
  inv_tgt_i : forall r i, In r (s_log sp) -> g_tgt r = TInst i -> i < length (insts st);
  inv_icls : map i_cls (insts st) = s_insts sp;
  inv_inst : forall i ir, nth_error (insts st) i = Some ir ->
             i_cls ir < length (classes st) /\ lvl (classes st) (i_cls ir) <> None /\
             coll_list ir = map lfn_of (inst_regs i (s_log sp));
  inv_k2c : k2c st = map kv (s_log sp);
  inv_next : next_w st = s_next sp;
  inv_fired : fired st = map IdW (s_fired sp);
  inv_keys : NoDup (map key_of (s_log sp));
  inv_idlt : forall r, In r (s_log sp) -> g_id r < s_next sp;
  inv_idnd : NoDup (map g_id (s_log sp));
  inv_clash : forall r1 r2 t1 t2, In r1 (s_log sp) -> In r2 (s_log sp) -> plain r1 = true -> plain r2 = true ->
              g_fn r1 = g_fn r2 -> g_tgt r1 = TCls t1 -> g_tgt r2 = TCls t2 ->
              (t1 = t2 \/ In t1 (mro (classes st) t2) \/ In t2 (mro (classes st) t1)) -> r1 = r2 }.

(* ------------------------------------------------------------------ registry vs log *)
Lemma existsb_map : forall A B (f : A -> B) (p : B -> bool) l, existsb p (map f l) = existsb (fun x => p (f x)) l.
Proof. induction l; cbn; [reflexivity|rewrite IHl; reflexivity]. Qed.
Lemma has_key_live : forall k log, has_key k (map kv log) = live k log.
Proof. intros. unfold has_key, live. rewrite existsb_map. reflexivity. Qed.

Lemma lookup_key_none : forall k log, live k log = false -> lookup_key k (map kv log) = None.
Proof.
  induction log as [|a log IH]; cbn; intro H; [reflexivity|].
  apply orb_false_iff in H. destruct H as [H1 H2]. rewrite H1. apply IH. exact H2.
Qed.
Lemma lookup_key_some : forall k log, live k log = true ->
  exists r, In r log /\ key_of r = k /\ lookup_key k (map kv log) = Some (lfn_of r).
Proof.
  induction log as [|a log IH]; cbn; intro H; [discriminate|].
  destruct (key_eqb k (key_of a)) eqn:E.
  - exists a. split; [left; reflexivity|]. split; [symmetry; apply key_eqb_eq; exact E|reflexivity].
  - cbn in H. destruct (IH H) as [r [H1 [H2 H3]]]. exists r. split; [right; exact H1|]. split; assumption.
Qed.
Lemma del_key_log : forall k log, del_key k (map kv log) = map kv (filter (not_key k) log).
Proof.
  intros k log. unfold del_key. induction log as [|a log IH]; cbn [map filter]; [reflexivity|].
  unfold not_key at 1. cbn [kv fst]. destruct (key_eqb k (key_of a)); cbn [negb map]; rewrite IH; reflexivity.
Qed.
Lemma live_In : forall k log, live k log = true <-> exists r, In r log /\ key_of r = k.
Proof.
  intros. unfold live. rewrite existsb_exists. split; intros [r [H1 H2]]; exists r; split; auto.
  - symmetry. apply key_eqb_eq. exact H2.
  - apply key_eqb_eq. symmetry. exact H2.
Qed.
Lemma filter_not_key_id : forall k L, (forall y, In y L -> key_of y <> k) -> filter (not_key k) L = L.
Proof.
  intros. apply filter_all. intros y Hy. unfold not_key. apply negb_true_iff.
  destruct (key_eqb k (key_of y)) eqn:E; [|reflexivity]. apply key_eqb_eq in E. exfalso. eapply H; eauto.
Qed.

(* ------------------------------------------------------------------ calling *)
Lemma mem_ident_IdW : forall k F, mem_ident (IdW k) (map IdW F) = memn k F.
Proof. intros. unfold mem_ident, memn. rewrite existsb_map. reflexivity. Qed.

Lemma call_all_spec : forall L F,
  call_all (map lfn_of L) (map IdW F) = (fst (spec_call L F), map IdW (snd (spec_call L F))).
Proof.
  induction L as [|r L IH]; intro F; cbn [map call_all spec_call]; [reflexivity|].
  change (l_once (lfn_of r)) with (g_once r). change (l_fn (lfn_of r)) with (g_fn r).
  destruct (g_once r) eqn:Eo.
  - assert (Ei : l_id (lfn_of r) = IdW (g_id r)) by (unfold lfn_of; cbn; rewrite Eo; reflexivity).
    rewrite Ei, mem_ident_IdW. destruct (memn (g_id r) F).
    + apply IH.
    + change (IdW (g_id r) :: map IdW F) with (map IdW (g_id r :: F)). rewrite IH.
      destruct (spec_call L (g_id r :: F)). reflexivity.
  - rewrite IH. destruct (spec_call L F). reflexivity.
Qed.

(* ------------------------------------------------------------------ hierarchy bookkeeping *)
Lemma s_mro_eq : forall st sp c, hier_of (classes st) = s_hier sp -> s_mro sp c = mro (classes st) c.
Proof.
  intros st sp c H. unfold s_mro, mro, get_cls. rewrite <- H. unfold hier_of.
  change (@nil nat, @nil nat) with (hpair dflt_cls). rewrite map_nth. reflexivity.
Qed.
Lemma hier_len : forall st sp, hier_of (classes st) = s_hier sp -> length (s_hier sp) = length (classes st).
Proof. intros st sp H. rewrite <- H. unfold hier_of. apply map_length. Qed.
Lemma hier_same : forall a b, same_hier a b -> hier_of a = hier_of b.
Proof.
  intros a b [H1 H2]. unfold hier_of.
  apply nth_ext with (d := hpair dflt_cls) (d' := hpair dflt_cls).
  - rewrite !map_length. exact H1.
  - intros n Hn. rewrite !map_nth. unfold hpair. destruct (H2 n) as [E1 E2]. unfold mro, get_cls in *.
    rewrite E1, E2. reflexivity.
Qed.

Lemma get_cls_app_old : forall cs x c, c < length cs -> get_cls (cs ++ [x]) c = get_cls cs c.
Proof. intros. unfold get_cls. apply app_nth1. exact H. Qed.
Lemma get_cls_app_new : forall cs x, get_cls (cs ++ [x]) (length cs) = x.
Proof. intros. unfold get_cls. rewrite app_nth2 by lia. rewrite Nat.sub_diag. reflexivity. Qed.

Lemma list_eq_nat_eq : forall a b, list_eq_nat a b = true -> a = b.
Proof.
  induction a as [|x a IH]; destruct b as [|y b]; cbn; intro H; try discriminate; [reflexivity|].
  apply andb_true_iff in H. destruct H as [H1 H2]. apply Nat.eqb_eq in H1. rewrite (IH b H2), H1. reflexivity.
Qed.

(* ------------------------------------------------------------------ identities inside one collection *)
Lemma NoDup_map_on : forall A B (f : A -> B) l, NoDup l ->
  (forall x y, In x l -> In y l -> f x = f y -> x = y) -> NoDup (map f l).
Proof.
  induction l as [|a l IH]; intros ND Hinj; cbn; [constructor|].
  inversion ND as [|? ? Ha ND']; subst. constructor.
  - intro X. apply in_map_iff in X. destruct X as [y [E Hy]].
    assert (y = a) by (apply Hinj; [right; exact Hy|left; reflexivity|exact E]). subst. contradiction.
  - apply IH; [exact ND'|]. intros x y Hx Hy. apply Hinj; right; assumption.
Qed.
Lemma NoDup_of_map : forall A B (f : A -> B) l, NoDup (map f l) -> NoDup l.
Proof.
  induction l as [|a l IH]; cbn; intro H; [constructor|]. inversion H as [|? ? Ha H']; subst.
  constructor; [|apply IH; exact H']. intro X. apply Ha. apply in_map. exact X.
Qed.

Lemma ident_of_plain : forall r, plain r = true -> ident_of r = IdF (g_fn r).
Proof. intros r H. unfold ident_of, lfn_of, plain in *. cbn. apply negb_true_iff in H. rewrite H. reflexivity. Qed.
Lemma ident_of_wrapped : forall r, plain r = false -> ident_of r = IdW (g_id r).
Proof. intros r H. unfold ident_of, lfn_of, plain in *. cbn. apply negb_false_iff in H. rewrite H. reflexivity. Qed.

Section Idents.
Variable st : state.
Variable sp : sstate.
Hypothesis I : INV st sp.

Lemma ident_inj_log : forall x y, In x (s_log sp) -> In y (s_log sp) -> ident_of x = ident_of y ->
  (plain x = true -> plain y = true -> g_fn x = g_fn y -> x = y) -> x = y.
Proof.
  intros x y Hx Hy E Hp. destruct (plain x) eqn:Px, (plain y) eqn:Py.
  - apply Hp; auto. rewrite !ident_of_plain in E by assumption. congruence.
  - rewrite ident_of_plain, ident_of_wrapped in E by assumption. discriminate.
  - rewrite ident_of_wrapped, ident_of_plain in E by assumption. discriminate.
  - rewrite !ident_of_wrapped in E by assumption. inversion E.
    eapply NoDup_map_inj; [apply (inv_idnd _ _ I)| | |]; eauto.
Qed.

Lemma cls_idents_nodup : forall c, c < length (classes st) ->
  NoDup (map ident_of (cls_regs (mro (classes st) c) c (s_log sp))).
Proof.
  intros c Hc. unfold cls_regs. eapply Permutation_NoDup.
  { apply Permutation_map. apply Permutation_sym. apply ordered_perm. }
  apply NoDup_map_on.
  - apply NoDup_filter. eapply NoDup_of_map. apply (inv_keys _ _ I).
  - intros x y Hx Hy E. apply filter_In in Hx. apply filter_In in Hy.
    destruct Hx as [Hx Rx], Hy as [Hy Ry]. apply ident_inj_log; auto.
    intros Px Py Ef. unfold rel_cls in Rx, Ry.
    destruct (g_tgt x) as [t1|] eqn:T1; [|discriminate]. destruct (g_tgt y) as [t2|] eqn:T2; [|discriminate].
    apply (inv_clash _ _ I x y t1 t2); auto.
    apply (mro_comparable _ (inv_single _ _ I) c); auto.
    + apply orb_true_iff in Rx. destruct Rx as [R|R]; [apply Nat.eqb_eq in R; left; auto|right; apply memn_In; exact R].
    + apply orb_true_iff in Ry. destruct Ry as [R|R]; [apply Nat.eqb_eq in R; left; auto|right; apply memn_In; exact R].
Qed.

Lemma inst_idents_nodup : forall i, NoDup (map ident_of (inst_regs i (s_log sp))).
Proof.
  intro i. unfold inst_regs. eapply Permutation_NoDup.
  { apply Permutation_map. apply Permutation_sym. apply ordered_perm. }
  apply NoDup_map_on.
  - apply NoDup_filter. eapply NoDup_of_map. apply (inv_keys _ _ I).
  - intros x y Hx Hy E. apply filter_In in Hx. apply filter_In in Hy.
    destruct Hx as [Hx Rx], Hy as [Hy Ry]. apply ident_inj_log; auto.
    intros Px Py Ef. unfold rel_inst in Rx, Ry.
    destruct (g_tgt x) as [|j1] eqn:T1; [discriminate|]. destruct (g_tgt y) as [|j2] eqn:T2; [discriminate|].
    apply Nat.eqb_eq in Rx. apply Nat.eqb_eq in Ry. subst.
    eapply NoDup_map_inj; [apply (inv_keys _ _ I)| | |]; eauto. unfold key_of. congruence.
Qed.
Lemma inst_keys_nodup : forall i, NoDup (map key_of (inst_regs i (s_log sp))).
Proof.
  intro i. unfold inst_regs. eapply Permutation_NoDup.
  { apply Permutation_map. apply Permutation_sym. apply ordered_perm. }
  apply NoDup_map_filter. apply (inv_keys _ _ I).
Qed.
End Idents.

(* ------------------------------------------------------------------ log invariants under append / delete *)
Lemma log_sub_inv : forall st sp p, INV st sp ->
  NoDup (map key_of (filter p (s_log sp))) /\ NoDup (map g_id (filter p (s_log sp))).
Proof. intros st sp p I. split; apply NoDup_map_filter; [apply (inv_keys _ _ I)|apply (inv_idnd _ _ I)]. Qed.

Lemma rel_inst_cls : forall i r c, g_tgt r = TCls c -> rel_inst i r = false.
Proof. intros. unfold rel_inst. rewrite H. reflexivity. Qed.
Lemma rel_cls_inst : forall m c r i, g_tgt r = TInst i -> rel_cls m c r = false.
Proof. intros. unfold rel_cls. rewrite H. reflexivity. Qed.

Lemma inst_regs_snoc_irr : forall i log r, rel_inst i r = false -> inst_regs i (log ++ [r]) = inst_regs i log.
Proof. intros. unfold inst_regs. rewrite filter_app. cbn. rewrite H, app_nil_r. reflexivity. Qed.
Lemma inst_regs_snoc_rel : forall i log r, rel_inst i r = true ->
  map lfn_of (inst_regs i (log ++ [r])) = place (negb (g_ins r)) (lfn_of r) (map lfn_of (inst_regs i log)).
Proof. intros. unfold inst_regs. rewrite filter_app. cbn. rewrite H, ordered_snoc. apply place_lfn. Qed.
Lemma inst_regs_del : forall i log k, inst_regs i (filter (not_key k) log) = filter (not_key k) (inst_regs i log).
Proof. intros. unfold inst_regs. rewrite filter_comm. apply ordered_filter. Qed.
Lemma In_inst_regs : forall i log r, In r (inst_regs i log) <-> In r log /\ rel_inst i r = true.
Proof. intros. unfold inst_regs. rewrite In_ordered, filter_In. tauto. Qed.

(* deleting the registration with key k does not touch a collection in which it is not relevant *)
Lemma regs_del_irr : forall (L log : list reg) r, NoDup (map key_of log) -> In r log ->
  (forall y, In y L -> In y log) -> ~ In r L -> filter (not_key (key_of r)) L = L.
Proof.
  intros L log r ND Hr Hsub Hn. apply filter_not_key_id. intros y Hy E.
  assert (y = r) by (eapply NoDup_map_inj; eauto). subst. contradiction.
Qed.

(* ================================================================== preservation, one operation at a time *)
Lemma cls_list_mro : forall a b log c, mro a c = mro b c -> cls_list a log c = cls_list b log c.
Proof. intros. unfold cls_list. rewrite H. reflexivity. Qed.

Definition with_classes (st : state) (cs' : list cls_rec) : state :=
  {| classes := cs'; insts := insts st; k2c := k2c st; next_w := next_w st; fired := fired st |}.

(* replacing the class table by one with the same hierarchy, consistent with the same log *)
Lemma INV_replace_classes : forall st sp cs', INV st sp -> same_hier cs' (classes st) ->
  (forall d l, d < length (classes st) -> lvl cs' d = Some l -> l = cls_list (classes st) (s_log sp) d) ->
  (forall d, lvl (classes st) d <> None -> lvl cs' d <> None) ->
  INV (with_classes st cs') sp.
Proof.
  intros st sp cs' I SH Hl Hm. pose proof SH as [SL SM].
  constructor; cbn [with_classes classes insts k2c next_w fired].
  - rewrite (hier_same _ _ SH). apply (inv_hier _ _ I).
  - eapply same_hier_single; eauto. apply (inv_single _ _ I).
  - intros c l Hc E. rewrite SL in Hc. rewrite (same_hier_cls_list _ _ _ _ SH). apply Hl; assumption.
  - intros r q Hr Et. destruct (inv_tgt_c _ _ I r q Hr Et) as [A B]. rewrite SL. split; [exact A|apply Hm; exact B].
  - apply (inv_tgt_i _ _ I).
  - apply (inv_icls _ _ I).
  - intros i ir Hi. destruct (inv_inst _ _ I i ir Hi) as (A & B & C). rewrite SL. repeat split; auto.
  - apply (inv_k2c _ _ I).
  - apply (inv_next _ _ I).
  - apply (inv_fired _ _ I).
  - apply (inv_keys _ _ I).
  - apply (inv_idlt _ _ I).
  - apply (inv_idnd _ _ I).
  - intros r1 r2 t1 t2 H1 H2 P1 P2 Ef T1 T2 Hc. apply (inv_clash _ _ I r1 r2 t1 t2); auto.
    destruct (SM t1) as [_ <-]. destruct (SM t2) as [_ <-]. exact Hc.
Qed.

(* touching a class: NewInst, and the first step of the walks *)
Lemma touch_class : forall st sp c, INV st sp -> c < length (classes st) ->
  let cs := classes st in
  let cs' := if in_lvl cs c then cs else update_subclass cs c in
  same_hier cs' cs /\ lvl cs' c <> None /\
  (forall d l, d < length cs -> lvl cs' d = Some l -> l = cls_list cs (s_log sp) d) /\
  (forall d, lvl cs d <> None -> lvl cs' d <> None).
Proof.
  intros st sp c I Hc cs cs'. unfold cs'. unfold in_lvl. destruct (lvl cs c) as [l|] eqn:E.
  - split; [apply same_hier_refl|]. split; [congruence|]. split; [apply (inv_lvl _ _ I)|auto].
  - rewrite (update_subclass_spec cs (s_log sp) c (inv_single _ _ I) Hc E).
    + split; [apply same_hier_set_lvl, same_hier_refl|]. split; [rewrite lvl_set_lvl_eq by exact Hc; discriminate|].
      split.
      * intros d l Hd El. destruct (Nat.eq_dec c d) as [<-|N].
        -- rewrite lvl_set_lvl_eq in El by exact Hc. congruence.
        -- rewrite lvl_set_lvl_neq in El by exact N. apply (inv_lvl _ _ I); assumption.
      * intros d Hd. destruct (Nat.eq_dec c d) as [<-|N]; [contradiction|]. rewrite lvl_set_lvl_neq by exact N. exact Hd.
    + intros q l Hq El. apply (inv_lvl _ _ I); [|exact El].
      pose proof (mro_lt _ (inv_single _ _ I) c q Hc Hq). fold cs in H. lia.
    + intros r q Hr Et _. apply (inv_tgt_c _ _ I r q Hr Et).
Qed.

Lemma nth_error_snoc : forall A (l : list A) x i y, nth_error (l ++ [x]) i = Some y ->
  (i < length l /\ nth_error l i = Some y) \/ (i = length l /\ y = x).
Proof.
  intros A l x i y H. destruct (Nat.lt_ge_cases i (length l)) as [L|L].
  - left. split; [exact L|]. rewrite nth_error_app1 in H by exact L. exact H.
  - right. rewrite nth_error_app2 in H by exact L. destruct (i - length l) as [|k] eqn:E.
    + cbn in H. inversion H. split; [lia|reflexivity].
    + cbn in H. destruct k; discriminate.
Qed.

Lemma step_newinst : forall st sp c, INV st sp ->
  snd (step st (NewInst c)) = snd (sstep sp (NewInst c)) /\
  INV (fst (step st (NewInst c))) (fst (sstep sp (NewInst c))).
Proof.
  intros st sp c I. cbn [step sstep]. rewrite (hier_len _ _ (inv_hier _ _ I)).
  destruct (Nat.ltb_spec c (length (classes st))) as [Hc|Hc]; cbn [fst snd]; [|split; [reflexivity|exact I]].
  split; [reflexivity|].
  destruct (touch_class st sp c I Hc) as (SH & Hne & Hl & Hm).
  set (cs' := if in_lvl (classes st) c then classes st else update_subclass (classes st) c) in *.
  pose proof (INV_replace_classes st sp cs' I SH Hl Hm) as I'.
  pose proof SH as [SL _].
  constructor; cbn [classes insts k2c next_w fired s_hier s_insts s_log s_next s_fired].
  - apply (inv_hier _ _ I').
  - apply (inv_single _ _ I').
  - apply (inv_lvl _ _ I').
  - apply (inv_tgt_c _ _ I').
  - intros r i Hr Et. rewrite app_length. pose proof (inv_tgt_i _ _ I r i Hr Et). lia.
  - rewrite map_app. cbn. rewrite (inv_icls _ _ I). reflexivity.
  - intros i ir Hi. apply nth_error_snoc in Hi. destruct Hi as [[Hi1 Hi2]|[-> ->]].
    + apply (inv_inst _ _ I' i ir Hi2).
    + cbn [i_cls coll_list i_coll]. rewrite SL. split; [exact Hc|]. split; [exact Hne|].
      unfold inst_regs. rewrite filter_nil_iff; [reflexivity|].
      intros r Hr. unfold rel_inst. destruct (g_tgt r) as [|j] eqn:Et; [reflexivity|].
      pose proof (inv_tgt_i _ _ I r j Hr Et). apply Nat.eqb_neq. lia.
  - apply (inv_k2c _ _ I).
  - apply (inv_next _ _ I).
  - apply (inv_fired _ _ I).
  - apply (inv_keys _ _ I).
  - apply (inv_idlt _ _ I).
  - apply (inv_idnd _ _ I).
  - apply (inv_clash _ _ I').
Qed.

Lemma step_newclass : forall st sp bases m, INV st sp -> gstep sp (NewClass bases m) = true ->
  snd (step st (NewClass bases m)) = snd (sstep sp (NewClass bases m)) /\
  INV (fst (step st (NewClass bases m))) (fst (sstep sp (NewClass bases m))).
Proof.
  intros st sp bases m I G. cbn [step sstep]. rewrite (hier_len _ _ (inv_hier _ _ I)).
  destruct (all_lt (length (classes st)) bases && all_lt (length (classes st)) m) eqn:V; cbn [fst snd];
    [|split; [reflexivity|exact I]].
  split; [reflexivity|].
  set (cs := classes st). set (new := {| c_bases := bases; c_mro := m; c_lvl := None |}).
  assert (Hold : forall c, c < length cs -> get_cls (cs ++ [new]) c = get_cls cs c) by (intros; apply get_cls_app_old; assumption).
  assert (Hmro : forall c, c < length cs -> mro (cs ++ [new]) c = mro cs c) by (intros c Hc; unfold mro; rewrite Hold by exact Hc; reflexivity).
  assert (Hlvl : forall c, c < length cs -> lvl (cs ++ [new]) c = lvl cs c) by (intros c Hc; unfold lvl; rewrite Hold by exact Hc; reflexivity).
  constructor; cbn [classes insts k2c next_w fired s_hier s_insts s_log s_next s_fired]; fold cs.
  - unfold hier_of. rewrite map_app. cbn. fold (hier_of cs). unfold cs. rewrite (inv_hier _ _ I). reflexivity.
  - intros c Hc. rewrite app_length in Hc. cbn in Hc.
    destruct (Nat.eq_dec c (length cs)) as [->|N].
    + unfold mro. rewrite get_cls_app_new. cbn [c_bases c_mro new].
      cbn [gstep] in G. destruct bases as [|b [|b' bs]]; [| |discriminate].
      * destruct m; [left; auto|discriminate].
      * apply andb_true_iff in G. destruct G as [G1 G2]. apply Nat.ltb_lt in G1.
        rewrite (hier_len _ _ (inv_hier _ _ I)) in G1. apply list_eq_nat_eq in G2.
        right. exists b. split; [exact G1|]. split; [reflexivity|].
        rewrite G2, (s_mro_eq st sp b (inv_hier _ _ I)). fold cs. fold (mro (cs ++ [new]) b).
        rewrite Hmro by exact G1. reflexivity.
    + assert (Hc' : c < length cs) by lia.
      destruct (inv_single _ _ I c Hc') as [[E1 E2]|[b [Hb [E1 E2]]]]; fold cs in E1, E2.
      * left. rewrite Hmro, Hold by exact Hc'. auto.
      * right. exists b. rewrite Hmro, Hold by exact Hc'. rewrite Hmro by lia. auto.
  - intros c l Hc E. rewrite app_length in Hc. cbn in Hc. destruct (Nat.eq_dec c (length cs)) as [->|N].
    + unfold lvl in E. rewrite get_cls_app_new in E. discriminate.
    + assert (Hc' : c < length cs) by lia. rewrite Hlvl in E by exact Hc'.
      rewrite (cls_list_mro _ cs _ c (Hmro c Hc')). apply (inv_lvl _ _ I); assumption.
  - intros r q Hr Et. destruct (inv_tgt_c _ _ I r q Hr Et) as [A B]. fold cs in A, B.
    rewrite app_length, Hlvl by exact A. split; [lia|exact B].
  - apply (inv_tgt_i _ _ I).
  - apply (inv_icls _ _ I).
  - intros i ir Hi. destruct (inv_inst _ _ I i ir Hi) as (A & B & C). fold cs in A, B.
    rewrite app_length, Hlvl by exact A. split; [lia|]. split; assumption.
  - apply (inv_k2c _ _ I).
  - apply (inv_next _ _ I).
  - apply (inv_fired _ _ I).
  - apply (inv_keys _ _ I).
  - apply (inv_idlt _ _ I).
  - apply (inv_idnd _ _ I).
  - intros r1 r2 t1 t2 H1 H2 P1 P2 Ef T1 T2 Hc. apply (inv_clash _ _ I r1 r2 t1 t2); auto.
    destruct (inv_tgt_c _ _ I r1 t1 H1 T1) as [A1 _]. destruct (inv_tgt_c _ _ I r2 t2 H2 T2) as [A2 _].
    fold cs in A1, A2 |- *. rewrite <- (Hmro t1 A1), <- (Hmro t2 A2). exact Hc.
Qed.

Lemma valid_target_eq : forall st sp t, INV st sp ->
  valid_target (length (s_hier sp)) (length (s_insts sp)) t =
  valid_target (length (classes st)) (length (insts st)) t.
Proof.
  intros st sp t I. rewrite (hier_len _ _ (inv_hier _ _ I)). rewrite <- (inv_icls _ _ I), map_length. reflexivity.
Qed.

Lemma step_contains : forall st sp t f, INV st sp ->
  snd (step st (Contains t f)) = snd (sstep sp (Contains t f)) /\
  INV (fst (step st (Contains t f))) (fst (sstep sp (Contains t f))).
Proof.
  intros st sp t f I. cbn [step sstep]. rewrite (valid_target_eq st sp t I).
  destruct (valid_target (length (classes st)) (length (insts st)) t); cbn [fst snd]; [|split; [reflexivity|exact I]].
  split; [|exact I]. rewrite (inv_k2c _ _ I), has_key_live. reflexivity.
Qed.

Lemma step_dispatch : forall st sp i, INV st sp ->
  snd (step st (Dispatch i)) = snd (sstep sp (Dispatch i)) /\
  INV (fst (step st (Dispatch i))) (fst (sstep sp (Dispatch i))).
Proof.
  intros st sp i I. cbn [step sstep].
  assert (Li : length (s_insts sp) = length (insts st)) by (rewrite <- (inv_icls _ _ I), map_length; reflexivity).
  rewrite Li. destruct (nth_error (insts st) i) as [ir|] eqn:Ei.
  - assert (Hi : i < length (insts st)) by (apply nth_error_Some; congruence).
    destruct (Nat.ltb_spec i (length (insts st))) as [_|X]; [|lia].
    destruct (inv_inst _ _ I i ir Ei) as (A & B & C).
    assert (Ec : nth i (s_insts sp) 0 = i_cls ir).
    { rewrite <- (inv_icls _ _ I). change 0 with (i_cls {| i_cls := 0; i_coll := None |}). rewrite map_nth.
      f_equal. apply nth_error_nth. exact Ei. }
    assert (El : lvl_list (classes st) (i_cls ir) ++ coll_list ir = map lfn_of (spec_list sp i)).
    { unfold spec_list. rewrite Ec, map_app. f_equal; [|exact C].
      unfold lvl_list. destruct (lvl (classes st) (i_cls ir)) as [l|] eqn:E; [|congruence].
      rewrite (inv_lvl _ _ I _ l A E). unfold cls_list, cls_regs.
      rewrite (s_mro_eq st sp _ (inv_hier _ _ I)). reflexivity. }
    rewrite El, (inv_fired _ _ I), call_all_spec.
    destruct (spec_call (spec_list sp i) (s_fired sp)) as [cl fd'] eqn:Es. cbn [fst snd].
    split; [reflexivity|].
    constructor; cbn [classes insts k2c next_w fired s_hier s_insts s_log s_next s_fired]; try apply I. reflexivity.
  - assert (Hi : length (insts st) <= i) by (apply nth_error_None; exact Ei).
    destruct (Nat.ltb_spec i (length (insts st))) as [X|_]; [lia|]. cbn [fst snd]. split; [reflexivity|exact I].
Qed.

(* ------------------------------------------------------------------ listen on an instance *)
Definition new_reg (sp : sstate) (t : target) (f : nat) (fl : flags) : reg :=
  {| g_id := s_next sp; g_tgt := t; g_fn := f; g_ins := fl_insert fl; g_once := fl_once fl; g_wrap := fl_wrap fl |}.

Lemma NoDup_app_snoc : forall A (l : list A) x, NoDup l -> ~ In x l -> NoDup (l ++ [x]).
Proof.
  induction l as [|a l IH]; intros x ND Hx; cbn; [constructor; [intros []|constructor]|].
  inversion ND as [|? ? Ha ND']; subst. constructor.
  - intro X. apply in_app_or in X. destruct X as [X|[<-|[]]]; [contradiction|]. apply Hx. left. reflexivity.
  - apply IH; [exact ND'|]. intro X. apply Hx. right. exact X.
Qed.

Lemma log_snoc_inv : forall st sp r, INV st sp -> g_id r = s_next sp -> live (key_of r) (s_log sp) = false ->
  NoDup (map key_of (s_log sp ++ [r])) /\
  (forall r', In r' (s_log sp ++ [r]) -> g_id r' < S (s_next sp)) /\
  NoDup (map g_id (s_log sp ++ [r])).
Proof.
  intros st sp r I Hid Hl. split; [|split].
  - rewrite map_app. cbn. apply NoDup_app_snoc; [apply (inv_keys _ _ I)|].
    intro X. apply in_map_iff in X. destruct X as [y [E Hy]].
    assert (live (key_of r) (s_log sp) = true) by (apply live_In; exists y; auto). congruence.
  - intros r' Hr'. apply in_app_or in Hr'. destruct Hr' as [Hr'|[<-|[]]]; [|lia].
    pose proof (inv_idlt _ _ I r' Hr'). lia.
  - rewrite map_app. cbn. apply NoDup_app_snoc; [apply (inv_idnd _ _ I)|].
    intro X. apply in_map_iff in X. destruct X as [y [E Hy]]. pose proof (inv_idlt _ _ I y Hy). lia.
Qed.

Lemma map_icls_set : forall (l : list inst_rec) i ir x, nth_error l i = Some ir ->
  map i_cls (set_nth l i {| i_cls := i_cls ir; i_coll := x |}) = map i_cls l.
Proof.
  intros. rewrite map_set_nth. cbn. apply set_nth_id. rewrite nth_error_map, H. reflexivity.
Qed.

Lemma step_listen_inst : forall st sp i f fl, INV st sp ->
  snd (step st (Listen (TInst i) f fl)) = snd (sstep sp (Listen (TInst i) f fl)) /\
  INV (fst (step st (Listen (TInst i) f fl))) (fst (sstep sp (Listen (TInst i) f fl))).
Proof.
  intros st sp i f fl I. cbn [step sstep]. rewrite (valid_target_eq st sp (TInst i) I). cbn [valid_target].
  destruct (nth_error (insts st) i) as [ir|] eqn:Ei.
  2:{ assert (Hi : length (insts st) <= i) by (apply nth_error_None; exact Ei).
      destruct (Nat.ltb_spec i (length (insts st))) as [X|_]; [lia|]. cbn [fst snd]. split; [reflexivity|exact I]. }
  assert (Hi : i < length (insts st)) by (apply nth_error_Some; congruence).
  destruct (Nat.ltb_spec i (length (insts st))) as [_|X]; [|lia].
  destruct (inv_inst _ _ I i ir Ei) as (A & B & C).
  rewrite (inv_k2c _ _ I), has_key_live.
  destruct (live (TInst i, f) (s_log sp)) eqn:Lv; cbn [fst snd]; (split; [reflexivity|]).
  - (* the pair is registered already: only the promotion of the _EmptyListener *)
    constructor; cbn [classes insts k2c next_w fired s_hier s_insts s_log s_next s_fired]; try apply I;
      try reflexivity.
    + intros r j Hr Et. rewrite set_nth_length. apply (inv_tgt_i _ _ I r j Hr Et).
    + rewrite map_icls_set by exact Ei. apply (inv_icls _ _ I).
    + intros j jr Hj. destruct (Nat.eq_dec i j) as [<-|N].
      * rewrite nth_error_set_nth_eq in Hj by exact Hi. inversion Hj. subst jr. cbn [i_cls coll_list i_coll].
        repeat split; auto.
      * rewrite nth_error_set_nth_neq in Hj by exact N. apply (inv_inst _ _ I j jr Hj).
    + rewrite (inv_next _ _ I). reflexivity.
    + intros r Hr. pose proof (inv_idlt _ _ I r Hr). lia.
  - (* a new registration *)
    set (r := {| g_id := s_next sp; g_tgt := TInst i; g_fn := f; g_ins := fl_insert fl;
                 g_once := fl_once fl; g_wrap := fl_wrap fl |}).
    assert (Ex : mk_lfn (next_w st) f fl = lfn_of r) by (rewrite (inv_next _ _ I); reflexivity).
    assert (Et : g_tgt r = TInst i) by reflexivity.
    assert (Eid : g_id r = s_next sp) by reflexivity.
    assert (Eins : fl_insert fl = g_ins r) by reflexivity.
    assert (Ekey : (TInst i, f) = key_of r) by reflexivity.
    rewrite Ekey in Lv. rewrite Eins, Ekey. clearbody r.
    destruct (log_snoc_inv st sp r I Eid Lv) as (K1 & K2 & K3).
    constructor; cbn [classes insts k2c next_w fired s_hier s_insts s_log s_next s_fired]; try apply I.
    + intros c l Hc El. unfold cls_list. rewrite cls_regs_snoc_irr by (eapply rel_cls_inst; eauto).
      apply (inv_lvl _ _ I); assumption.
    + intros r' q Hr' Et'. apply in_app_or in Hr'. destruct Hr' as [Hr'|[<-|[]]]; [|congruence].
      apply (inv_tgt_c _ _ I r' q Hr' Et').
    + intros r' j Hr' Et'. rewrite set_nth_length. apply in_app_or in Hr'. destruct Hr' as [Hr'|[<-|[]]].
      * apply (inv_tgt_i _ _ I r' j Hr' Et').
      * rewrite Et in Et'. inversion Et'. subst j. exact Hi.
    + rewrite map_icls_set by exact Ei. apply (inv_icls _ _ I).
    + intros j jr Hj. destruct (Nat.eq_dec i j) as [<-|N].
      * rewrite nth_error_set_nth_eq in Hj by exact Hi. inversion Hj. subst jr. cbn [i_cls coll_list i_coll].
        split; [exact A|]. split; [exact B|].
        rewrite inst_regs_snoc_rel by (unfold rel_inst; rewrite Et; apply Nat.eqb_refl).
        rewrite Ex, C. reflexivity.
      * rewrite nth_error_set_nth_neq in Hj by exact N. destruct (inv_inst _ _ I j jr Hj) as (A' & B' & C').
        split; [exact A'|]. split; [exact B'|].
        rewrite inst_regs_snoc_irr; [exact C'|]. unfold rel_inst. rewrite Et. apply Nat.eqb_neq. exact N.
    + rewrite map_app, Ex. reflexivity.
    + rewrite (inv_next _ _ I). reflexivity.
    + exact K1.
    + exact K2.
    + exact K3.
    + intros r1 r2 t1 t2 H1 H2 P1 P2 Ef T1 T2 Hc.
      apply in_app_or in H1. apply in_app_or in H2.
      destruct H1 as [H1|[<-|[]]]; [|congruence]. destruct H2 as [H2|[<-|[]]]; [|congruence].
      apply (inv_clash _ _ I r1 r2 t1 t2); auto.
Qed.

(* ------------------------------------------------------------------ listen on a class *)
Lemma comparable_true : forall st sp a b, INV st sp ->
  (a = b \/ In a (mro (classes st) b) \/ In b (mro (classes st) a)) -> comparable sp a b = true.
Proof.
  intros st sp a b I H. unfold comparable. rewrite !(s_mro_eq st sp _ (inv_hier _ _ I)).
  destruct H as [->|[H|H]].
  - rewrite Nat.eqb_refl. reflexivity.
  - apply memn_In in H. rewrite H. apply orb_true_iff. left. apply orb_true_r.
  - apply memn_In in H. rewrite H. apply orb_true_r.
Qed.

Lemma step_listen_cls : forall st sp t f fl, INV st sp -> gstep sp (Listen (TCls t) f fl) = true ->
  snd (step st (Listen (TCls t) f fl)) = snd (sstep sp (Listen (TCls t) f fl)) /\
  INV (fst (step st (Listen (TCls t) f fl))) (fst (sstep sp (Listen (TCls t) f fl))).
Proof.
  intros st sp t f fl I G. cbn [gstep] in G.
  apply andb_true_iff in G. destruct G as [G1 G3].
  apply Nat.ltb_lt in G1. rewrite (hier_len _ _ (inv_hier _ _ I)) in G1.
  cbn [step sstep]. rewrite (valid_target_eq st sp (TCls t) I). cbn [valid_target].
  destruct (Nat.ltb_spec t (length (classes st))) as [_|X]; [|lia].
  rewrite (inv_k2c _ _ I), has_key_live.
  destruct (live (TCls t, f) (s_log sp)) eqn:G2.
  { (* the pair is established already: ignored *)
    cbn [fst snd]. split; [reflexivity|].
    constructor; cbn [classes insts k2c next_w fired s_hier s_insts s_log s_next s_fired]; try apply I;
      try reflexivity.
    - rewrite (inv_next _ _ I). reflexivity.
    - intros r Hr. pose proof (inv_idlt _ _ I r Hr). lia. }
  cbn [orb] in G3.
  set (cs := classes st) in *. set (log := s_log sp) in *.
  set (r := {| g_id := s_next sp; g_tgt := TCls t; g_fn := f; g_ins := fl_insert fl;
               g_once := fl_once fl; g_wrap := fl_wrap fl |}).
  assert (Ex : mk_lfn (next_w st) f fl = lfn_of r) by (rewrite (inv_next _ _ I); reflexivity).
  assert (Et : g_tgt r = TCls t) by reflexivity.
  assert (Eid : g_id r = s_next sp) by reflexivity.
  assert (Eins : fl_insert fl = g_ins r) by reflexivity.
  assert (Efn : g_fn r = f) by reflexivity.
  assert (Epl : plain r = negb (fl_once fl || fl_wrap fl)) by reflexivity.
  assert (Ekey : (TCls t, f) = key_of r) by reflexivity.
  rewrite Ekey in G2. rewrite Eins, Ekey. clearbody r.
  destruct (walk_subclasses_some cs t G1) as [W HW].
  destruct (walk_single cs (inv_single _ _ I) t W G1 HW) as (WND & Wdesc & Word).
  unfold do_insert. rewrite HW, Ex.
  pose proof (do_insert_mid cs log r t W (inv_single _ _ I) G1 Et (inv_lvl _ _ I) (inv_tgt_c _ _ I) WND Wdesc Word)
    as (SH & HP & HnP).
  set (cs' := fold_left (ins_step t (negb (g_ins r)) (lfn_of r)) W cs) in *.
  pose proof SH as [SL SM].
  cbn [fst snd]. split; [reflexivity|].
  destruct (log_snoc_inv st sp r I Eid G2) as (K1 & K2 & K3).
  assert (HtW : In t W) by (apply Wdesc; split; [exact G1|left; reflexivity]).
  constructor; cbn [classes insts k2c next_w fired s_hier s_insts s_log s_next s_fired]; fold log.
  - rewrite (hier_same _ _ SH). apply (inv_hier _ _ I).
  - eapply same_hier_single; eauto. apply (inv_single _ _ I).
  - intros c l Hc El. rewrite SL in Hc. rewrite (same_hier_cls_list _ _ _ _ SH).
    destruct (in_dec Nat.eq_dec c W) as [HcW|HcW].
    + rewrite HP in El by exact HcW. congruence.
    + rewrite HnP in El by exact HcW.
      rewrite (cls_list_new_other cs log r t Et) by (intro D; apply HcW; apply Wdesc; split; assumption).
      apply (inv_lvl _ _ I); assumption.
  - intros r' q Hr' Et'. rewrite SL. apply in_app_or in Hr'. destruct Hr' as [Hr'|[<-|[]]].
    + destruct (inv_tgt_c _ _ I r' q Hr' Et') as [A B]. split; [exact A|].
      destruct (in_dec Nat.eq_dec q W) as [HqW|HqW]; [rewrite HP by exact HqW; discriminate|].
      rewrite HnP by exact HqW. exact B.
    + rewrite Et in Et'. inversion Et'. subst q. split; [exact G1|]. rewrite HP by exact HtW. discriminate.
  - intros r' j Hr' Et'. apply in_app_or in Hr'. destruct Hr' as [Hr'|[<-|[]]]; [|congruence].
    apply (inv_tgt_i _ _ I r' j Hr' Et').
  - apply (inv_icls _ _ I).
  - intros j jr Hj. destruct (inv_inst _ _ I j jr Hj) as (A & B & C). rewrite SL.
    split; [exact A|]. split.
    + destruct (in_dec Nat.eq_dec (i_cls jr) W) as [HqW|HqW]; [rewrite HP by exact HqW; discriminate|].
      rewrite HnP by exact HqW. exact B.
    + rewrite inst_regs_snoc_irr by (eapply rel_inst_cls; eauto). exact C.
  - rewrite map_app. reflexivity.
  - rewrite (inv_next _ _ I). reflexivity.
  - apply (inv_fired _ _ I).
  - exact K1.
  - exact K2.
  - exact K3.
  - intros r1 r2 t1 t2 H1 H2 P1 P2 Ef T1 T2 Hc.
    assert (Hc' : t1 = t2 \/ In t1 (mro cs t2) \/ In t2 (mro cs t1)).
    { destruct (SM t1) as [_ <-]. destruct (SM t2) as [_ <-]. exact Hc. }
    assert (NoClash : plain r = true -> forall r2 t2, In r2 log -> plain r2 = true -> g_fn r2 = f ->
              g_tgt r2 = TCls t2 -> (t = t2 \/ In t (mro cs t2) \/ In t2 (mro cs t)) -> False).
    { intros Pr r0 t0 H0 P0 F0 T0 C0. rewrite Epl in Pr.
      apply negb_true_iff in Pr. rewrite Pr in G3. cbn [orb] in G3. apply negb_true_iff in G3.
      assert (existsb (clash sp t f) log = true); [|congruence].
      apply existsb_exists. exists r0. split; [exact H0|]. unfold clash. rewrite T0, P0, F0, Nat.eqb_refl.
      cbn [andb]. apply (comparable_true st sp t t0 I). exact C0. }
    apply in_app_or in H1. apply in_app_or in H2.
    destruct H1 as [H1|[<-|[]]], H2 as [H2|[<-|[]]].
    + apply (inv_clash _ _ I r1 r2 t1 t2); auto.
    + exfalso. rewrite Et in T2. inversion T2. subst t2.
      apply (NoClash P2 r1 t1 H1 P1 (eq_trans Ef Efn) T1). intuition.
    + exfalso. rewrite Et in T1. inversion T1. subst t1.
      apply (NoClash P1 r2 t2 H2 P2 (eq_trans (eq_sym Ef) Efn) T2). intuition.
    + reflexivity.
Qed.

(* ------------------------------------------------------------------ remove *)
Lemma filter_sub_inv : forall st sp k, INV st sp ->
  NoDup (map key_of (filter (not_key k) (s_log sp))) /\
  (forall r, In r (filter (not_key k) (s_log sp)) -> g_id r < s_next sp) /\
  NoDup (map g_id (filter (not_key k) (s_log sp))).
Proof.
  intros st sp k I. destruct (log_sub_inv st sp (not_key k) I) as [A B]. split; [exact A|]. split; [|exact B].
  intros r Hr. apply filter_In in Hr. apply (inv_idlt _ _ I). tauto.
Qed.

Lemma step_remove : forall st sp t f, INV st sp ->
  snd (step st (Remove t f)) = snd (sstep sp (Remove t f)) /\
  INV (fst (step st (Remove t f))) (fst (sstep sp (Remove t f))).
Proof.
  intros st sp t f I. cbn [step sstep]. rewrite (valid_target_eq st sp t I).
  destruct (valid_target (length (classes st)) (length (insts st)) t) eqn:V; cbn [fst snd];
    [|split; [reflexivity|exact I]].
  rewrite (inv_k2c _ _ I).
  destruct (live (t, f) (s_log sp)) eqn:Lv.
  2:{ rewrite lookup_key_none by exact Lv. cbn [fst snd]. split; [reflexivity|exact I]. }
  destruct (lookup_key_some _ _ Lv) as [r [Hr [Ek El]]]. rewrite El, del_key_log.
  change (fun r0 => negb (key_eqb (t, f) (key_of r0))) with (not_key (t, f)).
  rewrite <- Ek. change (l_id (lfn_of r)) with (ident_of r).
  set (cs := classes st) in *. set (log := s_log sp) in *. set (log' := filter (not_key (key_of r)) log).
  destruct (filter_sub_inv st sp (key_of r) I) as (K1 & K2 & K3). fold log in K1, K2, K3. fold log' in K1, K2, K3.
  assert (Sub : forall y, In y log' -> In y log) by (intros y Hy; apply filter_In in Hy; tauto).
  destruct t as [c|i]; cbn [valid_target] in V.
  - (* class target *)
    apply Nat.ltb_lt in V. assert (Et : g_tgt r = TCls c) by (unfold key_of in Ek; inversion Ek; reflexivity).
    destruct (walk_subclasses_some cs c V) as [W HW]. rewrite HW.
    destruct (walk_single cs (inv_single _ _ I) c W V HW) as (WND & Wdesc & _).
    destruct (remove_walk_spec cs log r c W Et Hr (inv_keys _ _ I) (cls_idents_nodup st sp I) (inv_lvl _ _ I) WND Wdesc)
      as [cs' [E (SH & R1 & R2 & R3)]].
    rewrite E. cbn [fst snd]. split; [reflexivity|]. fold log'. pose proof SH as [SL SM].
    assert (Mono : forall q, lvl cs q <> None -> lvl cs' q <> None).
    { intros q Hq. destruct (in_dec Nat.eq_dec q W) as [HqW|HqW]; [|rewrite R3 by exact HqW; exact Hq].
      destruct (lvl cs q) as [l0|] eqn:E0; [|congruence]. rewrite (R1 q l0 HqW E0). discriminate. }
    constructor; cbn [classes insts k2c next_w fired s_hier s_insts s_log s_next s_fired]; fold log'.
    + rewrite (hier_same _ _ SH). apply (inv_hier _ _ I).
    + eapply same_hier_single; eauto. apply (inv_single _ _ I).
    + intros d l Hd Ed. rewrite SL in Hd. rewrite (same_hier_cls_list _ _ _ _ SH).
      destruct (in_dec Nat.eq_dec d W) as [HdW|HdW].
      * destruct (lvl cs d) as [l0|] eqn:E0.
        -- rewrite (R1 d l0 HdW E0) in Ed. injection Ed as <-. reflexivity.
        -- rewrite (R2 d HdW E0) in Ed. discriminate.
      * rewrite R3 in Ed by exact HdW.
        unfold log'. rewrite (cls_list_del_other cs log r c Et Hr (inv_keys _ _ I))
          by (intro D; apply HdW; apply Wdesc; split; assumption).
        apply (inv_lvl _ _ I); assumption.
    + intros r' q Hr' Et'. destruct (inv_tgt_c _ _ I r' q (Sub r' Hr') Et') as [A B]. rewrite SL.
      split; [exact A|apply Mono; exact B].
    + intros r' j Hr' Et'. apply (inv_tgt_i _ _ I r' j (Sub r' Hr') Et').
    + apply (inv_icls _ _ I).
    + intros j jr Hj. destruct (inv_inst _ _ I j jr Hj) as (A & B & C). rewrite SL.
      split; [exact A|]. split; [apply Mono; exact B|].
      unfold log'. rewrite inst_regs_del. rewrite (regs_del_irr _ log r (inv_keys _ _ I) Hr); [exact C| |].
      * intros y Hy. apply In_inst_regs in Hy. tauto.
      * intro X. apply In_inst_regs in X. destruct X as [_ X]. rewrite (rel_inst_cls j r c Et) in X. discriminate.
    + reflexivity.
    + apply (inv_next _ _ I).
    + apply (inv_fired _ _ I).
    + exact K1.
    + exact K2.
    + exact K3.
    + intros r1 r2 t1 t2 H1 H2 P1 P2 Ef T1 T2 Hc.
      assert (Hc' : t1 = t2 \/ In t1 (mro cs t2) \/ In t2 (mro cs t1)).
      { destruct (SM t1) as [_ <-]. destruct (SM t2) as [_ <-]. exact Hc. }
      apply (inv_clash _ _ I r1 r2 t1 t2); auto.
  - (* instance target *)
    apply Nat.ltb_lt in V. assert (Et : g_tgt r = TInst i) by (unfold key_of in Ek; inversion Ek; reflexivity).
    destruct (nth_error (insts st) i) as [ir|] eqn:Ei; [|apply nth_error_None in Ei; lia].
    destruct (inv_inst _ _ I i ir Ei) as (A & B & C).
    assert (Hrel : In r (inst_regs i log)).
    { apply In_inst_regs. split; [exact Hr|]. unfold rel_inst. rewrite Et. apply Nat.eqb_refl. }
    destruct (i_coll ir) as [l|] eqn:Ec.
    2:{ exfalso. unfold coll_list in C. rewrite Ec in C. fold log in C.
        destruct (inst_regs i log); [destruct Hrel|discriminate]. }
    assert (El' : l = map lfn_of (inst_regs i log)) by (unfold coll_list in C; rewrite Ec in C; exact C).
    pose proof (remove_first_regs _ r (inst_idents_nodup st sp I i) (inst_keys_nodup st sp I i) Hrel) as RF.
    fold log in RF. rewrite El', RF.
    cbn [fst snd]. split; [reflexivity|]. fold log'.
    constructor; cbn [classes insts k2c next_w fired s_hier s_insts s_log s_next s_fired]; fold log'; fold cs.
    + apply (inv_hier _ _ I).
    + apply (inv_single _ _ I).
    + intros d l0 Hd Ed. unfold cls_list, log'. rewrite cls_regs_del.
      rewrite (regs_del_irr _ log r (inv_keys _ _ I) Hr).
      * apply (inv_lvl _ _ I); assumption.
      * intros y Hy. apply In_cls_regs in Hy. tauto.
      * intro X. apply In_cls_regs in X. destruct X as [_ X]. rewrite (rel_cls_inst _ d r i Et) in X. discriminate.
    + intros r' q Hr' Et'. apply (inv_tgt_c _ _ I r' q (Sub r' Hr') Et').
    + intros r' j Hr' Et'. rewrite set_nth_length. apply (inv_tgt_i _ _ I r' j (Sub r' Hr') Et').
    + rewrite map_icls_set by exact Ei. apply (inv_icls _ _ I).
    + intros j jr Hj. destruct (Nat.eq_dec i j) as [<-|N].
      * rewrite nth_error_set_nth_eq in Hj by exact V. inversion Hj. subst jr. cbn [i_cls coll_list i_coll].
        split; [exact A|]. split; [exact B|]. unfold log'. rewrite inst_regs_del. reflexivity.
      * rewrite nth_error_set_nth_neq in Hj by exact N. destruct (inv_inst _ _ I j jr Hj) as (A' & B' & C').
        split; [exact A'|]. split; [exact B'|].
        unfold log'. rewrite inst_regs_del. rewrite (regs_del_irr _ log r (inv_keys _ _ I) Hr); [exact C'| |].
        -- intros y Hy. apply In_inst_regs in Hy. tauto.
        -- intro X. apply In_inst_regs in X. destruct X as [_ X]. unfold rel_inst in X. rewrite Et in X.
           apply Nat.eqb_eq in X. congruence.
    + reflexivity.
    + apply (inv_next _ _ I).
    + apply (inv_fired _ _ I).
    + exact K1.
    + exact K2.
    + exact K3.
    + intros r1 r2 t1 t2 H1 H2 P1 P2 Ef T1 T2 Hc. apply (inv_clash _ _ I r1 r2 t1 t2); auto.
Qed.

(* ================================================================== the refinement theorem *)
Lemma INV_init : INV init sinit.
Proof.
  constructor; cbn [init sinit classes insts k2c next_w fired s_hier s_insts s_log s_next s_fired];
    try reflexivity; try (intros; contradiction).
  - intros c Hc. cbn in Hc. lia.
  - intros c l Hc. cbn in Hc. lia.
  - intros i ir Hi. destruct i; discriminate.
  - constructor.
  - constructor.
Qed.

Lemma step_refines : forall st sp o, INV st sp -> gstep sp o = true ->
  snd (step st o) = snd (sstep sp o) /\ INV (fst (step st o)) (fst (sstep sp o)).
Proof.
  intros st sp o I G. destruct o as [bases m|c|t f fl|t f|t f|i].
  - apply step_newclass; assumption.
  - apply step_newinst; assumption.
  - destruct t; [apply step_listen_cls; assumption|apply step_listen_inst; assumption].
  - apply step_remove; assumption.
  - apply step_contains; assumption.
  - apply step_dispatch; assumption.
Qed.

Lemma run_refines : forall ops st sp, INV st sp -> guard sp ops = true ->
  snd (run st ops) = snd (srun sp ops) /\ INV (fst (run st ops)) (fst (srun sp ops)).
Proof.
  induction ops as [|o ops IH]; intros st sp I G; cbn [run srun].
  - split; [reflexivity|exact I].
  - cbn [guard] in G. apply andb_true_iff in G. destruct G as [G1 G2].
    destruct (step_refines st sp o I G1) as [E I'].
    destruct (step st o) as [st1 x] eqn:Es. destruct (sstep sp o) as [sp1 y] eqn:Ess.
    cbn [fst snd] in *. destruct (IH st1 sp1 I' G2) as [E' I''].
    destruct (run st1 ops) as [st2 xs]. destruct (srun sp1 ops) as [sp2 ys]. cbn [fst snd] in *.
    split; [congruence|exact I''].
Qed.
