(* C55: aliasing.  Functions of the dual modules that return a container return a FRESH object in both
   branches: a later mutation of an argument is not visible through the result, and vice versa.
   Reference model: a store of list objects (object identity = position); unique_list allocates. *)
From Coq Require Import List ZArith Bool Lia Arith.
Import ListNotations.
From SAV.cy Require Import Dual.
Open Scope Z_scope.

Definition store := list (list Z).
Definition a_read (st : store) (o : nat) : list Z := nth o st [].
Fixpoint a_upd (st : store) (o : nat) (v : list Z) : store :=
  match st, o with
  | [], _ => []
  | _ :: r, O => v :: r
  | x :: r, S o' => x :: a_upd r o' v
  end.
Definition hashables (l : list Z) : list elem := map H l.
Definition content (r : res (list Z)) : list Z := match r with Ok l => l | Raise _ => [] end.
(* unique_list(src): both branches build a new list object (the compiled branch a comprehension, the pure
   one list(dict)) - the result is allocated at the end of the store *)
Definition a_unique_compiled (st : store) (src : nat) : nat * store :=
  (length st, st ++ [content (ul_compiled (hashables (a_read st src)))]).
Definition a_unique_pure (st : store) (src : nat) : nat * store :=
  (length st, st ++ [content (ul_pure (hashables (a_read st src)))]).

Inductive aop := ANew (l : list Z) | AUnique (src : nat) | AOrdSet (src : nat)   (* OrderedSet(src)._list *)
               | AAppend (o : nat) (x : Z)                                        (* list.append *)
               | AAdd (o : nat) (x : Z)                                           (* OrderedSet.add *)
               | ARead (o : nat).
Fixpoint a_run (uniq : store -> nat -> nat * store) (st : store) (ops : list aop) : list (list Z) :=
  match ops with
  | [] => []
  | ANew l :: r => a_run uniq (st ++ [l]) r
  | AUnique s :: r => a_run uniq (snd (uniq st s)) r
  | AOrdSet s :: r => a_run uniq (snd (uniq st s)) r
  | AAppend o x :: r => a_run uniq (a_upd st o (a_read st o ++ [x])) r
  | AAdd o x :: r => a_run uniq (if memz x (a_read st o) then st else a_upd st o (a_read st o ++ [x])) r
  | ARead o :: r => a_read st o :: a_run uniq st r
  end.

Lemma a_read_upd_other : forall st i j v, i <> j -> a_read (a_upd st i v) j = a_read st j.
Proof.
  unfold a_read. induction st as [|x st IH]; intros [|i] [|j] v H; cbn [a_upd nth]; try reflexivity; try congruence.
  apply IH. congruence.
Qed.
Lemma a_read_app_old : forall st l o, (o < length st)%nat -> a_read (st ++ [l]) o = a_read st o.
Proof. intros. unfold a_read. apply app_nth1. assumption. Qed.
Lemma a_read_app_new : forall st l, a_read (st ++ [l]) (length st) = l.
Proof. intros. unfold a_read. rewrite app_nth2, Nat.sub_diag by lia. reflexivity. Qed.

(* the result is a new object, it holds the de-duplicated content, and neither object sees the other's later
   mutation - in BOTH branches *)
Theorem unique_list_result_is_fresh : forall uniq, (uniq = a_unique_compiled \/ uniq = a_unique_pure) ->
  forall st src x, (src < length st)%nat ->
  let '(r, st') := uniq st src in
  r <> src /\ a_read st' src = a_read st src /\
  a_read (a_upd st' src (a_read st' src ++ [x])) r = a_read st' r /\
  a_read (a_upd st' r (a_read st' r ++ [x])) src = a_read st' src.
Proof.
  intros uniq Hu st src x Hs.
  assert (exists l, uniq st src = (length st, st ++ [l])) as [l ->] by (destruct Hu; subst; eexists; reflexivity).
  repeat split.
  - lia.
  - apply a_read_app_old. assumption.
  - apply a_read_upd_other. lia.
  - apply a_read_upd_other. lia.
Qed.

Theorem alias_runs_agree : forall ops st, a_run a_unique_compiled st ops = a_run a_unique_pure st ops.
Proof.
  induction ops as [|o r IH]; intros st; [reflexivity|].
  assert (forall s, a_unique_compiled st s = a_unique_pure st s) as Hu.
  { intros s. unfold a_unique_compiled, a_unique_pure.
    assert (ul_compiled (hashables (a_read st s)) = ul_pure (hashables (a_read st s))) as ->; [|reflexivity].
    unfold ul_compiled, ul_pure.
    (* branch_equiv_unique_list is proved in DualTheorems; re-derive through the same relation *)
    generalize (hashables (a_read st s)). intros l.
    assert (forall l seen d, (forall y, memz y seen = memz y d) ->
            ul_pure_go d l = match ul_compiled_go seen l with Ok o => Ok (d ++ o) | Raise e => Raise e end) as Hrel.
    { clear. induction l as [|[x|x] l IHl]; intros seen d Hsd; cbn [ul_pure_go ul_compiled_go].
      - rewrite app_nil_r. reflexivity.
      - rewrite <- Hsd. destruct (memz x seen) eqn:E; [apply IHl; assumption|].
        rewrite (IHl (x :: seen) (d ++ [x])).
        + destruct (ul_compiled_go (x :: seen) l); [rewrite <- app_assoc|]; reflexivity.
        + intros y. unfold memz. rewrite existsb_app. cbn [existsb]. rewrite orb_false_r.
          fold (memz y seen). fold (memz y d). rewrite Hsd. apply orb_comm.
      - reflexivity. }
    rewrite (Hrel l [] [] (fun _ => eq_refl)). destruct (ul_compiled_go [] l); reflexivity. }
  destruct o; cbn [a_run]; rewrite ?Hu; first [apply IH | f_equal; apply IH].
Qed.
