(* C55: proofs about the generic pieces - the call-log monad, array fill = list comprehension,
   the specification functions the two _apply_processors pairs are compared through *)
From Coq Require Import List ZArith Bool Lia Arith.
Import ListNotations.
From SAV.cy Require Import Dual.
Open Scope Z_scope.

(* ------------------------------------------------------------------ monad laws *)
Lemma bind_ret_l : forall A B (a : A) (k : A -> M B), bind (ret a) k = k a.
Proof. intros. unfold bind, ret. destruct (k a). reflexivity. Qed.

Lemma bind_ret_r : forall A (m : M A), bind m ret = m.
Proof. intros A [t [a|e]]; unfold bind, ret; [rewrite app_nil_r|]; reflexivity. Qed.

Lemma bind_raise : forall A B e (k : A -> M B), bind (raise e) k = raise e.
Proof. reflexivity. Qed.

Lemma bind_assoc : forall A B C (m : M A) (f : A -> M B) (g : B -> M C),
  bind (bind m f) g = bind m (fun x => bind (f x) g).
Proof.
  intros A B C [t [a|e]] f g; unfold bind; [|reflexivity].
  destruct (f a) as [t1 [b|e1]]; [|reflexivity].
  destruct (g b) as [t2 r2]. rewrite app_assoc. reflexivity.
Qed.

Lemma bind_ext : forall A B (m : M A) (f g : A -> M B), (forall a, f a = g a) -> bind m f = bind m g.
Proof. intros A B [t [a|e]] f g Hfg; unfold bind; [rewrite Hfg|]; reflexivity. Qed.

(* ------------------------------------------------------------------ array fill = comprehension over range(n) *)
Lemma finish_map_some : forall l, finish (map Some l) = Ok l.
Proof. induction l as [|x l IH]; cbn [map finish]; [|rewrite IH]; reflexivity. Qed.

Lemma set_slot_at : forall (done : list Z) k v,
  set_slot (map Some done ++ None :: repeat None k) (length done) v
  = Some (map Some (done ++ [v]) ++ repeat None k).
Proof.
  induction done as [|x d IH]; intros k v; cbn [map app length set_slot]; [reflexivity|].
  rewrite IH. reflexivity.
Qed.

Lemma fill_from_spec : forall step k i done, length done = i ->
  bind (fill_from step k i (map Some done ++ repeat None k)) (fun a => ([], finish a))
  = bind (mapM step (seq i k)) (fun vs => ret (done ++ vs)).
Proof.
  intros step k. induction k as [|k IH]; intros i done Hi.
  - cbn [fill_from seq mapM repeat]. rewrite !bind_ret_l, !app_nil_r, finish_map_some. reflexivity.
  - cbn [fill_from seq mapM repeat]. rewrite !bind_assoc. apply bind_ext. intros v.
    subst i. rewrite set_slot_at. rewrite IH by (rewrite app_length; cbn [length]; lia).
    rewrite bind_assoc. apply bind_ext. intros vs. rewrite bind_ret_l, <- app_assoc. reflexivity.
Qed.

Theorem cfill_is_comprehension : forall n step, cfill n step = mapM step (seq 0 n).
Proof.
  intros. unfold cfill. pose proof (fill_from_spec step n 0 [] eq_refl) as Hs.
  cbn [map app] in Hs. rewrite Hs.
  rewrite <- (bind_ret_r _ (mapM step (seq 0 n))) at 2. apply bind_ext. reflexivity.
Qed.

Lemma mapM_seq_nth : forall (g : Z -> M Z) e (l pre : list Z),
  mapM (fun i => match nth_error (pre ++ l) i with Some r => g r | None => raise e end)
       (seq (length pre) (length l)) = mapM g l.
Proof.
  intros g e l. induction l as [|x l IH]; intros pre; cbn [length seq mapM]; [reflexivity|].
  rewrite nth_error_app2, Nat.sub_diag by lia. cbn [nth_error].
  apply bind_ext. intros v.
  specialize (IH (pre ++ [x])). rewrite <- app_assoc, app_length in IH. cbn [app length] in IH.
  replace (length pre + 1)%nat with (S (length pre)) in IH by lia. rewrite IH. reflexivity.
Qed.

(* ------------------------------------------------------------------ the two specifications *)
(* what the compiled loop computes: stops at len(procs), reads data unchecked *)
Fixpoint spec_c (ps : list proc) (data : list Z) : M (list Z) :=
  match ps, data with
  | [], _ => ret []
  | _ :: _, [] => raise UB
  | p :: ps', d :: r => bind (apply_proc p d) (fun v => bind (spec_c ps' r) (fun vs => ret (v :: vs)))
  end.
(* what the pure result loop computes: the whole row is kept, only proc_valid positions are touched *)
Fixpoint spec_keep (ps : list proc) (data : list Z) : M (list Z) :=
  match ps, data with
  | [], _ => ret data
  | None :: ps', [] => spec_keep ps' []
  | None :: ps', d :: r => bind (spec_keep ps' r) (fun vs => ret (d :: vs))
  | Some f :: ps', [] => raise IndexError
  | Some f :: ps', d :: r => bind (callf f d) (fun v => bind (spec_keep ps' r) (fun vs => ret (v :: vs)))
  end.

Lemma ap_step_spec : forall ps pp dp ds, length pp = length dp ->
  mapM (ap_step (pp ++ ps) (dp ++ ds)) (seq (length pp) (length ps)) = spec_c ps ds.
Proof.
  induction ps as [|p ps IH]; intros pp dp ds Hl; cbn [length seq mapM spec_c]; [reflexivity|].
  unfold ap_step at 1. rewrite nth_error_app2, Nat.sub_diag by lia. cbn [nth_error].
  rewrite Hl, nth_error_app2, Nat.sub_diag by lia.
  destruct ds as [|d r]; cbn [nth_error]; [reflexivity|].
  apply bind_ext. intros v.
  specialize (IH (pp ++ [p]) (dp ++ [d]) r). rewrite <- !app_assoc, !app_length in IH. cbn [app length] in IH.
  rewrite <- Hl. replace (length pp + 1)%nat with (S (length pp)) in IH by lia.
  rewrite IH by lia. reflexivity.
Qed.

Lemma ap_compiled_spec : forall procs data, cfill (length procs) (ap_step procs data) = spec_c procs data.
Proof. intros. rewrite cfill_is_comprehension. exact (ap_step_spec procs [] [] data eq_refl). Qed.

Lemma set_nth_at : forall (done : list Z) d r v, set_nth (done ++ d :: r) (length done) v = done ++ v :: r.
Proof. induction done as [|x dn IH]; intros; cbn [app length set_nth]; [|rewrite IH]; reflexivity. Qed.

Lemma ap_row_pure_loop_spec : forall ps pp done ds, length pp = length done -> length ps = length ds ->
  ap_row_pure_loop (pp ++ ps) (length ps) (length pp) (done ++ ds)
  = bind (spec_c ps ds) (fun vs => ret (done ++ vs)).
Proof.
  induction ps as [|p ps IH]; intros pp done ds Hl Hn.
  - destruct ds; [|discriminate]. cbn [length ap_row_pure_loop spec_c]. rewrite bind_ret_l. reflexivity.
  - destruct ds as [|d r]; [discriminate|]. cbn [length ap_row_pure_loop spec_c].
    rewrite nth_error_app2, Nat.sub_diag by lia. cbn [nth_error].
    assert (IH' := IH (pp ++ [p]) (done ++ [d]) r). rewrite <- !app_assoc, !app_length in IH'.
    cbn [app length] in IH'. replace (length pp + 1)%nat with (S (length pp)) in IH' by lia.
    destruct p as [f|].
    + rewrite Hl, nth_error_app2, Nat.sub_diag by lia. cbn [nth_error apply_proc].
      rewrite bind_assoc. apply bind_ext. intros v.
      rewrite set_nth_at. rewrite <- Hl.
      specialize (IH (pp ++ [Some f]) (done ++ [v]) r). rewrite <- !app_assoc, !app_length in IH.
      cbn [app length] in IH. replace (length pp + 1)%nat with (S (length pp)) in IH by lia.
      rewrite IH by (cbn [length] in Hn; lia).
      rewrite bind_assoc. apply bind_ext. intros vs. rewrite bind_ret_l, <- app_assoc. reflexivity.
    + cbn [apply_proc]. rewrite bind_ret_l, bind_assoc.
      rewrite IH' by (cbn [length] in Hn; lia).
      apply bind_ext. intros vs. rewrite bind_ret_l, <- app_assoc. reflexivity.
Qed.

(* the pure result loop, once the row is exhausted: every further valid index is an IndexError *)
Lemma ap_res_pure_loop_short : forall ps pp r, (length r <= length pp)%nat ->
  ap_res_pure_loop (pp ++ ps) (valid_from (length pp) ps) r
  = bind (spec_keep ps []) (fun vs => ret (r ++ vs)).
Proof.
  induction ps as [|p ps IH]; intros pp r Hl.
  - cbn [valid_from ap_res_pure_loop spec_keep]. rewrite bind_ret_l, app_nil_r. reflexivity.
  - assert (IH' := IH (pp ++ [p]) r). rewrite <- app_assoc, app_length in IH'. cbn [app length] in IH'.
    replace (length pp + 1)%nat with (S (length pp)) in IH' by lia.
    destruct p as [f|]; cbn [valid_from spec_keep].
    + cbn [ap_res_pure_loop]. rewrite nth_error_app2, Nat.sub_diag by lia. cbn [nth_error].
      destruct (nth_error r (length pp)) eqn:E; [|reflexivity].
      assert (nth_error r (length pp) <> None) as Hn by congruence.
      apply nth_error_Some in Hn. lia.
    + apply IH'. lia.
Qed.

Lemma ap_res_pure_loop_spec : forall ps pp done ds, length pp = length done ->
  ap_res_pure_loop (pp ++ ps) (valid_from (length pp) ps) (done ++ ds)
  = bind (spec_keep ps ds) (fun vs => ret (done ++ vs)).
Proof.
  induction ps as [|p ps IH]; intros pp done ds Hl.
  - cbn [valid_from ap_res_pure_loop spec_keep]. rewrite bind_ret_l. reflexivity.
  - destruct ds as [|d r].
    + rewrite app_nil_r. apply ap_res_pure_loop_short. lia.
    + assert (IHg := fun q x => IH (pp ++ [q]) (done ++ [x]) r).
      destruct p as [f|]; cbn [valid_from spec_keep].
      * cbn [ap_res_pure_loop]. rewrite nth_error_app2, Nat.sub_diag by lia. cbn [nth_error].
        rewrite Hl, nth_error_app2, Nat.sub_diag by lia. cbn [nth_error].
        rewrite bind_assoc. apply bind_ext. intros v. rewrite set_nth_at, <- Hl.
        specialize (IHg (Some f) v). rewrite <- !app_assoc, !app_length in IHg. cbn [app length] in IHg.
        replace (length pp + 1)%nat with (S (length pp)) in IHg by lia. rewrite IHg by lia.
        rewrite bind_assoc. apply bind_ext. intros vs. rewrite bind_ret_l, <- app_assoc. reflexivity.
      * specialize (IHg None d). rewrite <- !app_assoc, !app_length in IHg. cbn [app length] in IHg.
        replace (length pp + 1)%nat with (S (length pp)) in IHg by lia. rewrite IHg by lia.
        rewrite bind_assoc. apply bind_ext. intros vs. rewrite bind_ret_l, <- app_assoc. reflexivity.
Qed.

Lemma ap_res_pure_spec : forall procs data, ap_res_pure procs data = spec_keep procs data.
Proof.
  intros. unfold ap_res_pure. pose proof (ap_res_pure_loop_spec procs [] [] data eq_refl) as Hs.
  cbn [app length] in Hs. rewrite Hs.
  rewrite <- (bind_ret_r _ (spec_keep procs data)) at 2. apply bind_ext. reflexivity.
Qed.

Lemma spec_equal_lengths : forall ps ds, length ps = length ds -> spec_c ps ds = spec_keep ps ds.
Proof.
  induction ps as [|p ps IH]; intros [|d r] Hl; try discriminate; cbn [spec_c spec_keep]; [reflexivity|].
  cbn [length] in Hl. rewrite IH by lia. destruct p as [f|]; cbn [apply_proc]; [reflexivity|].
  rewrite bind_ret_l. reflexivity.
Qed.

(* excess elements: ignored by the compiled loop, kept by the pure one *)
Lemma spec_c_excess : forall ps d1 extra, length d1 = length ps -> spec_c ps (d1 ++ extra) = spec_c ps d1.
Proof.
  induction ps as [|p ps IH]; intros [|d r] extra Hl; try discriminate; cbn [spec_c app]; [destruct extra; reflexivity|].
  cbn [length] in Hl. rewrite IH by lia. reflexivity.
Qed.

Lemma spec_keep_excess : forall ps d1 extra, length d1 = length ps ->
  spec_keep ps (d1 ++ extra) = bind (spec_c ps d1) (fun vs => ret (vs ++ extra)).
Proof.
  induction ps as [|p ps IH]; intros [|d r] extra Hl; try discriminate; cbn [spec_c spec_keep app].
  - rewrite bind_ret_l. reflexivity.
  - cbn [length] in Hl. rewrite IH by lia. destruct p as [f|]; cbn [apply_proc].
    + rewrite !bind_assoc. apply bind_ext. intros v. rewrite !bind_assoc. apply bind_ext. intros vs.
      rewrite !bind_ret_l. reflexivity.
    + rewrite bind_ret_l, !bind_assoc. apply bind_ext. intros vs. rewrite !bind_ret_l. reflexivity.
Qed.

(* a row that is too short: with processors that do not raise, the compiled loop reaches the unchecked read *)
Definition total (p : proc) : Prop := match p with None => True | Some f => forall x, exists v, snd f x = Ok v end.

Lemma spec_c_short : forall ps ds, Forall total ps -> (length ds < length ps)%nat -> snd (spec_c ps ds) = Raise UB.
Proof.
  induction ps as [|p ps IH]; intros ds Ht Hl; [cbn [length] in Hl; lia|].
  destruct ds as [|d r]; [reflexivity|]. cbn [spec_c]. inversion Ht as [|? ? Hp Hps]; subst.
  cbn [length] in Hl. specialize (IH r Hps ltac:(lia)).
  destruct p as [f|]; cbn [apply_proc].
  - destruct (Hp d) as [v Hv]. unfold callf, bind. rewrite Hv.
    destruct (spec_c ps r) as [t [a|e]]; cbn [snd] in IH; [discriminate|]. cbn. congruence.
  - rewrite bind_ret_l. unfold bind. destruct (spec_c ps r) as [t [a|e]]; cbn [snd] in IH; [discriminate|]. cbn. congruence.
Qed.

Lemma spec_keep_no_ub : forall ps ds, Forall total ps -> snd (spec_keep ps ds) <> Raise UB.
Proof.
  induction ps as [|p ps IH]; intros ds Ht; [cbn; discriminate|].
  inversion Ht as [|? ? Hp Hps]; subst.
  destruct p as [f|]; destruct ds as [|d r]; cbn [spec_keep]; try (cbn; discriminate); try (apply IH; assumption).
  - destruct (Hp d) as [v Hv]. unfold callf, bind. rewrite Hv. specialize (IH r Hps).
    destruct (spec_keep ps r) as [t [a|e]]; cbn in *; congruence.
  - specialize (IH r Hps). unfold bind. destruct (spec_keep ps r) as [t [a|e]]; cbn in *; congruence.
Qed.
