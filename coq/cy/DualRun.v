(* C55: run_case - decodes a case, runs BOTH branches of the addressed pair, encodes [compiled; pure] *)
From Coq Require Import List ZArith Bool.
Import ListNotations.
From SAV.base Require Import Tree.
From SAV.cy Require Import Dual DualAlias.
Open Scope Z_scope.

Definition exn_code (e : exn) : Z :=
  match e with
  | TypeError => 1 | IndexError => 2 | OverflowError => 3 | AssertionError => 4
  | AttributeError => 5 | KeyError => 6 | ValueError => 7 | UB => 8
  end.
Definition enc_res {A} (f : A -> tree) (r : res A) : tree :=
  match r with Ok a => L [I 0; f a] | Raise e => L [I 1; I (exn_code e)] end.
Definition enc_zs (l : list Z) : tree := L (map I l).
Definition enc_M (m : M (list Z)) : tree :=
  L [L (map (fun c : call => L [I (fst c); I (snd c)]) (fst m)); enc_res enc_zs (snd m)].

(* the callables the harness hands in, by code (the theorems hold for every callable) *)
(* Python's None among the values: arithmetic on it is a TypeError; 5 is NOT None-preserving (a TypeDecorator
   translating NULL), 6 passes everything through (only its calls are observable) *)
Definition none_code : Z := -1000.
Definition fn_of (k : Z) : fn :=
  (k, fun x =>
        let isnone := x =? none_code in
        match k with
        | 1 => if isnone then Raise TypeError else Ok (x + 10)
        | 2 => if isnone then Raise TypeError else if Z.odd x then Raise ValueError else Ok (2 * x)
        | 3 => Raise TypeError
        | 5 => if isnone then Ok 77 else Ok (x + 1)
        | 6 => Ok x
        | _ => if isnone then Raise TypeError else Ok (- x)
        end).
Definition dec_proc (t : tree) : option proc :=
  match t with I 0 => Some None | I k => if 0 <? k then Some (Some (fn_of k)) else None | _ => None end.
Definition dec_elem (t : tree) : option elem :=
  match t with I z => Some (H z) | L [I z] => Some (U z) | _ => None end.
Definition dec_name (t : tree) : option name := as_list_of as_Z t.
Definition dec_k2i (t : tree) : option (name * option Z) :=
  match t with
  | L [n; v] => match dec_name n, as_optZ v with Some n', Some v' => Some (n', v') | _, _ => None end
  | _ => None
  end.
Definition dec_amop (t : tree) : option am_op :=
  match t with L [I 0; I k] => Some (Get k) | L [I 1; I k] => Some (GetAnon k) | _ => None end.
Definition dec_pair (t : tree) : option (Z * Z) := as_pair_of as_Z as_Z t.

Definition enc_attr (a : attr_res) : tree :=
  match a with
  | Val z => L [I 0; I z]
  | Err e => L [I 1; I (exn_code e)]
  | ClassAttr n => L [I 2; enc_zs n]
  end.
Definition enc_am (r : am * list (Z * bool)) : tree :=
  L [L (map (fun o : Z * bool => L [I (fst o); of_bool (snd o)]) (snd r)); I (am_index (fst r));
     of_nat (length (am_dict (fst r)))].
Definition enc_getter (g : getter) : tree :=
  match g with GSlice a b => L [I 0; I a; I b] | GItems l => L [I 1; enc_zs l] end.
Definition enc_pairs (d : list (Z * Z)) : tree := L (map (fun kv : Z * Z => L [I (fst kv); I (snd kv)]) d).

Definition dec_aop (t : tree) : option aop :=
  match t with
  | L [I 0; l] => match as_list_of as_Z l with Some l' => Some (ANew l') | None => None end
  | L [I 1; I o] => if 0 <=? o then Some (AUnique (Z.to_nat o)) else None
  | L [I 2; I o] => if 0 <=? o then Some (AOrdSet (Z.to_nat o)) else None
  | L [I 3; I o; I x] => if 0 <=? o then Some (AAppend (Z.to_nat o) x) else None
  | L [I 4; I o; I x] => if 0 <=? o then Some (AAdd (Z.to_nat o) x) else None
  | L [I 5; I o] => if 0 <=? o then Some (ARead (Z.to_nat o)) else None
  | _ => None
  end.
Definition enc_reads (l : list (list Z)) : tree := L (map enc_zs l).
Definition both (a b : tree) : tree := L [a; b].

Definition run_case (t : tree) : tree :=
  match t with
  | L [I 0; seq] =>
      match as_list_of dec_elem seq with
      | Some l => both (enc_res enc_zs (ul_compiled l)) (enc_res enc_zs (ul_pure l))
      | None => bad_input
      end
  | L [I 1; ps; ds] =>
      match as_list_of dec_proc ps, as_list_of as_Z ds with
      | Some p, Some d => both (enc_M (ap_row_compiled p d)) (enc_M (ap_row_pure p d))
      | _, _ => bad_input
      end
  | L [I 2; ps; ds] =>
      match as_list_of dec_proc ps, as_list_of as_Z ds with
      | Some p, Some d => both (enc_M (ap_res_compiled p d)) (enc_M (ap_res_pure p d))
      | _, _ => bad_input
      end
  | L [I 3; I k; rows] =>
      match as_list_of as_Z rows with
      | Some r => both (enc_M (many_compiled (fn_of k) r)) (enc_M (many_pure (fn_of k) r))
      | None => bad_input
      end
  | L [I 4; ca; k; ds; n] =>
      match as_list_of dec_name ca, as_list_of dec_k2i k, as_list_of as_Z ds, dec_name n with
      | Some ca', Some k', Some d, Some n' =>
          let r := set_attrs_compiled ca' k' d in
          both (enc_attr (getattr_compiled r n')) (enc_attr (getattr_pure (set_attrs_pure ca' k' d) n'))
      | _, _, _, _ => bad_input
      end
  | L [I 5; I start; ops] =>
      match as_list_of dec_amop ops with
      | Some o =>
          let s := {| am_dict := []; am_index := start |} in
          both (enc_am (am_compiled s o)) (enc_am (am_pure s o))
      | None => bad_input
      end
  | L [I 6; I addr] => both (I (get_id_compiled addr)) (I (get_id_pure addr))
  | L [I 7; l; I pos; I x] =>
      match as_list_of as_Z l with
      | Some l' => both (enc_res enc_zs (os_insert_compiled l' pos x)) (enc_res enc_zs (os_insert_pure l' pos x))
      | None => bad_input
      end
  | L [I 8; l; I key] =>
      match as_list_of as_Z l with
      | Some l' => both (enc_res I (os_getitem_compiled l' key)) (enc_res I (os_getitem_pure l' key))
      | None => bad_input
      end
  | L [I 9; idx] =>
      match as_list_of as_Z idx with
      | Some i => both (enc_res enc_getter (tg_compiled i)) (enc_res enc_getter (tg_pure i))
      | None => bad_input
      end
  | L [I 10; a; b] =>
      match as_list_of dec_pair a, as_list_of dec_pair b with
      | Some a', Some b' => both (enc_pairs (pydict_update_compiled a' b')) (enc_pairs (pydict_update_pure a' b'))
      | _, _ => bad_input
      end
  | L [I 11; ops] =>
      match as_list_of dec_aop ops with
      | Some o => both (enc_reads (a_run a_unique_compiled [] o)) (enc_reads (a_run a_unique_pure [] o))
      | None => bad_input
      end
  | _ => bad_input
  end.
