(* C55, T1 reference tables: the `if cython.compiled:` sites and the C-typed names of the seven dual
   modules as the model was written against them.  The per-run extraction (Gen_C55.v) must equal them.
   module index: 0 util/_collections_cy 1 util/_immutabledict_cy 2 engine/_processors_cy 3 engine/_result_cy
   4 engine/_row_cy 5 engine/_util_cy 6 sql/_util_cy.  A site is (module, enclosing scope - its ASCII bytes packed big-endian into one integer -, model pair):
   0 _collections_cy.py @ unique_list -> pair 1
   0 _collections_cy.py @ <module> -> pair 7
   1 _immutabledict_cy.py @ <module> -> pair 10
   3 _result_cy.py @ <module> -> pair 0
   3 _result_cy.py @ BaseResultInternal._row_getter -> pair 4
   3 _result_cy.py @ BaseResultInternal._row_getter -> pair 4
   3 _result_cy.py @ BaseResultInternal._row_getter -> pair 4
   3 _result_cy.py @ @_apply_processors -> pair 3
   4 _row_cy.py @ BaseRow -> pair 5
   4 _row_cy.py @ BaseRow._set_attrs -> pair 5
   4 _row_cy.py @ BaseRow -> pair 5
   4 _row_cy.py @ @_apply_processors -> pair 2
   6 _util_cy.py @ <module> -> pair 7
   6 _util_cy.py @ anon_map -> pair 6
   6 _util_cy.py @ anon_map -> pair 6
   model pairs: 1 unique_list 2 _row_cy._apply_processors 3 _result_cy._apply_processors 4 many_rows*/interim_rows
   5 BaseRow (__getattribute__/_set_attrs/C attribute declarations) 6 anon_map (__getitem__, _index) 7 _get_id
   10 PyDict_Update; 0 = cimports only.
   typed names (module, qualified name, C type code 1 Py_ssize_t 2 Py_hash_t 3 uint 4 ulonglong 5 bint 6 char):
   0 OrderedSet.insert.pos : code 1
   0 OrderedSet.__getitem__.key : code 1
   3 BaseResultInternal._row_getter.flag : code 6
   3 BaseResultInternal._row_getter.proc_size : code 1
   3 BaseResultInternal._row_getter.has_log_row : code 5
   3 BaseResultInternal._row_getter.many_rows_simple.size : code 2
   3 BaseResultInternal._row_getter.many_rows_simple.i : code 1
   3 BaseResultInternal._row_getter.first_row : code 5
   3 BaseResultInternal._row_getter.many_rows.size : code 2
   3 BaseResultInternal._row_getter.many_rows.i : code 1
   3 BaseResultInternal._row_getter.interim_rows.size : code 2
   3 BaseResultInternal._row_getter.interim_rows.i : code 1
   3 _apply_processors.proc_size : code 1
   3 _apply_processors.i : code 1
   3 _apply_unique_strategy.i : code 1
   3 _apply_unique_strategy.has_strategy : code 5
   4 BaseRow._get_by_key_impl.attr_err : code 5
   4 _apply_processors.proc_size : code 1
   4 _apply_processors.i : code 1
   5 _is_contiguous.i : code 1
   5 _is_contiguous.prev : code 1
   5 _is_contiguous.curr : code 1
   6 anon_map._index : code 3 *)
From Coq Require Import List ZArith Bool.
Import ListNotations.
From SAV.cy Require Import Dual.
Open Scope Z_scope.

Definition known_sites : list site := [
  (0, 141965726291707172993201012, 1);
  (0, 0, 7);
  (1, 0, 10);
  (3, 0, 0);
  (3, 458142526309828516410957056207183004509519081566494623194997478286189938, 4);
  (3, 458142526309828516410957056207183004509519081566494623194997478286189938, 4);
  (3, 458142526309828516410957056207183004509519081566494623194997478286189938, 4);
  (3, 5607642643423208312379001103930137198424691, 3);
  (4, 18684496711937911, 5);
  (4, 5782571648400994085292129384066837170647667, 5);
  (4, 18684496711937911, 5);
  (4, 5607642643423208312379001103930137198424691, 2);
  (6, 0, 7);
  (6, 7020671388955271536, 6);
  (6, 7020671388955271536, 6)
].
Definition known_ctypes : list site := [
  (0, 116111693208802943191677857774889545049936525029235, 1);
  (0, 127666156803838448721101378126457265591473765413440632367310201, 1);
  (3, 503733034856328458586434522232392909991783673860109019131483443210663913710779392359, 6);
  (3, 553860329119426249795283625531779189820667522031589968938076086414150335445986757893243175271013, 1);
  (3, 36297790529170718706583707682850680984087266723862280204325754399237756383778436552006859603490008951, 5);
  (3, 43881336165677835539777179770888405831703849266848480324245969017622816850889444496528946463912590955232622195149895151221349, 2);
  (3, 2615531454424729081379007087402844776612749652078657169595120490647722294979658394845065263742958960248984229275577961, 1);
  (3, 553860329119426249795283625531779189820667522031589968938076086414150335445801642796266713935735, 5);
  (3, 608975872030651448615595485876045370617124636675849829240497315918962074206131136707278262763972872951659109, 2);
  (3, 36297790529170718706583707682850680984087266723862280204325754399237756383784481090741053984401993321, 1);
  (3, 10216919743846597974136746435167362408643553328432254568730939416592665214762946786109433142875836955043268531944037, 2);
  (3, 608975872030651448615595485876045370617124636675849829240497315918962074206051038867797442846050080957607529, 1);
  (3, 39237312018687893958003685045204539634871054208335843457583643237, 1);
  (3, 2127058946657650409149008168094716521977425513, 1);
  (3, 2338726044815057157663042427895171138108192973062676229737, 1);
  (3, 723800652949023471781919605804917646191777163605816254120113759704052810238260504441, 5);
  (4, 7686356122686730597032894651845589358830916180230556108801100001708512718975602, 5);
  (4, 39237312018687893958003685045204539634871054208335843457583643237, 1);
  (4, 2127058946657650409149008168094716521977425513, 1);
  (5, 126824190804266751970089180433357155945, 1);
  (5, 2127756843148397019420611719393406610559886710, 1);
  (5, 2127756843148397019420611719393406610341982834, 1);
  (6, 505892688819034615631223785036998008, 3)
].
(* pairs for which props/C55.v holds a branch_equiv theorem (0: nothing to prove, declarations only) *)
Definition proved_pairs : list Z := [0; 1; 2; 3; 4; 5; 6; 7; 10].
