(* C55 - compiled and pure-Python implementations are interchangeable.

   MODEL.  For every `if cython.compiled:` pair of the seven dual modules (and for the functions whose
   signature carries a C type) two Gallina definitions: [..._compiled] is the compiled branch with the C
   semantics made explicit (conversion of a Python int to Py_ssize_t raises OverflowError outside
   [-2^63, 2^63); arithmetic in `unsigned int` wraps at 2^32; PyList_New/PyTuple_New allocate NULL slots
   that SET_ITEM fills exactly once; an unchecked read (boundscheck(False)) outside the object is the
   distinct result [UB]) and [..._pure] is the Python fallback.  Callables handed in by the caller
   (result processors, the row constructor) may raise and are observable: every call is logged. *)
From Coq Require Import List ZArith Bool Lia.
Import ListNotations.
Open Scope Z_scope.

Inductive exn := TypeError | IndexError | OverflowError | AssertionError | AttributeError | KeyError
               | ValueError | UB.
Inductive res (A : Type) := Ok (a : A) | Raise (e : exn).
Arguments Ok {A}.
Arguments Raise {A}.

(* ------------------------------------------------------------------ C integer types *)
Definition ssize_min : Z := - 2 ^ 63.
Definition ssize_max : Z := 2 ^ 63 - 1.
Definition in_ssize (z : Z) : bool := (ssize_min <=? z) && (z <=? ssize_max).
(* __Pyx_PyIndex_AsSsize_t on a Python int *)
Definition to_ssize (z : Z) : res Z := if in_ssize z then Ok z else Raise OverflowError.
(* result of signed 64-bit arithmetic as the machine computes it (two's complement) *)
Definition wrap_ssize (z : Z) : Z := (z - ssize_min) mod 2 ^ 64 + ssize_min.
Definition uint_mod : Z := 2 ^ 32.
Definition wrap_uint (z : Z) : Z := z mod uint_mod.
Definition ulonglong_mod : Z := 2 ^ 64.

(* ------------------------------------------------------------------ effects: a log of calls *)
Definition call := (Z * Z)%type.                 (* (which callable, its argument) *)
Definition M (A : Type) := (list call * res A)%type.
Definition ret {A} (a : A) : M A := ([], Ok a).
Definition raise {A} (e : exn) : M A := ([], Raise e).
Definition bind {A B} (m : M A) (k : A -> M B) : M B :=
  match m with
  | (t, Ok a) => let '(t', r) := k a in (t ++ t', r)
  | (t, Raise e) => (t, Raise e)
  end.
Definition fn := (Z * (Z -> res Z))%type.         (* a callable: identity for the log, behaviour *)
Definition callf (f : fn) (x : Z) : M Z := ([(fst f, x)], snd f x).

(* [f(x) for x in l] *)
Fixpoint mapM {A} (f : A -> M Z) (l : list A) : M (list Z) :=
  match l with
  | [] => ret []
  | x :: r => bind (f x) (fun v => bind (mapM f r) (fun vs => ret (v :: vs)))
  end.

(* ------------------------------------------------------------------ PyList_New / PyTuple_New + SET_ITEM *)
Definition slots := list (option Z).              (* None = NULL *)
Fixpoint set_slot (a : slots) (i : nat) (v : Z) : option slots :=
  match a, i with
  | [], _ => None                                 (* outside the allocation *)
  | None :: r, O => Some (Some v :: r)
  | Some _ :: _, O => None                        (* slot already filled: the old reference leaks *)
  | s :: r, S i' => match set_slot r i' v with Some r' => Some (s :: r') | None => None end
  end.
Fixpoint finish (a : slots) : res (list Z) :=
  match a with
  | [] => Ok []
  | None :: _ => Raise UB                         (* a NULL slot escapes to Python *)
  | Some v :: r => match finish r with Ok l => Ok (v :: l) | Raise e => Raise e end
  end.
(* k more iterations of:  v = step(i); SET_ITEM(a, i, v); i += 1 *)
Fixpoint fill_from (step : nat -> M Z) (k i : nat) (a : slots) : M slots :=
  match k with
  | O => ret a
  | S k' => bind (step i) (fun v =>
              match set_slot a i v with
              | Some a' => fill_from step k' (S i) a'
              | None => raise UB
              end)
  end.
(* a = New(n); for i in range(n): SET_ITEM(a, i, step(i)); return a *)
Definition cfill (n : nat) (step : nat -> M Z) : M (list Z) :=
  bind (fill_from step n 0 (repeat None n)) (fun a => ([], finish a)).

(* ------------------------------------------------------------------ 1. util._collections_cy.unique_list *)
Inductive elem := H (z : Z) | U (z : Z).          (* hashable / unhashable *)
Definition memz (x : Z) (l : list Z) : bool := existsb (Z.eqb x) l.

(* seen = set(); [x for x in seq if x not in seen and not set.add(seen, x)] *)
Fixpoint ul_compiled_go (seen : list Z) (l : list elem) : res (list Z) :=
  match l with
  | [] => Ok []
  | U _ :: _ => Raise TypeError
  | H x :: r =>
      if memz x seen then ul_compiled_go seen r
      else match ul_compiled_go (x :: seen) r with Ok o => Ok (x :: o) | Raise e => Raise e end
  end.
Definition ul_compiled (l : list elem) : res (list Z) := ul_compiled_go [] l.
(* list(dict.fromkeys(seq)): a dict is its keys in insertion order *)
Fixpoint ul_pure_go (d : list Z) (l : list elem) : res (list Z) :=
  match l with
  | [] => Ok d
  | U _ :: _ => Raise TypeError
  | H x :: r => ul_pure_go (if memz x d then d else d ++ [x]) r
  end.
Definition ul_pure (l : list elem) : res (list Z) := ul_pure_go [] l.

(* ------------------------------------------------------------------ 2. engine._row_cy._apply_processors *)
Definition proc := option fn.
Definition apply_proc (p : proc) (x : Z) : M Z :=
  match p with None => ret x | Some f => callf f x end.

(* the loop body shared by both compiled _apply_processors: p = proc[i]; value = p(data[i]) or data[i]
   - both reads are unchecked (boundscheck(False), exact tuple/list) *)
Definition ap_step (procs : list proc) (data : list Z) (i : nat) : M Z :=
  match nth_error procs i with
  | None => raise UB
  | Some p => match nth_error data i with None => raise UB | Some d => apply_proc p d end
  end.
Definition ap_row_compiled (procs : list proc) (data : list Z) : M (list Z) :=
  if Nat.eqb (length data) (length procs) then cfill (length procs) (ap_step procs data)
  else raise AssertionError.

Fixpoint set_nth (l : list Z) (i : nat) (v : Z) : list Z :=
  match l, i with
  | [], _ => []
  | _ :: r, O => v :: r
  | x :: r, S i' => x :: set_nth r i' v
  end.
(* res = list(data); assert len(res) == proc_size
   for i in range(proc_size): p = proc[i]; if p is not None: res[i] = p(res[i])
   return tuple(res) *)
Fixpoint ap_row_pure_loop (procs : list proc) (k i : nat) (r : list Z) : M (list Z) :=
  match k with
  | O => ret r
  | S k' =>
      match nth_error procs i with
      | None => raise IndexError
      | Some None => ap_row_pure_loop procs k' (S i) r
      | Some (Some f) =>
          match nth_error r i with
          | None => raise IndexError
          | Some d => bind (callf f d) (fun v => ap_row_pure_loop procs k' (S i) (set_nth r i v))
          end
      end
  end.
Definition ap_row_pure (procs : list proc) (data : list Z) : M (list Z) :=
  if Nat.eqb (length data) (length procs) then ap_row_pure_loop procs (length procs) 0 data
  else raise AssertionError.

(* ------------------------------------------------------------------ 3. engine._result_cy._apply_processors
   called from single_row / single_interim_row with proc_size = len(processors),
   proc_valid = tuple(i for i, p in enumerate(processors) if p is not None); the length of the row is
   asserted for the FIRST row of single_row only *)
Definition ap_res_compiled (procs : list proc) (data : list Z) : M (list Z) :=
  cfill (length procs) (ap_step procs data).
Fixpoint valid_from (i : nat) (procs : list proc) : list nat :=
  match procs with
  | [] => []
  | None :: r => valid_from (S i) r
  | Some _ :: r => i :: valid_from (S i) r
  end.
(* res = list(data); for i in proc_valid: res[i] = proc[i](res[i]); return tuple(res) *)
Fixpoint ap_res_pure_loop (procs : list proc) (valid : list nat) (r : list Z) : M (list Z) :=
  match valid with
  | [] => ret r
  | i :: vs =>
      match nth_error procs i with
      | Some (Some f) =>
          match nth_error r i with
          | None => raise IndexError
          | Some d => bind (callf f d) (fun v => ap_res_pure_loop procs vs (set_nth r i v))
          end
      | _ => raise TypeError                      (* None(...) - unreachable for proc_valid *)
      end
  end.
Definition ap_res_pure (procs : list proc) (data : list Z) : M (list Z) :=
  ap_res_pure_loop procs (valid_from 0 procs) data.

(* ------------------------------------------------------------------ 4. many_rows / many_rows_simple / interim_rows *)
(* size: Py_hash_t = len(rows); result = PyList_New(size)
   for i in range(size): row = make(rows[i]); Py_INCREF(row); PyList_SET_ITEM(result, i, row) *)
Definition many_compiled (make : fn) (rows : list Z) : M (list Z) :=
  match to_ssize (Z.of_nat (length rows)) with
  | Raise e => raise e
  | Ok size =>
      cfill (Z.to_nat size)
        (fun i => match nth_error rows i with Some r => callf make r | None => raise IndexError end)
  end.
(* [make(row) for row in rows] *)
Definition many_pure (make : fn) (rows : list Z) : M (list Z) := mapM (callf make) rows.

(* ------------------------------------------------------------------ 5. BaseRow attribute access *)
Definition name := list Z.                        (* code points *)
Fixpoint name_eqb (a b : name) : bool :=
  match a, b with
  | [], [] => true
  | x :: a', y :: b' => (x =? y) && name_eqb a' b'
  | _, _ => false
  end.
Definition mem_name (n : name) (l : list name) : bool := existsb (name_eqb n) l.
Record row := { class_attrs : list name;           (* what hasattr(type(self), name) answers *)
                k2i : list (name * option Z);      (* _key_to_index (a value may be None) *)
                rdata : list Z }.
Inductive attr_res := ClassAttr (n : name) | Val (z : Z) | Err (e : exn).
(* tuple indexing with a Python int: wraparound, IndexError outside *)
Definition py_getitem (d : list Z) (i : Z) : attr_res :=
  let n := Z.of_nat (length d) in
  let j := if i <? 0 then i + n else i in
  if (0 <=? j) && (j <? n)
  then match nth_error d (Z.to_nat j) with Some v => Val v | None => Err IndexError end
  else Err IndexError.
Fixpoint dict_get (d : list (name * option Z)) (n : name) : option Z :=
  match d with
  | [] => None
  | (k, v) :: r => if name_eqb n k then v else dict_get r n
  end.
(* _get_by_key_impl(key, attr_err): the parent's _key_not_found raises AttributeError / KeyError *)
Definition get_by_key_impl (r : row) (n : name) (attr_err : bool) : attr_res :=
  match dict_get (k2i r) n with
  | Some idx => py_getitem (rdata r) idx
  | None => Err (if attr_err then AttributeError else KeyError)
  end.
(* object.__getattribute__ on an instance without __dict__, then the __getattr__ hook *)
Definition generic_getattr (r : row) (n : name) : attr_res :=
  if mem_name n (class_attrs r) then ClassAttr n else get_by_key_impl r n true.
Definition getattr_pure (r : row) (n : name) : attr_res := generic_getattr r n.
(* compiled: __getattribute__ with the fast path, falling back on object.__getattribute__ / __getattr__ *)
Definition getattr_compiled (r : row) (n : name) : attr_res :=
  let fast :=
    match n with
    | [] => None
    | c :: _ =>
        if c =? 95 then None
        else match dict_get (k2i r) n with
             | Some idx => if negb (mem_name n (class_attrs r)) then Some (py_getitem (rdata r) idx) else None
             | None => None
             end
    end in
  match fast with Some v => v | None => generic_getattr r n end.
(* _set_attrs: C attribute stores vs object.__setattr__ - the same three slots *)
Definition set_attrs_compiled (ca : list name) (k : list (name * option Z)) (d : list Z) : row :=
  {| class_attrs := ca; k2i := k; rdata := d |}.
Definition set_attrs_pure (ca : list name) (k : list (name * option Z)) (d : list Z) : row :=
  {| class_attrs := ca; k2i := k; rdata := d |}.

(* ------------------------------------------------------------------ 6. sql._util_cy.anon_map *)
Record am := { am_dict : list (Z * Z); am_index : Z }.
Fixpoint lookup (k : Z) (d : list (Z * Z)) : option Z :=
  match d with [] => None | (k', v) :: r => if k =? k' then Some v else lookup k r end.
(* val = self._index; self._index += 1; self[key] = val; return val *)
Definition add_missing (wrap : Z -> Z) (s : am) (k : Z) : am * Z :=
  ({| am_dict := am_dict s ++ [(k, am_index s)]; am_index := wrap (am_index s + 1) |}, am_index s).
Inductive am_op := Get (k : Z) | GetAnon (k : Z).
(* both __getitem__ (compiled: explicit test; pure: dict.__getitem__ -> __missing__) and get_anon *)
Definition am_step (wrap : Z -> Z) (s : am) (o : am_op) : am * (Z * bool) :=
  match o with
  | Get k => match lookup k (am_dict s) with
             | Some v => (s, (v, true))
             | None => let '(s', v) := add_missing wrap s k in (s', (v, false))
             end
  | GetAnon k => match lookup k (am_dict s) with
                 | Some v => (s, (v, true))
                 | None => let '(s', v) := add_missing wrap s k in (s', (v, false))
                 end
  end.
Fixpoint am_run (wrap : Z -> Z) (s : am) (ops : list am_op) : am * list (Z * bool) :=
  match ops with
  | [] => (s, [])
  | o :: r => let '(s1, out) := am_step wrap s o in let '(s2, outs) := am_run wrap s1 r in (s2, out :: outs)
  end.
Definition am_compiled := am_run wrap_uint.        (* _index: cython.uint *)
Definition am_pure := am_run (fun z => z).         (* _index: int *)

(* ------------------------------------------------------------------ 7. _get_id *)
(* compiled: <unsigned long long><void*>item ; pure: id(item) = PyLong_FromVoidPtr *)
Definition get_id_compiled (addr : Z) : Z := addr mod ulonglong_mod.
Definition get_id_pure (addr : Z) : Z := addr.

(* ------------------------------------------------------------------ 8. OrderedSet.insert / __getitem__ *)
Definition zlen (l : list Z) : Z := Z.of_nat (length l).
(* list.insert(pos, x): the argument is parsed as Py_ssize_t ("n"), then clamped *)
Definition list_insert (l : list Z) (pos x : Z) : res (list Z) :=
  if in_ssize pos then
    let n := zlen l in
    let p := Z.to_nat (if pos <? 0 then Z.max 0 (pos + n) else Z.min pos n) in
    Ok (firstn p l ++ x :: skipn p l)
  else Raise OverflowError.
Definition os_insert_body (l : list Z) (pos x : Z) : res (list Z) :=
  if memz x l then Ok l else list_insert l pos x.
Definition os_insert_compiled (l : list Z) (pos x : Z) : res (list Z) :=
  match to_ssize pos with Ok p => os_insert_body l p x | Raise e => Raise e end.
Definition os_insert_pure (l : list Z) (pos x : Z) : res (list Z) := os_insert_body l pos x.
(* list.__getitem__(int): an int that does not fit an index is an IndexError *)
Definition list_getitem (l : list Z) (key : Z) : res Z :=
  if in_ssize key then
    let n := zlen l in
    let j := if key <? 0 then key + n else key in
    if (0 <=? j) && (j <? n)
    then match nth_error l (Z.to_nat j) with Some v => Ok v | None => Raise IndexError end
    else Raise IndexError
  else Raise IndexError.
Definition os_getitem_compiled (l : list Z) (key : Z) : res Z :=
  match to_ssize key with Ok k => list_getitem l k | Raise e => Raise e end.
Definition os_getitem_pure (l : list Z) (key : Z) : res Z := list_getitem l key.

(* ------------------------------------------------------------------ 9. engine._util_cy.tuplegetter *)
Inductive getter := GSlice (a b : Z) | GItems (l : list Z).
(* for i in range(1, len(indexes)): prev = indexes[i-1]; curr = indexes[i]; if prev != curr - 1: return False *)
Fixpoint contig_pure (l : list Z) : bool :=
  match l with
  | a :: ((b :: _) as r) => if a =? b - 1 then contig_pure r else false
  | _ => true
  end.
(* prev, curr: Py_ssize_t - conversion raises, `curr - 1` is machine arithmetic *)
Fixpoint contig_compiled (l : list Z) : res bool :=
  match l with
  | a :: ((b :: _) as r) =>
      match to_ssize a with
      | Raise e => Raise e
      | Ok pa => match to_ssize b with
                 | Raise e => Raise e
                 | Ok pb => if pa =? wrap_ssize (pb - 1) then contig_compiled r else Ok false
                 end
      end
  | _ => Ok true
  end.
Definition tuplegetter (contig : list Z -> res bool) (idx : list Z) : res getter :=
  match (if Nat.eqb (length idx) 1 then Ok true else contig idx) with
  | Raise e => Raise e
  | Ok true => match idx with
               | [] => Raise IndexError              (* indexes[-1] *)
               | a :: _ => Ok (GSlice a (last idx 0 + 1))
               end
  | Ok false => Ok (GItems idx)
  end.
Definition tg_compiled := tuplegetter contig_compiled.
Definition tg_pure := tuplegetter (fun l => Ok (contig_pure l)).

(* ------------------------------------------------------------------ 10. immutabledict: PyDict_Update vs dict.update *)
Fixpoint dict_set (d : list (Z * Z)) (k v : Z) : list (Z * Z) :=
  match d with
  | [] => [(k, v)]
  | (k', v') :: r => if k =? k' then (k', v) :: r else (k', v') :: dict_set r k v
  end.
Definition dict_update (a b : list (Z * Z)) : list (Z * Z) :=
  fold_left (fun acc kv => dict_set acc (fst kv) (snd kv)) b a.
Definition pydict_update_compiled := dict_update.  (* C PyDict_Update = PyDict_Merge(a, b, 1) *)
Definition pydict_update_pure := dict_update.      (* PyDict_Update = dict.update *)

(* ------------------------------------------------------------------ T1: the extracted sites *)
(* every `if cython.compiled:` site the extractor may find: (module, qualified name of the enclosing
   scope, which model pair / 0 = declarations only) - compared with the per-run extraction *)
Definition site := (Z * Z * Z)%type.               (* the name is packed: big-endian bytes as one integer *)
Definition site_eqb (a b : site) : bool :=
  let '(m1, q1, p1) := a in let '(m2, q2, p2) := b in (m1 =? m2) && (q1 =? q2) && (p1 =? p2).
Fixpoint sites_eqb (a b : list site) : bool :=
  match a, b with
  | [], [] => true
  | x :: a', y :: b' => site_eqb x y && sites_eqb a' b'
  | _, _ => false
  end.
(* C types of the typed names: (module, "qualname.var", ctype code) ; codes: 1 Py_ssize_t 2 Py_hash_t
   3 uint 4 ulonglong 5 bint 6 char *)
Definition ctype_bits (code : Z) : Z :=
  match code with 1 => 64 | 2 => 64 | 3 => 32 | 4 => 64 | 5 => 1 | 6 => 8 | _ => 0 end.
