(* C55: branch_equiv_<fn> (inside the C types' range the two branches agree on value, exception and
   call log) and range_divergence_<fn> (what happens outside) for every modelled pair *)
From Coq Require Import List ZArith Bool Lia Arith.
Import ListNotations.
From SAV.cy Require Import Dual DualProofs.
Open Scope Z_scope.

Lemma pow63 : 2 ^ 63 = 9223372036854775808. Proof. reflexivity. Qed.
Lemma pow64 : 2 ^ 64 = 18446744073709551616. Proof. reflexivity. Qed.
Lemma pow32 : 2 ^ 32 = 4294967296. Proof. reflexivity. Qed.

Lemma in_ssize_spec : forall z, in_ssize z = true <-> ssize_min <= z <= ssize_max.
Proof. intros. unfold in_ssize. rewrite andb_true_iff, !Z.leb_le. tauto. Qed.

(* ------------------------------------------------------------------ 1. unique_list *)
Lemma ul_go_rel : forall l seen d, (forall y, memz y seen = memz y d) ->
  ul_pure_go d l = match ul_compiled_go seen l with Ok o => Ok (d ++ o) | Raise e => Raise e end.
Proof.
  induction l as [|[x|x] l IH]; intros seen d Hs; cbn [ul_pure_go ul_compiled_go].
  - rewrite app_nil_r. reflexivity.
  - rewrite <- Hs. destruct (memz x seen) eqn:E.
    + apply IH. assumption.
    + rewrite (IH (x :: seen) (d ++ [x])).
      * destruct (ul_compiled_go (x :: seen) l); [rewrite <- app_assoc|]; reflexivity.
      * intros y. unfold memz. rewrite existsb_app. cbn [existsb]. rewrite orb_false_r.
        fold (memz y seen). fold (memz y d). rewrite Hs. apply orb_comm.
  - reflexivity.
Qed.

Theorem branch_equiv_unique_list : forall l, ul_compiled l = ul_pure l.
Proof.
  intros. unfold ul_compiled, ul_pure. rewrite (ul_go_rel l [] [] (fun _ => eq_refl)).
  destruct (ul_compiled_go [] l); reflexivity.
Qed.

(* ------------------------------------------------------------------ 2. _row_cy._apply_processors *)
Theorem branch_equiv_row_apply_processors : forall procs data, ap_row_compiled procs data = ap_row_pure procs data.
Proof.
  intros. unfold ap_row_compiled, ap_row_pure. destruct (Nat.eqb (length data) (length procs)) eqn:E; [|reflexivity].
  apply Nat.eqb_eq in E. rewrite ap_compiled_spec.
  pose proof (ap_row_pure_loop_spec procs [] [] data eq_refl (eq_sym E)) as Hs. cbn [app length] in Hs.
  rewrite Hs. rewrite <- (bind_ret_r _ (spec_c procs data)) at 1. apply bind_ext. reflexivity.
Qed.

(* the compiled branch never reaches undefined behaviour: the assertion protects the unchecked reads *)
Theorem row_apply_processors_compiled_defined : forall procs data, Forall total procs ->
  snd (ap_row_compiled procs data) <> Raise UB.
Proof.
  intros procs data Ht. rewrite branch_equiv_row_apply_processors. unfold ap_row_pure.
  destruct (Nat.eqb (length data) (length procs)) eqn:E; [|cbn; discriminate].
  apply Nat.eqb_eq in E.
  pose proof (ap_row_pure_loop_spec procs [] [] data eq_refl (eq_sym E)) as Hs. cbn [app length] in Hs.
  rewrite Hs, spec_equal_lengths by congruence.
  pose proof (spec_keep_no_ub procs data Ht) as Hn.
  unfold bind. destruct (spec_keep procs data) as [t [a|e]]; cbn in *; congruence.
Qed.

(* ------------------------------------------------------------------ 3. _result_cy._apply_processors *)
Theorem branch_equiv_result_apply_processors : forall procs data, length data = length procs ->
  ap_res_compiled procs data = ap_res_pure procs data.
Proof.
  intros procs data Hl. unfold ap_res_compiled. rewrite ap_compiled_spec, ap_res_pure_spec.
  apply spec_equal_lengths. congruence.
Qed.

(* a row longer than the processors: the compiled branch drops the excess, the pure one keeps it *)
Theorem range_divergence_result_apply_processors_long : forall procs d1 extra, length d1 = length procs ->
  ap_res_compiled procs (d1 ++ extra) = ap_res_compiled procs d1 /\
  ap_res_pure procs (d1 ++ extra) = bind (ap_res_compiled procs d1) (fun vs => ret (vs ++ extra)).
Proof.
  intros procs d1 extra Hl. unfold ap_res_compiled. rewrite !ap_compiled_spec, ap_res_pure_spec.
  split; [apply spec_c_excess | apply spec_keep_excess]; assumption.
Qed.

(* a row shorter than the processors: the compiled branch reads past the end of the row *)
Theorem range_divergence_result_apply_processors_short : forall procs data, Forall total procs ->
  (length data < length procs)%nat ->
  snd (ap_res_compiled procs data) = Raise UB /\ snd (ap_res_pure procs data) <> Raise UB.
Proof.
  intros procs data Ht Hl. unfold ap_res_compiled. rewrite ap_compiled_spec, ap_res_pure_spec.
  split; [apply spec_c_short | apply spec_keep_no_ub]; assumption.
Qed.

(* ------------------------------------------------------------------ 4. many_rows* / interim_rows *)
Theorem branch_equiv_many_rows : forall make rows, Z.of_nat (length rows) <= ssize_max ->
  many_compiled make rows = many_pure make rows.
Proof.
  intros make rows Hr. unfold many_compiled, many_pure, to_ssize.
  assert (in_ssize (Z.of_nat (length rows)) = true) as ->.
  { apply in_ssize_spec. unfold ssize_min. rewrite pow63. lia. }
  rewrite Nat2Z.id, cfill_is_comprehension.
  exact (mapM_seq_nth (callf make) IndexError rows []).
Qed.

(* ------------------------------------------------------------------ 5. BaseRow.__getattribute__ / __getattr__ *)
Theorem branch_equiv_baserow_getattr : forall r n, getattr_compiled r n = getattr_pure r n.
Proof.
  intros r n. unfold getattr_compiled, getattr_pure.
  destruct n as [|c n']; [reflexivity|].
  destruct (c =? 95); [reflexivity|].
  destruct (dict_get (k2i r) (c :: n')) as [idx|] eqn:E; [|reflexivity].
  destruct (mem_name (c :: n') (class_attrs r)) eqn:Em; cbn [negb]; [reflexivity|].
  unfold generic_getattr, get_by_key_impl. rewrite Em, E. reflexivity.
Qed.

Theorem branch_equiv_baserow_set_attrs : forall ca k d, set_attrs_compiled ca k d = set_attrs_pure ca k d.
Proof. reflexivity. Qed.

(* ------------------------------------------------------------------ 6. anon_map *)
Lemma am_step_in_range : forall s o, 0 <= am_index s -> am_index s + 1 < uint_mod ->
  am_step wrap_uint s o = am_step (fun z => z) s o.
Proof.
  intros s o H0 H1.
  assert (wrap_uint (am_index s + 1) = am_index s + 1) as Hw by (apply Z.mod_small; lia).
  destruct o; cbn [am_step]; destruct (lookup k (am_dict s)); try reflexivity; unfold add_missing; rewrite Hw; reflexivity.
Qed.

Lemma am_step_index : forall s o, 0 <= am_index s ->
  am_index s <= am_index (fst (am_step (fun z => z) s o)) <= am_index s + 1.
Proof.
  intros s o H0. destruct o; cbn [am_step]; destruct (lookup k (am_dict s)); cbn [fst add_missing am_index]; lia.
Qed.

Theorem branch_equiv_anon_map : forall ops s, 0 <= am_index s ->
  am_index s + Z.of_nat (length ops) < uint_mod -> am_compiled s ops = am_pure s ops.
Proof.
  unfold am_compiled, am_pure.
  induction ops as [|o r IH]; intros s H0 H1; cbn [am_run]; [reflexivity|].
  cbn [length] in H1. rewrite am_step_in_range by lia.
  pose proof (am_step_index s o H0) as Hi.
  destruct (am_step (fun z => z) s o) as [s1 out]. cbn [fst] in Hi.
  rewrite IH by lia. reflexivity.
Qed.

(* after 2^32 - 1 new keys the compiled counter is at its maximum: the next two new keys get 2^32 - 1 and
   then 0 again - the value already handed to the very first key; the pure counter goes on to 2^32 *)
Theorem range_divergence_anon_map_index : forall d k1 k2, k1 <> k2 ->
  lookup k1 d = None -> lookup k2 d = None ->
  let s := {| am_dict := d; am_index := uint_mod - 1 |} in
  snd (am_compiled s [Get k1; Get k2]) = [(uint_mod - 1, false); (0, false)] /\
  snd (am_pure s [Get k1; Get k2]) = [(uint_mod - 1, false); (uint_mod, false)].
Proof.
  intros d k1 k2 Hne H1 H2 s.
  assert (forall v, lookup k2 (d ++ [(k1, v)]) = None) as Hl.
  { intros v. clear H1. induction d as [|[k' v'] d IH]; cbn [app lookup].
    - destruct (k2 =? k1) eqn:E; [apply Z.eqb_eq in E; congruence|reflexivity].
    - cbn [lookup] in H2. destruct (k2 =? k'); [discriminate|]. apply IH. assumption. }
  unfold am_compiled, am_pure, s. cbn [am_run am_step am_dict am_index]. rewrite H1.
  cbn [add_missing am_dict am_index]. rewrite !Hl. cbn [snd].
  replace (uint_mod - 1 + 1) with uint_mod by lia.
  unfold wrap_uint. rewrite Z.mod_same by (unfold uint_mod; rewrite pow32; lia). split; reflexivity.
Qed.

(* ------------------------------------------------------------------ 7. _get_id *)
Theorem branch_equiv_get_id : forall addr, 0 <= addr < ulonglong_mod -> get_id_compiled addr = get_id_pure addr.
Proof. intros. unfold get_id_compiled, get_id_pure. apply Z.mod_small. assumption. Qed.

(* ------------------------------------------------------------------ 8. OrderedSet.insert / __getitem__ *)
Theorem branch_equiv_orderedset_insert : forall l pos x, in_ssize pos = true ->
  os_insert_compiled l pos x = os_insert_pure l pos x.
Proof. intros l pos x H. unfold os_insert_compiled, os_insert_pure, to_ssize. rewrite H. reflexivity. Qed.

(* the compiled signature converts pos before the body runs: an element that is already present makes the
   pure version return without ever looking at pos *)
Theorem range_divergence_orderedset_insert : forall l pos x, in_ssize pos = false ->
  os_insert_compiled l pos x = Raise OverflowError /\
  os_insert_pure l pos x = (if memz x l then Ok l else Raise OverflowError).
Proof.
  intros l pos x H. unfold os_insert_compiled, os_insert_pure, os_insert_body, list_insert, to_ssize.
  rewrite H. split; reflexivity.
Qed.

Theorem branch_equiv_orderedset_getitem : forall l key, in_ssize key = true ->
  os_getitem_compiled l key = os_getitem_pure l key.
Proof. intros l key H. unfold os_getitem_compiled, os_getitem_pure, to_ssize. rewrite H. reflexivity. Qed.

Theorem range_divergence_orderedset_getitem : forall l key, in_ssize key = false ->
  os_getitem_compiled l key = Raise OverflowError /\ os_getitem_pure l key = Raise IndexError.
Proof.
  intros l key H. unfold os_getitem_compiled, os_getitem_pure, list_getitem, to_ssize. rewrite H. split; reflexivity.
Qed.

(* ------------------------------------------------------------------ 9. tuplegetter *)
Definition idx_ok (z : Z) : Prop := ssize_min < z <= ssize_max.

Lemma contig_compiled_unfold : forall a b r, contig_compiled (a :: b :: r) =
  match to_ssize a with
  | Raise e => Raise e
  | Ok pa => match to_ssize b with
             | Raise e => Raise e
             | Ok pb => if pa =? wrap_ssize (pb - 1) then contig_compiled (b :: r) else Ok false
             end
  end.
Proof. reflexivity. Qed.
Lemma contig_pure_unfold : forall a b r, contig_pure (a :: b :: r) = if a =? b - 1 then contig_pure (b :: r) else false.
Proof. reflexivity. Qed.

Lemma contig_in_range : forall l, Forall idx_ok l -> contig_compiled l = Ok (contig_pure l).
Proof.
  induction l as [|a l IH]; intros Hf; [reflexivity|].
  destruct l as [|b r]; [reflexivity|].
  inversion Hf as [|? ? Ha Hr]; subst. inversion Hr as [|? ? Hb Hr']; subst.
  rewrite contig_compiled_unfold, contig_pure_unfold. unfold to_ssize.
  assert (in_ssize a = true) as -> by (apply in_ssize_spec; unfold idx_ok in Ha; lia).
  assert (in_ssize b = true) as -> by (apply in_ssize_spec; unfold idx_ok in Hb; lia).
  assert (wrap_ssize (b - 1) = b - 1) as ->.
  { unfold wrap_ssize. unfold idx_ok, ssize_min, ssize_max in *. rewrite pow63 in *. rewrite pow64.
    rewrite Z.mod_small by lia. lia. }
  destruct (a =? b - 1); [apply IH; assumption|reflexivity].
Qed.

Theorem branch_equiv_tuplegetter : forall idx, Forall idx_ok idx -> tg_compiled idx = tg_pure idx.
Proof.
  intros idx Hf. unfold tg_compiled, tg_pure, tuplegetter. rewrite contig_in_range by assumption. reflexivity.
Qed.

(* an index that does not fit Py_ssize_t: OverflowError only when compiled *)
Theorem range_divergence_tuplegetter_overflow : forall a b r, in_ssize a = false ->
  tg_compiled (a :: b :: r) = Raise OverflowError /\
  exists g, tg_pure (a :: b :: r) = Ok g.
Proof.
  intros a b r H. unfold tg_compiled, tg_pure, tuplegetter. cbn [length Nat.eqb contig_compiled]. unfold to_ssize. rewrite H.
  split; [destruct r; reflexivity|].
  destruct r; cbn [Nat.eqb]; destruct (contig_pure _); eexists; reflexivity.
Qed.

(* curr = -2^63: `curr - 1` wraps to 2^63 - 1, so (2^63 - 1, -2^63) is "contiguous" only when compiled *)
Theorem range_divergence_tuplegetter_wrap :
  tg_compiled [ssize_max; ssize_min] = Ok (GSlice ssize_max (ssize_min + 1)) /\
  tg_pure [ssize_max; ssize_min] = Ok (GItems [ssize_max; ssize_min]).
Proof. split; vm_compute; reflexivity. Qed.

(* ------------------------------------------------------------------ 10. immutabledict *)
Theorem branch_equiv_immutabledict_update : forall a b, pydict_update_compiled a b = pydict_update_pure a b.
Proof. reflexivity. Qed.
