(* C31 - flush emits statements in an order that satisfies every constraint.
   Statements only; every proof is [exact <lemma>].

   Vocabulary.  orm/FlushOrder.v (model of unitofwork.py / dependency.py after the presort phase):
   [graph] = the dependency processors (kind, parent / child base mapper, post_update, active, fk
   column), the objects (base mapper, has a row, role 0 = not in the flush / 1 = save / 2 = delete), the
   get_all_pending lists, and - database level - the fk references and secondary rows before and after
   the flush and the NOT NULL columns.  [plan T g] = Layers (the layers of sort_as_subsets over the final
   records and the final dependency set of _generate_actions, per-state break-up included) | PCircular |
   PFuel | PAssert; [std_tables] = the dependency tuples of per_property_dependencies /
   per_state_dependencies (regenerated from the source on every run and compared).
   orm/FlushOrderSpec.v (spec side): [events g] = the INSERT / UPDATE / post_update UPDATE / DELETE /
   secondary INSERT / DELETE statements of the flush, [stmt_of g e] their content, [homes g cy e] the
   record(s) that emit e, [exec nn db stmts] the reference database with IMMEDIATE foreign key and NOT
   NULL checks ([None] = a statement was rejected), [needs g] = the ordering needs that follow from the
   constraints alone.  [linearizes layers g cy tr] (orm/FlushOrderMain.v) = tr contains every statement
   once, in layer order, in ANY order inside a layer (the code's order there is sort_key order without
   cycles and set.pop() order with cycles).
   Hypotheses (all decidable, evaluated on every case of the correspondence): [wf] ids unique, the
   reference lists are functional, deleted objects have rows; [consistent] = the state after the flush
   satisfies every foreign key and NOT NULL constraint and rows the flush does not write keep their
   values (the hypothesis of the property); [managed] = every foreign key reference that
   matters is handled by an active relationship whose get_all_pending list links the two rows, EXCEPT
   the regions refuted below. *)
From Coq Require Import List NArith Bool Permutation Sorted.
Import ListNotations.
From SAV.util Require Import Topo Cycles TopoRun TopoProofs TopoCycle TopoExtra CyclesSound CyclesComplete CyclesExact.
From SAV.orm Require Import FlushOrder FlushOrderSpec FlushOrderBase FlushOrderSort FlushOrderCover FlushOrderNeeds
  FlushOrderCovered FlushOrderExec FlushOrderMain FlushOrderRefuted FlushOrderTotal FlushOrderCyc FlushOrderFinal FlushOrderLate.

(* ------------------------------------------------------------------ the property (guarded) *)
(* ANY object graph (any number of mappers and relationships of the three kinds, with or without
   post_update, mapper-level cycles broken up into per-state records on either side, inserts, updates,
   deletes and secondary rows mixed): if the state after the flush satisfies the constraints, every
   statement sequence the plan allows is accepted by a database that checks foreign keys and NOT NULL
   immediately *)
Theorem c31_plan_respects_fk_guarded : forall g cy layers tr,
  wf g = true -> consistent g = true ->
  cycles std_tables g = Some cy -> managed g cy = true ->
  plan std_tables g = Layers layers -> linearizes layers g cy tr ->
  exists d', exec (g_notnull g) (db0 g) (map (stmt_of g) tr) = Some d'.
Proof. exact plan_respects_fk_guarded_final. Qed.
Print Assumptions c31_plan_respects_fk_guarded.

(* its three parts.  A (from C19): the layers respect every path of the final dependency set *)
Theorem c31_layers_respect_paths : forall T g cy r,
  sort_as_subsets (cedges (final_edges T g cy)) (dedup (map code (final_items g cy))) = Ok r ->
  forall a b, fpath T g cy a b ->
  exists i j, lidx r (code a) = Some i /\ lidx r (code b) = Some j /\ i < j.
Proof. exact fpath_rank. Qed.
Print Assumptions c31_layers_respect_paths.

(* B (edges_cover_fk): every ordering need that follows from the constraints is covered by a path
   between the records that emit the two statements *)
Theorem c31_edges_cover_fk : forall g cy,
  wf g = true -> cyc_ok g cy = true -> managed g cy = true -> consistent g = true ->
  forall e1 e2, In (e1, e2) (needs g) ->
  forall h1 h2, In h1 (homes g cy e1) -> In h2 (homes g cy e2) -> fpath std_tables g cy h1 h2.
Proof. exact needs_covered. Qed.
Print Assumptions c31_edges_cover_fk.

(* C (database only): a sequence that contains each statement at most once and meets the needs is
   accepted; no reference to the unit of work *)
Theorem c31_needs_suffice : forall g, wf g = true -> consistent g = true ->
  forall tr, NoDup tr -> incl tr (events g) ->
  (forall e1 e2, In (e1, e2) (needs g) -> In e2 tr -> before tr e1 e2) ->
  exists d', exec (g_notnull g) (db0 g) (map (stmt_of g) tr) = Some d' /\ Inv g tr d'.
Proof. exact exec_ok. Qed.
Print Assumptions c31_needs_suffice.

(* ------------------------------------------------------------------ the defects *)
(* without [managed] the claim is false.  1: mappers A, B that depend on each other through two
   many-to-one relationships; a1.b = None; delete(b1).  When the old target b1 is LOADED the per-state edge
   (save_parent, child_action) registered since a8ba61d orders the UPDATE before the DELETE: the case is inside
   [managed] now, all hypotheses hold and the dependency is in the final set *)
Example c31_m2o_unset_delete_repaired : exists cy layers,
  wf g_m2o = true /\ consistent g_m2o = true /\ cycles std_tables g_m2o = Some cy /\ managed g_m2o cy = true /\
  plan std_tables g_m2o = Layers layers /\ linearizes layers g_m2o cy [ESave 0; EDel 1]%N /\
  exec (g_notnull g_m2o) (db0 g_m2o) (map (stmt_of g_m2o) [ESave 0; EDel 1]%N) <> None /\
  In (code (SaveSt 0), code (DelSt 1)) (cedges (final_edges std_tables g_m2o cy)).
Proof. exact m2o_unset_delete_repaired. Qed.

(* when a1.b was expired / never loaded at the time it is reset, the old target is not in get_all_pending, the
   unit of work does not know it and (the mapper-level edge being dropped by the break-up) DELETE b1 is in the
   first layer, UPDATE a1 in the second.  Every other hypothesis holds, the plan exists, the sequence is
   rejected, another order is accepted *)
Theorem c31_m2o_unset_delete_unloaded_refuted : refuted g_m2o_unloaded tr_m2o.
Proof. exact m2o_unset_delete_unloaded_refuted. Qed.
Print Assumptions c31_m2o_unset_delete_unloaded_refuted.

(* 2: one-to-many with post_update, the parent is deleted and the child survives: the UPDATE that sets
   the fk to NULL is emitted by PostUpdateAll(child, isdelete=False), which nothing orders before
   DeleteAll(parent) *)
Theorem c31_post_update_o2m_delete_parent_refuted : refuted g_post tr_post.
Proof. exact post_update_o2m_delete_parent_refuted. Qed.
Print Assumptions c31_post_update_o2m_delete_parent_refuted.

(* ------------------------------------------------------------------ the cycle set *)
(* three facts about find_cycles on these dependency tables that the code relies on, for EVERY graph: only
   per-mapper save / delete / save-processor records are on cycles ([cyc_shape]); the saves and the deletes
   of a mapper are on cycles together ([paired] - the assertion in per_state_flush_actions, which therefore
   never fires); a processor is on a cycle only together with the save record of its parent mapper
   ([procs_follow]).  B uses them as [cyc_ok]; here they are discharged *)
Theorem c31_cycle_set_facts : forall g cy, wf g = true -> cycles std_tables g = Some cy -> cyc_ok g cy = true.
Proof. exact cyc_ok_always. Qed.
Print Assumptions c31_cycle_set_facts.

Theorem c31_assertion_never_fires : forall g, wf g = true -> plan std_tables g <> PAssert.
Proof. exact plan_never_asserts. Qed.
Print Assumptions c31_assertion_never_fires.

(* no dependency of the final set leads from a delete record back to a save record: the records reachable
   from a delete are deletes, post_update UPDATEs of surviving rows and the save-processors of post_update
   one-to-many relationships ([late]).  So a save -> delete dependency - in particular the
   (save_parent, child_action) edge of the repair - lies on no cycle and cannot cause a CircularDependencyError *)
Theorem c31_no_dependency_from_delete_to_save : forall g cy, NoDup (map d_id (g_deps g)) ->
  forall a b, In (a, b) (final_edges std_tables g cy) -> late g a = true -> late g b = true.
Proof. exact final_edges_late. Qed.
Print Assumptions c31_no_dependency_from_delete_to_save.

Theorem c31_save_to_delete_edge_on_no_cycle : forall g cy, NoDup (map d_id (g_deps g)) ->
  forall a b, late g a = false -> late g b = true -> ~ freach g cy b a.
Proof. exact save_to_delete_edge_on_no_cycle. Qed.
Print Assumptions c31_save_to_delete_edge_on_no_cycle.

(* ------------------------------------------------------------------ the other outcomes *)
Theorem c31_find_cycles_exact : forall T g,
  exists cy, cycles T g = Some cy /\ forall x, In x cy <-> on_cycle (cedges (edges0 T g)) x.
Proof. exact cycles_exact. Qed.
Print Assumptions c31_find_cycles_exact.

Theorem c31_fuel_suffices : forall T g, plan T g <> PFuel.
Proof. exact plan_never_out_of_fuel. Qed.
Print Assumptions c31_fuel_suffices.

(* CircularDependencyError exactly when the final dependency set has a cycle among the final records *)
Theorem c31_circular_iff : forall T g cy, cycles T g = Some cy ->
  forallb (expand_assert g cy) (cyc_actions g cy) = true ->
  (plan T g = PCircular <->
   exists w, cycle (cedges (final_edges T g cy)) w /\ incl w (dedup (map code (final_items g cy)))).
Proof. exact plan_circular_iff. Qed.
Print Assumptions c31_circular_iff.

(* ------------------------------------------------------------------ non-vacuity *)
Local Open Scope N_scope.
(* an adjacency list (self-referential one-to-many + many-to-one on one column: cycle regime): n0
   persistent, n1 pending child of n0, n2 pending child of n1; all hypotheses hold *)
Definition ex_tree : graph := {|
  g_deps := [mkdep 0 0 0 0 false true 0; mkdep 1 1 0 0 false true 0];
  g_sts := [mkst 0 0 true 1; mkst 1 0 false 1; mkst 2 0 false 1];
  g_links := [(0, 0, Some 1); (0, 1, Some 2); (1, 1, Some 0); (1, 2, Some 1); (1, 0, None)];
  g_ref0 := []; g_ref1 := [(1, 0, 0); (2, 0, 1)];
  g_sec0 := []; g_sec1 := []; g_notnull := [] |}.
Example c31_ex_tree : exists cy layers,
  wf ex_tree = true /\ consistent ex_tree = true /\ cycles std_tables ex_tree = Some cy /\ cy <> [] /\
  cyc_ok ex_tree cy = true /\ managed ex_tree cy = true /\ plan std_tables ex_tree = Layers layers /\
  needs ex_tree = [(ESave 1, ESave 2)].
Proof. eexists. eexists. split; [vm_compute; reflexivity|]. split; [vm_compute; reflexivity|].
  split; [vm_compute; reflexivity|]. split; [discriminate|]. split; [vm_compute; reflexivity|].
  split; [vm_compute; reflexivity|]. split; [vm_compute; reflexivity|]. vm_compute; reflexivity. Qed.
